/-
Helper lemmas for C05: the raw footprint of each registry call (`write`, `close`, `push`), complete or interrupted
after any number of micro-operations.
-/
import ForML.Lemmas.C05Inv

namespace ForML.Registry
open ForML.Fs

/-! ### single operations -/

theorem step_createEmpty_spec (f f' : Fs) (p : Path) (h : step f (.createEmpty p) = some f') :
    get f' p = some (.file []) ∧ get f (parent p) = some .dir := by
  simp only [step] at h
  split at h <;> cases h
  rename_i hc
  exact ⟨by simp [get_set], hc.2.1⟩

theorem step_mkdir_spec (f f' : Fs) (p : Path) (h : step f (.mkdir p) = some f') : get f' p = some .dir := by
  simp only [step] at h
  split at h <;> cases h
  simp [get_set]

theorem step_append_spec (f f' : Fs) (p : Path) (b : Bytes) (h : step f (.append p b) = some f') :
    ∃ c, get f p = some (.file c) ∧ get f' p = some (.file (c ++ b)) := by
  simp only [step] at h
  split at h
  · rename_i c hg; cases h; exact ⟨c, hg, by simp [get_set]⟩
  · cases h

theorem step_rename_dst (f f' : Fs) (p q : Path) (h : step f (.rename p q) = some f') : get f' q = get f p := by
  simp only [step] at h
  split at h
  · rename_i c hg
    split at h <;> cases h
    simp [get_set, hg]
  · rename_i hg
    split at h <;> cases h
    rename_i hc
    obtain ⟨_, _, _, hpq, hqp, _⟩ := hc
    rw [get_moveTree f p q q hpq hqp]
    have : swapKey p q q = p := by simp [swapKey, hpq]
    rw [this]
  · cases h

theorem step_rename_src (f f' : Fs) (p q : Path) (hne : p ≠ q) (h : step f (.rename p q) = some f') :
    get f' p = none := by
  simp only [step] at h
  split at h
  · rename_i c hg
    split at h <;> cases h
    simp [get_set, get_del, hne]
  · rename_i hg
    split at h <;> cases h
    rename_i hc
    obtain ⟨_, _, hnone, hpq, hqp, _⟩ := hc
    rw [get_moveTree f p q p hpq hqp]
    have : swapKey p q p = q := by simp [swapKey]
    rw [this]; exact hnone
  · cases h

/-! ### `Registry.close` -/

/-- raw footprint of an interrupted commit of generation `g`: nothing outside the generation and stage directories
changed and the generation still has no tag -/
def QuietAt (x fs : Fs) (p v g : Nat) : Prop :=
  (∀ key, ¬ (generationP p v g <+: key) → ¬ (stageP p v <+: key) → get x key = get fs key)
    ∧ get x (tagP p v g) = none

theorem QuietAt.viewEq {x fs : Fs} {p v g : Nat} (h : QuietAt x fs p v g) (ht : get fs (tagP p v g) = none) :
    ViewEq x fs := by
  intro key
  by_cases hkey : generationP p v g <+: key
  · rw [vis_hidden_gen x p v g h.2 key hkey, vis_hidden_gen fs p v g ht key hkey]
  · exact vis_frame_gen x fs p v g h.1 key hkey

theorem genFrame_of_frame (x fs : Fs) (p v g : Nat)
    (h : ∀ key, ¬ (generationP p v g <+: key) → ¬ (stageP p v <+: key) → get x key = get fs key) :
    GenFrame x fs (p, v, g) := by
  intro p' v' g' key hk hne
  apply h
  · intro hk'
    rcases List.prefix_or_prefix_of_prefix hk hk' with h1 | h1
    · have := h1.eq_of_length (by simp [generationP]); simp [generationP] at this
      exact hne (by simp [this])
    · have := h1.eq_of_length (by simp [generationP]); simp [generationP] at this
      exact hne (by simp [this])
  · intro hk'
    rcases List.prefix_or_prefix_of_prefix hk hk' with h1 | h1
    · have := h1.eq_of_length (by simp [generationP, stageP]); simp [generationP, stageP] at this
    · have := h1.eq_of_length (by simp [generationP, stageP]); simp [generationP, stageP] at this

theorem QuietAt.good {x fs : Fs} {p v : Nat} (h : QuietAt x fs p v (nextGen fs p v)) (wx : WF x) (gd : Good fs) :
    Good x := by
  apply good_of_genframe x fs (p, v, nextGen fs p v) (genFrame_of_frame x fs p v _ h.1) _ (genValid_nextGen fs p v) wx gd
  simp [genValid, h.2]

theorem commit_prefix_raw (impl : Impl) (fs c : Fs) (p v g : Nat) (t : Tag) (A : List Op)
    (k : Nat) (cut : Option Nat)
    (hA : ∀ op ∈ A, op ∈ closeOps impl fs p v g t) (hAt : ∀ op ∈ A, ¬ touches op (tagP p v g))
    (hp : get fs (projectP p) ≠ none) (hv : get fs (releaseP p v) ≠ none)
    (ht : get fs (tagP p v g) = none) (hc : run fs (crashOps A k cut) = some c) : QuietAt c fs p v g := by
  have htouch := crashOps_touches A k cut
  constructor
  · intro key h1 h2
    apply run_frame _ _ _ _ hc
    intro op hop htk
    obtain ⟨op', hop', himp⟩ := htouch op hop
    rcases closeOps_touches impl fs p v g t hp hv op' (hA op' hop') key (himp key htk) with h | h
    · exact h1 h
    · exact h2 h
  · rw [← ht]
    apply run_frame _ _ _ _ hc
    intro op hop htk
    obtain ⟨op', hop', himp⟩ := htouch op hop
    exact hAt op' hop' (himp _ htk)

/-- an interrupted commit (repaired code): quiet, or complete -/
theorem commit_crash_raw (kf : Bool) (fs c : Fs) (p v g : Nat) (t : Tag) (k : Nat) (cut : Option Nat)
    (hp : get fs (projectP p) ≠ none) (hv : get fs (releaseP p v) ≠ none) (ht : get fs (tagP p v g) = none)
    (hc : run fs (crashOps (closeOps ⟨true, kf⟩ fs p v g t) k cut) = some c) :
    QuietAt c fs p v g ∨ run fs (closeOps ⟨true, kf⟩ fs p v g t) = some c := by
  let A := mkdirP fs (generationP p v g)
      ++ t.sids.map (fun s => Op.rename (stagedStateP p v s) (stateP p v g s))
      ++ [Op.createEmpty (tagTmpP p v g), Op.append (tagTmpP p v g) (encodeTag t)]
  have hsplit : closeOps ⟨true, kf⟩ fs p v g t = A ++ [Op.rename (tagTmpP p v g) (tagP p v g)] := by
    simp [closeOps, tagWriteOps, A]
  rw [hsplit, crashOps_snoc A _ (by intro p b h; cases h)] at hc
  split at hc
  · left
    refine commit_prefix_raw ⟨true, kf⟩ fs c p v g t A k cut ?_ ?_ hp hv ht hc
    · intro op hop; rw [hsplit]; exact List.mem_append_left _ hop
    · apply closePrefix_not_tag
      intro op hop
      simp only [List.mem_cons, List.not_mem_nil, or_false] at hop
      rcases hop with rfl | rfl <;> simp [touches, tagP, tagTmpP]
  · right; rw [hsplit]; exact hc

theorem close_frame (impl : Impl) (fs x : Fs) (p v g : Nat) (t : Tag)
    (hp : get fs (projectP p) ≠ none) (hv : get fs (releaseP p v) ≠ none)
    (hr : run fs (closeOps impl fs p v g t) = some x) :
    ∀ key, ¬ (generationP p v g <+: key) → ¬ (stageP p v <+: key) → get x key = get fs key := by
  intro key h1 h2
  apply run_frame _ _ _ _ hr
  intro op hop htk
  rcases closeOps_touches impl fs p v g t hp hv op hop key htk with h | h
  · exact h1 h
  · exact h2 h

def renOps (p v g : Nat) (sids : List Nat) : List Op :=
  sids.map (fun s => Op.rename (stagedStateP p v s) (stateP p v g s))

theorem renames_absent_fail (p v g s0 : Nat) : ∀ (rest : List Nat) (f : Fs),
    get f (stagedStateP p v s0) = none → s0 ∈ rest → run f (renOps p v g rest) = none := by
  intro rest
  induction rest with
  | nil => intro f _ h; cases h
  | cons s1 r ih =>
    intro f habs hin
    simp only [renOps, List.map_cons, run]
    by_cases e : s1 = s0
    · subst e; simp [step, habs]
    · cases hs : step f (Op.rename (stagedStateP p v s1) (stateP p v g s1)) with
      | none => rfl
      | some f' =>
        have hin' : s0 ∈ r := by
          rcases List.mem_cons.mp hin with h | h
          · exact absurd h.symm e
          · exact h
        have : get f' (stagedStateP p v s0) = none := by
          rw [step_frame f f' _ _ hs (by simp [touches, stagedStateP, stateP, e])]; exact habs
        exact ih f' this hin'

/-- a commit can only succeed if the tag's state ids are pairwise distinct (a second move of the same staged file
finds it gone: `Level.Invalid('State … not staged')`) -/
theorem renames_nodup (p v g : Nat) : ∀ (sids : List Nat) (f x : Fs),
    run f (renOps p v g sids) = some x → sids.Nodup := by
  intro sids
  induction sids with
  | nil => intro _ _ _; exact List.nodup_nil
  | cons s0 r ih =>
    intro f x h
    simp only [renOps, List.map_cons, run] at h
    cases hs : step f (Op.rename (stagedStateP p v s0) (stateP p v g s0)) with
    | none => rw [hs] at h; cases h
    | some f' =>
      rw [hs] at h; dsimp only at h
      have hgone := step_rename_src f f' _ _ (by simp [stagedStateP, stateP]) hs
      refine List.nodup_cons.mpr ⟨?_, ih f' x h⟩
      intro hin
      have := renames_absent_fail p v g s0 r f' hgone hin
      simp only [renOps] at this
      rw [this] at h; cases h

/-- after the moves every named state is in the generation directory with the staged content -/
theorem renames_post (p v g : Nat) : ∀ (sids : List Nat) (f x : Fs),
    run f (renOps p v g sids) = some x →
    ∀ s ∈ sids, get x (stateP p v g s) = get f (stagedStateP p v s) := by
  intro sids
  induction sids with
  | nil => intro _ _ _ s hs; cases hs
  | cons s0 r ih =>
    intro f x h s hs
    have hnd := renames_nodup p v g (s0 :: r) f x h
    simp only [renOps, List.map_cons, run] at h
    cases hst : step f (Op.rename (stagedStateP p v s0) (stateP p v g s0)) with
    | none => rw [hst] at h; cases h
    | some f' =>
      rw [hst] at h; dsimp only at h
      have hs0 : s0 ∉ r := (List.nodup_cons.mp hnd).1
      rcases List.mem_cons.mp hs with rfl | hin
      · rw [← step_rename_dst f f' _ _ hst]
        apply run_frame _ _ _ _ h
        intro op hop
        simp only [List.mem_map] at hop
        obtain ⟨s', hs', rfl⟩ := hop
        have : s' ≠ s := fun e => hs0 (e ▸ hs')
        simp [touches, stagedStateP, stateP, this]
      · have hne : s0 ≠ s := fun e => hs0 (e ▸ hin)
        have := ih f' x h s hin
        rw [this]
        exact step_frame f f' _ _ hst (by simp [touches, stagedStateP, stateP, hne])

/-- the content of a completed commit (repaired code) -/
theorem close_content (kf : Bool) (fs x : Fs) (p v g : Nat) (t : Tag)
    (hr : run fs (closeOps ⟨true, kf⟩ fs p v g t) = some x) :
    get x (generationP p v g) = some .dir ∧ get x (tagP p v g) = some (.file (encodeTag t)) ∧
    t.sids.Nodup ∧ ∀ s ∈ t.sids, get x (stateP p v g s) = get fs (stagedStateP p v s) := by
  have hsplit : closeOps ⟨true, kf⟩ fs p v g t = mkdirP fs (generationP p v g) ++ (renOps p v g t.sids
      ++ [Op.createEmpty (tagTmpP p v g), Op.append (tagTmpP p v g) (encodeTag t),
          Op.rename (tagTmpP p v g) (tagP p v g)]) := by
    simp [closeOps, tagWriteOps, renOps]
  rw [hsplit, run_append] at hr
  cases h1 : run fs (mkdirP fs (generationP p v g)) with
  | none => rw [h1] at hr; cases hr
  | some f1 =>
    rw [h1] at hr
    simp only [Option.bind_some, run_append] at hr
    cases h2 : run f1 (renOps p v g t.sids) with
    | none => rw [h2] at hr; cases hr
    | some f2 =>
      rw [h2] at hr
      simp only [Option.bind_some, run] at hr
      cases h3 : step f2 (Op.createEmpty (tagTmpP p v g)) with
      | none => rw [h3] at hr; cases hr
      | some f3 =>
        rw [h3] at hr; dsimp only at hr
        cases h4 : step f3 (Op.append (tagTmpP p v g) (encodeTag t)) with
        | none => rw [h4] at hr; cases hr
        | some f4 =>
          rw [h4] at hr; dsimp only at hr
          cases h5 : step f4 (Op.rename (tagTmpP p v g) (tagP p v g)) with
          | none => rw [h5] at hr; dsimp only at hr; cases hr
          | some f5 =>
            rw [h5] at hr; dsimp only at hr; cases hr
            have c3 := step_createEmpty_spec f2 f3 _ h3
            obtain ⟨c, hc1, hc2⟩ := step_append_spec f3 f4 _ _ h4
            rw [c3.1] at hc1; cases hc1
            have e5 := step_rename_dst f4 x _ _ h5
            have fr : ∀ key, key ≠ tagTmpP p v g → ¬ (tagP p v g <+: key) → ¬ (tagTmpP p v g <+: key) →
                get x key = get f2 key := by
              intro key k1 k2 k3
              rw [step_frame f4 x _ key h5 (by simp [touches, k2, k3]),
                step_frame f3 f4 _ key h4 (by simp [touches, k1]),
                step_frame f2 f3 _ key h3 (by simp [touches, k1])]
            refine ⟨?_, ?_, renames_nodup p v g t.sids f1 f2 h2, ?_⟩
            · rw [fr _ (by simp [generationP, tagTmpP]) (by simp [generationP, tagP]) (by simp [generationP, tagTmpP])]
              have := c3.2
              simpa [parent, tagTmpP, generationP] using this
            · rw [e5, hc2]; simp
            · intro s hs
              rw [fr _ (by simp [stateP, tagTmpP]) (by simp [stateP, tagP]) (by simp [stateP, tagTmpP]),
                renames_post p v g t.sids f1 f2 h2 s hs]
              apply run_frame _ _ _ _ h1
              intro op hop
              obtain ⟨q, hq, rfl, _⟩ := mem_mkdirP _ _ _ hop
              simp only [generationP, prefixes, List.map_cons, List.map_nil, List.mem_cons, List.not_mem_nil,
                or_false] at hq
              rcases hq with rfl | rfl | rfl <;> simp [touches, stagedStateP]

/-! ### `Registry.write` -/

theorem write_frame (fs x : Fs) (p v sid : Nat) (b : Bytes) (k : Nat) (cut : Option Nat)
    (hp : get fs (projectP p) ≠ none) (hv : get fs (releaseP p v) ≠ none)
    (hc : run fs (crashOps (writeOps fs p v sid b) k cut) = some x) :
    ∀ key, ¬ (stageP p v <+: key) → get x key = get fs key := by
  intro key hk
  apply run_frame _ _ _ _ hc
  intro op hop htk
  obtain ⟨op', hop', himp⟩ := crashOps_touches _ k cut op hop
  exact hk (writeOps_touches fs p v sid b hp hv op' hop' key (himp key htk))

theorem write_full_frame (fs x : Fs) (p v sid : Nat) (b : Bytes)
    (hp : get fs (projectP p) ≠ none) (hv : get fs (releaseP p v) ≠ none)
    (hc : run fs (writeOps fs p v sid b) = some x) :
    ∀ key, ¬ (stageP p v <+: key) → get x key = get fs key := by
  intro key hk
  apply run_frame _ _ _ _ hc
  intro op hop htk
  exact hk (writeOps_touches fs p v sid b hp hv op hop key htk)

theorem write_content (fs x : Fs) (p v sid : Nat) (b : Bytes) (hc : run fs (writeOps fs p v sid b) = some x) :
    get x (stagedStateP p v sid) = some (.file b) ∧
    ∀ s, s ≠ sid → get x (stagedStateP p v s) = get fs (stagedStateP p v s) := by
  simp only [writeOps, run_append] at hc
  cases h1 : run fs (mkdirP fs (stageP p v)) with
  | none => rw [h1] at hc; cases hc
  | some f1 =>
    rw [h1] at hc
    simp only [Option.bind_some, run] at hc
    cases h2 : step f1 (Op.createEmpty (stagedStateP p v sid)) with
    | none => rw [h2] at hc; cases hc
    | some f2 =>
      rw [h2] at hc; dsimp only at hc
      cases h3 : step f2 (Op.append (stagedStateP p v sid) b) with
      | none => rw [h3] at hc; cases hc
      | some f3 =>
        rw [h3] at hc; dsimp only at hc; cases hc
        constructor
        · obtain ⟨c, hc1, hc2⟩ := step_append_spec f2 x _ _ h3
          rw [(step_createEmpty_spec f1 f2 _ h2).1] at hc1; cases hc1
          rw [hc2]; simp
        · intro s hs
          rw [step_frame f2 x _ _ h3 (by simp [touches, stagedStateP, hs]),
            step_frame f1 f2 _ _ h2 (by simp [touches, stagedStateP, hs])]
          apply run_frame _ _ _ _ h1
          intro op hop
          obtain ⟨q, hq, rfl, _⟩ := mem_mkdirP _ _ _ hop
          simp only [stageP, prefixes, List.map_cons, List.map_nil, List.mem_cons, List.not_mem_nil,
            or_false] at hq
          rcases hq with rfl | rfl | rfl <;> simp [touches, stagedStateP]

/-! ### `Registry.push` -/

/-- raw footprint of an interrupted publish: only the (missing) project / release directories were created and
something lies below the temporary package name -/
def QuietPub (x fs : Fs) (p v : Nat) : Prop :=
  (∀ key, key ≠ projectP p → key ≠ releaseP p v → ¬ (packageTmpP p v <+: key) → get x key = get fs key)
    ∧ (get fs (projectP p) ≠ none → get x (projectP p) = get fs (projectP p))

theorem QuietPub.viewEq {x fs : Fs} {p v : Nat} (h : QuietPub x fs p v) (w : WF fs)
    (hb : get fs (packageP p v) = none) : ViewEq x fs :=
  vis_frame_rel x fs p v w h.1 h.2 hb

theorem QuietPub.good {x fs : Fs} {p v : Nat} (h : QuietPub x fs p v) (wx : WF x) (gd : Good fs) : Good x := by
  apply good_of_genframe x fs (p, v, 0) _ (by simp [genValid]) (by simp [genValid]) wx gd
  intro p' v' g' key hk _
  obtain ⟨r, rfl⟩ := hk
  apply h.1 <;> simp [generationP, projectP, releaseP, packageTmpP]

/-- the temporary writes of the repaired `push` and its last step -/
theorem pushOps_split (kf : Bool) (fs : Fs) (p v : Nat) (pkg : Pkg) : ∃ tmpOps : List Op,
    pushOps ⟨true, kf⟩ fs p v pkg
      = (mkdirP fs (releaseP p v) ++ tmpOps) ++ [Op.rename (packageTmpP p v) (packageP p v)]
    ∧ ∀ op ∈ tmpOps, ∀ key, touches op key → packageTmpP p v <+: key := by
  cases pkg with
  | file b =>
    refine ⟨[.createEmpty (packageTmpP p v), .append (packageTmpP p v) b], by simp [pushOps, packageWriteOps], ?_⟩
    intro op hop key hk
    simp only [List.mem_cons, List.not_mem_nil, or_false] at hop
    rcases hop with rfl | rfl <;> (simp only [touches] at hk; subst hk; exact List.prefix_refl _)
  | dir ms =>
    refine ⟨rmtreeP fs (packageTmpP p v) ++ .mkdir (packageTmpP p v)
        :: ms.map (fun m => .copyFile (packageTmpP p v ++ [.member m.1]) m.2),
      by simp [pushOps, packageWriteOps], ?_⟩
    intro op hop key hk
    simp only [List.mem_append, List.mem_cons, List.mem_map] at hop
    rcases hop with hop | rfl | ⟨m, _, rfl⟩
    · unfold rmtreeP at hop
      split at hop
      · simp only [List.mem_cons, List.not_mem_nil, or_false] at hop
        subst hop; exact hk
      · cases hop
    · simp only [touches] at hk; subst hk; exact List.prefix_refl _
    · simp only [touches] at hk; subst hk; exact List.prefix_append _ _

/-- an interrupted publish (repaired code): quiet, or complete -/
theorem push_crash_raw (kf : Bool) (fs c : Fs) (p v : Nat) (pkg : Pkg) (k : Nat) (cut : Option Nat)
    (hc : run fs (crashOps (atomsAll (pushOps ⟨true, kf⟩ fs p v pkg)) k cut) = some c) :
    QuietPub c fs p v ∨ run fs (atomsAll (pushOps ⟨true, kf⟩ fs p v pkg)) = some c := by
  obtain ⟨tmpOps, hsplit, htmp⟩ := pushOps_split kf fs p v pkg
  rw [hsplit, atomsAll_append] at hc ⊢
  have hlast : atomsAll [Op.rename (packageTmpP p v) (packageP p v)] = [Op.rename (packageTmpP p v) (packageP p v)] := rfl
  rw [hlast] at hc ⊢
  rw [crashOps_snoc _ _ (by intro p b h; cases h)] at hc
  split at hc
  · left
    have htouch : ∀ op ∈ crashOps (atomsAll (mkdirP fs (releaseP p v) ++ tmpOps)) k cut, ∀ key, touches op key →
        (key = projectP p ∧ get fs key = none) ∨ (key = releaseP p v ∧ get fs key = none)
          ∨ packageTmpP p v <+: key := by
      intro op hop key hk
      obtain ⟨a, ha, h1⟩ := crashOps_touches _ k cut op hop
      obtain ⟨o, ho, h2⟩ := atomsAll_touches _ a ha
      exact pushPrefix_touches fs p v tmpOps htmp o ho key (h2 key (h1 key hk))
    constructor
    · intro key k1 k2 k3
      apply run_frame _ _ _ _ hc
      intro op hop htk
      rcases htouch op hop key htk with h | h | h
      · exact k1 h.1
      · exact k2 h.1
      · exact k3 h
    · intro hne
      apply run_frame _ _ _ _ hc
      intro op hop htk
      rcases htouch op hop _ htk with h | h | h
      · exact hne h.2
      · simp [projectP, releaseP] at h
      · simp [projectP, packageTmpP] at h
  · right; exact hc

/-- raw footprint of a completed publish -/
def PubFrame (x fs : Fs) (p v : Nat) : Prop :=
  (∀ key, key ≠ projectP p → key ≠ releaseP p v → ¬ (packageTmpP p v <+: key) → ¬ (packageP p v <+: key) →
    get x key = get fs key)
    ∧ (get fs (projectP p) ≠ none → get x (projectP p) = get fs (projectP p))

theorem push_full_frame (kf : Bool) (fs x : Fs) (p v : Nat) (pkg : Pkg)
    (hr : run fs (atomsAll (pushOps ⟨true, kf⟩ fs p v pkg)) = some x) : PubFrame x fs p v := by
  obtain ⟨tmpOps, hsplit, htmp⟩ := pushOps_split kf fs p v pkg
  have htouch : ∀ op ∈ atomsAll (pushOps ⟨true, kf⟩ fs p v pkg), ∀ key, touches op key →
      (key = projectP p ∧ get fs key = none) ∨ (key = releaseP p v ∧ get fs key = none)
        ∨ packageTmpP p v <+: key ∨ packageP p v <+: key := by
    intro a ha key hk
    obtain ⟨o, ho, h2⟩ := atomsAll_touches _ a ha
    rw [hsplit] at ho
    rcases List.mem_append.mp ho with ho | ho
    · rcases pushPrefix_touches fs p v tmpOps htmp o ho key (h2 key hk) with h | h | h
      · exact Or.inl h
      · exact Or.inr (Or.inl h)
      · exact Or.inr (Or.inr (Or.inl h))
    · simp only [List.mem_cons, List.not_mem_nil, or_false] at ho
      subst ho
      have := h2 key hk
      simp only [touches] at this
      rcases this with h | h
      · exact Or.inr (Or.inr (Or.inl h))
      · exact Or.inr (Or.inr (Or.inr h))
  constructor
  · intro key k1 k2 k3 k4
    apply run_frame _ _ _ _ hr
    intro op hop htk
    rcases htouch op hop key htk with h | h | h | h
    · exact k1 h.1
    · exact k2 h.1
    · exact k3 h
    · exact k4 h
  · intro hne
    apply run_frame _ _ _ _ hr
    intro op hop htk
    rcases htouch op hop _ htk with h | h | h | h
    · exact hne h.2
    · simp [projectP, releaseP] at h
    · simp [projectP, packageTmpP] at h
    · simp [projectP, packageP] at h

theorem PubFrame.good {x fs : Fs} {p v : Nat} (h : PubFrame x fs p v) (wx : WF x) (gd : Good fs) : Good x := by
  apply good_of_genframe x fs (p, v, 0) _ (by simp [genValid]) (by simp [genValid]) wx gd
  intro p' v' g' key hk _
  obtain ⟨r, rfl⟩ := hk
  apply h.1 <;> simp [generationP, projectP, releaseP, packageTmpP, packageP]

/-- the published package is at its place (repaired code) -/
theorem push_content (kf : Bool) (fs x : Fs) (p v : Nat) (pkg : Pkg)
    (hr : run fs (atomsAll (pushOps ⟨true, kf⟩ fs p v pkg)) = some x) :
    get x (releaseP p v) = some .dir ∧
    match pkg with
    | .file b => get x (packageP p v) = some (.file b)
    | .dir _ => get x (packageP p v) = some .dir := by
  obtain ⟨tmpOps, hsplit, htmp⟩ := pushOps_split kf fs p v pkg
  have hlast : atomsAll [Op.rename (packageTmpP p v) (packageP p v)] = [Op.rename (packageTmpP p v) (packageP p v)] := rfl
  rw [hsplit, atomsAll_append, hlast, run_append] at hr
  cases h1 : run fs (atomsAll (mkdirP fs (releaseP p v) ++ tmpOps)) with
  | none => rw [h1] at hr; cases hr
  | some f1 =>
    rw [h1] at hr
    simp only [Option.bind_some, run] at hr
    cases h2 : step f1 (Op.rename (packageTmpP p v) (packageP p v)) with
    | none => rw [h2] at hr; cases hr
    | some f2 =>
      rw [h2] at hr; dsimp only at hr; cases hr
      have hdst := step_rename_dst f1 x _ _ h2
      constructor
      · -- the rename succeeded, so the target's parent is a directory
        have hpar : get f1 (releaseP p v) = some .dir := by
          simp only [step] at h2
          split at h2
          · split at h2 <;> cases h2
            rename_i hc; simpa [parent, packageP, releaseP] using hc.2.1
          · split at h2 <;> cases h2
            rename_i hc; simpa [parent, packageP, releaseP] using hc.2.1
          · cases h2
        rw [step_frame f1 x _ _ h2 (by simp [touches, releaseP, packageTmpP, packageP])]
        exact hpar
      · cases pkg with
        | file b =>
          -- tmpOps = [create, append]
          have htm : tmpOps = [.createEmpty (packageTmpP p v), .append (packageTmpP p v) b] := by
            have := hsplit
            simp only [pushOps, packageWriteOps, if_true] at this
            have h3 := List.append_cancel_left (by simpa [List.append_assoc] using this :
              mkdirP fs (releaseP p v) ++ ([.createEmpty (packageTmpP p v), .append (packageTmpP p v) b,
                .rename (packageTmpP p v) (packageP p v)]) = mkdirP fs (releaseP p v) ++ (tmpOps ++ [.rename (packageTmpP p v) (packageP p v)]))
            have : [Op.createEmpty (packageTmpP p v), Op.append (packageTmpP p v) b]
                ++ [Op.rename (packageTmpP p v) (packageP p v)] = tmpOps ++ [Op.rename (packageTmpP p v) (packageP p v)] := by
              simpa using h3
            exact (List.append_cancel_right this).symm
          subst htm
          rw [atomsAll_append, run_append] at h1
          cases h0 : run fs (atomsAll (mkdirP fs (releaseP p v))) with
          | none => rw [h0] at h1; cases h1
          | some f0 =>
            rw [h0] at h1
            have : atomsAll [Op.createEmpty (packageTmpP p v), Op.append (packageTmpP p v) b]
                = [Op.createEmpty (packageTmpP p v), Op.append (packageTmpP p v) b] := rfl
            rw [this] at h1
            simp only [Option.bind_some, run] at h1
            cases h3 : step f0 (Op.createEmpty (packageTmpP p v)) with
            | none => rw [h3] at h1; cases h1
            | some f3 =>
              rw [h3] at h1; dsimp only at h1
              cases h4 : step f3 (Op.append (packageTmpP p v) b) with
              | none => rw [h4] at h1; cases h1
              | some f4 =>
                rw [h4] at h1; dsimp only at h1; cases h1
                obtain ⟨c, hc1, hc2⟩ := step_append_spec f3 f1 _ _ h4
                rw [(step_createEmpty_spec f0 f3 _ h3).1] at hc1; cases hc1
                show get x (packageP p v) = some (.file b)
                rw [hdst, hc2]; simp
        | dir ms =>
          show get x (packageP p v) = some .dir
          -- the source of the final rename is the directory made by `mkdir` (copies go below it)
          rw [hdst]
          have hsrc : ∃ n, get f1 (packageTmpP p v) = some n := by
            simp only [step] at h2
            split at h2
            · rename_i c hg; exact ⟨_, hg⟩
            · rename_i hg; exact ⟨_, hg⟩
            · cases h2
          obtain ⟨n, hn⟩ := hsrc
          cases n with
          | dir => exact hn
          | file c =>
            exfalso
            -- impossible: the last operation touching the temporary name itself is `mkdir`
            have htm : tmpOps = rmtreeP fs (packageTmpP p v) ++ .mkdir (packageTmpP p v)
                :: ms.map (fun m => .copyFile (packageTmpP p v ++ [.member m.1]) m.2) := by
              have := hsplit
              simp only [pushOps, packageWriteOps, if_true] at this
              have h3 := List.append_cancel_left (by simpa [List.append_assoc] using this :
                mkdirP fs (releaseP p v) ++ (rmtreeP fs (packageTmpP p v) ++ .mkdir (packageTmpP p v)
                  :: (ms.map (fun m => Op.copyFile (packageTmpP p v ++ [.member m.1]) m.2)
                  ++ [.rename (packageTmpP p v) (packageP p v)]))
                  = mkdirP fs (releaseP p v) ++ (tmpOps ++ [.rename (packageTmpP p v) (packageP p v)]))
              have : (rmtreeP fs (packageTmpP p v) ++ .mkdir (packageTmpP p v)
                  :: ms.map (fun m => Op.copyFile (packageTmpP p v ++ [.member m.1]) m.2))
                  ++ [Op.rename (packageTmpP p v) (packageP p v)] = tmpOps ++ [Op.rename (packageTmpP p v) (packageP p v)] := by
                simpa [List.append_assoc] using h3
              exact (List.append_cancel_right this).symm
            subst htm
            have hre : mkdirP fs (releaseP p v) ++ (rmtreeP fs (packageTmpP p v) ++ Op.mkdir (packageTmpP p v)
                  :: ms.map (fun m => Op.copyFile (packageTmpP p v ++ [.member m.1]) m.2))
                = ((mkdirP fs (releaseP p v) ++ rmtreeP fs (packageTmpP p v)) ++ [Op.mkdir (packageTmpP p v)])
                  ++ ms.map (fun m => Op.copyFile (packageTmpP p v ++ [.member m.1]) m.2) := by simp
            rw [hre, atomsAll_append, run_append] at h1
            cases h0 : run fs (atomsAll ((mkdirP fs (releaseP p v) ++ rmtreeP fs (packageTmpP p v))
                ++ [Op.mkdir (packageTmpP p v)])) with
            | none => rw [h0] at h1; cases h1
            | some f0 =>
              rw [h0] at h1
              simp only [Option.bind_some] at h1
              -- after `mkdir` the temporary name is a directory
              have hd : get f0 (packageTmpP p v) = some .dir := by
                rw [atomsAll_append, run_append] at h0
                cases h00 : run fs (atomsAll (mkdirP fs (releaseP p v) ++ rmtreeP fs (packageTmpP p v))) with
                | none => rw [h00] at h0; cases h0
                | some f00 =>
                  rw [h00] at h0
                  have : atomsAll [Op.mkdir (packageTmpP p v)] = [Op.mkdir (packageTmpP p v)] := rfl
                  rw [this] at h0
                  simp only [Option.bind_some, run] at h0
                  cases h01 : step f00 (Op.mkdir (packageTmpP p v)) with
                  | none => rw [h01] at h0; cases h0
                  | some f01 => rw [h01] at h0; dsimp only at h0; cases h0; exact step_mkdir_spec _ _ _ h01
              -- the copies only touch paths strictly below it
              have : get f1 (packageTmpP p v) = get f0 (packageTmpP p v) := by
                apply run_frame _ _ _ _ h1
                intro op hop htk
                obtain ⟨o, ho, h2'⟩ := atomsAll_touches _ op hop
                simp only [List.mem_map] at ho
                obtain ⟨m, _, rfl⟩ := ho
                have := h2' _ htk
                simp [touches, packageTmpP] at this
              rw [this, hd] at hn; cases hn

/-! ### members of a published tree package -/

theorem step_rename_dir_get (f f' : Fs) (p q : Path) (h : step f (.rename p q) = some f')
    (hd : get f p = some .dir) : ∀ k, get f' k = get f (swapKey p q k) := by
  intro k
  simp only [step, hd] at h
  split at h <;> cases h
  rename_i hc
  obtain ⟨_, _, _, hpq, hqp, _⟩ := hc
  exact get_moveTree f p q k hpq hqp

def copyOps (base : Path) (ms : List (Nat × Bytes)) : List Op :=
  ms.map (fun m => Op.copyFile (base ++ [.member m.1]) m.2)

theorem copies_content (base : Path) : ∀ (ms : List (Nat × Bytes)) (f f1 : Fs),
    run f (atomsAll (copyOps base ms)) = some f1 → (ms.map (·.1)).Nodup →
    ∀ m ∈ ms, get f1 (base ++ [.member m.1]) = some (.file m.2) := by
  intro ms
  induction ms with
  | nil => intro _ _ _ _ m hm; cases hm
  | cons m0 r ih =>
    intro f f1 h hnd m hm
    simp only [List.map_cons, List.nodup_cons] at hnd
    have hsplit : atomsAll (copyOps base (m0 :: r))
        = [Op.createEmpty (base ++ [.member m0.1]), Op.append (base ++ [.member m0.1]) m0.2]
          ++ atomsAll (copyOps base r) := by
      simp [copyOps, atomsAll, Op.atoms]
    rw [hsplit, run_append] at h
    cases h0 : run f [Op.createEmpty (base ++ [.member m0.1]), Op.append (base ++ [.member m0.1]) m0.2] with
    | none => rw [h0] at h; cases h
    | some f' =>
      rw [h0] at h
      simp only [Option.bind_some] at h
      rcases List.mem_cons.mp hm with rfl | hin
      · have hnot : ∀ op ∈ atomsAll (copyOps base r), ¬ touches op (base ++ [.member m.1]) := by
          intro op hop htk
          obtain ⟨o, ho, h2⟩ := atomsAll_touches _ op hop
          simp only [copyOps, List.mem_map] at ho
          obtain ⟨m', hm', rfl⟩ := ho
          have := h2 _ htk
          simp only [touches, List.append_cancel_left_eq, List.cons.injEq, Seg.member.injEq, and_true] at this
          exact hnd.1 (List.mem_map.mpr ⟨m', hm', this.symm⟩)
        rw [run_frame _ _ _ _ h hnot]
        simp only [run] at h0
        cases h3 : step f (Op.createEmpty (base ++ [.member m.1])) with
        | none => rw [h3] at h0; cases h0
        | some f3 =>
          rw [h3] at h0; dsimp only at h0
          cases h4 : step f3 (Op.append (base ++ [.member m.1]) m.2) with
          | none => rw [h4] at h0; cases h0
          | some f4 =>
            rw [h4] at h0; dsimp only at h0; cases h0
            obtain ⟨c, hc1, hc2⟩ := step_append_spec f3 f' _ _ h4
            rw [(step_createEmpty_spec f f3 _ h3).1] at hc1; cases hc1
            rw [hc2]; simp
      · exact ih f' f1 h hnd.2 m hin



theorem push_dir_decomp (kf : Bool) (fs x : Fs) (p v : Nat) (ms : List (Nat × Bytes))
    (hr : run fs (atomsAll (pushOps ⟨true, kf⟩ fs p v (.dir ms))) = some x) :
    ∃ f0 f1, get f0 (packageTmpP p v) = some .dir
      ∧ run f0 (atomsAll (copyOps (packageTmpP p v) ms)) = some f1
      ∧ step f1 (Op.rename (packageTmpP p v) (packageP p v)) = some x := by
  have hre : pushOps ⟨true, kf⟩ fs p v (.dir ms)
      = (((mkdirP fs (releaseP p v) ++ rmtreeP fs (packageTmpP p v)) ++ [Op.mkdir (packageTmpP p v)])
        ++ copyOps (packageTmpP p v) ms) ++ [Op.rename (packageTmpP p v) (packageP p v)] := by
    simp [pushOps, packageWriteOps, copyOps]
  have hlast : atomsAll [Op.rename (packageTmpP p v) (packageP p v)] = [Op.rename (packageTmpP p v) (packageP p v)] := rfl
  have hmk : atomsAll [Op.mkdir (packageTmpP p v)] = [Op.mkdir (packageTmpP p v)] := rfl
  rw [hre, atomsAll_append, hlast, run_append] at hr
  cases h1 : run fs (atomsAll (((mkdirP fs (releaseP p v) ++ rmtreeP fs (packageTmpP p v)) ++ [Op.mkdir (packageTmpP p v)])
        ++ copyOps (packageTmpP p v) ms)) with
  | none => rw [h1] at hr; cases hr
  | some f1 =>
    rw [h1] at hr
    simp only [Option.bind_some, run] at hr
    cases h2 : step f1 (Op.rename (packageTmpP p v) (packageP p v)) with
    | none => rw [h2] at hr; cases hr
    | some f2 =>
      rw [h2] at hr; dsimp only at hr; cases hr
      rw [atomsAll_append, run_append] at h1
      cases h0 : run fs (atomsAll ((mkdirP fs (releaseP p v) ++ rmtreeP fs (packageTmpP p v)) ++ [Op.mkdir (packageTmpP p v)])) with
      | none => rw [h0] at h1; cases h1
      | some f0 =>
        rw [h0] at h1
        simp only [Option.bind_some] at h1
        refine ⟨f0, f1, ?_, h1, h2⟩
        rw [atomsAll_append, run_append, hmk] at h0
        cases h00 : run fs (atomsAll (mkdirP fs (releaseP p v) ++ rmtreeP fs (packageTmpP p v))) with
        | none => rw [h00] at h0; cases h0
        | some f00 =>
          rw [h00] at h0
          simp only [Option.bind_some, run] at h0
          cases h01 : step f00 (Op.mkdir (packageTmpP p v)) with
          | none => rw [h01] at h0; cases h0
          | some f01 => rw [h01] at h0; dsimp only at h0; cases h0; exact step_mkdir_spec _ _ _ h01

/-- every member of a published tree package is at its place with its bytes -/
theorem push_members (kf : Bool) (fs x : Fs) (p v : Nat) (ms : List (Nat × Bytes))
    (hr : run fs (atomsAll (pushOps ⟨true, kf⟩ fs p v (.dir ms))) = some x) (hnd : (ms.map (·.1)).Nodup) :
    ∀ m ∈ ms, get x (packageP p v ++ [.member m.1]) = some (.file m.2) := by
  obtain ⟨f0, f1, hd, hc, hs⟩ := push_dir_decomp kf fs x p v ms hr
  have hd1 : get f1 (packageTmpP p v) = some .dir := by
    rw [← hd]
    apply run_frame _ _ _ _ hc
    intro op hop htk
    obtain ⟨o, ho, h2⟩ := atomsAll_touches _ op hop
    simp only [copyOps, List.mem_map] at ho
    obtain ⟨m, _, rfl⟩ := ho
    have := h2 _ htk
    simp [touches, packageTmpP] at this
  intro m hm
  rw [step_rename_dir_get f1 x _ _ hs hd1]
  have : swapKey (packageTmpP p v) (packageP p v) (packageP p v ++ [.member m.1])
      = packageTmpP p v ++ [.member m.1] := by
    simp [swapKey, packageTmpP, packageP]
  rw [this]
  exact copies_content (packageTmpP p v) ms f0 f1 hc hnd m hm


end ForML.Registry
