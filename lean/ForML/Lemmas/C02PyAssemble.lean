/-
C02 helper lemmas: `Expression.__init__` (model `assemble` / `expression`). Every term sitting in a provider deque
of an already assembled node is good for that node; hence the final term is good for the last node of the DAG.
-/
import ForML.Lemmas.C02PyBuild

namespace ForML.Flow.PyFunc
open ForML.Flow

theorem Providers.get_set (p : Providers) (k : Key) (d : List Term) (k' : Key) :
    (p.set k d).get k' = if k' = k then some d else p.get k' := by
  induction p with
  | nil =>
    simp only [Providers.set, Providers.get]
    by_cases h : k' = k
    · simp [h]
    · have : ¬ k = k' := fun e => h e.symm
      simp [h, this]
  | cons e r ih =>
    obtain ⟨k0, d0⟩ := e
    simp only [Providers.set]
    by_cases h0 : k0 = k
    · subst h0
      simp only [if_true, Providers.get]
      by_cases h : k0 = k'
      · simp [h]
      · have : ¬ k' = k0 := fun e => h e.symm
        simp [h, this]
    · simp only [h0, if_false, Providers.get]
      by_cases h : k0 = k'
      · subst h
        simp [h0]
      · simp only [h, if_false, ih]

/-- good for every input -/
def GoodAll (D : Val → Key → Val) (U : Term) (k : Key) : Prop := ∀ x, Good (D x) x U k

/-- arguments are assembled before their consumers -/
def Earlier : List Key → List Node → Prop
  | _, [] => True
  | seen, n :: rest => (∀ a ∈ n.args, a ∈ seen) ∧ Earlier (seen ++ [n.key]) rest

/-- provider invariant: unprocessed nodes still hold exactly their raw term, everything provided by processed
nodes is good -/
structure PInv (D : Val → Key → Val) (p : Providers) (seen : List Key) (rest : List Node) : Prop where
  raw : ∀ n ∈ rest, p.get n.key = some [.raw n.key n.raw]
  good : ∀ k ∈ seen, ∀ d, p.get k = some d → ∀ U ∈ d, GoodAll D U k

theorem popleft_spec {p : Providers} {k : Key} {U : Term} {p' : Providers} (h : popleft p k = .ok (U, p')) :
    ∃ d, p.get k = some (U :: d) ∧ p' = p.set k d := by
  unfold popleft at h
  split at h
  · cases h
  · cases h
  · rename_i x d hg
    cases h
    exact ⟨d, hg, rfl⟩

theorem All₂.imp {α β : Type} {P Q : α → β → Prop} (h : ∀ a b, P a b → Q a b) :
    ∀ {as : List α} {bs : List β}, All₂ P as bs → All₂ Q as bs
  | _, _, .nil => .nil
  | _, _, .cons hab hr => .cons (h _ _ hab) (All₂.imp h hr)

theorem popArgs_spec {D : Val → Key → Val} {seen : List Key} {rest : List Node}
    (hdisj : ∀ n ∈ rest, n.key ∉ seen) :
    ∀ (as : List Key) (p : Providers) (Us : List Term) (p' : Providers), popArgs as p = .ok (Us, p') →
      (∀ a ∈ as, a ∈ seen) → PInv D p seen rest → All₂ (GoodAll D) Us as ∧ PInv D p' seen rest := by
  intro as
  induction as with
  | nil => intro p Us p' h _ hp; simp only [popArgs] at h; cases h; exact ⟨.nil, hp⟩
  | cons a as ih =>
    intro p Us p' h hin hp
    simp only [popArgs] at h
    cases hpop : popleft p a with
    | error e => simp [hpop] at h
    | ok r1 =>
      obtain ⟨U, p1⟩ := r1
      simp only [hpop] at h
      cases hrest : popArgs as p1 with
      | error e => simp [hrest] at h
      | ok r2 =>
        obtain ⟨Us', p2⟩ := r2
        simp only [hrest] at h
        cases h
        obtain ⟨d, hg, rfl⟩ := popleft_spec hpop
        have ha : a ∈ seen := hin a (List.mem_cons_self ..)
        have hp1 : PInv D (p.set a d) seen rest := by
          refine ⟨?_, ?_⟩
          · intro n hn
            rw [Providers.get_set]
            have : n.key ≠ a := fun e => hdisj n hn (e ▸ ha)
            simp [this, hp.raw n hn]
          · intro k hk d' hd' U' hU'
            rw [Providers.get_set] at hd'
            split at hd'
            · rename_i he
              subst he
              cases hd'
              exact hp.good k hk _ hg U' (List.mem_cons_of_mem _ hU')
            · exact hp.good k hk d' hd' U' hU'
        have := ih _ _ _ hrest (fun b hb => hin b (List.mem_cons_of_mem _ hb)) hp1
        exact ⟨.cons (hp.good a ha _ hg U (List.mem_cons_self ..)) this.1, this.2⟩

/-- the assembling loop keeps the provider invariant -/
theorem assemble_spec {D : Val → Key → Val} :
    ∀ (rest : List Node) (seen : List Key) (p p' : Providers), assemble rest p = .ok p' →
      (rest.map (·.key)).Nodup → (∀ n ∈ rest, n.key ∉ seen) → Earlier seen rest →
      (∀ n ∈ rest, ∀ x, n.raw.call (n.args.map (D x)) = D x n.key) →
      PInv D p seen rest → PInv D p' (seen ++ rest.map (·.key)) [] := by
  intro rest
  induction rest with
  | nil => intro seen p p' h _ _ _ _ hp; simp only [assemble] at h; cases h; simpa using hp
  | cons n rest ih =>
    intro seen p p' h hnd hdisj hearly hraw hp
    simp only [assemble] at h
    cases hpa : popArgs n.args p with
    | error e => simp [hpa] at h
    | ok r1 =>
      obtain ⟨Us, p1⟩ := r1
      simp only [hpa] at h
      cases hown : popleft p1 n.key with
      | error e => simp [hown] at h
      | ok r2 =>
        obtain ⟨own, p2⟩ := r2
        simp only [hown] at h
        obtain ⟨hUs, hp1⟩ := popArgs_spec hdisj n.args p Us p1 hpa hearly.1 hp
        obtain ⟨d, hg, rfl⟩ := popleft_spec hown
        have hrawn := hp1.raw n (List.mem_cons_self ..)
        rw [hrawn] at hg
        cases hg
        simp only [List.map_cons, List.nodup_cons] at hnd
        cases Us with
        | nil => simp at h
        | cons U0 Us0 =>
          have hget : (p1.set n.key []).get n.key = some [] := by rw [Providers.get_set]; simp
          simp only [hget, Option.getD_some, List.nil_append] at h
          have hgoodcall : GoodAll D (.call n.key n.raw (U0 :: Us0)) n.key := by
            intro x
            exact good_call (All₂.imp (fun _ _ hh => hh x) hUs) (hraw n (List.mem_cons_self ..) x)
          have hp3 : PInv D ((p1.set n.key []).set n.key (fork n.key (.call n.key n.raw (U0 :: Us0)) n.szout))
              (seen ++ [n.key]) rest := by
            refine ⟨?_, ?_⟩
            · intro m hm
              have hne' : m.key ≠ n.key := fun e => hnd.1 (e ▸ List.mem_map_of_mem hm)
              rw [Providers.get_set, Providers.get_set]
              simp [hne', hp1.raw m (List.mem_cons_of_mem _ hm)]
            · intro k' hk' d' hd' U' hU'
              rw [Providers.get_set] at hd'
              split at hd'
              · rename_i he
                subst he
                cases hd'
                intro x
                exact good_fork _ (hgoodcall x) U' hU'
              · rename_i hne'
                rw [Providers.get_set] at hd'
                simp only [hne', if_false] at hd'
                rcases List.mem_append.1 hk' with h1 | h1
                · exact hp1.good k' h1 d' hd' U' hU'
                · simp at h1; exact absurd h1 hne'
          have := ih (seen ++ [n.key]) _ p' h hnd.2
            (by
              intro m hm hin
              rcases List.mem_append.1 hin with h1 | h1
              · exact hdisj m (List.mem_cons_of_mem _ hm) h1
              · simp at h1; exact hnd.1 (h1 ▸ List.mem_map_of_mem hm))
            hearly.2 (fun m hm => hraw m (List.mem_cons_of_mem _ hm)) hp3
          simpa [List.append_assoc] using this

end ForML.Flow.PyFunc
