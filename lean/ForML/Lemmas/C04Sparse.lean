/-
C04 helper lemmas, part 15: sparse generation listings (Model/PersistSparse.lean).  `Release.put` numbers a new
generation with the successor of the greatest listed key: never an existing key, whatever has been pruned; an action
keeps every listed generation as it is; binding holds for histories with housekeeping in between.
-/
import ForML.Model.PersistSparse
import ForML.Lemmas.C04Modes
import ForML.Lemmas.C04Step

namespace ForML.Persist

namespace SReg

theorem lt_nextKey : ∀ (r : SReg), r.Ascending → ∀ e ∈ r, e.1 < r.nextKey := by
  intro r
  induction r with
  | nil => intro _ e he; cases he
  | cons a rest ih =>
    intro hasc e he
    have hp := List.pairwise_cons.mp hasc
    cases rest with
    | nil =>
      simp only [List.mem_singleton] at he
      subst he
      simp [nextKey]
    | cons b rest' =>
      have hlast : nextKey (a :: b :: rest') = nextKey (b :: rest') := by
        simp [nextKey, List.getLast?_cons_cons]
      rw [hlast]
      simp only [List.mem_cons] at he
      rcases he with rfl | he
      · have h1 := hp.1 b (by simp)
        have h2 := ih hp.2 b (by simp)
        omega
      · exact ih hp.2 e (by simpa using he)

theorem nextKey_not_mem (r : SReg) (h : r.Ascending) : r.nextKey ∉ r.keys := by
  intro hm
  simp only [keys, List.mem_map] at hm
  obtain ⟨e, he, hk⟩ := hm
  have := lt_nextKey r h e he
  omega

theorem ascending_append (r : SReg) (h : r.Ascending) (g : Generation) : Ascending (r ++ [(r.nextKey, g)]) := by
  unfold Ascending
  rw [List.pairwise_append]
  refine ⟨h, List.pairwise_singleton _ _, ?_⟩
  intro a ha b hb
  simp only [List.mem_singleton] at hb
  subst hb
  exact lt_nextKey r h a ha

theorem ascending_prune (r : SReg) (h : r.Ascending) (k : Nat) : Ascending (r.prune k) :=
  List.Pairwise.filter _ h

end SReg

/-- every listed generation holds, position by position, the states of the occurrences behind `persistent` -/
def SInv (T : List (Option Nat)) (r : SReg) : Prop := ∀ e ∈ r, GenOk T e.2

theorem selectS_mem {r : SReg} {k : Option Nat} {g : Generation} (h : selectS r k = .ok (some g)) :
    ∃ e ∈ r, e.2 = g := by
  cases k with
  | none =>
    simp only [selectS] at h
    cases hl : r.getLast? with
    | none => rw [hl] at h; cases h
    | some e =>
      rw [hl] at h
      cases h
      exact ⟨e, List.mem_of_getLast? hl, rfl⟩
  | some k =>
    simp only [selectS, SReg.get?] at h
    cases hf : r.find? (fun e => e.1 == k) with
    | none => rw [hf] at h; cases h
    | some e =>
      rw [hf] at h
      cases h
      exact ⟨e, List.mem_of_find?_eq_some hf, rfl⟩

/-- the registry and the action an observation of `stepS` is judged against: the selected generation alone -/
def judged (r : SReg) (a : Action) : Registry × Action :=
  match selectS r a.gen with
  | .ok sel => (sel.toList, { a with gen := none })
  | .error _ => ([], { a with gen := some 1 })

theorem stepS_ok {cs : Case} (hwf : cs.wf = true) {r r' : SReg} (hinv : SInv cs.plain.persistentTags r)
    {a : Action} {obs : List Obs} (h : stepS cs r a = .ok (r', obs)) :
    SInv cs.plain.persistentTags r' ∧ (r' = r ∨ ∃ g, r' = r ++ [(r.nextKey, g)]) ∧
    ∀ o ∈ obs, obsOk (judged r a).1 (judged r a).2 o = true := by
  unfold stepS at h
  unfold judged
  cases hsel : selectS r a.gen with
  | error e =>
    rw [hsel] at h
    simp only at h ⊢
    cases hs : step cs [] { a with gen := some 1 } with
    | error e' => rw [hs] at h; cases h
    | ok res =>
      obtain ⟨reg', obs'⟩ := res
      rw [hs] at h
      cases h
      exact ⟨hinv, Or.inl rfl, (step_ok hwf (RegInv.nil _) hs).2⟩
  | ok sel =>
    rw [hsel] at h
    simp only at h ⊢
    have hreg : RegInv cs.plain.persistentTags sel.toList := by
      intro g hg
      cases sel with
      | none => cases hg
      | some g0 =>
        simp only [Option.toList, List.mem_singleton] at hg
        subst hg
        obtain ⟨e, he, heq⟩ := selectS_mem hsel
        exact heq ▸ hinv e he
    cases hs : step cs sel.toList { a with gen := none } with
    | error e' => rw [hs] at h; cases h
    | ok res =>
      obtain ⟨reg', obs'⟩ := res
      rw [hs] at h
      have hok := step_ok hwf hreg hs
      simp only at h
      split at h
      · rename_i g hd
        cases h
        refine ⟨?_, Or.inr ⟨g, rfl⟩, hok.2⟩
        intro e he
        simp only [List.mem_append, List.mem_singleton] at he
        cases he with
        | inl he => exact hinv e he
        | inr he =>
          subst he
          exact hok.1 g (List.mem_of_mem_drop (by rw [hd]; exact List.mem_singleton_self g))
      · cases h
        exact ⟨hinv, Or.inl rfl, hok.2⟩

theorem SInv.prune {T : List (Option Nat)} {r : SReg} (h : SInv T r) (k : Nat) : SInv T (r.prune k) :=
  fun e he => h e (List.mem_filter.mp he).1

def SparseFreshOk (hist : List SAct) : Prop :=
  ∀ x ∈ hist, match x with
    | .act _ f => Inj f.1 ∧ Inj f.2
    | .prune _ => True

theorem stepS_rename {ρ σ : Nat → Nat} (hρ : Inj ρ) (hσ : Inj σ) (cs : Case) (r : SReg) (a : Action) :
    stepS (cs.rename ρ σ) r a = stepS cs r a := by
  unfold stepS
  simp only [step_rename hρ hσ]

/-- histories with housekeeping: ascending listings, every listed generation bound, every observation bound -/
theorem runSparse_ok (cs : Case) (hwf : cs.wf = true) :
    ∀ (hist : List SAct) (r : SReg), SInv cs.plain.persistentTags r → r.Ascending → SparseFreshOk hist →
      ∀ entry ∈ runSparse cs r hist,
        SInv cs.plain.persistentTags entry.1 ∧ entry.1.Ascending ∧
        ∀ a obs, entry.2.2 = some (a, .ok obs) → ∀ o ∈ obs, obsOk (judged entry.1 a).1 (judged entry.1 a).2 o = true := by
  intro hist
  induction hist with
  | nil => intro r _ _ _ entry he; cases he
  | cons x rest ih =>
    intro r hinv hasc hfresh entry he
    have hrest : SparseFreshOk rest := fun y hy => hfresh y (List.mem_cons_of_mem _ hy)
    cases x with
    | prune k =>
      simp only [runSparse] at he
      cases he with
      | head => exact ⟨hinv, hasc, fun a obs h => by cases h⟩
      | tail _ h' => exact ih _ (hinv.prune k) (SReg.ascending_prune r hasc k) hrest entry h'
    | act a f =>
      have hx := hfresh (.act a f) List.mem_cons_self
      simp only at hx
      simp only [runSparse, stepS_rename hx.1 hx.2] at he
      cases hs : stepS cs r a with
      | error e =>
        rw [hs] at he
        cases he with
        | head => exact ⟨hinv, hasc, fun a' obs h => by cases h⟩
        | tail _ h' => exact ih r hinv hasc hrest entry h'
      | ok res =>
        obtain ⟨r', obs⟩ := res
        rw [hs] at he
        have hok := stepS_ok hwf hinv hs
        cases he with
        | head =>
          refine ⟨hinv, hasc, ?_⟩
          intro a' obs' h
          cases h
          exact hok.2.2
        | tail _ h' =>
          have hasc' : r'.Ascending := by
            rcases hok.2.1 with h1 | ⟨g, h1⟩
            · rw [h1]; exact hasc
            · rw [h1]; exact SReg.ascending_append r hasc g
          exact ih r' hok.1 hasc' hrest entry h'

end ForML.Persist
