/-
C08 — theorems about schemas built from class hierarchies, kind singletons and `reflect`
(model: ForML.Model.DslSchema).  Public theorems are named `C08_schema_*`, `C08_kind_*`, `C08_reflect_*`.
-/
import ForML.Model.DslSchema

namespace ForML.Dsl

/-! ### `Schema.__eq__` / `__hash__` -/

theorem fieldEq_iff (a b : NamedField) : fieldEq a b = true ↔ a = b := by
  obtain ⟨an, ak⟩ := a
  obtain ⟨bn, bk⟩ := b
  simp [fieldEq, Kind.implEq, Prod.ext_iff, and_comm]

theorem zipAll_fieldEq : ∀ (a b : Fields), a.length = b.length →
    ((a.zip b).all (fun p => fieldEq p.1 p.2) = true ↔ a = b)
  | [], [], _ => by simp
  | [], _ :: _, h => by simp at h
  | _ :: _, [], h => by simp at h
  | x :: xs, y :: ys, h => by
    have ih := zipAll_fieldEq xs ys (by simpa using h)
    simp only [List.zip_cons_cons, List.all_cons, Bool.and_eq_true, fieldEq_iff, ih, List.cons.injEq]

/-- `Schema.__eq__` (length test, then the fields pairwise in order) holds exactly between identical field lists -/
theorem C08_schema_eq_iff (a b : Fields) : schemaEq a b = true ↔ a = b := by
  unfold schemaEq
  constructor
  · intro h
    simp only [Bool.and_eq_true, beq_iff_eq] at h
    exact (zipAll_fieldEq a b h.1).1 h.2
  · intro h
    subst h
    simp only [Bool.and_eq_true, beq_iff_eq, true_and]
    exact (zipAll_fieldEq a a rfl).2 rfl

/-- equal schemas hash equal — whatever the hash functions of strings, classes, tuples and `^` are -/
theorem C08_schema_hash {α : Type} (env : HashEnv α) (a b : Fields) (h : schemaEq a b = true) :
    fieldsH env a = fieldsH env b := by
  rw [(C08_schema_eq_iff a b).1 h]

/-- `==` and `hash` of the schemas of two classes — of any two hierarchies — are a function of their resolved
ordered field lists only (the class names, the bases, the attribute keys take no part) -/
theorem C08_schema_identity {α : Type} (env : HashEnv α) (h h' : Heap) (i j : Nat) :
    (schemaEq (h.fields i) (h'.fields j) = true ↔ h.fields i = h'.fields j) ∧
    (h.fields i = h'.fields j → fieldsH env (h.fields i) = fieldsH env (h'.fields j)) :=
  ⟨C08_schema_eq_iff _ _, fun e => by rw [e]⟩

/-! ### resolution: `Schema.__iter__` -/

/-- the keys after one step of the dict comprehension: a known key keeps its place, a new one goes last -/
theorem upsert_keys (acc : List (String × NamedField)) (e : String × NamedField) :
    (upsert acc e).map (·.1) = if acc.any (fun x => x.1 == e.1) then acc.map (·.1) else acc.map (·.1) ++ [e.1] := by
  unfold upsert
  split
  · simp only [List.map_map]
    congr 1
    funext x
    by_cases hx : x.1 = e.1 <;> simp [hx]
  · simp

/-- "fields from parent classes come before fields of child classes; overriding a field does not change its
position": executing a class body over what the bases resolve to never moves or drops a key of the bases -/
theorem C08_schema_override_position (acc : List (String × NamedField)) (body : List (String × NamedField)) :
    ∃ extra, (body.foldl upsert acc).map (·.1) = acc.map (·.1) ++ extra := by
  induction body generalizing acc with
  | nil => exact ⟨[], by simp⟩
  | cons e es ih =>
    obtain ⟨extra, hx⟩ := ih (upsert acc e)
    rw [List.foldl_cons, hx, upsert_keys]
    split
    · exact ⟨extra, rfl⟩
    · exact ⟨e.1 :: extra, by simp⟩

/-- a class extends what the rest of its linearisation resolves to: `tuple(Child)` is the class body executed (as a
dict update) over `tuple(<the classes after it in the MRO>)` -/
theorem C08_schema_extend (h : Heap) (self : Nat) (rest : List Nat) :
    resolveKV h (self :: rest) = (h.dictOf self).foldl upsert (resolveKV h rest) := by
  simp [resolveKV, List.foldl_append]

theorem lookup_replace (k : String) (v : NamedField) : ∀ (acc : List (String × NamedField)), (∃ x ∈ acc, x.1 = k) →
    (acc.map (fun x => if x.1 == k then (x.1, v) else x)).lookup k = some v
  | [], h => by simp at h
  | x :: xs, h => by
    by_cases hx : x.1 = k
    · simp [hx]
    · have hk : (k == x.1) = false := by simp [beq_eq_false_iff_ne, Ne.symm hx]
      have hrest : ∃ y ∈ xs, y.1 = k := by
        obtain ⟨y, hy, hyk⟩ := h
        rcases List.mem_cons.1 hy with rfl | hy
        · exact absurd hyk hx
        · exact ⟨y, hy, hyk⟩
      simp only [List.map_cons, beq_iff_eq, hx, if_false, List.lookup, hk]
      simpa using lookup_replace k v xs hrest

theorem lookup_append_new (k : String) (v : NamedField) : ∀ (acc : List (String × NamedField)), (∀ x ∈ acc, x.1 ≠ k) →
    (acc ++ [(k, v)]).lookup k = some v
  | [], _ => by simp
  | x :: xs, h => by
    have hx : x.1 ≠ k := h x (List.mem_cons_self ..)
    have hk : (k == x.1) = false := by simp [beq_eq_false_iff_ne, Ne.symm hx]
    simp only [List.cons_append, List.lookup, hk]
    exact lookup_append_new k v xs (fun y hy => h y (List.mem_cons_of_mem _ hy))

/-- the value of an overridden key is the overriding field ("extended fields can override same-name fields") -/
theorem C08_schema_override_value (acc : List (String × NamedField)) (e : String × NamedField) :
    (upsert acc e).lookup e.1 = some e.2 := by
  unfold upsert
  split
  · rename_i hany
    exact lookup_replace e.1 e.2 acc (by simpa using hany)
  · rename_i hany
    obtain ⟨k, v⟩ := e
    refine lookup_append_new k v acc (fun x hx hxk => hany ?_)
    simp only [List.any_eq_true, beq_iff_eq]
    exact ⟨x, hx, hxk⟩

/-! ### C3 on a single-inheritance chain -/

theorem c3merge_one : ∀ (l : List Nat) (fuel : Nat), l.Nodup → l.length < fuel → c3merge fuel [l] = some l
  | [], fuel + 1, _, _ => by simp [c3merge]
  | x :: xs, fuel + 1, hnd, hlen => by
    have hx : x ∉ xs := (List.nodup_cons.1 hnd).1
    have ih := c3merge_one xs fuel (List.nodup_cons.1 hnd).2 (by simp at hlen; omega)
    simp [c3merge, c3pick, hx, ih]
  | _, 0, _, h => by simp at h

theorem c3merge_drop_empty (l : List Nat) (fuel : Nat) : c3merge fuel [l, []] = c3merge fuel [l] := by
  cases fuel with
  | zero => rfl
  | succ f => cases l <;> simp [c3merge]

theorem c3merge_single (x : Nat) (xs : List Nat) (fuel : Nat) (hnd : (x :: xs).Nodup) (hlen : xs.length + 1 < fuel) :
    c3merge fuel [x :: xs, [x]] = some (x :: xs) := by
  cases fuel with
  | zero => simp at hlen
  | succ fuel =>
    have hx : x ∉ xs := (List.nodup_cons.1 hnd).1
    have ih := c3merge_one xs fuel (List.nodup_cons.1 hnd).2 (by omega)
    cases xs with
    | nil =>
      cases fuel with
      | zero => simp at hlen
      | succ f => simp [c3merge, c3pick]
    | cons y ys =>
      have hxy : x ≠ y := fun e => hx (by simp [e])
      have hxys : x ∉ ys := fun e => hx (by simp [e])
      simp [c3merge, c3pick, hxy, hxys, c3merge_drop_empty, ih]

/-- **single inheritance**: a class with one base whose linearisation is `p :: rest` (duplicate-free) is linearised as
itself, then `p :: rest` — C3 never fails there — and so (`C08_schema_extend`) its fields are its own class body
executed as a dict update over the fields of its base: parents' fields first, an overridden field in place -/
theorem C08_schema_single_inheritance (h : Heap) (self p : Nat) (rest : List Nat) (hm : h.mroOf p = p :: rest)
    (hnd : (p :: rest).Nodup) :
    mroNew h self [p] = some (self :: p :: rest) ∧
    resolveKV h (self :: p :: rest) = (h.dictOf self).foldl upsert (resolveKV h (p :: rest)) := by
  refine ⟨?_, C08_schema_extend h self (p :: rest)⟩
  simp only [mroNew, List.map_cons, List.map_nil, hm, List.cons_append, List.nil_append]
  rw [c3merge_single p rest _ hnd (by simp)]
  rfl

/-! ### pickling: the `copyreg` reducer rebuilds the same class -/

theorem normName_idem (key : String) (n : Option String) : normName key (some (normName key n)) = normName key n := by
  cases n with
  | none => by_cases hk : key = "" <;> simp [normName, hk]
  | some s =>
    by_cases hs : s = ""
    · subst hs
      simp [normName]
    · simp [normName, hs]

/-- the namespace loop accepts its own (normalised) output and reproduces it -/
theorem addFields_idem : ∀ (ns : List (String × RawField)) (ex : List (String × String))
    (dict : List (String × NamedField)), addFields ex ns = .ok dict →
    addFields ex (dict.map fun e => (e.1, ({ kind := e.2.2, name := some e.2.1 } : RawField))) = .ok dict
  | [], ex, dict, h => by
    simp only [addFields] at h
    cases h
    simp [addFields]
  | (key, f) :: rest, ex, dict, h => by
    simp only [addFields] at h
    -- both branches that continue produce `(key, (name, kind)) :: tail`
    have step : ∀ tail, addFields ((normName key f.name, key) :: ex) rest = .ok tail →
        dict = (key, (normName key f.name, f.kind)) :: tail →
        addFields ex (dict.map fun e => (e.1, ({ kind := e.2.2, name := some e.2.1 } : RawField))) = .ok dict := by
      intro tail ht hd
      subst hd
      have ih := addFields_idem rest _ tail ht
      simp only [List.map_cons, addFields, normName_idem]
      cases hl : ex.lookup (normName key f.name) with
      | none => simp [ih, Except.map]
      | some k' =>
        simp only [hl] at h
        by_cases hk : k' = key
        · simp [hk, ih, Except.map]
        · simp [hk] at h
    cases hl : ex.lookup (normName key f.name) with
    | none =>
      simp only [hl] at h
      cases ht : addFields ((normName key f.name, key) :: ex) rest with
      | error e => simp [ht, Except.map] at h
      | ok tail =>
        simp only [ht, Except.map] at h
        exact step tail ht (by cases h; rfl)
    | some k' =>
      simp only [hl] at h
      by_cases hk : k' = key
      · simp only [hk, if_true] at h
        cases ht : addFields ((normName key f.name, key) :: ex) rest with
        | error e => simp [ht, Except.map] at h
        | ok tail =>
          simp only [ht, Except.map] at h
          exact step tail ht (by cases h; rfl)
      · simp [hk] at h

/-- what a successful `Schema.__new__` went through -/
theorem newSchema_ok {h : Heap} {self : Nat} {d : Decl} {c : Cls} (hc : newSchema h self d = .ok c) :
    ∃ dict mro, addFields (baseMaps h d.bases) d.prepared = .ok dict ∧ mroNew h self d.bases = some mro ∧
      c = { name := d.name, bases := d.bases, dict := dict, mro := mro } := by
  simp only [newSchema] at hc
  by_cases h1 : (d.bases.any fun b => (h.cls? b).isNone) = true
  · rw [if_pos h1] at hc
    cases hc
  · rw [if_neg h1] at hc
    by_cases h2 : (!(baseMaps h d.bases).isEmpty &&
        decide ((baseMaps h d.bases).length > ((baseMaps h d.bases).map (·.1)).eraseDups.length)) = true
    · rw [if_pos h2] at hc
      cases hc
    · rw [if_neg h2] at hc
      cases hd : addFields (baseMaps h d.bases) d.prepared with
      | error e =>
        rw [hd] at hc
        cases hc
      | ok dict =>
        rw [hd] at hc
        cases hm : mroNew h self d.bases with
        | none =>
          rw [hm] at hc
          cases hc
        | some mro =>
          rw [hm] at hc
          exact ⟨dict, mro, rfl, rfl, by cases hc; rfl⟩

/-- the checks of `Schema.__new__` depend on the statement through its bases and its prepared namespace only -/
theorem newSchema_congr (h : Heap) (self : Nat) (d d' : Decl) (hn : d'.name = d.name) (hb : d'.bases = d.bases)
    (hp : ∀ dict, addFields (baseMaps h d.bases) d.prepared = .ok dict → addFields (baseMaps h d.bases) d'.prepared = .ok dict)
    (c : Cls) (hc : newSchema h self d = .ok c) : newSchema h self d' = .ok c := by
  obtain ⟨dict, mro, hd, hm, hcc⟩ := newSchema_ok hc
  simp only [newSchema] at hc ⊢
  rw [hb, hn]
  by_cases h1 : (d.bases.any fun b => (h.cls? b).isNone) = true
  · rw [if_pos h1] at hc
    cases hc
  · rw [if_neg h1] at hc ⊢
    by_cases h2 : (!(baseMaps h d.bases).isEmpty &&
        decide ((baseMaps h d.bases).length > ((baseMaps h d.bases).map (·.1)).eraseDups.length)) = true
    · rw [if_pos h2] at hc
      cases hc
    · rw [if_neg h2]
      rw [hp dict hd, hm, hcc]

/-- `Schema(*reduce(c))` is `c` again: for every heap, every position, every class statement that succeeded -/
theorem newSchema_reduce (h : Heap) (self : Nat) (d : Decl) (c : Cls) (hc : newSchema h self d = .ok c) :
    newSchema h self (reduceDecl d (.ok c)) = .ok c := by
  obtain ⟨dict, mro, hd, hm, hcc⟩ := newSchema_ok hc
  have hprep : (reduceDecl d (.ok c)).prepared = dict.map fun e => (e.1, ({ kind := e.2.2, name := some e.2.1 } : RawField)) := by
    subst hcc
    by_cases hv : d.via = .declared <;> simp [reduceDecl, Decl.prepared, Cls.reducedNs, hv]
  refine newSchema_congr h self d _ (by subst hcc; rfl) (by subst hcc; rfl) ?_ c hc
  intro dict' hd'
  rw [hd] at hd'
  cases hd'
  rw [hprep]
  exact addFields_idem _ _ _ hd

/-- a statement that raised raises again (it is shipped as it was) -/
theorem newSchema_reduce_any (h : Heap) (self : Nat) (d : Decl) :
    newSchema h self (reduceDecl d (newSchema h self d)) = newSchema h self d := by
  cases hc : newSchema h self d with
  | ok c => exact newSchema_reduce h self d c hc
  | error e => simp [reduceDecl, hc]

/-- the classes made by the statements `ds` after the heap `h` -/
def results (h : Heap) : List Decl → List (Except SchemaErr Cls)
  | [] => []
  | d :: ds => newSchema h h.length d :: results (h ++ [newSchema h h.length d]) ds

theorem buildFrom_eq (h : Heap) (ds : List Decl) : buildFrom h ds = h ++ results h ds := by
  induction ds generalizing h with
  | nil => simp [buildFrom, results]
  | cons d ds ih => simp [buildFrom, results, ih]

theorem results_encode (h : Heap) (ds : List Decl) : results h (encode ds (results h ds)) = results h ds := by
  induction ds generalizing h with
  | nil => simp [results, encode]
  | cons d ds ih =>
    simp only [results, encode]
    rw [newSchema_reduce_any, ih]

/-- **decode (encode s) = s** for every schema obtained from any hierarchy: executing the reduced form of every
class of a program — every class once, bases first, as `pickle` does — gives the same classes (names, bases, own
fields under their attribute keys, linearisations), hence the same resolved fields; statements that raised raise
again.  No hypothesis on the program. -/
theorem C08_schema_pickle (ds : List Decl) : buildAll (encode ds (buildAll ds)) = buildAll ds := by
  unfold buildAll
  rw [buildFrom_eq, buildFrom_eq]
  simp only [List.nil_append]
  exact results_encode [] ds

/-- … in particular the resolved field list of every class survives -/
theorem C08_schema_pickle_fields (ds : List Decl) (i : Nat) :
    (buildAll (encode ds (buildAll ds))).fields i = (buildAll ds).fields i := by
  rw [C08_schema_pickle]

theorem encode_get (ds : List Decl) (rs : Heap) (i : Nat) (d : Decl) (r : Except SchemaErr Cls)
    (hd : ds[i]? = some d) (hr : rs[i]? = some r) : (encode ds rs)[i]? = some (reduceDecl d r) := by
  induction ds generalizing rs i with
  | nil => simp at hd
  | cons d0 ds ih =>
    cases rs with
    | nil => simp at hr
    | cons r0 rs =>
      cases i with
      | zero =>
        simp only [List.getElem?_cons_zero, Option.some.injEq] at hd hr
        subst hd
        subst hr
        simp [encode]
      | succ i =>
        simp only [List.getElem?_cons_succ] at hd hr
        simp only [encode, List.getElem?_cons_succ]
        exact ih rs i hd hr

theorem reduceDecl_tableName (d : Decl) (c : Cls) (hn : c.name = d.name) : (reduceDecl d (.ok c)).tableName = d.tableName := by
  cases hv : d.via <;> simp [reduceDecl, Decl.tableName, hv, hn]

theorem newSchema_name (h : Heap) (self : Nat) (d : Decl) (c : Cls) (hc : newSchema h self d = .ok c) : c.name = d.name := by
  obtain ⟨_, _, _, _, hcc⟩ := newSchema_ok hc
  subst hcc
  rfl

theorem results_get (h : Heap) (ds : List Decl) (i : Nat) (d : Decl) (hd : ds[i]? = some d) :
    ∃ h', (results h ds)[i]? = some (newSchema h' h'.length d) := by
  induction ds generalizing h i with
  | nil => simp at hd
  | cons d0 ds ih =>
    cases i with
    | zero =>
      simp only [List.getElem?_cons_zero, Option.some.injEq] at hd
      subst hd
      exact ⟨h, by simp [results]⟩
    | succ i =>
      simp only [List.getElem?_cons_succ] at hd
      obtain ⟨h', hh⟩ := ih (h ++ [newSchema h h.length d0]) i hd
      exact ⟨h', by simpa [results] using hh⟩

/-- the *table* of every class survives pickling: the class of the table keeps its name (`Table.Meta` reducer) and the
schema is rebuilt as above — composed with `Source.repickle` of the statements over it (`C08_partial`) this is
"identity survives pickling" for tables, references and queries over schemas built by inheritance -/
theorem C08_schema_table_pickle (ds : List Decl) (i : Nat) :
    tableOf (encode ds (buildAll ds)) (buildAll (encode ds (buildAll ds))) i = tableOf ds (buildAll ds) i := by
  rw [C08_schema_pickle]
  unfold tableOf
  cases hd : ds[i]? with
  | none =>
    have : (encode ds (buildAll ds))[i]? = none := by
      have hlen : ∀ (ds : List Decl) (rs : Heap), (encode ds rs).length ≤ ds.length := by
        intro ds
        induction ds with
        | nil => intro rs; simp [encode]
        | cons d ds ih =>
          intro rs
          cases rs with
          | nil => simp [encode]
          | cons r rs => simpa [encode] using ih rs
      have h1 : ds.length ≤ i := by
        rcases Nat.lt_or_ge i ds.length with hlt | hge
        · simp [List.getElem?_eq_getElem hlt] at hd
        · exact hge
      exact List.getElem?_eq_none (Nat.le_trans (hlen ds _) h1)
    simp [this]
  | some d =>
    cases hcls : (buildAll ds).cls? i with
    | none =>
      cases h2 : (encode ds (buildAll ds))[i]? <;> simp
    | some c =>
      have hr : (buildAll ds)[i]? = some (.ok c) := by
        unfold Heap.cls? at hcls
        split at hcls
        · rename_i c' hget
          cases hcls
          exact hget
        · cases hcls
      have henc := encode_get ds (buildAll ds) i d (.ok c) hd hr
      have hres : ∃ h', (buildAll ds)[i]? = some (newSchema h' h'.length d) := by
        unfold buildAll
        rw [buildFrom_eq]
        simpa using results_get [] ds i d hd
      obtain ⟨h', hh'⟩ := hres
      have hc : newSchema h' h'.length d = .ok c := by
        rw [hr] at hh'
        exact (Option.some.inj hh').symm
      simp [henc, reduceDecl_tableName d c (newSchema_name h' _ d c hc)]

/-! ### field names (finding C08-F2) -/

/-- a name registered in front under key `k` can only be produced again under `k` -/
theorem addFields_front : ∀ (ns : List (String × RawField)) (ex : List (String × String))
    (dict : List (String × NamedField)), addFields ex ns = .ok dict → ∀ (n k : String), ex.lookup n = some k →
    ∀ e ∈ dict, e.2.1 = n → e.1 = k
  | [], _, dict, h, _, _, _ => by
    simp only [addFields] at h
    cases h
    intro e he
    cases he
  | (key, f) :: rest, ex, dict, h, n, k, hlk => by
    simp only [addFields] at h
    intro e he hen
    by_cases hsame : normName key f.name = n
    · -- the head itself has the name: the lookup finds `k`, which must be the head's key
      rw [hsame, hlk] at h
      by_cases hk : k = key
      · simp only [hk, if_true] at h
        cases ht : addFields ((n, key) :: ex) rest with
        | error e => simp [ht, Except.map] at h
        | ok tail =>
          simp only [ht, Except.map] at h
          cases h
          rcases List.mem_cons.1 he with rfl | he
          · exact hk.symm
          · rw [hk]
            exact addFields_front rest ((n, key) :: ex) tail (by rw [← hsame]; rw [hsame]; exact ht) n key
              (by simp [List.lookup]) e he hen
      · simp [hk] at h
    · have hcont : ∃ tail, addFields ((normName key f.name, key) :: ex) rest = .ok tail ∧
          dict = (key, (normName key f.name, f.kind)) :: tail := by
        cases hl : ex.lookup (normName key f.name) with
        | none =>
          simp only [hl] at h
          cases ht : addFields ((normName key f.name, key) :: ex) rest with
          | error e => simp [ht, Except.map] at h
          | ok tail =>
            simp only [ht, Except.map] at h
            exact ⟨tail, rfl, by cases h; rfl⟩
        | some k' =>
          simp only [hl] at h
          by_cases hk : k' = key
          · simp only [hk, if_true] at h
            cases ht : addFields ((normName key f.name, key) :: ex) rest with
            | error e => simp [ht, Except.map] at h
            | ok tail =>
              simp only [ht, Except.map] at h
              exact ⟨tail, rfl, by cases h; rfl⟩
          · simp [hk] at h
      obtain ⟨tail, ht, hd⟩ := hcont
      subst hd
      rcases List.mem_cons.1 he with rfl | he
      · exact absurd hen hsame
      · have hlk' : ((normName key f.name, key) :: ex).lookup n = some k := by
          have : (n == normName key f.name) = false := by
            cases hb : (n == normName key f.name) with
            | false => rfl
            | true => exact absurd (by simpa using hb : n = normName key f.name).symm hsame
          simp [List.lookup, this, hlk]
        exact addFields_front rest _ tail ht n k hlk' e he hen


/-- every name produced by the namespace loop is registered under its key, in front of `ex` -/
theorem addFields_names : ∀ (ns : List (String × RawField)) (ex : List (String × String))
    (dict : List (String × NamedField)), addFields ex ns = .ok dict →
    (ns.map (·.1)).Nodup →
    (∀ e ∈ dict, ∀ e' ∈ dict, e.2.1 = e'.2.1 → e.1 = e'.1)
  | [], _, dict, h, _ => by
    simp only [addFields] at h
    cases h
    intro e he
    cases he
  | (key, f) :: rest, ex, dict, h, hnd => by
    simp only [addFields] at h
    have hcont : ∃ tail, addFields ((normName key f.name, key) :: ex) rest = .ok tail ∧
        dict = (key, (normName key f.name, f.kind)) :: tail := by
      cases hl : ex.lookup (normName key f.name) with
      | none =>
        simp only [hl] at h
        cases ht : addFields ((normName key f.name, key) :: ex) rest with
        | error e => simp [ht, Except.map] at h
        | ok tail =>
          simp only [ht, Except.map] at h
          exact ⟨tail, rfl, by cases h; rfl⟩
      | some k' =>
        simp only [hl] at h
        by_cases hk : k' = key
        · simp only [hk, if_true] at h
          cases ht : addFields ((normName key f.name, key) :: ex) rest with
          | error e => simp [ht, Except.map] at h
          | ok tail =>
            simp only [ht, Except.map] at h
            exact ⟨tail, rfl, by cases h; rfl⟩
        · simp [hk] at h
    obtain ⟨tail, ht, hd⟩ := hcont
    subst hd
    have hnd' : (rest.map (·.1)).Nodup := (List.nodup_cons.1 (by simpa using hnd)).2
    have hkey : key ∉ rest.map (·.1) := (List.nodup_cons.1 (by simpa using hnd)).1
    have ih := addFields_names rest _ tail ht hnd'
    -- a later field of the same name as the head would have found the head's key in front
    have hhead : ∀ e ∈ tail, e.2.1 = normName key f.name → e.1 = key :=
      addFields_front rest ((normName key f.name, key) :: ex) tail ht (normName key f.name) key
        (by simp [List.lookup])
    intro e he e' he' hn
    rcases List.mem_cons.1 he with rfl | he
    · rcases List.mem_cons.1 he' with rfl | he'
      · rfl
      · exact (hhead e' he' hn.symm).symm
    · rcases List.mem_cons.1 he' with rfl | he'
      · exact hhead e he hn
      · exact ih e he e' he' hn
/-- the full statement: no schema has two fields of one name -/
def C08_schema_names_full : Prop :=
  ∀ (ds : List Decl) (i : Nat), (∀ d ∈ ds, (List.map Prod.fst d.prepared).Nodup) →
    (List.map Prod.fst ((buildAll ds).fields i)).Nodup

/-- the program of finding C08-F2: `mid` is renamed by the child, the grandchild reuses the new name -/
def dupNameProg : List Decl :=
  [ { via := .declared, name := "P", bases := [], ns := [("first", ⟨.integer, none⟩), ("mid", ⟨.string, some "old"⟩)] },
    { via := .declared, name := "C", bases := [0], ns := [("mid", ⟨.date, some "new"⟩)] },
    { via := .declared, name := "G", bases := [1], ns := [("other", ⟨.integer, some "new"⟩)] } ]

/-- it is FALSE for the code that exists (finding C08-F2) -/
theorem C08_schema_names_counterexample : ¬ C08_schema_names_full := by
  intro h
  have := h dupNameProg 2 (by decide)
  revert this
  decide

/-- what does hold: within one class body two attributes never get one name (whatever the bases are) -/
theorem C08_schema_names_partial (h : Heap) (self : Nat) (d : Decl) (c : Cls) (hc : newSchema h self d = .ok c)
    (hkeys : (d.prepared.map (·.1)).Nodup) :
    ∀ e ∈ c.dict, ∀ e' ∈ c.dict, e.2.1 = e'.2.1 → e.1 = e'.1 := by
  obtain ⟨dict, _, hd, _, hcc⟩ := newSchema_ok hc
  subst hcc
  exact addFields_names d.prepared _ dict hd hkeys

/-! ### attribute keys take no part in identity (finding C08-F4) -/

def keyTwinsProg : List Decl :=
  [ { via := .declared, name := "C0", bases := [], ns := [("mid", ⟨.boolean, none⟩), ("k1", ⟨.integer, some "n2"⟩)] },
    { via := .declared, name := "C0", bases := [], ns := [("mid", ⟨.boolean, none⟩), ("q1", ⟨.integer, some "n2"⟩)] } ]

/-- two class statements that differ in an attribute key only give the same table (and `Source.identEq` on tables is
`decide (name = name') && fieldsEq`): such tables are one cache key although their classes answer to different
attribute names -/
theorem C08_schema_keys_no_identity :
    tableOf keyTwinsProg (buildAll keyTwinsProg) 0 = tableOf keyTwinsProg (buildAll keyTwinsProg) 1 ∧
    (buildAll keyTwinsProg).dictOf 0 ≠ (buildAll keyTwinsProg).dictOf 1 := by
  decide

/-! ### kind singletons: identity does not depend on the creation history -/

theorem C08_kind_singleton_class (r : KReg) (cs : List Prim) : (r.run cs).map (·.cls) = cs := by
  induction cs generalizing r with
  | nil => rfl
  | cons c cs ih =>
    simp only [KReg.run, List.map_cons, ih, List.cons.injEq, and_true]
    unfold KReg.new
    split <;> rfl

/-- ids handed out are below `next`, and no id is in two cells -/
def KReg.wf (r : KReg) : Prop :=
  (∀ c i, r.cells.lookup c = some i → i < r.next) ∧
  (∀ c c' i, r.cells.lookup c = some i → r.cells.lookup c' = some i → c = c')

theorem KReg.wf_empty : KReg.empty.wf := by
  constructor <;> intro c <;> simp [KReg.empty]

theorem KReg.lookup_cons (r : KReg) (c c' : Prim) :
    ((c, r.next) :: r.cells).lookup c' = if c' = c then some r.next else r.cells.lookup c' := by
  by_cases h : c' = c
  · simp [List.lookup, h]
  · have hb : (c' == c) = false := by simp [beq_eq_false_iff_ne, h]
    simp [List.lookup, h, hb]

theorem KReg.new_spec (r : KReg) (c : Prim) (hw : r.wf) :
    (r.new c).1.wf ∧ (r.new c).1.cells.lookup c = some (r.new c).2.id ∧ (r.new c).2.cls = c ∧
    (∀ c' i, r.cells.lookup c' = some i → (r.new c).1.cells.lookup c' = some i) := by
  unfold KReg.new
  cases hl : r.cells.lookup c with
  | some i => exact ⟨hw, hl, rfl, fun _ _ h => h⟩
  | none =>
    refine ⟨⟨?_, ?_⟩, by simp, rfl, ?_⟩
    · intro c' i h
      simp only [KReg.lookup_cons] at h
      by_cases hc : c' = c
      · rw [if_pos hc] at h
        cases h
        exact Nat.lt_succ_self _
      · rw [if_neg hc] at h
        exact Nat.lt_succ_of_lt (hw.1 c' i h)
    · intro c1 c2 i h1 h2
      simp only [KReg.lookup_cons] at h1 h2
      by_cases hc1 : c1 = c <;> by_cases hc2 : c2 = c
      · rw [hc1, hc2]
      · rw [if_pos hc1] at h1
        rw [if_neg hc2] at h2
        cases h1
        exact absurd (hw.1 c2 _ h2) (Nat.lt_irrefl _)
      · rw [if_neg hc1] at h1
        rw [if_pos hc2] at h2
        cases h2
        exact absurd (hw.1 c1 _ h1) (Nat.lt_irrefl _)
      · rw [if_neg hc1] at h1
        rw [if_neg hc2] at h2
        exact hw.2 c1 c2 i h1 h2
    · intro c' i h
      simp only [KReg.lookup_cons]
      by_cases hc : c' = c
      · rw [hc, hl] at h
        cases h
      · rw [if_neg hc]
        exact h

/-- the registry after a history -/
def KReg.after : KReg → List Prim → KReg
  | r, [] => r
  | r, c :: cs => KReg.after (r.new c).1 cs

theorem KReg.after_spec (r : KReg) (cs : List Prim) (hw : r.wf) :
    (r.after cs).wf ∧ (∀ c i, r.cells.lookup c = some i → (r.after cs).cells.lookup c = some i) ∧
    (∀ o ∈ r.run cs, (r.after cs).cells.lookup o.cls = some o.id) := by
  induction cs generalizing r with
  | nil => exact ⟨hw, fun _ _ h => h, fun o ho => by cases ho⟩
  | cons c cs ih =>
    obtain ⟨hw1, hcell, hcls, hmono⟩ := KReg.new_spec r c hw
    obtain ⟨hwN, hmonoN, hallN⟩ := ih (r.new c).1 hw1
    refine ⟨hwN, fun c' i h => hmonoN c' i (hmono c' i h), ?_⟩
    intro o ho
    simp only [KReg.run, List.mem_cons] at ho
    rcases ho with rfl | ho
    · rw [hcls]
      exact hmonoN c _ hcell
    · exact hallN o ho

/-- **identity of a primitive kind does not depend on what was created before**: over any history of
instantiations, from any well-formed state of the closure cells, two instances are the same object exactly when
they were asked for through the same class — and (`C08_kind_singleton_class`) each is an instance of the class it
was asked for -/
theorem C08_kind_singleton (r : KReg) (cs : List Prim) (hw : r.wf) :
    ∀ a ∈ r.run cs, ∀ b ∈ r.run cs, (a.id = b.id ↔ a.cls = b.cls) := by
  obtain ⟨hwN, _, hall⟩ := KReg.after_spec r cs hw
  intro a ha b hb
  constructor
  · intro hid
    have h1 := hall a ha
    have h2 := hall b hb
    rw [hid] at h1
    exact hwN.2 _ _ _ h1 h2
  · intro hcls
    have h1 := hall a ha
    have h2 := hall b hb
    rw [hcls, h2] at h1
    exact (Option.some.inj h1).symm

/-- `==` of two such instances (`Any.__eq__`: same class) is object identity -/
theorem C08_kind_singleton_eq (r : KReg) (cs : List Prim) (hw : r.wf) :
    ∀ a ∈ r.run cs, ∀ b ∈ r.run cs, (KObj.eq a b = true ↔ a = b) := by
  intro a ha b hb
  have h := C08_kind_singleton r cs hw a ha b hb
  constructor
  · intro he
    have hc : a.cls = b.cls := by simpa [KObj.eq] using he
    cases a
    cases b
    simp_all
  · intro he
    subst he
    simp [KObj.eq]

/-- non-vacuity: `Date()` first, then `Timestamp()` (its subclass), and the other way round -/
example : KReg.empty.run [.date, .timestamp, .date, .timestamp] = [⟨.date, 0⟩, ⟨.timestamp, 1⟩, ⟨.date, 0⟩, ⟨.timestamp, 1⟩] := by
  decide
example : KReg.empty.run [.timestamp, .date, .timestamp] = [⟨.timestamp, 0⟩, ⟨.date, 1⟩, ⟨.timestamp, 0⟩] := by decide

/-! ### `reflect` -/

/-- a literal value as a python value -/
def PyVal.ofLit : Lit → PyVal
  | .int n => .int n
  | .bool b => .bool b
  | .str s => .str s
  | .float r => .float r

/-- `Literal(value).kind` of the shared AST (`Lit.kind`) is `reflect(value)` -/
theorem C08_reflect_lit (v : Lit) : (PyVal.ofLit v).reflect = some v.kind := by
  cases v <;> simp [PyVal.ofLit, PyVal.reflect, Lit.kind]

/-- a list reflects as the array of its first element's kind; an empty one has no kind -/
theorem C08_reflect_list (v : PyVal) (vs : PyVals) : (PyVal.list (.cons v vs)).reflect = v.reflect.map .array := by
  simp [PyVal.reflect, PyVals.headReflect]

example : (PyVal.dict (.cons (.str "p") (.cons (.str "q") .nil)) (.cons (.int 1) (.cons (.str "x") .nil))).reflect
    = some (.struct ["p", "q"] (.cons .integer (.cons .string .nil))) := by decide
example : (PyVal.dict (.cons (.str "p") (.cons (.str "q") .nil)) (.cons (.int 1) (.cons (.bool true) .nil))).reflect
    = some (.map .string .integer) := by decide
example : (PyVal.list .nil).reflect = none := by decide

/-! ### single-inheritance programs -/

/-- every linearisation starts with the class itself and strictly descends (bases are earlier statements) -/
def Heap.chainWf (h : Heap) : Prop :=
  ∀ i c, h.cls? i = some c → i < h.length ∧ c.mro.head? = some i ∧ c.mro.Pairwise (· > ·)

theorem Heap.cls?_append_lt (h : Heap) (r : Except SchemaErr Cls) (i : Nat) (hi : i < h.length) :
    (h ++ [r]).cls? i = h.cls? i := by
  simp [Heap.cls?, List.getElem?_append_left hi]

theorem Heap.cls?_lt (h : Heap) (i : Nat) (c : Cls) (hc : h.cls? i = some c) : i < h.length := by
  unfold Heap.cls? at hc
  rcases Nat.lt_or_ge i h.length with hlt | hge
  · exact hlt
  · simp [List.getElem?_eq_none hge] at hc

theorem Heap.cls?_append_self (h : Heap) (r : Except SchemaErr Cls) :
    (h ++ [r]).cls? h.length = match r with | .ok c => some c | .error _ => none := by
  simp [Heap.cls?]
  cases r <;> rfl

theorem pairwise_gt_nodup : ∀ (l : List Nat), l.Pairwise (· > ·) → l.Nodup
  | [], _ => List.nodup_nil
  | x :: xs, h => by
    rw [List.pairwise_cons] at h
    exact List.nodup_cons.2 ⟨fun hx => Nat.lt_irrefl _ (h.1 x hx), pairwise_gt_nodup xs h.2⟩

theorem mroNew_nil (h : Heap) (self : Nat) : mroNew h self [] = some [self] := by
  simp [mroNew, c3merge]

theorem chainWf_step (h : Heap) (d : Decl) (hw : h.chainWf) (hb : d.bases.length ≤ 1) :
    (h ++ [newSchema h h.length d]).chainWf := by
  intro i c hc
  have hi := Heap.cls?_lt _ i c hc
  simp only [List.length_append, List.length_cons, List.length_nil] at hi
  rcases Nat.lt_or_ge i h.length with hlt | hge
  · rw [Heap.cls?_append_lt h _ i hlt] at hc
    obtain ⟨h1, h2, h3⟩ := hw i c hc
    exact ⟨by simp; omega, h2, h3⟩
  · have hieq : i = h.length := by omega
    subst hieq
    rw [Heap.cls?_append_self] at hc
    cases hn : newSchema h h.length d with
    | error e => simp [hn] at hc
    | ok c' =>
      simp only [hn, Option.some.injEq] at hc
      subst hc
      obtain ⟨dict, mro, _, hm, hcc⟩ := newSchema_ok hn
      subst hcc
      refine ⟨by simp, ?_⟩
      match hbs : d.bases, hb with
      | [], _ =>
        rw [hbs, mroNew_nil] at hm
        cases hm
        simp
      | [p], _ =>
        rw [hbs] at hm
        -- the base exists (otherwise `skipped`)
        have hex : ∃ cp, h.cls? p = some cp := by
          simp only [newSchema] at hn
          by_cases h1 : (d.bases.any fun b => (h.cls? b).isNone) = true
          · rw [if_pos h1] at hn
            cases hn
          · rw [hbs] at h1
            cases hp : h.cls? p with
            | none => simp [hp] at h1
            | some cp => exact ⟨cp, rfl⟩
        obtain ⟨cp, hcp⟩ := hex
        obtain ⟨hpl, hhead, hpw⟩ := hw p cp hcp
        have hmro : h.mroOf p = cp.mro := by simp [Heap.mroOf, hcp]
        cases hcm : cp.mro with
        | nil => simp [hcm] at hhead
        | cons x rest =>
          rw [hcm] at hhead hpw
          simp only [List.head?_cons, Option.some.injEq] at hhead
          subst hhead
          have := (C08_schema_single_inheritance h h.length x rest (by rw [hmro, hcm]) (pairwise_gt_nodup _ hpw)).1
          rw [this] at hm
          cases hm
          refine ⟨by simp, ?_⟩
          rw [List.pairwise_cons]
          refine ⟨?_, hpw⟩
          intro y hy
          rcases List.mem_cons.1 hy with rfl | hy
          · exact hpl
          · rw [List.pairwise_cons] at hpw
            exact Nat.lt_trans (hpw.1 y hy) hpl
      | _ :: _ :: _, hb' => simp at hb'

theorem chainWf_buildFrom (h : Heap) (ds : List Decl) (hw : h.chainWf) (hb : ∀ d ∈ ds, d.bases.length ≤ 1) :
    (buildFrom h ds).chainWf := by
  induction ds generalizing h with
  | nil => exact hw
  | cons d ds ih =>
    simp only [buildFrom]
    exact ih _ (chainWf_step h d hw (hb d (List.mem_cons_self ..))) (fun d' hd' => hb d' (List.mem_cons_of_mem _ hd'))

/-- **single-inheritance programs** (every statement has at most one base — what `class N(dsl.Schema | table)` allows):
the C3 step never fails, and the linearisation of every class is itself followed by strictly earlier classes -/
theorem C08_schema_chain (ds : List Decl) (hb : ∀ d ∈ ds, d.bases.length ≤ 1) (i : Nat) (c : Cls)
    (hc : (buildAll ds).cls? i = some c) : c.mro.head? = some i ∧ c.mro.Pairwise (· > ·) ∧ c.mro.Nodup := by
  have hw : (buildAll ds).chainWf := chainWf_buildFrom [] ds (by intro i c hc; simp [Heap.cls?] at hc) hb
  obtain ⟨_, h2, h3⟩ := hw i c hc
  exact ⟨h2, h3, pairwise_gt_nodup _ h3⟩

/-! ### non-vacuity: hierarchies -/

/-- the example of the `dsl.Schema` documentation -/
def docProg : List Decl :=
  [ { via := .declared, name := "Person", bases := [], ns := [("surname", ⟨.string, none⟩), ("dob", ⟨.date, some "birthday"⟩)] },
    { via := .declared, name := "Student", bases := [0], ns := [("level", ⟨.integer, none⟩), ("score", ⟨.float, none⟩)] } ]

example : (buildAll docProg).fields 1 = [("surname", .string), ("birthday", .date), ("level", .integer), ("score", .float)] := by
  decide

/-- override under a different explicit name keeps the position (tests/io/dsl/_struct/test_frame.py::test_ordering) -/
def overrideProg : List Decl :=
  [ { via := .declared, name := "Base", bases := [], ns := [("first", ⟨.integer, none⟩), ("fixme", ⟨.float, some "old"⟩)] },
    { via := .declared, name := "Child", bases := [0], ns := [("last", ⟨.integer, none⟩), ("fixme", ⟨.string, some "new"⟩)] } ]

example : (buildAll overrideProg).fields 1 = [("first", .integer), ("new", .string), ("last", .integer)] := by decide
example : tableOf (encode overrideProg (buildAll overrideProg)) (buildAll (encode overrideProg (buildAll overrideProg))) 1
    = some (.table "Child" [("first", .integer), ("new", .string), ("last", .integer)]) := by decide

/-- two bases; a diamond; a pair of bases python cannot linearise -/
def diamondProg : List Decl :=
  [ { via := .metaclass, name := "T", bases := [], ns := [("k", ⟨.integer, some "n0"⟩), ("t", ⟨.string, none⟩)] },
    { via := .metaclass, name := "L", bases := [0], ns := [] },
    { via := .metaclass, name := "R", bases := [0], ns := [("k", ⟨.float, some "n1"⟩), ("r", ⟨.date, none⟩)] },
    { via := .metaclass, name := "D", bases := [1, 2], ns := [("d", ⟨.boolean, none⟩)] },
    { via := .metaclass, name := "X", bases := [0, 2], ns := [] } ]

example : (buildAll diamondProg).mroOf 3 = [3, 1, 2, 0]
    ∧ (buildAll diamondProg).fields 3 = [("n1", .float), ("t", .string), ("r", .date), ("d", .boolean)]
    ∧ (buildAll diamondProg).cls? 4 = none := by decide

end ForML.Dsl
