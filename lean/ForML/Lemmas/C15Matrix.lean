/-
C15 — helper lemmas about positional selection (`takeIdx`), all-or-nothing maps (`mapOpt`) and
transposition (`transposeN`), and the two selection primitives of `Mat`.
The property theorems are in ForML/Props/C15.lean.
-/
import ForML.Model.Entry

namespace ForML.Entry

/-! ### helper lemmas: positional selection and transposition -/

section matrix
variable {α β : Type}

theorem mapOpt_some {f : α → Option β} (xs : List α) (ys : List β) (h : mapOpt f xs = some ys) :
    ys.length = xs.length ∧ ∀ k : Nat, ys[k]? = xs[k]?.bind f := by
  induction xs generalizing ys with
  | nil => simp [mapOpt] at h; subst h; simp
  | cons x r ih =>
    simp only [mapOpt] at h
    split at h
    · rename_i b bs hb hbs
      cases h
      obtain ⟨h1, h2⟩ := ih bs hbs
      refine ⟨by simp [h1], ?_⟩
      intro k; cases k with
      | zero => simp [hb]
      | succ k => simpa using h2 k
    · cases h

theorem mapOpt_none {f : α → Option β} (xs : List α) :
    mapOpt f xs = none ↔ ∃ x ∈ xs, f x = none := by
  induction xs with
  | nil => simp [mapOpt]
  | cons x r ih =>
    simp only [mapOpt]
    cases hx : f x with
    | none => simp [hx]
    | some b =>
      cases hr : mapOpt f r with
      | none => simp [hx]; exact ih.mp hr
      | some bs =>
        simp [hx]
        intro y hy hn
        have := ih.mpr ⟨y, hy, hn⟩
        rw [hr] at this; cases this

theorem normIdx_lt (n : Nat) (i : Int) (k : Nat) (h : normIdx n i = some k) : k < n := by
  unfold normIdx at h
  split at h
  · split at h
    · cases h; assumption
    · cases h
  · split at h
    · cases h; omega
    · cases h

theorem takeIdx_some (xs : List α) (is : List Int) (ys : List α) (h : takeIdx xs is = some ys) :
    ys.length = is.length ∧
    ∀ k : Nat, ys[k]? = is[k]?.bind (fun i => (normIdx xs.length i).bind (xs[·]?)) :=
  mapOpt_some is ys h

theorem takeIdx_none (xs : List α) (is : List Int) :
    takeIdx xs is = none ↔ ∃ i ∈ is, normIdx xs.length i = none := by
  unfold takeIdx
  rw [mapOpt_none]
  constructor
  · rintro ⟨i, hi, hn⟩
    refine ⟨i, hi, ?_⟩
    cases hk : normIdx xs.length i with
    | none => rfl
    | some k =>
      have := normIdx_lt _ _ _ hk
      simp [hk, this] at hn
  · rintro ⟨i, hi, hn⟩
    exact ⟨i, hi, by simp [hn]⟩

theorem takeIdx_mem (xs : List α) (is : List Int) (ys : List α) (h : takeIdx xs is = some ys) :
    ∀ y ∈ ys, y ∈ xs := by
  intro y hy
  obtain ⟨k, hk⟩ := List.getElem?_of_mem hy
  rw [(takeIdx_some xs is ys h).2 k] at hk
  cases hi : is[k]? with
  | none => simp [hi] at hk
  | some i =>
    simp only [hi, Option.bind_some] at hk
    cases hn : normIdx xs.length i with
    | none => simp [hn] at hk
    | some a => simp only [hn, Option.bind_some] at hk; exact List.mem_of_getElem? hk

theorem column_spec (xs : List (List α)) (n j : Nat) (hwf : ∀ r ∈ xs, r.length = n) (hj : j < n) :
    (xs.filterMap (·[j]?)).length = xs.length ∧
    ∀ i : Nat, (xs.filterMap (·[j]?))[i]? = xs[i]?.bind (·[j]?) := by
  induction xs with
  | nil => simp
  | cons r rs ih =>
    have hr : r.length = n := hwf r (by simp)
    have hlt : j < r.length := by omega
    obtain ⟨h1, h2⟩ := ih (fun x hx => hwf x (by simp [hx]))
    have e : (r :: rs).filterMap (·[j]?) = r[j] :: rs.filterMap (·[j]?) := by
      simp [List.getElem?_eq_getElem hlt]
    rw [e]
    refine ⟨by simp [h1], ?_⟩
    intro i; cases i with
    | zero => simp [List.getElem?_eq_getElem hlt]
    | succ i => simpa using h2 i

theorem transposeN_get (n : Nat) (xs : List (List α)) (j : Nat) :
    (transposeN n xs)[j]? = if j < n then some (xs.filterMap (·[j]?)) else none := by
  unfold transposeN
  by_cases h : j < n
  · simp [h]
  · simp [h]

theorem transposeN_length (n : Nat) (xs : List (List α)) : (transposeN n xs).length = n := by
  simp [transposeN]

theorem transposeN_wf (n : Nat) (xs : List (List α)) (hwf : ∀ r ∈ xs, r.length = n) :
    ∀ c ∈ transposeN n xs, c.length = xs.length := by
  intro c hc
  obtain ⟨j, hj⟩ := List.getElem?_of_mem hc
  rw [transposeN_get] at hj
  split at hj
  · rename_i hlt; cases hj; exact (column_spec xs n j hwf hlt).1
  · cases hj

/-- cell `(i, j)` of the matrix is cell `(j, i)` of its transpose -/
theorem transposeN_cell (n : Nat) (xs : List (List α)) (hwf : ∀ r ∈ xs, r.length = n) (i j : Nat) :
    (transposeN n xs)[j]?.bind (·[i]?) = xs[i]?.bind (·[j]?) := by
  rw [transposeN_get]
  split
  · rename_i hlt; simp only [Option.bind_some]; exact (column_spec xs n j hwf hlt).2 i
  · rename_i hge
    cases hi : xs[i]? with
    | none => simp
    | some r =>
      have := hwf r (List.mem_of_getElem? hi)
      simp only [Option.bind_none, Option.bind_some]
      symm; rw [List.getElem?_eq_none_iff]; omega

theorem filterMap_total {β γ : Type} (f : β → Option γ) (xs : List β)
    (h : ∀ x ∈ xs, (f x).isSome) :
    (xs.filterMap f).length = xs.length ∧ ∀ j : Nat, (xs.filterMap f)[j]? = xs[j]?.bind f := by
  induction xs with
  | nil => simp
  | cons x r ih =>
    obtain ⟨h1, h2⟩ := ih (fun y hy => h y (by simp [hy]))
    have hx := h x (by simp)
    cases hf : f x with
    | none => simp [hf] at hx
    | some b =>
      rw [List.filterMap_cons_some hf]
      refine ⟨by simp [h1], ?_⟩
      intro j; cases j with
      | zero => simp [hf]
      | succ j => simpa using h2 j

end matrix

section tabular
variable {α : Type}

theorem Mat.toMinor_cell (m : Mat α) (h : m.WF) (a b : Nat) :
    m.toMinor[b]?.bind (·[a]?) = m.cell a b := transposeN_cell m.minor m.major h a b

theorem Mat.takeMajor_spec (m : Mat α) (h : m.WF) (is : List Int) (t : Mat α)
    (ht : m.takeMajor is = some t) :
    t.WF ∧ t.minor = m.minor ∧ t.major.length = is.length ∧
    ∀ (k : Nat) (ι : Int) (a : Nat), is[k]? = some ι → normIdx m.major.length ι = some a →
      ∀ b, t.cell k b = m.cell a b := by
  unfold Mat.takeMajor at ht
  cases hx : takeIdx m.major is with
  | none => simp [hx] at ht
  | some xs =>
    simp [hx] at ht; subst ht
    obtain ⟨h1, h2⟩ := takeIdx_some m.major is xs hx
    refine ⟨fun r hr => h r (takeIdx_mem _ _ _ hx r hr), rfl, h1, ?_⟩
    intro k ι a hk ha b
    simp only [Mat.cell]
    rw [h2 k, hk]; simp [ha]

theorem Mat.takeMinor_spec (m : Mat α) (h : m.WF) (js : List Int) (t : Mat α)
    (ht : m.takeMinor js = some t) :
    t.WF ∧ t.minor = js.length ∧ t.major.length = m.major.length ∧
    ∀ (k : Nat) (ι : Int) (b : Nat), js[k]? = some ι → normIdx m.minor ι = some b →
      ∀ a, t.cell a k = m.cell a b := by
  unfold Mat.takeMinor at ht
  cases hx : takeIdx (transposeN m.minor m.major) js with
  | none => simp [hx] at ht
  | some cs =>
    simp [hx] at ht; subst ht
    obtain ⟨h1, h2⟩ := takeIdx_some _ js cs hx
    have hcs : ∀ c ∈ cs, c.length = m.major.length := fun c hc =>
      transposeN_wf m.minor m.major h c (takeIdx_mem _ _ _ hx c hc)
    refine ⟨?_, rfl, transposeN_length _ _, ?_⟩
    · intro r hr
      have := transposeN_wf m.major.length cs hcs r hr
      simp only; omega
    · intro k ι b hk hb a
      simp only [Mat.cell]
      rw [transposeN_cell m.major.length cs hcs k a, h2 k, hk]
      simp only [Option.bind_some, transposeN_length, hb]
      exact transposeN_cell m.minor m.major h a b

end tabular

end ForML.Entry
