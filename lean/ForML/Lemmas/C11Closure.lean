/-
C11 helper lemmas, part 5: completeness of the collapse — a subscription held by an output port is held by every
publisher registered (transitively) on that port (`Closed`), whatever the order of the calls.
-/
import ForML.Lemmas.C11Chain

namespace ForML.Graph

/-- the subscription `s` is held by output `idx` of `n` and by everything registered upstream of it -/
inductive HoldsUp (g : G) (s : Sub) : Nat → Nat → Prop
  | mk (n idx : Nat) : (⟨n, idx, s⟩ : Edge) ∈ g.edges →
      (isFuture g n = true → ∀ t ∈ pubsAt g n idx, HoldsUp g s t.1 t.2) → HoldsUp g s n idx

def Closed (g : G) : Prop := ∀ e ∈ g.edges, HoldsUp g e.sub e.pub e.out

theorem HoldsUp.edge {g : G} {s : Sub} {n i : Nat} (h : HoldsUp g s n i) : (⟨n, i, s⟩ : Edge) ∈ g.edges := by
  cases h with
  | mk _ _ he _ => exact he

/-- more edges, same registrations, same kind of the publishing nodes -/
theorem holdsUp_lift (g g' : G) (hr : g'.regs = g.regs) (he : ∀ e ∈ g.edges, e ∈ g'.edges)
    (hF : ∀ e ∈ g.edges, isFuture g' e.pub = isFuture g e.pub) {s : Sub} {n i : Nat}
    (h : HoldsUp g s n i) : HoldsUp g' s n i := by
  induction h with
  | mk n idx hedge _ ih =>
    refine .mk n idx (he _ hedge) ?_
    intro hf t ht
    have hf' : isFuture g n = true := by rw [← hF _ hedge]; exact hf
    have ht' : t ∈ pubsAt g n idx := by
      unfold pubsAt at ht ⊢; rw [hr] at ht; exact ht
    exact ih hf' t ht'

theorem holdsUp_same (g g' : G) (hs : Same g g') (he : ∀ e ∈ g.edges, e ∈ g'.edges) {s : Sub} {n i : Nat}
    (h : HoldsUp g s n i) : HoldsUp g' s n i :=
  holdsUp_lift g g' hs.2.1 he (fun e _ => hs.isFuture e.pub) h

theorem addEdge_mono (g : G) (e x : Edge) (h : x ∈ g.edges) : x ∈ (addEdge g e).edges := by
  unfold addEdge; split
  · exact h
  · exact List.mem_append_left _ h

theorem addEdge_mem (g : G) (e : Edge) : e ∈ (addEdge g e).edges := by
  unfold addEdge; split
  · rename_i h; exact h
  · simp

theorem publishTo_mono : ∀ (fuel : Nat) (g : G) (n idx : Nat) (s : Sub) (x : Edge),
    x ∈ g.edges → x ∈ (publishTo fuel g n idx s).1.edges := by
  intro fuel
  induction fuel with
  | zero => intro g n idx s x h; exact h
  | succ k ih =>
    intro g n idx s x h
    unfold publishTo
    split
    · split
      · exact h
      · have key : ∀ (ps : List (Nat × Nat)) (acc : G × Res), x ∈ acc.1.edges →
            x ∈ (ps.foldl (fun (acc : G × Res) t => match acc.2 with
              | .ok => publishTo k acc.1 t.1 t.2 s
              | _ => acc) acc).1.edges := by
          intro ps
          induction ps with
          | nil => intro acc h; exact h
          | cons t ps ihp =>
            intro acc h
            simp only [List.foldl_cons]
            apply ihp
            split
            · exact ih _ _ _ _ _ h
            · exact h
        exact key _ _ (addEdge_mono g _ x h)
    · split
      · exact h
      · split
        · exact h
        · exact addEdge_mono g _ x h

/-- a successful `publishTo` leaves the subscription held all the way up -/
theorem publishTo_holds : ∀ (fuel : Nat) (g : G) (n idx : Nat) (s : Sub),
    (publishTo fuel g n idx s).2 = .ok → HoldsUp (publishTo fuel g n idx s).1 s n idx := by
  intro fuel
  induction fuel with
  | zero => intro g n idx s h; simp [publishTo] at h
  | succ k ih =>
    intro g n idx s
    unfold publishTo
    by_cases hf : isFuture g n = true
    · simp only [hf, ↓reduceIte]
      by_cases hs : n = s.node
      · simp [hs]
      · simp only [hs, ↓reduceIte]
        have key : ∀ (ps : List (Nat × Nat)) (acc : G × Res), Same g acc.1 →
            (ps.foldl (fun (acc : G × Res) t => match acc.2 with
              | .ok => publishTo k acc.1 t.1 t.2 s
              | _ => acc) acc).2 = .ok →
            (let r := ps.foldl (fun (acc : G × Res) t => match acc.2 with
              | .ok => publishTo k acc.1 t.1 t.2 s
              | _ => acc) acc
             Same g r.1 ∧ (∀ x ∈ acc.1.edges, x ∈ r.1.edges) ∧ ∀ t ∈ ps, HoldsUp r.1 s t.1 t.2) := by
          intro ps
          induction ps with
          | nil => intro acc h _; exact ⟨h, fun _ h => h, by simp⟩
          | cons t ps ihp =>
            intro acc hsame hfin
            simp only [List.foldl_cons] at hfin ⊢
            cases hacc : acc.2 with
            | ok =>
              simp only [hacc] at hfin ⊢
              have hsame' : Same g (publishTo k acc.1 t.1 t.2 s).1 := hsame.trans (publishTo_same _ _ _ _ _)
              obtain ⟨r1, r2, r3⟩ := ihp _ hsame' hfin
              refine ⟨r1, fun x hx => r2 x (publishTo_mono _ _ _ _ _ x hx), ?_⟩
              intro t' ht'
              rcases List.mem_cons.mp ht' with rfl | ht'
              · -- the step itself succeeded (otherwise the error would have been kept to the end)
                have hok : (publishTo k acc.1 t'.1 t'.2 s).2 = .ok := by
                  cases hstep : (publishTo k acc.1 t'.1 t'.2 s).2 with
                  | ok => rfl
                  | err e =>
                    exfalso
                    have hkeep : ∀ (qs : List (Nat × Nat)) (a : G × Res), a.2 = .err e →
                        (qs.foldl (fun (acc : G × Res) t => match acc.2 with
                          | .ok => publishTo k acc.1 t.1 t.2 s
                          | _ => acc) a).2 = .err e := by
                      intro qs
                      induction qs with
                      | nil => intro a h; exact h
                      | cons q qs ihq => intro a h; simp only [List.foldl_cons, h]; exact ihq a h
                    rw [hkeep ps _ hstep] at hfin; cases hfin
                  | node m =>
                    exfalso
                    have hkeep : ∀ (qs : List (Nat × Nat)) (a : G × Res), a.2 = .node m →
                        (qs.foldl (fun (acc : G × Res) t => match acc.2 with
                          | .ok => publishTo k acc.1 t.1 t.2 s
                          | _ => acc) a).2 = .node m := by
                      intro qs
                      induction qs with
                      | nil => intro a h; exact h
                      | cons q qs ihq => intro a h; simp only [List.foldl_cons, h]; exact ihq a h
                    rw [hkeep ps _ hstep] at hfin; cases hfin
                  | segs m =>
                    exfalso
                    have hkeep : ∀ (qs : List (Nat × Nat)) (a : G × Res), a.2 = .segs m →
                        (qs.foldl (fun (acc : G × Res) t => match acc.2 with
                          | .ok => publishTo k acc.1 t.1 t.2 s
                          | _ => acc) a).2 = .segs m := by
                      intro qs
                      induction qs with
                      | nil => intro a h; exact h
                      | cons q qs ihq => intro a h; simp only [List.foldl_cons, h]; exact ihq a h
                    rw [hkeep ps _ hstep] at hfin; cases hfin
                exact holdsUp_same _ _ (hsame'.symm.trans r1) r2 (ih acc.1 t'.1 t'.2 s hok)
              · exact r3 t' ht'
            | err e =>
              exfalso
              simp only [hacc] at hfin
              have hkeep : ∀ (qs : List (Nat × Nat)) (a : G × Res), a.2 = .err e →
                  (qs.foldl (fun (acc : G × Res) t => match acc.2 with
                    | .ok => publishTo k acc.1 t.1 t.2 s
                    | _ => acc) a).2 = .err e := by
                intro qs
                induction qs with
                | nil => intro a h; exact h
                | cons q qs ihq => intro a h; simp only [List.foldl_cons, h]; exact ihq a h
              rw [hkeep ps acc hacc] at hfin; cases hfin
            | node m =>
              exfalso
              simp only [hacc] at hfin
              have hkeep : ∀ (qs : List (Nat × Nat)) (a : G × Res), a.2 = .node m →
                  (qs.foldl (fun (acc : G × Res) t => match acc.2 with
                    | .ok => publishTo k acc.1 t.1 t.2 s
                    | _ => acc) a).2 = .node m := by
                intro qs
                induction qs with
                | nil => intro a h; exact h
                | cons q qs ihq => intro a h; simp only [List.foldl_cons, h]; exact ihq a h
              rw [hkeep ps acc hacc] at hfin; cases hfin
            | segs m =>
              exfalso
              simp only [hacc] at hfin
              have hkeep : ∀ (qs : List (Nat × Nat)) (a : G × Res), a.2 = .segs m →
                  (qs.foldl (fun (acc : G × Res) t => match acc.2 with
                    | .ok => publishTo k acc.1 t.1 t.2 s
                    | _ => acc) a).2 = .segs m := by
                intro qs
                induction qs with
                | nil => intro a h; exact h
                | cons q qs ihq => intro a h; simp only [List.foldl_cons, h]; exact ihq a h
              rw [hkeep ps acc hacc] at hfin; cases hfin
        intro hfin
        obtain ⟨r1, r2, r3⟩ := key (pubsAt g n idx) (addEdge g ⟨n, idx, s⟩, .ok) (addEdge_same g _) hfin
        refine .mk n idx (r2 _ (addEdge_mem g _)) ?_
        intro _ t ht
        exact r3 t (Eq.mp (congrArg (fun l => t ∈ l) (r1.pubsAt n idx)) ht)
    · have hf' : isFuture g n = false := by simpa using hf
      simp only [hf', Bool.false_eq_true, ↓reduceIte]
      split
      · intro h; cases h
      · split
        · intro h; cases h
        · intro _
          refine .mk n idx (addEdge_mem g _) ?_
          intro hfut
          rw [(addEdge_same g ⟨n, idx, s⟩).isFuture, hf'] at hfut
          cases hfut

theorem holdsUp_tree (g : G) (s : Sub) : ∀ (fuel n i : Nat), HoldsUp g s n i →
    ∀ x ∈ tree fuel g n i, HoldsUp g s x.1 x.2 := by
  intro fuel
  induction fuel with
  | zero => intro n i _ x hx; simp [tree] at hx
  | succ k ih =>
    intro n i h x hx
    simp only [tree, List.mem_cons] at hx
    rcases hx with rfl | hx
    · exact h
    · split at hx
      · rename_i hf
        simp only [List.mem_flatMap] at hx
        obtain ⟨t, ht, hxt⟩ := hx
        cases h with
        | mk _ _ _ hup => exact ih t.1 t.2 (hup hf t ht) x hxt
      · cases hx

theorem holdsUp_up {g : G} (i8 : I8 g) {s : Sub} {a x : Nat × Nat} (hu : Up g a x) :
    HoldsUp g s a.1 a.2 → HoldsUp g s x.1 x.2 := by
  induction hu with
  | refl => exact fun h => h
  | step hst _ ih =>
    intro h
    apply ih
    obtain ⟨r, hr, h1, h2, h3, h4⟩ := hst
    cases h with
    | mk _ _ _ hup =>
      have hf : isFuture g _ = true := h1 ▸ (i8 r hr).1
      have := hup hf (r.pub, r.out) (by
        unfold pubsAt
        simp only [List.mem_map, List.mem_filter, decide_eq_true_eq]
        exact ⟨r, ⟨hr, h1, h2⟩, rfl⟩)
      rw [← h3, ← h4]; exact this

theorem out_mem (g : G) (f i : Nat) (s : Sub) (h : (⟨f, i, s⟩ : Edge) ∈ g.edges) : s ∈ out g f i := by
  unfold out
  simp only [List.mem_map, List.mem_filter, decide_eq_true_eq]
  exact ⟨⟨f, i, s⟩, ⟨h, rfl, rfl⟩, rfl⟩

/-- a successful `publish` keeps `Closed` -/
theorem closed_publish (g : G) (p pi : Nat) (s : Sub) (L : List Edge) (hc : Closed g)
    (hpt : publishTo (fuelOf g) (withPort g s) p pi s =
      ({ g with edges := g.edges ++ L, ports := g.ports ++ [s] }, .ok))
    (hL : ∀ e ∈ L, e.sub = s ∧ (e.pub, e.out) ∈ tree (fuelOf g) g p pi) :
    Closed { g with edges := g.edges ++ L, ports := g.ports ++ [s] } := by
  have hold := publishTo_holds (fuelOf g) (withPort g s) p pi s (by rw [hpt])
  rw [hpt] at hold
  intro e he
  rcases List.mem_append.mp he with he | he
  · exact holdsUp_lift g ({ g with edges := g.edges ++ L, ports := g.ports ++ [s] } : G) rfl
      (fun x hx => List.mem_append_left _ hx) (fun _ _ => rfl) (hc e he)
  · obtain ⟨h1, h2⟩ := hL e he
    rw [h1]
    have ht : (e.pub, e.out) ∈
        tree (fuelOf g) ({ g with edges := g.edges ++ L, ports := g.ports ++ [s] } : G) p pi := by
      rw [tree_congr (g := g) (g' := ({ g with edges := g.edges ++ L, ports := g.ports ++ [s] } : G)) rfl rfl]
      exact h2
    exact holdsUp_tree _ s _ p pi hold _ ht

/-- after a successful registration every subscription held by that placeholder port is held all the way up
from the new publisher -/
theorem register_holds (g : G) (f i p pi : Nat) (g' : G) (h : register g f i p pi = (g', .ok)) :
    ∀ s ∈ out g f i, HoldsUp g' s p pi := by
  unfold register at h
  by_cases hfol : (isFuture g p && follows (fuelOf g) g p f) = true
  · simp only [hfol, ↓reduceIte] at h; cases h
  · simp only [hfol, Bool.false_eq_true, ↓reduceIte] at h
    split at h
    · cases h
    · have key : ∀ (ss : List Sub) (acc : G × Res),
          (ss.foldl (fun (acc : G × Res) s => match acc.2 with
            | .ok => publishTo (fuelOf g) acc.1 p pi s
            | _ => acc) acc).2 = .ok →
          (let r := ss.foldl (fun (acc : G × Res) s => match acc.2 with
            | .ok => publishTo (fuelOf g) acc.1 p pi s
            | _ => acc) acc
           Same acc.1 r.1 ∧ (∀ x ∈ acc.1.edges, x ∈ r.1.edges) ∧ ∀ s ∈ ss, HoldsUp r.1 s p pi) := by
        intro ss
        induction ss with
        | nil => intro acc _; exact ⟨Same.refl _, fun _ h => h, by simp⟩
        | cons s ss ihs =>
          intro acc hfin
          simp only [List.foldl_cons] at hfin ⊢
          have hkeep : ∀ (qs : List Sub) (a : G × Res), a.2 ≠ .ok →
              (qs.foldl (fun (acc : G × Res) s => match acc.2 with
                | .ok => publishTo (fuelOf g) acc.1 p pi s
                | _ => acc) a) = a := by
            intro qs
            induction qs with
            | nil => intro a _; rfl
            | cons q qs ihq =>
              intro a h
              simp only [List.foldl_cons]
              cases ha : a.2 with
              | ok => exact absurd ha h
              | err e => exact ihq a h
              | node m => exact ihq a h
              | segs m => exact ihq a h
          cases hacc : acc.2 with
          | ok =>
            simp only [hacc] at hfin ⊢
            obtain ⟨r1, r2, r3⟩ := ihs _ hfin
            have hs1 : Same acc.1 (publishTo (fuelOf g) acc.1 p pi s).1 := publishTo_same _ _ _ _ _
            refine ⟨hs1.trans r1, fun x hx => r2 x (publishTo_mono _ _ _ _ _ x hx), ?_⟩
            intro s' hs'
            rcases List.mem_cons.mp hs' with rfl | hs'
            · have hok : (publishTo (fuelOf g) acc.1 p pi s').2 = .ok := by
                by_cases hq : (publishTo (fuelOf g) acc.1 p pi s').2 = .ok
                · exact hq
                · rw [hkeep ss _ hq] at hfin; exact hfin
              exact holdsUp_same _ _ r1 r2 (publishTo_holds _ acc.1 p pi s' hok)
            · exact r3 s' hs'
          | err e =>
            exfalso
            simp only [hacc] at hfin
            rw [hkeep ss acc (by rw [hacc]; intro h; cases h)] at hfin
            rw [hacc] at hfin; cases hfin
          | node m =>
            exfalso
            simp only [hacc] at hfin
            rw [hkeep ss acc (by rw [hacc]; intro h; cases h)] at hfin
            rw [hacc] at hfin; cases hfin
          | segs m =>
            exfalso
            simp only [hacc] at hfin
            rw [hkeep ss acc (by rw [hacc]; intro h; cases h)] at hfin
            rw [hacc] at hfin; cases hfin
      have hfin := congrArg Prod.snd h
      have hfst := congrArg Prod.fst h
      simp only at hfin hfst
      obtain ⟨_, _, r3⟩ := key (out g f i) _ hfin
      intro s hs
      exact Eq.mp (congrArg (fun z => HoldsUp z s p pi) hfst) (r3 s hs)

/-- lifting over one new registration whose publisher holds everything the placeholder port holds -/
theorem holdsUp_reg (g g' : G) (r : Reg) (hr : g'.regs = g.regs ++ [r]) (he : ∀ e ∈ g.edges, e ∈ g'.edges)
    (hF : ∀ e ∈ g.edges, isFuture g' e.pub = isFuture g e.pub)
    (hnew : ∀ s, (⟨r.fut, r.idx, s⟩ : Edge) ∈ g.edges → HoldsUp g' s r.pub r.out)
    {s : Sub} {n i : Nat} (h : HoldsUp g s n i) : HoldsUp g' s n i := by
  induction h with
  | mk n idx hedge _ ih =>
    refine .mk n idx (he _ hedge) ?_
    intro hf t ht
    have hf' : isFuture g n = true := by rw [← hF _ hedge]; exact hf
    unfold pubsAt at ht
    rw [hr] at ht
    simp only [List.filter_append, List.map_append, List.mem_append, List.mem_map, List.mem_filter,
      decide_eq_true_eq, List.mem_singleton] at ht
    rcases ht with ⟨r0, ⟨hr0, h1, h2⟩, rfl⟩ | ⟨r0, ⟨hr0, h1, h2⟩, rfl⟩
    · exact ih hf' (r0.pub, r0.out) (by
        unfold pubsAt
        simp only [List.mem_map, List.mem_filter, decide_eq_true_eq]
        exact ⟨r0, ⟨hr0, h1, h2⟩, rfl⟩)
    · subst hr0
      apply hnew
      rw [h1, h2]; exact hedge

/-- a successful registration keeps `Closed` -/
theorem closed_register (g : G) (f i p pi : Nat) (L : List Edge) (hc : Closed g)
    (h : register g f i p pi = ({ g with edges := g.edges ++ L, regs := g.regs ++ [⟨f, i, p, pi⟩] }, .ok))
    (hL : RegFacts g f i p pi L) :
    Closed { g with edges := g.edges ++ L, regs := g.regs ++ [⟨f, i, p, pi⟩] } := by
  have hold := register_holds g f i p pi _ h
  intro e he
  rcases List.mem_append.mp he with he | he
  · exact holdsUp_reg g ({ g with edges := g.edges ++ L, regs := g.regs ++ [⟨f, i, p, pi⟩] } : G) ⟨f, i, p, pi⟩ rfl
      (fun x hx => List.mem_append_left _ hx) (fun _ _ => rfl)
      (fun s hs => hold s (out_mem g f i s hs)) (hc e he)
  · obtain ⟨h1, _, _, _, ht⟩ := hL e he
    have ht' : (e.pub, e.out) ∈ tree (fuelOf g)
        ({ g with edges := g.edges ++ L, regs := g.regs ++ [⟨f, i, p, pi⟩] } : G) p pi := by
      rw [tree_congr (g := ({ g with regs := g.regs ++ [⟨f, i, p, pi⟩] } : G))
        (g' := ({ g with edges := g.edges ++ L, regs := g.regs ++ [⟨f, i, p, pi⟩] } : G)) rfl rfl]
      exact ht
    exact holdsUp_tree _ e.sub _ p pi (hold e.sub (out_mem g f i _ h1)) _ ht'

end ForML.Graph
