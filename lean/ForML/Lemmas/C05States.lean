/-
Helper lemmas for C05, several writers: what a handle reads — the tag through the TAGS cache, the states through the STATES
cache — is what a fresh reader reads, along any interleaved history (cache coherence).
-/
import ForML.Lemmas.C05World

namespace ForML.Registry
open ForML.Fs

/-- a `look` that returns a tag: the handle is bound to a listed generation whose tag — for a fresh reader — is that one -/
theorem lookTag_sound (w : World) (tk : TagsOk w) (h : Nat) (x : Handle) (t : Tag)
    (hlook : (lookTag w h x).look = some (some t)) :
    ∃ v g, boundGen w.fs x = some (v, g) ∧ (resolveRel w.fs x).2 = .ok v
      ∧ (resolveGen w.fs x.proj v (resolveRel w.fs x).1).2 = .ok (some g)
      ∧ genListed w.fs x.proj v g = true ∧ tagOf w.fs x.proj v g = some t := by
  unfold lookTag at hlook
  cases hr : resolveRel w.fs x with
  | mk x1 r =>
    rw [hr] at hlook
    cases r with
    | error e' => simp at hlook
    | ok v =>
      have hlst := (resolveRel_ok w.fs x v (by rw [hr])).1
      simp only at hlook
      cases hg : resolveGen w.fs x.proj v x1 with
      | mk x2 rg =>
        rw [hg] at hlook
        cases rg with
        | error e' => simp at hlook
        | ok og =>
          cases og with
          | none => simp at hlook
          | some g =>
            have hgv : genValid w.fs x.proj v g = true := resolveGen_ok w.fs x.proj v x1 g (by rw [hg])
            have hgl : genListed w.fs x.proj v g = true := by simp [genListed, hlst, hgv]
            refine ⟨v, g, by simp [boundGen, hr, hg], rfl, by simp only; rw [hg], hgl, ?_⟩
            simp only at hlook
            cases hc : lookupTag w.tags x.proc (x.proj, v, g) with
            | some t' =>
              rw [hc] at hlook
              simp only [Option.some.injEq] at hlook
              subst hlook
              obtain ⟨b, hb, hd⟩ := tk _ (lookupTag_mem _ _ _ _ hc)
              exact (tagOf_of_vis _ _ _ _ b _ hb hd).2
            | none =>
              rw [hc] at hlook
              simp only at hlook
              cases ht : tagOf w.fs x.proj v g with
              | none => rw [ht] at hlook; simp at hlook
              | some t' =>
                rw [ht] at hlook
                simp only [Option.some.injEq] at hlook
                rw [hlook]

/-- **cache coherence (states)**: every state a process has cached is the state a fresh reader reads -/
def StatesOk (w : World) : Prop :=
  ∀ e ∈ w.states, vis w.fs (stateP e.2.1.1 e.2.1.2.1 e.2.1.2.2.1 e.2.1.2.2.2) = some (.file e.2.2)

theorem lookupState_mem (states : List (Nat × (Nat × Nat × Nat × Nat) × Bytes)) (proc : Nat)
    (key : Nat × Nat × Nat × Nat) (b : Bytes) (h : lookupState states proc key = some b) : (proc, key, b) ∈ states := by
  induction states with
  | nil => simp [lookupState] at h
  | cons e r ih =>
    simp only [lookupState] at h
    split at h
    · rename_i hc; cases h
      have : e = (proc, key, e.2.2) := by
        obtain ⟨e1, e2, e3⟩ := e
        simp only at hc; simp [hc.1, hc.2]
      rw [this]; simp
    · exact List.mem_cons_of_mem _ (ih h)

/-- the bytes a fresh reader reads at a path (`[]` where it sees no file) -/
def visBytes (fs : Fs) (k : Path) : Bytes :=
  match vis fs k with
  | some (.file b) => b
  | _ => []

/-- reading the states of a listed generation through the cache: every byte string returned, and every entry the cache
holds afterwards, is what a fresh reader reads -/
theorem readStates_ok (fs : Fs) (proc p v g : Nat) :
    ∀ (sids : List Nat) (cache : List (Nat × (Nat × Nat × Nat × Nat) × Bytes)),
      (∀ s ∈ sids, ∃ b, vis fs (stateP p v g s) = some (.file b) ∧ get fs (stateP p v g s) = some (.file b)) →
      (∀ e ∈ cache, vis fs (stateP e.2.1.1 e.2.1.2.1 e.2.1.2.2.1 e.2.1.2.2.2) = some (.file e.2.2)) →
      (∀ e ∈ (readStates fs cache proc p v g sids).1,
          vis fs (stateP e.2.1.1 e.2.1.2.1 e.2.1.2.2.1 e.2.1.2.2.2) = some (.file e.2.2))
      ∧ (readStates fs cache proc p v g sids).2 = sids.map (fun s => visBytes fs (stateP p v g s)) := by
  intro sids
  induction sids with
  | nil => intro cache _ hc; exact ⟨hc, rfl⟩
  | cons s r ih =>
    intro cache hs hc
    have hr : ∀ s' ∈ r, ∃ b, vis fs (stateP p v g s') = some (.file b) ∧ get fs (stateP p v g s') = some (.file b) :=
      fun s' h' => hs s' (List.mem_cons_of_mem _ h')
    simp only [readStates]
    cases hl : lookupState cache proc (p, v, g, s) with
    | some b =>
      simp only
      obtain ⟨i1, i2⟩ := ih cache hr hc
      refine ⟨i1, ?_⟩
      have := hc _ (lookupState_mem _ _ _ _ hl)
      simp only at this
      simp only [List.map_cons, i2, visBytes, this]
    | none =>
      simp only
      obtain ⟨b, hv, hg⟩ := hs s (by simp)
      rw [hg]
      simp only
      have hc' : ∀ e ∈ (proc, (p, v, g, s), b) :: cache,
          vis fs (stateP e.2.1.1 e.2.1.2.1 e.2.1.2.2.1 e.2.1.2.2.2) = some (.file e.2.2) := by
        intro e he
        rcases List.mem_cons.mp he with rfl | he
        · exact hv
        · exact hc e he
      obtain ⟨i1, i2⟩ := ih _ hr hc'
      refine ⟨i1, ?_⟩
      simp only [List.map_cons, i2, visBytes, hv]

/-- the states a listed generation's tag names are visible files -/
theorem listed_states (fs : Fs) (gd : Good fs) (p v g : Nat) (t : Tag) (hl : genListed fs p v g = true)
    (ht : tagOf fs p v g = some t) :
    ∀ s ∈ t.sids, ∃ b, vis fs (stateP p v g s) = some (.file b) ∧ get fs (stateP p v g s) = some (.file b) := by
  intro s hs
  have hv : genValid fs p v g = true := by simp only [genListed, Bool.and_eq_true] at hl; exact hl.2
  obtain ⟨t', ht', hs'⟩ := gd.healthy p v g hv
  rw [ht] at ht'; cases ht'
  obtain ⟨b, hb⟩ := hs' s hs
  have hc : t.sids.contains s = true := by simp only [List.contains_iff_mem]; exact hs
  exact ⟨b, by simp only [vis, stateP, hl, ht, hc, Bool.and_self, if_true]; exact hb, hb⟩

/-- the STATES caches after an operation -/
theorem perform_states (w : World) (h : Nat) (op : HOp) :
    (perform Impl.repaired w h op).w.states = w.states
    ∨ ∃ x t v g, lookupH w.hs h = some x ∧ (lookTag w h x).look = some (some t) ∧ boundGen w.fs x = some (v, g)
        ∧ (perform Impl.repaired w h op).w.fs = w.fs
        ∧ (perform Impl.repaired w h op).w.states = (readStates w.fs w.states x.proc x.proj v g t.sids).1 := by
  by_cases hop : ∃ proc p v g, op = .open proc p v g
  · obtain ⟨proc, p, v, g, rfl⟩ := hop
    simp only [perform]
    split <;> exact Or.inl rfl
  · by_cases hlook : op = .look
    · subst hlook
      simp only [perform]
      cases hl : lookupH w.hs h with
      | none => exact Or.inl rfl
      | some x =>
        dsimp only
        have hfs := (lookOn_fs w h x).1
        have hts : ∀ o : HOut, o = lookTag w h x → o.w.states = w.states := by
          intro o ho; rw [ho]
          unfold lookTag
          split
          · rfl
          · split
            · rfl
            · rfl
            · split
              · rfl
              · split <;> rfl
        simp only [lookOn] at hfs ⊢
        cases hlk : (lookTag w h x).look with
        | none => left; exact hts _ rfl
        | some ot =>
          cases ot with
          | none => left; exact hts _ rfl
          | some t =>
            cases hb : boundGen w.fs x with
            | none => left; exact hts _ rfl
            | some vg =>
              obtain ⟨v, g⟩ := vg
              right
              refine ⟨x, t, v, g, rfl, hlk, hb, ?_, ?_⟩
              · show (lookTag w h x).w.fs = w.fs; exact (lookTag_fs w h x).1
              · rfl
    · have hop' : ∀ proc p v g, op ≠ .open proc p v g := fun proc p v g e => hop ⟨proc, p, v, g, e⟩
      left
      rw [perform_general w h op hop' hlook]
      cases lookupH w.hs h with
      | none => rfl
      | some x =>
        dsimp only
        cases (plan w.fs x op).err <;> rfl

theorem applyH_statesOk (w : World) (g2 : Good2 w.fs) (tk : TagsOk w) (sk : StatesOk w) (e : HEv) :
    StatesOk (applyH Impl.repaired w e) := by
  intro en hen
  have keep : ∀ en ∈ w.states,
      vis (applyH Impl.repaired w e).fs (stateP en.2.1.1 en.2.1.2.1 en.2.1.2.2.1 en.2.1.2.2.2) = some (.file en.2.2) :=
    fun en hin => applyH_append_only w g2 e _ _ (sk en hin)
  cases e with
  | run h op =>
    simp only [applyH] at hen ⊢
    rcases perform_states w h op with hs | ⟨x, t, v, g, hl, hlk, hb, hfs, hs⟩
    · rw [hs] at hen; exact keep en hen
    · rw [hs] at hen
      rw [hfs]
      obtain ⟨v', g', hb', _, _, hgl, htag⟩ := lookTag_sound w tk h x t hlk
      rw [hb] at hb'; cases hb'
      exact (readStates_ok w.fs x.proc x.proj v g t.sids w.states
        (listed_states w.fs g2.good x.proj v g t hgl htag) sk).1 en hen
  | die h op k cut =>
    simp only [applyH] at hen
    split at hen
    · exact keep en hen
    · simp only [killProc, List.mem_filter] at hen
      exact keep en hen.1
  | fault h op j =>
    simp only [applyH] at hen
    split at hen
    · exact keep en hen
    · exact keep en hen

theorem playH_caches_from (evs : List HEv) :
    ∀ w, Good2 w.fs → TagsOk w → StatesOk w →
      TagsOk (playH Impl.repaired w evs) ∧ StatesOk (playH Impl.repaired w evs) := by
  induction evs with
  | nil => intro w _ tk sk; exact ⟨tk, sk⟩
  | cons e r ih =>
    intro w g tk sk
    exact ih _ (applyH_good2 w g e) (applyH_tagsOk w g tk e) (applyH_statesOk w g tk sk e)

theorem playH_statesOk (evs : List HEv) : StatesOk (playH Impl.repaired World.empty evs) :=
  (playH_caches_from evs _ empty_good2 (by intro e he; cases he) (by intro e he; cases he)).2

end ForML.Registry
