/-
C01 — what the decidable well-formedness predicate `Segment.wf` / `Segment.assetsOK` says, as
propositions; basic facts on `worker?`, `publisher`, `trainerOf`.
-/
import ForML.Model.CompileSpec

namespace ForML.Flow
namespace Segment

/-! ### lists -/

theorem allDistinct_iff_nodup {α} [DecidableEq α] (l : List α) : allDistinct l = true ↔ l.Nodup := by
  induction l with
  | nil => simp [allDistinct]
  | cons x r ih => simp [allDistinct, ih]

theorem eq_of_nodup_map {α β} (f : α → β) {l : List α} (h : (l.map f).Nodup) {a b : α} (ha : a ∈ l) (hb : b ∈ l)
    (hab : f a = f b) : a = b := by
  induction l with
  | nil => cases ha
  | cons x r ih =>
    simp only [List.map_cons, List.nodup_cons, List.mem_map, not_exists, not_and] at h
    rcases List.mem_cons.mp ha with rfl | ha' <;> rcases List.mem_cons.mp hb with rfl | hb'
    · rfl
    · exact absurd hab.symm (h.1 b hb')
    · exact absurd hab (h.1 a ha')
    · exact ih h.2 ha' hb'

/-! ### lookups -/

theorem worker?_some {g : Segment} {n : Uid} {w : Worker} (h : g.worker? n = some w) : w ∈ g.workers ∧ w.uid = n := by
  unfold worker? at h
  exact ⟨List.mem_of_find?_eq_some h, by simpa using List.find?_some h⟩

theorem worker?_none {g : Segment} {n : Uid} (h : g.worker? n = none) : ∀ w ∈ g.workers, w.uid ≠ n := by
  unfold worker? at h
  intro w hw
  have := List.find?_eq_none.mp h w hw
  simpa using this

theorem worker?_of_mem {g : Segment} (hnd : g.uids.Nodup) {w : Worker} (hw : w ∈ g.workers) :
    g.worker? w.uid = some w := by
  cases h : g.worker? w.uid with
  | none => exact absurd rfl (worker?_none h w hw)
  | some w' =>
    obtain ⟨hw', hid⟩ := worker?_some h
    exact congrArg some (eq_of_nodup_map (fun w : Worker => w.uid) (l := g.workers) hnd hw' hw hid)

theorem mem_uids {g : Segment} {n : Uid} : n ∈ g.uids ↔ ∃ w ∈ g.workers, w.uid = n := by
  simp [uids]

theorem publisher_some {g : Segment} {n : Uid} {p : InPort} {e : Edge} (h : g.publisher n p = some e) :
    e ∈ g.edges ∧ e.sub = n ∧ e.subPort = p := by
  unfold publisher at h
  have h2 := List.find?_some h
  simp only [Bool.and_eq_true, decide_eq_true_eq] at h2
  exact ⟨List.mem_of_find?_eq_some h, h2.1, h2.2⟩

theorem publisher_isSome_of_mem {g : Segment} {e : Edge} (he : e ∈ g.edges) : (g.publisher e.sub e.subPort).isSome := by
  unfold publisher
  rw [List.find?_isSome]
  exact ⟨e, he, by simp⟩

theorem trained_iff {g : Segment} {n : Uid} :
    g.trained n = true ↔ ∃ e ∈ g.edges, e.sub = n ∧ e.subPort.isApply = false := by
  simp [trained]

theorem trainerOf_some {g : Segment} {γ : Gid} {t : Worker} (h : g.trainerOf γ = some t) :
    t ∈ g.workers ∧ t.gid = γ ∧ g.trained t.uid = true := by
  unfold trainerOf at h
  have h2 := List.find?_some h
  simp only [Bool.and_eq_true, decide_eq_true_eq] at h2
  exact ⟨List.mem_of_find?_eq_some h, h2.1, h2.2⟩

theorem trainerOf_none {g : Segment} {γ : Gid} (h : g.trainerOf γ = none) :
    ∀ w ∈ g.workers, w.gid = γ → g.trained w.uid = false := by
  unfold trainerOf at h
  intro w hw hg
  have := List.find?_eq_none.mp h w hw
  simpa [hg] using this

/-! ### well-formedness as propositions -/

/-- what `e ∈ g.edges` guarantees in a well-formed segment -/
structure EdgeOK (g : Segment) (rank : Uid → Nat) (e : Edge) : Prop where
  pub : ∃ p, g.worker? e.pub = some p ∧ e.pubPort < p.szout
  sub : ∃ s, g.worker? e.sub = some s ∧ (match e.subPort with | .apply i => i < s.szin | _ => s.stateful = true)
  rank : rank e.pub < rank e.sub

structure WF (g : Segment) (rank : Uid → Nat) : Prop where
  nodup : g.uids.Nodup
  head : g.head ∈ g.uids
  tail : g.tail ∈ g.uids
  edge : ∀ e ∈ g.edges, EdgeOK g rank e
  ports : (g.edges.map fun e => (e.sub, e.subPort)).Nodup
  portsOK : ∀ w ∈ g.workers, g.portsOK w = true
  group : ∀ w ∈ g.workers, ∀ o ∈ g.workers, w.gid = o.gid →
    w.actor = o.actor ∧ w.stateful = o.stateful ∧
      (g.trained w.uid = true → w.uid ≠ o.uid → g.trained o.uid = false ∧ rank w.uid < rank o.uid)
  elsewhere : ∀ w ∈ g.workers, g.trainedElsewhere.contains w.gid = true → g.trained w.uid = false ∧ w.stateful = true

theorem wf_WF {g : Segment} {rank : Uid → Nat} (h : g.wf rank = true) : WF g rank := by
  simp only [wf, Bool.and_eq_true, allDistinct_iff_nodup, List.all_eq_true] at h
  obtain ⟨⟨⟨⟨⟨⟨⟨⟨hnd, hhead⟩, htail⟩, hedge⟩, hports⟩, hpok⟩, _⟩, hgrp⟩, helse⟩ := h
  refine ⟨hnd, by simpa using hhead, by simpa using htail, ?_, hports, hpok, ?_, ?_⟩
  · intro e he
    have := hedge e he
    cases hp : g.worker? e.pub with
    | none => simp [hp] at this
    | some p =>
      cases hs : g.worker? e.sub with
      | none => simp [hp, hs] at this
      | some s =>
        simp only [hp, hs, Bool.and_eq_true, decide_eq_true_eq] at this
        refine ⟨⟨p, hp, this.1.1⟩, ⟨s, hs, ?_⟩, this.1.2⟩
        have h3 := this.2
        cases hport : e.subPort <;> simp_all
  · intro w hw o ho hgid
    have := hgrp w hw o ho
    simp only [hgid, if_true, Bool.and_eq_true, decide_eq_true_eq] at this
    refine ⟨this.1.1, this.1.2, ?_⟩
    intro htr hne
    have h3 := this.2
    simpa [htr, hne] using h3
  · intro w hw hc
    have := helse w hw
    simp only [hc, if_true, Bool.and_eq_true, Bool.not_eq_eq_eq_not, Bool.not_true] at this
    exact this

/-- a trained member of a well-formed segment: stateful, train and label subscribed, no apply input,
no subscribers -/
structure TrainedOK (g : Segment) (w : Worker) : Prop where
  stateful : w.stateful = true
  train : ∃ x, g.publisher w.uid .train = some x
  label : ∃ y, g.publisher w.uid .label = some y
  noApply : ∀ e ∈ g.edges, e.sub = w.uid → e.subPort.isApply = false
  noOut : ∀ e ∈ g.edges, e.pub ≠ w.uid

theorem publisher_of_contains {g : Segment} {n : Uid} {p : InPort}
    (h : ((g.edges.filter (fun e => e.sub = n)).map (·.subPort)).contains p = true) :
    ∃ e, g.publisher n p = some e := by
  simp only [List.contains_iff_mem, List.mem_map, List.mem_filter, decide_eq_true_eq] at h
  obtain ⟨e, ⟨he, hs⟩, hp⟩ := h
  have := publisher_isSome_of_mem he
  rw [hs, hp] at this
  exact Option.isSome_iff_exists.mp this

theorem WF.trainedOK {g : Segment} {rank : Uid → Nat} (h : WF g rank) {w : Worker} (hw : w ∈ g.workers)
    (htr : g.trained w.uid = true) : TrainedOK g w := by
  have hp := h.portsOK w hw
  simp only [Segment.portsOK, htr, if_true, Bool.and_eq_true, List.all_eq_true] at hp
  obtain ⟨⟨⟨⟨hst, ht⟩, hl⟩, hall⟩, hout⟩ := hp
  refine ⟨hst, publisher_of_contains ht, publisher_of_contains hl, ?_, ?_⟩
  · intro e he hs
    have := hall e.subPort (by simp only [List.mem_map, List.mem_filter, decide_eq_true_eq]; exact ⟨e, ⟨he, hs⟩, rfl⟩)
    simpa using this
  · intro e he
    simpa using hout e he

/-- asset accessor compatible with the segment, as propositions -/
structure AssetsOK (g : Segment) (A : Option Assets) : Prop where
  nodup : ∀ As, A = some As → As.persistent.Nodup
  allOrNone : ∀ As, A = some As →
    (∀ γ ∈ As.persistent, (g.trainerOf γ).isSome) ∨ (∀ γ ∈ As.persistent, g.trainerOf γ = none)
  elsewhere : ∀ w ∈ g.workers, w.stateful = true → g.trainedElsewhere.contains w.gid = true → persistentW A w = true

theorem assetsOK_AssetsOK {g : Segment} {A : Option Assets} (h : g.assetsOK A = true) : AssetsOK g A := by
  cases A with
  | none =>
    simp only [assetsOK, List.all_eq_true] at h
    refine ⟨fun _ h => (by cases h), fun _ h => (by cases h), ?_⟩
    intro w hw hst hc
    have := h w hw
    rw [hst, hc] at this
    cases this
  | some As =>
    simp only [assetsOK, Bool.and_eq_true, allDistinct_iff_nodup, Bool.or_eq_true, List.all_eq_true] at h
    obtain ⟨⟨hnd, hall⟩, hel⟩ := h
    refine ⟨fun _ h => (by cases h; exact hnd), fun _ h => (by
      cases h
      rcases hall with h1 | h1
      · exact Or.inl h1
      · exact Or.inr (fun γ hγ => by simpa using h1 γ hγ)), ?_⟩
    · intro w hw hst hc
      have := hel w hw
      simp only [hst, hc, and_self, if_true] at this
      simp [persistentW, hst, this]

end Segment
end ForML.Flow
