/-
C10 — trainings chained through committed tags tile the ordinal axis; apply and train drivers of
one `Feed.load` select by the same window.
-/
import ForML.Props.C10
import ForML.Lemmas.C10Ship
import ForML.Lemmas.C10Cache
import ForML.Model.OrdinalChain

set_option linter.unusedSectionVars false

namespace ForML.Ordinal
open Std

/-! ### what the registry does to a recorded ordinal -/

/-- a recorded ordinal that can be cast to the column's kind can still be cast after the tag was
committed and read back (decided over all kind × value-class pairs) -/
theorem C10_toml_castable : ∀ (k : Kind) (t : PyT), castRule k t ≠ .err → castRule k (tomlClass t) ≠ .err := by
  intro k t; cases k <;> cases t <;> decide

/-- … also when an integral `Decimal` reads back as an `int` instead of a `float` -/
theorem C10_toml_castable_int : ∀ k : Kind, castRule k .decimal ≠ .err →
    castRule k .int ≠ .err ∧ castRule k .float ≠ .err := by
  intro k; cases k <;> decide

/-- committing a tag changes neither the point its ordinal denotes nor its truth value -/
theorem C10_persist_point {α : Type} (r : Raw α) :
    (persistRaw r).pt = r.pt ∧ (persistRaw r).truthy = r.truthy := ⟨rfl, rfl⟩

section chain
variable {α : Type}

/-! ### the windows of a sequence of trainings -/

/-- each training extracts `(its explicit lower bound, or else the ordinal committed with the
generation it starts from — i.e. the previous training's upper bound —, its upper bound)` -/
theorem C10_train_seq_windows (commit : Raw α → Raw α) (tag : Option (Raw α)) (u : Raw α)
    (r : List (Option (Raw α) × Raw α)) :
    (∀ l : Raw α, trainSeqVia commit tag ((some l, u) :: r)
      = (some l, some u) :: trainSeqVia commit (some (commit u)) r) ∧
    trainSeqVia commit tag ((none, u) :: r) = (tag, some u) :: trainSeqVia commit (some (commit u)) r :=
  ⟨fun _ => rfl, rfl⟩

/-- without explicit lower bounds a sequence of trainings is the chain -/
theorem C10_train_seq_chain (commit : Raw α → Raw α) (tag : Option (Raw α)) (us : List (Raw α)) :
    trainSeqVia commit tag (us.map (fun u => (none, u))) = trainChainVia commit tag us := by
  induction us generalizing tag with
  | nil => rfl
  | cons u r ih => simp only [List.map_cons, trainSeqVia, trainChainVia, ih]

/-- a tag that is handed over in memory (`commit = id`) gives the chain of Model/Ordinal -/
theorem C10_train_chain_via_id (tag : Option (Raw α)) (us : List (Raw α)) :
    trainChainVia id tag us = trainChain tag us := by
  induction us generalizing tag with
  | nil => rfl
  | cons u r ih => simp only [trainChainVia, trainChain, id, ih]

/-- the points denoted by the windows' bounds -/
def winPts (w : Option (Raw α) × Option (Raw α)) : Option α × Option α := (w.1.map (·.pt), w.2.map (·.pt))

/-- committing the tags in between does not move any bound: as long as `commit` keeps the denoted
point, the chain through the registry covers the same windows as the chain in memory -/
theorem C10_committed_chain_points (commit : Raw α → Raw α) (hp : ∀ r, (commit r).pt = r.pt)
    (tag tag' : Option (Raw α)) (ht : tag.map (·.pt) = tag'.map (·.pt)) (us : List (Raw α)) :
    (trainChainVia commit tag us).map winPts = (trainChain tag' us).map winPts := by
  induction us generalizing tag tag' with
  | nil => rfl
  | cons u r ih =>
    simp only [trainChainVia, trainChain, List.map_cons, winPts, trainLower, ht]
    rw [ih (some (commit u)) (some u) (by simp [hp])]

/-- … and every bound stays castable -/
theorem C10_committed_chain_castable (k : Kind) (commit : Raw α → Raw α)
    (hc : ∀ r, castRule k r.ty ≠ .err → castRule k (commit r).ty ≠ .err)
    (tag : Option (Raw α)) (htag : Castable k tag) (us : List (Raw α))
    (hus : ∀ q ∈ us, castRule k q.ty ≠ .err) :
    ∀ w ∈ trainChainVia commit tag us, Castable k w.1 ∧ Castable k w.2 := by
  induction us generalizing tag with
  | nil => intro w hw; simp [trainChainVia] at hw
  | cons u r ih =>
    intro w hw
    simp only [trainChainVia, List.mem_cons] at hw
    rcases hw with e | hw
    · subst e
      refine ⟨?_, ?_⟩
      · simpa [trainLower] using htag
      · intro q hq; cases hq; exact hus u (by simp)
    · refine ih (some (commit u)) ?_ (fun q hq => hus q (List.mem_cons_of_mem u hq)) w hw
      intro q hq; cases hq; exact hc u (hus u (by simp))

end chain

section counts
variable {α : Type} [LE α] [LT α] [DecidableLE α] [DecidableLT α] [DecidableEq α]

/-- **C10_committed_chain_counts**: trainings chained through *committed* tags (every tag written
to the registry and read back before the next training) are accepted exactly like the chain in
memory and deliver every record the same number of times. -/
theorem C10_committed_chain_counts (sem : Once) (k : Kind) (commit : Raw α → Raw α)
    (hp : ∀ r, (commit r).pt = r.pt)
    (hcm : ∀ r, castRule k r.ty ≠ .err → castRule k (commit r).ty ≠ .err)
    (us : List (Raw α)) (hc : ∀ q ∈ us, castRule k q.ty ≠ .err) (data : List α) :
    ∃ ls ls', launches (some (k, sem)) (trainChainVia commit none us) data = .ok ls ∧
      launches (some (k, sem)) (trainChain none us) data = .ok ls' ∧
      ls.length = ls'.length ∧ ∀ i, timesDelivered ls i = timesDelivered ls' i := by
  have hnone : Castable k (none : Option (Raw α)) := fun q hq => by cases hq
  obtain ⟨ls, hls, hlen, hin, hout⟩ := C10_history sem k (trainChainVia commit none us)
    (C10_committed_chain_castable k commit hcm none hnone us hc) data
  have hplain := C10_committed_chain_castable k id (fun r h => h) none hnone us hc
  rw [C10_train_chain_via_id] at hplain
  obtain ⟨ls', hls', hlen', hin', hout'⟩ := C10_history sem k (trainChain none us) hplain data
  refine ⟨ls, ls', hls, hls', ?_, ?_⟩
  · have := congrArg List.length (C10_committed_chain_points commit hp none none rfl us)
    simp only [List.length_map] at this
    omega
  · intro i
    by_cases h : i < data.length
    · rw [hin i h, hin' i h]
      have := C10_committed_chain_points commit hp none none rfl us
      unfold winPts at this
      rw [this]
    · rw [hout i (by omega), hout' i (by omega)]

end counts

section tiling
variable {α : Type} [LE α] [LT α] [DecidableLE α] [DecidableLT α] [DecidableEq α]
  [IsLinearOrder α] [LawfulOrderLT α]

/-- **C10_incremental_training_committed**: the statement of `C10_incremental_training` for the
lifecycle as it runs in practice — every training a launch of its own, the ordinal it starts from
read back from the tag committed by the previous one (TOML: a `Decimal` comes back as a `float`).
From scratch with `u₀ < … < uₙ` and any data, over the whole history: exactly-once delivers a record
once iff `x < uₙ`, at-most-once once iff `x ≤ uₙ`, at-least-once at least once iff `x ≤ uₙ`, at
most twice, twice only at an earlier upper bound. -/
theorem C10_incremental_training_committed (sem : Once) (k : Kind) (u0 : Raw α) (us : List (Raw α))
    (hc : ∀ q ∈ u0 :: us, castRule k q.ty ≠ .err)
    (hinc : StrictInc ((u0 :: us).map (·.pt))) (data : List α) :
    ∃ ls, launches (some (k, sem)) (trainChainVia persistRaw none (u0 :: us)) data = .ok ls ∧
      ls.length = (u0 :: us).length ∧
      ∀ i (h : i < data.length),
        let x := data[i]
        let c := timesDelivered ls i
        let hi := last u0.pt (us.map (·.pt))
        (sem = .exactly → c = if x < hi then 1 else 0) ∧
        (sem = .atmost → c = if x ≤ hi then 1 else 0) ∧
        (sem = .atleast → (x ≤ hi → 1 ≤ c) ∧ (hi < x → c = 0) ∧ c ≤ 2 ∧
          (2 ≤ c → x ∈ (u0 :: us).map (·.pt) ∧ x < hi)) := by
  obtain ⟨ls, ls', hls, hls', hlen, hcnt⟩ := C10_committed_chain_counts sem k persistRaw
    (fun r => rfl) (fun r h => C10_toml_castable k r.ty h) (u0 :: us) hc data
  obtain ⟨ls'', hls'', hlen'', hcl⟩ := C10_incremental_training sem k u0 us hc hinc data
  rw [hls'] at hls''
  cases hls''
  refine ⟨ls, hls, by omega, ?_⟩
  intro i h
  have := hcl i h
  simp only [hcnt i]
  exact this

/-- **C10_training_from_tag**: incremental training continued from a generation whose tag records
the ordinal `t` (`t < u₀ < … < uₙ`, no explicit lower bounds): the trainings extract the
consecutive windows `(t,u₀), (u₀,u₁), …` and every record obeys all clauses of `C10_records` with
`t` as the first bound. -/
theorem C10_training_from_tag (sem : Once) (k : Kind) (t u0 : Raw α) (us : List (Raw α))
    (hc : ∀ q ∈ t :: u0 :: us, castRule k q.ty ≠ .err)
    (hinc : StrictInc ((t :: u0 :: us).map (·.pt))) (data : List α) :
    ∃ ls, launches (some (k, sem)) (trainChain (some t) (u0 :: us)) data = .ok ls ∧
      ∀ i (h : i < data.length),
        let x := data[i]
        let c := timesDelivered ls i
        let lo := t.pt
        let hi := last u0.pt (us.map (·.pt))
        let pts := (t :: u0 :: us).map (·.pt)
        (sem = .exactly → c = if lo ≤ x ∧ x < hi then 1 else 0) ∧
        (sem = .atmost → c ≤ 1 ∧ (lo < x ∧ x ≤ hi → c = 1)) ∧
        (sem = .atleast → (lo ≤ x ∧ x ≤ hi → 1 ≤ c) ∧ c ≤ 2) ∧
        (x < lo ∨ hi < x → c = 0) ∧
        (lo < x → x < hi → x ∉ pts → c = 1) ∧
        (lo ≤ x → x ≤ hi → c ≠ 1 → x ∈ pts) := by
  rw [(C10_train_chain u0 us).2 t]
  exact C10_records sem k t u0 us hc hinc data

end tiling

/-! ### apply and train paths of `Feed.load` -/

section modes
variable {α : Type} [LE α] [LT α] [DecidableLE α] [DecidableLT α] [DecidableEq α]

/-- **C10_load_same_window**: the apply driver and the train driver built by one `Feed.load` carry
the same ordinal specs and the same bounds, hence the same window predicate (or the same refusal),
whatever the two base statements are and whether label columns are appended -/
theorem C10_load_same_window (kindOf : Nat → Kind) (e : ExtractM) (lo hi : Option (Raw α)) :
    (feedLoad e lo hi).1.terms kindOf = (feedLoad e lo hi).2.terms kindOf ∧
    (feedLoad e lo hi).1.terms kindOf = prepared (toOrd kindOf e.ordinal) lo hi := ⟨rfl, rfl⟩

/-- each driver delivers the launch of that window over the records its own base statement denotes -/
theorem C10_load_rows (kindOf : Nat → Kind) (dataOf : Nat × Bool → List α) (e : ExtractM)
    (lo hi : Option (Raw α)) :
    (feedLoad e lo hi).1.rows kindOf dataOf = launch (toOrd kindOf e.ordinal) lo hi (dataOf (e.apply, false)) ∧
    (feedLoad e lo hi).2.rows kindOf dataOf = launch (toOrd kindOf e.ordinal) lo hi (dataOf (e.train, e.labels)) :=
  ⟨rfl, rfl⟩

/-- `Runner.apply` never consults the tag; `Runner.train` does so only for a missing lower bound:
with an explicit lower bound both modes extract the same window -/
theorem C10_apply_train_lower (lo tag : Option (Raw α)) :
    applyLower lo tag = lo ∧ (lo.isSome → trainLower lo tag = applyLower lo tag) ∧
    trainLower none tag = tag := by
  refine ⟨rfl, ?_, rfl⟩
  intro h
  cases lo with
  | none => cases h
  | some l => rfl

end modes

/-- **the transport is invisible to a sequence of trainings**: whether the extraction components
are shipped (any number of round trips) and whether the windows are read through the feed's result
cache, a sequence of trainings hands the same bounds to `Feed.load` and gets the same rows -/
theorem C10_source_trainings_transport {α : Type} [LE α] [LT α] [DecidableLE α] [DecidableLT α] [DecidableEq α]
    (kindOf : Nat → Kind) (ordinal : Option Nat) (a : OnceArg) (ships : Nat) (cached : Bool)
    (commit : Raw α → Raw α) (tag : Option (Raw α)) (runs : List (Option (Raw α) × Raw α)) (data : List α) :
    sourceTrainings kindOf ordinal a ships cached commit tag runs data
      = sourceTrainings kindOf ordinal a 0 false commit tag runs data := by
  unfold sourceTrainings
  cases cached
  · simp only [Bool.false_eq_true, if_false, C10_shipped_windows kindOf ordinal a ships]
  · simp only [if_true, Bool.false_eq_true, if_false, C10_source_cached, C10_shipped_windows kindOf ordinal a ships]

/-! ### non-vacuity (tests) -/

example : trainSeqVia persistRaw none
    [(none, (⟨.int, (1 : Int), true⟩ : Raw Int)), (none, ⟨.decimal, 3, true⟩), (some ⟨.int, 2, true⟩, ⟨.int, 5, true⟩)]
    = [(none, some ⟨.int, 1, true⟩), (some ⟨.int, 1, true⟩, some ⟨.decimal, 3, true⟩),
       (some ⟨.int, 2, true⟩, some ⟨.int, 5, true⟩)] := by decide
example : trainChainVia persistRaw none [(⟨.decimal, (1 : Int), true⟩ : Raw Int), ⟨.int, 3, true⟩]
    = [(none, some ⟨.decimal, 1, true⟩), (some ⟨.float, 1, true⟩, some ⟨.int, 3, true⟩)] := by decide
example : launches (some (.integer, .atleast))
    (trainChainVia persistRaw none [(⟨.decimal, (1 : Int), true⟩ : Raw Int), ⟨.int, 3, true⟩]) [0, 1, 2, 3, 4]
    = .ok [[0, 1], [1, 2, 3]] := by decide
example : castRule .date .decimal = .err ∧ castRule .date (tomlClass .decimal) = .conv := by decide

end ForML.Ordinal
