/-
C03 — helper lemmas: the loop over the base models of `FullStack.Builder.build` (`basesLoop`): per base a `stacker`
and a `reducer` fork (`Worker.fgen`), subscribed to the train / apply output collectors, then the per-fold loop; the
two forks become evaluable once all their ports are subscribed.
-/
import ForML.Lemmas.C03BaseFolds
import ForML.Lemmas.C03MapReduce

namespace ForML.Compose

/-- prototype of `Worker.fgen`: all forks have the group, actor and shape of the first one -/
def ProtoOk (g : Graph) (a : Actor) (N lo : Nat) : Option WRef → Prop
  | none => True
  | some p => p.actor = a ∧ p.szin = N ∧ p.szout = 1 ∧ lo ≤ p.gid ∧ p.gid < g.next

theorem ProtoOk.mono {g g' : Graph} {a N lo p} (h : ProtoOk g a N lo p) (hn : g.next ≤ g'.next) : ProtoOk g' a N lo p := by
  cases p with
  | none => trivial
  | some p => obtain ⟨h1, h2, h3, h4, h5⟩ := h; exact ⟨h1, h2, h3, h4, by omega⟩

/-- the inputs of a complete collector are exactly its recorded publishers -/
theorem Coll.input_full {g : Graph} {W : World} {col gid a N ins} (h : Coll g W col gid a N N ins) {k : Nat} {q : PubRef}
    (hq : g.inputOf col k = some q) : k < N ∧ q = ins k := by
  by_cases hk : k < N
  · rw [h.filled k hk] at hq; exact ⟨hk, (Option.some.inj hq).symm⟩
  · rw [h.free k (by omega)] at hq; cases hq

theorem fgenNext_spec {g : Graph} {W : World} (hi : Inv g W) (hw : Wired g) (sp : Option WRef) (a : Actor) (N lo : Nat)
    (hlo : lo ≤ g.next) (hp : ProtoOk g a N lo sp) :
    ∃ w g1, Run (fgenNext sp a N 1) g w g1 ∧ w.uid = g.next ∧ Inv g1 W ∧ Wired g1 ∧ Frame g g1 ∧ g.next < g1.next ∧
      lo ≤ w.gid ∧ Coll g1 W w.uid w.gid a N 0 (fun _ => default) ∧ ProtoOk g1 a N lo (some (sp.getD w)) ∧
      g1.trains = g.trains ∧ ∀ u k, g1.inputOf u k = g.inputOf u k := by
  have hb := hi.bounded
  have hnl : ¬ W.live g.next := fun h => by have := (hi.liveLt _ h).1; omega
  cases sp with
  | none =>
    let g1 := g.bump.bump.pushNode ⟨g.next, .worker (g.next + 1) a N 1⟩
    have hb1 : Bounded g1 := hb.bump.bump.pushNode _ (by gnext) (by intro _ _ _ _ h; cases h; gnext)
    have hf1 : Frame g g1 := (Frame.refl g).bump.bump.pushNode _ (Nat.le_refl _)
    refine ⟨⟨g.next, g.next + 1, a, N, 1⟩, g1, run_newWorker a N 1 g, rfl, hi.ofFrame hf1 hb1,
      (hw.bump.bump.pushNode _), hf1, by show g.next < g.next + 1 + 1; omega, by show lo ≤ g.next + 1; omega, ?_, ?_, rfl,
      fun _ _ => rfl⟩
    · refine ⟨?_, hnl, by show g.next < g.next + 1 + 1; omega, fun k hk => absurd hk (Nat.not_lt_zero k), ?_⟩
      · glook [hb.kindOf_none (Nat.le_refl _)]
      · intro k _
        show g.inputOf g.next k = none
        exact hb.inputOf_none (Nat.le_refl _) k
    · exact ⟨rfl, rfl, rfl, by show lo ≤ g.next + 1; omega, by show g.next + 1 < g.next + 1 + 1; omega⟩
  | some p =>
    obtain ⟨h1, h2, h3, h4, h5⟩ := hp
    let g1 := g.bump.pushNode ⟨g.next, .worker p.gid p.actor p.szin p.szout⟩
    have hb1 : Bounded g1 := hb.bump.pushNode _ (by gnext) (by intro _ _ _ _ h; cases h; gnext)
    have hf1 : Frame g g1 := (Frame.refl g).bump.pushNode _ (Nat.le_refl _)
    refine ⟨{ p with uid := g.next }, g1, run_fork p g, rfl, hi.ofFrame hf1 hb1, (hw.bump.pushNode _), hf1,
      by show g.next < g.next + 1; omega, h4, ?_, ?_, rfl, fun _ _ => rfl⟩
    · refine ⟨?_, hnl, by show g.next < g.next + 1; omega, fun k hk => absurd hk (Nat.not_lt_zero k), ?_⟩
      · show g1.kindOf g.next = some (.worker p.gid a N 1)
        rw [← h1, ← h2, ← h3]
        glook [hb.kindOf_none (Nat.le_refl _)]
      · intro k _
        show g.inputOf g.next k = none
        exact hb.inputOf_none (Nat.le_refl _) k
    · exact ⟨h1, h2, h3, h4, by show p.gid < g.next + 1; omega⟩

/-- making a new node evaluable inside a loop -/
theorem LoopOk.setLive {X : Nat → Prop} {lo : Nat} {g g' : Graph} {W W' : World} {rr : Nat} (h : LoopOk X lo g g' W W' rr)
    (u : Nat) (v : Nat → Val) (ρ : Nat) (hu : g.next ≤ u) (hinv : Inv g' (W'.set u v ρ))
    (hρ : ρ < rr + (g'.next - g.next)) (gid : Nat) (a : Actor) (i o : Nat) (hk : g'.kindOf u = some (.worker gid a i o))
    (hgid : lo ≤ gid) : LoopOk X lo g g' W (W'.set u v ρ) rr := by
  refine ⟨hinv, h.wired, h.next_le, h.kind, h.input, h.inputMono, h.trainer, h.agree.set u v ρ hu, ?_, ?_, ?_⟩
  · intro n hn hl
    rcases hl with hl | hl
    · subst hl; rw [set_h_self]; exact hρ
    · by_cases e : n = u
      · subst e; rw [set_h_self]; exact hρ
      · rw [set_h_other _ _ _ _ _ e]; exact h.rank n hn hl
  · intro n hn hl gid' a' i' o' hk'
    rcases hl with hl | hl
    · subst hl; rw [hk] at hk'; cases hk'; exact hgid
    · exact h.fresh n hn hl gid' a' i' o' hk'
  · intro n hn hl ho
    rcases hl with hl | hl
    · subst hl; rw [Graph.isOpen, hk] at ho; cases ho.1
    · exact h.noOpen n hn hl ho

/-- the train-mode value of one base: the held-out predictions of its fold models, stacked -/
def baseTrainVal (stacker N : Nat) (foldSem : Nat → Sem) (testV : Nat → Val) (B : Scope) : Val :=
  .apply stacker .none ((List.range N).map (fun k => (B (testV k) (foldSem k).train (foldSem k).label).apply))

/-- the apply-mode value of one base: the predictions of its fold models, reduced -/
def baseApplyVal (reducer N : Nat) (foldSem : Nat → Sem) (B : Scope) : Val :=
  .apply reducer .none ((List.range N).map (fun k => (B (foldSem k).apply (foldSem k).train (foldSem k).label).apply))

theorem basesLoop_spec (folds : List Fold) (stacker reducer : Nat) (tO aO : WRef) (hneO : tO.uid ≠ aO.uid) (aOut : Actor)
    (Nb rr lo : Nat) (foldSem : Nat → Sem) (testV : Nat → Val) (lfuid : Nat) (gb : Graph) (a cc : Nat) (hwb : Wired gb)
    (hbb : Bounded gb) (ha : a < gb.next) (hTu : gb.next ≤ tO.uid ∧ tO.uid < cc) (hAu : gb.next ≤ aO.uid ∧ aO.uid < cc)
    (hfolds : ∀ f ∈ folds, FoldReach gb a lo f) (hnf : 0 < folds.length) :
    ∀ (pairs : List (GraphM Trunk × Scope)), (∀ p ∈ pairs, Spec True p.1 p.2 ∧ p.2.Indep) →
    ∀ (done : List Scope) (g : Graph) (W : World) (sp rp : Option WRef) (insT insA : Nat → PubRef) (R0 : Nat),
      Inv g W → Wired g → rr ≤ g.next → lo ≤ g.next → rr ≤ R0 →
      FoldsVal W rr foldSem testV lfuid 0 folds →
      Coll g W tO.uid tO.gid aOut Nb done.length insT → Coll g W aO.uid aO.gid aOut Nb done.length insA →
      ProtoOk g ⟨stacker, false⟩ folds.length lo sp → ProtoOk g ⟨reducer, false⟩ folds.length lo rp →
      (∀ b, b < done.length → RefOk W (insT b) R0 ∧ RefOk W (insA b) R0) →
      (List.range done.length).map (fun b => W.σ (insT b)) = done.map (baseTrainVal stacker folds.length foldSem testV) →
      (List.range done.length).map (fun b => W.σ (insA b)) = done.map (baseApplyVal reducer folds.length foldSem) →
      Frame gb g → cc ≤ g.next → AReg a lo gb.next cc g W →
      (∀ b, b < done.length → Reach g a (insA b).node ∧ ¬ Reach g a (insT b).node ∧ cc ≤ (insA b).node ∧ cc ≤ (insT b).node) →
      ∃ g' W' insT' insA', Run (basesLoop folds ⟨stacker, false⟩ ⟨reducer, false⟩ tO aO done.length sp rp (pairs.map (·.1))) g () g' ∧
        LoopOk (fun u => u = tO.uid ∨ u = aO.uid) lo g g' W W' rr ∧
        Coll g' W' tO.uid tO.gid aOut Nb (done.length + pairs.length) insT' ∧
        Coll g' W' aO.uid aO.gid aOut Nb (done.length + pairs.length) insA' ∧
        (∀ b, b < done.length + pairs.length →
          RefOk W' (insT' b) (R0 + (g'.next - g.next)) ∧ RefOk W' (insA' b) (R0 + (g'.next - g.next))) ∧
        (List.range (done.length + pairs.length)).map (fun b => W'.σ (insT' b)) =
          (done ++ pairs.map (·.2)).map (baseTrainVal stacker folds.length foldSem testV) ∧
        (List.range (done.length + pairs.length)).map (fun b => W'.σ (insA' b)) =
          (done ++ pairs.map (·.2)).map (baseApplyVal reducer folds.length foldSem) ∧
        AReg a lo gb.next cc g' W' ∧
        (∀ b, b < done.length + pairs.length →
          Reach g' a (insA' b).node ∧ ¬ Reach g' a (insT' b).node ∧ cc ≤ (insA' b).node ∧ cc ≤ (insT' b).node) ∧
        ∃ ts, g'.trains = g.trains ++ ts ∧ (∀ x ∈ ts, W'.live x.train.node ∧ W'.live x.label.node) ∧
          ts.map (trainedUnder W') = (pairs.map (·.2)).flatMap (fun B => (List.range folds.length).flatMap
            (fun k => (B (foldSem k).apply (foldSem k).train (foldSem k).label).states)) := by
  intro pairs
  induction pairs with
  | nil =>
    intro _ done g W sp rp insT insA R0 hi hw _ _ _ _ hcT hcA _ _ href hvT hvA _ _ hareg hreach
    refine ⟨g, W, insT, insA, rfl, LoopOk.refl hi hw rr, by simpa using hcT, by simpa using hcA, ?_, by simpa using hvT,
      by simpa using hvA, hareg, (fun b hb => hreach b (by simpa using hb)), [], ?_, ?_, rfl⟩
    · intro b hb
      obtain ⟨r1, r2⟩ := href b (by simpa using hb)
      exact ⟨⟨r1.1, by have := r1.2; omega⟩, ⟨r2.1, by have := r2.2; omega⟩⟩
    · simp
    · intro x hx; cases hx
  | cons pr rest ih =>
    intro hsp done g W sp rp insT insA R0 hi hw hrr hlo hR0 hfv hcT hcA hpS hpR href hvT hvA hfb hcc hareg hreach
    obtain ⟨hspec, hindep⟩ := hsp pr List.mem_cons_self
    obtain ⟨base, B⟩ := pr
    simp only at hspec hindep
    have hlt : ∀ n, W.live n → n < g.next := fun n hn => (hi.liveLt n hn).1
    -- the two forks
    obtain ⟨wS, g1, rS, euS, hi1, hw1, hf1, hn1, hgS, cS1, hpS1, htr1, hin1⟩ := fgenNext_spec hi hw sp ⟨stacker, false⟩ folds.length lo hlo hpS
    obtain ⟨wR, g2, rR, euR, hi2, hw2, hf2, hn2, hgR, cR2, hpR2, htr2, hin2⟩ :=
      fgenNext_spec hi1 hw1 rp ⟨reducer, false⟩ folds.length lo (by omega) (hpR.mono hf1.next_le)
    have cS2 : Coll g2 W wS.uid wS.gid ⟨stacker, false⟩ folds.length 0 (fun _ => default) := cS1.frame hf2 (Agree.refl _ _)
    have hneSR : wS.uid ≠ wR.uid := by rw [euS, euR]; omega
    have f02 : Frame g g2 := hf1.trans hf2
    have cT2 : Coll g2 W tO.uid tO.gid aOut Nb done.length insT := hcT.frame f02 (Agree.refl _ _)
    have cA2 : Coll g2 W aO.uid aO.gid aOut Nb done.length insA := hcA.frame f02 (Agree.refl _ _)
    have hltT := hcT.lt
    have hltA := hcA.lt
    -- subscribe the output collectors
    obtain ⟨r3, hi3, hw3, cT3⟩ := cT2.push hi2 hw2 ⟨wS.uid, 0⟩ (by show wS.uid < g2.next; rw [euS]; omega)
    have same3 : ∀ u k, u ≠ tO.uid → (g2.pushEdge ⟨tO.uid, done.length, ⟨wS.uid, 0⟩⟩).inputOf u k = g2.inputOf u k := by
      intro u k hu
      rw [inputOf_pushEdge]
      have : ¬ (tO.uid = u ∧ done.length = k) := fun e => hu e.1.symm
      simp [this]
    have cA3 := cA2.same (g' := g2.pushEdge ⟨tO.uid, done.length, ⟨wS.uid, 0⟩⟩) (W' := W) (by simp)
      (fun k => same3 _ k (fun e => hneO e.symm)) (by simp) (fun h => h)
    obtain ⟨r4, hi4, hw4, cA4⟩ := cA3.push hi3 hw3 ⟨wR.uid, 0⟩ (by show wR.uid < g2.next; rw [euR]; omega)
    obtain ⟨g4, hg4⟩ : ∃ x, x = (g2.pushEdge ⟨tO.uid, done.length, ⟨wS.uid, 0⟩⟩).pushEdge ⟨aO.uid, done.length, ⟨wR.uid, 0⟩⟩ :=
      ⟨_, rfl⟩
    have same4 : ∀ u k, u ≠ tO.uid → u ≠ aO.uid → g4.inputOf u k = g2.inputOf u k := by
      intro u k h1 h2
      rw [hg4, inputOf_pushEdge, same3 u k h1]
      have : ¬ (aO.uid = u ∧ done.length = k) := fun e => h2 e.1.symm
      simp [this]
    have n4 : g4.next = g2.next := by rw [hg4]; rfl
    have k4 : ∀ u, g4.kindOf u = g2.kindOf u := by intro u; rw [hg4]; simp
    rw [← hg4] at hi4 hw4 cA4 r4
    have cT4 : Coll g4 W tO.uid tO.gid aOut Nb (done.length + 1) (fun k => if k = done.length then ⟨wS.uid, 0⟩ else insT k) := by
      refine cT3.same (by rw [hg4]; simp) ?_ (by rw [hg4]; simp) (fun h => h)
      intro k
      rw [hg4, inputOf_pushEdge]
      have : ¬ (aO.uid = tO.uid ∧ done.length = k) := fun e => hneO e.1.symm
      simp [this]
    have hS_ne : wS.uid ≠ tO.uid ∧ wS.uid ≠ aO.uid := by rw [euS]; constructor <;> omega
    have hR_ne : wR.uid ≠ tO.uid ∧ wR.uid ≠ aO.uid := by rw [euR]; constructor <;> omega
    have cS4 : Coll g4 W wS.uid wS.gid ⟨stacker, false⟩ folds.length 0 (fun _ => default) :=
      cS2.same (k4 _) (fun k => same4 _ k hS_ne.1 hS_ne.2) (by rw [n4]; exact Nat.le_refl _) (fun h => h)
    have cR4 : Coll g4 W wR.uid wR.gid ⟨reducer, false⟩ folds.length 0 (fun _ => default) :=
      cR2.same (k4 _) (fun k => same4 _ k hR_ne.1 hR_ne.2) (by rw [n4]; exact Nat.le_refl _) (fun h => h)
    have hl4 : LoopOk (fun u => u = tO.uid ∨ u = aO.uid) lo g g4 W W rr := by
      have h2 : LoopOk (fun u => u = tO.uid ∨ u = aO.uid) lo g g2 W W rr :=
        LoopOk.ofFrame hlo hi hi2 hw2 f02 (Agree.refl _ _) (fun n hn hl => by have := hlt n hl; omega)
          (fun n hn hl => by have := hlt n hl; omega) (fun n hn hl => by have := hlt n hl; omega)
      rw [hg4]
      exact (h2.pushColl _ (fun _ => Or.inl rfl) cT2.notLive cT2.lt (cT2.free _ (Nat.le_refl _))
        (by show wS.uid < g2.next; rw [euS]; omega)).pushColl _ (fun _ => Or.inr rfl) cA3.notLive (by simpa using cA2.lt)
        (cA3.free _ (Nat.le_refl _)) (by show wR.uid < g2.next; rw [euR]; omega)
    have hn4 : g.next + 2 ≤ g4.next := by rw [n4]; omega
    -- the fold loop of this base
    have hnb := hfb.next_le
    have hfb4 : Frame gb g4 := by
      rw [hg4]; exact ((hfb.trans f02).pushEdge _ hTu.1).pushEdge _ hAu.1
    obtain ⟨g5, W5, insS, insR, r5, hl5, cS5, cR5, hv5, hareg5, hreach5, ts5, hts5, hlive5, hmap5⟩ :=
      baseFoldsLoop_spec hspec hindep wS wR hneSR ⟨stacker, false⟩ ⟨reducer, false⟩ folds.length rr lo foldSem testV lfuid
        gb a g4.next hwb hbb ha ⟨by rw [euS]; omega, by rw [euS]; omega⟩ ⟨by rw [euR]; omega, by rw [euR]; omega⟩
        folds 0 g4 W _ _ rr hi4 hw4 (by omega) (by omega) (Nat.le_refl _) hfv cS4 cR4 (fun k hk => absurd hk (Nat.not_lt_zero k))
        hfolds hfb4 (Nat.le_refl _) (AReg.init hi4.bounded (by omega)) (fun k hk => absurd hk (Nat.not_lt_zero k))
    simp only [Nat.zero_add] at cS5 cR5 hv5 hmap5 hreach5
    have hn5 := hl5.next_le
    have hlt5 : ∀ n, W5.live n → n < g5.next := fun n hn => (hl5.inv.liveLt n hn).1
    -- the two forks become evaluable
    obtain ⟨ρ, hρ⟩ : ∃ ρ, ρ = rr + (g5.next - g4.next) := ⟨_, rfl⟩
    have hρlt : ρ < g5.next := by omega
    have hi6 := cS5.mkLive hl5.inv rfl ρ hρlt (fun k hk => ⟨(hv5 k hk).1.live, by rw [hρ]; exact (hv5 k hk).1.rank⟩)
    obtain ⟨W6, hW6⟩ : ∃ x, x = W5.set wS.uid
      (fun _ => .apply stacker .none ((List.range folds.length).map (fun k => W5.σ (insS k)))) ρ := ⟨_, rfl⟩
    rw [← hW6] at hi6
    have live6 : ∀ n, W6.live n ↔ (n = wS.uid ∨ W5.live n) := by intro n; rw [hW6]; exact Iff.rfl
    have keep6 : ∀ q : PubRef, W5.live q.node → W6.σ q = W5.σ q ∧ W6.h q.node = W5.h q.node := by
      intro q hq
      have : q.node ≠ wS.uid := fun e => cS5.notLive (e ▸ hq)
      rw [hW6]
      exact ⟨set_σ_other _ _ _ _ _ this, set_h_other _ _ _ _ _ this⟩
    have cR6 : Coll g5 W6 wR.uid wR.gid ⟨reducer, false⟩ folds.length folds.length insR := by
      refine cR5.same rfl (fun _ => rfl) (Nat.le_refl _) ?_
      intro h
      rcases (live6 _).mp h with e | h'
      · exact absurd e hneSR.symm
      · exact h'
    have hi7 := cR6.mkLive hi6 rfl ρ hρlt (fun k hk => by
      obtain ⟨_, p2⟩ := hv5 k hk
      exact ⟨(live6 _).mpr (Or.inr p2.live), by rw [(keep6 _ p2.live).2, hρ]; exact p2.rank⟩)
    obtain ⟨W7, hW7⟩ : ∃ x, x = W6.set wR.uid
      (fun _ => .apply reducer .none ((List.range folds.length).map (fun k => W6.σ (insR k)))) ρ := ⟨_, rfl⟩
    rw [← hW7] at hi7
    have live7 : ∀ n, W7.live n ↔ (n = wR.uid ∨ n = wS.uid ∨ W5.live n) := by
      intro n; rw [hW7]
      constructor
      · rintro (h | h)
        · exact Or.inl h
        · exact Or.inr ((live6 n).mp h)
      · rintro (h | h)
        · exact Or.inl h
        · exact Or.inr ((live6 n).mpr h)
    have keep7 : ∀ q : PubRef, W5.live q.node → W7.live q.node ∧ W7.σ q = W5.σ q ∧ W7.h q.node = W5.h q.node := by
      intro q hq
      have h1 : q.node ≠ wR.uid := fun e => cR5.notLive (e ▸ hq)
      obtain ⟨a1, a2⟩ := keep6 q hq
      rw [hW7]
      exact ⟨Or.inr ((live6 _).mpr (Or.inr hq)), by rw [set_σ_other _ _ _ _ _ h1]; exact a1,
        by rw [set_h_other _ _ _ _ _ h1]; exact a2⟩
    -- values of the two forks
    have vS7 : W7.σ ⟨wS.uid, 0⟩ = baseTrainVal stacker folds.length foldSem testV B := by
      rw [hW7, set_σ_other _ _ _ _ _ (by exact hneSR), hW6, set_σ_self]
      unfold baseTrainVal
      congr 1
      apply List.map_congr_left
      intro k hk
      exact (hv5 k (List.mem_range.mp hk)).1.val
    have vR7 : W7.σ ⟨wR.uid, 0⟩ = baseApplyVal reducer folds.length foldSem B := by
      rw [hW7, set_σ_self]
      unfold baseApplyVal
      congr 1
      apply List.map_congr_left
      intro k hk
      have p2 := (hv5 k (List.mem_range.mp hk)).2
      rw [(keep6 _ p2.live).1]
      exact p2.val
    have hS7 : W7.h wS.uid = ρ := by
      rw [hW7, set_h_other _ _ _ _ _ hneSR, hW6, set_h_self]
    have hR7 : W7.h wR.uid = ρ := by rw [hW7, set_h_self]
    -- the loop invariant of this round
    have hl5' : LoopOk (fun u => u = tO.uid ∨ u = aO.uid) lo g g5 W W5 rr :=
      hl4.trans' hl5 (by
        intro u hu hx
        rcases hx with e | e
        · rw [e, euS] at hu; omega
        · rw [e, euR] at hu; omega)
    have hρb : ρ < rr + (g5.next - g.next) := by omega
    have hl6 : LoopOk (fun u => u = tO.uid ∨ u = aO.uid) lo g g5 W W6 rr := by
      rw [hW6]
      exact hl5'.setLive wS.uid _ ρ (by rw [euS]; exact Nat.le_refl _) (by rw [← hW6]; exact hi6) hρb wS.gid _ _ _ cS5.kind hgS
    have hl7 : LoopOk (fun u => u = tO.uid ∨ u = aO.uid) lo g g5 W W7 rr := by
      rw [hW7]
      exact hl6.setLive wR.uid _ ρ (by rw [euR]; omega) (by rw [← hW7]; exact hi7) hρb wR.gid _ _ _ cR5.kind hgR
    -- the output collectors after the round
    have collOut : ∀ (c : WRef) (i : Nat) (ins : Nat → PubRef), (c.uid = tO.uid ∨ c.uid = aO.uid) →
        Coll g4 W c.uid c.gid aOut Nb i ins → Coll g5 W7 c.uid c.gid aOut Nb i ins := by
      intro c i ins hc h
      have hclt : c.uid < g.next := by rcases hc with e | e <;> rw [e] <;> assumption
      have hc4 : c.uid < g4.next := h.lt
      refine h.same (hl5.kind _ hc4) (fun k => hl5.input _ k hc4 ?_) hn5 ?_
      · intro hx
        rcases hx with e | e
        · rw [e, euS] at hclt; omega
        · rw [e, euR] at hclt; omega
      · intro hl'
        rcases (live7 _).mp hl' with e | e | h'
        · rw [e, euR] at hclt; omega
        · rw [e, euS] at hclt; omega
        · exact ((hl5.agree _ hc4).1).mp h'
    have cT7 := collOut tO _ _ (Or.inl rfl) cT4
    have cA7 := collOut aO _ _ (Or.inr rfl) cA4
    -- references and values of the filled ports
    have old7 : ∀ q : PubRef, W.live q.node → W7.live q.node ∧ W7.σ q = W.σ q ∧ W7.h q.node = W.h q.node := by
      intro q hq
      have h4 : q.node < g4.next := by have := hlt _ hq; omega
      obtain ⟨b1, b2, _⟩ := hl5.agree q.node h4
      obtain ⟨c1, c2, c3⟩ := keep7 q (b1.mpr hq)
      exact ⟨c1, by rw [c2]; exact hl5.agree.σ q h4, by rw [c3, b2]⟩
    have href7 : ∀ b, b < done.length + 1 →
        RefOk W7 ((fun k => if k = done.length then (⟨wS.uid, 0⟩ : PubRef) else insT k) b) (R0 + (g5.next - g.next)) ∧
        RefOk W7 ((fun k => if k = done.length then (⟨wR.uid, 0⟩ : PubRef) else insA k) b) (R0 + (g5.next - g.next)) := by
      intro b hb
      by_cases hbd : b = done.length
      · subst hbd
        simp only [if_true]
        exact ⟨⟨(live7 _).mpr (Or.inr (Or.inl rfl)), by show W7.h wS.uid < _; rw [hS7]; omega⟩,
          ⟨(live7 _).mpr (Or.inl rfl), by show W7.h wR.uid < _; rw [hR7]; omega⟩⟩
      · simp only [hbd, if_false]
        obtain ⟨r1', r2'⟩ := href b (by omega)
        obtain ⟨a1, _, a3⟩ := old7 _ r1'.1
        obtain ⟨b1, _, b3⟩ := old7 _ r2'.1
        exact ⟨⟨a1, by rw [a3]; have := r1'.2; omega⟩, ⟨b1, by rw [b3]; have := r2'.2; omega⟩⟩
    have hvT7 : (List.range (done ++ [B]).length).map (fun b => W7.σ ((fun k => if k = done.length then (⟨wS.uid, 0⟩ : PubRef) else insT k) b)) =
        (done ++ [B]).map (baseTrainVal stacker folds.length foldSem testV) := by
      rw [List.length_append, List.length_singleton, List.map_append, ← hvT]
      have : (fun b => W7.σ (if b = done.length then (⟨wS.uid, 0⟩ : PubRef) else insT b)) =
          (fun b => if b = done.length then W7.σ ⟨wS.uid, 0⟩ else W7.σ (insT b)) := by
        funext b; split <;> rfl
      rw [this, range_map_update, vS7]
      congr 1
      apply List.map_congr_left
      intro b hb
      exact (old7 _ (href b (List.mem_range.mp hb)).1.1).2.1
    have hvA7 : (List.range (done ++ [B]).length).map (fun b => W7.σ ((fun k => if k = done.length then (⟨wR.uid, 0⟩ : PubRef) else insA k) b)) =
        (done ++ [B]).map (baseApplyVal reducer folds.length foldSem) := by
      rw [List.length_append, List.length_singleton, List.map_append, ← hvA]
      have : (fun b => W7.σ (if b = done.length then (⟨wR.uid, 0⟩ : PubRef) else insA b)) =
          (fun b => if b = done.length then W7.σ ⟨wR.uid, 0⟩ else W7.σ (insA b)) := by
        funext b; split <;> rfl
      rw [this, range_map_update, vR7]
      congr 1
      apply List.map_congr_left
      intro b hb
      exact (old7 _ (href b (List.mem_range.mp hb)).2.1).2.1
    have hfv7 : FoldsVal W7 rr foldSem testV lfuid 0 folds :=
      FoldsVal.mono (Nat.le_refl _) (fun q r v h => by
        obtain ⟨a1, a2, a3⟩ := old7 q h.live
        exact ⟨a1, by rw [a3]; exact h.rank, by rw [a2]; exact h.val⟩) folds 0 hfv
    have hlen : (done ++ [B]).length = done.length + 1 := by simp
    -- the apply side after this round
    have hXo : ∀ x, (x = tO.uid ∨ x = aO.uid) → gb.next ≤ x ∧ x < cc := by
      intro x hx; rcases hx with e | e <;> rw [e] <;> assumption
    have none5 : ∀ s k, g.next ≤ s → s < g4.next → s ≠ wS.uid → s ≠ wR.uid → g5.inputOf s k = none := by
      intro s k h1 h2 h3 h4
      rw [hl5.input s k h2 (fun hx => by rcases hx with e | e; exact h3 e; exact h4 e),
        same4 s k (by omega) (by omega)]
      rw [hin2, hin1]
      exact hi.bounded.inputOf_none h1 k
    have nS5 : ¬ Reach g5 a wS.uid := by
      intro hre
      rcases hre.inv with h | ⟨k, q, hq, hr⟩
      · rw [euS] at h; omega
      · obtain ⟨hk, e⟩ := cS5.input_full hq
        rw [e] at hr
        exact (hreach5 k hk).2.1 hr
    have rR5 : Reach g5 a wR.uid := Reach.one (hreach5 0 hnf).1 (cR5.filled 0 hnf)
    have hareg7 : AReg a lo gb.next cc g5 W7 := by
      refine hareg.step hfb hwb hw hXo hl5'.input hl5'.inputMono hl7.agree ?_ ?_
      · intro s k q hs hq
        by_cases h4 : s < g4.next
        · by_cases eS : s = wS.uid
          · rw [eS] at hq
            obtain ⟨hk, e⟩ := cS5.input_full hq
            have := (hreach5 k hk).2.2.2
            rw [e]; exact Or.inl (by omega)
          · by_cases eR : s = wR.uid
            · rw [eR] at hq
              obtain ⟨hk, e⟩ := cR5.input_full hq
              have := (hreach5 k hk).2.2.1
              rw [e]; exact Or.inl (by omega)
            · rw [none5 s k hs h4 eS eR] at hq; cases hq
        · rcases hareg5.es s k q (by omega) hq with h | h
          · exact Or.inl (by omega)
          · exact Or.inr h
      · intro n hn hre
        by_cases h4 : n < g4.next
        · by_cases eS : n = wS.uid
          · exact absurd (eS ▸ hre) nS5
          · by_cases eR : n = wR.uid
            · refine ⟨(live7 _).mpr (Or.inl eR), ?_⟩
              intro k q hq
              rw [eR] at hq
              obtain ⟨hk, e⟩ := cR5.input_full hq
              rw [e]; exact (hreach5 k hk).1
            · exfalso
              rcases hre.inv with h | ⟨k, q, hq, _⟩
              · omega
              · rw [none5 n k hn h4 eS eR] at hq; cases hq
        · obtain ⟨l5, i5⟩ := hareg5.reg n (by omega) hre
          exact ⟨(live7 _).mpr (Or.inr (Or.inr l5)), i5⟩
    have hreach7 : ∀ b, b < done.length + 1 →
        Reach g5 a ((fun k => if k = done.length then (⟨wR.uid, 0⟩ : PubRef) else insA k) b).node ∧
        ¬ Reach g5 a ((fun k => if k = done.length then (⟨wS.uid, 0⟩ : PubRef) else insT k) b).node ∧
        cc ≤ ((fun k => if k = done.length then (⟨wR.uid, 0⟩ : PubRef) else insA k) b).node ∧
        cc ≤ ((fun k => if k = done.length then (⟨wS.uid, 0⟩ : PubRef) else insT k) b).node := by
      intro b hb
      by_cases hbd : b = done.length
      · subst hbd
        simp only [if_true]
        exact ⟨rR5, nS5, by show cc ≤ wR.uid; rw [euR]; omega, by show cc ≤ wS.uid; rw [euS]; omega⟩
      · simp only [hbd, if_false]
        obtain ⟨h1, h2, h3, h4⟩ := hreach b (by omega)
        refine ⟨h1.mono hl5'.inputMono, ?_, h3, h4⟩
        intro hre
        exact h2 (hareg.stable hfb hwb hw hXo hl5'.input (hlt _ (href b (by omega)).1.1) h4 hre)
    obtain ⟨g', W', insT', insA', hrun, hl', cT', cA', href', hvT', hvA', hareg', hreach', ts', hts', hlive', hmap'⟩ :=
      ih (fun p hp => hsp p (List.mem_cons_of_mem _ hp)) (done ++ [B]) g5 W7 (some (sp.getD wS)) (some (rp.getD wR)) _ _
        (R0 + (g5.next - g.next)) hi7 hl5.wired (by omega) (by omega) (by omega) hfv7 (by rw [hlen]; exact cT7)
        (by rw [hlen]; exact cA7) (hpS1.mono (by omega)) (hpR2.mono (by omega)) (by rw [hlen]; exact href7) hvT7 hvA7
        (hl5'.frameFrom hfb (fun x hx => (hXo x hx).1)) (by omega) hareg7 (by rw [hlen]; exact hreach7)
    have hn' := hl'.next_le
    rw [hlen] at hrun cT' cA' href' hvT' hvA' hreach'
    refine ⟨g', W', insT', insA', ?_, hl7.trans hl', ?_, ?_, ?_, ?_, ?_, hareg', ?_, ?_⟩
    · show Run (basesLoop folds ⟨stacker, false⟩ ⟨reducer, false⟩ tO aO done.length sp rp (base :: rest.map (·.1))) g () g'
      unfold basesLoop
      exact Run.bind rS (Run.bind rR (Run.bind r3 (Run.bind r4 (Run.bind r5 hrun))))
    · have : done.length + (((base, B) :: rest) : List (GraphM Trunk × Scope)).length = done.length + 1 + rest.length := by
        simp; omega
      rw [this]; exact cT'
    · have : done.length + (((base, B) :: rest) : List (GraphM Trunk × Scope)).length = done.length + 1 + rest.length := by
        simp; omega
      rw [this]; exact cA'
    · intro b hb
      have hb' : b < done.length + 1 + rest.length := by simp at hb; omega
      obtain ⟨r1', r2'⟩ := href' b hb'
      exact ⟨⟨r1'.1, by have := r1'.2; omega⟩, ⟨r2'.1, by have := r2'.2; omega⟩⟩
    · have : done.length + (((base, B) :: rest) : List (GraphM Trunk × Scope)).length = done.length + 1 + rest.length := by
        simp; omega
      rw [this, hvT']
      simp [List.append_assoc]
    · have : done.length + (((base, B) :: rest) : List (GraphM Trunk × Scope)).length = done.length + 1 + rest.length := by
        simp; omega
      rw [this, hvA']
      simp [List.append_assoc]
    · intro b hb
      exact hreach' b (by simp at hb; omega)
    · have htr4 : g4.trains = g.trains := by rw [hg4]; show g2.trains = g.trains; rw [htr2, htr1]
      refine ⟨ts5 ++ ts', by rw [hts', hts5, htr4, List.append_assoc], ?_, ?_⟩
      · intro x hx
        rcases List.mem_append.mp hx with h | h
        · obtain ⟨x1, x2⟩ := hlive5 x h
          obtain ⟨a1, _, _⟩ := keep7 _ x1
          obtain ⟨b1, _, _⟩ := keep7 _ x2
          exact ⟨((hl'.agree _ (hlt5 _ x1)).1).mpr a1, ((hl'.agree _ (hlt5 _ x2)).1).mpr b1⟩
        · exact hlive' x h
      · rw [List.map_append, hmap', List.map_cons, List.flatMap_cons]
        congr 1
        · show ts5.map (trainedUnder W') = (List.range folds.length).flatMap
            (fun k => (B (foldSem k).apply (foldSem k).train (foldSem k).label).states)
          rw [← hmap5]
          apply List.map_congr_left
          intro x hx
          obtain ⟨x1, x2⟩ := hlive5 x hx
          obtain ⟨_, a2, _⟩ := keep7 _ x1
          obtain ⟨_, b2, _⟩ := keep7 _ x2
          unfold trainedUnder
          rw [hl'.agree.σ _ (hlt5 _ x1), hl'.agree.σ _ (hlt5 _ x2), a2, b2]

end ForML.Compose
