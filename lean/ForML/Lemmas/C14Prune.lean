/-
C14 — helper lemmas, part 3: pruning of row lists (`Prune`), environments that extend each other, rows that are
"doomed" by a pending condition.  Used by `ForML.Lemmas.C14Filter`.
-/
import ForML.Lemmas.C14Factors

namespace ForML.PushDown
open ForML.Dsl

/-! ### pruning: deleting elements that satisfy `D` -/

/-- `l'` is `l` with some elements deleted, each of which satisfies `D` -/
inductive Prune {α : Type} (D : α → Prop) : List α → List α → Prop where
  | nil : Prune D [] []
  | keep {a : α} {l' l : List α} : Prune D l' l → Prune D (a :: l') (a :: l)
  | drop {a : α} {l' l : List α} : D a → Prune D l' l → Prune D l' (a :: l)

namespace Prune
variable {α β : Type} {D : α → Prop}

theorem refl (l : List α) : Prune D l l := by
  induction l with
  | nil => exact .nil
  | cons a l ih => exact .keep ih

theorem of_eq {l' l : List α} (h : l' = l) : Prune D l' l := by
  subst h
  exact refl _

theorem mono {D' : α → Prop} {l' l : List α} (h : Prune D l' l) (hD : ∀ a ∈ l, D a → D' a) : Prune D' l' l := by
  induction h with
  | nil => exact .nil
  | keep _ ih => exact .keep (ih (fun a ha => hD a (List.mem_cons_of_mem _ ha)))
  | drop hd _ ih => exact .drop (hD _ (List.mem_cons_self) hd) (ih (fun a ha => hD a (List.mem_cons_of_mem _ ha)))

theorem all_dropped {l : List α} (h : ∀ a ∈ l, D a) : Prune D [] l := by
  induction l with
  | nil => exact .nil
  | cons a l ih => exact .drop (h a List.mem_cons_self) (ih (fun b hb => h b (List.mem_cons_of_mem _ hb)))

theorem append {l1' l1 l2' l2 : List α} (h1 : Prune D l1' l1) (h2 : Prune D l2' l2) : Prune D (l1' ++ l2') (l1 ++ l2) := by
  induction h1 with
  | nil => exact h2
  | keep _ ih => exact .keep ih
  | drop hd _ ih => exact .drop hd ih

theorem filter (g : α → Bool) {l' l : List α} (h : Prune D l' l) : Prune D (l'.filter g) (l.filter g) := by
  induction h with
  | nil => exact .nil
  | @keep a l' l _ ih =>
    by_cases hg : g a = true
    · simp only [List.filter_cons, hg, if_true]
      exact .keep ih
    · simp only [List.filter_cons, hg]
      exact ih
  | @drop a l' l hd _ ih =>
    by_cases hg : g a = true
    · simp only [List.filter_cons, hg, if_true]
      exact .drop hd ih
    · simp only [List.filter_cons, hg]
      exact ih

/-- filtering is pruning by the negation of the filter -/
theorem of_filter (g : α → Bool) (l : List α) (h : ∀ a ∈ l, g a = false → D a) : Prune D (l.filter g) l := by
  induction l with
  | nil => exact .nil
  | cons a l ih =>
    have ih' := ih (fun b hb => h b (List.mem_cons_of_mem _ hb))
    by_cases hg : g a = true
    · simp only [List.filter_cons, hg, if_true]
      exact .keep ih'
    · simp only [List.filter_cons, hg]
      exact .drop (h a List.mem_cons_self (by simpa using hg)) ih'

theorem map {D' : β → Prop} (f : α → β) {l' l : List α} (h : Prune D l' l) (hD : ∀ a ∈ l, D a → D' (f a)) :
    Prune D' (l'.map f) (l.map f) := by
  induction h with
  | nil => exact .nil
  | keep _ ih => exact .keep (ih (fun a ha => hD a (List.mem_cons_of_mem _ ha)))
  | drop hd _ ih => exact .drop (hD _ List.mem_cons_self hd) (ih (fun a ha => hD a (List.mem_cons_of_mem _ ha)))

theorem flatMap {D' : β → Prop} (f' f : α → List β) {l' l : List α} (h : Prune D l' l)
    (hk : ∀ a ∈ l, Prune D' (f' a) (f a)) (hd : ∀ a ∈ l, D a → ∀ b ∈ f a, D' b) :
    Prune D' (l'.flatMap f') (l.flatMap f) := by
  induction h with
  | nil => exact .nil
  | @keep a l' l _ ih =>
    simp only [List.flatMap_cons]
    exact append (hk a List.mem_cons_self)
      (ih (fun b hb => hk b (List.mem_cons_of_mem _ hb)) (fun b hb => hd b (List.mem_cons_of_mem _ hb)))
  | @drop a l' l hda _ ih =>
    simp only [List.flatMap_cons]
    have := append (all_dropped (hd a List.mem_cons_self hda))
      (ih (fun b hb => hk b (List.mem_cons_of_mem _ hb)) (fun b hb => hd b (List.mem_cons_of_mem _ hb)))
    simpa using this

/-- a filter that rejects everything that may have been pruned does not see the difference -/
theorem filter_eq (g : α → Bool) {l' l : List α} (h : Prune D l' l) (hg : ∀ a ∈ l, D a → g a = false) :
    l'.filter g = l.filter g := by
  induction h with
  | nil => rfl
  | @keep a l' l _ ih =>
    simp only [List.filter_cons]
    rw [ih (fun b hb => hg b (List.mem_cons_of_mem _ hb))]
  | @drop a l' l hd _ ih =>
    simp only [List.filter_cons, hg a List.mem_cons_self hd]
    exact ih (fun b hb => hg b (List.mem_cons_of_mem _ hb))

end Prune

/-! ### environments -/

def dom (e : Env) : List Source := e.map (·.1)

/-- `e'` binds every origin of `e` to the same row -/
def Extends (e e' : Env) : Prop := ∀ o ∈ dom e, e'.row o = e.row o

theorem Extends.refl (e : Env) : Extends e e := fun _ _ => rfl

theorem lookup_append_left {e1 e2 : Env} {o : Source} (h : o ∈ dom e1) : (e1 ++ e2).lookup o = e1.lookup o := by
  induction e1 with
  | nil => simp [dom] at h
  | cons kv e1 ih =>
    obtain ⟨k, v⟩ := kv
    simp only [List.cons_append, List.lookup_cons]
    by_cases hk : o == k
    · simp [hk]
    · simp only [hk]
      apply ih
      simp only [dom, List.map_cons, List.mem_cons] at h
      rcases h with h | h
      · exact absurd (by simpa using h) (by simpa using hk)
      · exact h

theorem lookup_append_right {e1 e2 : Env} {o : Source} (h : o ∉ dom e1) : (e1 ++ e2).lookup o = e2.lookup o := by
  induction e1 with
  | nil => rfl
  | cons kv e1 ih =>
    obtain ⟨k, v⟩ := kv
    simp only [dom, List.map_cons, List.mem_cons, not_or] at h
    have hk : (o == k) = false := by simpa using h.1
    simp only [List.cons_append, List.lookup_cons, hk]
    exact ih h.2

theorem row_append_left {e1 e2 : Env} {o : Source} (h : o ∈ dom e1) : (e1 ++ e2).row o = e1.row o := by
  simp only [Env.row, lookup_append_left h]

theorem row_append_right {e1 e2 : Env} {o : Source} (h : o ∉ dom e1) : (e1 ++ e2).row o = e2.row o := by
  simp only [Env.row, lookup_append_right h]

theorem dom_append (e1 e2 : Env) : dom (e1 ++ e2) = dom e1 ++ dom e2 := by simp [dom]

theorem Extends.of_append_left {e1 e2 e' : Env} (h : Extends (e1 ++ e2) e') : Extends e1 e' := by
  intro o ho
  rw [h o (by simp [dom_append, ho]), row_append_left ho]

theorem Extends.of_append_right {e1 e2 e' : Env} (hd : ∀ o ∈ dom e2, o ∉ dom e1) (h : Extends (e1 ++ e2) e') :
    Extends e2 e' := by
  intro o ho
  rw [h o (by simp [dom_append, ho]), row_append_right (hd o ho)]

/-! ### rows that a pending condition will reject whatever they are combined with -/

def Doomed (S : Sem) (P : List Feature) (e : Env) : Prop :=
  ∃ p ∈ P, ∀ e', Extends e e' → eval S e' p ≠ .bool true

theorem Doomed.append_left {S : Sem} {P : List Feature} {e1 : Env} (e2 : Env) (h : Doomed S P e1) :
    Doomed S P (e1 ++ e2) := by
  obtain ⟨p, hp, hf⟩ := h
  exact ⟨p, hp, fun e' he' => hf e' he'.of_append_left⟩

theorem Doomed.append_right {S : Sem} {P : List Feature} {e2 : Env} (e1 : Env) (hd : ∀ o ∈ dom e2, o ∉ dom e1)
    (h : Doomed S P e2) : Doomed S P (e1 ++ e2) := by
  obtain ⟨p, hp, hf⟩ := h
  exact ⟨p, hp, fun e' he' => hf e' (he'.of_append_right hd)⟩

theorem Doomed.not_holds {S : Sem} {p : Feature} {P : List Feature} {e : Env} (h : Doomed S (p :: P) e)
    (hp : holds S e p = true) : Doomed S P e := by
  obtain ⟨q, hq, hf⟩ := h
  rcases List.mem_cons.mp hq with rfl | hq
  · exact absurd (by simpa [holds] using hp) (hf e (Extends.refl e))
  · exact ⟨q, hq, hf⟩

theorem Doomed.mono {S : Sem} {P P' : List Feature} {e : Env} (h : Doomed S P e) (hP : ∀ p ∈ P, p ∈ P') :
    Doomed S P' e := by
  obtain ⟨p, hp, hf⟩ := h
  exact ⟨p, hP p hp, hf⟩

end ForML.PushDown
