/-
C02 helper lemmas: lookup in tables, ranked (valid) tables, fuel-independence of the denotation.
-/
import ForML.Model.Symbols
import ForML.Model.TableWF
import ForML.Model.PyFunc

namespace ForML.Flow

/-! ### `Table.find` -/

theorem Table.find_some {t : Table} {k : Key} {s : Symbol} (h : t.find k = some s) : s ∈ t ∧ s.id = k := by
  induction t with
  | nil => simp [Table.find] at h
  | cons x r ih =>
    simp only [Table.find] at h
    split at h
    · cases h; simp_all
    · have := ih h; simp [this.1, this.2]

theorem Table.find_none {t : Table} {k : Key} (h : t.find k = none) : ∀ s ∈ t, s.id ≠ k := by
  induction t with
  | nil => simp
  | cons x r ih =>
    simp only [Table.find] at h
    split at h
    · cases h
    · intro s hs
      rcases List.mem_cons.1 hs with rfl | hs
      · assumption
      · exact ih h s hs

theorem Table.find_isSome_of_mem {t : Table} {s : Symbol} (h : s ∈ t) : (t.find s.id).isSome := by
  cases hf : t.find s.id with
  | none => exact absurd rfl (Table.find_none hf s h)
  | some _ => rfl

/-! ### duplicates -/

theorem hasDup_false_nodup : ∀ {l : List Key}, hasDup l = false → l.Nodup
  | [], _ => List.nodup_nil
  | k :: r, h => by
    simp only [hasDup, Bool.or_eq_false_iff] at h
    refine List.nodup_cons.2 ⟨?_, hasDup_false_nodup h.2⟩
    intro hm
    have : r.contains k = true := List.contains_iff_mem.2 hm
    simp [this] at h
    exact h.1 hm

/-- in a table without duplicate keys a member symbol is the one found under its key -/
theorem Table.find_of_mem_nodup {t : Table} (hn : (t.map (·.id)).Nodup) {s : Symbol} (hs : s ∈ t) :
    t.find s.id = some s := by
  induction t with
  | nil => cases hs
  | cons x r ih =>
    simp only [List.map_cons, List.nodup_cons] at hn
    simp only [Table.find]
    rcases List.mem_cons.1 hs with rfl | hs'
    · simp
    · have hne : x.id ≠ s.id := by
        intro he
        exact hn.1 (he ▸ List.mem_map_of_mem hs')
      simp [hne, ih hn.2 hs']

/-! ### ranked tables -/

/-- Prop form of `Table.ranked` -/
structure Ranked (t : Table) (r : Key → Nat) : Prop where
  nodup : (t.map (·.id)).Nodup
  bound : ∀ s ∈ t, r s.id < t.length
  args : ∀ s ∈ t, ∀ a ∈ s.args, (t.find a).isSome ∧ r a < r s.id

theorem ranked_iff {t : Table} {r : Key → Nat} (h : t.ranked r = true) : Ranked t r := by
  simp only [Table.ranked, Bool.and_eq_true, Bool.not_eq_true', List.all_eq_true, decide_eq_true_eq] at h
  exact ⟨hasDup_false_nodup h.1, fun s hs => (h.2 s hs).1, fun s hs a ha => (h.2 s hs).2 a ha⟩

theorem Ranked.find_args {t : Table} {r : Key → Nat} (hr : Ranked t r) {k : Key} {s : Symbol}
    (hf : t.find k = some s) : ∀ a ∈ s.args, (t.find a).isSome ∧ r a < r k := by
  have := Table.find_some hf
  intro a ha
  have h2 := hr.args s this.1 a ha
  rw [this.2] at h2
  exact h2

theorem Ranked.find_bound {t : Table} {r : Key → Nat} (hr : Ranked t r) {k : Key} {s : Symbol}
    (hf : t.find k = some s) : r k < t.length := by
  have := Table.find_some hf
  have h2 := hr.bound s this.1
  rw [this.2] at h2
  exact h2

/-! ### the denotation does not depend on the fuel once it exceeds the rank -/

theorem value_stable (A : Option Assets) {t : Table} {r : Key → Nat} (hr : Ranked t r) :
    ∀ (f g : Nat) (k : Key), r k < f → r k < g → Table.value A t f k = Table.value A t g k := by
  intro f
  induction f with
  | zero => intro g k h; omega
  | succ f ih =>
    intro g k hf hg
    cases g with
    | zero => omega
    | succ g =>
      simp only [Table.value]
      cases hfind : t.find k with
      | none => rfl
      | some s =>
        simp only
        congr 1
        apply List.map_congr_left
        intro a ha
        have := hr.find_args hfind a ha
        exact ih g a (by omega) (by omega)

/-- the denotation of instruction `k` -/
def den (A : Option Assets) (t : Table) (k : Key) : Val := Table.value A t t.fuel k

theorem den_unbound (A : Option Assets) {t : Table} {k : Key} (h : t.find k = none) :
    den A t k = .error .unbound := by
  simp [den, Table.fuel, Table.value, h]

/-- unfolding equation of the denotation -/
theorem den_eq (A : Option Assets) {t : Table} {r : Key → Nat} (hr : Ranked t r) {k : Key} {s : Symbol}
    (hf : t.find k = some s) : den A t k = exec A s.instr (s.args.map (den A t)) := by
  have hb := hr.find_bound hf
  simp only [den, Table.fuel, Table.value, hf]
  congr 1
  apply List.map_congr_left
  intro a ha
  have := hr.find_args hf a ha
  exact value_stable A hr _ _ a (by omega) (by simp only [Table.fuel]; omega)

/-- value at any sufficient fuel is the denotation -/
theorem value_eq_den (A : Option Assets) {t : Table} {r : Key → Nat} (hr : Ranked t r) {k : Key} {f : Nat}
    (hf : r k < f) (hb : r k < t.length) : Table.value A t f k = den A t k :=
  value_stable A hr _ _ k hf (by simp [Table.fuel]; omega)

/-! ### the same for the denotation with an external input -/

open PyFunc in
theorem valueIn_stable (A : Option Assets) {t : Table} {r : Key → Nat} (hr : Ranked t r) (h : Key) (x : Val) :
    ∀ (f g : Nat) (k : Key), r k < f → r k < g → valueIn A t h x f k = valueIn A t h x g k := by
  intro f
  induction f with
  | zero => intro g k h; omega
  | succ f ih =>
    intro g k hf hg
    cases g with
    | zero => omega
    | succ g =>
      simp only [valueIn]
      cases hfind : t.find k with
      | none => rfl
      | some s =>
        simp only
        congr 2
        apply List.map_congr_left
        intro a ha
        have := hr.find_args hfind a ha
        exact ih g a (by omega) (by omega)

open PyFunc in
/-- the denotation of `k` when the head `h` receives `x` -/
def denIn (A : Option Assets) (t : Table) (h : Key) (x : Val) (k : Key) : Val := valueIn A t h x t.fuel k

open PyFunc in
theorem denIn_eq (A : Option Assets) {t : Table} {r : Key → Nat} (hr : Ranked t r) (h : Key) (x : Val) {k : Key}
    {s : Symbol} (hf : t.find k = some s) :
    denIn A t h x k = exec A s.instr (s.args.map (denIn A t h x) ++ (if k = h then [x] else [])) := by
  have hb := hr.find_bound hf
  simp only [denIn, Table.fuel, valueIn, hf]
  congr 2
  apply List.map_congr_left
  intro a ha
  have := hr.find_args hf a ha
  exact valueIn_stable A hr h x _ _ a (by omega) (by simp only [Table.fuel]; omega)

end ForML.Flow
