/-
C18 helper lemmas: the Python-literal reader of ForML.Model.Manifest behind one-step lemmas.

`pyStr`, `expect`, `push` are never unfolded by later files: everything goes through the `@[simp]` lemmas stated
here once (`expect_append`, `pyStr_quote`, `pyStr_plain`, `pyStr_esc`, `pyStr_u4`), so that no proof reduces a
parser over a long literal list.
-/
import ForML.Model.Manifest

namespace ForML.Manifest

/-! ### `expect` -/

@[simp] theorem expect_nil (t : List Nat) : expect [] t = .ok t := by
  cases t <;> rfl

@[simp] theorem expect_cons_cons (p : Nat) (ps : List Nat) (c : Nat) (t : List Nat) :
    expect (p :: ps) (c :: t) = if p == c then expect ps t else .error .syntax := rfl

/-- an expected prefix that is there is stripped -/
@[simp] theorem expect_append (p t : List Nat) : expect p (p ++ t) = .ok t := by
  induction p with
  | nil => simp
  | cons a r ih => simp [ih]

theorem expect_cons_self (a : Nat) (p t : List Nat) : expect (a :: p) (a :: t) = expect p t := by
  simp

/-! ### `push` -/

@[simp] theorem push_ok (cs t rest : List Nat) : push cs (.ok (t, rest)) = .ok (cs ++ t, rest) := rfl
@[simp] theorem push_error (cs : List Nat) (e : ReadErr) : push cs (.error e) = .error e := rfl

/-! ### `pyStr`, one step at a time -/

/-- the closing quote ends the literal -/
@[simp] theorem pyStr_quote (l : List Nat) : pyStr (34 :: l) = .ok ([], l) := by
  rw [pyStr.eq_def]; rfl

/-- a character that is not `"`, `\`, LF, CR stands for itself -/
theorem pyStr_plain (a : Nat) (l : List Nat) (h34 : a ≠ 34) (h92 : a ≠ 92) (h10 : a ≠ 10) (h13 : a ≠ 13) :
    pyStr (a :: l) = push [a] (pyStr l) := by
  rw [pyStr.eq_def]
  simp [h34, h92, h10, h13]

/-- `\c` for a single-character escape -/
theorem pyStr_esc (c x : Nat) (r : List Nat) (h : pyEsc c = some x) :
    pyStr (92 :: c :: r) = push [x] (pyStr r) := by
  rw [pyStr.eq_def]
  simp [h]

/-- `\uXXXX` -/
theorem pyStr_u4 (h1 h2 h3 h4 x : Nat) (r : List Nat) (h : hex4 h1 h2 h3 h4 = some x) :
    pyStr (92 :: 117 :: h1 :: h2 :: h3 :: h4 :: r) = push [x] (pyStr r) := by
  rw [pyStr.eq_def]
  have e : pyEsc 117 = none := by decide
  simp [h, e]

/-- a raw line break inside the quotes is a syntax error -/
theorem pyStr_newline (l : List Nat) : pyStr (10 :: l) = .error .syntax := by
  rw [pyStr.eq_def]; rfl

/-! ### hexadecimal digits -/

theorem hexVal_hexDigit (d : Nat) (h : d < 16) : hexVal (hexDigit d) = some d := by
  unfold hexVal hexDigit
  by_cases h10 : d < 10
  · have : 48 ≤ 48 + d ∧ 48 + d ≤ 57 := by omega
    simp [h10, this]
  · have a : ¬ (48 ≤ 87 + d ∧ 87 + d ≤ 57) := by omega
    have b : 97 ≤ 87 + d ∧ 87 + d ≤ 102 := by omega
    simp [h10, a, b]

/-- the four digits written by `u4` denote the code unit -/
theorem hex4_u4 (c : Nat) (h : c < 65536) :
    hex4 (hexDigit (c / 4096 % 16)) (hexDigit (c / 256 % 16)) (hexDigit (c / 16 % 16)) (hexDigit (c % 16)) = some c := by
  unfold hex4
  rw [hexVal_hexDigit _ (Nat.mod_lt _ (by decide)), hexVal_hexDigit _ (Nat.mod_lt _ (by decide)),
    hexVal_hexDigit _ (Nat.mod_lt _ (by decide)), hexVal_hexDigit _ (Nat.mod_lt _ (by decide))]
  simp only [Option.some.injEq]
  omega

/-- `u4 c` is read back as `c` -/
theorem pyStr_u4_append (c : Nat) (h : c < 65536) (r : List Nat) :
    pyStr (u4 c ++ r) = push [c] (pyStr r) := by
  unfold u4
  exact pyStr_u4 _ _ _ _ c r (hex4_u4 c h)

end ForML.Manifest
