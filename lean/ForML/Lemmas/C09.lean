/-
Helper lemmas for C09 (core Lean only): the priority order of `Importer.Slot`, the stable descending insertion sort
that models `sorted(slots, reverse=True)`, and `List.find?` on a list sorted by a strict order.
-/
import ForML.Model.Matcher

namespace ForML.Matcher

open ForML.Dsl

/-! ### `Slot.__lt__` is a strict linear order on priorities -/

theorem Prio.lt_irrefl (a : Prio) : a.lt a = false := by
  cases a <;> simp [Prio.lt]

theorem Prio.lt_asymm {a b : Prio} (h : a.lt b = true) : b.lt a = false := by
  cases a <;> cases b <;> simp_all [Prio.lt] <;> omega

theorem Prio.lt_trans {a b c : Prio} (h1 : a.lt b = true) (h2 : b.lt c = true) : a.lt c = true := by
  cases a <;> cases b <;> cases c <;> simp_all [Prio.lt] <;> omega

theorem Prio.eq_of_not_lt {a b : Prio} (h1 : a.lt b = false) (h2 : b.lt a = false) : a = b := by
  cases a <;> cases b <;> simp_all [Prio.lt] <;> omega

theorem Prio.lt_of_lt_of_not_lt {x y z : Prio} (h1 : z.lt y = true) (h2 : x.lt y = false) : z.lt x = true := by
  cases x <;> cases y <;> cases z <;> simp_all [Prio.lt] <;> omega

/-- nothing is above an explicit instance -/
theorem Prio.inf_not_lt (a : Prio) : Prio.inf.lt a = false := by
  cases a <;> simp [Prio.lt]

/-! ### the importer's iteration order -/

/-- `x` is iterated before `y`: strictly higher priority, or the same priority and constructed earlier -/
def before (x y : Nat × Slot) : Prop :=
  y.2.prio.lt x.2.prio = true ∨ (x.2.prio = y.2.prio ∧ x.1 < y.1)

theorem before_asymm {x y : Nat × Slot} (h : before x y) : ¬ before y x := by
  intro h'
  rcases h with h | ⟨he, hl⟩ <;> rcases h' with h' | ⟨he', hl'⟩
  · have := Prio.lt_asymm h; simp_all
  · rw [he'] at h; simp [Prio.lt_irrefl] at h
  · rw [he] at h'; simp [Prio.lt_irrefl] at h'
  · omega

theorem before_irrefl (x : Nat × Slot) : ¬ before x x := fun h => before_asymm h h

theorem mem_insertDesc (x z : Nat × Slot) (l : List (Nat × Slot)) : z ∈ insertDesc x l ↔ z = x ∨ z ∈ l := by
  induction l with
  | nil => simp [insertDesc]
  | cons y ys ih =>
    simp only [insertDesc]
    split
    · simp only [List.mem_cons, ih]
      constructor
      · rintro (h | h | h) <;> simp [h]
      · rintro (h | h | h) <;> simp [h]
    · simp [List.mem_cons]

theorem pairwise_insertDesc (x : Nat × Slot) (l : List (Nat × Slot)) (hl : l.Pairwise before)
    (hx : ∀ y ∈ l, x.1 < y.1) : (insertDesc x l).Pairwise before := by
  induction l with
  | nil => simp [insertDesc]
  | cons y ys ih =>
    have hy := List.pairwise_cons.mp hl
    simp only [insertDesc]
    split
    next hlt =>
      refine List.pairwise_cons.mpr ⟨?_, ih hy.2 (fun w hw => hx w (List.mem_cons_of_mem _ hw))⟩
      intro z hz
      rcases (mem_insertDesc x z ys).mp hz with rfl | hz
      · exact Or.inl hlt
      · exact hy.1 z hz
    next hnlt =>
      have hnlt : x.2.prio.lt y.2.prio = false := by simpa using hnlt
      refine List.pairwise_cons.mpr ⟨?_, hl⟩
      intro z hz
      have hxz : x.1 < z.1 := hx z hz
      rcases List.mem_cons.mp hz with rfl | hz'
      · cases h : z.2.prio.lt x.2.prio
        · exact Or.inr ⟨Prio.eq_of_not_lt hnlt h, hxz⟩
        · exact Or.inl h
      · rcases hy.1 z hz' with h | ⟨he, _⟩
        · exact Or.inl (Prio.lt_of_lt_of_not_lt h hnlt)
        · rw [he] at hnlt
          cases h : z.2.prio.lt x.2.prio
          · exact Or.inr ⟨Prio.eq_of_not_lt hnlt h, hxz⟩
          · exact Or.inl h

/-- the ordered pool holds exactly the slots of the pool with their construction indices -/
theorem mem_orderFrom (i : Nat) (pool : Pool) (z : Nat × Slot) :
    z ∈ orderFrom i pool ↔ ∃ k, pool[k]? = some z.2 ∧ z.1 = i + k := by
  induction pool generalizing i with
  | nil => simp [orderFrom]
  | cons x xs ih =>
    simp only [orderFrom, mem_insertDesc, ih]
    constructor
    · rintro (rfl | ⟨k, hk, he⟩)
      · exact ⟨0, by simp, by simp⟩
      · exact ⟨k + 1, by simpa using hk, by omega⟩
    · rintro ⟨k, hk, he⟩
      cases k with
      | zero =>
        left
        simp at hk
        cases z
        simp_all
      | succ k =>
        right
        exact ⟨k, by simpa using hk, by omega⟩

theorem pairwise_orderFrom (i : Nat) (pool : Pool) : (orderFrom i pool).Pairwise before := by
  induction pool generalizing i with
  | nil => simp [orderFrom]
  | cons x xs ih =>
    simp only [orderFrom]
    refine pairwise_insertDesc _ _ (ih (i + 1)) ?_
    intro y hy
    obtain ⟨k, _, he⟩ := (mem_orderFrom (i + 1) xs y).mp hy
    simp only
    omega

theorem mem_order (pool : Pool) (z : Nat × Slot) : z ∈ order pool ↔ pool[z.1]? = some z.2 := by
  simp only [order, mem_orderFrom]
  constructor
  · rintro ⟨k, hk, he⟩
    have : z.1 = k := by omega
    rw [this]; exact hk
  · intro h
    exact ⟨z.1, h, by omega⟩

theorem pairwise_order (pool : Pool) : (order pool).Pairwise before := pairwise_orderFrom 0 pool

theorem length_insertDesc (x : Nat × Slot) (l : List (Nat × Slot)) : (insertDesc x l).length = l.length + 1 := by
  induction l with
  | nil => simp [insertDesc]
  | cons y ys ih =>
    simp only [insertDesc]
    split <;> simp [ih]

/-- the importer keeps every feed exactly once -/
theorem length_order (pool : Pool) : (order pool).length = pool.length := by
  have : ∀ i, (orderFrom i pool).length = pool.length := by
    induction pool with
    | nil => simp [orderFrom]
    | cons x xs ih => intro i; simp [orderFrom, length_insertDesc, ih]
  exact this 0

/-! ### `find?` on a list sorted by an asymmetric relation -/

theorem find?_sorted {α : Type} (R : α → α → Prop) (hasymm : ∀ {a b}, R a b → ¬ R b a)
    (l : List α) (hl : l.Pairwise R) (p : α → Bool) (z : α) :
    l.find? p = some z ↔ z ∈ l ∧ p z = true ∧ ∀ w ∈ l, p w = true → w = z ∨ R z w := by
  have fwd : ∀ z, l.find? p = some z → z ∈ l ∧ p z = true ∧ ∀ w ∈ l, p w = true → w = z ∨ R z w := by
    intro z h
    obtain ⟨hp, as, bs, rfl, has⟩ := List.find?_eq_some_iff_append.mp h
    refine ⟨by simp, hp, ?_⟩
    intro w hw hpw
    rcases List.mem_append.mp hw with hw | hw
    · have := has w hw; simp [hpw] at this
    · rcases List.mem_cons.mp hw with rfl | hw
      · exact Or.inl rfl
      · right
        have h2 := (List.pairwise_append.mp hl).2.1
        exact (List.pairwise_cons.mp h2).1 w hw
  constructor
  · exact fwd z
  · rintro ⟨hz, hp, hall⟩
    cases h : l.find? p with
    | none =>
      have := List.find?_eq_none.mp h z hz
      simp [hp] at this
    | some z' =>
      obtain ⟨hz', hp', hall'⟩ := fwd z' h
      rcases hall z' hz' hp' with rfl | h1
      · rfl
      · rcases hall' z hz hp with rfl | h2
        · rfl
        · exact absurd h2 (hasymm h1)

/-! ### matcher / parser recursion lemmas -/

theorem visit_eq_spec (S : Sources) : ∀ (s : Source) (m : Bool), visit S s m = (m && coversSpec S s)
  | .table n fs, m => by cases m <;> simp [visit, coversSpec]
  | .ref inst n, m => by
    have ih := visit_eq_spec S inst
    cases m <;> cases h : adv S (.ref inst n) <;> simp [visit, coversSpec, h, ih]
  | .join l r k c, m => by
    have ihl := visit_eq_spec S l
    have ihr := visit_eq_spec S r
    cases m <;> cases h : adv S (.join l r k c) <;> simp [visit, coversSpec, h, ihl, ihr, Bool.and_comm]
  | .set l r k, m => by
    have ihl := visit_eq_spec S l
    have ihr := visit_eq_spec S r
    cases m <;> cases h : adv S (.set l r k) <;> simp [visit, coversSpec, h, ihl, ihr, Bool.and_comm]
  | .query src sel pre grp post ord rows, m => by
    have ih := visit_eq_spec S src
    cases m <;> cases h : adv S (.query src sel pre grp post ord rows) <;> simp [visit, coversSpec, h, ih]

theorem adv_mono {S S' : Sources} (h : ∀ x, x ∈ S → x ∈ S') (s : Source) (hs : adv S s = true) : adv S' s = true := by
  simp only [adv, List.contains_iff_mem] at *
  exact h s hs

theorem coversSpec_mono {S S' : Sources} (h : ∀ x, x ∈ S → x ∈ S') :
    ∀ s, coversSpec S s = true → coversSpec S' s = true
  | .table n fs => by simpa [coversSpec] using adv_mono h _
  | .ref inst n => by
    have ih := coversSpec_mono h inst
    have ha := adv_mono h (.ref inst n)
    simp only [coversSpec, Bool.or_eq_true]
    rintro (h1 | h1)
    · exact Or.inl (ha h1)
    · exact Or.inr (ih h1)
  | .join l r k c => by
    have ihl := coversSpec_mono h l
    have ihr := coversSpec_mono h r
    have ha := adv_mono h (.join l r k c)
    simp only [coversSpec, Bool.or_eq_true, Bool.and_eq_true]
    rintro (h1 | ⟨h1, h2⟩)
    · exact Or.inl (ha h1)
    · exact Or.inr ⟨ihl h1, ihr h2⟩
  | .set l r k => by
    have ihl := coversSpec_mono h l
    have ihr := coversSpec_mono h r
    have ha := adv_mono h (.set l r k)
    simp only [coversSpec, Bool.or_eq_true, Bool.and_eq_true]
    rintro (h1 | ⟨h1, h2⟩)
    · exact Or.inl (ha h1)
    · exact Or.inr ⟨ihl h1, ihr h2⟩
  | .query src sel pre grp post ord rows => by
    have ih := coversSpec_mono h src
    have ha := adv_mono h (.query src sel pre grp post ord rows)
    simp only [coversSpec, Bool.or_eq_true]
    rintro (h1 | h1)
    · exact Or.inl (ha h1)
    · exact Or.inr (ih h1)

theorem select_eq_some (pool : Pool) (s : Source) (i : Nat) :
    select pool s = some i ↔ ∃ f, (order pool).find? (fun p => covers p.2.sources s) = some (i, f) := by
  simp only [select, Option.map_eq_some_iff]
  constructor
  · rintro ⟨⟨j, f⟩, h, rfl⟩
    exact ⟨f, h⟩
  · rintro ⟨f, h⟩
    exact ⟨(i, f), h, rfl⟩

theorem resolves_table (S : Sources) (n : String) (fs : Fields) : resolvesSkeleton S (.table n fs) = adv S (.table n fs) := by
  unfold resolvesSkeleton parseSkeleton
  cases adv S (.table n fs) <;> simp

theorem resolves_ref (S : Sources) (inst : Source) (n : String) : resolvesSkeleton S (.ref inst n) = resolvesSkeleton S inst := by
  unfold resolvesSkeleton
  rw [parseSkeleton]
  cases parseSkeleton S inst <;> simp

theorem resolves_join (S : Sources) (l r : Source) (k : JoinKind) (c : FeatureOpt) :
    resolvesSkeleton S (.join l r k c) = (resolvesSkeleton S l && resolvesSkeleton S r) := by
  unfold resolvesSkeleton
  rw [parseSkeleton]
  cases parseSkeleton S l <;> cases parseSkeleton S r <;> simp

theorem resolves_set (S : Sources) (l r : Source) (k : SetKind) :
    resolvesSkeleton S (.set l r k) = (resolvesSkeleton S l && resolvesSkeleton S r) := by
  unfold resolvesSkeleton
  rw [parseSkeleton]
  cases parseSkeleton S l <;> cases parseSkeleton S r <;> simp

theorem resolves_query (S : Sources) (src : Source) (sel : Features) (pre : FeatureOpt) (grp : Features)
    (post : FeatureOpt) (ord : Orderings) (rows : Option Rows) :
    resolvesSkeleton S (.query src sel pre grp post ord rows) = resolvesSkeleton S src := by
  unfold resolvesSkeleton
  rw [parseSkeleton]
  cases parseSkeleton S src <;> simp

theorem coversSpec_of_tables (S : Sources) : ∀ s, (tables s).all (adv S) = true → coversSpec S s = true
  | .table n fs => by simp [tables, coversSpec]
  | .ref inst n => by
    have ih := coversSpec_of_tables S inst
    simp only [tables, coversSpec, Bool.or_eq_true]
    exact fun h => Or.inr (ih h)
  | .join l r k c => by
    have ihl := coversSpec_of_tables S l
    have ihr := coversSpec_of_tables S r
    simp only [tables, coversSpec, List.all_append, Bool.or_eq_true, Bool.and_eq_true]
    exact fun h => Or.inr ⟨ihl h.1, ihr h.2⟩
  | .set l r k => by
    have ihl := coversSpec_of_tables S l
    have ihr := coversSpec_of_tables S r
    simp only [tables, coversSpec, List.all_append, Bool.or_eq_true, Bool.and_eq_true]
    exact fun h => Or.inr ⟨ihl h.1, ihr h.2⟩
  | .query src sel pre grp post ord rows => by
    have ih := coversSpec_of_tables S src
    simp only [tables, coversSpec, Bool.or_eq_true]
    exact fun h => Or.inr (ih h)

theorem tables_of_cuts (S : Sources) :
    ∀ s, cutsProvisioned S s = true → coversSpec S s = true → (tables s).all (adv S) = true
  | .table n fs => by simp [tables, coversSpec]
  | .ref inst n => by
    have ih := tables_of_cuts S inst
    simp only [cutsProvisioned, coversSpec, tables, Bool.and_eq_true, Bool.or_eq_true]
    rintro ⟨h1, h2⟩ (h3 | h3)
    · simpa [h3] using h1
    · exact ih h2 h3
  | .join l r k c => by
    have ihl := tables_of_cuts S l
    have ihr := tables_of_cuts S r
    simp only [cutsProvisioned, coversSpec, tables, Bool.and_eq_true, Bool.or_eq_true]
    rintro ⟨⟨h1, h2⟩, h2'⟩ (h3 | h3)
    · simpa [h3] using h1
    · rw [List.all_append, Bool.and_eq_true]
      exact ⟨ihl h2 h3.1, ihr h2' h3.2⟩
  | .set l r k => by
    have ihl := tables_of_cuts S l
    have ihr := tables_of_cuts S r
    simp only [cutsProvisioned, coversSpec, tables, Bool.and_eq_true, Bool.or_eq_true]
    rintro ⟨⟨h1, h2⟩, h2'⟩ (h3 | h3)
    · simpa [h3] using h1
    · rw [List.all_append, Bool.and_eq_true]
      exact ⟨ihl h2 h3.1, ihr h2' h3.2⟩
  | .query src sel pre grp post ord rows => by
    have ih := tables_of_cuts S src
    simp only [cutsProvisioned, coversSpec, tables, Bool.and_eq_true, Bool.or_eq_true]
    rintro ⟨h1, h2⟩ (h3 | h3)
    · simpa [h3] using h1
    · exact ih h2 h3

theorem adv_tablesOnly {S : Sources} (h : tablesOnly S = true) (s : Source) (hs : adv S s = true) :
    ∃ n fs, s = .table n fs := by
  simp only [adv, List.contains_iff_mem] at hs
  have := List.all_eq_true.mp h s hs
  cases s <;> simp at this
  exact ⟨_, _, rfl⟩

theorem cuts_of_tablesOnly {S : Sources} (h : tablesOnly S = true) : ∀ s, cutsProvisioned S s = true
  | .table n fs => by simp [cutsProvisioned]
  | .ref inst n => by
    have ih := cuts_of_tablesOnly h inst
    have : adv S (.ref inst n) = false := by
      cases ha : adv S (.ref inst n)
      · rfl
      · obtain ⟨_, _, he⟩ := adv_tablesOnly h _ ha
        cases he
    simp [cutsProvisioned, this, ih]
  | .join l r k c => by
    have ihl := cuts_of_tablesOnly h l
    have ihr := cuts_of_tablesOnly h r
    have : adv S (.join l r k c) = false := by
      cases ha : adv S (.join l r k c)
      · rfl
      · obtain ⟨_, _, he⟩ := adv_tablesOnly h _ ha
        cases he
    simp [cutsProvisioned, this, ihl, ihr]
  | .set l r k => by
    have ihl := cuts_of_tablesOnly h l
    have ihr := cuts_of_tablesOnly h r
    have : adv S (.set l r k) = false := by
      cases ha : adv S (.set l r k)
      · rfl
      · obtain ⟨_, _, he⟩ := adv_tablesOnly h _ ha
        cases he
    simp [cutsProvisioned, this, ihl, ihr]
  | .query src sel pre grp post ord rows => by
    have ih := cuts_of_tablesOnly h src
    have : adv S (.query src sel pre grp post ord rows) = false := by
      cases ha : adv S (.query src sel pre grp post ord rows)
      · rfl
      · obtain ⟨_, _, he⟩ := adv_tablesOnly h _ ha
        cases he
    simp [cutsProvisioned, this, ih]

end ForML.Matcher
