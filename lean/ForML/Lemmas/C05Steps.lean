/-
Helper lemmas for C05: one history step of the repaired code (`Impl.repaired`) on a good tree — every tree it can
leave (at its end, where it raises, or where the process dies) is good and shows the previous view or the complete
new item; what a successful publish / training adds.
-/
import ForML.Lemmas.C05Hist
import ForML.Lemmas.C05Fault

namespace ForML.Registry
open ForML.Fs

/-! ### guards -/

theorem trainGuard_none (fs : Fs) (p v : Nat) (h : trainGuard fs p v = none) :
    relListed fs p v = true ∧ get fs (projectP p) ≠ none ∧ get fs (releaseP p v) ≠ none := by
  unfold trainGuard at h
  split at h
  · rename_i hc
    simp only [Bool.and_eq_true] at hc
    have hr := hc.2
    simp only [relListed, Bool.and_eq_true, isDir, beq_iff_eq] at hr
    exact ⟨hc.2, by rw [hr.1.1]; simp, by rw [hr.1.2]; simp⟩
  · cases h

theorem publishGuard_none (fs : Fs) (dp name v : Nat) (h : publishGuard Impl.repaired fs dp name v = none) :
    dp = name ∧ ∀ w ∈ releasesOf fs name, w < v := by
  simp only [publishGuard, Impl.repaired, Bool.true_and] at h
  by_cases hn : name = dp
  · subst hn
    refine ⟨rfl, ?_⟩
    intro w hw
    simp only [bne_self_eq_false, Bool.false_eq_true, if_false] at h
    have hl : projListed fs name = true := by
      simp only [projListed, Bool.not_eq_true', List.isEmpty_eq_false_iff]
      intro h'; rw [h'] at hw; cases hw
    obtain ⟨m, hm, hle⟩ := le_maxOf _ w hw
    simp only [hl, if_true, hm] at h
    split at h
    · cases h
    · split at h
      · omega
      · cases h
  · have : (name != dp) = true := by simp [hn]
    simp [this] at h

theorem package_absent (fs : Fs) (p v : Nat) (w : WF fs) (hnl : relListed fs p v = false) :
    get fs (packageP p v) = none := by
  cases hr : get fs (packageP p v) with
  | none => rfl
  | some n =>
    exfalso
    have d2 := w.parent_dir (packageP p v) n hr (by simp [packageP])
    have d1 := w.parent_dir (releaseP p v) .dir (by simpa [parent, packageP, releaseP] using d2) (by simp [releaseP])
    simp [parent, packageP, releaseP] at d2 d1
    simp [relListed, isDir, projectP, releaseP, packageP, d1, d2] at hnl
    simp [packageP, hnl] at hr

/-! ### what a reader sees after a completed publish -/

theorem relListed_frame_pub (a b : Fs) (p v : Nat) (w : WF b) (h : PubFrame a b p v) :
    ∀ p' v', ¬ (p' = p ∧ v' = v) → relListed a p' v' = relListed b p' v' := by
  intro p' v' hne
  by_cases hpp : p' = p
  · subst hpp
    have hvv : v' ≠ v := fun e => hne ⟨rfl, e⟩
    have e2 := h.1 (releaseP p' v') (by simp [releaseP, projectP]) (by simp [releaseP, hvv])
      (by simp [releaseP, packageTmpP]) (by simp [releaseP, packageP])
    have e3 := h.1 (packageP p' v') (by simp [packageP, projectP]) (by simp [packageP, releaseP])
      (by simp [packageP, packageTmpP]) (by simp [packageP]; exact fun e => hvv e.symm)
    by_cases hn : get b (projectP p') = none
    · have hbn : get b (releaseP p' v') = none := by
        cases hr : get b (releaseP p' v') with
        | none => rfl
        | some n =>
          have := w.parent_dir (releaseP p' v') n hr (by simp [releaseP])
          simp [parent, releaseP, projectP] at this hn
          rw [hn] at this; cases this
      simp [relListed, isDir, e2, hbn]
    · simp [relListed, isDir, e2, e3, h.2 hn]
  · have e1 := h.1 (projectP p') (by simp [projectP, hpp]) (by simp [releaseP, projectP])
      (by simp [projectP, packageTmpP]) (by simp [projectP, packageP])
    have e2 := h.1 (releaseP p' v') (by simp [releaseP, projectP]) (by simp [releaseP, hpp])
      (by simp [releaseP, packageTmpP]) (by simp [releaseP, packageP])
    have e3 := h.1 (packageP p' v') (by simp [packageP, projectP]) (by simp [packageP, releaseP])
      (by simp [packageP, packageTmpP]) (by simp [packageP]; exact fun e => absurd e.symm hpp)
    simp [relListed, isDir, e1, e2, e3]

/-- everything outside the new release directory looks exactly as before -/
theorem vis_frame_pub (a b : Fs) (p v : Nat) (w : WF b) (h : PubFrame a b p v) :
    ∀ key, ¬ (releaseP p v <+: key) → vis a key = vis b key := by
  have rl := relListed_frame_pub a b p v w h
  intro key hkey
  unfold vis
  split
  · rename_i p' v'
    have hne : ¬ (p' = p ∧ v' = v) := by rintro ⟨rfl, rfl⟩; exact hkey (by simp [releaseP])
    have hne' : ¬ (p = p' ∧ v = v') := fun e => hne ⟨e.1.symm, e.2.symm⟩
    have e := h.1 (packageP p' v') (by simp [packageP, projectP]) (by simp [packageP, releaseP])
      (by simp [packageP, packageTmpP]) (by simpa [packageP] using hne')
    rw [rl p' v' hne, e]
  · rename_i p' v' i
    have hne : ¬ (p' = p ∧ v' = v) := by rintro ⟨rfl, rfl⟩; exact hkey (by simp [releaseP])
    have hne' : ¬ (p = p' ∧ v = v') := fun e => hne ⟨e.1.symm, e.2.symm⟩
    have e := h.1 (packageP p' v' ++ [Seg.member i]) (by simp [packageP, projectP]) (by simp [packageP, releaseP])
      (by simp [packageP, packageTmpP]) (by simpa [packageP] using hne')
    rw [rl p' v' hne, e]
  · rename_i p' v' g'
    have hne : ¬ (p' = p ∧ v' = v) := by rintro ⟨rfl, rfl⟩; exact hkey (by simp [releaseP])
    have e1 := h.1 (generationP p' v' g') (by simp [generationP, projectP]) (by simp [generationP, releaseP])
      (by simp [generationP, packageTmpP]) (by simp [generationP, packageP])
    have e2 := h.1 (tagP p' v' g') (by simp [tagP, projectP]) (by simp [tagP, releaseP]) (by simp [tagP, packageTmpP])
      (by simp [tagP, packageP])
    simp [genListed, genValid, isDir, rl p' v' hne, e1, e2]
  · rename_i p' v' g' s
    have hne : ¬ (p' = p ∧ v' = v) := by rintro ⟨rfl, rfl⟩; exact hkey (by simp [releaseP])
    have e1 := h.1 (generationP p' v' g') (by simp [generationP, projectP]) (by simp [generationP, releaseP])
      (by simp [generationP, packageTmpP]) (by simp [generationP, packageP])
    have e2 := h.1 (tagP p' v' g') (by simp [tagP, projectP]) (by simp [tagP, releaseP]) (by simp [tagP, packageTmpP])
      (by simp [tagP, packageP])
    have e3 := h.1 (stateP p' v' g' s) (by simp [stateP, projectP]) (by simp [stateP, releaseP])
      (by simp [stateP, packageTmpP]) (by simp [stateP, packageP])
    simp [genListed, genValid, isDir, tagOf, rl p' v' hne, e1, e2, e3]
  · rfl

/-! ### one step of the repaired code on a good tree -/

/-- the trees a step can leave: where it ends (or raises), or where the process dies -/
def LeftBy (fs : Fs) (s : Step) (x : Fs) : Prop :=
  x = (exec Impl.repaired fs s).fs ∨ ∃ k cut, x = crashIn Impl.repaired fs s k cut

theorem crashIn_nil (impl : Impl) (fs : Fs) (s : Step) (k : Nat) (cut : Option Nat)
    (h : (exec impl fs s).calls = []) : crashIn impl fs s k cut = fs := by
  simp [crashIn, h, atomsAll, crashOps, runSome]

theorem step_left (fs : Fs) (gd : Good fs) (s : Step) (x : Fs) (hx : LeftBy fs s x) :
    Good x ∧ (ViewEq x fs ∨ ((exec Impl.repaired fs s).err = none ∧ x = (exec Impl.repaired fs s).fs)) := by
  cases s with
  | publish dp name v pkg =>
    cases hg : publishGuard Impl.repaired fs dp name v with
    | some e =>
      have hfs : x = fs := by
        rcases hx with rfl | ⟨k, cut, rfl⟩
        · simp [exec, hg]
        · exact crashIn_nil _ _ _ _ _ (by simp [exec, hg])
      subst hfs; exact ⟨gd, Or.inl (ViewEq.refl _)⟩
    | none =>
      obtain ⟨_, hmono⟩ := publishGuard_none fs dp name v hg
      have hnl : relListed fs name v = false := by
        cases hl : relListed fs name v with
        | false => rfl
        | true => have := hmono v ((mem_releasesOf fs name v).mpr hl); omega
      have hb := package_absent fs name v gd.wf hnl
      have hex : exec Impl.repaired fs (.publish dp name v pkg)
          = runCalls fs [fun f => pushOps Impl.repaired f name v pkg] := by simp [exec, hg]
      have htree : CrashTree fs [fun f => pushOps ⟨true, true⟩ f name v pkg] x := by
        rcases hx with rfl | ⟨k, cut, rfl⟩
        · rw [hex]; exact runCalls_tree _ _
        · simp only [crashIn, hex]; exact crash_tree _ _ _ _
      have wx := htree.wf gd.wf
      rcases publish_tree true fs x name v pkg htree with hq | hfull
      · exact ⟨hq.good wx gd, Or.inl (hq.viewEq gd.wf hb)⟩
      · have hrun := hfull.runCalls
        cases hfull with
        | call _ _ _ fs' _ hr hrest =>
          cases hrest
          refine ⟨(push_full_frame true fs x name v pkg hr).good wx gd, Or.inr ?_⟩
          rw [hex]; exact ⟨hrun.1, hrun.2.symm⟩
  | train p v ord sts =>
    cases hg : trainGuard fs p v with
    | some e =>
      have hfs : x = fs := by
        rcases hx with rfl | ⟨k, cut, rfl⟩
        · simp [exec, hg]
        · exact crashIn_nil _ _ _ _ _ (by simp [exec, hg])
      subst hfs; exact ⟨gd, Or.inl (ViewEq.refl _)⟩
    | none =>
      obtain ⟨_, hp, hv⟩ := trainGuard_none fs p v hg
      have hex : exec Impl.repaired fs (.train p v ord sts)
          = runCalls fs (trainCalls Impl.repaired p v ord sts) := by simp [exec, hg]
      have htree : CrashTree fs (trainCalls ⟨true, true⟩ p v ord sts) x := by
        rcases hx with rfl | ⟨k, cut, rfl⟩
        · rw [hex]; exact runCalls_tree _ _
        · simp only [crashIn, hex]; exact crash_tree _ _ _ _
      have wx := htree.wf gd.wf
      have ht0 : get fs (tagP p v (nextGen fs p v)) = none :=
        tag_absent_of_invalid fs p v _ gd.wf (genValid_nextGen fs p v) (nextGen_pos fs p v)
      rw [trainCalls_eq] at htree
      rcases train_tree true fs p v ord _ hp hv gd.wf sts fs gd.wf (fun _ _ => rfl) x htree with hq | hfull
      · exact ⟨hq.good wx gd, Or.inl (hq.viewEq ht0)⟩
      · rw [← trainCalls_eq] at hfull
        have hrun := hfull.runCalls
        obtain ⟨c1, c2, c3, _, c5⟩ := train_full true fs x p v ord sts hp hv hfull
        refine ⟨good_of_committed x fs p v _ (genFrame_of_frame x fs p v _ c1) c2 c3 ?_ wx gd, Or.inr ?_⟩
        · intro s hs
          obtain ⟨sb, hsb, rfl⟩ := List.mem_map.mp hs
          exact ⟨sb.2, c5 sb hsb⟩
        · rw [hex]; exact ⟨hrun.1, hrun.2.symm⟩

theorem okCount_lt_of_fail (ops : List Op) (fs : Fs) (h : (runSome fs ops).2 = false) : okCount fs ops < ops.length := by
  induction ops generalizing fs with
  | nil => simp [runSome] at h
  | cons a r ih =>
    simp only [runSome, okCount] at h ⊢
    cases hs : step fs a with
    | none => simp
    | some g => rw [hs] at h; simp only [List.length_cons]; have := ih g h; omega

/-- the recorded micro-operations of a publish: all of them, ending in the rename — or, when a system call failed, a
part of those before the rename -/
theorem publish_atoms (fs : Fs) (name v : Nat) (pkg : Pkg) (tmpOps : List Op)
    (hsplit : pushOps ⟨true, true⟩ fs name v pkg
      = (mkdirP fs (releaseP name v) ++ tmpOps) ++ [Op.rename (packageTmpP name v) (packageP name v)]) :
    let atoms := atomsAll (runCalls fs [fun f => pushOps Impl.repaired f name v pkg]).calls.flatten
    atoms = atomsAll (mkdirP fs (releaseP name v) ++ tmpOps) ++ [Op.rename (packageTmpP name v) (packageP name v)]
      ∨ ∀ op ∈ atoms, op ∈ atomsAll (mkdirP fs (releaseP name v) ++ tmpOps) := by
  intro atoms
  have hfull : atomsAll (pushOps Impl.repaired fs name v pkg)
      = atomsAll (mkdirP fs (releaseP name v) ++ tmpOps) ++ [Op.rename (packageTmpP name v) (packageP name v)] := by
    show atomsAll (pushOps ⟨true, true⟩ fs name v pkg) = _
    rw [hsplit, atomsAll_append]; rfl
  cases hr : runSome fs (atomsAll (pushOps Impl.repaired fs name v pkg)) with
  | mk fs' ok =>
    cases ok with
    | true =>
      left
      show atomsAll (runCalls fs [fun f => pushOps Impl.repaired f name v pkg]).calls.flatten = _
      simp only [runCalls, hr, List.flatten_cons, List.flatten_nil, List.append_nil]
      exact hfull
    | false =>
      right
      intro op hop
      have hop' : op ∈ (atomsAll (pushOps Impl.repaired fs name v pkg)).take
          (okCount fs (atomsAll (pushOps Impl.repaired fs name v pkg))) := by
        have : atoms = (atomsAll (pushOps Impl.repaired fs name v pkg)).take
            (okCount fs (atomsAll (pushOps Impl.repaired fs name v pkg))) := by
          show atomsAll (runCalls fs [fun f => pushOps Impl.repaired f name v pkg]).calls.flatten = _
          simp only [runCalls, hr, List.flatten_cons, List.flatten_nil, List.append_nil, atomsAll_take_atoms]
        rw [← this]; exact hop
      have hlt := okCount_lt_of_fail (atomsAll (pushOps Impl.repaired fs name v pkg)) fs (by rw [hr])
      rw [hfull] at hop' hlt
      have hle : okCount fs (atomsAll (mkdirP fs (releaseP name v) ++ tmpOps)
          ++ [Op.rename (packageTmpP name v) (packageP name v)]) ≤ (atomsAll (mkdirP fs (releaseP name v) ++ tmpOps)).length := by
        simp at hlt; omega
      rw [List.take_append_of_le_length hle] at hop'
      exact List.mem_of_mem_take hop'

/-- a publish hit by a transient I/O fault: it stops like a process death at that point, or — inside `copytree` — goes
on below the invisible temporary name only -/
theorem fault_publish_cases (fs : Fs) (gd : Good fs) (dp name v : Nat) (pkg : Pkg) (j : Nat) :
    faultIn Impl.repaired fs (.publish dp name v pkg) j = crashIn Impl.repaired fs (.publish dp name v pkg) j none
    ∨ (relListed fs name v = false ∧ QuietPub (faultIn Impl.repaired fs (.publish dp name v pkg) j) fs name v) := by
  by_cases hq : faultAtoms (atomsAll (exec Impl.repaired fs (.publish dp name v pkg)).calls.flatten) j
      = (atomsAll (exec Impl.repaired fs (.publish dp name v pkg)).calls.flatten).take j
  · left; simp only [faultIn, crashIn, crashOps_none, hq]
  · right
    cases hg : publishGuard Impl.repaired fs dp name v with
    | some e => exfalso; apply hq; simp [exec, hg, atomsAll, faultAtoms]
    | none =>
      obtain ⟨_, hmono⟩ := publishGuard_none fs dp name v hg
      have hnl : relListed fs name v = false := by
        cases hl : relListed fs name v with
        | false => rfl
        | true => have := hmono v ((mem_releasesOf fs name v).mpr hl); omega
      have hex : exec Impl.repaired fs (.publish dp name v pkg)
          = runCalls fs [fun f => pushOps Impl.repaired f name v pkg] := by simp [exec, hg]
      obtain ⟨tmpOps, hsplit, htmp⟩ := pushOps_split true fs name v pkg
      have hat := publish_atoms fs name v pkg tmpOps hsplit
      refine ⟨hnl, ?_⟩
      simp only [faultIn]
      rw [hex] at hq ⊢
      generalize atomsAll (runCalls fs [fun f => pushOps Impl.repaired f name v pkg]).calls.flatten = atoms at hq hat ⊢
      have hlt : j < atoms.length := by
        rcases Nat.lt_or_ge j atoms.length with h | h
        · exact h
        · exfalso; apply hq; rw [faultAtoms_all atoms j h, List.take_of_length_le h]
      have hin : ∀ op ∈ faultAtoms atoms j, op ∈ atomsAll (mkdirP fs (releaseP name v) ++ tmpOps) := by
        rcases hat with hat | hat
        · rw [hat] at hlt ⊢; exact faultAtoms_init _ _ _ j hlt
        · exact fun op hop => hat op (faultAtoms_mem atoms j op hop)
      obtain ⟨n, hn⟩ := runSome_prefix (faultAtoms atoms j) fs
      exact push_quiet_ops true fs _ name v pkg _
        (fun op hop => ⟨tmpOps, htmp, hin op (List.mem_of_mem_take hop)⟩) hn

/-- a step hit by a transient I/O fault at its `j`-th atomic micro-operation (it raises, the process lives on) leaves a
good tree that shows the previous content — unless the fault came after the last micro-operation of a step that had
completed: then the tree is the complete result -/
theorem fault_left (fs : Fs) (gd : Good fs) (s : Step) (j : Nat) :
    Good (faultIn Impl.repaired fs s j) ∧ (ViewEq (faultIn Impl.repaired fs s j) fs
      ∨ ((exec Impl.repaired fs s).err = none ∧ faultIn Impl.repaired fs s j = (exec Impl.repaired fs s).fs)) := by
  cases s with
  | train p v ord sts =>
    rw [faultIn_train]
    exact step_left fs gd _ _ (Or.inr ⟨j, none, rfl⟩)
  | publish dp name v pkg =>
    rcases fault_publish_cases fs gd dp name v pkg j with h | ⟨hnl, hquiet⟩
    · rw [h]; exact step_left fs gd _ _ (Or.inr ⟨j, none, rfl⟩)
    · have hb := package_absent fs name v gd.wf hnl
      have wx : WF (faultIn Impl.repaired fs (.publish dp name v pkg) j) := runSome_wf _ fs gd.wf
      exact ⟨hquiet.good wx gd, Or.inl (hquiet.viewEq gd.wf hb)⟩

/-- what a successful training adds -/
theorem train_ok (fs : Fs) (_gd : Good fs) (p v ord : Nat) (sts : List (Nat × Bytes))
    (h : (exec Impl.repaired fs (.train p v ord sts)).err = none) :
    relListed fs p v = true
    ∧ genListed (exec Impl.repaired fs (.train p v ord sts)).fs p v (nextGen fs p v) = true
    ∧ tagOf (exec Impl.repaired fs (.train p v ord sts)).fs p v (nextGen fs p v) = some ⟨ord, sts.map (·.1)⟩
    ∧ (sts.map (·.1)).Nodup
    ∧ (∀ sb ∈ sts, vis (exec Impl.repaired fs (.train p v ord sts)).fs (stateP p v (nextGen fs p v) sb.1)
        = some (.file sb.2))
    ∧ (∀ key, ¬ (generationP p v (nextGen fs p v) <+: key) →
        vis (exec Impl.repaired fs (.train p v ord sts)).fs key = vis fs key) := by
  cases hg : trainGuard fs p v with
  | some e => simp [exec, hg] at h
  | none =>
    obtain ⟨hrl, hp, hv⟩ := trainGuard_none fs p v hg
    have hex : exec Impl.repaired fs (.train p v ord sts)
        = runCalls fs (trainCalls Impl.repaired p v ord sts) := by simp [exec, hg]
    rw [hex] at h ⊢
    have hfull := runCalls_full _ fs h
    obtain ⟨c1, c2, c3, c4, c5⟩ := train_full true fs _ p v ord sts hp hv hfull
    have hrl' : relListed (runCalls fs (trainCalls Impl.repaired p v ord sts)).fs p v = true := by
      rw [← hrl]
      simp [relListed, isDir, c1 (projectP p) (by simp [generationP, projectP]) (by simp [stageP, projectP]),
        c1 (releaseP p v) (by simp [generationP, releaseP]) (by simp [stageP, releaseP]),
        c1 (packageP p v) (by simp [generationP, packageP]) (by simp [stageP, packageP])]
    have hgl : genListed (runCalls fs (trainCalls Impl.repaired p v ord sts)).fs p v (nextGen fs p v) = true := by
      simp [genListed, hrl', genValid, isDir, c2, c3, nextGen_pos]
    have htag : tagOf (runCalls fs (trainCalls Impl.repaired p v ord sts)).fs p v (nextGen fs p v)
        = some ⟨ord, sts.map (·.1)⟩ := by simp [tagOf, c3, decode_encode]
    refine ⟨hrl, hgl, htag, c4, ?_, ?_⟩
    · intro sb hsb
      have hin : (sts.map (·.1)).contains sb.1 = true := by
        simp only [List.contains_iff_mem]; exact List.mem_map.mpr ⟨sb, hsb, rfl⟩
      simp only [vis, stateP, hgl, htag, hin, Bool.and_self, if_true]
      exact c5 sb hsb
    · exact fun key hkey => vis_frame_gen _ fs p v _ c1 key hkey

/-- the node a reader finds at the package path of a release holding `pkg` -/
def _root_.ForML.Registry.Pkg.placedAs (pkg : Pkg) (n : Option Node) : Prop :=
  match pkg with
  | .file b => n = some (.file b)
  | .dir _ => n = some .dir

/-- what a successful publish adds -/
theorem publish_ok (fs : Fs) (gd : Good fs) (dp name v : Nat) (pkg : Pkg)
    (h : (exec Impl.repaired fs (.publish dp name v pkg)).err = none) :
    dp = name ∧ (∀ w ∈ releasesOf fs name, w < v)
    ∧ relListed (exec Impl.repaired fs (.publish dp name v pkg)).fs name v = true
    ∧ pkg.placedAs (vis (exec Impl.repaired fs (.publish dp name v pkg)).fs (packageP name v))
    ∧ (∀ ms, pkg = .dir ms → (ms.map (·.1)).Nodup → ∀ m ∈ ms,
        vis (exec Impl.repaired fs (.publish dp name v pkg)).fs (packageP name v ++ [.member m.1]) = some (.file m.2))
    ∧ (∀ key, ¬ (releaseP name v <+: key) →
        vis (exec Impl.repaired fs (.publish dp name v pkg)).fs key = vis fs key) := by
  cases hg : publishGuard Impl.repaired fs dp name v with
  | some e => simp [exec, hg] at h
  | none =>
    obtain ⟨hdp, hmono⟩ := publishGuard_none fs dp name v hg
    have hex : exec Impl.repaired fs (.publish dp name v pkg)
        = runCalls fs [fun f => pushOps Impl.repaired f name v pkg] := by simp [exec, hg]
    rw [hex] at h ⊢
    have hfull := runCalls_full _ fs h
    have wx := hfull.crashTree.wf gd.wf
    generalize (runCalls fs [fun f => pushOps Impl.repaired f name v pkg]).fs = x at hfull wx ⊢
    cases hfull with
    | call _ _ _ fs' _ hr hrest =>
      cases hrest
      have hpf := push_full_frame true fs x name v pkg hr
      obtain ⟨hrel, hpkg⟩ := push_content true fs x name v pkg hr
      have hproj : get x (projectP name) = some .dir := by
        have := wx.parent_dir (releaseP name v) .dir hrel (by simp [releaseP])
        simpa [parent, releaseP, projectP] using this
      have hsome : (get x (packageP name v)).isSome = true := by
        cases pkg with
        | file b => simp only at hpkg; simp [hpkg]
        | dir ms => simp only at hpkg; simp [hpkg]
      have hrl : relListed x name v = true := by simp [relListed, isDir, hproj, hrel, hsome]
      refine ⟨hdp, hmono, hrl, ?_, ?_, vis_frame_pub x fs name v gd.wf hpf⟩
      rotate_left
      · intro ms hms hnd m hm
        subst hms
        have := push_members true fs x name v ms hr hnd m hm
        simp only [vis, packageP, List.cons_append, List.nil_append, hrl, if_true]
        simpa [packageP] using this
      cases pkg with
      | file b => simp only at hpkg; simp [Pkg.placedAs, vis, packageP, hrl]; simpa [packageP] using hpkg
      | dir ms => simp only at hpkg; simp [Pkg.placedAs, vis, packageP, hrl]; simpa [packageP] using hpkg

/-! ### histories -/

theorem play_append (impl : Impl) (fs : Fs) (evs evs' : List Ev) :
    play impl fs (evs ++ evs') = play impl (play impl fs evs) evs' := by
  induction evs generalizing fs with
  | nil => rfl
  | cons e r ih => simp only [List.cons_append, play]; exact ih _

/-- whatever an event does — a step run to its end, raising, killed, or hit by a transient I/O fault — the tree it
leaves is good and shows the previous content or the complete result of a successful step -/
theorem apply_left (fs : Fs) (gd : Good fs) (ev : Ev) :
    ∃ s, Good (apply Impl.repaired fs ev) ∧ (ViewEq (apply Impl.repaired fs ev) fs
      ∨ ((exec Impl.repaired fs s).err = none ∧ apply Impl.repaired fs ev = (exec Impl.repaired fs s).fs)) := by
  cases ev with
  | step s => exact ⟨s, step_left fs gd s _ (Or.inl rfl)⟩
  | crash s k cut => exact ⟨s, step_left fs gd s _ (Or.inr ⟨k, cut, rfl⟩)⟩
  | fault s j => exact ⟨s, fault_left fs gd s j⟩

/-- every tree a history — with process deaths and transient I/O faults — leaves is well formed, healthy and gap-free -/
theorem history_good (evs : List Ev) : Good (play Impl.repaired Fs.empty evs) := by
  suffices h : ∀ fs, Good fs → Good (play Impl.repaired fs evs) from h _ empty_good
  induction evs with
  | nil => intro fs gd; exact gd
  | cons e r ih =>
    intro fs gd
    obtain ⟨s, hs⟩ := apply_left fs gd e
    exact ih _ hs.1

theorem vis_unlisted_rel (fs : Fs) (p v : Nat) (h : relListed fs p v = false) :
    ∀ key, releaseP p v <+: key → vis fs key = none := by
  intro key hkey
  unfold vis
  split
  · rename_i p' v'
    simp [releaseP] at hkey; obtain ⟨rfl, rfl⟩ := hkey; simp [h]
  · rename_i p' v' i
    simp [releaseP] at hkey; obtain ⟨rfl, rfl⟩ := hkey; simp [h]
  · rename_i p' v' g'
    simp [releaseP] at hkey; obtain ⟨rfl, rfl⟩ := hkey; simp [genListed, h]
  · rename_i p' v' g' s
    simp [releaseP] at hkey; obtain ⟨rfl, rfl⟩ := hkey; simp [genListed, h]
  · rfl

/-- one more event never changes or removes anything a reader could see -/
theorem apply_append_only (fs : Fs) (gd : Good fs) (ev : Ev) (key : Path) (n : Node)
    (hvis : vis fs key = some n) : vis (apply Impl.repaired fs ev) key = some n := by
  obtain ⟨s, hs⟩ := apply_left fs gd ev
  rcases hs.2 with hv | ⟨he, hx⟩
  · rw [hv key]; exact hvis
  · rw [hx]
    cases s with
    | train p v ord sts =>
      obtain ⟨_, _, _, _, _, hframe⟩ := train_ok fs gd p v ord sts he
      have ht0 : get fs (tagP p v (nextGen fs p v)) = none :=
        tag_absent_of_invalid fs p v _ gd.wf (genValid_nextGen fs p v) (nextGen_pos fs p v)
      have hkey : ¬ generationP p v (nextGen fs p v) <+: key := by
        intro hk; rw [vis_hidden_gen fs p v _ ht0 key hk] at hvis; cases hvis
      rw [hframe key hkey]; exact hvis
    | publish dp name v pkg =>
      obtain ⟨_, hmono, _, _, _, hframe⟩ := publish_ok fs gd dp name v pkg he
      have hnl : relListed fs name v = false := by
        cases hl : relListed fs name v with
        | false => rfl
        | true => have := hmono v ((mem_releasesOf fs name v).mpr hl); omega
      have hkey : ¬ releaseP name v <+: key := by
        intro hk; rw [vis_unlisted_rel fs name v hnl key hk] at hvis; cases hvis
      rw [hframe key hkey]; exact hvis

end ForML.Registry
