/-
C10 — a result cache in front of the reader is invisible to a sequence of windows over unchanged
storage *iff* its key tells statements with different bound values apart.

`C10_cache_transparent`: for every key function that is injective on the window predicates, every
cache whose entries are consistent with the storage (in particular the empty one) and every history
of launches, each launch through the cache delivers what the launch that reads the storage
delivers, and the cache stays consistent.  `_statement2key` renders the literals, i.e. it is the
injective `keyLiteral` (that sha256 and the SQL rendering are injective on the statements of one
table is C06's subject).  `C10_cache_shape_key_counterexample`: a key that sees the parameters by
name only is refuted — the second of two same-shaped windows gets the first window's rows.
-/
import ForML.Props.C10
import ForML.Model.OrdinalCache

set_option linter.unusedSectionVars false

namespace ForML.Ordinal

section
variable {α κ : Type} [LE α] [LT α] [DecidableLE α] [DecidableLT α] [DecidableEq α] [DecidableEq κ]

/-- every entry of the cache holds what its statement denotes over the (unchanged) storage -/
def CacheSound (key : List (Term α) → κ) (cache : Cache κ) (data : List α) : Prop :=
  ∀ k rows, cacheGet cache k = some rows → ∀ ts, key ts = k → rows = deliverIdx ts data

theorem C10_cache_empty_sound (key : List (Term α) → κ) (data : List α) :
    CacheSound key ([] : Cache κ) data := by
  intro k rows h; simp [cacheGet] at h

private theorem getOrExec_sound (key : List (Term α) → κ) (hinj : ∀ a b, key a = key b → a = b)
    (cache : Cache κ) (data : List α) (hs : CacheSound key cache data) (ts : List (Term α)) :
    (getOrExec key cache ts data).1 = deliverIdx ts data ∧
    CacheSound key (getOrExec key cache ts data).2 data := by
  unfold getOrExec
  cases hg : cacheGet cache (key ts) with
  | some rows => exact ⟨hs _ _ hg ts rfl, hs⟩
  | none =>
    refine ⟨rfl, ?_⟩
    intro k rows h ts' hk
    simp only [cacheGet] at h
    by_cases hkk : key ts = k
    · simp only [hkk, if_true, Option.some.injEq] at h
      have : ts' = ts := hinj _ _ (hk.trans hkk.symm)
      rw [this, ← h]
    · simp only [hkk, if_false] at h
      exact hs k rows h ts' hk

private theorem launchCached_sound (key : List (Term α) → κ) (hinj : ∀ a b, key a = key b → a = b)
    (cache : Cache κ) (data : List α) (hs : CacheSound key cache data) (ord : Option (Kind × Once))
    (lo hi : Option (Raw α)) :
    (launchCached key cache ord lo hi data).1 = launch ord lo hi data ∧
    CacheSound key (launchCached key cache ord lo hi data).2 data := by
  unfold launchCached launch
  cases hp : prepared ord lo hi with
  | error e => exact ⟨rfl, hs⟩
  | ok ts =>
    have := getOrExec_sound key hinj cache data hs ts
    exact ⟨by simp [Except.map, this.1], this.2⟩

/-- **C10_cache_transparent**: with a key that is injective on the window predicates a history of
launches through one consistent cache delivers, launch by launch, exactly what the launches that
read the storage deliver (refusals included), and leaves a consistent cache behind. -/
theorem C10_cache_transparent (key : List (Term α) → κ) (hinj : ∀ a b, key a = key b → a = b)
    (ord : Option (Kind × Once)) (wins : List (Option (Raw α) × Option (Raw α))) (data : List α)
    (cache : Cache κ) (hs : CacheSound key cache data) :
    (runWindowsCached key cache ord wins data).1 = runWindows ord wins data ∧
    CacheSound key (runWindowsCached key cache ord wins data).2 data := by
  induction wins generalizing cache with
  | nil => exact ⟨rfl, hs⟩
  | cons w r ih =>
    have h1 := launchCached_sound key hinj cache data hs ord w.1 w.2
    have h2 := ih _ h1.2
    refine ⟨?_, h2.2⟩
    simp only [runWindowsCached, runWindows, List.map_cons, h1.1]
    have := h2.1
    simp only [runWindows] at this
    rw [this]

/-- the key of the code that exists (statement rendered *with* its literals) is injective -/
theorem C10_key_literal_injective (a b : List (Term α)) (h : keyLiteral a = keyLiteral b) : a = b := h

/-- hence the alchemy feed's cache, starting empty, does not change any window of any history -/
theorem C10_cache_literal (ord : Option (Kind × Once)) (wins : List (Option (Raw α) × Option (Raw α)))
    (data : List α) :
    (runWindowsCached keyLiteral [] ord wins data).1 = runWindows ord wins data :=
  (C10_cache_transparent keyLiteral C10_key_literal_injective ord wins data []
    (C10_cache_empty_sound keyLiteral data)).1

/-- the whole path: a source read through the caching feed = the same source read directly -/
theorem C10_source_cached (kindOf : Nat → Kind) (ordinal : Option Nat) (a : OnceArg) (n : Nat)
    (wins : List (Option (Raw α) × Option (Raw α))) (data : List α) :
    sourceWindowsCached kindOf ordinal a n wins data = sourceWindows kindOf ordinal a n wins data := by
  unfold sourceWindowsCached sourceWindows
  simp only [C10_cache_literal]
  rfl

/-- a history that `launches` accepts is, window by window, what `runWindows` returns -/
theorem C10_runWindows_launches (ord : Option (Kind × Once))
    (wins : List (Option (Raw α) × Option (Raw α))) (data : List α) (ls : List (List Nat))
    (h : launches ord wins data = .ok ls) : runWindows ord wins data = ls.map .ok := by
  induction wins generalizing ls with
  | nil => simp [launches] at h; subst h; rfl
  | cons w r ih =>
    simp only [launches] at h
    cases hl : launch ord w.1 w.2 data with
    | error e => simp [hl] at h
    | ok l =>
      cases hr : launches ord r data with
      | error e => simp [hl, hr] at h
      | ok ls' =>
        simp only [hl, hr, Except.ok.injEq] at h
        subst h
        simp [runWindows, hl] at *
        have := ih ls' hr
        simpa [runWindows] using this

/-- **C10_cached_history**: every history of launches with castable bounds, read through one
consistent cache with an injective key, delivers the very lists `ls` that `C10_history` /
`C10_records` / `C10_incremental_training` speak about — so each record's delivery count over the
whole window sequence obeys the semantic also behind the cache. -/
theorem C10_cached_history (key : List (Term α) → κ) (hinj : ∀ a b, key a = key b → a = b)
    (sem : Once) (k : Kind) (wins : List (Option (Raw α) × Option (Raw α)))
    (hc : ∀ w ∈ wins, Castable k w.1 ∧ Castable k w.2) (data : List α)
    (cache : Cache κ) (hs : CacheSound key cache data) :
    ∃ ls, launches (some (k, sem)) wins data = .ok ls ∧
      (runWindowsCached key cache (some (k, sem)) wins data).1 = ls.map .ok ∧
      (∀ i (h : i < data.length), timesDelivered ls i
        = hits sem (wins.map (fun w => (w.1.map (·.pt), w.2.map (·.pt)))) data[i]) := by
  obtain ⟨ls, hls, _, hin, _⟩ := C10_history sem k wins hc data
  refine ⟨ls, hls, ?_, hin⟩
  rw [(C10_cache_transparent key hinj _ wins data cache hs).1]
  exact C10_runWindows_launches _ wins data ls hls

end

/-- a key that ignores the bound values (`param_1`, `param_2` by name) is **not** transparent:
exactly-once windows `[1,4)` and `[4,7)` over the ordinals `0..9` — the second launch is answered
with the rows of the first, records 1..3 are delivered twice and 4..6 never -/
theorem C10_cache_shape_key_counterexample :
    ¬ (∀ (ord : Option (Kind × Once)) (wins : List (Option (Raw Int) × Option (Raw Int))) (data : List Int),
        (runWindowsCached keyShape [] ord wins data).1 = runWindows ord wins data) := by
  intro h
  have := h (some (.integer, .exactly))
    [(some ⟨.int, 1, true⟩, some ⟨.int, 4, true⟩), (some ⟨.int, 4, true⟩, some ⟨.int, 7, true⟩)]
    [0, 1, 2, 3, 4, 5, 6, 7, 8, 9]
  revert this
  decide

/-- what such a key still guarantees: the *first* window of every shape is right (which is why a
single `lower`/`upper` example cannot see the defect) -/
theorem C10_cache_shape_key_first_window (ord : Option (Kind × Once)) (lo hi : Option (Raw Int))
    (data : List Int) :
    (runWindowsCached keyShape [] ord [(lo, hi)] data).1 = runWindows ord [(lo, hi)] data := by
  simp only [runWindowsCached, runWindows, launchCached, launch, List.map_cons, List.map_nil]
  cases prepared ord lo hi with
  | error e => rfl
  | ok ts => simp [getOrExec, cacheGet, Except.map]

/-! ### non-vacuity (tests) -/

example : (runWindowsCached keyLiteral [] (some (.integer, .exactly))
    [(some ⟨.int, (1 : Int), true⟩, some ⟨.int, 4, true⟩), (some ⟨.int, 4, true⟩, some ⟨.int, 7, true⟩),
     (some ⟨.int, 1, true⟩, some ⟨.int, 4, true⟩)] [0, 1, 2, 3, 4, 5, 6, 7, 8, 9]).1
    = [.ok [1, 2, 3], .ok [4, 5, 6], .ok [1, 2, 3]] := by decide
example : (runWindowsCached keyShape [] (some (.integer, .exactly))
    [(some ⟨.int, (1 : Int), true⟩, some ⟨.int, 4, true⟩), (some ⟨.int, 4, true⟩, some ⟨.int, 7, true⟩)]
    [0, 1, 2, 3, 4, 5, 6, 7, 8, 9]).1 = [.ok [1, 2, 3], .ok [1, 2, 3]] := by decide
example : (runWindowsCached keyLiteral [] (none : Option (Kind × Once))
    [(some ⟨.int, (0 : Int), false⟩, none), (none, none)] [5, 6]).1 = [.error .unexpectedError, .ok [0, 1]] := by decide

end ForML.Ordinal
