/-
C03 — helper lemmas, part 3: what it means for a construction to *realise* a scope semantics.

`Spec m S`: from every certified graph, for every choice of the three input values (and of a rank for the new
holes), the action `m` succeeds with a trunk whose three heads are fresh live holes carrying those values and
whose three tails are live and carry `S` of the inputs; the trainings it records are exactly `(S …).states`;
nothing older is touched (`Frame`, `Agree`).  The action may be run any number of times (a scope-wrapping
operator expands its left side once per fold): `Spec` quantifies over the start graph.
-/
import ForML.Lemmas.C03Reach

namespace ForML.Compose

/-- the `(actor tag, state)` a recorded training produces under a valuation -/
def trainedUnder (W : World) (t : Training) : Nat × Val :=
  (t.actor.tag, .state t.actor.tag .none (W.σ t.train) (W.σ t.label))

structure HeadOk (g0 g' : Graph) (W' : World) (h : Nat) (x : Val) (r : Nat) : Prop where
  ge : g0.next ≤ h
  isOpen : g'.isOpen h
  /-- no input port of the hole is subscribed -/
  free : ∀ k, g'.inputOf h k = none
  live : W'.live h
  rank : W'.h h = r
  val : ∀ i, W'.σ ⟨h, i⟩ = x

structure TrunkOk (full : Prop) (g g' : Graph) (W W' : World) (t : Trunk) (xa xt xl : Val) (r : Nat) (s : Sem) : Prop where
  inv : Inv g' W'
  frame : Frame g g'
  agree : Agree g.next W W'
  ha : HeadOk g g' W' t.apply.head xa r
  ht : HeadOk g g' W' t.train.head xt r
  hl : HeadOk g g' W' t.label.head xl r
  distinct : t.apply.head ≠ t.train.head ∧ t.apply.head ≠ t.label.head ∧ t.train.head ≠ t.label.head
  opens : ∀ n, g.next ≤ n → W'.live n → g'.isOpen n → n = t.apply.head ∨ n = t.train.head ∨ n = t.label.head
  ta : W'.live t.apply.tail ∧ W'.σ ⟨t.apply.tail, 0⟩ = s.apply
  tt : W'.live t.train.tail ∧ W'.σ ⟨t.train.tail, 0⟩ = s.train
  tl : W'.live t.label.tail ∧ W'.σ ⟨t.label.tail, 0⟩ = s.label
  trains : ∃ ts, g'.trains = g.trains ++ ts ∧ (∀ t ∈ ts, W'.live t.train.node ∧ W'.live t.label.node) ∧
    ts.map (trainedUnder W') = s.states
  /-- every worker this expansion made evaluable belongs to a group this expansion created -/
  fresh : ∀ n, g.next ≤ n → W'.live n → ∀ gid a i o, g'.kindOf n = some (.worker gid a i o) → g.next ≤ gid
  wired : Wired g'
  tails_ge : g.next ≤ t.apply.tail ∧ g.next ≤ t.train.tail ∧ g.next ≤ t.label.tail
  /-- ranks are relative to the rank `r` chosen for the heads: at most one level per id drawn -/
  rank : ∀ n, g.next ≤ n → W'.live n → W'.h n < r + (g'.next - g.next)
  /-- the apply region: whatever is reachable from the apply head is evaluable and fed from the apply region only -/
  reg : full → ∀ n, Reach g' t.apply.head n → n ≠ t.apply.head →
    W'.live n ∧ ∀ k q, g'.inputOf n k = some q → Reach g' t.apply.head q.node
  regTail : full → Reach g' t.apply.head t.apply.tail
  /-- the train and label paths are not fed from the apply path -/
  sep : full → ¬ Reach g' t.apply.head t.train.tail ∧ ¬ Reach g' t.apply.head t.label.tail
  /-- what this expansion built subscribes only to what this expansion built (the heads are bound by the caller) -/
  closed : full → ∀ s k q, g.next ≤ s → g'.inputOf s k = some q → g.next ≤ q.node

/-- `full`: whether the region certificate (`reg`, `regTail`, `sep`, `closed`: what `Segment.copy` needs) is provided;
the stacking ensemble consumes it from its scope and base models and does not re-establish it for its own trunk -/
def Spec (full : Prop) (m : GraphM Trunk) (S : Scope) : Prop :=
  ∀ (g : Graph) (W : World) (xa xt xl : Val) (r : Nat), Inv g W → Wired g → r ≤ g.next →
    ∃ t g' W', Run m g t g' ∧ TrunkOk full g g' W W' t xa xt xl r (S xa xt xl)

theorem TrunkOk.weaken {full full' : Prop} (hff : full' → full) {g g' W W' t xa xt xl r s}
    (h : TrunkOk full g g' W W' t xa xt xl r s) : TrunkOk full' g g' W W' t xa xt xl r s :=
  ⟨h.inv, h.frame, h.agree, h.ha, h.ht, h.hl, h.distinct, h.opens, h.ta, h.tt, h.tl, h.trains, h.fresh, h.wired, h.tails_ge,
    h.rank, fun hf => h.reg (hff hf), fun hf => h.regTail (hff hf), fun hf => h.sep (hff hf), fun hf => h.closed (hff hf)⟩

theorem Spec.weaken {full full' : Prop} (hff : full' → full) {m : GraphM Trunk} {S : Scope} (h : Spec full m S) :
    Spec full' m S := by
  intro g W xa xt xl r hi hw hr
  obtain ⟨t, g', W', hrun, hok⟩ := h g W xa xt xl r hi hw hr
  exact ⟨t, g', W', hrun, hok.weaken hff⟩

/-- inputs recorded in `g` are inputs in any frame extension of `g` -/
theorem Frame.input_mono {g g' : Graph} (hf : Frame g g') (hb : Bounded g) :
    ∀ s k q, g.inputOf s k = some q → g'.inputOf s k = some q := by
  intro s k q h
  by_cases hs : s < g.next
  · rw [hf.input s k hs]; exact h
  · rw [hb.inputOf_none (by omega) k] at h; cases h

/-! ### more preservation lemmas -/

/-- subscribing a node that is not live does not disturb the live ones -/
theorem Inv.pushEdge_notLive {g W} (hi : Inv g W) (e : Edge) (hnl : ¬ W.live e.sub) (hlt : e.sub < g.next) :
    Inv (g.pushEdge e) W := by
  have hb : Bounded (g.pushEdge e) := hi.bounded.pushEdge _ hlt
  refine ⟨hb.nodesLt, hb.gidsLt, hb.edgesLt, hb.trainsLt, ?_, ?_⟩
  · intro n hn; simpa using hi.liveLt n hn
  · intro n hn
    have hg0 := hi.good n hn
    have hne : e.sub ≠ n := fun h => hnl (h ▸ hn)
    have hin : ∀ k, (g.pushEdge e).inputOf n k = g.inputOf n k := by
      intro k
      rw [inputOf_pushEdge]
      have : ¬ (e.sub = n ∧ e.port = k) := fun h => hne h.1
      simp [this]
    unfold GoodNode at hg0 ⊢
    simp only [kindOf_pushEdge, trainerOf_pushEdge, GoodState, StateFor, hin] at hg0 ⊢
    exact hg0

theorem StateFor.set {g W gid a r st} (h : StateFor g W gid a r st) (u v r') (hu : ¬ W.live u) :
    StateFor g (W.set u v r') gid a r st := by
  have hq : ∀ q : PubRef, W.live q.node → q.node ≠ u := fun q hq h => hu (h ▸ hq)
  have href : ∀ q : PubRef, RefOk W q r → RefOk (W.set u v r') q r := by
    intro q h
    exact ⟨Or.inr h.1, by rw [set_h_other _ _ _ _ _ (hq q h.1)]; exact h.2⟩
  unfold StateFor at h ⊢
  by_cases hsf : a.stateful = true
  · simp only [hsf, if_true] at h ⊢
    cases ht : g.trainerOf gid with
    | none => simp only [ht] at h ⊢; exact h
    | some t =>
      simp only [ht] at h ⊢
      obtain ⟨h1, h2, h3⟩ := h
      refine ⟨href _ h1, href _ h2, ?_⟩
      rw [set_σ_other _ _ _ _ _ (hq _ h1.1), set_σ_other _ _ _ _ _ (hq _ h2.1)]
      exact h3
  · simp only [hsf] at h ⊢
    exact h

/-- a complete worker (all inputs subscribed to live publishers of smaller rank) becomes live -/
theorem Inv.liveWorker {g W} (hi : Inv g W) (u gid : Nat) (a : Actor) (szin szout : Nat) (ins : Nat → PubRef) (r : Nat)
    (st : Val) (hk : g.kindOf u = some (.worker gid a szin szout)) (hnl : ¬ W.live u) (hr : r < g.next)
    (hins : ∀ k, k < szin → g.inputOf u k = some (ins k) ∧ RefOk W (ins k) r)
    (hst : StateFor g W gid a r st) :
    Inv g (W.set u (fun i => portVal szout i (.apply a.tag st ((List.range szin).map (fun k => W.σ (ins k))))) r) := by
  have hq : ∀ q : PubRef, W.live q.node → q.node ≠ u := fun q hq h => hnl (h ▸ hq)
  apply Inv.setLive hi u _ r hnl (hi.bounded.uid_lt hk) hr
  unfold GoodNode
  simp only [hk]
  refine ⟨ins, ?_, st, ?_, ?_⟩
  · intro k hk'
    obtain ⟨h1, h2⟩ := hins k hk'
    refine ⟨h1, Or.inr h2.1, ?_⟩
    rw [set_h_self, set_h_other _ _ _ _ _ (hq _ h2.1)]
    exact h2.2
  · unfold GoodState
    rw [set_h_self]
    exact hst.set _ _ _ hnl
  · intro i
    rw [set_σ_self]
    congr 2
    apply List.map_congr_left
    intro k hk'
    have := (hins k (List.mem_range.mp hk')).2
    rw [set_σ_other _ _ _ _ _ (hq _ this.1)]

/-- a fresh unbound `Future` becomes a live hole carrying any chosen value -/
theorem Inv.liveHole {g W} (hi : Inv g W) (u : Nat) (x : Val) (r : Nat) (ho : g.isOpen u) (hnl : ¬ W.live u)
    (hr : r < g.next) : Inv g (W.set u (fun _ => x) r) := by
  apply Inv.setLive hi u _ r hnl (hi.bounded.uid_lt ho.1) hr
  unfold GoodNode
  simp only [ho.1, ho.2]

/-- a complete 1:1 worker becomes live -/
theorem Inv.liveUnary {g W} (hi : Inv g W) (u gid : Nat) (a : Actor) (q : PubRef) (r : Nat) (st : Val)
    (hk : g.kindOf u = some (.worker gid a 1 1)) (hnl : ¬ W.live u) (hr : r < g.next)
    (hin : g.inputOf u 0 = some q) (hq : RefOk W q r) (hst : StateFor g W gid a r st) :
    Inv g (W.set u (fun _ => .apply a.tag st [W.σ q]) r) := by
  have := hi.liveWorker u gid a 1 1 (fun _ => q) r st hk hnl hr
    (by intro k hk'; have : k = 0 := by omega
        subst this; exact ⟨hin, hq⟩) hst
  have he : (fun i => portVal 1 i (.apply a.tag st ((List.range 1).map (fun _ => W.σ q)))) =
      (fun _ : Nat => Val.apply a.tag st [W.σ q]) := by
    funext i; simp [portVal]
  rw [he] at this
  exact this

theorem StateFor.stateless {g W gid a r} (h : a.stateful = false) : StateFor g W gid a r .none := by
  unfold StateFor; simp [h]

theorem StateFor.untrained {g W gid a r} (h : g.trainerOf gid = none) : StateFor g W gid a r .none := by
  unfold StateFor
  by_cases hsf : a.stateful = true
  · simp [hsf, h]
  · simp [hsf]

theorem StateFor.trained {g W gid a r} {t : Training} (h : g.trainerOf gid = some t) (hsf : a.stateful = true)
    (h1 : RefOk W t.train r) (h2 : RefOk W t.label r) :
    StateFor g W gid a r (.state a.tag .none (W.σ t.train) (W.σ t.label)) := by
  unfold StateFor
  simp only [hsf, if_true, h]
  exact ⟨h1, h2, trivial⟩

/-! ### an optional trainer: `if … then worker.fork().train(train, label)` -/

/-- the graph after `if c then (fork w).train lt ll` -/
def trainIf (c : Bool) (w : WRef) (lt ll : PubRef) (g : Graph) : Graph :=
  if c then (g.bump.pushNode ⟨g.next, .worker w.gid w.actor w.szin w.szout⟩).pushTrain ⟨w.gid, g.next, w.actor, lt, ll⟩
  else g

theorem trainIf_next (c w lt ll g) : (trainIf c w lt ll g).next = g.next + (if c then 1 else 0) := by
  cases c <;> simp [trainIf]

theorem trainIf_next_ge (c w lt ll g) : g.next ≤ (trainIf c w lt ll g).next := by
  rw [trainIf_next]; omega

theorem trainIf_bounded {c w lt ll g} (hb : Bounded g) (hg : w.gid < g.next) : Bounded (trainIf c w lt ll g) := by
  cases c
  · exact hb
  · simp only [trainIf, if_true]
    refine (hb.bump.pushNode _ (by simp) ?_).pushTrain _ (by simp; omega)
    intro _ _ _ _ h; cases h; simp; omega

theorem trainIf_wired {c w lt ll g} (hw : Wired g) : Wired (trainIf c w lt ll g) := by
  cases c
  · exact hw
  · simp only [trainIf, if_true]
    exact (hw.bump.pushNode _).pushTrain _

theorem trainIf_frame {c w lt ll g0 g} (hf : Frame g0 g) (hg : g0.next ≤ w.gid) : Frame g0 (trainIf c w lt ll g) := by
  cases c
  · exact hf
  · simp only [trainIf, if_true]
    exact (hf.bump.pushNode _ hf.next_le).pushTrain _ hg

theorem trainIf_kindOf {c w lt ll g} (u : Nat) (hu : u ≠ g.next) :
    (trainIf c w lt ll g).kindOf u = g.kindOf u := by
  cases c
  · rfl
  · simp only [trainIf, if_true, kindOf_pushTrain, kindOf_pushNode, kindOf_bump]
    have : ¬ g.next = u := fun h => hu h.symm
    simp [this]

theorem trainIf_inputOf (c w lt ll g) (u k : Nat) : (trainIf c w lt ll g).inputOf u k = g.inputOf u k := by
  cases c <;> simp [trainIf]

theorem trainIf_trainerOf (c w lt ll g) (gid : Nat) :
    (trainIf c w lt ll g).trainerOf gid =
      (g.trainerOf gid).or (if c = true ∧ w.gid = gid then some ⟨w.gid, g.next, w.actor, lt, ll⟩ else none) := by
  cases c
  · simp [trainIf]
  · simp [trainIf, trainerOf_pushTrain]

theorem trainIf_trains (c w lt ll g) :
    (trainIf c w lt ll g).trains = g.trains ++ (if c then [⟨w.gid, g.next, w.actor, lt, ll⟩] else []) := by
  cases c <;> simp [trainIf]

theorem run_trainIf {β} (c : Bool) (w : WRef) (lt ll : PubRef) (g : Graph) (k : Unit → GraphM β) (b : β) (g'' : Graph)
    (hst : c = true → w.actor.stateful = true) (htr : c = true → g.trainerOf w.gid = none)
    (hk : Run (k ()) (trainIf c w lt ll g) b g'') :
    Run (if c = true then do let t ← fork w; let r ← train t lt ll; k r else k ()) g b g'' := by
  cases c
  · simpa [trainIf] using hk
  · simp only [if_true]
    refine Run.bind (run_fork w g) (Run.bind (run_train _ lt ll _ (hst rfl) ?_) ?_)
    · simpa using htr rfl
    · simpa [trainIf] using hk

/-! ### `Origin.expand() = Trunk()` -/

theorem run_trunk_new (g : Graph) :
    Run Trunk.new g ⟨.ofNode g.next, .ofNode (g.next + 1), .ofNode (g.next + 2)⟩
      (((g.bump.pushNode ⟨g.next, .future⟩).bump.pushNode ⟨g.next + 1, .future⟩).bump.pushNode ⟨g.next + 2, .future⟩) := rfl

theorem spec_new {full : Prop} : Spec full Trunk.new Scope.origin := by
  intro g W xa xt xl r hi hw hr
  let g1 := g.bump.pushNode ⟨g.next, .future⟩
  let g2 := g1.bump.pushNode ⟨g.next + 1, .future⟩
  let g3 := g2.bump.pushNode ⟨g.next + 2, .future⟩
  have hb0 := hi.bounded
  have hb1 : Bounded g1 := hb0.bump.pushNode _ (by simp) (by intro _ _ _ _ h; cases h)
  have hb2 : Bounded g2 := hb1.bump.pushNode _ (by simp [g1]) (by intro _ _ _ _ h; cases h)
  have hb3 : Bounded g3 := hb2.bump.pushNode _ (by simp [g2, g1]) (by intro _ _ _ _ h; cases h)
  have hf1 : Frame g g1 := (Frame.refl g).bump.pushNode _ (by simp)
  have hf2 : Frame g g2 := hf1.bump.pushNode _ (by simp)
  have hf3 : Frame g g3 := hf2.bump.pushNode _ (by simp)
  have hn3 : g3.next = g.next + 3 := by simp [g3, g2, g1]
  have hk0 : ∀ u, g.next ≤ u → g.kindOf u = none := fun u hu => hb0.kindOf_none hu
  have hin3 : ∀ u k, g.next ≤ u → g3.inputOf u k = none := by
    intro u k hu
    simp [g3, g2, g1, hb0.inputOf_none hu]
  have hka : g3.kindOf g.next = some .future := by
    simp [g3, g2, g1, kindOf_pushNode, hk0]
  have hkt : g3.kindOf (g.next + 1) = some .future := by
    simp [g3, g2, g1, kindOf_pushNode, hk0]
  have hkl : g3.kindOf (g.next + 2) = some .future := by
    simp [g3, g2, g1, kindOf_pushNode, hk0]
  have hnl : ∀ u, g.next ≤ u → ¬ W.live u := fun u hu h => by have := (hi.liveLt u h).1; omega
  have hi3 : Inv g3 W := hi.ofFrame hf3 hb3
  let W1 := W.set g.next (fun _ => xa) r
  have hi4 : Inv g3 W1 := hi3.liveHole _ xa r ⟨hka, hin3 _ _ (by omega)⟩ (hnl _ (by omega)) (by omega)
  let W2 := W1.set (g.next + 1) (fun _ => xt) r
  have hi5 : Inv g3 W2 := hi4.liveHole _ xt r ⟨hkt, hin3 _ _ (by omega)⟩
    (by intro h; rcases h with h | h; · omega
        · exact hnl _ (by omega) h) (by omega)
  let W3 := W2.set (g.next + 2) (fun _ => xl) r
  have hi6 : Inv g3 W3 := hi5.liveHole _ xl r ⟨hkl, hin3 _ _ (by omega)⟩
    (by intro h; rcases h with h | h | h
        · omega
        · omega
        · exact hnl _ (by omega) h) (by omega)
  have hag : Agree g.next W W3 :=
    (((Agree.refl _ W).set _ _ _ (Nat.le_refl _)).set _ _ _ (by omega)).set _ _ _ (by omega)
  refine ⟨_, g3, W3, run_trunk_new g, ?_⟩
  refine ⟨hi6, hf3, hag, ?_, ?_, ?_, ?_, ?_, ?_, ?_, ?_, ?_, ?_, ?_, ?_, ?_, ?_, ?_, ?_, ?_⟩
  · refine ⟨Nat.le_refl _, ⟨hka, hin3 _ _ (Nat.le_refl _)⟩, fun k => hin3 _ k (Nat.le_refl _), ?_, ?_, ?_⟩
    · show W3.live g.next
      simp [W3, W2, W1]
    · show W3.h g.next = r
      simp [W3, W2, W1, World.set]
    · intro i
      show W3.σ ⟨g.next, i⟩ = xa
      simp [W3, W2, W1, World.set]
  · refine ⟨by simp [Segment.ofNode], ⟨hkt, hin3 _ _ (by simp [Segment.ofNode])⟩,
      fun k => hin3 _ k (by simp [Segment.ofNode]), ?_, ?_, ?_⟩
    · show W3.live (g.next + 1)
      simp [W3, W2, W1]
    · show W3.h (g.next + 1) = r
      simp [W3, W2, W1, World.set]
    · intro i
      show W3.σ ⟨g.next + 1, i⟩ = xt
      simp [W3, W2, W1, World.set]
  · refine ⟨by simp [Segment.ofNode], ⟨hkl, hin3 _ _ (by simp [Segment.ofNode])⟩,
      fun k => hin3 _ k (by simp [Segment.ofNode]), ?_, ?_, ?_⟩
    · show W3.live (g.next + 2)
      simp [W3, W2, W1]
    · show W3.h (g.next + 2) = r
      simp [W3, W2, W1, World.set]
    · intro i
      show W3.σ ⟨g.next + 2, i⟩ = xl
      simp [W3, W2, W1, World.set]
  · simp [Segment.ofNode]
  · intro n hn hl _
    have : n = g.next + 2 ∨ n = g.next + 1 ∨ n = g.next ∨ W.live n := hl
    simp only [Segment.ofNode]
    rcases this with h | h | h | h
    · exact Or.inr (Or.inr h)
    · exact Or.inr (Or.inl h)
    · exact Or.inl h
    · exact absurd h (hnl n hn)
  · refine ⟨?_, ?_⟩
    · show W3.live g.next
      simp [W3, W2, W1]
    · show W3.σ ⟨g.next, 0⟩ = xa
      simp [W3, W2, W1, World.set]
  · refine ⟨?_, ?_⟩
    · show W3.live (g.next + 1)
      simp [W3, W2, W1]
    · show W3.σ ⟨g.next + 1, 0⟩ = xt
      simp [W3, W2, W1, World.set]
  · refine ⟨?_, ?_⟩
    · show W3.live (g.next + 2)
      simp [W3, W2, W1]
    · show W3.σ ⟨g.next + 2, 0⟩ = xl
      simp [W3, W2, W1, World.set]
  · refine ⟨[], ?_, ?_, ?_⟩
    · simp [g3, g2, g1]
    · intro t ht; cases ht
    · rfl
  · intro n hn hl gid a i o hk
    have : n = g.next + 2 ∨ n = g.next + 1 ∨ n = g.next ∨ W.live n := hl
    rcases this with h | h | h | h
    · subst h; rw [hkl] at hk; cases hk
    · subst h; rw [hkt] at hk; cases hk
    · subst h; rw [hka] at hk; cases hk
    · exact absurd h (hnl n hn)
  · exact ((hw.bump.pushNode _).bump.pushNode _).bump.pushNode _
  · exact ⟨Nat.le_refl _, by simp [Segment.ofNode], by simp [Segment.ofNode]⟩
  · intro n hn hl
    have : n = g.next + 2 ∨ n = g.next + 1 ∨ n = g.next ∨ W.live n := hl
    have h3 : W3.h (g.next + 2) = r := by simp [W3, W2, W1, World.set]
    have h2 : W3.h (g.next + 1) = r := by simp [W3, W2, W1, World.set]
    have h1 : W3.h g.next = r := by simp [W3, W2, W1, World.set]
    rcases this with h | h | h | h
    · subst h; rw [h3, hn3]; omega
    · subst h; rw [h2, hn3]; omega
    · subst h; rw [h1, hn3]; omega
    · exact absurd h (hnl n hn)
  · -- nothing is subscribed yet: only the head itself is reachable
    intro _ n hre hne
    rcases hre.inv with h | ⟨k, q, hq, _⟩
    · exact absurd h hne
    · have hge : g.next ≤ n := Reach.new hf3 hw (Nat.le_refl _) hre
      rw [hin3 n k hge] at hq; cases hq
  · exact fun _ => Reach.refl
  · intro _
    have nope : ∀ n, n ≠ g.next → ¬ Reach g3 g.next n := by
      intro n hne hre
      rcases hre.inv with h | ⟨k, q, hq, _⟩
      · exact hne h
      · have hge : g.next ≤ n := Reach.new hf3 hw (Nat.le_refl _) hre
        rw [hin3 n k hge] at hq; cases hq
    exact ⟨nope _ (by simp [Segment.ofNode]), nope _ (by simp [Segment.ofNode])⟩
  · intro _ s k q hs hq
    rw [hin3 s k hs] at hq; cases hq

end ForML.Compose
