/-
C01 — the trainer cases of the index step, and the index invariant after the whole traversal.
-/
import ForML.Lemmas.C01IdxStep

namespace ForML.Flow
open CState Segment

theorem adel_map_eraseIdx {κ α β : Type} [DecidableEq κ] (k : κ) (f : κ × α → β) (l : List (κ × α)) :
    ∃ i, (adel k l).map f = (l.map f).eraseIdx i := by
  induction l with
  | nil => exact ⟨0, rfl⟩
  | cons y r ih =>
    obtain ⟨k', v'⟩ := y
    simp only [adel]
    split
    · exact ⟨0, rfl⟩
    · obtain ⟨i, hi⟩ := ih
      exact ⟨i + 1, by simp [hi]⟩

section
variable {g : Segment} {A : Option Assets} {rank : Uid → Nat} {vis : List Uid} {I : List (Key × Obj)} {c : Option Key}

/-- **trainer of a non-persistent group** -/
theorem idx_step_trainer_np (h : WF g rank) (inv : IdxInv g A vis (I, c)) {w : Worker} (hw : w ∈ g.workers)
    (hv : w.uid ∉ vis) (hT : g.isTrainer w = true) (hP : persistentW A w = false) :
    ∃ ic', idxRun (I, c) (prog g A w) = some ic' ∧ IdxInv g A (vis ++ [w.uid]) ic' := by
  have hu := fresh_uid inv hv
  have hwk := worker?_of_mem h.nodup hw
  have htr : g.trained w.uid = true := by simp only [isTrainer, Bool.and_eq_true] at hT; exact hT.2
  have huniq : ∀ t ∈ g.workers, t.gid = w.gid → g.isTrainer t = true → t = w :=
    fun t ht hg hTt => trainer_unique h ht hw hg hTt hT
  have hgid : aget (Key.gid w.gid) I = none := by
    cases hg : aget (Key.gid w.gid) I with
    | none => rfl
    | some o =>
      rcases inv.sound _ _ hg with ⟨t, ht, hgt, hTt, htv, _⟩ | ⟨_, ⟨w', hw', _, hg', hP'⟩, _⟩
      · have := huniq t ht hgt hTt; subst this; exact absurd htv hv
      · have := persistent_group h hw' hw hg' hP'
        rw [hP] at this; cases this
  refine ⟨_, idx_trainer_np hT hP hu hgid, ?_⟩
  have hsub : ∀ x ∈ I, x ∈ I := fun _ h => h
  have hget : ∀ k o, aget k (I ++ [(Key.uid w.uid, functorObj g A w), (Key.gid w.gid, functorObj g A w)]) = some o →
      aget k I = some o ∨ (k = Key.uid w.uid ∧ o = functorObj g A w) ∨ (k = Key.gid w.gid ∧ o = functorObj g A w) := by
    intro k o hko
    rw [aget_append] at hko
    cases h1 : aget k I with
    | some o1 => simp only [h1] at hko; exact Or.inl hko
    | none =>
      simp only [h1, aget_cons, aget_nil] at hko
      by_cases he1 : Key.uid w.uid = k
      · simp only [he1, if_true, Option.some.injEq] at hko
        exact Or.inr (Or.inl ⟨he1.symm, hko.symm⟩)
      · by_cases he2 : Key.gid w.gid = k
        · simp only [he1, he2, if_true, if_false, Option.some.injEq] at hko
          exact Or.inr (Or.inr ⟨he2.symm, hko.symm⟩)
        · simp [he1, he2] at hko
  have hkeep : ∀ k o, aget k I = some o →
      aget k (I ++ [(Key.uid w.uid, functorObj g A w), (Key.gid w.gid, functorObj g A w)]) = some o :=
    fun k o hko => aget_append_left _ hko
  have hnew1 : aget (Key.uid w.uid) (I ++ [(Key.uid w.uid, functorObj g A w), (Key.gid w.gid, functorObj g A w)])
      = some (functorObj g A w) := by
    rw [aget_append_right _ hu]; simp [aget]
  have hnew2 : aget (Key.gid w.gid) (I ++ [(Key.uid w.uid, functorObj g A w), (Key.gid w.gid, functorObj g A w)])
      = some (functorObj g A w) := by
    rw [aget_append_right _ hgid]; simp [aget]
  have hcase : ∀ w' ∈ g.workers, w'.uid ∈ vis ++ [w.uid] → w'.uid ∈ vis ∨ w' = w := by
    intro w' hw' hv'
    rcases List.mem_append.mp hv' with hv' | hv'
    · exact Or.inl hv'
    · simp only [List.mem_singleton] at hv'
      exact Or.inr (eq_of_nodup_map (fun w : Worker => w.uid) (l := g.workers) h.nodup hw' hw hv')
  refine ⟨?_, ?_, ?_, ?_, ?_, ?_, ?_, ?_, ?_⟩
  · show ((I ++ [(Key.uid w.uid, functorObj g A w), (Key.gid w.gid, functorObj g A w)]).map (·.1)).Nodup
    apply keys_nodup_append inv.keys (by simp)
    intro k hk
    simp only [List.map_cons, List.map_nil, List.mem_cons, List.mem_nil_iff, or_false] at hk
    rcases hk with rfl | rfl
    · exact hu
    · exact hgid
  · show Contig ((I ++ [(Key.uid w.uid, functorObj g A w), (Key.gid w.gid, functorObj g A w)]).map (·.2.id))
    have : (I ++ [(Key.uid w.uid, functorObj g A w), (Key.gid w.gid, functorObj g A w)]).map (·.2.id)
        = I.map (·.2.id) ++ [Key.uid w.uid] ++ [Key.uid w.uid] := by simp [functorObj]
    rw [this]
    exact (inv.contig.append_fresh (Or.inl (id_not_uid inv hsub hv))).append_dup
  · rcases inv.comm with ⟨hc, hno⟩ | ⟨hc, t, ht, htv, hTt, hPt⟩
    · left
      refine ⟨hc, ?_⟩
      intro t ht htv hTt hPt
      rcases hcase t ht htv with htv | rfl
      · exact hno t ht htv hTt hPt
      · rw [hP] at hPt; cases hPt
    · exact Or.inr ⟨hc, t, ht, List.mem_append_left _ htv, hTt, hPt⟩
  · intro k o hko
    rcases hget k o hko with h1 | ⟨rfl, rfl⟩ | ⟨rfl, rfl⟩
    · apply (inv.sound k o h1).mono
      intro γ hk ho t ht hg hTt heq
      have htw : t = w := eq_of_nodup_map (fun w : Worker => w.uid) (l := g.workers) h.nodup ht hw heq
      subst htw hk
      rw [hg, hgid] at h1; cases h1
    · exact ⟨w, hwk, by simp, rfl⟩
    · exact Or.inl ⟨w, hw, rfl, hT, by simp, rfl⟩
  · intro w' hw' hv'
    rcases hcase w' hw' hv' with hv' | rfl
    · exact hkeep _ _ (inv.c_uid w' hw' hv')
    · exact hnew1
  · intro t ht htv hTt
    rcases hcase t ht htv with htv | rfl
    · exact hkeep _ _ (inv.c_gidT t ht htv hTt)
    · exact hnew2
  · intro w' hw' hv' hP' hno
    rcases hcase w' hw' hv' with hv' | rfl
    · exact hkeep _ _ (inv.c_gidL w' hw' hv' hP'
        (fun t ht hg hTt hm => hno t ht hg hTt (List.mem_append_left _ hm)))
    · rw [hP] at hP'; cases hP'
  · intro t ht htv hTt hPt
    rcases hcase t ht htv with htv | rfl
    · obtain ⟨h1, h2, h3⟩ := inv.c_pt t ht htv hTt hPt
      exact ⟨hkeep _ _ h1, hkeep _ _ h2, hkeep _ _ h3⟩
    · rw [hP] at hPt; cases hPt
  · intro w' hw' hv' htr' hne i hi
    rcases hcase w' hw' hv' with hv' | rfl
    · exact hkeep _ _ (inv.c_getter w' hw' hv' htr' hne i hi)
    · rw [htr] at htr'; cases htr'

end

end ForML.Flow
