/-
C01 — the trainer cases of the index step, and the index invariant after the whole traversal.
-/
import ForML.Lemmas.C01IdxStep

namespace ForML.Flow
open CState Segment

theorem adel_map_eraseIdx {κ α β : Type} [DecidableEq κ] (k : κ) (f : κ × α → β) (l : List (κ × α)) :
    ∃ i, (adel k l).map f = (l.map f).eraseIdx i := by
  induction l with
  | nil => exact ⟨0, rfl⟩
  | cons y r ih =>
    obtain ⟨k', v'⟩ := y
    simp only [adel]
    split
    · exact ⟨0, rfl⟩
    · obtain ⟨i, hi⟩ := ih
      exact ⟨i + 1, by simp [hi]⟩

section
variable {g : Segment} {A : Option Assets} {rank : Uid → Nat} {vis : List Uid} {I : List (Key × Obj)} {c : Option Key}

/-- **trainer of a non-persistent group** -/
theorem idx_step_trainer_np (h : WF g rank) (inv : IdxInv g A vis (I, c)) {w : Worker} (hw : w ∈ g.workers)
    (hv : w.uid ∉ vis) (hT : g.isTrainer w = true) (hP : persistentW A w = false) :
    ∃ ic', idxRun (I, c) (prog g A w) = some ic' ∧ IdxInv g A (vis ++ [w.uid]) ic' := by
  have hu := fresh_uid inv hv
  have hwk := worker?_of_mem h.nodup hw
  have htr : g.trained w.uid = true := by simp only [isTrainer, Bool.and_eq_true] at hT; exact hT.2
  have huniq : ∀ t ∈ g.workers, t.gid = w.gid → g.isTrainer t = true → t = w :=
    fun t ht hg hTt => trainer_unique h ht hw hg hTt hT
  have hgid : aget (Key.gid w.gid) I = none := by
    cases hg : aget (Key.gid w.gid) I with
    | none => rfl
    | some o =>
      rcases inv.sound _ _ hg with ⟨t, ht, hgt, hTt, htv, _⟩ | ⟨_, ⟨w', hw', _, hg', hP'⟩, _⟩
      · have := huniq t ht hgt hTt; subst this; exact absurd htv hv
      · have := persistent_group h hw' hw hg' hP'
        rw [hP] at this; cases this
  refine ⟨_, idx_trainer_np hT hP hu hgid, ?_⟩
  have hsub : ∀ x ∈ I, x ∈ I := fun _ h => h
  have hget : ∀ k o, aget k (I ++ [(Key.uid w.uid, functorObj g A w), (Key.gid w.gid, functorObj g A w)]) = some o →
      aget k I = some o ∨ (k = Key.uid w.uid ∧ o = functorObj g A w) ∨ (k = Key.gid w.gid ∧ o = functorObj g A w) := by
    intro k o hko
    rw [aget_append] at hko
    cases h1 : aget k I with
    | some o1 => simp only [h1] at hko; exact Or.inl hko
    | none =>
      simp only [h1, aget_cons, aget_nil] at hko
      by_cases he1 : Key.uid w.uid = k
      · simp only [he1, if_true, Option.some.injEq] at hko
        exact Or.inr (Or.inl ⟨he1.symm, hko.symm⟩)
      · by_cases he2 : Key.gid w.gid = k
        · simp only [he1, he2, if_true, if_false, Option.some.injEq] at hko
          exact Or.inr (Or.inr ⟨he2.symm, hko.symm⟩)
        · simp [he1, he2] at hko
  have hkeep : ∀ k o, aget k I = some o →
      aget k (I ++ [(Key.uid w.uid, functorObj g A w), (Key.gid w.gid, functorObj g A w)]) = some o :=
    fun k o hko => aget_append_left _ hko
  have hnew1 : aget (Key.uid w.uid) (I ++ [(Key.uid w.uid, functorObj g A w), (Key.gid w.gid, functorObj g A w)])
      = some (functorObj g A w) := by
    rw [aget_append_right _ hu]; simp [aget]
  have hnew2 : aget (Key.gid w.gid) (I ++ [(Key.uid w.uid, functorObj g A w), (Key.gid w.gid, functorObj g A w)])
      = some (functorObj g A w) := by
    rw [aget_append_right _ hgid]; simp [aget]
  have hcase : ∀ w' ∈ g.workers, w'.uid ∈ vis ++ [w.uid] → w'.uid ∈ vis ∨ w' = w := by
    intro w' hw' hv'
    rcases List.mem_append.mp hv' with hv' | hv'
    · exact Or.inl hv'
    · simp only [List.mem_singleton] at hv'
      exact Or.inr (eq_of_nodup_map (fun w : Worker => w.uid) (l := g.workers) h.nodup hw' hw hv')
  refine ⟨?_, ?_, ?_, ?_, ?_, ?_, ?_, ?_, ?_⟩
  · show ((I ++ [(Key.uid w.uid, functorObj g A w), (Key.gid w.gid, functorObj g A w)]).map (·.1)).Nodup
    apply keys_nodup_append inv.keys (by simp)
    intro k hk
    simp only [List.map_cons, List.map_nil, List.mem_cons, List.mem_nil_iff, or_false] at hk
    rcases hk with rfl | rfl
    · exact hu
    · exact hgid
  · show Contig ((I ++ [(Key.uid w.uid, functorObj g A w), (Key.gid w.gid, functorObj g A w)]).map (·.2.id))
    have : (I ++ [(Key.uid w.uid, functorObj g A w), (Key.gid w.gid, functorObj g A w)]).map (·.2.id)
        = I.map (·.2.id) ++ [Key.uid w.uid] ++ [Key.uid w.uid] := by simp [functorObj]
    rw [this]
    exact (inv.contig.append_fresh (Or.inl (id_not_uid inv hsub hv))).append_dup
  · rcases inv.comm with ⟨hc, hno⟩ | ⟨hc, t, ht, htv, hTt, hPt⟩
    · left
      refine ⟨hc, ?_⟩
      intro t ht htv hTt hPt
      rcases hcase t ht htv with htv | rfl
      · exact hno t ht htv hTt hPt
      · rw [hP] at hPt; cases hPt
    · exact Or.inr ⟨hc, t, ht, List.mem_append_left _ htv, hTt, hPt⟩
  · intro k o hko
    rcases hget k o hko with h1 | ⟨rfl, rfl⟩ | ⟨rfl, rfl⟩
    · apply (inv.sound k o h1).mono
      intro γ hk ho t ht hg hTt heq
      have htw : t = w := eq_of_nodup_map (fun w : Worker => w.uid) (l := g.workers) h.nodup ht hw heq
      subst htw hk
      rw [← hg, hgid] at h1; cases h1
    · exact ⟨w, hwk, by simp, rfl⟩
    · exact Or.inl ⟨w, hw, rfl, hT, by simp, rfl⟩
  · intro w' hw' hv'
    rcases hcase w' hw' hv' with hv' | rfl
    · exact hkeep _ _ (inv.c_uid w' hw' hv')
    · exact hnew1
  · intro t ht htv hTt
    rcases hcase t ht htv with htv | rfl
    · exact hkeep _ _ (inv.c_gidT t ht htv hTt)
    · exact hnew2
  · intro w' hw' hv' hP' hno
    rcases hcase w' hw' hv' with hv' | rfl
    · exact hkeep _ _ (inv.c_gidL w' hw' hv' hP'
        (fun t ht hg hTt hm => hno t ht hg hTt (List.mem_append_left _ hm)))
    · rw [hP] at hP'; cases hP'
  · intro t ht htv hTt hPt
    rcases hcase t ht htv with htv | rfl
    · obtain ⟨h1, h2, h3⟩ := inv.c_pt t ht htv hTt hPt
      exact ⟨hkeep _ _ h1, hkeep _ _ h2, hkeep _ _ h3⟩
    · rw [hP] at hPt; cases hPt
  · intro w' hw' hv' htr' hne i hi
    rcases hcase w' hw' hv' with hv' | rfl
    · exact hkeep _ _ (inv.c_getter w' hw' hv' htr' hne i hi)
    · rw [htr] at htr'; cases htr'

/-- **trainer of a persistent group** -/
theorem idx_step_trainer_p (h : WF g rank) (inv : IdxInv g A vis (I, c)) {w : Worker} (hw : w ∈ g.workers)
    (hv : w.uid ∉ vis) (hT : g.isTrainer w = true) (hP : persistentW A w = true) :
    ∃ ic', idxRun (I, c) (prog g A w) = some ic' ∧ IdxInv g A (vis ++ [w.uid]) ic' := by
  have hu := fresh_uid inv hv
  have hd := fresh_dumper inv hv
  have hwk := worker?_of_mem h.nodup hw
  have htr : g.trained w.uid = true := by simp only [isTrainer, Bool.and_eq_true] at hT; exact hT.2
  have huniq : ∀ t ∈ g.workers, t.gid = w.gid → g.isTrainer t = true → t = w :=
    fun t ht hg hTt => trainer_unique h ht hw hg hTt hT
  have hgid : aget (Key.gid w.gid) I = none ∨ aget (Key.gid w.gid) I = some (loaderObj w.gid) := by
    cases hg : aget (Key.gid w.gid) I with
    | none => exact Or.inl rfl
    | some o =>
      rcases inv.sound _ _ hg with ⟨t, ht, hgt, hTt, htv, _⟩ | ⟨rfl, _⟩
      · have := huniq t ht hgt hTt; subst this; exact absurd htv hv
      · exact Or.inr rfl
  have hl : aget (Key.loader w.gid) I = none := by
    cases hg : aget (Key.loader w.gid) I with
    | none => rfl
    | some o =>
      obtain ⟨_, t, ht, hgt, htv, hTt, _⟩ := inv.sound _ _ hg
      have := huniq t ht hgt hTt; subst this; exact absurd htv hv
  have hc := fun hcn => fresh_committer inv hcn
  refine ⟨_, idx_trainer_p hT hP inv.keys hu hgid hl hd hc (commOK_of inv), ?_⟩
  -- the base: the index without the group alias
  generalize hB : adel (Key.gid w.gid) I = B
  have hBsub : ∀ x ∈ B, x ∈ I := by intro x hx; rw [← hB] at hx; exact mem_adel hx
  have hBget : ∀ k, k ≠ Key.gid w.gid → aget k B = aget k I := by
    intro k hk; rw [← hB]; exact aget_adel_ne (Ne.symm hk) I
  have hBgid : aget (Key.gid w.gid) B = none := by rw [← hB]; exact aget_adel_self inv.keys
  have hBkeys : (B.map (·.1)).Nodup := by
    rw [← hB]; exact List.Nodup.sublist (adel_keys_sublist _ _) inv.keys
  generalize hC : (if c = none then [(Key.committer, committerObj)] else []) = Copt
  have hCget : ∀ k o, aget k Copt = some o → k = Key.committer ∧ o = committerObj ∧ c = none := by
    intro k o hko
    rw [← hC] at hko
    split at hko
    · rename_i hcn
      simp only [aget_cons, aget_nil] at hko
      split at hko
      · cases hko; subst_vars; exact ⟨rfl, rfl, rfl⟩
      · cases hko
    · cases hko
  have hCnone : ∀ k, k ≠ Key.committer → aget k Copt = none := by
    intro k hk
    cases hko : aget k Copt with
    | none => rfl
    | some o => exact absurd (hCget k o hko).1 hk
  -- lookups in the result
  have hget : ∀ k o, aget k (B ++ Copt ++ [(Key.dumper w.uid, dumperObj w.uid), (Key.loader w.gid, loaderObj w.gid),
        (Key.uid w.uid, functorObj g A w), (Key.gid w.gid, functorObj g A w)]) = some o →
      (k ≠ Key.gid w.gid ∧ aget k I = some o) ∨ (k = Key.committer ∧ o = committerObj ∧ c = none) ∨
      (k = Key.dumper w.uid ∧ o = dumperObj w.uid) ∨ (k = Key.loader w.gid ∧ o = loaderObj w.gid) ∨
      (k = Key.uid w.uid ∧ o = functorObj g A w) ∨ (k = Key.gid w.gid ∧ o = functorObj g A w) := by
    intro k o hko
    rw [aget_append, aget_append] at hko
    cases h1 : aget k B with
    | some o1 =>
      simp only [h1] at hko; cases hko
      have hk : k ≠ Key.gid w.gid := by rintro rfl; rw [hBgid] at h1; cases h1
      exact Or.inl ⟨hk, by rw [← hBget k hk]; exact h1⟩
    | none =>
      simp only [h1] at hko
      cases h2 : aget k Copt with
      | some o2 => simp only [h2] at hko; cases hko; exact Or.inr (Or.inl (hCget k o h2))
      | none =>
        simp only [h2, aget_cons, aget_nil] at hko
        by_cases he1 : Key.dumper w.uid = k
        · simp only [he1, if_true, Option.some.injEq] at hko
          exact Or.inr (Or.inr (Or.inl ⟨he1.symm, hko.symm⟩))
        · by_cases he2 : Key.loader w.gid = k
          · simp only [he1, he2, if_true, if_false, Option.some.injEq] at hko
            exact Or.inr (Or.inr (Or.inr (Or.inl ⟨he2.symm, hko.symm⟩)))
          · by_cases he3 : Key.uid w.uid = k
            · simp only [he1, he2, he3, if_true, if_false, Option.some.injEq] at hko
              exact Or.inr (Or.inr (Or.inr (Or.inr (Or.inl ⟨he3.symm, hko.symm⟩))))
            · by_cases he4 : Key.gid w.gid = k
              · simp only [he1, he2, he3, he4, if_true, if_false, Option.some.injEq] at hko
                exact Or.inr (Or.inr (Or.inr (Or.inr (Or.inr ⟨he4.symm, hko.symm⟩))))
              · simp [he1, he2, he3, he4] at hko
  have hkeep : ∀ k o, k ≠ Key.gid w.gid → aget k I = some o →
      aget k (B ++ Copt ++ [(Key.dumper w.uid, dumperObj w.uid), (Key.loader w.gid, loaderObj w.gid),
        (Key.uid w.uid, functorObj g A w), (Key.gid w.gid, functorObj g A w)]) = some o := by
    intro k o hk hko
    exact aget_append_left _ (aget_append_left _ (by rw [hBget k hk]; exact hko))
  have hBC : ∀ k, k ≠ Key.committer → aget k B = none → aget k (B ++ Copt) = none :=
    fun k hk hb => aget_fresh_append hb (hCnone k hk)
  have hnewD : aget (Key.dumper w.uid) (B ++ Copt ++ [(Key.dumper w.uid, dumperObj w.uid),
      (Key.loader w.gid, loaderObj w.gid), (Key.uid w.uid, functorObj g A w), (Key.gid w.gid, functorObj g A w)])
      = some (dumperObj w.uid) := by
    rw [aget_append_right _ (hBC _ (by simp) (by rw [hBget _ (by simp)]; exact hd))]; simp [aget]
  have hnewL : aget (Key.loader w.gid) (B ++ Copt ++ [(Key.dumper w.uid, dumperObj w.uid),
      (Key.loader w.gid, loaderObj w.gid), (Key.uid w.uid, functorObj g A w), (Key.gid w.gid, functorObj g A w)])
      = some (loaderObj w.gid) := by
    rw [aget_append_right _ (hBC _ (by simp) (by rw [hBget _ (by simp)]; exact hl))]; simp [aget]
  have hnewU : aget (Key.uid w.uid) (B ++ Copt ++ [(Key.dumper w.uid, dumperObj w.uid),
      (Key.loader w.gid, loaderObj w.gid), (Key.uid w.uid, functorObj g A w), (Key.gid w.gid, functorObj g A w)])
      = some (functorObj g A w) := by
    rw [aget_append_right _ (hBC _ (by simp) (by rw [hBget _ (by simp)]; exact hu))]; simp [aget]
  have hnewG : aget (Key.gid w.gid) (B ++ Copt ++ [(Key.dumper w.uid, dumperObj w.uid),
      (Key.loader w.gid, loaderObj w.gid), (Key.uid w.uid, functorObj g A w), (Key.gid w.gid, functorObj g A w)])
      = some (functorObj g A w) := by
    rw [aget_append_right _ (hBC _ (by simp) hBgid)]; simp [aget]
  have hcase : ∀ w' ∈ g.workers, w'.uid ∈ vis ++ [w.uid] → w'.uid ∈ vis ∨ w' = w := by
    intro w' hw' hv'
    rcases List.mem_append.mp hv' with hv' | hv'
    · exact Or.inl hv'
    · simp only [List.mem_singleton] at hv'
      exact Or.inr (eq_of_nodup_map (fun w : Worker => w.uid) (l := g.workers) h.nodup hw' hw hv')
  have hPTw : ∃ t ∈ g.workers, t.uid ∈ vis ++ [w.uid] ∧ g.isTrainer t = true ∧ persistentW A t = true :=
    ⟨w, hw, by simp, hT, hP⟩
  refine ⟨?_, ?_, Or.inr ⟨rfl, hPTw⟩, ?_, ?_, ?_, ?_, ?_, ?_⟩
  · -- keys
    show ((B ++ Copt ++ [(Key.dumper w.uid, dumperObj w.uid), (Key.loader w.gid, loaderObj w.gid),
        (Key.uid w.uid, functorObj g A w), (Key.gid w.gid, functorObj g A w)]).map (·.1)).Nodup
    apply keys_nodup_append _ (by simp)
    · intro k hk
      simp only [List.map_cons, List.map_nil, List.mem_cons, List.mem_nil_iff, or_false] at hk
      rcases hk with rfl | rfl | rfl | rfl
      · exact hBC _ (by simp) (by rw [hBget _ (by simp)]; exact hd)
      · exact hBC _ (by simp) (by rw [hBget _ (by simp)]; exact hl)
      · exact hBC _ (by simp) (by rw [hBget _ (by simp)]; exact hu)
      · exact hBC _ (by simp) hBgid
    · apply keys_nodup_append hBkeys
      · rw [← hC]; split <;> simp
      · intro k hk
        rw [← hC] at hk
        split at hk
        · rename_i hcn
          simp only [List.map_cons, List.map_nil, List.mem_singleton] at hk
          subst hk
          rw [hBget _ (by simp)]; exact hc hcn
        · cases hk
  · -- contiguity
    show Contig ((B ++ Copt ++ [(Key.dumper w.uid, dumperObj w.uid), (Key.loader w.gid, loaderObj w.gid),
        (Key.uid w.uid, functorObj g A w), (Key.gid w.gid, functorObj g A w)]).map (·.2.id))
    have hBcontig : Contig (B.map (·.2.id)) := by
      rw [← hB]
      obtain ⟨i, hi⟩ := adel_map_eraseIdx (Key.gid w.gid) (fun x : Key × Obj => x.2.id) I
      rw [hi]; exact inv.contig.sublist_erase i
    have hshape : (B ++ Copt ++ [(Key.dumper w.uid, dumperObj w.uid), (Key.loader w.gid, loaderObj w.gid),
        (Key.uid w.uid, functorObj g A w), (Key.gid w.gid, functorObj g A w)]).map (·.2.id)
        = (B.map (·.2.id) ++ Copt.map (·.2.id)) ++ [Key.dumper w.uid, Key.loader w.gid, Key.uid w.uid]
            ++ [Key.uid w.uid] := by
      simp [functorObj]
    rw [hshape]
    have hidsC : ∀ x, x ∈ B.map (·.2.id) ++ Copt.map (·.2.id) → x ∈ B.map (·.2.id) ∨ x = Key.committer := by
      intro x hx
      rcases List.mem_append.mp hx with hx | hx
      · exact Or.inl hx
      · right
        rw [← hC] at hx
        split at hx
        · simpa using hx
        · cases hx
    have hstep1 : Contig (B.map (·.2.id) ++ Copt.map (·.2.id)) := by
      rw [← hC]
      split
      · rename_i hcn
        simp only [List.map_cons, List.map_nil]
        exact hBcontig.append_fresh (Or.inl (id_not_committer inv hBsub hcn))
      · simpa using hBcontig
    have : (B.map (·.2.id) ++ Copt.map (·.2.id)) ++ [Key.dumper w.uid, Key.loader w.gid, Key.uid w.uid] ++ [Key.uid w.uid]
        = ((B.map (·.2.id) ++ Copt.map (·.2.id)) ++ [Key.dumper w.uid, Key.loader w.gid]) ++ [Key.uid w.uid]
            ++ [Key.uid w.uid] := by simp
    rw [this]
    apply Contig.append_dup
    apply Contig.append_fresh
    · apply hstep1.append_list _ (by simp)
      intro x hx hmem
      simp only [List.mem_cons, List.mem_nil_iff, or_false] at hx
      rcases hidsC _ hmem with hmem | hmem
      · rcases hx with rfl | rfl
        · exact id_not_dumper inv hBsub hv hmem
        · rcases id_loader_cases inv hBsub hmem with ⟨o, hm⟩ | hm
          · have := aget_of_mem_nodup inv.keys (hBsub _ hm)
            rw [hl] at this; cases this
          · have := aget_of_mem_nodup hBkeys hm
            rw [hBgid] at this; cases this
      · rcases hx with rfl | rfl <;> cases hmem
    · left
      intro hmem
      simp only [List.mem_append, List.mem_cons, List.mem_nil_iff, or_false] at hmem
      rcases hmem with hmem | hmem
      · rcases hidsC _ (List.mem_append.mpr hmem) with hmem | hmem
        · exact id_not_uid inv hBsub hv hmem
        · cases hmem
      · rcases hmem with hmem | hmem <;> cases hmem
  · -- soundness
    intro k o hko
    rcases hget k o hko with ⟨hk, h1⟩ | ⟨rfl, rfl, _⟩ | ⟨rfl, rfl⟩ | ⟨rfl, rfl⟩ | ⟨rfl, rfl⟩ | ⟨rfl, rfl⟩
    · apply (inv.sound k o h1).mono
      intro γ hkγ _ t ht hg hTt heq
      have htw : t = w := eq_of_nodup_map (fun w : Worker => w.uid) (l := g.workers) h.nodup ht hw heq
      subst htw hkγ
      exact hk (by rw [hg])
    · exact ⟨rfl, hPTw⟩
    · exact ⟨rfl, w, hwk, by simp, hT, hP⟩
    · exact ⟨rfl, w, hw, rfl, by simp, hT, hP⟩
    · exact ⟨w, hwk, by simp, rfl⟩
    · exact Or.inl ⟨w, hw, rfl, hT, by simp, rfl⟩
  · intro w' hw' hv'
    rcases hcase w' hw' hv' with hv' | rfl
    · exact hkeep _ _ (by simp) (inv.c_uid w' hw' hv')
    · exact hnewU
  · intro t ht htv hTt
    rcases hcase t ht htv with htv' | rfl
    · have hne : Key.gid t.gid ≠ Key.gid w.gid := by
        intro heq
        have := huniq t ht (Key.gid.inj heq) hTt
        subst this; exact hv htv'
      exact hkeep _ _ hne (inv.c_gidT t ht htv' hTt)
    · exact hnewG
  · intro w' hw' hv' hP' hno
    have hgne : w'.gid ≠ w.gid := fun heq => hno w hw heq.symm hT (by simp)
    rcases hcase w' hw' hv' with hv' | rfl
    · exact hkeep _ _ (fun heq => hgne (Key.gid.inj heq)) (inv.c_gidL w' hw' hv' hP'
        (fun t ht hg hTt hm => hno t ht hg hTt (List.mem_append_left _ hm)))
    · exact absurd rfl hgne
  · intro t ht htv hTt hPt
    rcases hcase t ht htv with htv | rfl
    · obtain ⟨h1, h2, h3⟩ := inv.c_pt t ht htv hTt hPt
      exact ⟨hkeep _ _ (by simp) h1, hkeep _ _ (by simp) h2, hkeep _ _ (by simp) h3⟩
    · refine ⟨hnewL, hnewD, ?_⟩
      rcases inv.comm with ⟨hcn, _⟩ | ⟨_, t', ht', htv', hTt', hPt'⟩
      · simp only at hcn
        apply aget_append_left
        rw [aget_append_right _ (by rw [hBget _ (by simp)]; exact hc hcn), ← hC]
        simp [hcn, aget]
      · exact hkeep _ _ (by simp) (inv.c_pt t' ht' htv' hTt' hPt').2.2
  · intro w' hw' hv' htr' hne i hi
    rcases hcase w' hw' hv' with hv' | rfl
    · exact hkeep _ _ (by simp) (inv.c_getter w' hw' hv' htr' hne i hi)
    · rw [htr] at htr'; cases htr'

/-- **the index after the whole traversal**, any visit order -/
theorem idx_all (h : WF g rank) (order : List Uid) (hnd : order.Nodup) (hmem : ∀ n ∈ order, n ∈ g.uids) :
    ∃ ic, idxRun ([], none) (allProg g A order) = some ic ∧ IdxInv g A order ic := by
  revert hnd hmem
  refine snoc_induction (P := fun order => order.Nodup → (∀ n ∈ order, n ∈ g.uids) →
    ∃ ic, idxRun ([], none) (allProg g A order) = some ic ∧ IdxInv g A order ic) ?_ ?_ order
  · intro _ _
    exact ⟨([], none), rfl, IdxInv.init g A⟩
  · intro vis n ih hnd hmem
    have hnd' : vis.Nodup := (List.nodup_append.mp hnd).1
    have hn : n ∉ vis := fun hm => (List.nodup_append.mp hnd).2.2 n hm n (by simp) rfl
    obtain ⟨⟨I, c⟩, hrun, inv⟩ := ih hnd' (fun m hm => hmem m (List.mem_append_left _ hm))
    obtain ⟨w, hw, rfl⟩ := mem_uids.mp (hmem n (by simp))
    have hnp : nodeProg g A w.uid = prog g A w := by simp [nodeProg, worker?_of_mem h.nodup hw]
    rw [allProg_snoc, idxRun_append, hrun, hnp]
    simp only [Option.bind_some]
    cases hT : g.isTrainer w with
    | false =>
      have htr : g.trained w.uid = false := by
        cases htr : g.trained w.uid with
        | false => rfl
        | true =>
          have := (h.trainedOK hw htr).stateful
          simp [isTrainer, this, htr] at hT
      exact idx_step_mapper h inv hw hn hT htr
    | true =>
      cases hP : persistentW A w with
      | false => exact idx_step_trainer_np h inv hw hn hT hP
      | true => exact idx_step_trainer_p h inv hw hn hT hP

end

end ForML.Flow
