/-
Helper lemmas for the codec tables of C19, part 2 (core Lean only): rows / columns of a rectangular table, the tokeniser of
`read_csv` against the `csv.writer` text (quoting included), and single cells through writer and type inference.
-/
import ForML.Lemmas.C19TableNum

namespace ForML.Codec

/-! ### rows and columns of a rectangular table -/

theorem getD'_map (l : List α) (f : α → β) (j : Nat) (d : β) (hj : j < l.length) :
    getD' (l.map f) j d = f l[j] := by
  simp [getD', hj]

theorem range_map_getD' (l : List α) (d : α) : (List.range l.length).map (fun i => getD' l i d) = l := by
  apply List.ext_getElem
  · simp
  · intro i h1 h2
    simp [getD', (by simpa using h1 : i < l.length)]

/-- column `j` of the rows of a rectangular list of columns is column `j` -/
theorem col_of_toRows (cols : List (List α)) (d : α) (n : Nat) (hn : ∀ c ∈ cols, c.length = n) (j : Nat) (hj : j < cols.length) :
    (toRows cols d n).map (fun r => getD' r j d) = cols[j] := by
  unfold toRows rowAt
  rw [List.map_map]
  have hlen : cols[j].length = n := hn _ (List.getElem_mem hj)
  have : ((fun r => getD' r j d) ∘ fun i => cols.map (fun c => getD' c i d)) = fun i => getD' cols[j] i d := by
    funext i
    simp only [Function.comp]
    exact getD'_map cols (fun c => getD' c i d) j d hj
  rw [this, ← hlen, range_map_getD']

theorem toCols_toRows (cols : List (List α)) (d : α) (n : Nat) (hn : ∀ c ∈ cols, c.length = n) :
    toCols (toRows cols d n) d cols.length = cols := by
  unfold toCols
  apply List.ext_getElem
  · simp
  · intro j h1 h2
    have hj : j < cols.length := by simpa using h1
    simp only [List.getElem_map, List.getElem_range]
    exact col_of_toRows cols d n hn j hj

theorem toRows_length (cols : List (List α)) (d : α) (n : Nat) : (toRows cols d n).length = n := by
  simp [toRows]

theorem toRows_row_length (cols : List (List α)) (d : α) (n : Nat) : ∀ r ∈ toRows cols d n, r.length = cols.length := by
  intro r hr
  simp only [toRows, List.mem_map, List.mem_range] at hr
  obtain ⟨i, _, rfl⟩ := hr
  simp [rowAt]

/-! ### `text/csv`: the tokeniser reads what the writer wrote -/

/-- a field the reader takes apart as the writer meant it: a carriage return only inside quotes -/
def fieldOK (f : Str) : Bool := !f.contains '\r' || needsQuote f

/-- a record the reader keeps: at least one field, fields fine, not a line of blanks only -/
def recordOK (fields : List Str) : Bool :=
  !fields.isEmpty && fields.all fieldOK &&
  (match fields with
   | [f] => f.isEmpty || !f.all blank
   | _ => true)

/-- an ordinary character of an unquoted field -/
def plainChar (c : Char) : Bool := c != ',' && c != '"' && c != '\n' && c != '\r'

theorem plain_of_unquoted (f : Str) (hq : needsQuote f = false) (hok : fieldOK f = true) : f.all plainChar = true := by
  unfold fieldOK at hok
  rw [hq, Bool.or_false] at hok
  unfold needsQuote at hq
  rw [List.all_eq_true]
  intro c hc
  have h1 : (c == ',' || c == '"' || c == '\n') = false := by
    have := List.any_eq_false.mp hq c hc
    simpa using this
  have h2 : c ≠ '\r' := by
    intro e; subst e
    have hcont : f.contains '\r' = true := by simpa using hc
    rw [hcont] at hok; simp at hok
  simp only [Bool.or_eq_false_iff, beq_eq_false_iff_ne, ne_eq] at h1
  simp [plainChar, h1.1.1, h1.1.2, h1.2, h2]

/-- scanning the characters of an unquoted field from the start of a field or inside one -/
theorem scan_plain (f rest : Str) (field : Str) (record : List Str) (sq : Bool) (h : f.all plainChar = true) :
    (csvScan .startField field record sq (f ++ rest) =
      (if f.isEmpty then csvScan .startField field record sq rest else csvScan .inField (f.reverse ++ field) record sq rest)) ∧
    csvScan .inField field record sq (f ++ rest) = csvScan .inField (f.reverse ++ field) record sq rest := by
  induction f generalizing field with
  | nil => simp
  | cons c r ih =>
    simp only [List.all_cons, Bool.and_eq_true] at h
    obtain ⟨hc, hr⟩ := h
    simp only [plainChar, Bool.and_eq_true, bne_iff_ne, ne_eq] at hc
    obtain ⟨⟨⟨h1, h2⟩, h3⟩, h4⟩ := hc
    have step : ∀ fld, csvScan .inField fld record sq (c :: (r ++ rest)) = csvScan .inField (c :: fld) record sq (r ++ rest) := by
      intro fld; simp [csvScan, h1, h3, h4]
    have step0 : csvScan .startField field record sq (c :: (r ++ rest)) = csvScan .inField (c :: field) record sq (r ++ rest) := by
      simp [csvScan, h1, h2, h3, h4]
    have ih' := (ih (c :: field) hr).2
    constructor
    · simp only [List.cons_append, List.isEmpty_cons, Bool.false_eq_true, if_false, step0, ih']
      simp
    · simp only [List.cons_append, step, ih']
      simp

/-- scanning the body of a quoted field up to its closing quote -/
theorem scan_quoted (f rest : Str) (field : Str) (record : List Str) (sq : Bool) :
    csvScan .inQuoted field record sq (doubleQuotes f ++ '"' :: rest) = csvScan .quoteInQuoted (f.reverse ++ field) record sq rest := by
  induction f generalizing field with
  | nil => simp [doubleQuotes, csvScan]
  | cons c r ih =>
    by_cases hc : c = '"'
    · subst hc
      simp only [doubleQuotes, beq_self_eq_true, if_true, List.cons_append]
      rw [csvScan]; simp only [beq_self_eq_true, if_true]
      rw [csvScan]; simp only [beq_self_eq_true, if_true]
      rw [ih]; simp
    · have : (c == '"') = false := by simp [hc]
      simp only [doubleQuotes, this, Bool.false_eq_true, if_false, List.cons_append]
      rw [csvScan]; simp only [this, Bool.false_eq_true, if_false]
      rw [ih]; simp

/-- after a written field and a comma the reader has the field and stands at the start of the next one -/
theorem scan_field_comma (f rest : Str) (record : List Str) (sq : Bool) (hok : fieldOK f = true) :
    csvScan .startField [] record sq (csvField f ++ ',' :: rest) = csvScan .startField [] (f :: record) (sq || needsQuote f) rest := by
  unfold csvField
  cases hq : needsQuote f with
  | true =>
    simp only [if_true, Bool.or_true]
    have e : ∀ x : Str, ('"' :: doubleQuotes f ++ ['"']) ++ x = '"' :: (doubleQuotes f ++ '"' :: x) := by intro x; simp
    rw [e, csvScan]; simp only [beq_self_eq_true, if_true]
    rw [scan_quoted, csvScan]
    simp
  | false =>
    simp only [Bool.false_eq_true, if_false, Bool.or_false]
    have hp := plain_of_unquoted f hq hok
    rw [(scan_plain f (',' :: rest) [] record sq hp).1]
    cases f with
    | nil => simp [csvScan]
    | cons c r => simp [csvScan]

/-- after a written field and a line feed the reader closes the record -/
theorem scan_field_lf (f rest : Str) (record : List Str) (sq : Bool) (hok : fieldOK f = true) :
    csvScan .startField [] record sq (csvField f ++ '\n' :: rest) =
      (if keepRecord (f :: record).reverse (sq || needsQuote f) then [(f :: record).reverse] else []) ++ csvScan .startField [] [] false rest := by
  unfold csvField
  cases hq : needsQuote f with
  | true =>
    simp only [if_true, Bool.or_true]
    have e : ∀ x : Str, ('"' :: doubleQuotes f ++ ['"']) ++ x = '"' :: (doubleQuotes f ++ '"' :: x) := by intro x; simp
    rw [e, csvScan]; simp only [beq_self_eq_true, if_true]
    rw [scan_quoted, csvScan]
    simp
  | false =>
    simp only [Bool.false_eq_true, if_false, Bool.or_false]
    have hp := plain_of_unquoted f hq hok
    rw [(scan_plain f ('\n' :: rest) [] record sq hp).1]
    cases f with
    | nil => simp [csvScan]
    | cons c r => simp [csvScan]

/-- a written record (not the one-empty-field special case) read with `record` already collected -/
theorem scan_record (fs : List Str) (rest : Str) (record : List Str) (sq : Bool) (hne : fs ≠ []) (hok : ∀ f ∈ fs, fieldOK f = true) :
    csvScan .startField [] record sq (joinWith ',' (fs.map csvField) ++ '\n' :: rest) =
      (if keepRecord (record.reverse ++ fs) (sq || fs.any needsQuote) then [record.reverse ++ fs] else []) ++
        csvScan .startField [] [] false rest := by
  induction fs generalizing record sq with
  | nil => exact absurd rfl hne
  | cons f r ih =>
    cases r with
    | nil =>
      simp only [List.map_cons, List.map_nil, joinWith]
      rw [scan_field_lf f rest record sq (hok f (by simp))]
      simp
    | cons g r' =>
      simp only [List.map_cons, joinWith, List.append_assoc, List.cons_append]
      rw [scan_field_comma f _ record sq (hok f (by simp))]
      have := ih (f :: record) (sq || needsQuote f) (by simp) (fun x hx => hok x (List.mem_cons_of_mem _ hx))
      simp only [List.map_cons, joinWith, List.append_assoc, List.cons_append] at this
      rw [this]
      simp only [List.reverse_cons, List.append_assoc, List.singleton_append, List.any_cons, Bool.or_assoc]
      rfl

/-- a whole written line -/
theorem scan_line (fs : List Str) (rest : Str) (hok : recordOK fs = true) :
    csvScan .startField [] [] false (csvLine fs ++ rest) = fs :: csvScan .startField [] [] false rest := by
  unfold recordOK at hok
  simp only [Bool.and_eq_true, Bool.not_eq_true', List.all_eq_true] at hok
  obtain ⟨⟨hne, hf⟩, hkeep⟩ := hok
  have hne' : fs ≠ [] := by intro e; subst e; simp at hne
  by_cases hspecial : fs = [[]]
  · subst hspecial
    simp [csvLine, csvScan, keepRecord]
  · have hline : csvLine fs = joinWith ',' (fs.map csvField) ++ ['\n'] := by
      unfold csvLine
      split
      · exact absurd rfl hspecial
      · rfl
    rw [hline, List.append_assoc, List.singleton_append, scan_record fs rest [] false hne' hf]
    have hk : keepRecord fs (fs.any needsQuote) = true := by
      unfold keepRecord
      split
      · rename_i f
        simp only [List.any_cons, List.any_nil, Bool.or_false]
        simp only at hkeep
        cases hq : needsQuote f with
        | true => simp
        | false =>
          simp only [Bool.false_or, Bool.not_eq_true']
          have hfne : f ≠ [] := by intro e; subst e; exact hspecial rfl
          have : f.isEmpty = false := by cases f <;> simp_all
          simp only [this, Bool.false_or, Bool.not_eq_true'] at hkeep
          simpa [blank] using hkeep
      · rfl
    simp only [List.reverse_nil, List.nil_append, Bool.false_or, hk, if_true, List.singleton_append]

/-- the reader's tokeniser inverts the writer on every list of records it can take apart -/
theorem csvRead_csvText (records : List (List Str)) (hok : ∀ r ∈ records, recordOK r = true) :
    csvRead (csvText records) = records := by
  unfold csvRead csvText
  induction records with
  | nil => simp [csvScan]
  | cons r rs ih =>
    simp only [List.flatMap_cons]
    rw [scan_line r _ (hok r (by simp)), ih (fun x hx => hok x (List.mem_cons_of_mem _ hx))]

/-! ### one column through `text/csv` -/

theorem intText_eq (i : Int) : intText i = numText (decide (i < 0)) (natText i.natAbs) none := by
  unfold intText numText numBody
  by_cases h : i < 0 <;> simp [h]

theorem natText_wf (n : Nat) (fp : Option Str) (hf : ∀ f, fp = some f → f.all isDigit = true) : numWF (natText n) fp :=
  ⟨(natText_spec n).2.1, (natText_spec n).2.2, hf⟩

/-- the written text of a cell that is not text is empty (missing) or a number text that reads back as the cell -/
def NumCell (v : Val) (f : Str) : Prop :=
  (v = .null ∧ f = []) ∨ (isNA f = false ∧ looksNumber f = true ∧ (readNumber f).same v = true)

theorem numCell_int (i : Int) : NumCell (.int i) (csvCell false (.int i)) := by
  right
  have hwf := natText_wf i.natAbs none (by intro f h; cases h)
  simp only [csvCell, Bool.false_eq_true, if_false, intText_eq]
  refine ⟨numText_notNA _ _ _ hwf, numText_looksNumber _ _ _ hwf, ?_⟩
  rw [numText_read_int _ _ hwf, (natText_spec i.natAbs).1]
  simp only [Val.same, beq_iff_eq]
  by_cases h : i < 0 <;> simp [h] <;> omega

theorem numCell_int_float (i : Int) : NumCell (.int i) (csvCell true (.int i)) := by
  right
  have hwf := natText_wf i.natAbs (some ['0']) (by intro f h; cases h; decide)
  have htext : csvCell true (.int i) = numText (decide (i < 0)) (natText i.natAbs) (some ['0']) := by
    simp only [csvCell, if_true, intText_eq]
    simp [numText, numBody]
  rw [htext]
  refine ⟨numText_notNA _ _ _ hwf, numText_looksNumber _ _ _ hwf, ?_⟩
  rw [numText_read_float _ _ _ hwf, digitsVal_append, (natText_spec i.natAbs).1]
  simp only [Val.same, List.length_singleton, Nat.pow_one, beq_iff_eq]
  have h0 : digitsVal ['0'] = 0 := by decide
  rw [h0]
  by_cases h : i < 0 <;> simp [h] <;> omega

theorem floatText_eq (neg : Bool) (d : Dec) :
    ∃ ip fp, floatText neg d = numText neg ip (some fp) ∧ numWF ip (some fp) ∧
      Dec.same ⟨digitsVal (ip ++ fp), fp.length⟩ d = true := by
  obtain ⟨hval, hdig, hlen⟩ := padDigits_spec d.n (d.scale + 1)
  have hft : ∀ ds, ds = padDigits d.n (d.scale + 1) → floatText neg d =
      (if neg then ['-'] else []) ++ ds.take (ds.length - d.scale) ++ ['.'] ++
        (if (ds.drop (ds.length - d.scale)).isEmpty then ['0'] else ds.drop (ds.length - d.scale)) := by
    intro ds h; subst h; rfl
  generalize padDigits d.n (d.scale + 1) = ds at hval hdig hlen hft
  have hft := hft ds rfl
  have hsplit : ds.take (ds.length - d.scale) ++ ds.drop (ds.length - d.scale) = ds := List.take_append_drop _ _
  have hip : (ds.take (ds.length - d.scale)).all isDigit = true := by
    rw [List.all_eq_true] at hdig ⊢
    intro c hc; exact hdig c (List.mem_of_mem_take hc)
  have hfp : (ds.drop (ds.length - d.scale)).all isDigit = true := by
    rw [List.all_eq_true] at hdig ⊢
    intro c hc; exact hdig c (List.mem_of_mem_drop hc)
  have hipne : ds.take (ds.length - d.scale) ≠ [] := by
    intro e
    have := congrArg List.length e
    simp only [List.length_take, List.length_nil] at this
    omega
  have hfplen : (ds.drop (ds.length - d.scale)).length = d.scale := by
    simp only [List.length_drop]; omega
  by_cases hz : (ds.drop (ds.length - d.scale)).isEmpty = true
  · refine ⟨ds.take (ds.length - d.scale), ['0'], ?_, ⟨hip, hipne, by intro f h; cases h; decide⟩, ?_⟩
    · rw [hft]; simp [numText, numBody, hz]
    · have hs0 : d.scale = 0 := by
        have : (ds.drop (ds.length - d.scale)) = [] := by simpa using hz
        rw [this] at hfplen; simpa using hfplen.symm
      have htake : ds.take (ds.length - d.scale) = ds := by rw [hs0]; simp
      rw [htake, digitsVal_append, hval]
      simp only [Dec.same, List.length_singleton, hs0, beq_iff_eq]
      have h0 : digitsVal ['0'] = 0 := by decide
      rw [h0]; simp
  · refine ⟨ds.take (ds.length - d.scale), ds.drop (ds.length - d.scale), ?_, ⟨hip, hipne, by intro f h; cases h; exact hfp⟩, ?_⟩
    · rw [hft]; simp [numText, numBody, hz]
    · rw [hsplit, hval, hfplen]
      simp [Dec.same]

theorem numCell_float (neg : Bool) (d : Dec) : NumCell (.float neg d) (csvCell false (.float neg d)) := by
  right
  obtain ⟨ip, fp, htext, hwf, hsame⟩ := floatText_eq neg d
  simp only [csvCell]
  rw [htext]
  refine ⟨numText_notNA _ _ _ hwf, numText_looksNumber _ _ _ hwf, ?_⟩
  rw [numText_read_float _ _ _ hwf]
  simp only [Val.same, hsame, Bool.and_true, BEq.rfl, Bool.or_true]

theorem isNA_nil : isNA [] = true := by decide

/-- a column of number texts and empty fields is read as numbers, cell by cell the same -/
theorem numColumn_read (cells : List Val) (render : Val → Str) (h : ∀ v ∈ cells, NumCell v (render v)) :
    inferKind (cells.map render) = .numbers ∧
    sameCells ((cells.map render).map fun f => if isNA f then .null else readNumber f) cells = true := by
  constructor
  · unfold inferKind
    have : ((cells.map render).filter (fun f => !isNA f)).all looksNumber = true := by
      rw [List.all_eq_true]
      intro f hf
      rw [List.mem_filter, List.mem_map] at hf
      obtain ⟨⟨v, hv, rfl⟩, hna⟩ := hf
      rcases h v hv with ⟨_, he⟩ | ⟨_, hl, _⟩
      · rw [he, isNA_nil] at hna; simp at hna
      · exact hl
    simp [this]
  · induction cells with
    | nil => rfl
    | cons v r ih =>
      simp only [List.map_cons, sameCells, Bool.and_eq_true]
      refine ⟨?_, ih (fun x hx => h x (List.mem_cons_of_mem _ hx))⟩
      rcases h v (by simp) with ⟨hv, he⟩ | ⟨hna, _, hs⟩
      · rw [he, hv]; simp [isNA_nil, Val.same]
      · simp [hna, hs]

end ForML.Codec
