/-
C04 helper lemmas, part 1: a fresh expansion (`Comp.rename` with injective uid / gid renamings) is visited in the
same order, has the same derived workers and therefore the same persistent list up to the gid renaming.
-/
import ForML.Model.Persist

namespace ForML.Persist

/-- injective renaming (fresh uuids never collide) -/
def Inj (f : Nat → Nat) : Prop := ∀ a b, f a = f b → a = b

theorem Inj.beq {f : Nat → Nat} (h : Inj f) (a b : Nat) : (f a == f b) = (a == b) := by
  apply Bool.eq_iff_iff.mpr
  simp only [beq_iff_eq]
  exact ⟨h a b, fun e => by rw [e]⟩

theorem Inj.bne {f : Nat → Nat} (h : Inj f) (a b : Nat) : (f a != f b) = (a != b) := by
  show (!(f a == f b)) = (!(a == b))
  rw [h.beq]

theorem Inj.contains_map {f : Nat → Nat} (h : Inj f) (l : List Nat) (a : Nat) :
    (l.map f).contains (f a) = l.contains a := by
  induction l with
  | nil => simp
  | cons x xs ih =>
    simp only [List.map_cons, List.contains_cons, ih]
    rw [h.beq]

theorem Inj.idxOf_map {f : Nat → Nat} (h : Inj f) (l : List Nat) (a : Nat) :
    (l.map f).idxOf (f a) = l.idxOf a := by
  induction l with
  | nil => simp
  | cons x xs ih =>
    simp only [List.map_cons, List.idxOf_cons, ih]
    rw [h.beq]

/-- the image of a node in the renamed composition -/
def Node.rename (ρ σ : Nat → Nat) (n : Node) : Node := { n with uid := ρ n.uid, gid := σ n.gid }

@[simp] theorem Node.rename_tag (ρ σ : Nat → Nat) (n : Node) : (n.rename ρ σ).tag = n.tag := rfl
@[simp] theorem Node.rename_stateful (ρ σ : Nat → Nat) (n : Node) : (n.rename ρ σ).stateful = n.stateful := rfl
@[simp] theorem Node.rename_trained (ρ σ : Nat → Nat) (n : Node) : (n.rename ρ σ).trained = n.trained := rfl
@[simp] theorem Node.rename_uid (ρ σ : Nat → Nat) (n : Node) : (n.rename ρ σ).uid = ρ n.uid := rfl
@[simp] theorem Node.rename_gid (ρ σ : Nat → Nat) (n : Node) : (n.rename ρ σ).gid = σ n.gid := rfl

namespace Comp

theorem rename_nodes (ρ σ : Nat → Nat) (c : Comp) : (c.rename ρ σ).nodes = c.nodes.map (Node.rename ρ σ) := rfl

theorem subs_rename {ρ : Nat → Nat} (σ : Nat → Nat) (hρ : Inj ρ) (c : Comp) (u : Nat) :
    (c.rename ρ σ).subs (ρ u) = (c.subs u).map ρ := by
  simp only [subs, rename, List.filter_map, List.map_map]
  congr 1
  apply List.filter_congr
  intro e _
  simp [Function.comp, hρ.beq]

theorem isTrained_rename {ρ : Nat → Nat} (σ : Nat → Nat) (hρ : Inj ρ) (c : Comp) (u : Nat) :
    (c.rename ρ σ).isTrained (ρ u) = c.isTrained u := by
  simp only [isTrained, rename, List.any_map]
  congr 1
  funext n
  simp [Function.comp, hρ.beq]

theorem next_rename {ρ : Nat → Nat} (σ : Nat → Nat) (hρ : Inj ρ) (c : Comp) (t u : Nat) :
    (c.rename ρ σ).next (ρ t) (ρ u) = (c.next t u).map ρ := by
  simp only [next, hρ.beq, subs_rename σ hρ]
  split
  · rw [List.filter_map]
    congr 1
    apply List.filter_congr
    intro x _
    simp [Function.comp, isTrained_rename σ hρ]
  · rfl

theorem dfs_rename {ρ : Nat → Nat} (σ : Nat → Nat) (hρ : Inj ρ) (c : Comp) (t : Nat) :
    ∀ (f : Nat) (stack seen : List Nat),
      (c.rename ρ σ).dfs (ρ t) f (stack.map ρ) (seen.map ρ) = (c.dfs t f stack seen).map ρ := by
  intro f
  induction f with
  | zero => intro stack seen; simp [dfs]
  | succ f ih =>
    intro stack seen
    cases stack with
    | nil => simp [dfs]
    | cons u rest =>
      simp only [List.map_cons, dfs, hρ.contains_map]
      split
      · exact ih rest seen
      · have := ih (c.next t u ++ rest) (seen ++ [u])
        simp only [List.map_append, List.map_cons, List.map_nil] at this
        rw [next_rename σ hρ]
        exact this

theorem fuel_rename (ρ σ : Nat → Nat) (c : Comp) : (c.rename ρ σ).fuel = c.fuel := by
  simp [fuel, rename]

theorem visit_rename {ρ : Nat → Nat} (σ : Nat → Nat) (hρ : Inj ρ) (c : Comp) (h t : Nat) :
    (c.rename ρ σ).visit (ρ h) (ρ t) = (c.visit h t).map ρ := by
  have := dfs_rename σ hρ c t c.fuel [h] []
  simpa [visit, fuel_rename] using this

theorem node?_rename {ρ : Nat → Nat} (σ : Nat → Nat) (hρ : Inj ρ) (c : Comp) (u : Nat) :
    (c.rename ρ σ).node? (ρ u) = (c.node? u).map (Node.rename ρ σ) := by
  simp only [node?, rename_nodes, List.find?_map]
  congr 2
  funext n
  simp [Function.comp, hρ.beq]

theorem visitNodes_rename {ρ : Nat → Nat} (σ : Nat → Nat) (hρ : Inj ρ) (c : Comp) (h t : Nat) :
    (c.rename ρ σ).visitNodes (ρ h) (ρ t) = (c.visitNodes h t).map (Node.rename ρ σ) := by
  simp only [visitNodes, visit_rename σ hρ, List.filterMap_map, List.map_filterMap]
  congr 1
  funext u
  simp [Function.comp, node?_rename σ hρ]

theorem derived_rename {ρ σ : Nat → Nat} (hρ : Inj ρ) (hσ : Inj σ) (c : Comp) (n : Node) :
    (c.rename ρ σ).derived (n.rename ρ σ) = c.derived n := by
  simp only [derived, rename_nodes, List.any_map, Node.rename_stateful]
  congr 2
  funext m
  simp [Function.comp, hρ.bne, hσ.beq]

end Comp

theorem dedup_map {σ : Nat → Nat} (hσ : Inj σ) (l : List Nat) : dedup (l.map σ) = (dedup l).map σ := by
  induction l with
  | nil => rfl
  | cons x xs ih =>
    simp only [List.map_cons, dedup, ih, List.filter_map]
    congr 2
    apply List.filter_congr
    intro y _
    simp [Function.comp, hσ.bne]

namespace Comp

theorem persistentOf_rename {ρ σ : Nat → Nat} (hρ : Inj ρ) (hσ : Inj σ) (c : Comp) (order : List Node) :
    (c.rename ρ σ).persistentOf (order.map (Node.rename ρ σ)) = (c.persistentOf order).map σ := by
  simp only [persistentOf, List.filter_map, List.map_map]
  rw [← dedup_map hσ, List.map_map]
  congr 2
  apply List.filter_congr
  intro n _
  simp [Function.comp, derived_rename hρ hσ]

/-- the persistent list of a fresh expansion is the renamed persistent list: same length, same positions -/
theorem persistent_rename {ρ σ : Nat → Nat} (hρ : Inj ρ) (hσ : Inj σ) (c : Comp) :
    (c.rename ρ σ).persistent = c.persistent.map σ := by
  have h := visitNodes_rename σ hρ c c.applyHead c.applyTail
  simp only [persistent]
  show (c.rename ρ σ).persistentOf ((c.rename ρ σ).visitNodes (ρ c.applyHead) (ρ c.applyTail)) = _
  rw [h, persistentOf_rename hρ hσ]

theorem tagOfGid_rename {σ : Nat → Nat} (ρ : Nat → Nat) (hσ : Inj σ) (c : Comp) (g : Nat) :
    (c.rename ρ σ).tagOfGid (σ g) = c.tagOfGid g := by
  simp only [tagOfGid, rename_nodes, List.find?_map, Option.map_map]
  have : ((fun n : Node => n.gid == σ g) ∘ Node.rename ρ σ) = (fun n : Node => n.gid == g) := by
    funext n
    simp [Function.comp, hσ.beq]
  rw [this]
  cases List.find? (fun n : Node => n.gid == g) c.nodes <;> rfl

theorem persistentTags_rename {ρ σ : Nat → Nat} (hρ : Inj ρ) (hσ : Inj σ) (c : Comp) :
    (c.rename ρ σ).persistentTags = c.persistentTags := by
  simp only [persistentTags, persistent_rename hρ hσ, List.map_map]
  congr 1
  funext g
  simp [Function.comp, tagOfGid_rename ρ hσ]

end Comp

end ForML.Persist
