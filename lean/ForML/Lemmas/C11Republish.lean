/-
C11 helper lemmas: re-publishing is idempotent, hence `Future._collapse()` — which re-publishes *every*
(registered publisher, held subscription) pair — changes nothing for the pairs that were published before.
This is the justification of `publishTo` forwarding the new subscription only (Model/Graph.lean, `publishTo`).
-/
import ForML.Lemmas.C11Closure

namespace ForML.Graph

/-- `h` has the nodes, registrations and `_PORTS` of `g` and holds every subscription `g` holds -/
def Above (g h : G) : Prop := Same g h ∧ ∀ e ∈ g.edges, e ∈ h.edges

theorem Above.refl (g : G) : Above g g := ⟨Same.refl g, fun _ h => h⟩

theorem Above.trans {a b c : G} (h1 : Above a b) (h2 : Above b c) : Above a c :=
  ⟨h1.1.trans h2.1, fun e he => h2.2 e (h1.2 e he)⟩

theorem addEdge_above (g : G) (e : Edge) : Above g (addEdge g e) := by
  refine ⟨addEdge_same g e, ?_⟩
  intro x hx
  unfold addEdge; split
  · exact hx
  · simp [hx]

theorem addEdge_noop {h : G} {e : Edge} (he : e ∈ h.edges) : addEdge h e = h := by
  unfold addEdge; rw [if_pos he]

/-- the body of the forwarding loop of `Future._publish` (stop at the first exception) -/
def fwd (k : Nat) (s : Sub) (acc : G × Res) (t : Nat × Nat) : G × Res :=
  match acc.2 with
  | .ok => publishTo k acc.1 t.1 t.2 s
  | _ => acc

theorem fwd_ok {k : Nat} {s : Sub} {acc : G × Res} (h : acc.2 = .ok) (t : Nat × Nat) :
    fwd k s acc t = publishTo k acc.1 t.1 t.2 s := by
  unfold fwd; rw [h]

theorem fwd_err {k : Nat} {s : Sub} {acc : G × Res} (h : acc.2 ≠ .ok) (t : Nat × Nat) :
    fwd k s acc t = acc := by
  unfold fwd; split
  · rename_i h'; exact absurd h' h
  · rfl

/-! ### the branches of `publishTo` -/

theorem publishTo_future_self (k : Nat) (g : G) (n idx : Nat) (s : Sub) (hf : isFuture g n = true)
    (hn : n = s.node) : publishTo (k + 1) g n idx s = (g, .err .self) := by
  unfold publishTo; rw [if_pos hf, if_pos hn]

theorem publishTo_future (k : Nat) (g : G) (n idx : Nat) (s : Sub) (hf : isFuture g n = true)
    (hn : n ≠ s.node) :
    publishTo (k + 1) g n idx s = (pubsAt g n idx).foldl (fwd k s) (addEdge g ⟨n, idx, s⟩, .ok) := by
  unfold publishTo; rw [if_pos hf, if_neg hn]; rfl

theorem publishTo_worker_trained (k : Nat) (g : G) (n idx : Nat) (s : Sub) (hf : isFuture g n = false)
    (ht : trained g n = true) : publishTo (k + 1) g n idx s = (g, .err .trainedPublishing) := by
  unfold publishTo; rw [if_neg (by simp [hf]), if_pos ht]

theorem publishTo_worker_self (k : Nat) (g : G) (n idx : Nat) (s : Sub) (hf : isFuture g n = false)
    (ht : trained g n = false) (hn : n = s.node) : publishTo (k + 1) g n idx s = (g, .err .self) := by
  unfold publishTo; rw [if_neg (by simp [hf]), if_neg (by simp [ht]), if_pos hn]

theorem publishTo_worker_ok (k : Nat) (g : G) (n idx : Nat) (s : Sub) (hf : isFuture g n = false)
    (ht : trained g n = false) (hn : n ≠ s.node) :
    publishTo (k + 1) g n idx s = (addEdge g ⟨n, idx, s⟩, .ok) := by
  unfold publishTo; rw [if_neg (by simp [hf]), if_neg (by simp [ht]), if_neg hn]

/-! ### publishing only adds -/

theorem foldl_fwd_above {k : Nat} {s : Sub} (ihk : ∀ g n idx, Above g (publishTo k g n idx s).1) :
    ∀ (ps : List (Nat × Nat)) (acc : G × Res), Above acc.1 (ps.foldl (fwd k s) acc).1 := by
  intro ps
  induction ps with
  | nil => intro acc; exact Above.refl _
  | cons t ps ihp =>
    intro acc
    simp only [List.foldl_cons]
    refine Above.trans ?_ (ihp _)
    by_cases hacc : acc.2 = .ok
    · rw [fwd_ok hacc]; exact ihk _ _ _
    · rw [fwd_err hacc]; exact Above.refl _

/-- `_publish` never removes anything, whatever it answers -/
theorem publishTo_above : ∀ (fuel : Nat) (g : G) (n idx : Nat) (s : Sub), Above g (publishTo fuel g n idx s).1 := by
  intro fuel
  induction fuel with
  | zero => intro g n idx s; exact Above.refl _
  | succ k ih =>
    intro g n idx s
    cases hf : isFuture g n
    · cases ht : trained g n
      · by_cases hn : n = s.node
        · rw [publishTo_worker_self k g n idx s hf ht hn]; exact Above.refl _
        · rw [publishTo_worker_ok k g n idx s hf ht hn]; exact addEdge_above _ _
      · rw [publishTo_worker_trained k g n idx s hf ht]; exact Above.refl _
    · by_cases hn : n = s.node
      · rw [publishTo_future_self k g n idx s hf hn]; exact Above.refl _
      · rw [publishTo_future k g n idx s hf hn]
        exact (addEdge_above g _).trans (foldl_fwd_above (fun g n idx => ih g n idx s) _ _)

/-! ### publishing again changes nothing -/

theorem foldl_fwd_again {k : Nat} {s : Sub} {h : G}
    (ihk : ∀ g n idx, (publishTo k g n idx s).2 = .ok → Above (publishTo k g n idx s).1 h →
      publishTo k h n idx s = (h, .ok)) :
    ∀ (ps : List (Nat × Nat)) (acc : G × Res), (ps.foldl (fwd k s) acc).2 = .ok →
      Above (ps.foldl (fwd k s) acc).1 h → acc.2 = .ok ∧ ps.foldl (fwd k s) (h, .ok) = (h, .ok) := by
  intro ps
  induction ps with
  | nil => intro acc hok _; exact ⟨hok, rfl⟩
  | cons t ps ihp =>
    intro acc hok habv
    simp only [List.foldl_cons] at hok habv ⊢
    obtain ⟨h1, h2⟩ := ihp _ hok habv
    by_cases hacc : acc.2 = .ok
    · refine ⟨hacc, ?_⟩
      have hA : Above (fwd k s acc t).1 h :=
        (foldl_fwd_above (fun g n idx => publishTo_above k g n idx s) ps _).trans habv
      rw [fwd_ok hacc] at h1 hA
      have e : fwd k s (h, .ok) t = (h, .ok) := by
        rw [fwd_ok rfl]; exact ihk _ _ _ h1 hA
      rw [e]; exact h2
    · rw [fwd_err hacc] at h1; exact absurd h1 hacc

/-- **idempotence of `_publish`**: once `n._publish(idx, s)` has succeeded, the same call in that state or in any
later state of the same nodes / registrations / `_PORTS` that still holds what was published succeeds and changes
nothing — for workers and for any tree of placeholders -/
theorem publishTo_again : ∀ (fuel : Nat) (g : G) (n idx : Nat) (s : Sub) (h : G),
    (publishTo fuel g n idx s).2 = .ok → Above (publishTo fuel g n idx s).1 h →
    publishTo fuel h n idx s = (h, .ok) := by
  intro fuel
  induction fuel with
  | zero => intro g n idx s h hok; simp [publishTo] at hok
  | succ k ih =>
    intro g n idx s h hok hab
    have hs : Same g h := (publishTo_same (k + 1) g n idx s).trans hab.1
    have hF : isFuture h n = isFuture g n := hs.isFuture n
    have hT : trained h n = trained g n := hs.trained n
    cases hf : isFuture g n
    · cases ht : trained g n
      · by_cases hn : n = s.node
        · rw [publishTo_worker_self k g n idx s hf ht hn] at hok; simp at hok
        · rw [publishTo_worker_ok k g n idx s hf ht hn] at hab
          rw [publishTo_worker_ok k h n idx s (hF.trans hf) (hT.trans ht) hn,
            addEdge_noop (hab.2 _ (addEdge_mem g _))]
      · rw [publishTo_worker_trained k g n idx s hf ht] at hok; simp at hok
    · by_cases hn : n = s.node
      · rw [publishTo_future_self k g n idx s hf hn] at hok; simp at hok
      · rw [publishTo_future k g n idx s hf hn] at hok hab
        have hm : (⟨n, idx, s⟩ : Edge) ∈ h.edges :=
          hab.2 _ ((foldl_fwd_above (fun g n idx => publishTo_above k g n idx s) _ _).2 _ (addEdge_mem g _))
        rw [publishTo_future k h n idx s (hF.trans hf) hn, hs.pubsAt, addEdge_noop hm]
        exact (foldl_fwd_again (fun g n idx => ih g n idx s h) _ _ hok hab).2

/-! ### `Future._collapse()` -/

/-- `Future._collapse()` as written: `for publisher, subscription in ((p, s) for p, i in self._input.items()
for s in self._output[i]): publisher.republish(subscription)` — every registration of `f`, every subscription its
port holds, stopping at the first exception -/
def repub (k : Nat) (acc : G × Res) (p : Nat × Nat × Sub) : G × Res :=
  match acc.2 with
  | .ok => publishTo k acc.1 p.1 p.2.1 p.2.2
  | _ => acc

theorem repub_ok {k : Nat} {acc : G × Res} (h : acc.2 = .ok) (p : Nat × Nat × Sub) :
    repub k acc p = publishTo k acc.1 p.1 p.2.1 p.2.2 := by
  unfold repub; rw [h]

theorem repub_err {k : Nat} {acc : G × Res} (h : acc.2 ≠ .ok) (p : Nat × Nat × Sub) : repub k acc p = acc := by
  unfold repub; split
  · rename_i h'; exact absurd h' h
  · rfl

def collapse (k : Nat) (g : G) (f : Nat) : G × Res :=
  ((g.regs.filter (fun r => r.fut = f)).flatMap
      (fun r => (out g f r.idx).map (fun s => (r.pub, r.out, s)))).foldl (repub k) (g, .ok)

/-- a loop of re-publications each of which changes nothing (answering success or the depth guard) changes nothing -/
theorem foldl_fix {k : Nat} {g : G} : ∀ (l : List (Nat × Nat × Sub)),
    (∀ p ∈ l, publishTo k g p.1 p.2.1 p.2.2 = (g, .ok) ∨ publishTo k g p.1 p.2.1 p.2.2 = (g, .err .recursion)) →
    ∀ acc : G × Res, (acc = (g, .ok) ∨ acc = (g, .err .recursion)) →
      l.foldl (repub k) acc = (g, .ok) ∨ l.foldl (repub k) acc = (g, .err .recursion) := by
  intro l
  induction l with
  | nil => intro _ acc h; exact h
  | cons p l ih =>
    intro hp acc hacc
    simp only [List.foldl_cons]
    apply ih (fun q hq => hp q (List.mem_cons_of_mem _ hq))
    rcases hacc with rfl | rfl
    · rw [repub_ok rfl]; exact hp p (List.mem_cons_self ..)
    · rw [repub_err (by simp)]; exact .inr rfl

theorem foldl_fix_ok {k : Nat} {g : G} : ∀ (l : List (Nat × Nat × Sub)),
    (∀ p ∈ l, publishTo k g p.1 p.2.1 p.2.2 = (g, .ok)) → l.foldl (repub k) (g, .ok) = (g, .ok) := by
  intro l
  induction l with
  | nil => intro _; rfl
  | cons p l ih =>
    intro hp
    simp only [List.foldl_cons]
    rw [repub_ok rfl, hp p (List.mem_cons_self ..)]
    exact ih (fun q hq => hp q (List.mem_cons_of_mem _ hq))

/-- `_collapse()` changes nothing and raises nothing in a state in which every (registered publisher, held
subscription) pair of the placeholder has been published successfully before (in any earlier state `g0`) -/
theorem collapse_noop (k : Nat) (g : G) (f : Nat)
    (hpub : ∀ r ∈ g.regs, r.fut = f → ∀ s ∈ out g f r.idx,
      ∃ g0, (publishTo k g0 r.pub r.out s).2 = .ok ∧ Above (publishTo k g0 r.pub r.out s).1 g) :
    collapse k g f = (g, .ok) := by
  unfold collapse
  apply foldl_fix_ok
  intro p hp
  obtain ⟨r, hr, hp⟩ := List.mem_flatMap.mp hp
  obtain ⟨s, hs, rfl⟩ := List.mem_map.mp hp
  obtain ⟨hr1, hr2⟩ := List.mem_filter.mp hr
  obtain ⟨g0, h1, h2⟩ := hpub r hr1 (by simpa using hr2) s hs
  exact publishTo_again k g0 r.pub r.out s g h1 h2

/-! ### after every call sequence: re-publishing what a port holds changes nothing -/

theorem foldl_fwd_fix {k : Nat} {s : Sub} {g : G} : ∀ (ps : List (Nat × Nat)),
    (∀ t ∈ ps, publishTo k g t.1 t.2 s = (g, .ok) ∨ publishTo k g t.1 t.2 s = (g, .err .recursion)) →
    ∀ acc : G × Res, (acc = (g, .ok) ∨ acc = (g, .err .recursion)) →
      ps.foldl (fwd k s) acc = (g, .ok) ∨ ps.foldl (fwd k s) acc = (g, .err .recursion) := by
  intro ps
  induction ps with
  | nil => intro _ acc h; exact h
  | cons t ps ih =>
    intro hp acc hacc
    simp only [List.foldl_cons]
    apply ih (fun q hq => hp q (List.mem_cons_of_mem _ hq))
    rcases hacc with rfl | rfl
    · rw [fwd_ok rfl]; exact hp t (List.mem_cons_self ..)
    · rw [fwd_err (by simp)]; exact .inr rfl

/-- in a well-formed state, re-publishing a subscription to an output port that holds it together with everything
upstream (`HoldsUp`) changes nothing; the answer is success, or the depth guard of the model when the fuel given is
smaller than the registration tree -/
theorem publishTo_held (g : G) (hw : Wf g) (s : Sub) : ∀ (fuel n idx : Nat), HoldsUp g s n idx →
    publishTo fuel g n idx s = (g, .ok) ∨ publishTo fuel g n idx s = (g, .err .recursion) := by
  obtain ⟨i2, _, _, i5, i6, _, _⟩ := hw
  intro fuel
  induction fuel with
  | zero => intro n idx _; exact .inr rfl
  | succ k ih =>
    intro n idx hu
    cases hu with
    | mk _ _ hedge hup =>
      have hne : n ≠ s.node := i2 _ hedge
      cases hf : isFuture g n
      · cases ht : trained g n
        · rw [publishTo_worker_ok k g n idx s hf ht hne, addEdge_noop hedge]; exact .inl rfl
        · exfalso
          unfold trained at ht
          obtain ⟨p, hp, hpa⟩ := List.any_eq_true.mp ht
          have hq : (⟨n, p⟩ : Sub) ∈ g.ports := (mem_inputs' g n p).mp hp
          obtain ⟨e, he, hes⟩ := i6.1 _ hq
          have h5 := i5 e he _ hedge (by rw [hes]; simpa using hpa)
          rw [hes] at h5
          exact h5 rfl
      · rw [publishTo_future k g n idx s hf hne, addEdge_noop hedge]
        exact foldl_fwd_fix _ (fun t ht => ih t.1 t.2 (hup hf t ht)) _ (.inl rfl)

/-- `_collapse()` in a well-formed, upstream-closed state (= every state the construction calls reach): nothing
changes, nothing is raised (but the depth guard of the model when `k` is smaller than the registration tree) -/
theorem collapse_closed (k : Nat) (g : G) (f : Nat) (hw : Wf g) (hc : Closed g) :
    collapse k g f = (g, .ok) ∨ collapse k g f = (g, .err .recursion) := by
  unfold collapse
  apply foldl_fix _ _ _ (.inl rfl)
  intro p hp
  obtain ⟨r, hr, hp⟩ := List.mem_flatMap.mp hp
  obtain ⟨s, hs, rfl⟩ := List.mem_map.mp hp
  obtain ⟨hr1, hr2⟩ := List.mem_filter.mp hr
  have hrf : r.fut = f := by simpa using hr2
  have hedge := mem_out g f r.idx s hs
  have hF : isFuture g f = true := hrf ▸ (hw.2.2.2.2.2.2 r hr1).1
  have hu := hc _ hedge
  cases hu with
  | mk _ _ _ hup =>
    apply publishTo_held g hw s k r.pub r.out
    apply hup hF (r.pub, r.out)
    unfold pubsAt
    exact List.mem_map.mpr ⟨r, List.mem_filter.mpr ⟨hr1, by simp [hrf]⟩, rfl⟩

end ForML.Graph
