/-
C03 — helper lemmas: the per-base fold loop of `FullStack.Builder.build` (`baseFoldsLoop`): a base model is expanded
once per fold on that fold's outputs; a copy of its apply segment is fed with the held-out predictions path; the
copy's output goes to the base's `stacker`, the fold model's own apply output to the base's `reducer`.
-/
import ForML.Lemmas.C03Folds

namespace ForML.Compose

/-- subscribing a port of a collector inside a loop -/
theorem LoopOk.pushColl {X : Nat → Prop} {lo : Nat} {g g' : Graph} {W W' : World} {rr : Nat} (h : LoopOk X lo g g' W W' rr) (e : Edge)
    (hX : e.sub < g.next → X e.sub) (hnl : ¬ W'.live e.sub) (hlt : e.sub < g'.next) (hfree : g'.inputOf e.sub e.port = none)
    (hp : e.pub.node < g'.next) : LoopOk X lo g (g'.pushEdge e) W W' rr := by
  have mono : ∀ u k q, g'.inputOf u k = some q → (g'.pushEdge e).inputOf u k = some q := by
    intro u k q hq; rw [inputOf_pushEdge, hq]; rfl
  refine ⟨h.inv.pushEdge_notLive e hnl hlt, h.wired.pushEdge e hp hfree, h.next_le, fun u hu => by simpa using h.kind u hu, ?_,
    fun u k q hq => mono _ _ _ (h.inputMono u k q hq), fun gid hg => by simpa using h.trainer gid hg, h.agree,
    fun n hn hl => by simpa using h.rank n hn hl, fun n hn hl gid a i o hk => h.fresh n hn hl gid a i o (by simpa using hk), ?_⟩
  · intro u k hu hx
    rw [inputOf_pushEdge, h.input u k hu hx]
    have : ¬ (e.sub = u ∧ e.port = k) := by
      intro hc
      rw [← hc.1] at hu hx
      exact hx (hX hu)
    simp [this]
  · intro n hn hl ho
    refine h.noOpen n hn hl ⟨by simpa using ho.1, ?_⟩
    cases hq : g'.inputOf n 0 with
    | none => rfl
    | some q => have := mono _ _ _ hq; rw [ho.2] at this; cases this

theorem baseFoldsLoop_spec {base : GraphM Trunk} {B : Scope} (hb : Spec True base B) (hB : B.Indep)
    (stacker reducer : WRef) (hne : stacker.uid ≠ reducer.uid) (aS aR : Actor) (N : Nat) (rr lo : Nat)
    (foldSem : Nat → Sem) (testV : Nat → Val) (lfuid : Nat) (gb : Graph) (a cc : Nat) (hwb : Wired gb) (hbb : Bounded gb)
    (ha : a < gb.next) (hSu : gb.next ≤ stacker.uid ∧ stacker.uid < cc) (hRu : gb.next ≤ reducer.uid ∧ reducer.uid < cc) :
    ∀ (folds : List Fold) (i : Nat) (g : Graph) (W : World) (insS insR : Nat → PubRef) (R0 : Nat),
      Inv g W → Wired g → rr ≤ g.next → lo ≤ g.next → rr ≤ R0 →
      FoldsVal W rr foldSem testV lfuid i folds →
      Coll g W stacker.uid stacker.gid aS N i insS → Coll g W reducer.uid reducer.gid aR N i insR →
      (∀ k, k < i → PubOk W (insS k) R0 (B (testV k) (foldSem k).train (foldSem k).label).apply ∧
        PubOk W (insR k) R0 (B (foldSem k).apply (foldSem k).train (foldSem k).label).apply) →
      (∀ f ∈ folds, FoldReach gb a lo f) → Frame gb g → cc ≤ g.next → AReg a lo gb.next cc g W →
      (∀ k, k < i → Reach g a (insR k).node ∧ ¬ Reach g a (insS k).node ∧ cc ≤ (insR k).node ∧ cc ≤ (insS k).node) →
      ∃ g' W' insS' insR', Run (baseFoldsLoop base stacker reducer i folds) g () g' ∧
        LoopOk (fun u => u = stacker.uid ∨ u = reducer.uid) lo g g' W W' rr ∧
        Coll g' W' stacker.uid stacker.gid aS N (i + folds.length) insS' ∧
        Coll g' W' reducer.uid reducer.gid aR N (i + folds.length) insR' ∧
        (∀ k, k < i + folds.length →
          PubOk W' (insS' k) (R0 + (g'.next - g.next)) (B (testV k) (foldSem k).train (foldSem k).label).apply ∧
          PubOk W' (insR' k) (R0 + (g'.next - g.next)) (B (foldSem k).apply (foldSem k).train (foldSem k).label).apply) ∧
        AReg a lo gb.next cc g' W' ∧
        (∀ k, k < i + folds.length →
          Reach g' a (insR' k).node ∧ ¬ Reach g' a (insS' k).node ∧ cc ≤ (insR' k).node ∧ cc ≤ (insS' k).node) ∧
        ∃ ts, g'.trains = g.trains ++ ts ∧ (∀ x ∈ ts, W'.live x.train.node ∧ W'.live x.label.node) ∧
          ts.map (trainedUnder W') =
            (List.range folds.length).flatMap
              (fun j => (B (foldSem (i + j)).apply (foldSem (i + j)).train (foldSem (i + j)).label).states) := by
  intro folds
  induction folds with
  | nil =>
    intro i g W insS insR R0 hi hw _ _ _ _ hcS hcR hv _ _ _ hareg hreach
    refine ⟨g, W, insS, insR, rfl, LoopOk.refl hi hw rr, by simpa using hcS, by simpa using hcR, ?_, hareg,
      (fun k hk => hreach k (by simpa using hk)), [], ?_, ?_, rfl⟩
    · intro k hk
      obtain ⟨v1, v2⟩ := hv k (by simpa using hk)
      exact ⟨v1.mono (by omega), v2.mono (by omega)⟩
    · simp
    · intro x hx; cases hx
  | cons f rest ih =>
    intro i g W insS insR R0 hi hw hrr hlo hR0 hfv hcS hcR hv hfolds hfb hcc hareg hreach
    obtain ⟨fa, ft, fl, fx, _, hfrest⟩ := hfv
    obtain ⟨t, c, g1, g2, g3, g4, g5, g6, W6, r1, r2, r3, r4, r5, r6, hit, hext⟩ := iterV2 hb hB hi hw rr hrr fa ft fl fx
    have hl6 : LoopOk (fun u => u = stacker.uid ∨ u = reducer.uid) lo g g6 W W6 rr := hit.loop hlo hi
    have hn6 := hit.frame.next_le
    have hlt6 : ∀ n, W6.live n → n < g6.next := fun n hn => (hit.inv.liveLt n hn).1
    -- the two collectors after the round
    have cS6 : Coll g6 W6 stacker.uid stacker.gid aS N i insS := hcS.frame hit.frame hit.agree
    have cR6 : Coll g6 W6 reducer.uid reducer.gid aR N i insR := hcR.frame hit.frame hit.agree
    obtain ⟨r7, hi7, hw7, cS7⟩ := cS6.push hit.inv hit.wired c.publisher (hlt6 _ hit.tc.1)
    have cR7 : Coll (g6.pushEdge ⟨stacker.uid, i, c.publisher⟩) W6 reducer.uid reducer.gid aR N i insR := by
      refine cR6.same (by simp) ?_ (by simp) (fun h => h)
      intro k
      rw [inputOf_pushEdge]
      have : ¬ (stacker.uid = reducer.uid ∧ i = k) := fun e => hne e.1
      simp [this]
    obtain ⟨r8, hi8, hw8, cR8⟩ := cR7.push hi7 hw7 t.apply.publisher (by show t.apply.tail < g6.next; exact hlt6 _ hit.ta.1)
    have cS8 : Coll ((g6.pushEdge ⟨stacker.uid, i, c.publisher⟩).pushEdge ⟨reducer.uid, i, t.apply.publisher⟩) W6
        stacker.uid stacker.gid aS N (i + 1) (fun k => if k = i then c.publisher else insS k) := by
      refine cS7.same (by simp) ?_ (by simp) (fun h => h)
      intro k
      rw [inputOf_pushEdge]
      have : ¬ (reducer.uid = stacker.uid ∧ i = k) := fun e => hne e.1.symm
      simp [this]
    obtain ⟨g8, hg8⟩ : ∃ x, x = (g6.pushEdge ⟨stacker.uid, i, c.publisher⟩).pushEdge ⟨reducer.uid, i, t.apply.publisher⟩ :=
      ⟨_, rfl⟩
    have hl8 : LoopOk (fun u => u = stacker.uid ∨ u = reducer.uid) lo g g8 W W6 rr := by
      rw [hg8]
      refine (hl6.pushColl ⟨stacker.uid, i, c.publisher⟩ (fun _ => Or.inl rfl) cS6.notLive cS6.lt (cS6.free i (Nat.le_refl _))
        (hlt6 _ hit.tc.1)).pushColl ⟨reducer.uid, i, t.apply.publisher⟩ (fun _ => Or.inr rfl) cR6.notLive
        (by simpa using cR6.lt) (cR7.free i (Nat.le_refl _)) (by show t.apply.tail < g6.next; exact hlt6 _ hit.ta.1)
    have hn8 : g8.next = g6.next := by rw [hg8]; rfl
    rw [← hg8] at hi8 hw8 cR8 cS8 r8
    -- values of the filled ports, seen after the round
    have hv8 : ∀ k, k < i + 1 →
        PubOk W6 ((fun k => if k = i then c.publisher else insS k) k) (R0 + (g8.next - g.next))
          (B (testV k) (foldSem k).train (foldSem k).label).apply ∧
        PubOk W6 ((fun k => if k = i then t.apply.publisher else insR k) k) (R0 + (g8.next - g.next))
          (B (foldSem k).apply (foldSem k).train (foldSem k).label).apply := by
      intro k hk
      by_cases hki : k = i
      · subst hki
        simp only [if_true]
        refine ⟨⟨hit.tc.1, ?_, hit.tc.2⟩, ⟨hit.ta.1, ?_, hit.ta.2⟩⟩
        · have := hit.rank _ hit.tails_ge.2.2.2 hit.tc.1
          show W6.h c.tail < _
          rw [hn8]; omega
        · have := hit.rank _ hit.tails_ge.1 hit.ta.1
          show W6.h t.apply.tail < _
          rw [hn8]; omega
      · simp only [hki, if_false]
        obtain ⟨v1, v2⟩ := hv k (by omega)
        exact ⟨(v1.loop hl6 hi).mono (by omega), (v2.loop hl6 hi).mono (by omega)⟩
    have hfv8 : FoldsVal W6 rr foldSem testV lfuid (i + 1) rest :=
      FoldsVal.mono (Nat.le_refl _) (fun q r v h => h.loop hl6 hi) rest (i + 1) hfrest
    -- the apply side after this round
    have hnb := hfb.next_le
    have hfr := hfolds f List.mem_cons_self
    have ireg : IterReg a g g6 W6 t c := hext.areg a (by omega) (hfr.ta.mono (hfb.input_mono hbb))
      (fun h => hfr.tt (Reach.old hfb hwb hfr.lt.2.1 h)) (fun h => hfr.tl (Reach.old hfb hwb hfr.lt.2.2.1 h))
      (fun h => hfr.tx (Reach.old hfb hwb hfr.lt.2.2.2 h))
    have hfb6 : Frame gb g6 := hfb.trans hit.frame
    have hareg6 : AReg a lo gb.next cc g6 W6 := by
      refine hareg.step (X := fun _ => False) hfb hwb hw (fun x hx => hx.elim) (fun u k hu _ => hit.frame.input u k hu)
        (hit.frame.input_mono hi.bounded) hit.agree ?_ ireg.reg
      intro s k q hs' hq
      rcases hext.closed s k q hs' hq with h | h | h | h | h
      · exact Or.inl (by omega)
      · rw [h]; exact Or.inr ⟨hfr.ge.1, hfr.lt.1⟩
      · rw [h]; exact Or.inr ⟨hfr.ge.2.1, hfr.lt.2.1⟩
      · rw [h]; exact Or.inr ⟨hfr.ge.2.2.1, hfr.lt.2.2.1⟩
      · rw [h]; exact Or.inr ⟨hfr.ge.2.2.2, hfr.lt.2.2.2⟩
    have hareg8 : AReg a lo gb.next cc g8 W6 := by
      rw [hg8]
      refine (hareg6.pushEdge hfb6 hwb hit.wired hit.inv.bounded (by omega) (by omega) _ hSu).pushEdge
        (hfb6.pushEdge _ hSu.1) hwb hw7 hi7.bounded (by show a < g6.next; omega) (by show cc ≤ g6.next; omega) _ hRu
    have hXr : ∀ x, (x = stacker.uid ∨ x = reducer.uid) → gb.next ≤ x ∧ x < cc := by
      intro x hx; rcases hx with e | e <;> rw [e] <;> assumption
    have hin68 : ∀ u k, u < g6.next → ¬ (u = stacker.uid ∨ u = reducer.uid) → g8.inputOf u k = g6.inputOf u k := by
      intro u k _ hx
      rw [hg8, inputOf_pushEdge, inputOf_pushEdge]
      have c1 : ¬ (stacker.uid = u ∧ i = k) := fun e => hx (Or.inl e.1.symm)
      have c2 : ¬ (reducer.uid = u ∧ i = k) := fun e => hx (Or.inr e.1.symm)
      simp [c1, c2]
    have mono68 : ∀ u k q, g6.inputOf u k = some q → g8.inputOf u k = some q := by
      intro u k q hq; rw [hg8]; exact inputOf_pushEdge_mono (inputOf_pushEdge_mono hq)
    have hreach8 : ∀ k, k < i + 1 →
        Reach g8 a ((fun k => if k = i then t.apply.publisher else insR k) k).node ∧
        ¬ Reach g8 a ((fun k => if k = i then c.publisher else insS k) k).node ∧
        cc ≤ ((fun k => if k = i then t.apply.publisher else insR k) k).node ∧
        cc ≤ ((fun k => if k = i then c.publisher else insS k) k).node := by
      intro k hk
      by_cases hki : k = i
      · subst hki
        simp only [if_true]
        refine ⟨ireg.ta.mono mono68, ?_, by have := hit.tails_ge.1; show cc ≤ t.apply.tail; omega,
          by have := hit.tails_ge.2.2.2; show cc ≤ c.tail; omega⟩
        intro hre
        exact ireg.tc (hareg6.stable hfb6 hwb hit.wired hXr hin68 (hlt6 _ hit.tc.1)
          (by have := hit.tails_ge.2.2.2; show cc ≤ c.tail; omega) hre)
      · simp only [hki, if_false]
        obtain ⟨h1, h2, h3, h4⟩ := hreach k (by omega)
        refine ⟨h1.mono hl8.inputMono, ?_, h3, h4⟩
        intro hre
        exact h2 (hareg.stable hfb hwb hw hXr hl8.input ((hi.liveLt _ (hv k (by omega)).1.live).1) h4 hre)
    have hfb8 : Frame gb g8 := by
      rw [hg8]; exact (hfb6.pushEdge _ hSu.1).pushEdge _ hRu.1
    obtain ⟨g', W', insS', insR', hrun, hl', cS', cR', hv', hareg', hreach', ts', hts', hlive', hmap'⟩ :=
      ih (i + 1) g8 W6 _ _ (R0 + (g8.next - g.next)) hi8 hw8 (by rw [hn8]; omega) (by rw [hn8]; omega) (by omega) hfv8 cS8 cR8 hv8
        (fun f' hf' => hfolds f' (List.mem_cons_of_mem _ hf')) hfb8 (by rw [hn8]; omega) hareg8 hreach8
    have hn' := hl'.next_le
    refine ⟨g', W', insS', insR', ?_, hl8.trans hl', ?_, ?_, ?_, hareg', ?_, ?_⟩
    · unfold baseFoldsLoop
      exact Run.bind r1 (Run.bind r2 (Run.bind r3 (Run.bind r4 (Run.bind r5 (Run.bind r6 (Run.bind r7 (Run.bind r8 hrun)))))))
    · have : i + (f :: rest).length = i + 1 + rest.length := by simp; omega
      rw [this]; exact cS'
    · have : i + (f :: rest).length = i + 1 + rest.length := by simp; omega
      rw [this]; exact cR'
    · intro k hk
      have hk' : k < i + 1 + rest.length := by simp at hk; omega
      obtain ⟨v1, v2⟩ := hv' k hk'
      exact ⟨v1.mono (by omega), v2.mono (by omega)⟩
    · intro k hk
      exact hreach' k (by simp at hk; omega)
    · obtain ⟨ts6, hts6, hlive6, hmap6⟩ := hit.trains
      have htr8 : g8.trains = g6.trains := by rw [hg8]; rfl
      refine ⟨ts6 ++ ts', by rw [hts', htr8, hts6, List.append_assoc], ?_, ?_⟩
      · intro x hx
        rcases List.mem_append.mp hx with h | h
        · obtain ⟨x1, x2⟩ := hlive6 x h
          have e1 : x.train.node < g8.next := by rw [hn8]; exact hlt6 _ x1
          have e2 : x.label.node < g8.next := by rw [hn8]; exact hlt6 _ x2
          exact ⟨((hl'.agree _ e1).1).mpr x1, ((hl'.agree _ e2).1).mpr x2⟩
        · exact hlive' x h
      · rw [List.map_append, hmap', List.length_cons, List.range_succ_eq_map, List.flatMap_cons, List.flatMap_map]
        congr 1
        · simp only [Nat.add_zero]
          rw [← hmap6]
          apply List.map_congr_left
          intro x hx
          obtain ⟨x1, x2⟩ := hlive6 x hx
          have e1 : x.train.node < g8.next := by rw [hn8]; exact hlt6 _ x1
          have e2 : x.label.node < g8.next := by rw [hn8]; exact hlt6 _ x2
          unfold trainedUnder
          rw [hl'.agree.σ _ e1, hl'.agree.σ _ e2]
        · apply flatMap_congr'
          intro j _
          have : i + 1 + j = i + (j + 1) := by omega
          simp only [Function.comp, this]

end ForML.Compose
