/-
C17: the binary64 comparison `count / total < target` of `Slot.eligible` agrees with the exact rational
comparison `count * W < w * total` of the model whenever `total * W < 2^52` (lemmas about
Model/StrategyFloat.lean).  Pure natural-number arithmetic: an explicit half-ulp error bound for the rounded
quotients, the gap `1 / (total * W)` between two different quotients, and the fact that the rounded quotient
depends on the ratio only (for the boundary `count / total = w / W`).
-/
import ForML.Model.StrategyFloat

namespace ForML.Strategy

/-! ### the normalising exponent -/

theorem shiftFrom_spec (a b : Nat) : ∀ fuel e, (∃ k, k < fuel ∧ 2 ^ 52 * b ≤ a * 2 ^ (e + k)) →
    2 ^ 52 * b ≤ a * 2 ^ (shiftFrom a b fuel e) ∧ e ≤ shiftFrom a b fuel e ∧
      ∀ j, e ≤ j → j < shiftFrom a b fuel e → ¬ 2 ^ 52 * b ≤ a * 2 ^ j := by
  intro fuel
  induction fuel with
  | zero => intro e ⟨k, hk, _⟩; omega
  | succ fuel ih =>
    intro e ⟨k, hk, hc⟩
    simp only [shiftFrom]
    split
    · rename_i h
      exact ⟨h, Nat.le_refl _, by intro j h1 h2; omega⟩
    · rename_i h
      have hk0 : k ≠ 0 := by
        intro h0; subst h0; exact h (by simpa using hc)
      obtain ⟨h1, h2, h3⟩ := ih (e + 1) ⟨k - 1, by omega, by
        have : e + 1 + (k - 1) = e + k := by omega
        rw [this]; exact hc⟩
      refine ⟨h1, by omega, ?_⟩
      intro j hj1 hj2
      by_cases hje : j = e
      · subst hje; exact h
      · exact h3 j (by omega) hj2

theorem shiftOf_spec {a b : Nat} (ha : 0 < a) :
    2 ^ 52 * b ≤ a * 2 ^ (shiftOf a b) ∧ ∀ j, j < shiftOf a b → ¬ 2 ^ 52 * b ≤ a * 2 ^ j := by
  have hex : ∃ k, k < b + 53 ∧ 2 ^ 52 * b ≤ a * 2 ^ (0 + k) := by
    refine ⟨b + 52, by omega, ?_⟩
    have h1 : b < 2 ^ b := Nat.lt_two_pow_self
    have h2 : 2 ^ (0 + (b + 52)) = 2 ^ 52 * 2 ^ b := by
      rw [Nat.zero_add, Nat.add_comm, Nat.pow_add]
    rw [h2]
    calc 2 ^ 52 * b ≤ 2 ^ 52 * 2 ^ b := Nat.mul_le_mul_left _ (Nat.le_of_lt h1)
      _ = 1 * (2 ^ 52 * 2 ^ b) := (Nat.one_mul _).symm
      _ ≤ a * (2 ^ 52 * 2 ^ b) := Nat.mul_le_mul_right _ ha
  obtain ⟨h1, _, h3⟩ := shiftFrom_spec a b (b + 53) 0 hex
  exact ⟨h1, fun j hj => h3 j (Nat.zero_le _) hj⟩

/-- `2^52 ≤ a * 2^e / b < 2^53` -/
theorem shiftOf_bracket {a b : Nat} (ha : 0 < a) (hab : a ≤ b) :
    0 < shiftOf a b ∧ 2 ^ 52 * b ≤ a * 2 ^ (shiftOf a b) ∧ a * 2 ^ (shiftOf a b) < 2 ^ 53 * b := by
  obtain ⟨h1, h2⟩ := shiftOf_spec (b := b) ha
  have hpos : 0 < shiftOf a b := by
    apply Nat.pos_of_ne_zero
    intro h0
    rw [h0] at h1
    simp at h1
    omega
  refine ⟨hpos, h1, ?_⟩
  have := h2 (shiftOf a b - 1) (by omega)
  have hp : 2 ^ (shiftOf a b) = 2 * 2 ^ (shiftOf a b - 1) := by
    have : shiftOf a b = (shiftOf a b - 1) + 1 := by omega
    rw [this, Nat.pow_succ]; simp; omega
  rw [hp]
  have h53 : (2 : Nat) ^ 53 = 2 * 2 ^ 52 := by decide
  rw [h53]
  have : a * (2 * 2 ^ (shiftOf a b - 1)) = 2 * (a * 2 ^ (shiftOf a b - 1)) := by
    rw [Nat.mul_left_comm]
  rw [this, Nat.mul_assoc]
  omega

/-! ### round half even -/

theorem rhe_spec (x : Nat) {b : Nat} (hb : 0 < b) :
    x / b ≤ roundHalfEven x b ∧ roundHalfEven x b ≤ x / b + 1 ∧
      2 * x ≤ 2 * roundHalfEven x b * b + b ∧ 2 * roundHalfEven x b * b ≤ 2 * x + b := by
  have hx : b * (x / b) + x % b = x := Nat.div_add_mod x b
  have hr : x % b < b := Nat.mod_lt _ hb
  unfold roundHalfEven
  split
  · refine ⟨Nat.le_refl _, Nat.le_succ _, ?_, ?_⟩ <;> grind
  · split
    · refine ⟨Nat.le_succ _, Nat.le_refl _, ?_, ?_⟩ <;> grind
    · split
      · refine ⟨Nat.le_refl _, Nat.le_succ _, ?_, ?_⟩ <;> grind
      · refine ⟨Nat.le_succ _, Nat.le_refl _, ?_, ?_⟩ <;> grind

/-! ### the rounded quotient: range, half-ulp error bound -/

/-- for `0 < a ≤ b` the result `(m, e)` of `fdiv a b` is a normal binary64 (`2^52 ≤ m < 2^53`) within half a unit in
the last place of `a / b` (`|a * 2^e - m * b| ≤ b / 2`), and `52 ≤ e` (the value is at most 1). -/
theorem fdiv_spec {a b : Nat} (ha : 0 < a) (hab : a ≤ b) :
    2 ^ 52 ≤ (fdiv a b).1 ∧ (fdiv a b).1 < 2 ^ 53 ∧
      2 * (a * 2 ^ (fdiv a b).2) ≤ 2 * (fdiv a b).1 * b + b ∧
      2 * (fdiv a b).1 * b ≤ 2 * (a * 2 ^ (fdiv a b).2) + b ∧ 52 ≤ (fdiv a b).2 := by
  have hb : 0 < b := by omega
  obtain ⟨hpos, hlo, hhi⟩ := shiftOf_bracket ha hab
  obtain ⟨hq1, hq2, he1, he2⟩ := rhe_spec (a * 2 ^ (shiftOf a b)) hb
  have hqlo : 2 ^ 52 ≤ a * 2 ^ (shiftOf a b) / b := (Nat.le_div_iff_mul_le hb).mpr hlo
  have hqhi : a * 2 ^ (shiftOf a b) / b < 2 ^ 53 := (Nat.div_lt_iff_lt_mul hb).mpr hhi
  -- the core facts, for whichever branch
  have core : 2 ^ 52 ≤ (fdiv a b).1 ∧ (fdiv a b).1 < 2 ^ 53 ∧
      2 * (a * 2 ^ (fdiv a b).2) ≤ 2 * (fdiv a b).1 * b + b ∧
      2 * (fdiv a b).1 * b ≤ 2 * (a * 2 ^ (fdiv a b).2) + b := by
    unfold fdiv
    simp only
    split
    · rename_i hm
      rw [hm] at he1 he2
      have hp : 2 ^ (shiftOf a b) = 2 * 2 ^ (shiftOf a b - 1) := by
        have : shiftOf a b = (shiftOf a b - 1) + 1 := by omega
        rw [this, Nat.pow_succ]; simp; omega
      have hx : a * 2 ^ (shiftOf a b) = 2 * (a * 2 ^ (shiftOf a b - 1)) := by
        rw [hp, Nat.mul_left_comm]
      rw [hx] at he1 he2
      have h53 : (2 : Nat) ^ 53 = 2 * 2 ^ 52 := by decide
      rw [h53] at he1 he2
      refine ⟨Nat.le_refl _, by show (2 : Nat) ^ 52 < 2 ^ 53; decide, ?_, ?_⟩
      · simp only; grind
      · simp only; grind
    · rename_i hm
      refine ⟨by omega, by omega, he1, he2⟩
  obtain ⟨c1, c2, c3, c4⟩ := core
  refine ⟨c1, c2, c3, c4, ?_⟩
  -- the exponent: the value is at most 1
  apply Nat.le_of_not_lt
  intro hlt
  have hpow : 2 ^ (fdiv a b).2 ≤ 2 ^ 51 := Nat.pow_le_pow_right (by decide) (by omega)
  have h1 : a * 2 ^ (fdiv a b).2 ≤ b * 2 ^ 51 := Nat.mul_le_mul hab hpow
  have h2 : 2 ^ 52 * b ≤ (fdiv a b).1 * b := Nat.mul_le_mul_right _ c1
  have h3 : 2 * (fdiv a b).1 * b = 2 * ((fdiv a b).1 * b) := Nat.mul_assoc _ _ _
  rw [h3] at c4
  omega

/-! ### the rounded quotient depends on the ratio only -/

theorem cancel_le {x y k : Nat} (hk : 0 < k) (h : x * k ≤ y * k) : x ≤ y := Nat.le_of_mul_le_mul_right h hk

theorem cancel_lt {x y k : Nat} (h : x * k < y * k) : x < y := Nat.lt_of_mul_lt_mul_right h

theorem div_ratio {x b x' b' : Nat} (hb : 0 < b) (hb' : 0 < b') (h : x * b' = x' * b) : x / b = x' / b' := by
  apply Nat.le_antisymm
  · apply (Nat.le_div_iff_mul_le hb').mpr
    have h1 : x / b * b ≤ x := Nat.div_mul_le_self x b
    apply cancel_le hb
    have := Nat.mul_le_mul_right b' h1
    grind
  · apply (Nat.le_div_iff_mul_le hb).mpr
    have h1 : x' / b' * b' ≤ x' := Nat.div_mul_le_self x' b'
    apply cancel_le hb'
    have := Nat.mul_le_mul_right b h1
    grind

theorem rhe_ratio {x b x' b' : Nat} (hb : 0 < b) (hb' : 0 < b') (h : x * b' = x' * b) :
    roundHalfEven x b = roundHalfEven x' b' := by
  have hq := div_ratio hb hb' h
  have hx : b * (x / b) + x % b = x := Nat.div_add_mod x b
  have hx' : b' * (x' / b') + x' % b' = x' := Nat.div_add_mod x' b'
  rw [← hq] at hx'
  have hr : x % b * b' = x' % b' * b := by grind
  have c1 : 2 * (x % b) < b ↔ 2 * (x' % b') < b' := by
    constructor
    · intro hlt
      apply cancel_lt (k := b)
      have := Nat.mul_lt_mul_of_pos_right hlt hb'
      grind
    · intro hlt
      apply cancel_lt (k := b')
      have := Nat.mul_lt_mul_of_pos_right hlt hb
      grind
  have c2 : b < 2 * (x % b) ↔ b' < 2 * (x' % b') := by
    constructor
    · intro hlt
      apply cancel_lt (k := b)
      have := Nat.mul_lt_mul_of_pos_right hlt hb'
      grind
    · intro hlt
      apply cancel_lt (k := b')
      have := Nat.mul_lt_mul_of_pos_right hlt hb
      grind
  unfold roundHalfEven
  rw [← hq]
  by_cases h1 : 2 * (x % b) < b
  · have h1' := c1.mp h1
    simp [h1, h1']
  · have h1' : ¬ 2 * (x' % b') < b' := fun hh => h1 (c1.mpr hh)
    by_cases h2 : b < 2 * (x % b)
    · have h2' := c2.mp h2
      simp [h1, h1', h2, h2']
    · have h2' : ¬ b' < 2 * (x' % b') := fun hh => h2 (c2.mpr hh)
      simp [h1, h1', h2, h2']

theorem shiftOf_ratio {a b a' b' : Nat} (ha : 0 < a) (ha' : 0 < a') (hb : 0 < b) (hb' : 0 < b')
    (h : a * b' = a' * b) : shiftOf a b = shiftOf a' b' := by
  have key : ∀ j, 2 ^ 52 * b ≤ a * 2 ^ j ↔ 2 ^ 52 * b' ≤ a' * 2 ^ j := by
    intro j
    constructor
    · intro hle
      apply cancel_le hb
      have := Nat.mul_le_mul_right b' hle
      grind
    · intro hle
      apply cancel_le hb'
      have := Nat.mul_le_mul_right b hle
      grind
  obtain ⟨h1, h2⟩ := shiftOf_spec (b := b) ha
  obtain ⟨h1', h2'⟩ := shiftOf_spec (b := b') ha'
  apply Nat.le_antisymm
  · apply Nat.le_of_not_lt
    intro hlt
    exact h2 _ hlt ((key _).mpr h1')
  · apply Nat.le_of_not_lt
    intro hlt
    exact h2' _ hlt ((key _).mp h1)

/-- equal ratios round to the same binary64 (the boundary `count / total = w / W`) -/
theorem fdiv_ratio {a b a' b' : Nat} (ha : 0 < a) (ha' : 0 < a') (hb : 0 < b) (hb' : 0 < b')
    (h : a * b' = a' * b) : fdiv a b = fdiv a' b' := by
  have hs := shiftOf_ratio ha ha' hb hb' h
  have hr : roundHalfEven (a * 2 ^ (shiftOf a b)) b = roundHalfEven (a' * 2 ^ (shiftOf a' b')) b' := by
    rw [← hs]
    apply rhe_ratio hb hb'
    grind
  unfold fdiv
  rw [hs] at hr
  simp only [hs, hr]

/-! ### comparison -/

/-- different quotients whose denominators multiply to less than `2^52` stay apart after rounding -/
theorem fLt_of_lt {c n w W : Nat} (hc : 0 < c) (hcn : c ≤ n) (hw : 0 < w) (hwW : w ≤ W)
    (hnW : n * W < 2 ^ 52) (h : c * W < w * n) : fLt (fdiv c n) (fdiv w W) = true := by
  obtain ⟨_, _, _, h1, e1⟩ := fdiv_spec hc hcn
  obtain ⟨_, _, h2, _, e2⟩ := fdiv_spec hw hwW
  have hA : 2 ^ 52 ≤ 2 ^ (fdiv c n).2 := Nat.pow_le_pow_right (by decide) e1
  have hB : 2 ^ 52 ≤ 2 ^ (fdiv w W).2 := Nat.pow_le_pow_right (by decide) e2
  unfold fLt
  simp only [decide_eq_true_eq]
  generalize (fdiv c n).1 = m1 at *
  generalize (fdiv w W).1 = m2 at *
  generalize 2 ^ (fdiv c n).2 = A at *
  generalize 2 ^ (fdiv w W).2 = B at *
  generalize (2 : Nat) ^ 52 = P at *
  apply Nat.lt_of_not_le
  intro hn
  have h3 : c * W + 1 ≤ w * n := h
  have g1 := Nat.mul_le_mul_right (W * B) h1
  have g2 := Nat.mul_le_mul_right (n * A) h2
  have g3 := Nat.mul_le_mul_right (2 * A * B) h3
  have g4 := Nat.mul_le_mul_left (2 * n * W) hn
  have hApos : 0 < A := by omega
  have hBpos : 0 < B := by omega
  have g5 : n * W * A < B * A := Nat.mul_lt_mul_of_lt_of_le (by omega) (Nat.le_refl _) hApos
  have g6 : n * W * B < A * B := Nat.mul_lt_mul_of_lt_of_le (by omega) (Nat.le_refl _) hBpos
  grind

theorem fLt_irrefl (x : Nat × Nat) : fLt x x = false := by simp [fLt]

theorem fLt_asymm {x y : Nat × Nat} (h : fLt x y = true) : fLt y x = false := by
  simp only [fLt, decide_eq_true_eq, decide_eq_false_iff_not] at *
  omega

/-- **float = rational**: for `0 < c ≤ n`, `0 < w ≤ W` and `n * W < 2^52` the binary64 comparison of the two
rounded quotients is the exact comparison of the rationals. -/
theorem fLt_iff {c n w W : Nat} (hc : 0 < c) (hcn : c ≤ n) (hw : 0 < w) (hwW : w ≤ W) (hnW : n * W < 2 ^ 52) :
    fLt (fdiv c n) (fdiv w W) = true ↔ c * W < w * n := by
  constructor
  · intro h
    apply Nat.lt_of_not_le
    intro hle
    rcases Nat.lt_or_eq_of_le hle with hlt | heq
    · have := fLt_of_lt hw hwW hc hcn (by rw [Nat.mul_comm]; exact hnW) (by
        rw [Nat.mul_comm w n, Nat.mul_comm c W] at hlt
        rw [Nat.mul_comm w n, Nat.mul_comm c W]
        grind)
      rw [fLt_asymm this] at h; cases h
    · have := fdiv_ratio hc hw (by omega) (by omega) (show c * W = w * n from heq.symm)
      rw [this, fLt_irrefl] at h; cases h
  · exact fLt_of_lt hc hcn hw hwW hnW

/-- `Slot.eligible` in binary64 = the exact eligibility of the model -/
theorem fEligible_iff {W n w c : Nat} (hn : 0 < n) (hcn : c ≤ n) (hw : 0 < w) (hwW : w ≤ W) (hnW : n * W < 2 ^ 52) :
    fEligible W n w c = true ↔ c * W < w * n := by
  unfold fEligible
  by_cases hc : c = 0
  · subst hc
    simp
    exact Nat.mul_pos hw hn
  · have : (c == 0) = false := by simp [hc]
    rw [this, Bool.false_or]
    exact fLt_iff (by omega) hcn hw hwW hnW

/-- every slot of a request: weight positive and at most the sum, count at most the request number -/
def SlotsOK (W n : Nat) (sl : List Slot) : Prop := ∀ x ∈ sl, 0 < x.1 ∧ x.1 ≤ W ∧ x.2 ≤ n

theorem fHitFirst_eq {W n : Nat} (hn : 0 < n) (hnW : n * W < 2 ^ 52) (sl : List Slot) (hs : SlotsOK W n sl) :
    fHitFirst W n sl = hitFirst W n sl := by
  induction sl with
  | nil => rfl
  | cons x r ih =>
    obtain ⟨w, c⟩ := x
    obtain ⟨h1, h2, h3⟩ := hs (w, c) (by simp)
    have hiff := fEligible_iff hn h3 h1 h2 hnW
    have ih' := ih (fun y hy => hs y (by simp [hy]))
    simp only [fHitFirst, hitFirst, ih']
    by_cases he : c * W < w * n
    · simp [he, hiff.mpr he]
    · have : fEligible W n w c = false := by
        cases hf : fEligible W n w c with
        | false => rfl
        | true => exact absurd (hiff.mp hf) he
      simp [he, this]

theorem fPickIdx_eq {W n : Nat} (hn : 0 < n) (hnW : n * W < 2 ^ 52) (sl : List Slot) (hs : SlotsOK W n sl) :
    fPickIdx W n sl = pickIdx W n sl := by
  induction sl with
  | nil => rfl
  | cons x r ih =>
    obtain ⟨w, c⟩ := x
    obtain ⟨h1, h2, h3⟩ := hs (w, c) (by simp)
    have hiff := fEligible_iff hn h3 h1 h2 hnW
    have ih' := ih (fun y hy => hs y (by simp [hy]))
    simp only [fPickIdx, pickIdx, ih']
    by_cases he : c * W < w * n
    · simp [he, hiff.mpr he]
    · have : fEligible W n w c = false := by
        cases hf : fEligible W n w c with
        | false => rfl
        | true => exact absurd (hiff.mp hf) he
      simp [he, this]

end ForML.Strategy
