/-
C03 — helper lemmas, part 1: certified valuations of a task graph.

A `World` assigns to every output port a value `σ`, to every node a rank `h` and marks the nodes whose local
constraint has been established (`live`).  `Inv g W` says that every live node is *locally good*: a bound
`Future` carries the value of its publisher, a worker carries `apply tag state args` where the arguments are the
values of its publishers and the state is what its group's trainer computes from the values on the trainer's
`Train`/`Label` ports; every reference goes to a live node of smaller rank.  An unbound live `Future` is a
parameter (a hole).

`eval_sound`: under `Inv`, the fuel-indexed evaluator of `Model/Compose.lean` returns exactly `σ` on every live
port as soon as the fuel exceeds the rank — this turns the evaluation of a composed graph into local reasoning
about the construction steps (no substitution lemma is needed: binding a hole only adds a local constraint).
-/
import ForML.Model.Compose
import ForML.Model.Denote

namespace ForML.Compose

/-! ### the construction monad, relationally -/

/-- `m` run from `g` succeeds with result `a` and graph `g'` -/
def Run (m : GraphM α) (g : Graph) (a : α) (g' : Graph) : Prop := m g = .ok (a, g')

theorem bind_apply (m : GraphM α) (f : α → GraphM β) (g : Graph) :
    (m >>= f) g = match m g with
      | .ok (a, g') => f a g'
      | .error e => .error e := by
  show GraphM.bind m f g = _
  unfold GraphM.bind
  rfl

theorem pure_apply (a : α) (g : Graph) : (pure a : GraphM α) g = .ok (a, g) := rfl

theorem Run.bind {m : GraphM α} {f : α → GraphM β} (h1 : Run m g a g1) (h2 : Run (f a) g1 b g2) :
    Run (m >>= f) g b g2 := by
  unfold Run at *
  rw [bind_apply, h1]
  exact h2

theorem Run.pure (a : α) (g : Graph) : Run (pure a : GraphM α) g a g := rfl

/-! ### worlds -/

structure World where
  σ : PubRef → Val
  h : Nat → Nat
  live : Nat → Prop

def World.empty : World := ⟨fun _ => .none, fun _ => 0, fun _ => False⟩

/-- make node `u` live with port values `v` and rank `r` -/
def World.set (W : World) (u : Nat) (v : Nat → Val) (r : Nat) : World :=
  { σ := fun p => if p.node = u then v p.idx else W.σ p
    h := fun n => if n = u then r else W.h n
    live := fun n => n = u ∨ W.live n }

/-- value of output port `idx` of a worker with `szout` ports whose actor returned `out` -/
def portVal (szout idx : Nat) (out : Val) : Val := if szout == 1 then out else .proj idx out

/-- a reference to publisher `q` from a node of rank `r` -/
def RefOk (W : World) (q : PubRef) (r : Nat) : Prop := W.live q.node ∧ W.h q.node < r

/-- the state a member (of rank `r`) of group `gid` runs on -/
def StateFor (g : Graph) (W : World) (gid : Nat) (a : Actor) (r : Nat) (st : Val) : Prop :=
  if a.stateful then
    match g.trainerOf gid with
    | none => st = .none
    | some t => RefOk W t.train r ∧ RefOk W t.label r ∧ st = .state a.tag .none (W.σ t.train) (W.σ t.label)
  else st = .none

def GoodState (g : Graph) (W : World) (n gid : Nat) (a : Actor) (st : Val) : Prop := StateFor g W gid a (W.h n) st

def GoodNode (g : Graph) (W : World) (n : Nat) : Prop :=
  match g.kindOf n with
  | none => False
  | some .future =>
    match g.inputOf n 0 with
    | none => True
    | some q => RefOk W q (W.h n) ∧ ∀ i, W.σ ⟨n, i⟩ = W.σ q
  | some (.worker gid a szin szout) =>
    ∃ ins : Nat → PubRef,
      (∀ k, k < szin → g.inputOf n k = some (ins k) ∧ RefOk W (ins k) (W.h n)) ∧
      ∃ st, GoodState g W n gid a st ∧
        ∀ i, W.σ ⟨n, i⟩ = portVal szout i (.apply a.tag st ((List.range szin).map (fun k => W.σ (ins k))))

/-- an unbound `Future` -/
def Graph.isOpen (g : Graph) (n : Nat) : Prop := g.kindOf n = some .future ∧ g.inputOf n 0 = none

structure Inv (g : Graph) (W : World) : Prop where
  nodesLt : ∀ n ∈ g.nodes, n.uid < g.next
  gidsLt : ∀ n ∈ g.nodes, ∀ gid a i o, n.kind = .worker gid a i o → gid < g.next
  edgesLt : ∀ e ∈ g.edges, e.sub < g.next
  trainsLt : ∀ t ∈ g.trains, t.gid < g.next
  liveLt : ∀ n, W.live n → n < g.next ∧ W.h n < g.next
  good : ∀ n, W.live n → GoodNode g W n

/-! ### lookups -/

theorem kindOf_none_of_ge {g : Graph} {W : World} (hi : Inv g W) {u : Nat} (hu : g.next ≤ u) : g.kindOf u = none := by
  unfold Graph.kindOf
  have : g.nodes.find? (fun n => n.uid == u) = none := by
    apply List.find?_eq_none.mpr
    intro n hn
    have := hi.nodesLt n hn
    simp; omega
  simp [this]

theorem inputOf_none_of_ge {g : Graph} {W : World} (hi : Inv g W) {u : Nat} (hu : g.next ≤ u) (k : Nat) :
    g.inputOf u k = none := by
  unfold Graph.inputOf
  have : g.edges.find? (fun e => e.sub == u && e.port == k) = none := by
    apply List.find?_eq_none.mpr
    intro e he
    have := hi.edgesLt e he
    simp; omega
  simp [this]

theorem trainerOf_none_of_ge {g : Graph} {W : World} (hi : Inv g W) {gid : Nat} (hu : g.next ≤ gid) :
    g.trainerOf gid = none := by
  unfold Graph.trainerOf
  apply List.find?_eq_none.mpr
  intro t ht
  have := hi.trainsLt t ht
  simp; omega

/-! ### soundness of the evaluator w.r.t. a certified valuation -/

theorem mapM_some_of_forall {f : Nat → Option Val} {v : Nat → Val} (l : List Nat) (h : ∀ k ∈ l, f k = some (v k)) :
    l.mapM f = some (l.map v) := by
  induction l with
  | nil => rfl
  | cons x xs ih =>
    rw [List.mapM_cons, h x (List.mem_cons_self), ih (fun k hk => h k (List.mem_cons_of_mem _ hk))]
    rfl

theorem eval_sound {g : Graph} {W : World} (hi : Inv g W) (ρ : Nat → Val)
    (hρ : ∀ n, W.live n → g.isOpen n → ∀ i, W.σ ⟨n, i⟩ = ρ n) :
    ∀ (d : Nat) (p : PubRef), W.live p.node → W.h p.node < d → eval g ρ d p = some (W.σ p) := by
  intro d
  induction d with
  | zero => intro p _ h; omega
  | succ d ih =>
    intro p hl hd
    have hg := hi.good p.node hl
    rw [eval]
    unfold GoodNode at hg
    cases hk : g.kindOf p.node with
    | none => simp [hk] at hg
    | some k =>
      cases k with
      | future =>
        simp only [hk] at hg ⊢
        cases hin : g.inputOf p.node 0 with
        | none =>
          simp only
          have := hρ p.node hl ⟨hk, hin⟩ p.idx
          rw [← this]
        | some q =>
          simp only [hin] at hg ⊢
          obtain ⟨⟨hql, hqh⟩, hσ⟩ := hg
          rw [ih q hql (by omega)]
          have := hσ p.idx
          rw [← this]
      | worker gid a szin szout =>
        simp only [hk] at hg ⊢
        obtain ⟨ins, hins, st, hst, hσ⟩ := hg
        have hargs : (List.range szin).mapM (fun k => (g.inputOf p.node k).bind (eval g ρ d))
            = some ((List.range szin).map (fun k => W.σ (ins k))) := by
          apply mapM_some_of_forall
          intro k hk'
          have hk'' : k < szin := List.mem_range.mp hk'
          obtain ⟨hin, hql, hqh⟩ := hins k hk''
          rw [hin]
          simp only [Option.bind]
          exact ih (ins k) hql (by omega)
        have hstate : stateOf g (eval g ρ d) gid a = some st := by
          unfold stateOf
          unfold GoodState StateFor at hst
          by_cases hsf : a.stateful = true
          · simp only [hsf, if_true] at hst ⊢
            cases ht : g.trainerOf gid with
            | none => simp only [ht] at hst ⊢; rw [hst]
            | some t =>
              simp only [ht] at hst ⊢
              obtain ⟨⟨h1l, h1h⟩, ⟨h2l, h2h⟩, hst⟩ := hst
              rw [ih t.train h1l (by omega), ih t.label h2l (by omega), hst]
          · simp only [hsf] at hst ⊢
            simp at hst ⊢
            exact hst.symm
        rw [hargs, hstate]
        simp only
        have := hσ p.idx
        rw [this]
        rfl

/-- more fuel does not change a result -/
theorem eval_mono (g : Graph) (ρ : Nat → Val) :
    ∀ (d : Nat) (p : PubRef) (v : Val), eval g ρ d p = some v → eval g ρ (d + 1) p = some v := by
  intro d
  induction d with
  | zero => intro p v h; simp [eval] at h
  | succ d ih =>
    intro p v h
    rw [eval] at h ⊢
    cases hk : g.kindOf p.node with
    | none => simp [hk] at h
    | some k =>
      cases k with
      | future =>
        simp only [hk] at h ⊢
        cases hin : g.inputOf p.node 0 with
        | none => simp only [hin] at h ⊢; exact h
        | some q => simp only [hin] at h ⊢; exact ih q v h
      | worker gid a szin szout =>
        simp only [hk] at h ⊢
        -- arguments
        have hargs : ∀ (l : List Nat) (args : List Val),
            l.mapM (fun k => (g.inputOf p.node k).bind (eval g ρ d)) = some args →
            l.mapM (fun k => (g.inputOf p.node k).bind (eval g ρ (d + 1))) = some args := by
          intro l
          induction l with
          | nil => intro args h; exact h
          | cons x xs ihl =>
            intro args h
            rw [List.mapM_cons] at h ⊢
            cases hx : (g.inputOf p.node x).bind (eval g ρ d) with
            | none => simp [hx] at h
            | some vx =>
              cases hxs : xs.mapM (fun k => (g.inputOf p.node k).bind (eval g ρ d)) with
              | none => simp [hx, hxs] at h
              | some vxs =>
                have hx' : (g.inputOf p.node x).bind (eval g ρ (d + 1)) = some vx := by
                  cases hq : g.inputOf p.node x with
                  | none => simp [hq] at hx
                  | some q =>
                    simp only [hq, Option.bind] at hx ⊢
                    exact ih q vx hx
                rw [hx', ihl vxs hxs]
                simp [hx, hxs] at h
                simp [h]
        have hstate : ∀ st, stateOf g (eval g ρ d) gid a = some st → stateOf g (eval g ρ (d + 1)) gid a = some st := by
          intro st hs
          unfold stateOf at hs ⊢
          by_cases hsf : a.stateful = true
          · simp only [hsf, if_true] at hs ⊢
            cases ht : g.trainerOf gid with
            | none => simp only [ht] at hs ⊢; exact hs
            | some t =>
              simp only [ht] at hs ⊢
              cases h1 : eval g ρ d t.train with
              | none => simp [h1] at hs
              | some x =>
                cases h2 : eval g ρ d t.label with
                | none => simp [h1, h2] at hs
                | some y =>
                  rw [ih _ _ h1, ih _ _ h2]
                  simp [h1, h2] at hs
                  simp [hs]
          · simp only [hsf] at hs ⊢
            exact hs
        cases ha : (List.range szin).mapM (fun k => (g.inputOf p.node k).bind (eval g ρ d)) with
        | none => simp [ha] at h
        | some args =>
          cases hs : stateOf g (eval g ρ d) gid a with
          | none => simp [ha, hs] at h
          | some st =>
            rw [hargs _ _ ha, hstate _ hs]
            simp only [ha, hs] at h
            exact h

theorem eval_mono_le (g : Graph) (ρ : Nat → Val) {d d' : Nat} (hle : d ≤ d') (p : PubRef) (v : Val)
    (h : eval g ρ d p = some v) : eval g ρ d' p = some v := by
  induction hle with
  | refl => exact h
  | step _ ih => exact eval_mono g ρ _ p v ih

/-- evaluation of a live port with the fuel `run` uses -/
theorem eval_live {g : Graph} {W : World} (hi : Inv g W) (ρ : Nat → Val)
    (hρ : ∀ n, W.live n → g.isOpen n → ∀ i, W.σ ⟨n, i⟩ = ρ n) (p : PubRef) (hl : W.live p.node) :
    eval g ρ g.fuel p = some (W.σ p) := by
  have hb := (hi.liveLt p.node hl).2
  apply eval_mono_le g ρ (d := W.h p.node + 1) (by unfold Graph.fuel; omega)
  exact eval_sound hi ρ hρ _ p hl (by omega)

end ForML.Compose
