/-
C14 — helper lemmas, part 8: query contexts are independent.  The hints and the rows only depend on the registered
fields and factors (never on a pending error), a statement (query / set of queries) builds its contexts from scratch
(`stmt_indep`: same hints and rows whatever was registered before it is visited) and leaves the segments of the
enclosing context untouched (`stmt_state`).  Used by `ForML.Props.C14` (`C14_context_independent`, `C14_context_isolated`).
-/
import ForML.Lemmas.C14Cols

namespace ForML.PushDown
open ForML.Dsl

theorem hintOf_congr {st st' : Segs} (hf : st.fields = st'.fields) (hk : st.factors = st'.factors) (k t : Source) :
    hintOf st k t = hintOf st' k t := by
  simp [hintOf, hf, hk]

theorem filter_core {fix len : Bool} {st st' : Segs} (e : Feature) (ex : List Source)
    (hf : st.fields = st'.fields) (hk : st.factors = st'.factors) :
    (st.filter fix len e ex).fields = (st'.filter fix len e ex).fields ∧
      (st.filter fix len e ex).factors = (st'.filter fix len e ex).factors := by
  unfold Segs.filter
  cases factorsOf len e <;> simp [Segs.select, hf, hk]

theorem filterOpt_core {fix len : Bool} {st st' : Segs} (c : FeatureOpt) (ex : List Source)
    (hf : st.fields = st'.fields) (hk : st.factors = st'.factors) :
    (st.filterOpt fix len c ex).fields = (st'.filterOpt fix len c ex).fields ∧
      (st.filterOpt fix len c ex).factors = (st'.filterOpt fix len c ex).factors := by
  cases c with
  | none => exact ⟨hf, hk⟩
  | some c => exact filter_core c ex hf hk

theorem joinCtx_core {fix len : Bool} {st st' : Segs} (l r : Source) (k : JoinKind) (c : FeatureOpt)
    (hf : st.fields = st'.fields) (hk : st.factors = st'.factors) :
    (joinCtx fix len st l r k c).fields = (joinCtx fix len st' l r k c).fields ∧
      (joinCtx fix len st l r k c).factors = (joinCtx fix len st' l r k c).factors := by
  unfold joinCtx
  exact filterOpt_core c _ (by simpa using hf) (by simp [Segs.release, hk])

/-- the context of a query is built from scratch: only a pending error is carried into it -/
theorem queryCtx_core (fix len : Bool) (e e' : Option Err) (src : Source) (sel : Features) (pre : FeatureOpt)
    (grp : Features) (post : FeatureOpt) (ord : Orderings) :
    (queryCtx fix len e src sel pre grp post ord).fields = (queryCtx fix len e' src sel pre grp post ord).fields ∧
      (queryCtx fix len e src sel pre grp post ord).factors = (queryCtx fix len e' src sel pre grp post ord).factors := by
  unfold queryCtx
  have h := filterOpt_core (fix := fix) (len := len)
    (st := ({ err := e } : Segs).select fix (if sel.isEmpty then features src else sel.toList))
    (st' := ({ err := e' } : Segs).select fix (if sel.isEmpty then features src else sel.toList)) pre [] rfl rfl
  simp only [select_fields, select_factors]
  rw [h.1, h.2]
  exact ⟨rfl, rfl⟩

/-- hints, rows and the registered fields / factors afterwards only depend on the registered fields and factors -/
theorem run_core (fix len : Bool) (S : Sem) (B : Backend) (db : Db) :
    ∀ (s : Source) (st st' : Segs), st.fields = st'.fields → st.factors = st'.factors →
      (run fix len S B db s st).hints = (run fix len S B db s st').hints ∧
      (run fix len S B db s st).envs = (run fix len S B db s st').envs ∧
      (run fix len S B db s st).st.fields = (run fix len S B db s st').st.fields ∧
      (run fix len S B db s st).st.factors = (run fix len S B db s st').st.factors
  | .table n fs, st, st', hf, hk => by
    simp only [run]
    rw [hintOf_congr hf hk]
    exact ⟨rfl, rfl, hf, hk⟩
  | .ref i nm, st, st', hf, hk => by
    simp only [run]
    by_cases ht : isTable i = true
    · simp only [ht, if_true]
      rw [hintOf_congr hf hk]
      exact ⟨rfl, rfl, hf, hk⟩
    · simp only [ht, Bool.false_eq_true, if_false]
      have ih := run_core fix len S B db i st st' hf hk
      exact ⟨ih.1, by rw [ih.2.1], ih.2.2⟩
  | .join l r k c, st, st', hf, hk => by
    simp only [run]
    have h0 := joinCtx_core (fix := fix) (len := len) l r k c hf hk
    have ha := run_core fix len S B db l _ _ h0.1 h0.2
    have hb := run_core fix len S B db r _ _ ha.2.2.1 ha.2.2.2
    exact ⟨by rw [ha.1, hb.1], by rw [ha.2.1, hb.2.1], hb.2.2⟩
  | .set l r k, st, st', hf, hk => by
    simp only [run]
    have ha := run_core fix len S B db l _ _ hf hk
    have hb := run_core fix len S B db r _ _ ha.2.2.1 ha.2.2.2
    exact ⟨by rw [ha.1, hb.1], by rw [ha.2.1, hb.2.1], hb.2.2⟩
  | .query src sel pre grp post ord rows, st, st', hf, hk => by
    simp only [run]
    have h0 := queryCtx_core fix len st.err st'.err src sel pre grp post ord
    have ha := run_core fix len S B db src _ _ h0.1 h0.2
    exact ⟨ha.1, by rw [ha.2.1], hf, hk⟩

/-- a statement leaves the segments of the enclosing context untouched -/
theorem stmt_state (fix len : Bool) (S : Sem) (B : Backend) (db : Db) :
    ∀ (q : Source) (st : Segs), isStmt q = true → shaped q = true →
      (run fix len S B db q st).st.fields = st.fields ∧ (run fix len S B db q st).st.factors = st.factors
  | .table _ _, _, h, _ => by simp [isStmt] at h
  | .ref _ _, _, h, _ => by simp [isStmt] at h
  | .join _ _ _ _, _, h, _ => by simp [isStmt] at h
  | .set l r k, st, _, hw => by
    simp only [shaped, Bool.and_eq_true] at hw
    simp only [run]
    have ha := stmt_state fix len S B db l st hw.1.1.1 hw.1.2
    have hb := stmt_state fix len S B db r (run fix len S B db l st).st hw.1.1.2 hw.2
    exact ⟨hb.1.trans ha.1, hb.2.trans ha.2⟩
  | .query src sel pre grp post ord rows, st, _, _ => by simp [run]

/-- a statement offers the same hints and yields the same rows whatever has been registered before it is visited -/
theorem stmt_indep (fix len : Bool) (S : Sem) (B : Backend) (db : Db) :
    ∀ (q : Source) (st st' : Segs), isStmt q = true → shaped q = true →
      (run fix len S B db q st).hints = (run fix len S B db q st').hints ∧
      (run fix len S B db q st).envs = (run fix len S B db q st').envs
  | .table _ _, _, _, h, _ => by simp [isStmt] at h
  | .ref _ _, _, _, h, _ => by simp [isStmt] at h
  | .join _ _ _ _, _, _, h, _ => by simp [isStmt] at h
  | .set l r k, st, st', _, hw => by
    simp only [shaped, Bool.and_eq_true] at hw
    simp only [run]
    have ha := stmt_indep fix len S B db l st st' hw.1.1.1 hw.1.2
    have hb := stmt_indep fix len S B db r (run fix len S B db l st).st (run fix len S B db l st').st hw.1.1.2 hw.2
    exact ⟨by rw [ha.1, hb.1], by rw [ha.2, hb.2]⟩
  | .query src sel pre grp post ord rows, st, st', _, _ => by
    simp only [run]
    have h0 := queryCtx_core fix len st.err st'.err src sel pre grp post ord
    have ha := run_core fix len S B db src _ _ h0.1 h0.2
    exact ⟨ha.1, by rw [ha.2.1]⟩

end ForML.PushDown
