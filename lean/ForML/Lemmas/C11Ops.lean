/-
C11 helper lemmas, part 7: the calls built on top of `subscribe` (`Segment.extend`, `Trunk.extend`,
`flow.Composition`) and `Trunk(...)`.

`Wire g g'`: `g'` is reached from `g` by subscriptions that were all accepted.  Every compound call of the model
relates its input and output state by `Wire` (a refused subscription leaves no trace, so it does not show), hence
every invariant kept by one accepted subscription is kept by the compound calls.
-/
import ForML.Lemmas.C11Closure

namespace ForML.Graph

theorem node_kind (g : G) (n : Nat) (h : n < g.nodes.length) :
    isWorker g n = true ∨ isFuture g n = true := by
  unfold isWorker isFuture
  have : g.nodes[n]? = some g.nodes[n] := List.getElem?_eq_getElem h
  rw [this]
  rcases g.nodes[n] with ⟨k, a, b⟩
  cases k <;> simp

/-! ### one `subscribe` -/

theorem subscribe_wf (g : G) (s j p pi : Nat) (hw : Wf g) : Wf (subscribe g s j p pi).1 := by
  simp only [subscribe]
  split
  · exact hw
  · rename_i hlen
    have hs : s < g.nodes.length := by omega
    have hp : p < g.nodes.length := by omega
    split
    · rename_i hf; exact register_wf g s j p pi hw hf hp
    · rename_i hf
      have hwk : isWorker g s = true := by
        rcases node_kind g s hs with h | h
        · exact h
        · exact absurd h hf
      exact publish_wf g p pi ⟨s, .apply j⟩ hw hwk hp

theorem subscribe_atomic (g : G) (s j p pi : Nat) (hw : Wf g) (he : (subscribe g s j p pi).2.isErr = true) :
    (subscribe g s j p pi).1 = g := by
  simp only [subscribe] at he ⊢
  split
  · rfl
  · rename_i hlen
    simp only [hlen, ↓reduceIte] at he
    have hs : s < g.nodes.length := by omega
    have hp : p < g.nodes.length := by omega
    split
    · rename_i hf
      simp only [hf, ↓reduceIte] at he
      exact register_atomic g s j p pi hw hf hp he
    · rename_i hf
      simp only [hf] at he
      have hwk : isWorker g s = true := by
        rcases node_kind g s hs with h | h
        · exact h
        · exact absurd h hf
      exact publish_atomic g p pi ⟨s, .apply j⟩ hw hwk hp he

/-- `subscribe` answers an error (state untouched) or `ok` -/
theorem subscribe_res (g : G) (s j p pi : Nat) (hw : Wf g) :
    (∃ e, subscribe g s j p pi = (g, .err e)) ∨ (subscribe g s j p pi).2 = .ok := by
  simp only [subscribe]
  split
  · exact .inl ⟨_, rfl⟩
  · rename_i hlen
    have hs : s < g.nodes.length := by omega
    have hp : p < g.nodes.length := by omega
    split
    · rename_i hf
      rcases register_cases g s j p pi hw hf hp with ⟨e, h⟩ | ⟨L, h, _⟩
      · exact .inl ⟨e, h⟩
      · right; rw [h]
    · rename_i hf
      have hwk : isWorker g s = true := by
        rcases node_kind g s hs with h | h
        · exact h
        · exact absurd h hf
      rcases publish_cases g p pi ⟨s, .apply j⟩ hw hwk hp with ⟨e, h⟩ | ⟨L, h, _⟩
      · exact .inl ⟨e, h⟩
      · right; rw [h]

theorem subscribe_nodes (g : G) (s j p pi : Nat) (hw : Wf g) :
    (subscribe g s j p pi).1.nodes = g.nodes := by
  simp only [subscribe]
  split
  · rfl
  · rename_i hlen
    have hs : s < g.nodes.length := by omega
    have hp : p < g.nodes.length := by omega
    split
    · rename_i hf
      rcases register_cases g s j p pi hw hf hp with ⟨e, h⟩ | ⟨L, h, _⟩ <;> rw [h]
    · rename_i hf
      have hwk : isWorker g s = true := by
        rcases node_kind g s hs with h | h
        · exact h
        · exact absurd h hf
      rcases publish_cases g p pi ⟨s, .apply j⟩ hw hwk hp with ⟨e, h⟩ | ⟨L, h, _⟩ <;> rw [h]

/-- the registrations only grow, by the one a placeholder subscriber records -/
theorem subscribe_regs (g : G) (s j p pi : Nat) (hw : Wf g) :
    (subscribe g s j p pi).1.regs = g.regs ∨ (subscribe g s j p pi).1.regs = g.regs ++ [⟨s, j, p, pi⟩] := by
  simp only [subscribe]
  split
  · exact .inl rfl
  · rename_i hlen
    have hs : s < g.nodes.length := by omega
    have hp : p < g.nodes.length := by omega
    split
    · rename_i hf
      rcases register_cases g s j p pi hw hf hp with ⟨e, h⟩ | ⟨L, h, _⟩
      · left; rw [h]
      · right; rw [h]
    · rename_i hf
      have hwk : isWorker g s = true := by
        rcases node_kind g s hs with h | h
        · exact h
        · exact absurd h hf
      rcases publish_cases g p pi ⟨s, .apply j⟩ hw hwk hp with ⟨e, h⟩ | ⟨L, h, _⟩ <;> (left; rw [h])

/-- a subscription that does not give a placeholder port a second publisher keeps the chain property -/
theorem subscribe_chain (g : G) (s j p pi : Nat) (hw : Wf g) (hs : SingleReg g) (hc : Chain g)
    (hno : (subscribe g s j p pi).1.regs = g.regs ++ [⟨s, j, p, pi⟩] → ∀ r ∈ g.regs, ¬(r.fut = s ∧ r.idx = j)) :
    SingleReg (subscribe g s j p pi).1 ∧ Chain (subscribe g s j p pi).1 := by
  simp only [subscribe] at hno ⊢
  split
  · exact ⟨hs, hc⟩
  · rename_i hlen
    simp only [hlen, ↓reduceIte] at hno
    have hsl : s < g.nodes.length := by omega
    have hp : p < g.nodes.length := by omega
    split
    · rename_i hf
      simp only [hf, ↓reduceIte] at hno
      rcases register_cases g s j p pi hw hf hp with ⟨e, h⟩ | ⟨L, h, facts⟩
      · rw [h]; exact ⟨hs, hc⟩
      · rw [h] at hno ⊢
        exact chain_register g s j p pi L hs hc (hno rfl) facts
    · rename_i hf
      have hwk : isWorker g s = true := by
        rcases node_kind g s hsl with h | h
        · exact h
        · exact absurd h hf
      rcases publish_cases g p pi ⟨s, .apply j⟩ hw hwk hp with ⟨e, h⟩ | ⟨L, h, _, facts⟩
      · rw [h]; exact ⟨hs, hc⟩
      · rw [h]
        obtain ⟨_, fresh, _, _, _, f5, f6⟩ := facts
        exact ⟨hs, chain_publish g _ ⟨s, .apply j⟩ L p pi (fuelOf g) hs hc rfl rfl fresh
          (fun e he => ⟨(f5 e he).1, f6 e he⟩)⟩

theorem subscribe_closed (g : G) (s j p pi : Nat) (hw : Wf g) (hc : Closed g) :
    Closed (subscribe g s j p pi).1 := by
  simp only [subscribe]
  split
  · exact hc
  · rename_i hlen
    have hsl : s < g.nodes.length := by omega
    have hp : p < g.nodes.length := by omega
    split
    · rename_i hf
      rcases register_cases g s j p pi hw hf hp with ⟨e, h⟩ | ⟨L, h, facts⟩
      · rw [h]; exact hc
      · rw [h]; exact closed_register g s j p pi L hc h facts
    · rename_i hf
      have hwk : isWorker g s = true := by
        rcases node_kind g s hsl with h | h
        · exact h
        · exact absurd h hf
      rcases publish_cases g p pi ⟨s, .apply j⟩ hw hwk hp with ⟨e, h⟩ | ⟨L, h, hpt, facts⟩
      · rw [h]; exact hc
      · rw [h]
        obtain ⟨_, _, _, _, _, f5, f6⟩ := facts
        exact closed_publish g p pi ⟨s, .apply j⟩ L hc hpt (fun e he => ⟨(f5 e he).1, f6 e he⟩)

/-! ### sequences of accepted subscriptions -/

/-- `g'` is reached from `g` by subscriptions that were all accepted -/
inductive Wire : G → G → Prop
  | refl (g : G) : Wire g g
  | sub {g g' : G} (s j p pi : Nat) : (subscribe g s j p pi).2 = .ok → Wire (subscribe g s j p pi).1 g' → Wire g g'

theorem Wire.trans {a b c : G} (h1 : Wire a b) (h2 : Wire b c) : Wire a c := by
  induction h1 with
  | refl => exact h2
  | sub s j p pi hok _ ih => exact .sub s j p pi hok (ih h2)

theorem Wire.wf {g g' : G} (h : Wire g g') (hw : Wf g) : Wf g' := by
  induction h with
  | refl => exact hw
  | sub s j p pi _ _ ih => exact ih (subscribe_wf _ s j p pi hw)

theorem Wire.nodes {g g' : G} (h : Wire g g') (hw : Wf g) : g'.nodes = g.nodes := by
  induction h with
  | refl => rfl
  | sub s j p pi _ _ ih => rw [ih (subscribe_wf _ s j p pi hw), subscribe_nodes _ s j p pi hw]

theorem Wire.closed {g g' : G} (h : Wire g g') (hw : Wf g) (hc : Closed g) : Closed g' := by
  induction h with
  | refl => exact hc
  | sub s j p pi _ _ ih => exact ih (subscribe_wf _ s j p pi hw) (subscribe_closed _ s j p pi hw hc)

theorem Wire.regs {g g' : G} (h : Wire g g') (hw : Wf g) : ∃ R, g'.regs = g.regs ++ R := by
  induction h with
  | refl => exact ⟨[], by simp⟩
  | sub s j p pi _ _ ih =>
    obtain ⟨R, hR⟩ := ih (subscribe_wf _ s j p pi hw)
    rcases subscribe_regs _ s j p pi hw with h | h
    · exact ⟨R, by rw [hR, h]⟩
    · exact ⟨⟨s, j, p, pi⟩ :: R, by rw [hR, h]; simp⟩

/-- no placeholder input port has two registrations (the same publisher twice included) -/
def KeyNodup (g : G) : Prop := (g.regs.map (fun r => (r.fut, r.idx))).Nodup

instance (g : G) : Decidable (KeyNodup g) := by unfold KeyNodup; infer_instance

theorem nodup_map_inj {α β : Type} (f : α → β) : ∀ (l : List α), (l.map f).Nodup →
    ∀ a ∈ l, ∀ b ∈ l, f a = f b → a = b := by
  intro l
  induction l with
  | nil => intro _ a ha; cases ha
  | cons x l ih =>
    intro hn a ha b hb hab
    simp only [List.map_cons, List.nodup_cons, List.mem_map, not_exists, not_and] at hn
    obtain ⟨hx, hl⟩ := hn
    rcases List.mem_cons.mp ha with ha' | ha' <;> rcases List.mem_cons.mp hb with hb' | hb'
    · rw [ha', hb']
    · subst ha'; exact absurd hab.symm (hx b hb')
    · subst hb'; exact absurd hab (hx a ha')
    · exact ih hl a ha' b hb' hab

theorem keyNodup_single {g : G} (h : KeyNodup g) : SingleReg g := by
  intro r hr r' hr' h1 h2
  have : r = r' := nodup_map_inj (fun r : Reg => (r.fut, r.idx)) g.regs h r hr r' hr' (by simp [h1, h2])
  subst this
  exact ⟨rfl, rfl⟩

/-- along accepted subscriptions that end in a state where no placeholder port has two registrations, the
holders of every subscription stay one chain of registrations -/
theorem Wire.chain {g g' : G} (h : Wire g g') (hw : Wf g) (hs : SingleReg g) (hc : Chain g) (hk : KeyNodup g') :
    SingleReg g' ∧ Chain g' := by
  induction h with
  | refl => exact ⟨hs, hc⟩
  | @sub g g' s j p pi _ hrest ih =>
    have hw1 := subscribe_wf g s j p pi hw
    obtain ⟨R, hR⟩ := hrest.regs hw1
    have hno : (subscribe g s j p pi).1.regs = g.regs ++ [⟨s, j, p, pi⟩] → ∀ r ∈ g.regs, ¬(r.fut = s ∧ r.idx = j) := by
      intro hreg r hr ⟨h1, h2⟩
      unfold KeyNodup at hk
      rw [hR, hreg] at hk
      simp only [List.map_append, List.map_cons, List.map_nil, List.append_assoc] at hk
      have hd := (List.nodup_append.mp hk).2.2
      exact hd (r.fut, r.idx) (List.mem_map.mpr ⟨r, hr, rfl⟩) (s, j) (by simp) (by simp [h1, h2])
    obtain ⟨s1, c1⟩ := subscribe_chain g s j p pi hw hs hc hno
    exact ih hw1 s1 c1 hk

/-! ### `Segment.extend`, `Trunk.extend`, `flow.Composition` -/

theorem segExtend_wire (g : G) (h tl rh nt : Nat) (hw : Wf g) : Wire g (segExtend g h tl rh nt).1 := by
  unfold segExtend
  rcases subscribe_res g rh 0 tl 0 hw with ⟨e, he⟩ | hok
  · rw [he]; exact .refl g
  · rcases hsub : subscribe g rh 0 tl 0 with ⟨g1, r⟩
    rw [hsub] at hok
    simp only at hok
    subst hok
    simp only
    have : g1 = (subscribe g rh 0 tl 0).1 := by rw [hsub]
    rw [this]
    exact .sub rh 0 tl 0 (by rw [hsub]) (.refl _)

theorem extend_wire (g : G) (h : Nat) (t : Option Nat) (right : Option (Nat × Option Nat)) (xt : Option Nat)
    (hw : Wf g) : Wire g (extend g h t right xt).1 := by
  unfold extend
  split
  · split
    · split
      · exact segExtend_wire g _ _ _ _ hw
      · exact .refl g
    · split
      · exact .refl g
      · split <;> exact .refl g
  · exact .refl g

theorem modeExtend_wire (g : G) (c : Nat × Nat) (r : Option (Nat × Nat)) (hw : Wf g) :
    Wire g (modeExtend g c r).1 := by
  cases r with
  | none => exact .refl g
  | some r =>
    simp only [modeExtend]
    have := segExtend_wire g c.1 c.2 r.1 r.2 hw
    split <;> rename_i heq <;> (rw [heq] at this; exact this)

theorem trunkExtend_wire (g : G) (c : Trunk3) (ea et el : Option (Nat × Nat)) (hw : Wf g) :
    Wire g (trunkExtend g c ea et el).1 := by
  unfold trunkExtend
  have h1 := modeExtend_wire g c.apply ea hw
  split
  · rename_i heq; rw [heq] at h1; exact h1
  · rename_i g1 a heq
    rw [heq] at h1
    have hw1 := h1.wf hw
    have h2 := modeExtend_wire g1 c.train et hw1
    split
    · rename_i heq2; rw [heq2] at h2; exact h1.trans h2
    · rename_i g2 t heq2
      rw [heq2] at h2
      have hw2 := h2.wf hw1
      have h3 := modeExtend_wire g2 c.label el hw2
      split <;> rename_i heq3 <;> (rw [heq3] at h3; exact (h1.trans h2).trans h3)

theorem textend_wire (g : G) (b : TrunkSpec) (ea et el : Option (Nat × Option Nat)) (hw : Wf g) :
    Wire g (textend g b ea et el).1 := by
  unfold textend
  rcases hb : resolveTrunk g b with e | c
  · exact .refl g
  · rcases ha : resolveOpt g ea with e | ra
    · exact .refl g
    · rcases ht : resolveOpt g et with e | rt
      · exact .refl g
      · rcases hl : resolveOpt g el with e | rl
        · exact .refl g
        · simp only
          have := trunkExtend_wire g c ra rt rl hw
          split <;> rename_i heq <;> (rw [heq] at this; exact this)

theorem composeLoop_wire : ∀ (ts : List TrunkSpec) (g : G) (c : Trunk3), Wf g → Wire g (composeLoop g c ts).1 := by
  intro ts
  induction ts with
  | nil => intro g c _; exact .refl g
  | cons s rest ih =>
    intro g c hw
    simp only [composeLoop]
    split
    · exact .refl g
    · rename_i r _
      have := trunkExtend_wire g c (some r.apply) (some r.train) (some r.label) hw
      split
      · rename_i g1 c1 heq
        rw [heq] at this
        exact this.trans (ih g1 c1 (this.wf hw))
      · rename_i g1 e heq
        rw [heq] at this
        exact this

theorem compose_wire (g : G) (ts : List TrunkSpec) (hw : Wf g) : Wire g (compose g ts).1 := by
  cases ts with
  | nil => exact .refl g
  | cons s rest =>
    simp only [compose]
    split
    · exact .refl g
    · exact composeLoop_wire rest g _ hw

/-! ### node creation (`Trunk(...)` with default placeholders) -/

/-- creating nodes keeps `Wf` -/
theorem wf_nodes (g : G) (nd : Node) (k : Nat) (hw : Wf g) :
    Wf { g with nodes := g.nodes ++ [nd], ngroups := k } := by
  obtain ⟨i2, i3, i4, i5, i6, i7, i8⟩ := hw
  have hwk : ∀ n, n < g.nodes.length →
      isWorker { g with nodes := g.nodes ++ [nd], ngroups := k } n = isWorker g n := by
    intro n h; simp [isWorker, List.getElem?_append_left h]
  have hfu : ∀ n, n < g.nodes.length →
      isFuture { g with nodes := g.nodes ++ [nd], ngroups := k } n = isFuture g n := by
    intro n h; simp [isFuture, List.getElem?_append_left h]
  have hg : ∀ n, n < g.nodes.length →
      gid? { g with nodes := g.nodes ++ [nd], ngroups := k } n = gid? g n := by
    intro n h; simp [gid?, List.getElem?_append_left h]
  refine ⟨i2, i3, ?_, i5, i6, ?_, ?_⟩
  · intro e he e' he' ha ha' hgid
    rw [hg _ (isWorker_lt _ _ (i7 e he).2), hg _ (isWorker_lt _ _ (i7 e' he').2)] at hgid
    exact i4 e he e' he' ha ha' hgid
  · intro e he
    have h := i7 e he
    refine ⟨?_, ?_⟩
    · have := h.1
      simp only [List.length_append, List.length_singleton]; omega
    · rw [hwk _ (isWorker_lt _ _ h.2)]; exact h.2
  · intro r hr
    have h := i8 r hr
    refine ⟨?_, ?_⟩
    · rw [hfu _ (isFuture_lt _ _ h.1)]; exact h.1
    · have := h.2
      simp only [List.length_append, List.length_singleton]; omega

theorem closed_nodes (g : G) (nd : Node) (k : Nat) (hw : Wf g) (hc : Closed g) :
    Closed { g with nodes := g.nodes ++ [nd], ngroups := k } := by
  intro e he
  refine holdsUp_lift g ({ g with nodes := g.nodes ++ [nd], ngroups := k } : G) rfl (fun _ h => h) ?_ (hc e he)
  intro x hx
  simp [isFuture, List.getElem?_append_left (hw.2.2.2.2.2.1 x hx).1]

/-- what `trunkMode` does to the state: nothing, or one more (unconnected) placeholder -/
theorem trunkMode_cases (g : G) (m : Option (Nat × Nat)) :
    (trunkMode g m).1 = g ∨ (trunkMode g m).1 = { g with nodes := g.nodes ++ [⟨.future, 1, 1⟩], ngroups := g.ngroups } := by
  cases m with
  | some p => exact .inl rfl
  | none => exact .inr rfl

/-- a property kept by the creation of one node is kept by `Trunk(...)` -/
theorem trunk_keeps (P : G → Prop)
    (hP : ∀ g, P g → P { g with nodes := g.nodes ++ [⟨.future, 1, 1⟩], ngroups := g.ngroups })
    (g : G) (a t l : Option (Nat × Option Nat)) (h : P g) : P (trunk g a t l).1 := by
  have one : ∀ (g : G) (m : Option (Nat × Nat)), P g → P (trunkMode g m).1 := by
    intro g m hg
    rcases trunkMode_cases g m with h | h <;> rw [h]
    · exact hg
    · exact hP g hg
  unfold trunk
  rcases ha : resolveOpt g a with e | ra
  · exact h
  · rcases ht : resolveOpt g t with e | rt
    · exact h
    · rcases hl : resolveOpt g l with e | rl
      · exact h
      · simp only
        exact one _ rl (one _ rt (one _ ra h))

/-- a refused `Trunk(...)` creates nothing -/
theorem trunk_atomic (g : G) (a t l : Option (Nat × Option Nat)) (he : (trunk g a t l).2.isErr = true) :
    (trunk g a t l).1 = g := by
  unfold trunk at he ⊢
  rcases ha : resolveOpt g a with e | ra
  · rfl
  · rcases ht : resolveOpt g t with e | rt
    · rfl
    · rcases hl : resolveOpt g l with e | rl
      · rfl
      · rw [ha, ht, hl] at he
        simp [Res.isErr] at he

end ForML.Graph
