/-
C01 — `span.Traversal.each` (`Segment.dfs` / `Segment.eachE`) enumerates the members of a segment:

  * `dfs_eq_gdfs`          `Segment.dfs` is depth first search over `Segment.followed`;
  * `eachE_eq_dfs`         the `Cyclic` test of `Traversal.subscribers` is never reached from `each` (the path is part of
                           the global `seen` set and the mask is tested first): `each` never raises, on any graph;
  * `visitOrder_spec`      for every segment whose subscriptions stay inside the listed members (cyclic or not): the
                           visit order is duplicate free and holds exactly the nodes reachable from the head, not
                           continuing past the tail except into trained subscribers;
  * `connected_iff_reach`  for a well-formed segment, `connected` says exactly that every listed member is reachable;
  * `visitOrder_perm`      hence `visitOrder.Perm uids` for every well-formed connected segment (and conversely).
-/
import ForML.Lemmas.C01Dfs
import ForML.Lemmas.C01Wf

set_option linter.unusedSimpArgs false

namespace ForML.Flow
namespace Segment

theorem foldl_filter_map {α β γ} (p : α → Bool) (h : α → β) (step : γ → β → γ) (l : List α) (acc : γ) :
    ((l.filter p).map h).foldl step acc = l.foldl (fun a e => if p e then step a (h e) else a) acc := by
  induction l generalizing acc with
  | nil => rfl
  | cons x r ih =>
    simp only [List.filter_cons, List.foldl_cons]
    cases hp : p x
    · simp [ih]
    · simp [ih]

theorem dfs_eq_gdfs (g : Segment) : ∀ (f : Nat) (seen : List Uid) (n : Uid), g.dfs f seen n = gdfs g.followed f seen n := by
  intro f
  induction f with
  | zero => intro seen n; rfl
  | succ f ih =>
    intro seen n
    simp only [dfs, gdfs, followed]
    cases hw : g.worker? n with
    | none => simp
    | some w =>
      simp only [foldl_filter_map]
      congr 1
      funext acc e
      rw [ih]
      cases h1 : acc.contains e.sub <;> cases h2 : (decide (n = g.tail) && !g.trained e.sub) <;> simp [h1, h2]

/-- the search only ever appends (any graph, any fuel) -/
theorem gdfs_sub (succ : Uid → List Uid) : ∀ (f : Nat) (seen : List Uid) (n : Uid), ∀ x ∈ seen, x ∈ gdfs succ f seen n := by
  intro f
  induction f with
  | zero => intro seen n x hx; exact hx
  | succ f ih =>
    intro seen n x hx
    simp only [gdfs]
    have h0 : x ∈ seen ++ [n] := List.mem_append_left _ hx
    generalize seen ++ [n] = acc at h0
    induction succ n generalizing acc with
    | nil => exact h0
    | cons m l ihl =>
      simp only [List.foldl_cons]
      apply ihl
      split
      · exact h0
      · exact ih _ _ _ h0

/-- **`Traversal.each` never raises `Cyclic`**: every node of the recursion path is in the global `seen` set, and the
`seen` mask is tested before the path; so the traversal of any graph, cyclic or not, is the plain search. -/
theorem eachE_eq_dfs (g : Segment) : ∀ (f : Nat) (path seen : List Uid) (n : Uid), (∀ x ∈ path, x ∈ seen) →
    g.eachE f path seen n = .ok (g.dfs f seen n) := by
  intro f
  induction f with
  | zero => intro path seen n _; rfl
  | succ f ih =>
    intro path seen n hp
    simp only [eachE, dfs]
    cases hw : g.worker? n with
    | none => rfl
    | some w =>
      simp only
      have h0 : ∀ x ∈ n :: path, x ∈ seen ++ [n] := by
        intro x hx
        rcases List.mem_cons.mp hx with rfl | hx
        · simp
        · exact List.mem_append_left _ (hp x hx)
      generalize seen ++ [n] = acc at h0
      induction g.outEdges w generalizing acc with
      | nil => rfl
      | cons e l ihl =>
        simp only [List.foldlM_cons, List.foldl_cons]
        by_cases hc : (acc.contains e.sub || (decide (n = g.tail) && !g.trained e.sub)) = true
        · simp only [hc, if_true]
          exact ihl acc h0
        · simp only [hc]
          have hns : e.sub ∉ acc := by
            intro hmem
            simp [List.contains_iff_mem, hmem] at hc
          have hnp : (n :: path).contains e.sub = false := by
            cases hcp : (n :: path).contains e.sub with
            | false => rfl
            | true => exact absurd (h0 _ (List.contains_iff_mem.mp hcp)) hns
          simp only [hnp]
          rw [ih (n :: path) acc e.sub (fun x hx => h0 x hx)]
          exact ihl _ (fun x hx => by rw [dfs_eq_gdfs]; exact gdfs_sub _ _ _ _ x (h0 x hx))

theorem each_eq (g : Segment) : g.each = .ok g.visitOrder := eachE_eq_dfs g _ [] [] g.head (by simp)

/-! ### the visit order is the reachable set -/

theorem mem_outEdges {g : Segment} {w : Worker} {e : Edge} :
    e ∈ g.outEdges w ↔ e ∈ g.edges ∧ e.pub = w.uid ∧ e.pubPort < w.szout := by
  simp only [outEdges, subscribers, List.mem_flatMap, List.mem_range, List.mem_filter, Bool.and_eq_true,
    decide_eq_true_eq]
  constructor
  · rintro ⟨i, hi, he, hp, rfl⟩
    exact ⟨he, hp, hi⟩
  · rintro ⟨he, hp, hi⟩
    exact ⟨e.pubPort, hi, he, hp, rfl⟩

theorem mask_iff (n tail : Uid) (t : Bool) : (!(decide (n = tail) && !t)) = true ↔ ¬(n = tail ∧ t = false) := by
  cases t <;> simp

theorem mem_followed {g : Segment} {n m : Uid} :
    m ∈ g.followed n ↔ ∃ w e, g.worker? n = some w ∧ e ∈ g.edges ∧ e.pub = w.uid ∧ e.pubPort < w.szout ∧ e.sub = m ∧
      ¬(n = g.tail ∧ g.trained m = false) := by
  unfold followed
  cases hw : g.worker? n with
  | none => simp
  | some w =>
    simp only [List.mem_map, List.mem_filter, mem_outEdges, mask_iff]
    constructor
    · rintro ⟨e, ⟨⟨he, hp, hi⟩, hm⟩, rfl⟩
      exact ⟨w, e, rfl, he, hp, hi, rfl, hm⟩
    · rintro ⟨w', e, hw', he, hp, hi, rfl, hm⟩
      cases hw'
      exact ⟨e, ⟨⟨he, hp, hi⟩, hm⟩, rfl⟩

theorem reach_cases {succ : Uid → List Uid} {a x : Uid} (h : Reach succ a x) :
    x = a ∨ ∃ b, Reach succ a b ∧ x ∈ succ b := by
  cases h with
  | refl => exact Or.inl rfl
  | step hb hc => exact Or.inr ⟨_, hb, hc⟩

theorem followed_closed {g : Segment} (h : g.closed = true) : ∀ n ∈ g.uids, ∀ m ∈ g.followed n, m ∈ g.uids := by
  simp only [closed, Bool.and_eq_true, List.all_eq_true, List.contains_iff_mem] at h
  intro n _ m hm
  obtain ⟨_, e, _, he, _, _, rfl, _⟩ := mem_followed.mp hm
  exact h.2 e he

theorem uids_length (g : Segment) : g.uids.length = g.workers.length := by simp [uids]

/-- **`Traversal.each` visits every node reachable from the head exactly once and nothing else** (any segment whose
subscriptions stay inside the listed members; no acyclicity needed) -/
theorem visitOrder_spec {g : Segment} (h : g.closed = true) :
    g.visitOrder.Nodup ∧ (∀ x ∈ g.visitOrder, x ∈ g.uids) ∧ ∀ x, x ∈ g.visitOrder ↔ Reach g.followed g.head x := by
  have hhead : g.head ∈ g.uids := by
    simp only [closed, Bool.and_eq_true, List.contains_iff_mem] at h
    exact h.1
  unfold visitOrder
  rw [dfs_eq_gdfs]
  exact gdfs_reach (followed_closed h) hhead (by rw [uids_length]; omega)

theorem wf_closed {g : Segment} {rank : Uid → Nat} (h : g.wf rank = true) : g.closed = true := by
  have hw := wf_WF h
  simp only [closed, Bool.and_eq_true, List.all_eq_true, List.contains_iff_mem]
  refine ⟨hw.head, fun e he => ?_⟩
  obtain ⟨s, hs, _⟩ := (hw.edge e he).sub
  obtain ⟨hmem, hid⟩ := worker?_some hs
  exact mem_uids.mpr ⟨s, hmem, hid⟩

/-! ### the given member list and reachability -/

theorem connected_iff {g : Segment} : g.connected = true ↔
    ∀ w ∈ g.workers, w.uid = g.head ∨ ∃ e ∈ g.edges, e.sub = w.uid ∧ (e.pub ≠ g.tail ∨ g.trained w.uid = true) := by
  simp [connected]

/-- a listed member that is reachable is either the head or followed through one of its subscriptions -/
theorem connected_of_reach {g : Segment} (h : ∀ x ∈ g.uids, Reach g.followed g.head x) : g.connected = true := by
  rw [connected_iff]
  intro w hw
  rcases reach_cases (h w.uid (mem_uids.mpr ⟨w, hw, rfl⟩)) with hh | ⟨b, _, hc⟩
  · exact Or.inl hh
  · obtain ⟨p, e, hp, he, hpub, _, hsub, hm⟩ := mem_followed.mp hc
    refine Or.inr ⟨e, he, hsub, ?_⟩
    have hb : p.uid = b := (worker?_some hp).2
    by_cases ht : g.trained w.uid = true
    · exact Or.inr ht
    · refine Or.inl (fun hpt => hm ⟨?_, by simpa using ht⟩)
      rw [← hb, ← hpub, hpt]

/-- in a well-formed segment every member with a followed subscription is reachable (induction along the numbering) -/
theorem reach_of_connected {g : Segment} {rank : Uid → Nat} (hw : WF g rank) (hc : g.connected = true) :
    ∀ x ∈ g.uids, Reach g.followed g.head x := by
  rw [connected_iff] at hc
  suffices H : ∀ (k : Nat) (x : Uid), rank x < k → x ∈ g.uids → Reach g.followed g.head x from
    fun x hx => H (rank x + 1) x (Nat.lt_succ_self _) hx
  intro k
  induction k with
  | zero => intro x hx; omega
  | succ k ih =>
    intro x hk hx
    obtain ⟨w, hwm, rfl⟩ := mem_uids.mp hx
    rcases hc w hwm with hh | ⟨e, he, hsub, hfol⟩
    · rw [hh]; exact .refl
    · have hok := hw.edge e he
      obtain ⟨p, hp, hport⟩ := hok.pub
      obtain ⟨hpm, hpid⟩ := worker?_some hp
      have hrk : rank e.pub < k := by have := hok.rank; rw [hsub] at this; omega
      have hrp := ih e.pub hrk (mem_uids.mpr ⟨p, hpm, hpid⟩)
      refine .step hrp (mem_followed.mpr ⟨p, e, hp, he, hpid.symm, hport, hsub, ?_⟩)
      rintro ⟨h1, h2⟩
      rcases hfol with h | h
      · exact h h1
      · rw [h] at h2; cases h2

/-- **the member list of a well-formed segment is the reachable set iff it is `connected`** -/
theorem connected_iff_reach {g : Segment} {rank : Uid → Nat} (h : g.wf rank = true) :
    g.connected = true ↔ ∀ x ∈ g.uids, Reach g.followed g.head x :=
  ⟨reach_of_connected (wf_WF h), connected_of_reach⟩

theorem visitOrder_perm {g : Segment} {rank : Uid → Nat} (h : g.wf rank = true) (hc : g.connected = true) :
    g.visitOrder.Perm g.uids := by
  obtain ⟨hnd, hsub, hiff⟩ := visitOrder_spec (wf_closed h)
  rw [List.perm_ext_iff_of_nodup hnd (wf_WF h).nodup]
  exact fun x => ⟨hsub x, fun hx => (hiff x).mpr (reach_of_connected (wf_WF h) hc x hx)⟩

theorem connected_of_perm {g : Segment} {rank : Uid → Nat} (h : g.wf rank = true) (hp : g.visitOrder.Perm g.uids) :
    g.connected = true := by
  obtain ⟨_, _, hiff⟩ := visitOrder_spec (wf_closed h)
  exact connected_of_reach (fun x hx => (hiff x).mp (hp.mem_iff.mpr hx))

end Segment
end ForML.Flow
