/-
C07: the mutual induction over scripts.  For a `normal`, `tame` script evaluated with structural equality:
`construct` succeeds exactly on the well-formed ones and stores the script itself.
-/
import ForML.Model.Grammar
import ForML.Lemmas.C07Nodes

namespace ForML.Dsl

theorem Feature.operable_of_not_alias (f : Feature) (h : f.isAlias = false) : f.operable = f := by
  cases f <;> simp_all [Feature.operable, Feature.isAlias]

theorem Source.inst_of_not_ref (s : Source) (h : s.isRef = false) : s.inst = s := by
  cases s <;> simp_all [Source.inst, Source.isRef]

theorem Source.statement_of_isStatement (s : Source) (h : s.isStatement = true) : s.statement = s := by
  simp [Source.statement, h]

theorem Features.ofList_toList : (fs : Features) → Features.ofList fs.toList = fs
  | .nil => rfl
  | .cons f fs => by simp [Features.toList, Features.ofList, Features.ofList_toList fs]

mutual
theorem Feature.construct_iff : (f : Feature) → f.normal = true → f.tame = true →
    ∀ f', Feature.construct structEqv f = Except.ok f' ↔ (f' = f ∧ f.wf = true)
  | .lit v, _, _, f' => by
    simp [Feature.construct, Feature.wf, eq_comm]
  | .elem o n, hn, ht, f' => by
    simp only [Feature.normal] at hn
    simp only [Feature.tame, Bool.and_eq_true] at ht
    simp only [Feature.construct, bind_eq_ok, Source.construct_iff o hn ht.1, Feature.wf, Except.ok.injEq]
    constructor
    · rintro ⟨o', ⟨rfl, hw⟩, rfl⟩
      exact ⟨rfl, hw⟩
    · rintro ⟨rfl, hw⟩
      exact ⟨o, ⟨rfl, hw⟩, rfl⟩
  | .alias f n, hn, ht, f' => by
    simp only [Feature.normal, Bool.and_eq_true, Bool.not_eq_true'] at hn
    simp only [Feature.tame] at ht
    simp only [Feature.construct, bind_eq_ok, Feature.construct_iff f hn.2 ht, Feature.wf, Except.ok.injEq]
    constructor
    · rintro ⟨g, ⟨rfl, hw⟩, rfl⟩
      rw [Feature.operable_of_not_alias _ hn.1]
      exact ⟨rfl, hw⟩
    · rintro ⟨rfl, hw⟩
      exact ⟨f, ⟨rfl, hw⟩, by rw [Feature.operable_of_not_alias _ hn.1]⟩
  | .cast f k, hn, ht, f' => by
    simp only [Feature.normal] at hn
    simp only [Feature.tame] at ht
    simp only [Feature.construct, bind_eq_ok, Feature.construct_iff f hn ht, Feature.wf, Except.ok.injEq]
    constructor
    · rintro ⟨g, ⟨rfl, hw⟩, rfl⟩
      exact ⟨rfl, hw⟩
    · rintro ⟨rfl, hw⟩
      exact ⟨f, ⟨rfl, hw⟩, rfl⟩
  | .expr op args, hn, ht, f' => by
    simp only [Feature.normal] at hn
    simp only [Feature.tame] at ht
    simp only [Feature.construct, bind_eq_ok, Features.construct_iff args hn ht, Feature.wf, Except.ok.injEq,
      Bool.and_eq_true]
    constructor
    · rintro ⟨a, ⟨rfl, hw⟩, u, hc, rfl⟩
      have := (checkExpr_iff' op a hw ht u).mp hc
      simp only [Bool.and_eq_true] at this
      exact ⟨rfl, ⟨⟨hw, this.1.1⟩, this.1.2⟩, this.2⟩
    · rintro ⟨rfl, ⟨⟨hw, h1⟩, h2⟩, h3⟩
      refine ⟨args, ⟨rfl, hw⟩, (), ?_, rfl⟩
      apply (checkExpr_iff' op args hw ht ()).mpr
      simp only [Bool.and_eq_true]
      exact ⟨⟨h1, h2⟩, h3⟩
  | .window fn ps os, hn, ht, f' => by
    simp only [Feature.normal, Bool.and_eq_true] at hn
    simp only [Feature.tame, Bool.and_eq_true] at ht
    simp only [Feature.construct, bind_eq_ok, Features.construct_iff ps hn.1.2 ht.1.2,
      Orderings.construct_iff os hn.2 ht.2, Feature.wf, Except.ok.injEq, Bool.and_eq_true, Bool.or_eq_true,
      beq_iff_eq]
    by_cases hr : fn = .expr .rownumber .nil
    · subst hr
      simp only [if_true, Except.ok.injEq, true_or, true_and]
      constructor
      · rintro ⟨_, rfl, _, ⟨rfl, hp⟩, _, ⟨rfl, ho⟩, rfl⟩
        exact ⟨rfl, hp, ho⟩
      · rintro ⟨rfl, hp, ho⟩
        exact ⟨_, rfl, ps, ⟨rfl, hp⟩, os, ⟨rfl, ho⟩, rfl⟩
    · have hb : (fn == Feature.expr Op.rownumber Features.nil) = false := by simpa using hr
      simp only [if_false, Feature.construct_iff fn hn.1.1 ht.1.1, hr, false_or]
      constructor
      · rintro ⟨_, ⟨rfl, hf⟩, _, ⟨rfl, hp⟩, _, ⟨rfl, ho⟩, rfl⟩
        exact ⟨rfl, ⟨hf, hp⟩, ho⟩
      · rintro ⟨rfl, ⟨hf, hp⟩, ho⟩
        exact ⟨fn, ⟨rfl, hf⟩, ps, ⟨rfl, hp⟩, os, ⟨rfl, ho⟩, rfl⟩
theorem Features.construct_iff : (fs : Features) → fs.normal = true → fs.tame = true →
    ∀ fs', Features.construct structEqv fs = Except.ok fs' ↔ (fs' = fs ∧ fs.wf = true)
  | .nil, _, _, fs' => by
    simp [Features.construct, Features.wf, eq_comm]
  | .cons f fs, hn, ht, fs' => by
    simp only [Features.normal, Bool.and_eq_true] at hn
    simp only [Features.tame, Bool.and_eq_true] at ht
    simp only [Features.construct, bind_eq_ok, Feature.construct_iff f hn.1 ht.1, Features.construct_iff fs hn.2 ht.2,
      Features.wf, Except.ok.injEq, Bool.and_eq_true]
    constructor
    · rintro ⟨_, ⟨rfl, h1⟩, _, ⟨rfl, h2⟩, rfl⟩
      exact ⟨rfl, h1, h2⟩
    · rintro ⟨rfl, h1, h2⟩
      exact ⟨f, ⟨rfl, h1⟩, fs, ⟨rfl, h2⟩, rfl⟩
theorem FeatureOpt.construct_iff : (c : FeatureOpt) → c.normal = true → c.tame = true →
    ∀ c', FeatureOpt.construct structEqv c = Except.ok c' ↔ (c' = c ∧ c.wf = true)
  | .none, _, _, c' => by
    simp [FeatureOpt.construct, FeatureOpt.wf, eq_comm]
  | .some f, hn, ht, c' => by
    simp only [FeatureOpt.normal] at hn
    simp only [FeatureOpt.tame] at ht
    simp only [FeatureOpt.construct, bind_eq_ok, Feature.construct_iff f hn ht, FeatureOpt.wf, Except.ok.injEq]
    constructor
    · rintro ⟨_, ⟨rfl, h1⟩, rfl⟩
      exact ⟨rfl, h1⟩
    · rintro ⟨rfl, h1⟩
      exact ⟨f, ⟨rfl, h1⟩, rfl⟩
theorem Ordering.construct_iff : (o : Ordering) → o.normal = true → o.tame = true →
    ∀ o', Ordering.construct structEqv o = Except.ok o' ↔ (o' = o ∧ o.wf = true)
  | .mk f d, hn, ht, o' => by
    simp only [Ordering.normal] at hn
    simp only [Ordering.tame] at ht
    simp only [Ordering.construct, bind_eq_ok, Feature.construct_iff f hn ht, Ordering.wf, Except.ok.injEq]
    constructor
    · rintro ⟨_, ⟨rfl, h1⟩, rfl⟩
      exact ⟨rfl, h1⟩
    · rintro ⟨rfl, h1⟩
      exact ⟨f, ⟨rfl, h1⟩, rfl⟩
theorem Orderings.construct_iff : (os : Orderings) → os.normal = true → os.tame = true →
    ∀ os', Orderings.construct structEqv os = Except.ok os' ↔ (os' = os ∧ os.wf = true)
  | .nil, _, _, os' => by
    simp [Orderings.construct, Orderings.wf, eq_comm]
  | .cons o os, hn, ht, os' => by
    simp only [Orderings.normal, Bool.and_eq_true] at hn
    simp only [Orderings.tame, Bool.and_eq_true] at ht
    simp only [Orderings.construct, bind_eq_ok, Ordering.construct_iff o hn.1 ht.1,
      Orderings.construct_iff os hn.2 ht.2, Orderings.wf, Except.ok.injEq, Bool.and_eq_true]
    constructor
    · rintro ⟨_, ⟨rfl, h1⟩, _, ⟨rfl, h2⟩, rfl⟩
      exact ⟨rfl, h1, h2⟩
    · rintro ⟨rfl, h1, h2⟩
      exact ⟨o, ⟨rfl, h1⟩, os, ⟨rfl, h2⟩, rfl⟩
theorem Source.construct_iff : (s : Source) → s.normal = true → s.tame = true →
    ∀ s', Source.construct structEqv s = Except.ok s' ↔ (s' = s ∧ s.wf = true)
  | .table n fs, _, _, s' => by
    simp [Source.construct, Source.wf, eq_comm]
  | .ref i n, hn, ht, s' => by
    simp only [Source.normal, Bool.and_eq_true, Bool.not_eq_true'] at hn
    simp only [Source.tame, Bool.and_eq_true] at ht
    simp only [Source.construct, bind_eq_ok, Source.construct_iff i hn.2 ht.1, Source.wf, Except.ok.injEq]
    constructor
    · rintro ⟨_, ⟨rfl, h1⟩, rfl⟩
      rw [Source.inst_of_not_ref _ hn.1]
      exact ⟨rfl, h1⟩
    · rintro ⟨rfl, h1⟩
      exact ⟨i, ⟨rfl, h1⟩, by rw [Source.inst_of_not_ref _ hn.1]⟩
  | .join l r k c, hn, ht, s' => by
    simp only [Source.normal, Bool.and_eq_true] at hn
    simp only [Source.tame, Bool.and_eq_true] at ht
    simp only [Source.construct, bind_eq_ok, Source.construct_iff l hn.1.1 ht.1.1, Source.construct_iff r hn.1.2 ht.1.2,
      FeatureOpt.construct_iff c hn.2 ht.2, Source.wf, Except.ok.injEq, Bool.and_eq_true]
    constructor
    · rintro ⟨_, ⟨rfl, h1⟩, _, ⟨rfl, h2⟩, _, ⟨rfl, h3⟩, u, hc, rfl⟩
      exact ⟨rfl, ⟨⟨h1, h2⟩, h3⟩, (checkJoin_iff _ _ k _ ht.1.1 ht.1.2 h3 ht.2 u).mp hc⟩
    · rintro ⟨rfl, ⟨⟨h1, h2⟩, h3⟩, h4⟩
      exact ⟨l, ⟨rfl, h1⟩, r, ⟨rfl, h2⟩, c, ⟨rfl, h3⟩, (), (checkJoin_iff l r k c ht.1.1 ht.1.2 h3 ht.2 ()).mpr h4, rfl⟩
  | .set l r k, hn, ht, s' => by
    simp only [Source.normal, Bool.and_eq_true] at hn
    simp only [Source.tame, Bool.and_eq_true] at ht
    simp only [Source.construct, bind_eq_ok, Source.construct_iff l hn.1.2 ht.1.1.1, Source.construct_iff r hn.2 ht.1.1.2,
      Source.wf, Except.ok.injEq, Bool.and_eq_true]
    constructor
    · rintro ⟨_, ⟨rfl, h1⟩, _, ⟨rfl, h2⟩, u, hc, rfl⟩
      rw [Source.statement_of_isStatement _ hn.1.1.1, Source.statement_of_isStatement _ hn.1.1.2]
      exact ⟨rfl, ⟨h1, h2⟩, (checkSet_iff _ _ h1 h2 ht.1.1.1 ht.1.1.2 ht.1.2 ht.2 u).mp hc⟩
    · rintro ⟨rfl, ⟨h1, h2⟩, h3⟩
      refine ⟨l, ⟨rfl, h1⟩, r, ⟨rfl, h2⟩, (), (checkSet_iff l r h1 h2 ht.1.1.1 ht.1.1.2 ht.1.2 ht.2 ()).mpr h3, ?_⟩
      rw [Source.statement_of_isStatement _ hn.1.1.1, Source.statement_of_isStatement _ hn.1.1.2]
  | .query s sel pre grp post ord rows, hn, ht, s' => by
    simp only [Source.normal, Bool.and_eq_true] at hn
    simp only [Source.tame, Bool.and_eq_true] at ht
    obtain ⟨⟨⟨⟨⟨hns, hnsel⟩, hnpre⟩, hngrp⟩, hnpost⟩, hnord⟩ := hn
    obtain ⟨⟨⟨⟨⟨hts, htsel⟩, htpre⟩, htgrp⟩, htpost⟩, htord⟩ := ht
    simp only [Source.construct, bind_eq_ok, Source.construct_iff s hns hts, Features.construct_iff sel hnsel htsel,
      FeatureOpt.construct_iff pre hnpre htpre, Features.construct_iff grp hngrp htgrp,
      FeatureOpt.construct_iff post hnpost htpost, Orderings.construct_iff ord hnord htord,
      Source.wf, Except.ok.injEq, Bool.and_eq_true]
    constructor
    · rintro ⟨_, ⟨rfl, h1⟩, _, ⟨rfl, h2⟩, _, ⟨rfl, h3⟩, _, ⟨rfl, h4⟩, _, ⟨rfl, h5⟩, _, ⟨rfl, h6⟩, u, hc, rfl⟩
      exact ⟨rfl, ⟨⟨⟨⟨⟨h1, h2⟩, h3⟩, h4⟩, h5⟩, h6⟩,
        (checkQuery_iff _ _ _ _ _ _ hts h3 htpre h5 htpost u).mp hc⟩
    · rintro ⟨rfl, ⟨⟨⟨⟨⟨h1, h2⟩, h3⟩, h4⟩, h5⟩, h6⟩, h7⟩
      exact ⟨s, ⟨rfl, h1⟩, sel, ⟨rfl, h2⟩, pre, ⟨rfl, h3⟩, grp, ⟨rfl, h4⟩, post, ⟨rfl, h5⟩, ord, ⟨rfl, h6⟩, (),
        (checkQuery_iff s sel pre grp post ord hts h3 htpre h5 htpost ()).mpr h7, rfl⟩
end

end ForML.Dsl
