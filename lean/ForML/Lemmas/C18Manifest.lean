/-
C18 helper lemmas: `Manifest.read (Manifest.render m) = m`.

Built on the one-step reader lemmas of ForML.Lemmas.C18Py; the template constants `sNAME`, `qVERSION`, `qPACKAGE`,
`qMODULES` stay folded (only `expect_append` is used on them).
-/
import ForML.Lemmas.C18Py

namespace ForML.Manifest

/-- text pasted raw between double quotes survives iff nothing in it is special to a Python literal:
no `"`, `\`, LF, CR -/
def clean (s : List Nat) : Bool := s.all (fun c => c != 34 && c != 92 && c != 10 && c != 13)

/-- every character is in the Basic Multilingual Plane (one UTF-16 code unit) -/
def bmp (s : List Nat) : Bool := s.all (fun c => c < 65536)

/-- module maps whose keys and values are BMP text -/
def bmpPairs (m : List (List Nat × List Nat)) : Bool := m.all (fun kv => bmp kv.1 && bmp kv.2)

/-- manifests over the alphabets on which write/read is faithful -/
def legal (m : Manifest) : Bool := clean m.name && clean m.version && clean m.package && bmpPairs m.modules

/-- PEP 503 / PEP 440 / dotted-identifier alphabet: ASCII letters, digits and `- _ . + !` -/
def nameChar (c : Nat) : Bool :=
  (48 ≤ c && c ≤ 57) || (65 ≤ c && c ≤ 90) || (97 ≤ c && c ≤ 122) || c == 45 || c == 95 || c == 46 || c == 43 || c == 33

theorem clean_of_nameChars (s : List Nat) (h : s.all nameChar = true) : clean s = true := by
  unfold clean
  rw [List.all_eq_true] at h ⊢
  intro c hc
  have := h c hc
  simp only [nameChar, Bool.or_eq_true, Bool.and_eq_true, decide_eq_true_eq, beq_iff_eq] at this
  simp only [Bool.and_eq_true, bne_iff_ne, ne_eq]
  omega

/-! ### string literals -/

theorem pyStr_clean (s rest : List Nat) (h : clean s = true) : pyStr (s ++ 34 :: rest) = .ok (s, rest) := by
  induction s with
  | nil => simp
  | cons c r ih =>
    simp only [clean, List.all_cons, Bool.and_eq_true, bne_iff_ne, ne_eq] at h
    obtain ⟨⟨⟨⟨h1, h2⟩, h3⟩, h4⟩, hr⟩ := h
    have ih' := ih (by simpa [clean] using hr)
    rw [List.cons_append, pyStr_plain c _ h1 h2 h3 h4, ih']
    rfl

/-- one character through `json.dumps` and back through the Python literal reader -/
theorem pyStr_jesc (c : Nat) (h : c < 65536) (r : List Nat) : pyStr (jesc c ++ r) = push [c] (pyStr r) := by
  unfold jesc
  by_cases h34 : c = 34
  · subst h34; exact pyStr_esc 34 34 r (by decide)
  by_cases h92 : c = 92
  · subst h92; exact pyStr_esc 92 92 r (by decide)
  by_cases h10 : c = 10
  · subst h10; exact pyStr_esc 110 10 r (by decide)
  by_cases h13 : c = 13
  · subst h13; exact pyStr_esc 114 13 r (by decide)
  by_cases h9 : c = 9
  · subst h9; exact pyStr_esc 116 9 r (by decide)
  by_cases h8 : c = 8
  · subst h8; exact pyStr_esc 98 8 r (by decide)
  by_cases h12 : c = 12
  · subst h12; exact pyStr_esc 102 12 r (by decide)
  simp only [beq_iff_eq, h34, h92, h10, h13, h9, h8, h12, if_false]
  by_cases hp : 32 ≤ c ∧ c ≤ 126
  · have : (decide (32 ≤ c) && decide (c ≤ 126)) = true := by simp [hp]
    rw [if_pos this]
    exact pyStr_plain c r h34 h92 h10 h13
  · have : (decide (32 ≤ c) && decide (c ≤ 126)) = false := by
      cases hd : (decide (32 ≤ c) && decide (c ≤ 126))
      · rfl
      · simp at hd; exact absurd hd hp
    rw [this]
    simp only [Bool.false_eq_true, if_false, if_pos h]
    exact pyStr_u4_append c h r

theorem pyStr_jstr (s rest : List Nat) (h : bmp s = true) : pyStr (jstr s ++ 34 :: rest) = .ok (s, rest) := by
  induction s with
  | nil => simp [jstr]
  | cons c r ih =>
    simp only [bmp, List.all_cons, Bool.and_eq_true, decide_eq_true_eq] at h
    have ih' := ih (by simpa [bmp] using h.2)
    rw [jstr, List.append_assoc, pyStr_jesc c h.1, ih']
    rfl

/-! ### the module map -/

theorem jrest_length (m : List (List Nat × List Nat)) : m.length < (jrest m).length := by
  induction m with
  | nil => simp [jrest]
  | cons kv r ih =>
    obtain ⟨k, v⟩ := kv
    simp only [jrest, jitem, List.length_cons, List.length_append]
    omega

theorem jrest_cons_ne (kv : List Nat × List Nat) (r : List (List Nat × List Nat)) : (jrest (kv :: r) == [125]) = false := by
  obtain ⟨k, v⟩ := kv
  simp [jrest]

theorem pyItems_jitem (k v : List Nat) (r : List (List Nat × List Nat)) (hk : bmp k = true) (hv : bmp v = true)
    (hr : bmpPairs r = true) (f : Nat) (hf : r.length < f) :
    pyItems f (jitem k v (jrest r)) = .ok ((k, v) :: r) := by
  induction r generalizing k v f with
  | nil =>
    cases f with
    | zero => omega
    | succ f =>
      unfold jitem
      rw [pyItems, expect_cons_self, expect_nil]
      simp only [pyStr_jstr k _ hk]
      rw [show (58 :: 32 :: 34 :: (jstr v ++ 34 :: jrest [])) = [58, 32, 34] ++ (jstr v ++ 34 :: jrest []) from rfl,
        expect_append]
      simp only [pyStr_jstr v _ hv]
      simp [jrest]
  | cons kv r ih =>
    obtain ⟨k', v'⟩ := kv
    simp only [bmpPairs, List.all_cons, Bool.and_eq_true] at hr
    obtain ⟨⟨hk', hv'⟩, hr'⟩ := hr
    cases f with
    | zero => omega
    | succ f =>
      have ih' := ih k' v' hk' hv' (by simpa [bmpPairs] using hr') f (by simp at hf; omega)
      unfold jitem
      rw [pyItems, expect_cons_self, expect_nil]
      simp only [pyStr_jstr k _ hk]
      rw [show (58 :: 32 :: 34 :: (jstr v ++ 34 :: jrest ((k', v') :: r)))
            = [58, 32, 34] ++ (jstr v ++ 34 :: jrest ((k', v') :: r)) from rfl, expect_append]
      simp only [pyStr_jstr v _ hv]
      rw [jrest_cons_ne]
      simp only [Bool.false_eq_true, if_false]
      rw [show jrest ((k', v') :: r) = [44, 32] ++ jitem k' v' (jrest r) from rfl, expect_append]
      simp only [ih']

theorem pyDict_jdict (m : List (List Nat × List Nat)) (h : bmpPairs m = true) : pyDict (jdict m) = .ok m := by
  cases m with
  | nil => simp [jdict, pyDict, pyDictBody]
  | cons kv r =>
    obtain ⟨k, v⟩ := kv
    simp only [bmpPairs, List.all_cons, Bool.and_eq_true] at h
    obtain ⟨⟨hk, hv⟩, hr⟩ := h
    have hne : (jitem k v (jrest r) == [125]) = false := by simp [jitem]
    have hlen : r.length < (jitem k v (jrest r)).length := by
      have := jrest_length r
      simp only [jitem, List.length_cons, List.length_append]
      omega
    simp only [jdict, pyDict, expect_cons_self, expect_nil, pyDictBody, hne, Bool.false_eq_true, if_false]
    exact pyItems_jitem k v r hk hv (by simpa [bmpPairs] using hr) _ hlen

/-! ### the whole manifest -/

theorem read_render (m : Manifest) (h : legal m = true) : read (render m) = .ok m := by
  obtain ⟨name, version, package, modules⟩ := m
  simp only [legal, Bool.and_eq_true] at h
  obtain ⟨⟨⟨hn, hv⟩, hp⟩, hm⟩ := h
  unfold read render
  simp only [expect_append, pyStr_clean name _ hn, pyStr_clean version _ hv, pyStr_clean package _ hp,
    pyDict_jdict modules hm]

end ForML.Manifest
