/-
C01 — `Table.__iter__`: `itertools.groupby` over the index (`groupRuns`) and the `merge` of the alias argument lists.
Pure list lemmas.
-/
import ForML.Lemmas.C01Assoc

namespace ForML.Flow

/-! ### groupRuns -/

theorem groupRuns_head (l : List (Key × Obj)) :
    (groupRuns l).head?.map (·.1.id) = l.head?.map (·.2.id) := by
  cases l with
  | nil => rfl
  | cons x r =>
    obtain ⟨k, o⟩ := x
    simp only [groupRuns]
    cases hr : groupRuns r with
    | nil => rfl
    | cons y gs =>
      obtain ⟨o', ks⟩ := y
      simp only
      split <;> rfl

theorem groupRuns_ids_subset (l : List (Key × Obj)) : ∀ x ∈ (groupRuns l).map (·.1.id), x ∈ l.map (·.2.id) := by
  induction l with
  | nil => intro x hx; simp [groupRuns] at hx
  | cons y r ih =>
    obtain ⟨k, o⟩ := y
    intro x hx
    simp only [groupRuns] at hx
    cases hr : groupRuns r with
    | nil => simp [hr] at hx; simp [hx]
    | cons z gs =>
      obtain ⟨o', ks⟩ := z
      simp only [hr] at hx ih
      split at hx
      · simp only [List.map_cons, List.mem_cons] at hx ⊢
        rcases hx with rfl | hx
        · exact Or.inl rfl
        · exact Or.inr (ih x (by simp [hx]))
      · simp only [List.map_cons, List.mem_cons] at hx ⊢
        rcases hx with rfl | hx
        · exact Or.inl rfl
        · exact Or.inr (ih x (by simpa using hx))

/-- equal objects adjacent ⇒ every object is emitted once -/
theorem groupRuns_nodup (l : List (Key × Obj)) (hc : Contig (l.map (·.2.id))) :
    ((groupRuns l).map (·.1.id)).Nodup := by
  induction l with
  | nil => simp [groupRuns]
  | cons y r ih =>
    obtain ⟨k, o⟩ := y
    simp only [List.map_cons] at hc
    obtain ⟨hcr, hx⟩ := hc
    have ih := ih hcr
    simp only [groupRuns]
    cases hr : groupRuns r with
    | nil => simp
    | cons z gs =>
      obtain ⟨o', ks⟩ := z
      simp only [hr] at ih
      simp only
      split
      · rename_i heq
        simp only [List.map_cons, List.nodup_cons] at ih ⊢
        rw [← heq]; exact ih
      · rename_i hne
        simp only [List.map_cons, List.nodup_cons] at ih ⊢
        refine ⟨?_, ih⟩
        intro hmem
        have hsub := groupRuns_ids_subset r o.id (by rw [hr]; simpa using hmem)
        have hhead := hx hsub
        have hh := groupRuns_head r
        rw [hr] at hh
        simp only [List.head?_cons, Option.map_some] at hh
        rw [List.head?_map] at hhead
        rw [hhead] at hh
        exact hne (Option.some.inj hh)

/-- objects with equal identity are the same object -/
def FunctionalIds (l : List (Key × Obj)) : Prop := ∀ x ∈ l, ∀ y ∈ l, x.2.id = y.2.id → x.2 = y.2

theorem groupRuns_sound (l : List (Key × Obj)) (hf : FunctionalIds l) :
    ∀ grp ∈ groupRuns l, grp.2 ≠ [] ∧ ∀ k ∈ grp.2, (k, grp.1) ∈ l := by
  induction l with
  | nil => intro grp h; simp [groupRuns] at h
  | cons y r ih =>
    obtain ⟨k, o⟩ := y
    have hf' : FunctionalIds r := fun x hx y hy => hf x (List.mem_cons_of_mem _ hx) y (List.mem_cons_of_mem _ hy)
    have ih := ih hf'
    intro grp hgrp
    simp only [groupRuns] at hgrp
    cases hr : groupRuns r with
    | nil =>
      simp only [hr, List.mem_singleton] at hgrp
      subst hgrp
      exact ⟨by simp, fun k' hk' => by simp at hk'; subst hk'; exact List.mem_cons_self⟩
    | cons z gs =>
      obtain ⟨o', ks⟩ := z
      simp only [hr] at hgrp ih
      split at hgrp
      · rename_i heq
        rcases List.mem_cons.mp hgrp with rfl | hgrp
        · refine ⟨by simp, ?_⟩
          intro k' hk'
          rcases List.mem_cons.mp hk' with rfl | hk'
          · exact List.mem_cons_self
          · have h1 := (ih (o', ks) List.mem_cons_self).2 k' hk'
            have h2 := (ih (o', ks) List.mem_cons_self)
            -- o' = o by functional identities
            have : o' = o := by
              have := hf (k', o') (List.mem_cons_of_mem _ h1) (k, o) List.mem_cons_self heq
              exact this
            subst this
            exact List.mem_cons_of_mem _ h1
        · obtain ⟨h1, h2⟩ := ih grp (List.mem_cons_of_mem _ hgrp)
          exact ⟨h1, fun k' hk' => List.mem_cons_of_mem _ (h2 k' hk')⟩
      · rcases List.mem_cons.mp hgrp with rfl | hgrp
        · exact ⟨by simp, fun k' hk' => by simp at hk'; subst hk'; exact List.mem_cons_self⟩
        · obtain ⟨h1, h2⟩ := ih grp hgrp
          exact ⟨h1, fun k' hk' => List.mem_cons_of_mem _ (h2 k' hk')⟩

theorem groupRuns_complete (l : List (Key × Obj)) (hf : FunctionalIds l) :
    ∀ x ∈ l, ∃ ks, (x.2, ks) ∈ groupRuns l ∧ x.1 ∈ ks := by
  induction l with
  | nil => intro x h; cases h
  | cons y r ih =>
    obtain ⟨k, o⟩ := y
    have hf' : FunctionalIds r := fun x hx y hy => hf x (List.mem_cons_of_mem _ hx) y (List.mem_cons_of_mem _ hy)
    have ih := ih hf'
    intro x hx
    simp only [groupRuns]
    cases hr : groupRuns r with
    | nil =>
      rcases List.mem_cons.mp hx with rfl | hx
      · exact ⟨[k], by simp, by simp⟩
      · obtain ⟨ks, h1, _⟩ := ih x hx
        rw [hr] at h1; cases h1
    | cons z gs =>
      obtain ⟨o', ks⟩ := z
      simp only
      rcases List.mem_cons.mp hx with rfl | hx
      · split
        · exact ⟨k :: ks, List.mem_cons_self, List.mem_cons_self⟩
        · exact ⟨[k], List.mem_cons_self, by simp⟩
      · obtain ⟨ks', h1, h2⟩ := ih x hx
        rw [hr] at h1
        split
        · rename_i heq
          rcases List.mem_cons.mp h1 with h1 | h1
          · -- x is in the first group of `r`, which is merged with `(k, o)`
            have hx2 : x.2 = o' := by cases h1; rfl
            have hks : ks' = ks := by cases h1; rfl
            subst hks
            have : x.2 = o := by
              have := hf x (List.mem_cons_of_mem _ hx) (k, o) List.mem_cons_self (by rw [hx2]; exact heq)
              exact this
            rw [this]
            exact ⟨k :: ks', List.mem_cons_self, List.mem_cons_of_mem _ h2⟩
          · exact ⟨ks', List.mem_cons_of_mem _ h1, h2⟩
        · exact ⟨ks', List.mem_cons_of_mem _ h1, h2⟩

theorem groupRuns_keys_nodup (l : List (Key × Obj)) (hf : FunctionalIds l) (hnd : (l.map (·.1)).Nodup) :
    ∀ grp ∈ groupRuns l, grp.2.Nodup := by
  induction l with
  | nil => intro grp h; simp [groupRuns] at h
  | cons y r ih =>
    obtain ⟨k, o⟩ := y
    have hf' : FunctionalIds r := fun x hx y hy => hf x (List.mem_cons_of_mem _ hx) y (List.mem_cons_of_mem _ hy)
    simp only [List.map_cons, List.nodup_cons] at hnd
    have ih := ih hf' hnd.2
    have hsound := groupRuns_sound r hf'
    intro grp hgrp
    simp only [groupRuns] at hgrp
    cases hr : groupRuns r with
    | nil =>
      simp only [hr, List.mem_singleton] at hgrp
      subst hgrp; simp
    | cons z gs =>
      obtain ⟨o', ks⟩ := z
      simp only [hr] at hgrp ih hsound
      split at hgrp
      · rcases List.mem_cons.mp hgrp with rfl | hgrp
        · simp only [List.nodup_cons]
          refine ⟨?_, ih _ List.mem_cons_self⟩
          intro hk
          have := (hsound (o', ks) List.mem_cons_self).2 k hk
          exact hnd.1 (List.mem_map.mpr ⟨(k, o'), this, rfl⟩)
        · exact ih grp (List.mem_cons_of_mem _ hgrp)
      · rcases List.mem_cons.mp hgrp with rfl | hgrp
        · simp
        · exact ih grp hgrp

theorem eq_of_nodup_map_id {α β : Type} (f : α → β) {l : List α} (h : (l.map f).Nodup) {a b : α} (ha : a ∈ l)
    (hb : b ∈ l) (hab : f a = f b) : a = b := by
  induction l with
  | nil => cases ha
  | cons x r ih =>
    simp only [List.map_cons, List.nodup_cons, List.mem_map, not_exists, not_and] at h
    rcases List.mem_cons.mp ha with rfl | ha' <;> rcases List.mem_cons.mp hb with rfl | hb'
    · rfl
    · exact absurd hab.symm (h.1 b hb')
    · exact absurd hab (h.1 a ha')
    · exact ih h.2 ha' hb'

/-- the group of an object holds all its keys -/
theorem groupRuns_all_keys (l : List (Key × Obj)) (hf : FunctionalIds l) (hc : Contig (l.map (·.2.id)))
    {o : Obj} {ks : List Key} (hg : (o, ks) ∈ groupRuns l) {k : Key} (hk : (k, o) ∈ l) : k ∈ ks := by
  obtain ⟨ks', hg', hk'⟩ := groupRuns_complete l hf (k, o) hk
  have := eq_of_nodup_map_id (fun x : Obj × List Key => x.1.id) (groupRuns_nodup l hc) hg' hg rfl
  cases this
  exact hk'

/-! ### merge of the alias argument lists -/

theorem mergeArgs_nil_left (r : List (Option Key)) : mergeArgs [] r = some r := by
  cases r <;> rfl

theorem mergeArgs_nil_right (l : List (Option Key)) : mergeArgs l [] = some l := by
  cases l <;> rfl

/-- when at most the key `p` carries arguments, merging the argument lists of the aliases yields those of `p` -/
theorem merge_fold (link : Key → List (Option Key)) (p : Key) (ks : List Key) (acc : List (Option Key))
    (hempty : ∀ k ∈ ks, k ≠ p → link k = []) (hnd : ks.Nodup) (hacc : acc = [] ∨ (acc = link p ∧ p ∉ ks)) :
    ks.foldl (fun acc k' => acc.bind (fun a => mergeArgs a (link k'))) (some acc)
      = some (if p ∈ ks then link p else acc) := by
  induction ks generalizing acc with
  | nil => simp
  | cons k r ih =>
    simp only [List.foldl_cons, Option.bind_some]
    simp only [List.nodup_cons] at hnd
    by_cases hk : k = p
    · subst hk
      have hacc' : acc = [] := by
        rcases hacc with h | ⟨_, h⟩
        · exact h
        · exact absurd List.mem_cons_self h
      subst hacc'
      rw [mergeArgs_nil_left]
      rw [ih (link k) (fun k' hk' => hempty k' (List.mem_cons_of_mem _ hk')) hnd.2 (Or.inr ⟨rfl, hnd.1⟩)]
      simp [hnd.1]
    · rw [hempty k List.mem_cons_self hk, mergeArgs_nil_right]
      rw [ih acc (fun k' hk' => hempty k' (List.mem_cons_of_mem _ hk')) hnd.2 (by
        rcases hacc with h | ⟨h1, h2⟩
        · exact Or.inl h
        · exact Or.inr ⟨h1, fun hm => h2 (List.mem_cons_of_mem _ hm)⟩)]
      have : (p ∈ k :: r) ↔ p ∈ r := by
        simp only [List.mem_cons]
        constructor
        · rintro (rfl | h)
          · exact absurd rfl hk
          · exact h
        · exact Or.inr
      simp only [this]

end ForML.Flow
