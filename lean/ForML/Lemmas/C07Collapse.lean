/-
C07 helper lemmas about the dictionary that `Source.schema` builds (`collapse`): which keys it has, in which
order, what a lookup returns; when it is the identity; how it distributes over the sides of a join / set and
through a reference.
-/
import ForML.Model.Grammar

namespace ForML.Dsl

/-- `d.update(b)` entry by entry -/
def upd (d b : Fields) : Fields := b.foldl (fun d e => dictSet d e.1 e.2) d

theorem collapse_eq_upd (es : Fields) : collapse es = upd [] es := rfl

theorem upd_nil (d : Fields) : upd d [] = d := rfl

theorem upd_cons (d : Fields) (e : String × Kind) (b : Fields) : upd d (e :: b) = upd (dictSet d e.1 e.2) b := rfl

theorem upd_append (d a b : Fields) : upd d (a ++ b) = upd (upd d a) b := by
  simp [upd, List.foldl_append]

theorem collapse_append (a b : Fields) : collapse (a ++ b) = upd (collapse a) b := by
  simp [collapse_eq_upd, upd_append]

/-! ### one assignment -/

theorem dictSet_keys (d : Fields) (n : String) (k : Kind) :
    (dictSet d n k).map (·.1) = if n ∈ d.map (·.1) then d.map (·.1) else d.map (·.1) ++ [n] := by
  induction d with
  | nil => simp [dictSet]
  | cons p d ih =>
    obtain ⟨m, j⟩ := p
    unfold dictSet
    by_cases h : m = n
    · subst h
      simp
    · have h' : ¬ n = m := fun e => h e.symm
      simp only [h, if_false, List.map_cons, ih, List.mem_cons, h', false_or]
      by_cases hm : n ∈ d.map (·.1) <;> simp [hm]

theorem dictSet_lookup (d : Fields) (m n : String) (k : Kind) :
    (dictSet d m k).lookup n = if m = n then some k else d.lookup n := by
  induction d with
  | nil =>
    by_cases h : m = n
    · subst h
      simp [dictSet]
    · have h' : (n == m) = false := by simpa using fun e => h e.symm
      simp [dictSet, List.lookup, h, h']
  | cons p d ih =>
    obtain ⟨a, j⟩ := p
    unfold dictSet
    by_cases ha : a = m
    · subst ha
      by_cases h : a = n
      · subst h
        simp
      · have h' : (n == a) = false := by simpa using fun e => h e.symm
        simp [List.lookup, h, h']
    · simp only [ha, if_false]
      by_cases hn : n = a
      · subst hn
        have : ¬ m = n := fun e => ha e.symm
        simp [List.lookup, this]
      · have h' : (n == a) = false := by simpa using hn
        simp [List.lookup, h', ih]

theorem dictSet_append_left (d d' : Fields) (n : String) (k : Kind) (h : n ∉ d.map (·.1)) :
    dictSet (d ++ d') n k = d ++ dictSet d' n k := by
  induction d with
  | nil => rfl
  | cons p d ih =>
    obtain ⟨m, j⟩ := p
    simp only [List.map_cons, List.mem_cons, not_or] at h
    have hm : ¬ m = n := fun e => h.1 e.symm
    simp [dictSet, hm, ih h.2]

/-! ### keys -/

theorem mem_upd_keys (n : String) : (b d : Fields) → (n ∈ (upd d b).map (·.1) ↔ n ∈ d.map (·.1) ∨ n ∈ b.map (·.1))
  | [], d => by simp [upd_nil]
  | e :: b, d => by
    rw [upd_cons, mem_upd_keys n b, dictSet_keys]
    by_cases h : e.1 ∈ d.map (·.1)
    · simp only [h, if_true, List.map_cons, List.mem_cons]
      constructor
      · rintro (h1 | h1)
        · exact Or.inl h1
        · exact Or.inr (Or.inr h1)
      · rintro (h1 | h1 | h1)
        · exact Or.inl h1
        · exact Or.inl (h1 ▸ h)
        · exact Or.inr h1
    · simp only [h, if_false, List.mem_append, List.map_cons, List.mem_cons, List.not_mem_nil, or_false]
      constructor
      · rintro ((h1 | h1) | h1)
        · exact Or.inl h1
        · exact Or.inr (Or.inl h1)
        · exact Or.inr (Or.inr h1)
      · rintro (h1 | h1 | h1)
        · exact Or.inl (Or.inl h1)
        · exact Or.inl (Or.inr h1)
        · exact Or.inr h1

theorem mem_collapse_keys (n : String) (es : Fields) : n ∈ (collapse es).map (·.1) ↔ n ∈ es.map (·.1) := by
  rw [collapse_eq_upd, mem_upd_keys]
  simp

theorem dictSet_keys_nodup (d : Fields) (n : String) (k : Kind) (h : (d.map (·.1)).Nodup) :
    ((dictSet d n k).map (·.1)).Nodup := by
  rw [dictSet_keys]
  by_cases hn : n ∈ d.map (·.1)
  · simpa [hn] using h
  · simp only [hn, if_false]
    rw [List.nodup_append]
    refine ⟨h, by simp, ?_⟩
    intro a ha b hb
    simp only [List.mem_singleton] at hb
    subst hb
    intro e
    exact hn (e ▸ ha)

theorem upd_keys_nodup : (b d : Fields) → (d.map (·.1)).Nodup → ((upd d b).map (·.1)).Nodup
  | [], _, h => h
  | e :: b, d, h => by
    rw [upd_cons]
    exact upd_keys_nodup b _ (dictSet_keys_nodup d e.1 e.2 h)

theorem collapse_keys_nodup (es : Fields) : ((collapse es).map (·.1)).Nodup :=
  upd_keys_nodup es [] (by simp)

/-- keys and their order depend on the names only -/
theorem upd_keys_congr : (b b' d d' : Fields) → b.map (·.1) = b'.map (·.1) → d.map (·.1) = d'.map (·.1) →
    (upd d b).map (·.1) = (upd d' b').map (·.1)
  | [], [], _, _, _, hd => hd
  | [], _ :: _, _, _, hb, _ => by simp at hb
  | _ :: _, [], _, _, hb, _ => by simp at hb
  | e :: b, e' :: b', d, d', hb, hd => by
    simp only [List.map_cons, List.cons.injEq] at hb
    rw [upd_cons, upd_cons]
    apply upd_keys_congr b b' _ _ hb.2
    rw [dictSet_keys, dictSet_keys, hd, hb.1]

theorem upd_keys_of_subset : (b d : Fields) → (∀ e ∈ b, e.1 ∈ d.map (·.1)) → (upd d b).map (·.1) = d.map (·.1)
  | [], _, _ => rfl
  | e :: b, d, h => by
    rw [upd_cons]
    have he : e.1 ∈ d.map (·.1) := h e (by simp)
    have hk : (dictSet d e.1 e.2).map (·.1) = d.map (·.1) := by rw [dictSet_keys]; simp [he]
    rw [upd_keys_of_subset b (dictSet d e.1 e.2)]
    · exact hk
    · intro x hx
      rw [hk]
      exact h x (by simp [hx])

/-! ### lookups -/

/-- the value the last entry named `n` carries (or `init`) -/
def fin (b : Fields) (n : String) (init : Option Kind) : Option Kind :=
  b.foldl (fun acc e => if e.1 = n then some e.2 else acc) init

theorem fin_cons (e : String × Kind) (b : Fields) (n : String) (init : Option Kind) :
    fin (e :: b) n init = fin b n (if e.1 = n then some e.2 else init) := rfl

theorem upd_lookup (n : String) : (b d : Fields) → (upd d b).lookup n = fin b n (d.lookup n)
  | [], _ => rfl
  | e :: b, d => by
    rw [upd_cons, upd_lookup n b, fin_cons, dictSet_lookup]

theorem collapse_lookup (n : String) (es : Fields) : (collapse es).lookup n = fin es n none := by
  rw [collapse_eq_upd, upd_lookup]
  rfl

theorem fin_init (n : String) : (b : Fields) → (init : Option Kind) →
    fin b n init = match fin b n none with
      | some k => some k
      | none => init
  | [], _ => rfl
  | e :: b, init => by
    rw [fin_cons, fin_cons, fin_init n b]
    by_cases h : e.1 = n
    · simp only [h, if_true]
      rw [fin_init n b (some e.2)]
      cases fin b n none <;> rfl
    · simp only [h, if_false]

theorem fin_not_mem (n : String) : (b : Fields) → (init : Option Kind) → n ∉ b.map (·.1) → fin b n init = init
  | [], _, _ => rfl
  | e :: b, init, h => by
    simp only [List.map_cons, List.mem_cons, not_or] at h
    have : ¬ e.1 = n := fun e' => h.1 e'.symm
    rw [fin_cons, fin_not_mem n b _ h.2]
    simp [this]

theorem lookup_isSome_of_mem (n : String) : (d : Fields) → n ∈ d.map (·.1) → ∃ k, d.lookup n = some k
  | [], h => by simp at h
  | (m, j) :: d, h => by
    by_cases hn : n = m
    · subst hn
      exact ⟨j, by simp [List.lookup]⟩
    · have h' : (n == m) = false := by simpa using hn
      simp only [List.map_cons, List.mem_cons, hn, false_or] at h
      simpa [List.lookup, h'] using lookup_isSome_of_mem n d h

theorem lookup_none_of_not_mem (n : String) : (d : Fields) → n ∉ d.map (·.1) → d.lookup n = none
  | [], _ => rfl
  | (m, j) :: d, h => by
    simp only [List.map_cons, List.mem_cons, not_or] at h
    have h' : (n == m) = false := by simpa using h.1
    simpa [List.lookup, h'] using lookup_none_of_not_mem n d h.2

/-! ### extensionality -/

theorem fields_ext : (a b : Fields) → a.map (·.1) = b.map (·.1) → (a.map (·.1)).Nodup →
    (∀ n, a.lookup n = b.lookup n) → a = b
  | [], [], _, _, _ => rfl
  | [], _ :: _, h, _, _ => by simp at h
  | _ :: _, [], h, _, _ => by simp at h
  | (m, j) :: a, (m', j') :: b, hk, hn, hl => by
    simp only [List.map_cons, List.cons.injEq] at hk
    obtain ⟨hm, hk⟩ := hk
    subst hm
    simp only [List.map_cons, List.nodup_cons] at hn
    have hj : j = j' := by
      have := hl m
      simpa [List.lookup] using this
    subst hj
    congr 1
    apply fields_ext a b hk hn.2
    intro n
    by_cases h : n = m
    · subst h
      rw [lookup_none_of_not_mem n a hn.1, lookup_none_of_not_mem n b (hk ▸ hn.1)]
    · have h' : (n == m) = false := by simpa using h
      have := hl n
      simpa [List.lookup, h'] using this

/-! ### the identity, joins, sets, references -/

theorem upd_disjoint : (b d d' : Fields) → (∀ e ∈ b, e.1 ∉ d.map (·.1)) → upd (d ++ d') b = d ++ upd d' b
  | [], _, _, _ => rfl
  | e :: b, d, d', h => by
    rw [upd_cons, upd_cons, dictSet_append_left d d' e.1 e.2 (h e (by simp))]
    exact upd_disjoint b d _ (fun x hx => h x (by simp [hx]))

/-- a join of sides without a common name: the schema is the concatenation -/
theorem collapse_append_disjoint (a b : Fields) (h : ∀ e ∈ b, e.1 ∉ (collapse a).map (·.1)) :
    collapse (a ++ b) = collapse a ++ collapse b := by
  rw [collapse_append]
  have := upd_disjoint b (collapse a) [] h
  simpa [collapse_eq_upd] using this

theorem upd_nodup_new : (b d : Fields) → (b.map (·.1)).Nodup → (∀ e ∈ b, e.1 ∉ d.map (·.1)) → upd d b = d ++ b
  | [], d, _, _ => by simp [upd_nil]
  | e :: b, d, hn, hd => by
    simp only [List.map_cons, List.nodup_cons] at hn
    have he : e.1 ∉ d.map (·.1) := hd e (by simp)
    have h1 : dictSet d e.1 e.2 = d ++ [e] := by
      have := dictSet_append_left d [] e.1 e.2 he
      simpa [dictSet] using this
    rw [upd_cons, h1, upd_nodup_new b (d ++ [e]) hn.2]
    · simp
    · intro x hx
      simp only [List.map_append, List.map_cons, List.map_nil, List.mem_append, List.mem_singleton, not_or]
      refine ⟨hd x (by simp [hx]), ?_⟩
      intro e'
      exact hn.1 (e' ▸ List.mem_map_of_mem (f := (·.1)) hx)

/-- distinct names: nothing collapses -/
theorem collapse_nodup (es : Fields) (h : (es.map (·.1)).Nodup) : collapse es = es := by
  rw [collapse_eq_upd, upd_nodup_new es [] h (by simp)]
  simp

/-- updating a dictionary with entries it already has (in the sense of the final values) changes nothing -/
theorem upd_same (d b : Fields) (hd : (d.map (·.1)).Nodup) (h : collapse b = d) : upd d b = d := by
  have hsub : ∀ e ∈ b, e.1 ∈ d.map (·.1) := by
    intro e he
    rw [← h, mem_collapse_keys]
    exact List.mem_map_of_mem (f := (·.1)) he
  apply fields_ext
  · exact upd_keys_of_subset b d hsub
  · rw [upd_keys_of_subset b d hsub]
    exact hd
  · intro n
    rw [upd_lookup, fin_init]
    have : fin b n none = d.lookup n := by rw [← collapse_lookup, h]
    rw [this]
    cases d.lookup n <;> rfl

/-- the two operands of a set have the same schema: so has the set -/
theorem collapse_append_same (a b : Fields) (h : collapse b = collapse a) : collapse (a ++ b) = collapse a := by
  rw [collapse_append]
  exact upd_same _ _ (collapse_keys_nodup a) h

theorem fin_map_const (n : String) (v : Kind) (g : String × Kind → String × Kind) (hg1 : ∀ p, (g p).1 = p.1) :
    (es : Fields) → (init : Option Kind) → (∀ p ∈ es, p.1 = n → (g p).2 = v) →
      fin (es.map g) n init = if n ∈ es.map (·.1) then some v else init
  | [], _, _ => by simp [fin]
  | e :: es, init, h => by
    rw [List.map_cons, fin_cons, fin_map_const n v g hg1 es _ (fun p hp => h p (by simp [hp]))]
    rw [hg1]
    by_cases he : e.1 = n
    · have := h e (by simp) he
      simp [he, this]
    · have he' : ¬ n = e.1 := fun x => he x.symm
      have hm : (n ∈ (e :: es).map (·.1)) ↔ n ∈ es.map (·.1) := by simp [he']
      by_cases hx : n ∈ es.map (·.1)
      · rw [if_pos hx, if_pos (hm.mpr hx)]
      · rw [if_neg hx, if_neg (fun y => hx (hm.mp y)), if_neg he]

/-- the elements of a reference carry the kinds of the instance's schema: same schema -/
theorem collapse_ref (es : Fields) :
    collapse (es.map (fun p => (p.1, ((collapse es).lookup p.1).getD p.2))) = collapse es := by
  apply fields_ext
  · rw [collapse_eq_upd, collapse_eq_upd]
    apply upd_keys_congr
    · simp [List.map_map, Function.comp_def]
    · rfl
  · exact collapse_keys_nodup _
  · intro n
    rw [collapse_lookup]
    by_cases hn : n ∈ es.map (·.1)
    · obtain ⟨v, hv⟩ := lookup_isSome_of_mem n (collapse es) ((mem_collapse_keys n es).mpr hn)
      rw [fin_map_const n v (fun p => (p.1, ((collapse es).lookup p.1).getD p.2)) (fun _ => rfl) es none]
      · simp [hn, hv]
      · intro p _ hp
        simp [hp, hv]
    · rw [fin_not_mem n _ none (by simpa [List.map_map, Function.comp_def] using hn)]
      rw [lookup_none_of_not_mem n _ (by rw [mem_collapse_keys]; exact hn)]

end ForML.Dsl
