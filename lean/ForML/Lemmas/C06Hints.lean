/-
C06 — the visitor with the per-table segments (`visitSourceH`: `Context.tables`, the hint features `visit_table`
generates code for) runs in lockstep with the visitor without them (`visitSource`) on well-formed statements: the
generation of the hint features never fails and leaves the parser state as it was.  Core Lean only.
-/
import ForML.Lemmas.C06Parse
import ForML.Model.ParserHints

namespace ForML.C06
open ForML.Dsl ForML.Rel ForML.Parser ForML.Denote ForML.Parser.Hints

/-! ### `visitSource` = visit the children, then the tail -/

theorem visit_ref_tail (srcs : Sources) (inst : Source) (name : String) (st : PState) :
    visitSource srcs (.ref inst name) st = (visitSource srcs inst st).bind (refTail inst name) := by
  rw [visitSource]; rfl

theorem visit_join_tail (srcs : Sources) (l r : Source) (k : JoinKind) (c : FeatureOpt) (st : PState) :
    visitSource srcs (.join l r k c) st =
      (visitSource srcs l st).bind (fun st => (visitSource srcs r st).bind (joinTail srcs l r k c)) := by
  rw [visitSource]; rfl

theorem visit_set_tail (srcs : Sources) (l r : Source) (k : SetKind) (st : PState) :
    visitSource srcs (.set l r k) st =
      (visitSource srcs l st).bind (fun st => (visitSource srcs r st).bind (setTail srcs l r k)) := by
  rw [visitSource]; rfl

theorem visit_query_tail (srcs : Sources) (src : Source) (sel : Features) (pre : FeatureOpt) (grp : Features)
    (post : FeatureOpt) (ord : Orderings) (rows : Option Rows) (st : PState) :
    visitSource srcs (.query src sel pre grp post ord rows) st =
      (visitSource srcs src (enter st)).bind (queryTail srcs src sel pre grp post ord rows) := by
  rw [visitSource]; rfl

/-! ### every factor is a supported feature over its own table -/

mutual
theorem supportedF_restrict (scope : List Source) (o : Source) :
    ∀ (f : Feature), supportedF scope f = true → (∀ e ∈ elems f, e.1 = o) → supportedF [o] f = true
  | .lit _, _, _ => by simp [supportedF]
  | .elem o' n, _, he => by
    have := he (o', n) (by simp [elems])
    simp only at this
    subst this
    simp [supportedF]
  | .alias f _, hs, he => by
    simp only [supportedF] at hs ⊢
    exact supportedF_restrict scope o f hs (by simpa [elems] using he)
  | .expr op args, hs, he => by
    simp only [supportedF, Bool.and_eq_true] at hs ⊢
    exact ⟨hs.1, supportedFs_restrict scope o args hs.2 (by simpa [elems] using he)⟩
  | .cast _ _, hs, _ => by simp [supportedF] at hs
  | .window _ _ _, hs, _ => by simp [supportedF] at hs
theorem supportedFs_restrict (scope : List Source) (o : Source) :
    ∀ (fs : Features), supportedFs scope fs = true → (∀ e ∈ elemsL fs, e.1 = o) → supportedFs [o] fs = true
  | .nil, _, _ => by simp [supportedFs]
  | .cons f fs, hs, he => by
    simp only [supportedFs, Bool.and_eq_true] at hs ⊢
    exact ⟨supportedF_restrict scope o f hs.1 (fun e h => he e (by simp [elemsL, h])),
      supportedFs_restrict scope o fs hs.2 (fun e h => he e (by simp [elemsL, h]))⟩
end

/-- every entry is a feature over the entry's table alone, built from supported expression classes -/
def FOk (m : FMap) : Prop := ∀ p ∈ m, supportedF [p.1] p.2 = true

theorem primitive_ok (scope : List Source) (f : Feature) (h : supportedF scope f = true) : FOk (primitive f) := by
  intro p hp
  unfold primitive at hp
  cases he : elems f with
  | nil => simp [he] at hp
  | cons e rest =>
    obtain ⟨o, n⟩ := e
    simp only [he] at hp
    by_cases hc : (isTableS o && rest.all (fun e => e.1 == o)) = true
    · simp only [hc, if_true, List.mem_singleton] at hp
      subst hp
      simp only [Bool.and_eq_true, List.all_eq_true, beq_iff_eq] at hc
      apply supportedF_restrict scope o f h
      intro e hm
      rw [he] at hm
      rcases List.mem_cons.mp hm with rfl | hm
      · rfl
      · exact hc.2 e hm
    · simp [hc] at hp

theorem lookup_mem {β : Type} : ∀ (l : List (Source × β)) (k : Source) (v : β), l.lookup k = some v → (k, v) ∈ l
  | [], _, _, h => by simp [List.lookup] at h
  | (k', v') :: l, k, v, h => by
    by_cases hk : k = k'
    · subst hk
      simp [List.lookup] at h
      subst h
      exact List.mem_cons_self ..
    · have : (k == k') = false := by simpa using hk
      simp only [List.lookup, this] at h
      exact List.mem_cons_of_mem _ (lookup_mem l k v h)

theorem binop_ok (o : Source) (op : Op) (hop : op = .and ∨ op = .or) (a b : Feature) (ha : supportedF [o] a = true)
    (hb : supportedF [o] b = true) : supportedF [o] (binop op a b) = true := by
  have hand : (match exprOp .and with | some sop => sop != .raises | none => false) = true := by decide
  have hor : (match exprOp .or with | some sop => sop != .raises | none => false) = true := by decide
  rcases hop with rfl | rfl
  · simp only [binop, supportedF, supportedFs, featuresLength, Op.arity, Bool.and_eq_true, Bool.and_true]
    exact ⟨⟨⟨hand, by decide⟩, by decide⟩, ha, hb⟩
  · simp only [binop, supportedF, supportedFs, featuresLength, Op.arity, Bool.and_eq_true, Bool.and_true]
    exact ⟨⟨⟨hor, by decide⟩, by decide⟩, ha, hb⟩

theorem mergeF_ok (op : Op) (hop : op = .and ∨ op = .or) (l r : FMap) (hl : FOk l) (hr : FOk r) : FOk (mergeF op l r) := by
  intro p hp
  simp only [mergeF, List.mem_append, List.mem_map, List.mem_filter] at hp
  rcases hp with ⟨kv, hkv, rfl⟩ | ⟨hp, _⟩
  · cases hb : r.lookup kv.1 with
    | none => simpa using hl kv hkv
    | some b =>
      simp only []
      by_cases he : kv.2 = b
      · simpa [he] using hl kv hkv
      · simp only [he, if_false]
        exact binop_ok kv.1 op hop kv.2 b (hl kv hkv) (hr (kv.1, b) (lookup_mem r kv.1 b hb))
  · exact hr p hp

theorem orF_ok (l r : FMap) (hl : FOk l) (hr : FOk r) : FOk (orF l r) := by
  intro p hp
  simp only [orF, List.mem_filterMap] at hp
  obtain ⟨kv, hkv, hp⟩ := hp
  cases hb : r.lookup kv.1 with
  | none => simp [hb] at hp
  | some b =>
    simp only [hb, Option.some.injEq] at hp
    subst hp
    by_cases he : kv.2 = b
    · simpa [he] using hl kv hkv
    · simp only [he, if_false]
      exact binop_ok kv.1 .or (Or.inr rfl) kv.2 b (hl kv hkv) (hr (kv.1, b) (lookup_mem r kv.1 b hb))

/-- the atoms of the skeleton are supported features -/
def PredOk (scope : List Source) : Pred → Prop
  | .atom f => supportedF scope f = true
  | .and a b => PredOk scope a ∧ PredOk scope b
  | .or a b => PredOk scope a ∧ PredOk scope b
  | .other _ => True

theorem factorsP_ok (scope : List Source) : ∀ (p : Pred), PredOk scope p → FOk (factorsP p)
  | .atom f, h => primitive_ok scope f h
  | .and a b, h => mergeF_ok .and (Or.inl rfl) _ _ (factorsP_ok scope a h.1) (factorsP_ok scope b h.2)
  | .or a b, h => orF_ok _ _ (factorsP_ok scope a h.1) (factorsP_ok scope b h.2)
  | .other _, _ => by intro p hp; simp [factorsP] at hp

theorem toPred_ok (scope : List Source) (f : Feature) (h : supportedF scope f = true) : PredOk scope (toPred f) := by
  fun_induction toPred f <;> simp_all [PredOk, supportedF, supportedFs]

theorem factorsOf_ok (scope : List Source) (f : Feature) (h : supportedF scope f = true) : FOk (factorsOf f) :=
  factorsP_ok scope _ (toPred_ok scope f h)

/-! ### the segments of a context -/

def SegsOk (sg : Segs) : Prop := FOk sg.factors

theorem mem_addAll {α : Type} [DecidableEq α] : ∀ (as l : List α) (a : α), a ∈ addAll l as → a ∈ l ∨ a ∈ as
  | [], l, a, h => Or.inl (by simpa [addAll] using h)
  | x :: as, l, a, h => by
    have := mem_addAll as (addNew l x) a (by simpa [addAll] using h)
    rcases this with h1 | h1
    · unfold addNew at h1
      by_cases hx : x ∈ l
      · simp only [hx, if_true] at h1; exact Or.inl h1
      · simp only [hx, if_false, List.mem_append, List.mem_singleton] at h1
        rcases h1 with h1 | h1
        · exact Or.inl h1
        · exact Or.inr (by simp [h1])
    · exact Or.inr (List.mem_cons_of_mem _ h1)

theorem select_ok (sg : Segs) (fs : List Feature) (h : SegsOk sg) : SegsOk (sg.select fs) := h

theorem filter_ok (scope : List Source) (sg : Segs) (e : Feature) (h : SegsOk sg) (he : supportedF scope e = true) :
    SegsOk (sg.filter e) := by
  intro p hp
  simp only [Segs.filter, Segs.select] at hp
  rcases mem_addAll _ _ _ hp with h1 | h1
  · exact h p h1
  · exact factorsOf_ok scope e he p h1

theorem filterOpt_ok (scope : List Source) (sg : Segs) (c : FeatureOpt) (h : SegsOk sg) (hc : supportedFO scope c = true) :
    SegsOk (sg.filterOpt c) := by
  cases c with
  | none => exact h
  | some e => exact filter_ok scope sg e h (by simpa [supportedFO] using hc)

theorem queryCtx_ok (scope : List Source) (src : Source) (sel : Features) (pre : FeatureOpt) (grp : Features)
    (post : FeatureOpt) (ord : Orderings) (hpre : supportedFO scope pre = true) :
    SegsOk (queryCtx src sel pre grp post ord) := by
  unfold queryCtx
  apply select_ok; apply select_ok; apply select_ok
  apply filterOpt_ok scope _ pre _ hpre
  apply select_ok
  intro p hp
  simp at hp

theorem foldl_or_ok (t : Source) : ∀ (ps : List Feature) (p : Feature), supportedF [t] p = true →
    (∀ x ∈ ps, supportedF [t] x = true) → supportedF [t] (ps.foldl (binop .or) p) = true
  | [], p, hp, _ => by simpa using hp
  | x :: ps, p, hp, hx => by
    simp only [List.foldl]
    exact foldl_or_ok t ps _ (binop_ok t .or (Or.inr rfl) p x hp (hx x (List.mem_cons_self ..)))
      (fun y hy => hx y (List.mem_cons_of_mem _ hy))

theorem hintFeatures_ok (sg : Segs) (t : Source) (h : SegsOk sg) : ∀ f ∈ hintFeatures sg t, supportedF [t] f = true := by
  intro f hf
  simp only [hintFeatures, List.mem_append, List.mem_map, List.mem_filter] at hf
  rcases hf with ⟨kv, _, rfl⟩ | hf
  · simp [supportedF]
  · have hall : ∀ x ∈ (sg.factors.filter (fun kv => kv.1 = t)).map (·.2), supportedF [t] x = true := by
      intro x hx
      simp only [List.mem_map, List.mem_filter, decide_eq_true_eq] at hx
      obtain ⟨kv, ⟨hm, hk⟩, rfl⟩ := hx
      have := h kv hm
      rwa [hk] at this
    cases hps : (sg.factors.filter (fun kv => kv.1 = t)).map (·.2) with
    | nil => simp [hps] at hf
    | cons p ps =>
      rw [hps] at hall
      simp only [hps, List.mem_singleton] at hf
      subst hf
      exact foldl_or_ok t ps p (hall p (List.mem_cons_self ..)) (fun y hy => hall y (List.mem_cons_of_mem _ hy))

/-- generating the code of the hint features of a provisioned table succeeds and leaves the parser state as it was -/
theorem genHints_ok (srcs : Sources) (t : Source) (pn : String) (hq : qual srcs t = some pn) :
    ∀ (fs : List Feature), (∀ f ∈ fs, supportedF [t] f = true) →
      ∀ (syms : List Sym) (origs : List (Source × String)) (stk : List (Option Ctx)), origs.lookup t = some pn →
        genHints fs ⟨some ⟨syms, origs⟩, stk⟩ = .ok ⟨some ⟨syms, origs⟩, stk⟩
  | [], _, _, _, _, _ => rfl
  | f :: fs, hfs, syms, origs, stk, ho => by
    have hreg : Registered srcs origs [t] := by
      intro o hm
      simp only [List.mem_singleton] at hm
      subst hm
      rw [ho, hq]
    have hqs : ∀ o ∈ [t], (qual srcs o).isSome = true := by
      intro o hm
      simp only [List.mem_singleton] at hm
      subst hm
      simp [hq]
    have hs := hfs f (List.mem_cons_self ..)
    obtain ⟨e, he⟩ := compileF_some srcs [t] hqs f hs
    simp only [genHints, genFeature_spec srcs [t] origs hreg f e hs he syms stk, bind, Except.bind]
    exact genHints_ok srcs t pn hq fs (fun g hg => hfs g (List.mem_cons_of_mem _ hg)) syms origs stk ho

/-! ### lockstep -/

/-- the visit with the segments does what the visit without them does, and hands on well-behaved segments -/
def VisitHOk (srcs : Sources) (s : Source) (q : SqlSel) : Prop :=
  ∀ sg, SegsOk sg → ∃ sg', SegsOk sg' ∧
    ∀ (syms : List Sym) (origs : List (Source × String)) (stk : List (Option Ctx)),
      visitSourceH srcs s (⟨some ⟨syms, origs⟩, stk⟩, sg) =
        .ok (⟨some ⟨.src q :: syms, regOrigins srcs s ++ origs⟩, stk⟩, sg')

theorem regOrigins_out (srcs : Sources) (s : Source) (hs : wfOut srcs s = true) : regOrigins srcs s = [] := by
  cases s <;> simp [wfOut] at hs <;> rfl

mutual
theorem visitH_from (srcs : Sources) (hT : OnlyTables srcs = true) :
    ∀ (s : Source), wfFrom srcs s = true → isOrigin s = true → ∀ q, compile srcs s = some q → VisitHOk srcs s q
  | .table n fields, hwf, _, q, hq => by
    simp only [wfFrom] at hwf
    obtain ⟨pn, hpn⟩ := Option.isSome_iff_exists.mp hwf
    have : q = .table pn := by simpa [compile, hpn] using hq.symm
    subst this
    intro sg hsg
    refine ⟨sg, hsg, ?_⟩
    intro syms origs stk
    have hg := genHints_ok srcs (.table n fields) pn (by simp [qual, hpn]) (hintFeatures sg (.table n fields))
      (hintFeatures_ok sg _ hsg) syms ((.table n fields, pn) :: origs) stk (by simp [List.lookup])
    simp [visitSourceH, hpn, setOrigin, hg, push, bind, Except.bind, pure, Except.pure, regOrigins, qualD, qual]
  | .ref inst name, hwf, ho, q, hq => by
    obtain ⟨q', hq', hv⟩ := visit_from srcs hT (.ref inst name) hwf ho
    rw [hq] at hq'; injection hq' with hq'; subst hq'
    have hinner : ∃ qi, compile srcs inst = some qi ∧ VisitOk srcs inst qi ∧ VisitHOk srcs inst qi := by
      cases inst with
      | table n fields =>
        have hw : wfFrom srcs (.table n fields) = true := by simpa [wfFrom] using hwf
        obtain ⟨qi, hqi, hvi⟩ := visit_from srcs hT (.table n fields) hw rfl
        exact ⟨qi, hqi, hvi, visitH_from srcs hT (.table n fields) hw rfl qi hqi⟩
      | ref a b => simp [wfFrom] at hwf
      | join a b c d => simp [wfFrom] at hwf
      | set a b c =>
        have hw : wfOut srcs (.set a b c) = true := by simpa [wfFrom] using hwf
        obtain ⟨qi, hqi, _, hvi⟩ := visit_out srcs hT (.set a b c) hw
        exact ⟨qi, hqi, hvi, visitH_out srcs hT (.set a b c) hw qi hqi⟩
      | query a b c d e f g =>
        have hw : wfOut srcs (.query a b c d e f g) = true := by simpa [wfFrom] using hwf
        obtain ⟨qi, hqi, _, hvi⟩ := visit_out srcs hT (.query a b c d e f g) hw
        exact ⟨qi, hqi, hvi, visitH_out srcs hT (.query a b c d e f g) hw qi hqi⟩
    obtain ⟨qi, _, hvi, hhi⟩ := hinner
    intro sg hsg
    obtain ⟨sg', hsg', hH⟩ := hhi sg hsg
    refine ⟨sg', hsg', ?_⟩
    intro syms origs stk
    have htail := hv syms origs stk
    rw [visit_ref_tail, hvi syms origs stk] at htail
    simp only [Except.bind] at htail
    rw [visitSourceH]
    simp only [hH syms origs stk, htail, bind, Except.bind, pure, Except.pure]
  | .join l r k c, hwf, ho, q, hq => by
    obtain ⟨q', hq', hv⟩ := visit_from srcs hT (.join l r k c) hwf ho
    rw [hq] at hq'; injection hq' with hq'; subst hq'
    have hwf' := hwf
    simp only [wfFrom, Bool.and_eq_true] at hwf
    obtain ⟨⟨⟨⟨⟨hl, hr⟩, hol⟩, hor⟩, _⟩, hkc⟩ := hwf
    obtain ⟨L, hL, hvL⟩ := visit_from srcs hT l hl hol
    obtain ⟨R, hR, hvR⟩ := visit_from srcs hT r hr hor
    have hhL := visitH_from srcs hT l hl hol L hL
    have hhR := visitH_from srcs hT r hr hor R hR
    have hc : supportedFO (leaves l ++ leaves r) c = true := by
      cases c with
      | none => rfl
      | some f => cases k <;> simp at hkc <;> simpa [supportedFO] using hkc
    intro sg hsg
    obtain ⟨sg1, hsg1, hH1⟩ := hhL (sg.filterOpt c) (filterOpt_ok _ sg c hsg hc)
    obtain ⟨sg2, hsg2, hH2⟩ := hhR sg1 hsg1
    refine ⟨sg2, hsg2, ?_⟩
    intro syms origs stk
    have htail := hv syms origs stk
    rw [visit_join_tail, hvL syms origs stk] at htail
    simp only [Except.bind] at htail
    rw [hvR (.src L :: syms) (regOrigins srcs l ++ origs) stk] at htail
    simp only [Except.bind] at htail
    rw [visitSourceH]
    simp only [hH1 syms origs stk, hH2 (.src L :: syms) (regOrigins srcs l ++ origs) stk, htail, bind, Except.bind, pure,
      Except.pure]
  | .set _ _ _, _, ho, _, _ => by simp [isOrigin] at ho
  | .query _ _ _ _ _ _ _, _, ho, _, _ => by simp [isOrigin] at ho
theorem visitH_out (srcs : Sources) (hT : OnlyTables srcs = true) :
    ∀ (s : Source), wfOut srcs s = true → ∀ q, compile srcs s = some q → VisitHOk srcs s q
  | .set l r k, hwf, q, hq => by
    obtain ⟨q', hq', _, hv⟩ := visit_out srcs hT (.set l r k) hwf
    rw [hq] at hq'; injection hq' with hq'; subst hq'
    simp only [wfOut, Bool.and_eq_true] at hwf
    obtain ⟨⟨hl, hr⟩, _⟩ := hwf
    obtain ⟨L, hL, _, hvL⟩ := visit_out srcs hT l hl
    obtain ⟨R, hR, _, hvR⟩ := visit_out srcs hT r hr
    have hhL := visitH_out srcs hT l hl L hL
    have hhR := visitH_out srcs hT r hr R hR
    intro sg hsg
    obtain ⟨sg1, hsg1, hH1⟩ := hhL sg hsg
    obtain ⟨sg2, hsg2, hH2⟩ := hhR sg1 hsg1
    refine ⟨sg2, hsg2, ?_⟩
    intro syms origs stk
    have htail := hv syms origs stk
    rw [visit_set_tail, hvL syms origs stk] at htail
    simp only [Except.bind, regOrigins_out srcs l hl, List.nil_append] at htail
    rw [hvR (.src L :: syms) origs stk] at htail
    simp only [Except.bind, regOrigins_out srcs r hr, List.nil_append] at htail
    have h1 := hH1 syms origs stk
    have h2 := hH2 (.src L :: syms) origs stk
    simp only [regOrigins_out srcs l hl, List.nil_append] at h1
    simp only [regOrigins_out srcs r hr, List.nil_append] at h2
    rw [visitSourceH]
    simp only [h1, h2, htail, bind, Except.bind, pure, Except.pure]
  | .query src sel pre grp post ord rows, hwf, q, hq => by
    obtain ⟨q', hq', _, hv⟩ := visit_out srcs hT (.query src sel pre grp post ord rows) hwf
    rw [hq] at hq'; injection hq' with hq'; subst hq'
    simp only [wfOut, Bool.and_eq_true] at hwf
    obtain ⟨⟨⟨⟨⟨⟨⟨hfrom, horig⟩, _⟩, _⟩, hpre⟩, _⟩, _⟩, _⟩ := hwf
    obtain ⟨frm, hfrm, hvF⟩ := visit_from srcs hT src hfrom horig
    have hhF := visitH_from srcs hT src hfrom horig frm hfrm
    intro sg hsg
    obtain ⟨sg1, _, hH1⟩ := hhF (queryCtx src sel pre grp post ord) (queryCtx_ok _ src sel pre grp post ord hpre)
    refine ⟨sg, hsg, ?_⟩
    intro syms origs stk
    have htail := hv syms origs stk
    have hF := hvF [] [] (some ⟨syms, origs⟩ :: stk)
    have hent : enter ⟨some ⟨syms, origs⟩, stk⟩ = ⟨some ⟨[], []⟩, some ⟨syms, origs⟩ :: stk⟩ := rfl
    rw [visit_query_tail, hent, hF] at htail
    simp only [Except.bind] at htail
    rw [visitSourceH]
    simp only [hent, hH1 [] [] (some ⟨syms, origs⟩ :: stk), htail, bind, Except.bind, pure, Except.pure]
  | .table _ _, hwf, _, _ => by simp [wfOut] at hwf
  | .ref _ _, hwf, _, _ => by simp [wfOut] at hwf
  | .join _ _ _ _, hwf, _, _ => by simp [wfOut] at hwf
end

/-- parsing with the complete `visit_table` (segments, hint features) is parsing without it -/
theorem parseH_eq_parse (srcs : Sources) (s : Source) (h : WF srcs s = true) : parseH srcs s = parse srcs s := by
  simp only [WF, Bool.and_eq_true] at h
  obtain ⟨q, hq, _, hv⟩ := visit_out srcs h.1 s h.2
  obtain ⟨sg', _, hH⟩ := visitH_out srcs h.1 s h.2 q hq {} (by intro p hp; simp at hp)
  have henter : enter ({} : PState) = ⟨some ⟨[], []⟩, [none]⟩ := rfl
  unfold parseH parse
  simp only [henter, hH [] [] [none], hv [] [] [none], bind, Except.bind]
  rfl

end ForML.C06
