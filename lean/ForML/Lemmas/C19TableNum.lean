/-
Helper lemmas for the codec tables of C19, part 1 (core Lean only): decimal digits of naturals, and the texts of numbers as
`to_csv` writes them against what `read_csv`'s inference (`looksNumber`, `isNA`, `readNumber`) makes of them.
-/
import ForML.Lemmas.C19
import ForML.Lemmas.C19Header
import ForML.Model.CodecTable

namespace ForML.Codec

/-! ### decimal digits -/

theorem digitChar_isDigit (n : Nat) : isDigit (digitChar n) = true := by
  have h : n % 10 < 10 := Nat.mod_lt _ (by decide)
  unfold digitChar
  generalize n % 10 = m at h
  have : m = 0 ∨ m = 1 ∨ m = 2 ∨ m = 3 ∨ m = 4 ∨ m = 5 ∨ m = 6 ∨ m = 7 ∨ m = 8 ∨ m = 9 := by omega
  rcases this with rfl | rfl | rfl | rfl | rfl | rfl | rfl | rfl | rfl | rfl <;> decide

theorem digitChar_val (n : Nat) : (digitChar n).toNat - '0'.toNat = n % 10 := by
  have h : n % 10 < 10 := Nat.mod_lt _ (by decide)
  unfold digitChar
  generalize n % 10 = m at h
  have : m = 0 ∨ m = 1 ∨ m = 2 ∨ m = 3 ∨ m = 4 ∨ m = 5 ∨ m = 6 ∨ m = 7 ∨ m = 8 ∨ m = 9 := by omega
  rcases this with rfl | rfl | rfl | rfl | rfl | rfl | rfl | rfl | rfl | rfl <;> decide

theorem digitsVal_append_one (s : Str) (c : Char) : digitsVal (s ++ [c]) = 10 * digitsVal s + (c.toNat - '0'.toNat) := by
  simp [digitsVal, List.foldl_append]

theorem natTextAux_spec (fuel n : Nat) (h : n < fuel) :
    digitsVal (natTextAux fuel n) = n ∧ (natTextAux fuel n).all isDigit = true ∧ natTextAux fuel n ≠ [] := by
  induction fuel generalizing n with
  | zero => omega
  | succ f ih =>
    simp only [natTextAux]
    split
    · rename_i hlt
      refine ⟨?_, by simp [digitChar_isDigit], by simp⟩
      simp only [digitsVal, List.foldl_cons, List.foldl_nil, Nat.mul_zero, Nat.zero_add]
      rw [digitChar_val]; omega
    · rename_i hge
      have hdiv : n / 10 < f := by omega
      obtain ⟨h1, h2, h3⟩ := ih (n / 10) hdiv
      refine ⟨?_, ?_, by simp⟩
      · rw [digitsVal_append_one, h1, digitChar_val]; omega
      · simp [List.all_append, h2, digitChar_isDigit]

theorem natText_spec (n : Nat) : digitsVal (natText n) = n ∧ (natText n).all isDigit = true ∧ natText n ≠ [] :=
  natTextAux_spec (n + 1) n (by omega)

theorem digitsVal_replicate_zero (k : Nat) (s : Str) : digitsVal (List.replicate k '0' ++ s) = digitsVal s := by
  induction k with
  | zero => rfl
  | succ k ih =>
    simp only [List.replicate_succ, List.cons_append]
    have : digitsVal ('0' :: (List.replicate k '0' ++ s)) = digitsVal (List.replicate k '0' ++ s) := by
      simp [digitsVal]
    rw [this, ih]

theorem padDigits_spec (n w : Nat) :
    digitsVal (padDigits n w) = n ∧ (padDigits n w).all isDigit = true ∧ w ≤ (padDigits n w).length := by
  obtain ⟨h1, h2, _⟩ := natText_spec n
  unfold padDigits
  refine ⟨by simp only []; rw [digitsVal_replicate_zero, h1], ?_, ?_⟩
  · simp only [List.all_append, h2, Bool.and_true, List.all_replicate]
    simp; right; decide
  · simp only [List.length_append, List.length_replicate]; omega

theorem digits_foldl (b : Str) (acc : Nat) :
    b.foldl (fun n c => 10 * n + (c.toNat - '0'.toNat)) acc = acc * 10 ^ b.length + digitsVal b := by
  induction b generalizing acc with
  | nil => simp [digitsVal]
  | cons c r ih =>
    simp only [List.foldl_cons, List.length_cons, digitsVal]
    rw [ih, ih (10 * 0 + (c.toNat - '0'.toNat))]
    simp only [Nat.mul_zero, Nat.zero_add, Nat.pow_succ]
    rw [Nat.add_mul, Nat.add_assoc, Nat.mul_comm 10 acc, Nat.mul_assoc, Nat.mul_comm 10]

/-- `digitsVal` of a concatenation of digit strings -/
theorem digitsVal_append (a b : Str) : digitsVal (a ++ b) = digitsVal a * 10 ^ b.length + digitsVal b := by
  unfold digitsVal
  rw [List.foldl_append, digits_foldl]
  rfl

/-! ### number texts -/

theorem toLower_low (c : Char) (h : c.val ≤ '9'.val) : c.toLower = c := by
  unfold Char.toLower
  split
  · rename_i hc
    exfalso
    have h1 : 'A'.val ≤ c.val := hc.1
    have h2 := UInt32.le_trans h1 h
    revert h2; decide
  · rfl

/-- characters of a plain decimal number: digits and the point -/
def numChar (c : Char) : Bool := isDigit c || c == '.'

theorem numChar_props (c : Char) (h : numChar c = true) :
    c.val ≤ '9'.val ∧ c ≠ 'e' ∧ c ≠ 'E' ∧ blank c = false ∧ c ≠ '+' ∧ c ≠ '-' ∧ c ≠ 'i' := by
  simp only [numChar, Bool.or_eq_true, beq_iff_eq] at h
  rcases h with h | h
  · have hle : c.val ≤ '9'.val := by
      simp only [isDigit, Bool.and_eq_true, decide_eq_true_eq] at h; exact h.2
    refine ⟨hle, ?_, ?_, ?_, ?_, ?_, ?_⟩
    · intro e; subst e; revert hle; decide
    · intro e; subst e; revert hle; decide
    · have := (digit_ne c h).2.2.2
      cases hb : blank c
      · rfl
      · exfalso
        simp only [blank, Bool.or_eq_true, beq_iff_eq] at hb
        rcases hb with rfl | rfl <;> simp [isWs] at this
    · exact (digit_ne c h).2.2.1
    · exact (digit_ne c h).2.1
    · intro e; subst e; revert hle; decide
  · subst h; decide

theorem digits_num (s : Str) (h : s.all isDigit = true) : s.all numChar = true := by
  rw [List.all_eq_true] at *
  intro c hc; simp [numChar, h c hc]

theorem lower_num (s : Str) (h : s.all numChar = true) : lower s = s := by
  unfold lower
  induction s with
  | nil => rfl
  | cons c r ih =>
    simp only [List.all_cons, Bool.and_eq_true] at h
    simp only [List.map_cons]
    rw [toLower_low c (numChar_props c h.1).1, ih h.2]

theorem mapE_num (s : Str) (h : s.all numChar = true) : s.map (fun c => if c == 'E' then 'e' else c) = s := by
  induction s with
  | nil => rfl
  | cons c r ih =>
    simp only [List.all_cons, Bool.and_eq_true] at h
    have : (c == 'E') = false := by simpa using (numChar_props c h.1).2.2.1
    simp only [List.map_cons, this, Bool.false_eq_true, if_false]
    rw [ih h.2]

theorem no_e_num (s : Str) (h : s.all numChar = true) : 'e' ∉ s := by
  intro hm
  exact (numChar_props 'e' (List.all_eq_true.mp h _ hm)).2.1 rfl

theorem stripBlanks_id (s : Str) (h : ∀ c ∈ s, blank c = false) : stripBlanks s = s := by
  have hd : ∀ l : Str, (∀ c ∈ l, blank c = false) → l.dropWhile blank = l := by
    intro l hl
    cases l with
    | nil => rfl
    | cons c r => simp [List.dropWhile_cons, hl c (by simp)]
  unfold stripBlanks
  rw [hd s h, hd s.reverse (fun c hc => h c (by simpa using hc)), List.reverse_reverse]

theorem dropSign_plain (c : Char) (r : Str) (h1 : c ≠ '+') (h2 : c ≠ '-') : dropSign (c :: r) = c :: r := by
  unfold dropSign
  split
  · rename_i heq; cases heq; exact absurd rfl h1
  · rename_i heq; cases heq; exact absurd rfl h2
  · rfl

/-- body of a number text: integer digits, optionally a point and decimals -/
def numBody (ip : Str) (fp : Option Str) : Str := ip ++ (match fp with | none => [] | some f => '.' :: f)

/-- `[-] DIGIT+ [. DIGIT*]` -/
def numText (neg : Bool) (ip : Str) (fp : Option Str) : Str := (if neg then ['-'] else []) ++ numBody ip fp

def numWF (ip : Str) (fp : Option Str) : Prop :=
  ip.all isDigit = true ∧ ip ≠ [] ∧ ∀ f, fp = some f → f.all isDigit = true

theorem numBody_chars (ip : Str) (fp : Option Str) (h : numWF ip fp) : (numBody ip fp).all numChar = true := by
  unfold numBody
  rw [List.all_append, digits_num ip h.1, Bool.true_and]
  cases fp with
  | none => rfl
  | some f => simp only [List.all_cons]; rw [digits_num f (h.2.2 f rfl)]; decide

theorem numBody_cons (ip : Str) (fp : Option Str) (h : numWF ip fp) : ∃ c r, numBody ip fp = c :: r ∧ isDigit c = true := by
  obtain ⟨h1, h2, _⟩ := h
  cases ip with
  | nil => exact absurd rfl h2
  | cons c r =>
    simp only [List.all_cons, Bool.and_eq_true] at h1
    exact ⟨c, r ++ numBody [] fp, by simp [numBody], h1.1⟩

theorem numText_strip (neg : Bool) (ip : Str) (fp : Option Str) (h : numWF ip fp) :
    stripBlanks (numText neg ip fp) = numText neg ip fp := by
  apply stripBlanks_id
  intro c hc
  unfold numText at hc
  rcases List.mem_append.mp hc with hc | hc
  · cases neg
    · simp at hc
    · simp at hc; subst hc; decide
  · exact (numChar_props c (List.all_eq_true.mp (numBody_chars ip fp h) c hc)).2.2.2.1

theorem numText_dropSign (neg : Bool) (ip : Str) (fp : Option Str) (h : numWF ip fp) :
    dropSign (numText neg ip fp) = numBody ip fp := by
  unfold numText
  cases neg
  · obtain ⟨c, r, hb, hd⟩ := numBody_cons ip fp h
    simp only [Bool.false_eq_true, if_false, List.nil_append, hb]
    exact dropSign_plain c r (digit_ne c hd).2.2.1 (digit_ne c hd).2.1
  · rfl

theorem numText_head (neg : Bool) (ip : Str) (fp : Option Str) (h : numWF ip fp) :
    ((numText neg ip fp).head? == some '-') = neg := by
  unfold numText
  cases neg
  · obtain ⟨c, r, hb, hd⟩ := numBody_cons ip fp h
    simp only [Bool.false_eq_true, if_false, List.nil_append, hb, List.head?_cons]
    have := (digit_ne c hd).2.1
    simp [this]
  · rfl

theorem numBody_not_inf (ip : Str) (fp : Option Str) (h : numWF ip fp) :
    (numBody ip fp == "inf".toList || numBody ip fp == "infinity".toList) = false := by
  obtain ⟨c, r, hb, hd⟩ := numBody_cons ip fp h
  have hi : c ≠ 'i' := (numChar_props c (by simp [numChar, hd])).2.2.2.2.2.2
  have e1 : "inf".toList = ['i', 'n', 'f'] := by decide
  have e2 : "infinity".toList = ['i', 'n', 'f', 'i', 'n', 'i', 't', 'y'] := by decide
  rw [hb, e1, e2]
  simp [hi]

theorem numBody_splitExp (ip : Str) (fp : Option Str) (h : numWF ip fp) : splitExp (numBody ip fp) = (numBody ip fp, none) := by
  unfold splitExp
  rw [mapE_num _ (numBody_chars ip fp h), splitOn_free 'e' _ (no_e_num _ (numBody_chars ip fp h))]

theorem numBody_splitDot (ip : Str) (fp : Option Str) (h : numWF ip fp) :
    splitOn '.' (numBody ip fp) = match fp with | none => [ip] | some f => [ip, f] := by
  unfold numBody
  cases fp with
  | none => simp only [List.append_nil]; exact splitOn_free '.' ip (digits_no_dot ip h.1)
  | some f =>
    simp only
    rw [splitOn_append '.' ip f (digits_no_dot ip h.1), splitOn_free '.' f (digits_no_dot f (h.2.2 f rfl))]

theorem allDigits_of (ip : Str) (h1 : ip.all isDigit = true) (h2 : ip ≠ []) : allDigits ip = true := by
  unfold allDigits
  cases ip with
  | nil => exact absurd rfl h2
  | cons c r => simp only [List.isEmpty_cons, Bool.not_false, Bool.true_and]; exact h1

theorem numText_looksNumber (neg : Bool) (ip : Str) (fp : Option Str) (h : numWF ip fp) : looksNumber (numText neg ip fp) = true := by
  unfold looksNumber
  simp only [numText_strip neg ip fp h, numText_dropSign neg ip fp h, lower_num _ (numBody_chars ip fp h),
    numBody_not_inf ip fp h, Bool.false_eq_true, if_false, numBody_splitExp ip fp h]
  unfold isMantissa
  rw [numBody_splitDot ip fp h]
  cases fp with
  | none => exact allDigits_of ip h.1 h.2.1
  | some f => simp [allDigits_of ip h.1 h.2.1, h.2.2 f rfl]

/-- every missing-value marker is empty or holds a character that no number text has -/
theorem naValues_chars : ∀ v ∈ naValues, v = [] ∨ v.any (fun c => !(numChar c || c == '-')) = true := by
  decide +kernel

theorem numText_notNA (neg : Bool) (ip : Str) (fp : Option Str) (h : numWF ip fp) : isNA (numText neg ip fp) = false := by
  cases hna : isNA (numText neg ip fp) with
  | false => rfl
  | true =>
    exfalso
    unfold isNA at hna
    have hmem : numText neg ip fp ∈ naValues := by simpa using hna
    have hchars : ∀ c ∈ numText neg ip fp, (numChar c || c == '-') = true := by
      intro c hc
      unfold numText at hc
      rcases List.mem_append.mp hc with hc | hc
      · cases neg
        · simp at hc
        · simp at hc; subst hc; decide
      · simp [List.all_eq_true.mp (numBody_chars ip fp h) c hc]
    rcases naValues_chars _ hmem with he | hany
    · obtain ⟨c, r, hb, _⟩ := numBody_cons ip fp h
      unfold numText at he
      rw [hb] at he
      cases neg <;> simp at he
    · obtain ⟨c, hc, hbad⟩ := List.any_eq_true.mp hany
      rw [hchars c hc] at hbad; simp at hbad

theorem numText_read_int (neg : Bool) (ip : Str) (h : numWF ip none) :
    readNumber (numText neg ip none) = .int (if neg then - (digitsVal ip : Int) else digitsVal ip) := by
  unfold readNumber
  simp only [numText_strip neg ip none h, numText_dropSign neg ip none h, numText_head neg ip none h,
    lower_num _ (numBody_chars ip none h), numBody_not_inf ip none h, Bool.false_eq_true, if_false,
    numBody_splitExp ip none h, numBody_splitDot ip none h]

theorem numText_read_float (neg : Bool) (ip f : Str) (h : numWF ip (some f)) :
    readNumber (numText neg ip (some f)) = .float neg ⟨digitsVal (ip ++ f), f.length⟩ := by
  unfold readNumber
  simp only [numText_strip neg ip _ h, numText_dropSign neg ip _ h, numText_head neg ip _ h,
    lower_num _ (numBody_chars ip _ h), numBody_not_inf ip _ h, Bool.false_eq_true, if_false,
    numBody_splitExp ip _ h, numBody_splitDot ip _ h]
  simp

end ForML.Codec
