/-
C03 — helper lemmas, part 7: `wrap.Operator.compose` (label / apply / train slots, builders shared between slots).

Semantic side: `denoteWrap` (written from the documentation with `unify`/`stateFor`) equals a slot-by-slot
reading `denoteWrapSeq` that threads the list of actors already engaged by this operator (`Known`) — proved by
exhaustive case analysis on which slots are filled, which tags coincide and which actors are stateful.
Graph side: each `build` follows one `slotStep` (`C03Build.lean`), the three workers are then subscribed
(`Trunk.extend`) and become live in the order label, apply, train.
-/
import ForML.Lemmas.C03Build

namespace ForML.Compose

abbrev Known := List (Actor × Val)

def slotStep (known : Known) (slot : Option Actor) (xt lbl : Val) : Option (Actor × Val) × Known × List (Nat × Val) :=
  match slot with
  | none => (none, known, [])
  | some a =>
    match known.find? (fun k => k.1.tag == a.tag) with
    | some k => (some k, known, [])
    | none =>
      (some (a, trainedState a xt lbl), known ++ [(a, trainedState a xt lbl)],
        if a.stateful then [(a.tag, trainedState a xt lbl)] else [])

def denoteWrapSeq (lab app trn : Option Actor) (S : Scope) : Scope := fun xa xt xl =>
  let s := S xa xt xl
  let L := slotStep [] lab s.train s.label
  let label' := match L.1 with | some (a, st) => applied a st s.label | none => s.label
  let A := slotStep L.2.1 app s.train label'
  let T := slotStep A.2.1 trn s.train label'
  { apply := match A.1 with | some (a, st) => applied a st s.apply | none => s.apply
    train := match T.1 with | some (a, st) => applied a st s.train | none => s.train
    label := label'
    states := s.states ++ (L.2.2 ++ A.2.2 ++ T.2.2) }

theorem denoteWrap_eq (lab app trn : Option Actor) (S : Scope) : denoteWrap lab app trn S = denoteWrapSeq lab app trn S := by
  funext xa xt xl
  cases lab with
  | none =>
    cases app with
    | none =>
      cases trn with
      | none => simp [denoteWrap, denoteWrapSeq, slotStep]
      | some t =>
        by_cases ht : t.stateful = true <;> simp [denoteWrap, denoteWrapSeq, slotStep, unify, ht]
    | some a =>
      cases trn with
      | none =>  by_cases ha : a.stateful = true <;> simp [denoteWrap, denoteWrapSeq, slotStep, unify, ha]
      | some t =>
        by_cases hat : a.tag = t.tag <;> by_cases ha : a.stateful = true <;> by_cases ht : t.stateful = true <;>
          simp [denoteWrap, denoteWrapSeq, slotStep, unify, ha, ht, hat]
  | some l =>
    cases app with
    | none =>
      cases trn with
      | none => by_cases hl : l.stateful = true <;> simp [denoteWrap, denoteWrapSeq, slotStep, unify, hl]
      | some t =>
        by_cases hlt : l.tag = t.tag <;> by_cases hl : l.stateful = true <;> by_cases ht : t.stateful = true <;>
          simp [denoteWrap, denoteWrapSeq, slotStep, unify, hl, ht, hlt]
    | some a =>
      cases trn with
      | none =>
        by_cases hla : l.tag = a.tag <;> by_cases hl : l.stateful = true <;> by_cases ha : a.stateful = true <;>
          simp [denoteWrap, denoteWrapSeq, slotStep, unify, hl, ha, hla]
      | some t =>
        obtain ⟨lt, ls⟩ := l
        obtain ⟨at', as⟩ := a
        obtain ⟨tt, ts⟩ := t
        by_cases hla : lt = at'
        · subst hla
          by_cases hlt : lt = tt
          · subst hlt
            cases ls <;> cases as <;> cases ts <;> simp [denoteWrap, denoteWrapSeq, slotStep, unify, trainedState]
          · have hlt' : ¬ tt = lt := fun h => hlt h.symm
            cases ls <;> cases as <;> cases ts <;>
              simp [denoteWrap, denoteWrapSeq, slotStep, unify, trainedState, hlt, hlt']
        · have hla' : ¬ at' = lt := fun h => hla h.symm
          by_cases hlt : lt = tt
          · subst hlt
            cases ls <;> cases as <;> cases ts <;>
              simp [denoteWrap, denoteWrapSeq, slotStep, unify, trainedState, hla, hla']
          · have hlt' : ¬ tt = lt := fun h => hlt h.symm
            by_cases hat : at' = tt
            · subst hat
              cases ls <;> cases as <;> cases ts <;>
                simp [denoteWrap, denoteWrapSeq, slotStep, unify, trainedState, hla, hla']
            · have hat' : ¬ tt = at' := fun h => hat h.symm
              cases ls <;> cases as <;> cases ts <;>
                simp [denoteWrap, denoteWrapSeq, slotStep, unify, trainedState, hla, hla', hlt, hlt', hat, hat']

/-! ### the dict of prototypes seen as the list of engaged actors -/

/-- the engaged actors a dict of prototypes stands for: the state of a group is what its trainer computed from the
train features and the label value `lblv tag` its group was trained with -/
def knownOf (vt : Val) (lblv : Nat → Val) (groups : List (Nat × WRef)) : Known :=
  groups.map (fun e => (e.2.actor, trainedState e.2.actor vt (lblv e.1)))

theorem knownOf_find (vt : Val) (lblv : Nat → Val) :
    ∀ (groups : List (Nat × WRef)) (τ : Nat), (∀ e ∈ groups, e.2.actor.tag = e.1) →
      (knownOf vt lblv groups).find? (fun k => k.1.tag == τ) =
        (groups.lookup τ).map (fun p => (p.actor, trainedState p.actor vt (lblv τ))) := by
  intro groups
  induction groups with
  | nil => intro τ _; rfl
  | cons x xs ih =>
    intro τ h
    obtain ⟨k, p⟩ := x
    have hk : p.actor.tag = k := h (k, p) List.mem_cons_self
    have ih' := ih τ (fun e he => h e (List.mem_cons_of_mem _ he))
    by_cases hτ : τ = k
    · subst hτ
      simp [knownOf, List.lookup, hk]
    · have h1 : (τ == k) = false := by simpa using hτ
      have h2 : ¬ p.actor.tag = τ := by rw [hk]; exact fun e => hτ e.symm
      simp only [knownOf, List.map_cons, List.lookup, h1]
      rw [List.find?_cons_of_neg (by simpa using h2)]
      exact ih'

/-- one `build` is one `slotStep` -/
theorem slotStep_knownOf (vt lbl : Val) (lblv : Nat → Val) (groups : List (Nat × WRef)) (a : Actor) (n : Nat)
    (lt lp : PubRef) (htag : ∀ e ∈ groups, e.2.actor.tag = e.1) (hl : groups.lookup a.tag = none → lbl = lblv a.tag) :
    slotStep (knownOf vt lblv groups) (some a) vt lbl =
      (some (buildActor groups a, trainedState (buildActor groups a) vt (lblv a.tag)),
        knownOf vt lblv (buildGroups groups a n),
        (buildTrains groups a n lt lp).map (fun t => (t.actor.tag, trainedState t.actor vt lbl))) := by
  unfold slotStep
  simp only
  rw [knownOf_find vt lblv groups a.tag htag]
  cases hlk : groups.lookup a.tag with
  | some p => simp [buildActor, buildGroups, buildTrains, hlk]
  | none =>
    have := hl hlk
    subst this
    by_cases hs : a.stateful = true <;> simp [buildActor, buildGroups, buildTrains, hlk, knownOf, hs]

end ForML.Compose
