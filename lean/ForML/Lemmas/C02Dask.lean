/-
C02 helper lemmas: `link` / `mkjob` of the dask runner model build a closed sub-table of the source table
that contains every leaf; evaluating it by memoised recursion yields the denotation of the source table.
-/
import ForML.Model.Dask
import ForML.Lemmas.C02Memo

namespace ForML.Flow

/-- the dask graph under construction is a closed, duplicate-free collection of symbols of `t` -/
structure GInv (t g : Table) : Prop where
  sub : ∀ s ∈ g, t.find s.id = some s
  closed : ∀ s ∈ g, ∀ a ∈ s.args, (g.find a).isSome
  nodup : (g.map (·.id)).Nodup

theorem GInv.empty (t : Table) : GInv t [] := ⟨by simp, by simp, by simp⟩

theorem Table.find_append_isSome {g h : Table} {k : Key} (hk : (g.find k).isSome) : ((g ++ h).find k).isSome := by
  induction g with
  | nil => simp [Table.find] at hk
  | cons x r ih =>
    simp only [List.cons_append, Table.find] at hk ⊢
    split
    · rfl
    · rename_i hne; simp only [hne, if_false] at hk; exact ih hk

theorem Table.find_isSome_mem {g : Table} {k : Key} (hk : (g.find k).isSome) : k ∈ g.map (·.id) := by
  cases hf : g.find k with
  | none => simp [hf] at hk
  | some s =>
    have := Table.find_some hf
    exact this.2 ▸ List.mem_map_of_mem this.1

theorem Table.find_isSome_iff {g : Table} {k : Key} : (g.find k).isSome ↔ k ∈ g.map (·.id) := by
  constructor
  · exact Table.find_isSome_mem
  · intro h
    obtain ⟨s, hs, rfl⟩ := List.mem_map.1 h
    exact Table.find_isSome_of_mem hs

/-- what a successful `link` guarantees -/
structure LinkOK (t g : Table) (r : Key → Nat) (k : Key) (g' : Table) : Prop where
  inv : GInv t g'
  mono : ∀ k', (g.find k').isSome → (g'.find k').isSome
  has : (g'.find k).isSome
  new : ∀ k', (g'.find k').isSome → (g.find k').isSome ∨ r k' ≤ r k

theorem link_ok {t : Table} {r : Key → Nat} (hr : Ranked t r) :
    ∀ (f : Nat) (g : Table) (k : Key), r k < f → (t.find k).isSome → GInv t g →
      ∃ g', link t f g k = some g' ∧ LinkOK t g r k g' := by
  intro f
  induction f with
  | zero => intro g k h; omega
  | succ f ih =>
    intro g k hf hb hg
    simp only [link]
    cases hgk : (g.find k).isSome with
    | true => exact ⟨g, by simp, hg, fun _ h => h, hgk, fun _ h => Or.inl h⟩
    | false =>
      simp only [Bool.false_eq_true, if_false]
      cases hfind : t.find k with
      | none => simp [hfind] at hb
      | some s =>
        simp only
        have hargs := hr.find_args hfind
        -- the fold over the arguments
        have fold : ∀ (as : List Key) (g0 : Table),
            (∀ a ∈ as, (t.find a).isSome ∧ r a < r k) → GInv t g0 →
            ∃ g1, as.foldlM (fun b a => link t f b a) g0 = some g1 ∧ GInv t g1 ∧
              (∀ k', (g0.find k').isSome → (g1.find k').isSome) ∧ (∀ a ∈ as, (g1.find a).isSome) ∧
              (∀ k', (g1.find k').isSome → (g0.find k').isSome ∨ r k' < r k) := by
          intro as
          induction as with
          | nil => intro g0 _ h0; exact ⟨g0, by simp, h0, fun _ h => h, by simp, fun _ h => Or.inl h⟩
          | cons a as iha =>
            intro g0 hlt h0
            have ha := hlt a (List.mem_cons_self ..)
            obtain ⟨g', hl, hok⟩ := ih g0 a (by omega) ha.1 h0
            obtain ⟨g1, hf1, hg1, hm1, hh1, hn1⟩ := iha g' (fun b hb => hlt b (List.mem_cons_of_mem _ hb)) hok.inv
            refine ⟨g1, ?_, hg1, fun k' h => hm1 k' (hok.mono k' h), ?_, ?_⟩
            · simp [List.foldlM_cons, hl, hf1]
            · intro b hb
              rcases List.mem_cons.1 hb with rfl | hb
              · exact hm1 _ hok.has
              · exact hh1 b hb
            · intro k' hk'
              rcases hn1 k' hk' with h | h
              · rcases hok.new k' h with h | h
                · exact Or.inl h
                · exact Or.inr (by omega)
              · exact Or.inr h
        obtain ⟨g1, hfold, hg1, hmono, hhas, hnew⟩ := fold s.args g hargs hg
        rw [hfold]
        have hsid := (Table.find_some hfind).2
        have hs : (⟨k, s.instr, s.args⟩ : Symbol) = s := by cases s; simp_all
        rw [hs]
        have hknot : k ∉ g1.map (·.id) := by
          intro hin
          rcases hnew k (Table.find_isSome_iff.2 hin) with h | h
          · simp [hgk] at h
          · omega
        have hmem : ∀ k', (g1.find k').isSome → ((g1 ++ [s]).find k').isSome := fun _ h => Table.find_append_isSome h
        refine ⟨_, rfl, ⟨?_, ?_, ?_⟩, ?_, ?_, ?_⟩
        · intro s' hs'
          rcases List.mem_append.1 hs' with h | h
          · exact hg1.sub s' h
          · simp at h; subst h; rw [hsid]; exact hfind
        · intro s' hs' a ha
          rcases List.mem_append.1 hs' with h | h
          · exact hmem a (hg1.closed s' h a ha)
          · simp at h; subst h; exact hmem a (hhas a ha)
        · rw [List.map_append, List.nodup_append]
          refine ⟨hg1.nodup, by simp, ?_⟩
          intro a ha b hb
          simp at hb; subst hb
          intro he; subst he; rw [hsid] at ha; exact hknot ha
        · intro k' h; exact hmem k' (hmono k' h)
        · apply Table.find_isSome_iff.2; simp [hsid]
        · intro k' hk'
          have := Table.find_isSome_iff.1 hk'
          rw [List.map_append] at this
          rcases List.mem_append.1 this with h | h
          · rcases hnew k' (Table.find_isSome_iff.2 h) with h | h
            · exact Or.inl h
            · exact Or.inr (by omega)
          · simp at h; right; rw [h, hsid]; exact Nat.le_refl _

theorem nodup_hasDup_false : ∀ {l : List Key}, l.Nodup → hasDup l = false
  | [], _ => rfl
  | k :: r, h => by
    have h' := List.nodup_cons.1 h
    simp only [hasDup, Bool.or_eq_false_iff]
    refine ⟨?_, nodup_hasDup_false h'.2⟩
    cases hc : r.contains k with
    | false => rfl
    | true => exact absurd (List.contains_iff_mem.1 hc) h'.1

/-- a non-empty list has an element of maximal rank -/
theorem exists_max_rank (r : Key → Nat) : ∀ (l : Table), l ≠ [] → ∃ s ∈ l, ∀ s' ∈ l, r s'.id ≤ r s.id
  | [], h => absurd rfl h
  | [x], _ => ⟨x, by simp, by simp⟩
  | x :: y :: l, _ => by
    obtain ⟨s, hs, hmax⟩ := exists_max_rank r (y :: l) (by simp)
    by_cases hx : r s.id ≤ r x.id
    · refine ⟨x, by simp, ?_⟩
      intro s' hs'
      rcases List.mem_cons.1 hs' with rfl | h
      · exact Nat.le_refl _
      · exact Nat.le_trans (hmax s' h) hx
    · refine ⟨s, List.mem_cons_of_mem _ hs, ?_⟩
      intro s' hs'
      rcases List.mem_cons.1 hs' with rfl | h
      · omega
      · exact hmax s' h

theorem mem_sinks {t : Table} {k : Key} : k ∈ t.sinks ↔ k ∈ t.map (·.id) ∧ ∀ s ∈ t, k ∉ s.args := by
  simp only [Table.sinks, List.mem_filter, Bool.not_eq_true', List.any_eq_false, List.contains_iff_mem]

/-- a valid non-empty table has a sink -/
theorem sinks_ne_nil {t : Table} {r : Key → Nat} (hr : Ranked t r) (hne : t ≠ []) : t.sinks ≠ [] := by
  obtain ⟨s, hs, hmax⟩ := exists_max_rank r t hne
  have : s.id ∈ t.sinks := by
    rw [mem_sinks]
    refine ⟨List.mem_map_of_mem hs, ?_⟩
    intro s' hs' hin
    have := (hr.args s' hs' s.id hin).2
    have := hmax s' hs'
    omega
  intro h
  rw [h] at this
  cases this

/-- `mkjob` succeeds on every valid non-empty table; the graph is a closed part of the table holding all leaves -/
theorem mkjob_ok {t : Table} {r : Key → Nat} (hr : Ranked t r) (hne : t ≠ []) :
    ∃ job, mkjob t = .ok job ∧ job.outputs = t.sinks ∧ job.fuel = t.fuel ∧ GInv t job.graph ∧
      ∀ k ∈ t.sinks, (job.graph.find k).isSome := by
  have fold : ∀ (ks : List Key) (g0 : Table), (∀ k ∈ ks, (t.find k).isSome ∧ r k < t.fuel) → GInv t g0 →
      ∃ g1, ks.foldlM (fun b k => link t t.fuel b k) g0 = some g1 ∧ GInv t g1 ∧
        (∀ k', (g0.find k').isSome → (g1.find k').isSome) ∧ (∀ k ∈ ks, (g1.find k).isSome) := by
    intro ks
    induction ks with
    | nil => intro g0 _ h0; exact ⟨g0, by simp, h0, fun _ h => h, by simp⟩
    | cons a as iha =>
      intro g0 hks h0
      have ha := hks a (List.mem_cons_self ..)
      obtain ⟨g', hl, hok⟩ := link_ok hr t.fuel g0 a ha.2 ha.1 h0
      obtain ⟨g1, hf1, hg1, hm1, hh1⟩ := iha g' (fun b hb => hks b (List.mem_cons_of_mem _ hb)) hok.inv
      refine ⟨g1, ?_, hg1, fun k' h => hm1 k' (hok.mono k' h), ?_⟩
      · simp [List.foldlM_cons, hl, hf1]
      · intro b hb
        rcases List.mem_cons.1 hb with rfl | hb
        · exact hm1 _ hok.has
        · exact hh1 b hb
  have hsinks : ∀ k ∈ t.sinks, (t.find k).isSome ∧ r k < t.fuel := by
    intro k hk
    have := (mem_sinks.1 hk).1
    obtain ⟨s, hs, rfl⟩ := List.mem_map.1 this
    exact ⟨Table.find_isSome_of_mem hs, by have := hr.bound s hs; simp only [Table.fuel]; omega⟩
  obtain ⟨g1, hf, hg1, _, hh⟩ := fold t.sinks [] hsinks (GInv.empty t)
  refine ⟨⟨g1, t.sinks, t.fuel⟩, ?_, rfl, rfl, hg1, hh⟩
  simp only [mkjob, nodup_hasDup_false hr.nodup, Bool.false_eq_true, if_false]
  have : t.sinks.isEmpty = false := by
    cases hs : t.sinks with
    | nil => exact absurd hs (sinks_ne_nil hr hne)
    | cons _ _ => rfl
  simp [this, hf]

/-- the linked graph, read as a table, has the denotation of the source table -/
theorem GInv.sem (A : Option Assets) {t g : Table} {r : Key → Nat} (hr : Ranked t r) (hg : GInv t g) :
    Sem A g r (den A t) := by
  refine ⟨?_, ?_⟩
  · intro k s hf a ha
    have hm := Table.find_some hf
    have ht := hg.sub s hm.1
    rw [hm.2] at ht
    exact ⟨hg.closed s hm.1 a ha, (hr.find_args ht a ha).2⟩
  · intro k s hf
    have hm := Table.find_some hf
    have ht := hg.sub s hm.1
    rw [hm.2] at ht
    exact den_eq A hr ht

end ForML.Flow
