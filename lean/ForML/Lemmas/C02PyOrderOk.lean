/-
C02 helper lemmas: on a valid table with exactly one sink `Expression._order` succeeds, and in the ordered list
every argument of an instruction comes before the instruction.
-/
import ForML.Lemmas.C02PyWalk
import ForML.Lemmas.C02Dask

namespace ForML.Flow.PyFunc
open ForML.Flow

/-- the arguments of instruction `k` (none for a key that is not bound) -/
def argsOf (t : Table) (k : Key) : List Key :=
  match t.find k with
  | some s => s.args
  | none => []

theorem insertDesc_pairwise {e : Key × Nat} : ∀ {l : Index}, l.Pairwise (fun a b => b.2 ≤ a.2) →
    (insertDesc e l).Pairwise (fun a b => b.2 ≤ a.2)
  | [], _ => by simp [insertDesc]
  | x :: r, h => by
    simp only [insertDesc]
    have hx := List.pairwise_cons.1 h
    split
    · rename_i hlt
      refine List.pairwise_cons.2 ⟨?_, h⟩
      intro b hb
      rcases List.mem_cons.1 hb with rfl | hb
      · omega
      · have := hx.1 b hb; omega
    · rename_i hge
      refine List.pairwise_cons.2 ⟨?_, insertDesc_pairwise hx.2⟩
      intro b hb
      rcases mem_insertDesc.1 hb with rfl | hb
      · omega
      · exact hx.1 b hb

theorem sortDesc_pairwise (ix : Index) : (sortDesc ix).Pairwise (fun a b => b.2 ≤ a.2) := by
  have : ∀ (todo acc : Index), acc.Pairwise (fun a b => b.2 ≤ a.2) →
      (todo.foldl (fun acc e => insertDesc e acc) acc).Pairwise (fun a b => b.2 ≤ a.2) := by
    intro todo
    induction todo with
    | nil => intro acc h; exact h
    | cons e todo ih => intro acc h; exact ih _ (insertDesc_pairwise h)
  exact this ix [] List.Pairwise.nil

theorem mem_sortDesc (ix : Index) (x : Key × Nat) : x ∈ sortDesc ix ↔ x ∈ ix := by
  have : ∀ (todo acc : Index), x ∈ todo.foldl (fun acc e => insertDesc e acc) acc ↔ x ∈ acc ∨ x ∈ todo := by
    intro todo
    induction todo with
    | nil => intro acc; simp
    | cons e todo ih =>
      intro acc
      simp only [List.foldl_cons, ih, mem_insertDesc, List.mem_cons]
      constructor
      · rintro ((h | h) | h)
        · exact Or.inr (Or.inl h)
        · exact Or.inl h
        · exact Or.inr (Or.inr h)
      · rintro (h | h | h)
        · exact Or.inl (Or.inr h)
        · exact Or.inl (Or.inl h)
        · exact Or.inr h
  have h := this ix []
  simp only [List.not_mem_nil, false_or] at h
  exact h

/-- what `_order` delivers on a valid single-sink table -/
structure OrderOK (t : Table) (tail : Key) (ks : List Key) : Prop where
  nodup : ks.Nodup
  last : ∃ l, ks = l ++ [tail]
  bound : ∀ k ∈ ks, (t.find k).isSome
  closed : ∀ k ∈ ks, ∀ a ∈ argsOf t k, a ∈ ks
  before : ks.Pairwise (fun k k' => k' ∉ argsOf t k)
  hasTail : tail ∈ ks

theorem order_ok {t : Table} {r : Key → Nat} (hr : Ranked t r) {tail : Key} (hs : t.sinks = [tail]) :
    ∃ ks, order t = .ok ks ∧ OrderOK t tail ks := by
  have htail : tail ∈ t.sinks := by rw [hs]; simp
  have hmem := (mem_sinks.1 htail).1
  obtain ⟨s, hsm, hsid⟩ := List.mem_map.1 hmem
  have hfind : t.find tail = some s := by
    rw [← hsid]; exact Table.find_of_mem_nodup hr.nodup hsm
  have hargs := hr.find_args hfind
  have hb := hr.find_bound hfind
  obtain ⟨ix, hwalk⟩ := walk_ok hr t.length 1 s.args [(tail, 0)]
    (fun a ha => ⟨(hargs a ha).1, by have := (hargs a ha).2; omega⟩)
  have hst0 : WState t r (r tail) [(tail, 0)] := by
    refine ⟨by simp, ?_, ?_⟩
    · intro k l hk hlt; simp at hk; rw [hk.1] at hlt; omega
    · intro e he; simp at he; rw [he, hfind]; rfl
  have hS := walk_closed hr _ 1 s.args _ ix (r tail) hwalk (fun a ha => (hargs a ha).2) hst0
  -- full closedness
  have hclosed : ∀ k l, (k, l) ∈ ix → ArgsAbove t ix k l := by
    intro k l hk
    rcases hS.fresh _ hk with h1 | h1
    · simp at h1
      obtain ⟨rfl, rfl⟩ := h1
      intro s' hs' a ha
      rw [hfind] at hs'; cases hs'
      obtain ⟨la, h2, h3⟩ := hS.reach a ha
      exact ⟨la, h3, by omega⟩
    · exact hS.st.closed k l hk h1
  have hw : WInv tail ix := walk_inv hr tail _ 1 s.args _ ix hwalk (Nat.le_refl _)
    (fun a ha => (hargs a ha).2) ⟨by simp, by simp, by simp⟩
  obtain ⟨hn, ⟨l, hl⟩, hkeys⟩ := sortDesc_spec hw
  have hmemsort := mem_sortDesc ix
  refine ⟨(sortDesc ix).map (·.1), ?_, ?_⟩
  · simp only [order, hs, hfind, Table.fuel, hwalk]
  · refine ⟨hn, ⟨l.map (·.1), by rw [hl]; simp⟩, ?_, ?_, ?_, ?_⟩
    · intro k hk
      obtain ⟨e, he, rfl⟩ := List.mem_map.1 hk
      exact hS.st.bound e ((hmemsort e).1 he)
    · intro k hk a ha
      obtain ⟨e, he, rfl⟩ := List.mem_map.1 hk
      have he' := (hmemsort e).1 he
      simp only [argsOf] at ha
      cases hf : t.find e.1 with
      | none => simp [hf] at ha
      | some s' =>
        simp only [hf] at ha
        obtain ⟨la, h1, _⟩ := hclosed e.1 e.2 he' s' hf a ha
        exact List.mem_map.2 ⟨(a, la), (hmemsort _).2 h1, rfl⟩
    · rw [List.pairwise_map]
      refine (sortDesc_pairwise ix).imp_of_mem ?_
      intro x y hx hy hle hin
      have hx' := (hmemsort x).1 hx
      have hy' := (hmemsort y).1 hy
      simp only [argsOf] at hin
      cases hf : t.find x.1 with
      | none => simp [hf] at hin
      | some s' =>
        simp only [hf] at hin
        obtain ⟨la, h1, h2⟩ := hclosed x.1 x.2 hx' s' hf y.1 hin
        have := level_unique hS.st.nodup h1 hy'
        omega
    · rw [hl]; simp

end ForML.Flow.PyFunc
