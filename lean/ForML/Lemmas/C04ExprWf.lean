/-
C04 helper lemmas, part 13: the composition the model expands from an expression (`compOfExpr`) is well-formed
(`Comp.wfPlain`) and no trainer hangs off its apply tail (`Comp.tailClean`) — for every expression.  With
`visit_spec` (C04Reach) the conjuncts that speak about visited workers become statements about reachability:
the apply segment stays within the apply-path ids, and every trainer is reachable from the train head.
-/
import ForML.Lemmas.C04Expr
import ForML.Lemmas.C04Reach
import ForML.Lemmas.C04PerfWf
import ForML.Lemmas.C04Mech

namespace ForML.Persist

theorem mem_dedup : ∀ (l : List Nat) (x : Nat), x ∈ dedup l → x ∈ l := by
  intro l
  induction l with
  | nil => intro x h; cases h
  | cons a as ih =>
    intro x h
    simp only [dedup, List.mem_cons, List.mem_filter] at h
    cases h with
    | inl h => exact h ▸ List.mem_cons_self
    | inr h => exact List.mem_cons_of_mem _ (ih x h.1)

namespace Comp

theorem mem_subs {c : Comp} {u v : Nat} : v ∈ c.subs u ↔ (u, v) ∈ c.edges := by
  simp only [subs, List.mem_map, List.mem_filter, beq_iff_eq]
  constructor
  · rintro ⟨e, ⟨he, h1⟩, h2⟩
    have : e = (u, v) := by
      cases e
      simp only at h1 h2
      rw [h1, h2]
    exact this ▸ he
  · intro h
    exact ⟨(u, v), ⟨h, rfl⟩, rfl⟩

theorem next_sub_subs {c : Comp} {t u v : Nat} (h : v ∈ c.next t u) : v ∈ c.subs u := by
  simp only [next] at h
  split at h
  · exact (List.mem_filter.mp h).1
  · exact h

theorem node?_some {c : Comp} {u : Nat} {x : Node} (h : c.node? u = some x) : x ∈ c.nodes ∧ x.uid = u := by
  simp only [node?] at h
  exact ⟨List.mem_of_find?_eq_some h, by simpa using List.find?_some h⟩

theorem mem_visitNodes_iff {c : Comp} {h t : Nat} {x : Node} :
    x ∈ c.visitNodes h t ↔ ∃ u ∈ c.visit h t, c.node? u = some x := by
  simp only [visitNodes, List.mem_filterMap]

/-- fresh uuids for any composition: shift beyond every id it mentions -/
def bound (c : Comp) : Nat := c.uids.foldl max 0 + 1

theorem le_foldl_max : ∀ (l : List Nat) (a v : Nat), v ∈ l ∨ v ≤ a → v ≤ l.foldl max a := by
  intro l
  induction l with
  | nil =>
    intro a v h
    cases h with
    | inl h => cases h
    | inr h => exact h
  | cons x xs ih =>
    intro a v h
    simp only [List.foldl_cons]
    apply ih
    cases h with
    | inl h =>
      simp only [List.mem_cons] at h
      cases h with
      | inl h => exact Or.inr (h ▸ Nat.le_max_right a x)
      | inr h => exact Or.inl h
    | inr h => exact Or.inr (Nat.le_trans h (Nat.le_max_left a x))

theorem freshFor_bound (c : Comp) : FreshFor (· + c.bound) c := by
  refine ⟨fun a b h => by simpa using h, ?_⟩
  intro u v hv
  have := le_foldl_max c.uids 0 v (Or.inl hv)
  show u + c.bound ≠ v
  simp only [bound]
  omega

end Comp

/-! ### the composition of an expression -/

theorem fragOf_ok (e : PExpr) : FragOk sourceCtx 8 (expand e sourceCtx 8) :=
  expand_ok e sourceCtx 8 (by decide) ⟨by decide, by decide, by decide⟩

section
variable (e : PExpr)

theorem compOfExpr_nodes {x : Node} :
    x ∈ (compOfExpr e).nodes ↔ x ∈ sourceNodes ∨ x ∈ (expand e sourceCtx 8).nodes := by
  simp only [compOfExpr, List.mem_append]

theorem compOfExpr_edges {p : Nat × Nat} :
    p ∈ (compOfExpr e).edges ↔ p ∈ (expand e sourceCtx 8).applyEdges ∨ p = (2, 6)
      ∨ p ∈ (expand e sourceCtx 8).trainEdges ∨ p ∈ (expand e sourceCtx 8).labelEdges := by
  simp only [compOfExpr, List.mem_append, List.mem_cons]
  constructor
  · rintro ((h | h | h) | h)
    · exact Or.inl h
    · exact Or.inr (Or.inl h)
    · exact Or.inr (Or.inr (Or.inl h))
    · exact Or.inr (Or.inr (Or.inr h))
  · rintro (h | h | h | h)
    · exact Or.inl (Or.inl h)
    · exact Or.inl (Or.inr (Or.inl h))
    · exact Or.inl (Or.inr (Or.inr h))
    · exact Or.inr h

theorem source_node {x : Node} (h : x ∈ sourceNodes) :
    x.uid < 8 ∧ x.gid < 8 ∧ x.trained = false ∧ x.stateful = false ∧ x.uid % 4 ≠ 1 ∧ x.gid = x.uid ∧ x.tag = 0 := by
  simp only [sourceNodes, List.mem_cons, List.mem_nil_iff, or_false] at h
  rcases h with rfl | rfl | rfl <;> simp

theorem compOfExpr_kind {x : Node} (h : x ∈ (compOfExpr e).nodes) :
    (x.trained = true ↔ x.uid % 4 = 1) ∧ (x.trained = true → x.stateful = true) := by
  rcases (compOfExpr_nodes e).mp h with h | h
  · have := source_node h
    refine ⟨⟨fun ht => ?_, fun hu => absurd hu this.2.2.2.2.1⟩, fun ht => ?_⟩ <;> simp [this.2.2.1] at ht
  · exact (fragOf_ok e).kind x h

theorem compOfExpr_uniq {x y : Node} (hx : x ∈ (compOfExpr e).nodes) (hy : y ∈ (compOfExpr e).nodes)
    (h : x.uid = y.uid) : x = y := by
  rcases (compOfExpr_nodes e).mp hx with h1 | h1 <;> rcases (compOfExpr_nodes e).mp hy with h2 | h2
  · simp only [sourceNodes, List.mem_cons, List.mem_nil_iff, or_false] at h1 h2
    rcases h1 with rfl | rfl | rfl <;> rcases h2 with rfl | rfl | rfl <;> simp at h ⊢
  · have := source_node h1; have := (fragOf_ok e).range y h2; omega
  · have := source_node h2; have := (fragOf_ok e).range x h1; omega
  · exact (fragOf_ok e).uniq x h1 y h2 h

theorem compOfExpr_tags {x y : Node} (hx : x ∈ (compOfExpr e).nodes) (hy : y ∈ (compOfExpr e).nodes)
    (h : x.gid = y.gid) : x.tag = y.tag := by
  rcases (compOfExpr_nodes e).mp hx with h1 | h1 <;> rcases (compOfExpr_nodes e).mp hy with h2 | h2
  · rw [(source_node h1).2.2.2.2.2.2, (source_node h2).2.2.2.2.2.2]
  · have := source_node h1; have := (fragOf_ok e).range y h2; omega
  · have := source_node h2; have := (fragOf_ok e).range x h1; omega
  · exact (fragOf_ok e).tags x h1 y h2 h

theorem compOfExpr_trainer {x : Node} (hx : x ∈ (compOfExpr e).nodes) (hs : x.stateful = true) :
    ∃ t ∈ (expand e sourceCtx 8).nodes, t.gid = x.gid ∧ t.trained = true := by
  rcases (compOfExpr_nodes e).mp hx with h | h
  · have := (source_node h).2.2.2.1
    rw [this] at hs
    cases hs
  · exact (fragOf_ok e).trainer x h hs

/-- every publisher is older than the fresh ids that stand for dangling tails -/
theorem compOfExpr_edge_lt {p : Nat × Nat} (hp : p ∈ (compOfExpr e).edges) : p.1 < (expand e sourceCtx 8).next := by
  have ok := fragOf_ok e
  have hlt := ok.lt
  have e1 : sourceCtx.apply = 0 := rfl
  have e2 : sourceCtx.train = 6 := rfl
  have e3 : sourceCtx.label = 6 := rfl
  rcases (compOfExpr_edges e).mp hp with h | h | h | h
  · have := ok.ea p h
    rw [e1] at this
    omega
  · rw [h]
    show 2 < _
    omega
  · have := ok.et p h
    rw [e2] at this
    omega
  · have := ok.el p h
    rw [e3] at this
    omega

/-- subscriptions of an apply-path worker stay on the apply path -/
theorem compOfExpr_edge_apply {p : Nat × Nat} (hp : p ∈ (compOfExpr e).edges) (h0 : p.1 % 4 = 0) : p.2 % 4 = 0 := by
  have ok := fragOf_ok e
  rcases (compOfExpr_edges e).mp hp with h | h | h | h
  · exact (ok.ea p h).2.2.2
  · rw [h] at h0; simp at h0
  · have := ok.et p h
    simp only [sourceCtx] at this
    omega
  · have := ok.el p h
    simp only [sourceCtx] at this
    omega

theorem compOfExpr_reach_apply {v : Nat} (h : Comp.Reach (compOfExpr e) (compOfExpr e).applyTail 0 v) : v % 4 = 0 := by
  induction h with
  | refl => rfl
  | step _ hv ih => exact compOfExpr_edge_apply e (Comp.mem_subs.mp (Comp.next_sub_subs hv)) ih

/-- the train tail is the last train-path worker, or no node at all -/
theorem compOfExpr_trainTail :
    ((compOfExpr e).trainTail = (expand e sourceCtx 8).trainTail ∧ 8 ≤ (expand e sourceCtx 8).trainTail)
      ∨ (compOfExpr e).trainTail = (expand e sourceCtx 8).next + 2 := by
  have ok := fragOf_ok e
  have htt := ok.tt
  have e2 : sourceCtx.train = 6 := rfl
  rw [e2] at htt
  show (segmentTail sourceCtx.train (expand e sourceCtx 8).trainTail ((expand e sourceCtx 8).next + 2) = _ ∧ _) ∨
    segmentTail sourceCtx.train (expand e sourceCtx 8).trainTail ((expand e sourceCtx 8).next + 2) = _
  simp only [segmentTail, e2]
  by_cases h : (expand e sourceCtx 8).trainTail = 6
  · right
    simp [h]
  · left
    have hb : ((expand e sourceCtx 8).trainTail == 6) = false := by simpa using h
    simp only [hb, Bool.false_eq_true, if_false, true_and]
    omega

/-- every train-path worker and every trainer is reachable from the train head -/
theorem compOfExpr_reach_train {v : Nat} (h : TPath (expand e sourceCtx 8).trainEdges 6 v) :
    Comp.Reach (compOfExpr e) (compOfExpr e).trainTail 2 v := by
  have ok := fragOf_ok e
  have hlt := ok.lt
  have htail := compOfExpr_trainTail e
  induction h with
  | refl =>
    refine Comp.Reach.step Comp.Reach.refl ?_
    have hne : (2 : Nat) ≠ (compOfExpr e).trainTail := by omega
    rw [Comp.next_of_ne _ hne]
    exact Comp.mem_subs.mpr ((compOfExpr_edges e).mpr (Or.inr (Or.inl rfl)))
  | step _ he ih =>
    rename_i u w _
    refine Comp.Reach.step ih ?_
    have hedge : (u, w) ∈ (compOfExpr e).edges := (compOfExpr_edges e).mpr (Or.inr (Or.inr (Or.inl he)))
    have hult := compOfExpr_edge_lt e hedge
    by_cases hu : u = (compOfExpr e).trainTail
    · -- at the tail `each` follows the trained subscribers only: the subscriber is a trainer
      have hu' : u = (expand e sourceCtx 8).trainTail := by
        dsimp only at hult
        omega
      have hw : w % 4 = 1 := (ok.et (u, w) he).2.2.2.2 hu'
      obtain ⟨x, hx, hxu, hxt⟩ := ok.tnode (u, w) he hw
      rw [hu, Comp.next_tail]
      refine List.mem_filter.mpr ⟨Comp.mem_subs.mpr (hu ▸ hedge), ?_⟩
      simp only [Comp.isTrained, List.any_eq_true]
      exact ⟨x, (compOfExpr_nodes e).mpr (Or.inr hx), by simp [hxu, hxt]⟩
    · rw [Comp.next_of_ne _ hu]
      exact Comp.mem_subs.mpr hedge

theorem compOfExpr_derived {x : Node} (hx : x ∈ (compOfExpr e).nodes) (hs : x.stateful = true)
    (ht : x.trained = false) : (compOfExpr e).derived x = true := by
  obtain ⟨t, htn, hg, htt⟩ := compOfExpr_trainer e hx hs
  have htc : t ∈ (compOfExpr e).nodes := (compOfExpr_nodes e).mpr (Or.inr htn)
  simp only [Comp.derived, hs, Bool.true_and, List.any_eq_true]
  refine ⟨t, htc, ?_⟩
  have h1 := ((compOfExpr_kind e htc).1).mp htt
  have h2 : x.uid % 4 ≠ 1 := fun h => by
    have := ((compOfExpr_kind e hx).1).mpr h
    rw [ht] at this
    cases this
  have hne : t.uid ≠ x.uid := fun h => h2 (h ▸ h1)
  simp [hg, htt, hne]

theorem tagsConsistent_compOfExpr : (compOfExpr e).tagsConsistent = true := by
  simp only [Comp.tagsConsistent, List.all_eq_true, Bool.or_eq_true, bne_iff_ne, ne_eq, beq_iff_eq]
  intro x hx y hy
  by_cases h : x.gid = y.gid
  · exact Or.inr (compOfExpr_tags e hx hy h)
  · exact Or.inl h

theorem uidsDistinct_compOfExpr : (compOfExpr e).uidsDistinct = true := by
  simp only [Comp.uidsDistinct, List.all_eq_true, Bool.or_eq_true, bne_iff_ne, ne_eq, beq_iff_eq]
  intro x hx y hy
  by_cases h : x.uid = y.uid
  · exact Or.inr (compOfExpr_uniq e hx hy h)
  · exact Or.inl h

theorem trainedStateful_compOfExpr : (compOfExpr e).trainedStateful = true := by
  simp only [Comp.trainedStateful, List.all_eq_true, Bool.or_eq_true, Bool.not_eq_true']
  intro x hx
  cases ht : x.trained with
  | false => exact Or.inl rfl
  | true => exact Or.inr ((compOfExpr_kind e hx).2 ht)

theorem appliedDerived_compOfExpr (h t : Nat) : (compOfExpr e).appliedDerived h t = true := by
  simp only [Comp.appliedDerived, List.all_eq_true, Bool.or_eq_true, Bool.not_eq_true']
  intro x hx
  have hxn := Comp.mem_visitNodes hx
  cases hs : x.stateful with
  | false => exact Or.inl (Or.inl rfl)
  | true =>
    cases ht : x.trained with
    | true => exact Or.inl (Or.inr rfl)
    | false => exact Or.inr (compOfExpr_derived e hxn hs ht)

theorem noTrainer_compOfExpr : (compOfExpr e).noTrainer (compOfExpr e).applyHead (compOfExpr e).applyTail = true := by
  simp only [Comp.noTrainer, List.all_eq_true, Bool.not_eq_true']
  intro x hx
  obtain ⟨u, hu, hnode⟩ := Comp.mem_visitNodes_iff.mp hx
  obtain ⟨hxn, hxu⟩ := Comp.node?_some hnode
  have hreach := ((Comp.visit_spec (compOfExpr e) (compOfExpr e).applyHead (compOfExpr e).applyTail).2 u).mp hu
  have h0 : u % 4 = 0 := compOfExpr_reach_apply e hreach
  cases ht : x.trained with
  | false => rfl
  | true =>
    have := ((compOfExpr_kind e hxn).1).mp ht
    omega

theorem tailClean_compOfExpr : (compOfExpr e).tailClean = true := by
  simp only [Comp.tailClean, List.all_eq_true, Bool.not_eq_true']
  intro v hv
  have hedge := Comp.mem_subs.mp hv
  have hult := compOfExpr_edge_lt e hedge
  -- the apply tail is a worker of the apply path (a dangling tail publishes nothing)
  have h0 : (compOfExpr e).applyTail % 4 = 0 := by
    have hta := (fragOf_ok e).ta
    have e1 : sourceCtx.apply = 0 := rfl
    rw [e1] at hta
    have hdef : (compOfExpr e).applyTail
        = segmentTail sourceCtx.apply (expand e sourceCtx 8).applyTail (expand e sourceCtx 8).next := rfl
    dsimp only at hult
    rw [hdef] at hult ⊢
    simp only [segmentTail, e1] at hult ⊢
    by_cases h : (expand e sourceCtx 8).applyTail = 0
    · simp [h] at hult
    · have hb : ((expand e sourceCtx 8).applyTail == 0) = false := by simpa using h
      simp only [hb, Bool.false_eq_true, if_false]
      omega
  have hv0 : v % 4 = 0 := compOfExpr_edge_apply e hedge h0
  simp only [Comp.isTrained]
  apply List.any_eq_false.mpr
  intro x hx
  cases hu : (x.uid == v) with
  | false => simp
  | true =>
    have hxv : x.uid = v := by simpa using hu
    cases ht : x.trained with
    | false => simp
    | true =>
      have := ((compOfExpr_kind e hx).1).mp ht
      omega

theorem trainersVisited_compOfExpr : (compOfExpr e).trainersVisited = true := by
  simp only [Comp.trainersVisited, List.all_eq_true]
  intro g hg
  have hg' := mem_dedup _ g hg
  simp only [List.mem_map, List.mem_filter] at hg'
  obtain ⟨x, ⟨hx, hder⟩, hxg⟩ := hg'
  have hxn := Comp.mem_visitNodes hx
  have hs : x.stateful = true := by
    simp only [Comp.derived, Bool.and_eq_true] at hder
    exact hder.1
  obtain ⟨t, htn, htg, htt⟩ := compOfExpr_trainer e hxn hs
  have htc : t ∈ (compOfExpr e).nodes := (compOfExpr_nodes e).mpr (Or.inr htn)
  have h1 := ((compOfExpr_kind e htc).1).mp htt
  have hpath := (fragOf_ok e).path t htn (Or.inl h1)
  have hreach := compOfExpr_reach_train e hpath
  have hvis := ((Comp.visit_spec (compOfExpr e) (compOfExpr e).trainHead (compOfExpr e).trainTail).2 t.uid).mpr hreach
  -- the node found under the trainer's uid is the trainer
  have hnode : (compOfExpr e).node? t.uid = some t := by
    cases hf : (compOfExpr e).node? t.uid with
    | none =>
      have := List.find?_eq_none.mp hf t htc
      simp at this
    | some t' =>
      obtain ⟨ht'n, ht'u⟩ := Comp.node?_some hf
      rw [compOfExpr_uniq e ht'n htc ht'u]
  have htv : t ∈ (compOfExpr e).visitNodes (compOfExpr e).trainHead (compOfExpr e).trainTail :=
    Comp.mem_visitNodes_iff.mpr ⟨t.uid, hvis, hnode⟩
  simp only [trainerOf]
  rw [List.find?_isSome]
  exact ⟨t, htv, by simp [(compOfExpr_kind e htc).2 htt, htt, htg, hxg]⟩

/-- **Every expansion is well-formed.** -/
theorem wfPlain_compOfExpr : (compOfExpr e).wfPlain = true := by
  simp only [Comp.wfPlain, tagsConsistent_compOfExpr, uidsDistinct_compOfExpr, trainedStateful_compOfExpr,
    trainersVisited_compOfExpr, appliedDerived_compOfExpr, noTrainer_compOfExpr, Bool.and_self]

end

theorem wfPlain_compOf (e : PExpr) (sink : Bool) : (compOf e sink).wfPlain = true := wfPlain_compOfExpr _

theorem tailClean_compOf (e : PExpr) (sink : Bool) : (compOf e sink).tailClean = true := tailClean_compOfExpr _

end ForML.Persist
