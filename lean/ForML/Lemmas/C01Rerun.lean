/-
C01 — re-execution: compiling reads only the persistent *list* of the accessor, never its generation; hence every
execution of a compiled table is the execution of a fresh compilation against the store of that moment.
-/
import ForML.Model.Rerun
import ForML.Lemmas.C01Compile

namespace ForML.Flow
open Segment

/-- same persistent list (or no accessor on both sides) -/
def SameP : Option Assets → Option Assets → Prop
  | none, none => True
  | some a, some b => a.persistent = b.persistent
  | _, _ => False

theorem SameP.refl (A : Option Assets) : SameP A A := by cases A <;> simp [SameP]

theorem SameP.trans {A B C : Option Assets} (h1 : SameP A B) (h2 : SameP B C) : SameP A C := by
  cases A <;> cases B <;> cases C <;> simp_all [SameP]

theorem sameP_storeAfter (A : Option Assets) (m : Memo) : SameP A (storeAfter A m) := by
  unfold storeAfter
  split
  · simp [SameP]
  · exact SameP.refl _

theorem sameP_storeSeq (A : Option Assets) (t : Table) : ∀ j, SameP A (storeSeq A t j)
  | 0 => SameP.refl _
  | j + 1 => (sameP_storeSeq A t j).trans (sameP_storeAfter _ _)

theorem sameP_commitExternal (As : Assets) (vs : List Val) : SameP (some As) (some (commitExternal As vs)) := by
  unfold commitExternal
  split <;> simp [SameP]

/-- a commit with more or fewer states than persistent groups is refused: the store is unchanged -/
theorem commitExternal_refused (As : Assets) (vs : List Val) (h : vs.length ≠ As.persistent.length) :
    commitExternal As vs = As := by
  simp [commitExternal, Assets.commit, h]

/-- a commit with one state per persistent group replaces the previous generation -/
theorem commitExternal_accepted (As : Assets) (vs : List Val) (h : vs.length = As.persistent.length) :
    commitExternal As vs = { As with prev := vs.map undump } := by
  simp [commitExternal, Assets.commit, h]

/-- `Table.add` consults `assets.__contains__` and `assets.offset` only -/
theorem add_congr (g : Segment) {A B : Option Assets} (h : SameP A B) : add g A = add g B := by
  cases A with
  | none => cases B with
    | none => rfl
    | some b => cases h
  | some a => cases B with
    | none => cases h
    | some b =>
      obtain ⟨P, p⟩ := a
      obtain ⟨P', p'⟩ := b
      simp only [SameP] at h
      subst h
      rfl

theorem compile_congr (g : Segment) {A B : Option Assets} (h : SameP A B) (order : List Uid) :
    compile g A order = compile g B order := by
  unfold compile addAll
  rw [add_congr g h]

theorem assetsOK_congr (g : Segment) {A B : Option Assets} (h : SameP A B) : g.assetsOK A = g.assetsOK B := by
  cases A with
  | none => cases B with
    | none => rfl
    | some b => cases h
  | some a => cases B with
    | none => cases h
    | some b =>
      obtain ⟨P, p⟩ := a
      obtain ⟨P', p'⟩ := b
      simp only [SameP] at h
      subst h
      rfl

theorem linked_congr (g : Segment) {A B : Option Assets} (h : SameP A B) : g.linked A = g.linked B := by
  cases A with
  | none => cases B with
    | none => rfl
    | some b => cases h
  | some a => cases B with
    | none => cases h
    | some b =>
      obtain ⟨P, p⟩ := a
      obtain ⟨P', p'⟩ := b
      simp only [SameP] at h
      subst h
      rfl

end ForML.Flow
