/-
C03 ↔ C01 bridge, lemmas part 1: what is in `segmentOn g M head tl` (membership in its worker and subscription lists in
terms of the lookups of the composition graph), looking through bound futures under a certified valuation, and the
translation of provenance terms.
-/
import ForML.Lemmas.C03Region
import ForML.Model.ComposeSegment
import ForML.Lemmas.C01Wf

namespace ForML.Compose
open ForML

/-! ### provenance terms -/

theorem convL_eq_map : ∀ (l : List Val), convL l = l.map conv
  | [] => by simp [convL]
  | v :: vs => by simp [convL, convL_eq_map vs]

theorem conv_portVal (szout i : Nat) (out : Val) :
    conv (portVal szout i out) = if szout = 1 then conv out else .proj i (conv out) := by
  unfold portVal
  by_cases h : szout = 1
  · simp [h]
  · have : (szout == 1) = false := by simpa using h
    simp [this, h, conv]

/-! ### looking through bound futures -/

theorem resolve_live {g : Graph} {W : World} (hi : Inv g W) (hno : ∀ n, W.live n → ¬ g.isOpen n) :
    ∀ (f : Nat) (q : PubRef), W.live q.node → W.h q.node < f →
      ∃ q', g.resolve f q = some q' ∧ (∃ gid a i o, g.kindOf q'.node = some (.worker gid a i o)) ∧ W.live q'.node ∧
        W.σ q' = W.σ q ∧ W.h q'.node ≤ W.h q.node := by
  intro f
  induction f with
  | zero => intro q _ h; omega
  | succ f ih =>
    intro q hl hf
    have hg := hi.good q.node hl
    unfold GoodNode at hg
    rw [Graph.resolve]
    cases hk : g.kindOf q.node with
    | none => simp [hk] at hg
    | some kd =>
      cases kd with
      | future =>
        simp only [hk] at hg ⊢
        cases hin : g.inputOf q.node 0 with
        | none => exact absurd ⟨hk, hin⟩ (hno q.node hl)
        | some q1 =>
          simp only [hin] at hg
          obtain ⟨⟨hl1, hh1⟩, hσ⟩ := hg
          obtain ⟨q', hr, hkq, hlq, hσq, hhq⟩ := ih q1 hl1 (by omega)
          refine ⟨q', by simpa [Option.bind] using hr, hkq, hlq, ?_, by omega⟩
          rw [hσq]
          have := hσ q.idx
          rw [← this]
      | worker gid a i o =>
        simp only [hk]
        exact ⟨q, rfl, ⟨gid, a, i, o, hk⟩, hl, rfl, Nat.le_refl _⟩

/-- with the fuel `toSegment` uses -/
theorem resolve_live' {g : Graph} {W : World} (hi : Inv g W) (hno : ∀ n, W.live n → ¬ g.isOpen n) (q : PubRef)
    (hl : W.live q.node) :
    ∃ q', g.resolve g.resolveFuel q = some q' ∧ (∃ gid a i o, g.kindOf q'.node = some (.worker gid a i o)) ∧
      W.live q'.node ∧ W.σ q' = W.σ q ∧ W.h q'.node ≤ W.h q.node :=
  resolve_live hi hno _ q hl (by have := (hi.liveLt _ hl).2; unfold Graph.resolveFuel; omega)

/-! ### members of the translated segment -/

theorem mem_allWorkers {g : Graph} {w : Flow.Worker} :
    w ∈ g.allWorkers ↔ w.uid < g.next ∧ g.kindOf w.uid = some (.worker w.gid ⟨w.actor, w.stateful⟩ w.szin w.szout) := by
  unfold Graph.allWorkers
  rw [List.mem_filterMap]
  constructor
  · rintro ⟨u, hu, h⟩
    have hu' : u < g.next := List.mem_range.mp hu
    cases hk : g.kindOf u with
    | none => simp [hk] at h
    | some kd =>
      cases kd with
      | future => simp [hk] at h
      | worker gid a i o =>
        simp only [hk, Option.some.injEq] at h
        subst h
        exact ⟨hu', by rw [hk]⟩
  · rintro ⟨hu, hk⟩
    refine ⟨w.uid, List.mem_range.mpr hu, ?_⟩
    rw [hk]

theorem mem_seg_workers {g : Graph} {M : List Nat} {head tl : Nat} {w : Flow.Worker} :
    w ∈ (segmentOn g M head tl).workers ↔ w ∈ g.allWorkers ∧ w.uid ∈ M := by
  simp [segmentOn, List.mem_filter]

theorem mem_seg_edges {g : Graph} {M : List Nat} {head tl : Nat} {e : Flow.Edge} :
    e ∈ (segmentOn g M head tl).edges ↔ (e ∈ g.applyEdges ∨ e ∈ g.trainEdges) ∧ e.pub ∈ M ∧ e.sub ∈ M := by
  simp only [segmentOn, List.mem_filter, List.mem_append, Bool.and_eq_true, List.contains_iff_mem]

theorem mem_applyEdges {g : Graph} {e : Flow.Edge} :
    e ∈ g.applyEdges ↔ ∃ ge ∈ g.edges, (∃ gid a i o, g.kindOf ge.sub = some (.worker gid a i o)) ∧
      ∃ q, g.resolve g.resolveFuel ge.pub = some q ∧ e = ⟨q.node, q.idx, ge.sub, .apply ge.port⟩ := by
  unfold Graph.applyEdges
  rw [List.mem_filterMap]
  constructor
  · rintro ⟨ge, hge, h⟩
    refine ⟨ge, hge, ?_⟩
    cases hk : g.kindOf ge.sub with
    | none => simp [hk] at h
    | some kd =>
      cases kd with
      | future => simp [hk] at h
      | worker gid a i o =>
        simp only [hk] at h
        cases hr : g.resolve g.resolveFuel ge.pub with
        | none => simp [hr] at h
        | some q =>
          simp only [hr, Option.map_some, Option.some.injEq] at h
          exact ⟨⟨gid, a, i, o, rfl⟩, q, rfl, h.symm⟩
  · rintro ⟨ge, hge, ⟨gid, a, i, o, hk⟩, q, hr, he⟩
    refine ⟨ge, hge, ?_⟩
    simp [hk, hr, he]

theorem applyEdge_port {g : Graph} {e : Flow.Edge} (h : e ∈ g.applyEdges) : e.subPort.isApply = true := by
  obtain ⟨ge, _, _, q, _, he⟩ := mem_applyEdges.mp h
  rw [he]; rfl

theorem mem_trainEdges {g : Graph} {e : Flow.Edge} :
    e ∈ g.trainEdges ↔ ∃ T ∈ g.trains, ∃ x y, g.resolve g.resolveFuel T.train = some x ∧
      g.resolve g.resolveFuel T.label = some y ∧
      (e = ⟨x.node, x.idx, T.node, .train⟩ ∨ e = ⟨y.node, y.idx, T.node, .label⟩) := by
  unfold Graph.trainEdges
  rw [List.mem_flatMap]
  constructor
  · rintro ⟨T, hT, h⟩
    refine ⟨T, hT, ?_⟩
    cases hx : g.resolve g.resolveFuel T.train with
    | none => simp [hx] at h
    | some x =>
      cases hy : g.resolve g.resolveFuel T.label with
      | none => simp [hx, hy] at h
      | some y =>
        simp only [hx, hy, List.mem_cons, List.mem_nil_iff, or_false] at h
        exact ⟨x, y, rfl, rfl, h⟩
  · rintro ⟨T, hT, x, y, hx, hy, h⟩
    refine ⟨T, hT, ?_⟩
    simp only [hx, hy, List.mem_cons, List.mem_nil_iff, or_false]
    exact h

/-- a `Train` / `Label` subscription of the translated segment comes from a recorded training -/
theorem trained_seg {g : Graph} {M : List Nat} {head tl : Nat} {n : Nat}
    (h : (segmentOn g M head tl).trained n = true) : ∃ T ∈ g.trains, T.node = n := by
  obtain ⟨e, he, hs, hp⟩ := Flow.Segment.trained_iff.mp h
  obtain ⟨hor, _, _⟩ := mem_seg_edges.mp he
  rcases hor with ha | ht
  · rw [applyEdge_port ha] at hp; cases hp
  · obtain ⟨T, hT, x, y, _, _, h | h⟩ := mem_trainEdges.mp ht
    · exact ⟨T, hT, by rw [← hs, h]⟩
    · exact ⟨T, hT, by rw [← hs, h]⟩

end ForML.Compose
