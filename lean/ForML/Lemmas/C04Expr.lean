/-
C04 helper lemmas, part 12: every composition the model expands from an expression (`expand`, Model/PersistExpr.lean)
satisfies the structural invariant `FragOk` — ids in range and of the right residue class, one trainer per stateful
group, subscriptions that stay on their path, every trainer and train-path worker reachable from the train publisher.
(The eight leaf lemmas are instances of one scheme: membership in a literal list, then arithmetic.)
-/
import ForML.Model.PersistExpr

namespace ForML.Persist

/-- a path over the subscriptions `E` -/
inductive TPath (E : List (Nat × Nat)) (a : Nat) : Nat → Prop where
  | refl : TPath E a a
  | step {u v : Nat} : TPath E a u → (u, v) ∈ E → TPath E a v

theorem TPath.mono {E E' : List (Nat × Nat)} {a b : Nat} (h : ∀ e ∈ E, e ∈ E') (p : TPath E a b) : TPath E' a b := by
  induction p with
  | refl => exact TPath.refl
  | step _ he ih => exact TPath.step ih (h _ he)

theorem TPath.trans {E : List (Nat × Nat)} {a b c : Nat} (p : TPath E a b) (q : TPath E b c) : TPath E a c := by
  induction q with
  | refl => exact p
  | step _ he ih => exact TPath.step ih he

/-- what every expansion guarantees (ids `≡ 0 (mod 4)`: apply path, `≡ 1`: trainers, `≡ 2`: train path, `≡ 3`: label
path; a tail is either the publisher the operator was composed onto or a worker of the operator) -/
structure FragOk (ctx : Ctx) (n : Nat) (f : Frag) : Prop where
  next4 : f.next % 4 = 0
  lt : n < f.next
  range : ∀ x ∈ f.nodes, n ≤ x.uid ∧ x.uid < f.next ∧ n ≤ x.gid ∧ x.gid < f.next
  kind : ∀ x ∈ f.nodes, (x.trained = true ↔ x.uid % 4 = 1) ∧ (x.trained = true → x.stateful = true)
  uniq : ∀ x ∈ f.nodes, ∀ y ∈ f.nodes, x.uid = y.uid → x = y
  tags : ∀ x ∈ f.nodes, ∀ y ∈ f.nodes, x.gid = y.gid → x.tag = y.tag
  trainer : ∀ x ∈ f.nodes, x.stateful = true → ∃ t ∈ f.nodes, t.gid = x.gid ∧ t.trained = true
  ea : ∀ e ∈ f.applyEdges,
    (e.1 = ctx.apply ∨ (n ≤ e.1 ∧ e.1 < f.next ∧ e.1 % 4 = 0)) ∧ n ≤ e.2 ∧ e.2 < f.next ∧ e.2 % 4 = 0
  et : ∀ e ∈ f.trainEdges,
    (e.1 = ctx.train ∨ (n ≤ e.1 ∧ e.1 < f.next ∧ e.1 % 4 = 2)) ∧ n ≤ e.2 ∧ e.2 < f.next
      ∧ (e.2 % 4 = 1 ∨ e.2 % 4 = 2) ∧ (e.1 = f.trainTail → e.2 % 4 = 1)
  el : ∀ e ∈ f.labelEdges,
    (e.1 = ctx.label ∨ (n ≤ e.1 ∧ e.1 < f.next ∧ e.1 % 4 = 3)) ∧ n ≤ e.2 ∧ e.2 < f.next ∧ (e.2 % 4 = 1 ∨ e.2 % 4 = 3)
  ta : f.applyTail = ctx.apply ∨ (n ≤ f.applyTail ∧ f.applyTail < f.next ∧ f.applyTail % 4 = 0)
  tt : f.trainTail = ctx.train ∨ (n ≤ f.trainTail ∧ f.trainTail < f.next ∧ f.trainTail % 4 = 2)
  tl : f.labelTail = ctx.label ∨ (n ≤ f.labelTail ∧ f.labelTail < f.next ∧ f.labelTail % 4 = 3)
  path : ∀ x ∈ f.nodes, (x.uid % 4 = 1 ∨ x.uid % 4 = 2) → TPath f.trainEdges ctx.train x.uid
  pathTail : TPath f.trainEdges ctx.train f.trainTail
  tnode : ∀ e ∈ f.trainEdges, e.2 % 4 = 1 → ∃ x ∈ f.nodes, x.uid = e.2 ∧ x.trained = true

/-- arithmetic side goals, possibly behind projections of literal structures -/
macro "arith" : tactic =>
  `(tactic| first | omega | (intros; omega) | (simp <;> omega) | (intros; simp at * <;> omega))

theorem expand_mapper_true_ok (tag : Nat) (ctx : Ctx) (n : Nat) (hn : n % 4 = 0)
    (hc : ctx.apply < n ∧ ctx.train < n ∧ ctx.label < n) :
    FragOk ctx n (expand (.mapper tag true) ctx n) := by
  have hf : expand (.mapper tag true) ctx n =
      ⟨[⟨n, n, tag, true, false⟩, ⟨n + 1, n, tag, true, true⟩, ⟨n + 2, n, tag, true, false⟩], [(ctx.apply, n)],
        [(ctx.train, n + 1), (ctx.train, n + 2)], [(ctx.label, n + 1)], n, n + 2, ctx.label, n + 4⟩ := rfl
  rw [hf]
  obtain ⟨hca, hct, hcl⟩ := hc
  constructor <;> dsimp only
  · omega
  · omega
  · intro x hx
    simp only [List.mem_cons, List.mem_nil_iff, or_false] at hx
    rcases hx with rfl | rfl | rfl <;> (refine ⟨?_, ?_, ?_, ?_⟩ <;> arith)
  · intro x hx
    simp only [List.mem_cons, List.mem_nil_iff, or_false] at hx
    rcases hx with rfl | rfl | rfl <;> (refine ⟨?_, ?_⟩ <;> arith)
  · intro x hx y hy h
    simp only [List.mem_cons, List.mem_nil_iff, or_false] at hx hy
    rcases hx with rfl | rfl | rfl <;> rcases hy with rfl | rfl | rfl <;> first | rfl | (exfalso; dsimp only at h; omega)
  · intro x hx y hy _
    simp only [List.mem_cons, List.mem_nil_iff, or_false] at hx hy
    rcases hx with rfl | rfl | rfl <;> rcases hy with rfl | rfl | rfl <;> rfl
  · intro x hx _
    refine ⟨⟨n + 1, n, tag, true, true⟩, by simp, ?_, rfl⟩
    simp only [List.mem_cons, List.mem_nil_iff, or_false] at hx
    rcases hx with rfl | rfl | rfl <;> rfl
  · intro e he
    simp only [List.mem_cons, List.mem_nil_iff, or_false] at he
    rcases he with rfl <;> (refine ⟨Or.inl rfl, ?_, ?_, ?_⟩ <;> arith)
  · intro e he
    simp only [List.mem_cons, List.mem_nil_iff, or_false] at he
    rcases he with rfl | rfl <;> (refine ⟨Or.inl rfl, ?_, ?_, ?_, ?_⟩ <;> arith)
  · intro e he
    simp only [List.mem_cons, List.mem_nil_iff, or_false] at he
    rcases he with rfl <;> (refine ⟨Or.inl rfl, ?_, ?_, ?_⟩ <;> arith)
  · exact Or.inr (by omega)
  · exact Or.inr (by omega)
  · exact Or.inl rfl
  · intro x hx h
    simp only [List.mem_cons, List.mem_nil_iff, or_false] at hx
    rcases hx with rfl | rfl | rfl <;> first | (exfalso; dsimp only at h; omega) | exact TPath.step TPath.refl (by simp)
  · exact TPath.step TPath.refl (by simp)
  · intro e he h
    simp only [List.mem_cons, List.mem_nil_iff, or_false] at he
    rcases he with rfl | rfl <;> first | (exfalso; dsimp only at h; omega) | exact ⟨⟨n + 1, n, tag, true, true⟩, by simp, rfl, rfl⟩

theorem expand_applyOnly_true_ok (tag : Nat) (ctx : Ctx) (n : Nat) (hn : n % 4 = 0)
    (hc : ctx.apply < n ∧ ctx.train < n ∧ ctx.label < n) :
    FragOk ctx n (expand (.applyOnly tag true) ctx n) := by
  have hf : expand (.applyOnly tag true) ctx n =
      ⟨[⟨n, n, tag, true, false⟩, ⟨n + 1, n, tag, true, true⟩], [(ctx.apply, n)],
        [(ctx.train, n + 1)], [(ctx.label, n + 1)], n, ctx.train, ctx.label, n + 4⟩ := rfl
  rw [hf]
  obtain ⟨hca, hct, hcl⟩ := hc
  constructor <;> dsimp only
  · omega
  · omega
  · intro x hx
    simp only [List.mem_cons, List.mem_nil_iff, or_false] at hx
    rcases hx with rfl | rfl <;> (refine ⟨?_, ?_, ?_, ?_⟩ <;> arith)
  · intro x hx
    simp only [List.mem_cons, List.mem_nil_iff, or_false] at hx
    rcases hx with rfl | rfl <;> (refine ⟨?_, ?_⟩ <;> arith)
  · intro x hx y hy h
    simp only [List.mem_cons, List.mem_nil_iff, or_false] at hx hy
    rcases hx with rfl | rfl <;> rcases hy with rfl | rfl <;> first | rfl | (exfalso; dsimp only at h; omega)
  · intro x hx y hy _
    simp only [List.mem_cons, List.mem_nil_iff, or_false] at hx hy
    rcases hx with rfl | rfl <;> rcases hy with rfl | rfl <;> rfl
  · intro x hx _
    refine ⟨⟨n + 1, n, tag, true, true⟩, by simp, ?_, rfl⟩
    simp only [List.mem_cons, List.mem_nil_iff, or_false] at hx
    rcases hx with rfl | rfl <;> rfl
  · intro e he
    simp only [List.mem_cons, List.mem_nil_iff, or_false] at he
    rcases he with rfl <;> (refine ⟨Or.inl rfl, ?_, ?_, ?_⟩ <;> arith)
  · intro e he
    simp only [List.mem_cons, List.mem_nil_iff, or_false] at he
    rcases he with rfl <;> (refine ⟨Or.inl rfl, ?_, ?_, ?_, ?_⟩ <;> arith)
  · intro e he
    simp only [List.mem_cons, List.mem_nil_iff, or_false] at he
    rcases he with rfl <;> (refine ⟨Or.inl rfl, ?_, ?_, ?_⟩ <;> arith)
  · exact Or.inr (by omega)
  · exact Or.inl rfl
  · exact Or.inl rfl
  · intro x hx h
    simp only [List.mem_cons, List.mem_nil_iff, or_false] at hx
    rcases hx with rfl | rfl <;> first | (exfalso; dsimp only at h; omega) | exact TPath.step TPath.refl (by simp)
  · exact TPath.refl
  · intro e he h
    simp only [List.mem_cons, List.mem_nil_iff, or_false] at he
    rcases he with rfl <;> first | (exfalso; dsimp only at h; omega) | exact ⟨⟨n + 1, n, tag, true, true⟩, by simp, rfl, rfl⟩

theorem expand_trainOnly_true_ok (tag : Nat) (ctx : Ctx) (n : Nat) (hn : n % 4 = 0)
    (hc : ctx.apply < n ∧ ctx.train < n ∧ ctx.label < n) :
    FragOk ctx n (expand (.trainOnly tag true) ctx n) := by
  have hf : expand (.trainOnly tag true) ctx n =
      ⟨[⟨n + 1, n, tag, true, true⟩, ⟨n + 2, n, tag, true, false⟩], [],
        [(ctx.train, n + 1), (ctx.train, n + 2)], [(ctx.label, n + 1)], ctx.apply, n + 2, ctx.label, n + 4⟩ := rfl
  rw [hf]
  obtain ⟨hca, hct, hcl⟩ := hc
  constructor <;> dsimp only
  · omega
  · omega
  · intro x hx
    simp only [List.mem_cons, List.mem_nil_iff, or_false] at hx
    rcases hx with rfl | rfl <;> (refine ⟨?_, ?_, ?_, ?_⟩ <;> arith)
  · intro x hx
    simp only [List.mem_cons, List.mem_nil_iff, or_false] at hx
    rcases hx with rfl | rfl <;> (refine ⟨?_, ?_⟩ <;> arith)
  · intro x hx y hy h
    simp only [List.mem_cons, List.mem_nil_iff, or_false] at hx hy
    rcases hx with rfl | rfl <;> rcases hy with rfl | rfl <;> first | rfl | (exfalso; dsimp only at h; omega)
  · intro x hx y hy _
    simp only [List.mem_cons, List.mem_nil_iff, or_false] at hx hy
    rcases hx with rfl | rfl <;> rcases hy with rfl | rfl <;> rfl
  · intro x hx _
    refine ⟨⟨n + 1, n, tag, true, true⟩, by simp, ?_, rfl⟩
    simp only [List.mem_cons, List.mem_nil_iff, or_false] at hx
    rcases hx with rfl | rfl <;> rfl
  · intro e he
    cases he
  · intro e he
    simp only [List.mem_cons, List.mem_nil_iff, or_false] at he
    rcases he with rfl | rfl <;> (refine ⟨Or.inl rfl, ?_, ?_, ?_, ?_⟩ <;> arith)
  · intro e he
    simp only [List.mem_cons, List.mem_nil_iff, or_false] at he
    rcases he with rfl <;> (refine ⟨Or.inl rfl, ?_, ?_, ?_⟩ <;> arith)
  · exact Or.inl rfl
  · exact Or.inr (by omega)
  · exact Or.inl rfl
  · intro x hx h
    simp only [List.mem_cons, List.mem_nil_iff, or_false] at hx
    rcases hx with rfl | rfl <;> first | (exfalso; dsimp only at h; omega) | exact TPath.step TPath.refl (by simp)
  · exact TPath.step TPath.refl (by simp)
  · intro e he h
    simp only [List.mem_cons, List.mem_nil_iff, or_false] at he
    rcases he with rfl | rfl <;> first | (exfalso; dsimp only at h; omega) | exact ⟨⟨n + 1, n, tag, true, true⟩, by simp, rfl, rfl⟩

theorem expand_labelOp_true_ok (tag : Nat) (ctx : Ctx) (n : Nat) (hn : n % 4 = 0)
    (hc : ctx.apply < n ∧ ctx.train < n ∧ ctx.label < n) :
    FragOk ctx n (expand (.labelOp tag true) ctx n) := by
  have hf : expand (.labelOp tag true) ctx n =
      ⟨[⟨n + 1, n, tag, true, true⟩, ⟨n + 3, n, tag, true, false⟩], [],
        [(ctx.train, n + 1)], [(ctx.label, n + 1), (ctx.label, n + 3)], ctx.apply, ctx.train, n + 3, n + 4⟩ := rfl
  rw [hf]
  obtain ⟨hca, hct, hcl⟩ := hc
  constructor <;> dsimp only
  · omega
  · omega
  · intro x hx
    simp only [List.mem_cons, List.mem_nil_iff, or_false] at hx
    rcases hx with rfl | rfl <;> (refine ⟨?_, ?_, ?_, ?_⟩ <;> arith)
  · intro x hx
    simp only [List.mem_cons, List.mem_nil_iff, or_false] at hx
    rcases hx with rfl | rfl <;> (refine ⟨?_, ?_⟩ <;> arith)
  · intro x hx y hy h
    simp only [List.mem_cons, List.mem_nil_iff, or_false] at hx hy
    rcases hx with rfl | rfl <;> rcases hy with rfl | rfl <;> first | rfl | (exfalso; dsimp only at h; omega)
  · intro x hx y hy _
    simp only [List.mem_cons, List.mem_nil_iff, or_false] at hx hy
    rcases hx with rfl | rfl <;> rcases hy with rfl | rfl <;> rfl
  · intro x hx _
    refine ⟨⟨n + 1, n, tag, true, true⟩, by simp, ?_, rfl⟩
    simp only [List.mem_cons, List.mem_nil_iff, or_false] at hx
    rcases hx with rfl | rfl <;> rfl
  · intro e he
    cases he
  · intro e he
    simp only [List.mem_cons, List.mem_nil_iff, or_false] at he
    rcases he with rfl <;> (refine ⟨Or.inl rfl, ?_, ?_, ?_, ?_⟩ <;> arith)
  · intro e he
    simp only [List.mem_cons, List.mem_nil_iff, or_false] at he
    rcases he with rfl | rfl <;> (refine ⟨Or.inl rfl, ?_, ?_, ?_⟩ <;> arith)
  · exact Or.inl rfl
  · exact Or.inl rfl
  · exact Or.inr (by omega)
  · intro x hx h
    simp only [List.mem_cons, List.mem_nil_iff, or_false] at hx
    rcases hx with rfl | rfl <;> first | (exfalso; dsimp only at h; omega) | exact TPath.step TPath.refl (by simp)
  · exact TPath.refl
  · intro e he h
    simp only [List.mem_cons, List.mem_nil_iff, or_false] at he
    rcases he with rfl <;> first | (exfalso; dsimp only at h; omega) | exact ⟨⟨n + 1, n, tag, true, true⟩, by simp, rfl, rfl⟩

theorem expand_mapper_false_ok (tag : Nat) (ctx : Ctx) (n : Nat) (hn : n % 4 = 0)
    (hc : ctx.apply < n ∧ ctx.train < n ∧ ctx.label < n) :
    FragOk ctx n (expand (.mapper tag false) ctx n) := by
  have hf : expand (.mapper tag false) ctx n =
      ⟨[⟨n, n, tag, false, false⟩, ⟨n + 2, n, tag, false, false⟩], [(ctx.apply, n)],
        [(ctx.train, n + 2)], [], n, n + 2, ctx.label, n + 4⟩ := rfl
  rw [hf]
  obtain ⟨hca, hct, hcl⟩ := hc
  constructor <;> dsimp only
  · omega
  · omega
  · intro x hx
    simp only [List.mem_cons, List.mem_nil_iff, or_false] at hx
    rcases hx with rfl | rfl <;> (refine ⟨?_, ?_, ?_, ?_⟩ <;> arith)
  · intro x hx
    simp only [List.mem_cons, List.mem_nil_iff, or_false] at hx
    rcases hx with rfl | rfl <;> (refine ⟨?_, ?_⟩ <;> arith)
  · intro x hx y hy h
    simp only [List.mem_cons, List.mem_nil_iff, or_false] at hx hy
    rcases hx with rfl | rfl <;> rcases hy with rfl | rfl <;> first | rfl | (exfalso; dsimp only at h; omega)
  · intro x hx y hy _
    simp only [List.mem_cons, List.mem_nil_iff, or_false] at hx hy
    rcases hx with rfl | rfl <;> rcases hy with rfl | rfl <;> rfl
  · intro x hx hs
    simp only [List.mem_cons, List.mem_nil_iff, or_false] at hx
    rcases hx with rfl | rfl <;> simp at hs
  · intro e he
    simp only [List.mem_cons, List.mem_nil_iff, or_false] at he
    rcases he with rfl <;> (refine ⟨Or.inl rfl, ?_, ?_, ?_⟩ <;> arith)
  · intro e he
    simp only [List.mem_cons, List.mem_nil_iff, or_false] at he
    rcases he with rfl <;> (refine ⟨Or.inl rfl, ?_, ?_, ?_, ?_⟩ <;> arith)
  · intro e he
    cases he
  · exact Or.inr (by omega)
  · exact Or.inr (by omega)
  · exact Or.inl rfl
  · intro x hx h
    simp only [List.mem_cons, List.mem_nil_iff, or_false] at hx
    rcases hx with rfl | rfl <;> first | (exfalso; dsimp only at h; omega) | exact TPath.step TPath.refl (by simp)
  · exact TPath.step TPath.refl (by simp)
  · intro e he h
    simp only [List.mem_cons, List.mem_nil_iff, or_false] at he
    rcases he with rfl <;> (exfalso; dsimp only at h; omega)

theorem expand_applyOnly_false_ok (tag : Nat) (ctx : Ctx) (n : Nat) (hn : n % 4 = 0)
    (hc : ctx.apply < n ∧ ctx.train < n ∧ ctx.label < n) :
    FragOk ctx n (expand (.applyOnly tag false) ctx n) := by
  have hf : expand (.applyOnly tag false) ctx n =
      ⟨[⟨n, n, tag, false, false⟩], [(ctx.apply, n)],
        [], [], n, ctx.train, ctx.label, n + 4⟩ := rfl
  rw [hf]
  obtain ⟨hca, hct, hcl⟩ := hc
  constructor <;> dsimp only
  · omega
  · omega
  · intro x hx
    simp only [List.mem_cons, List.mem_nil_iff, or_false] at hx
    rcases hx with rfl <;> (refine ⟨?_, ?_, ?_, ?_⟩ <;> arith)
  · intro x hx
    simp only [List.mem_cons, List.mem_nil_iff, or_false] at hx
    rcases hx with rfl <;> (refine ⟨?_, ?_⟩ <;> arith)
  · intro x hx y hy h
    simp only [List.mem_cons, List.mem_nil_iff, or_false] at hx hy
    rcases hx with rfl <;> rcases hy with rfl <;> first | rfl | (exfalso; dsimp only at h; omega)
  · intro x hx y hy _
    simp only [List.mem_cons, List.mem_nil_iff, or_false] at hx hy
    rcases hx with rfl <;> rcases hy with rfl <;> rfl
  · intro x hx hs
    simp only [List.mem_cons, List.mem_nil_iff, or_false] at hx
    rcases hx with rfl <;> simp at hs
  · intro e he
    simp only [List.mem_cons, List.mem_nil_iff, or_false] at he
    rcases he with rfl <;> (refine ⟨Or.inl rfl, ?_, ?_, ?_⟩ <;> arith)
  · intro e he
    cases he
  · intro e he
    cases he
  · exact Or.inr (by omega)
  · exact Or.inl rfl
  · exact Or.inl rfl
  · intro x hx h
    simp only [List.mem_cons, List.mem_nil_iff, or_false] at hx
    rcases hx with rfl <;> first | (exfalso; dsimp only at h; omega) | exact TPath.step TPath.refl (by simp)
  · exact TPath.refl
  · intro e he h
    cases he

theorem expand_trainOnly_false_ok (tag : Nat) (ctx : Ctx) (n : Nat) (hn : n % 4 = 0)
    (hc : ctx.apply < n ∧ ctx.train < n ∧ ctx.label < n) :
    FragOk ctx n (expand (.trainOnly tag false) ctx n) := by
  have hf : expand (.trainOnly tag false) ctx n =
      ⟨[⟨n + 2, n, tag, false, false⟩], [],
        [(ctx.train, n + 2)], [], ctx.apply, n + 2, ctx.label, n + 4⟩ := rfl
  rw [hf]
  obtain ⟨hca, hct, hcl⟩ := hc
  constructor <;> dsimp only
  · omega
  · omega
  · intro x hx
    simp only [List.mem_cons, List.mem_nil_iff, or_false] at hx
    rcases hx with rfl <;> (refine ⟨?_, ?_, ?_, ?_⟩ <;> arith)
  · intro x hx
    simp only [List.mem_cons, List.mem_nil_iff, or_false] at hx
    rcases hx with rfl <;> (refine ⟨?_, ?_⟩ <;> arith)
  · intro x hx y hy h
    simp only [List.mem_cons, List.mem_nil_iff, or_false] at hx hy
    rcases hx with rfl <;> rcases hy with rfl <;> first | rfl | (exfalso; dsimp only at h; omega)
  · intro x hx y hy _
    simp only [List.mem_cons, List.mem_nil_iff, or_false] at hx hy
    rcases hx with rfl <;> rcases hy with rfl <;> rfl
  · intro x hx hs
    simp only [List.mem_cons, List.mem_nil_iff, or_false] at hx
    rcases hx with rfl <;> simp at hs
  · intro e he
    cases he
  · intro e he
    simp only [List.mem_cons, List.mem_nil_iff, or_false] at he
    rcases he with rfl <;> (refine ⟨Or.inl rfl, ?_, ?_, ?_, ?_⟩ <;> arith)
  · intro e he
    cases he
  · exact Or.inl rfl
  · exact Or.inr (by omega)
  · exact Or.inl rfl
  · intro x hx h
    simp only [List.mem_cons, List.mem_nil_iff, or_false] at hx
    rcases hx with rfl <;> first | (exfalso; dsimp only at h; omega) | exact TPath.step TPath.refl (by simp)
  · exact TPath.step TPath.refl (by simp)
  · intro e he h
    simp only [List.mem_cons, List.mem_nil_iff, or_false] at he
    rcases he with rfl <;> (exfalso; dsimp only at h; omega)

theorem expand_labelOp_false_ok (tag : Nat) (ctx : Ctx) (n : Nat) (hn : n % 4 = 0)
    (hc : ctx.apply < n ∧ ctx.train < n ∧ ctx.label < n) :
    FragOk ctx n (expand (.labelOp tag false) ctx n) := by
  have hf : expand (.labelOp tag false) ctx n =
      ⟨[⟨n + 3, n, tag, false, false⟩], [],
        [], [(ctx.label, n + 3)], ctx.apply, ctx.train, n + 3, n + 4⟩ := rfl
  rw [hf]
  obtain ⟨hca, hct, hcl⟩ := hc
  constructor <;> dsimp only
  · omega
  · omega
  · intro x hx
    simp only [List.mem_cons, List.mem_nil_iff, or_false] at hx
    rcases hx with rfl <;> (refine ⟨?_, ?_, ?_, ?_⟩ <;> arith)
  · intro x hx
    simp only [List.mem_cons, List.mem_nil_iff, or_false] at hx
    rcases hx with rfl <;> (refine ⟨?_, ?_⟩ <;> arith)
  · intro x hx y hy h
    simp only [List.mem_cons, List.mem_nil_iff, or_false] at hx hy
    rcases hx with rfl <;> rcases hy with rfl <;> first | rfl | (exfalso; dsimp only at h; omega)
  · intro x hx y hy _
    simp only [List.mem_cons, List.mem_nil_iff, or_false] at hx hy
    rcases hx with rfl <;> rcases hy with rfl <;> rfl
  · intro x hx hs
    simp only [List.mem_cons, List.mem_nil_iff, or_false] at hx
    rcases hx with rfl <;> simp at hs
  · intro e he
    cases he
  · intro e he
    cases he
  · intro e he
    simp only [List.mem_cons, List.mem_nil_iff, or_false] at he
    rcases he with rfl <;> (refine ⟨Or.inl rfl, ?_, ?_, ?_⟩ <;> arith)
  · exact Or.inl rfl
  · exact Or.inl rfl
  · exact Or.inr (by omega)
  · intro x hx h
    simp only [List.mem_cons, List.mem_nil_iff, or_false] at hx
    rcases hx with rfl <;> first | (exfalso; dsimp only at h; omega) | exact TPath.step TPath.refl (by simp)
  · exact TPath.refl
  · intro e he h
    cases he

theorem seq_ok {ctx : Ctx} {n : Nat} {fa fb : Frag} (ha : FragOk ctx n fa)
    (hb : FragOk ⟨fa.applyTail, fa.trainTail, fa.labelTail⟩ fa.next fb)
    (hc : ctx.apply < n ∧ ctx.train < n ∧ ctx.label < n) :
    FragOk ctx n ⟨fa.nodes ++ fb.nodes, fa.applyEdges ++ fb.applyEdges, fa.trainEdges ++ fb.trainEdges,
      fa.labelEdges ++ fb.labelEdges, fb.applyTail, fb.trainTail, fb.labelTail, fb.next⟩ := by
  have hlt1 := ha.lt
  have hlt2 := hb.lt
  have hta := ha.ta
  have htt := ha.tt
  have htl := ha.tl
  have htab := hb.ta
  have httb := hb.tt
  have htlb := hb.tl
  dsimp only at htab httb htlb
  obtain ⟨hca, hct, hcl⟩ := hc
  constructor <;> dsimp only
  · exact hb.next4
  · omega
  · intro x hx
    rcases List.mem_append.mp hx with h | h
    · have := ha.range x h; omega
    · have := hb.range x h; omega
  · intro x hx
    rcases List.mem_append.mp hx with h | h
    · exact ha.kind x h
    · exact hb.kind x h
  · intro x hx y hy hxy
    rcases List.mem_append.mp hx with h1 | h1 <;> rcases List.mem_append.mp hy with h2 | h2
    · exact ha.uniq x h1 y h2 hxy
    · have := ha.range x h1; have := hb.range y h2; omega
    · have := hb.range x h1; have := ha.range y h2; omega
    · exact hb.uniq x h1 y h2 hxy
  · intro x hx y hy hxy
    rcases List.mem_append.mp hx with h1 | h1 <;> rcases List.mem_append.mp hy with h2 | h2
    · exact ha.tags x h1 y h2 hxy
    · have := ha.range x h1; have := hb.range y h2; omega
    · have := hb.range x h1; have := ha.range y h2; omega
    · exact hb.tags x h1 y h2 hxy
  · intro x hx hs
    rcases List.mem_append.mp hx with h | h
    · obtain ⟨t, ht, h1, h2⟩ := ha.trainer x h hs
      exact ⟨t, List.mem_append_left _ ht, h1, h2⟩
    · obtain ⟨t, ht, h1, h2⟩ := hb.trainer x h hs
      exact ⟨t, List.mem_append_right _ ht, h1, h2⟩
  · intro e he
    rcases List.mem_append.mp he with h | h
    · have := ha.ea e h
      refine ⟨by omega, by omega, by omega, by omega⟩
    · have := hb.ea e h
      dsimp only at this
      refine ⟨by omega, by omega, by omega, by omega⟩
  · intro e he
    rcases List.mem_append.mp he with h | h
    · have := ha.et e h
      refine ⟨by omega, by omega, by omega, by omega, ?_⟩
      intro h1
      rcases httb with h2 | h2
      · exact this.2.2.2.2 (by omega)
      · omega
    · have := hb.et e h
      dsimp only at this
      refine ⟨by omega, by omega, by omega, by omega, this.2.2.2.2⟩
  · intro e he
    rcases List.mem_append.mp he with h | h
    · have := ha.el e h
      refine ⟨by omega, by omega, by omega, by omega⟩
    · have := hb.el e h
      dsimp only at this
      refine ⟨by omega, by omega, by omega, by omega⟩
  · omega
  · omega
  · omega
  · intro x hx h3
    rcases List.mem_append.mp hx with h | h
    · exact (ha.path x h h3).mono (fun e he => List.mem_append_left _ he)
    · exact (ha.pathTail.mono (fun e he => List.mem_append_left _ he)).trans
        ((hb.path x h h3).mono (fun e he => List.mem_append_right _ he))
  · exact (ha.pathTail.mono (fun e he => List.mem_append_left _ he)).trans
      (hb.pathTail.mono (fun e he => List.mem_append_right _ he))
  · intro e he h4
    rcases List.mem_append.mp he with h | h
    · obtain ⟨x, hx, h1, h2⟩ := ha.tnode e h h4
      exact ⟨x, List.mem_append_left _ hx, h1, h2⟩
    · obtain ⟨x, hx, h1, h2⟩ := hb.tnode e h h4
      exact ⟨x, List.mem_append_right _ hx, h1, h2⟩

theorem par_ok {ctx : Ctx} {n : Nat} {fa fb : Frag} (m : Nat) (ha : FragOk ctx n fa) (hb : FragOk ctx fa.next fb)
    (hc : ctx.apply < n ∧ ctx.train < n ∧ ctx.label < n) :
    FragOk ctx n ⟨fa.nodes ++ fb.nodes ++ [⟨fb.next, fb.next, m, false, false⟩, ⟨fb.next + 2, fb.next, m, false, false⟩],
      fa.applyEdges ++ [(fa.applyTail, fb.next)] ++ fb.applyEdges ++ [(fb.applyTail, fb.next)],
      fa.trainEdges ++ [(fa.trainTail, fb.next + 2)] ++ fb.trainEdges ++ [(fb.trainTail, fb.next + 2)],
      fa.labelEdges ++ fb.labelEdges, fb.next, fb.next + 2, ctx.label, fb.next + 4⟩ := by
  have hlt1 := ha.lt
  have hlt2 := hb.lt
  have hn4 := hb.next4
  have htaa := ha.ta
  have htab := hb.ta
  have htta := ha.tt
  have httb := hb.tt
  obtain ⟨hca, hct, hcl⟩ := hc
  have mem3 : ∀ {α : Type} {a b c : List α} {x : α}, x ∈ a ++ b ++ c → x ∈ a ∨ x ∈ b ∨ x ∈ c := by
    intro α a b c x h
    rcases List.mem_append.mp h with h | h
    · rcases List.mem_append.mp h with h | h
      · exact Or.inl h
      · exact Or.inr (Or.inl h)
    · exact Or.inr (Or.inr h)
  have mem4 : ∀ {α : Type} {a b : List α} {p q x : α}, x ∈ a ++ [p] ++ b ++ [q] → x ∈ a ∨ x ∈ b ∨ x = p ∨ x = q := by
    intro α a b p q x h
    simp only [List.mem_append, List.mem_cons, List.mem_nil_iff, or_false] at h
    rcases h with ((h | h) | h) | h
    · exact Or.inl h
    · exact Or.inr (Or.inr (Or.inl h))
    · exact Or.inr (Or.inl h)
    · exact Or.inr (Or.inr (Or.inr h))
  have pTail : TPath (fa.trainEdges ++ [(fa.trainTail, fb.next + 2)] ++ fb.trainEdges ++ [(fb.trainTail, fb.next + 2)])
      ctx.train (fb.next + 2) :=
    TPath.step (ha.pathTail.mono (fun e he => by simp [he])) (by simp)
  constructor <;> dsimp only
  · omega
  · omega
  · intro x hx
    rcases mem3 hx with h | h | h
    · have := ha.range x h; omega
    · have := hb.range x h; omega
    · simp only [List.mem_cons, List.mem_nil_iff, or_false] at h
      rcases h with rfl | rfl <;> dsimp only <;> omega
  · intro x hx
    rcases mem3 hx with h | h | h
    · exact ha.kind x h
    · exact hb.kind x h
    · simp only [List.mem_cons, List.mem_nil_iff, or_false] at h
      rcases h with rfl | rfl <;> refine ⟨?_, ?_⟩ <;> arith
  · intro x hx y hy hxy
    rcases mem3 hx with h1 | h1 | h1 <;> rcases mem3 hy with h2 | h2 | h2
    · exact ha.uniq x h1 y h2 hxy
    · have := ha.range x h1; have := hb.range y h2; omega
    · have := ha.range x h1
      simp only [List.mem_cons, List.mem_nil_iff, or_false] at h2
      rcases h2 with rfl | rfl <;> dsimp only at hxy <;> omega
    · have := hb.range x h1; have := ha.range y h2; omega
    · exact hb.uniq x h1 y h2 hxy
    · have := hb.range x h1
      simp only [List.mem_cons, List.mem_nil_iff, or_false] at h2
      rcases h2 with rfl | rfl <;> dsimp only at hxy <;> omega
    · have := ha.range y h2
      simp only [List.mem_cons, List.mem_nil_iff, or_false] at h1
      rcases h1 with rfl | rfl <;> dsimp only at hxy <;> omega
    · have := hb.range y h2
      simp only [List.mem_cons, List.mem_nil_iff, or_false] at h1
      rcases h1 with rfl | rfl <;> dsimp only at hxy <;> omega
    · simp only [List.mem_cons, List.mem_nil_iff, or_false] at h1 h2
      rcases h1 with rfl | rfl <;> rcases h2 with rfl | rfl <;> dsimp only at hxy <;> first | rfl | omega
  · intro x hx y hy hxy
    rcases mem3 hx with h1 | h1 | h1 <;> rcases mem3 hy with h2 | h2 | h2
    · exact ha.tags x h1 y h2 hxy
    · have := ha.range x h1; have := hb.range y h2; omega
    · have := ha.range x h1
      simp only [List.mem_cons, List.mem_nil_iff, or_false] at h2
      rcases h2 with rfl | rfl <;> dsimp only at hxy <;> omega
    · have := hb.range x h1; have := ha.range y h2; omega
    · exact hb.tags x h1 y h2 hxy
    · have := hb.range x h1
      simp only [List.mem_cons, List.mem_nil_iff, or_false] at h2
      rcases h2 with rfl | rfl <;> dsimp only at hxy <;> omega
    · have := ha.range y h2
      simp only [List.mem_cons, List.mem_nil_iff, or_false] at h1
      rcases h1 with rfl | rfl <;> dsimp only at hxy <;> omega
    · have := hb.range y h2
      simp only [List.mem_cons, List.mem_nil_iff, or_false] at h1
      rcases h1 with rfl | rfl <;> dsimp only at hxy <;> omega
    · simp only [List.mem_cons, List.mem_nil_iff, or_false] at h1 h2
      rcases h1 with rfl | rfl <;> rcases h2 with rfl | rfl <;> rfl
  · intro x hx hs
    rcases mem3 hx with h | h | h
    · obtain ⟨t, ht, h1, h2⟩ := ha.trainer x h hs
      exact ⟨t, by simp [ht], h1, h2⟩
    · obtain ⟨t, ht, h1, h2⟩ := hb.trainer x h hs
      exact ⟨t, by simp [ht], h1, h2⟩
    · simp only [List.mem_cons, List.mem_nil_iff, or_false] at h
      rcases h with rfl | rfl <;> simp at hs
  · intro e he
    rcases mem4 he with h | h | h | h
    · have := ha.ea e h
      refine ⟨by omega, by omega, by omega, by omega⟩
    · have := hb.ea e h
      refine ⟨by omega, by omega, by omega, by omega⟩
    · subst h; dsimp only; refine ⟨?_, ?_, ?_, ?_⟩ <;> omega
    · subst h; dsimp only; refine ⟨?_, ?_, ?_, ?_⟩ <;> omega
  · intro e he
    rcases mem4 he with h | h | h | h
    · have := ha.et e h
      refine ⟨by omega, by omega, by omega, by omega, ?_⟩
      intro h1
      omega
    · have := hb.et e h
      refine ⟨by omega, by omega, by omega, by omega, ?_⟩
      intro h1
      omega
    · subst h; dsimp only; refine ⟨?_, ?_, ?_, ?_, ?_⟩ <;> arith
    · subst h; dsimp only; refine ⟨?_, ?_, ?_, ?_, ?_⟩ <;> arith
  · intro e he
    rcases List.mem_append.mp he with h | h
    · have := ha.el e h
      refine ⟨by omega, by omega, by omega, by omega⟩
    · have := hb.el e h
      refine ⟨by omega, by omega, by omega, by omega⟩
  · exact Or.inr (by omega)
  · exact Or.inr (by omega)
  · exact Or.inl rfl
  · intro x hx h3
    rcases mem3 hx with h | h | h
    · exact (ha.path x h h3).mono (fun e he => by simp [he])
    · exact (hb.path x h h3).mono (fun e he => by simp [he])
    · simp only [List.mem_cons, List.mem_nil_iff, or_false] at h
      rcases h with rfl | rfl
      · exfalso; dsimp only at h3; omega
      · exact pTail
  · exact pTail
  · intro e he h4
    rcases mem4 he with h | h | h | h
    · obtain ⟨x, hx, h1, h2⟩ := ha.tnode e h h4
      exact ⟨x, by simp [hx], h1, h2⟩
    · obtain ⟨x, hx, h1, h2⟩ := hb.tnode e h h4
      exact ⟨x, by simp [hx], h1, h2⟩
    · subst h; exfalso; dsimp only at h4; omega
    · subst h; exfalso; dsimp only at h4; omega

/-- every expansion satisfies the invariant -/
theorem expand_ok : ∀ (e : PExpr) (ctx : Ctx) (n : Nat), n % 4 = 0 → (ctx.apply < n ∧ ctx.train < n ∧ ctx.label < n) →
    FragOk ctx n (expand e ctx n)
  | .mapper tag true, ctx, n, hn, hc => expand_mapper_true_ok tag ctx n hn hc
  | .mapper tag false, ctx, n, hn, hc => expand_mapper_false_ok tag ctx n hn hc
  | .applyOnly tag true, ctx, n, hn, hc => expand_applyOnly_true_ok tag ctx n hn hc
  | .applyOnly tag false, ctx, n, hn, hc => expand_applyOnly_false_ok tag ctx n hn hc
  | .trainOnly tag true, ctx, n, hn, hc => expand_trainOnly_true_ok tag ctx n hn hc
  | .trainOnly tag false, ctx, n, hn, hc => expand_trainOnly_false_ok tag ctx n hn hc
  | .labelOp tag true, ctx, n, hn, hc => expand_labelOp_true_ok tag ctx n hn hc
  | .labelOp tag false, ctx, n, hn, hc => expand_labelOp_false_ok tag ctx n hn hc
  | .seq a b, ctx, n, hn, hc => by
    have ha := expand_ok a ctx n hn hc
    have hb := expand_ok b ⟨(expand a ctx n).applyTail, (expand a ctx n).trainTail, (expand a ctx n).labelTail⟩
      (expand a ctx n).next ha.next4 (by
        have h1 := ha.ta; have h2 := ha.tt; have h3 := ha.tl; have h4 := ha.lt
        dsimp only
        omega)
    exact seq_ok ha hb hc
  | .par a b m, ctx, n, hn, hc => by
    have ha := expand_ok a ctx n hn hc
    have hb := expand_ok b ctx (expand a ctx n).next ha.next4 (by have := ha.lt; omega)
    exact par_ok m ha hb hc

end ForML.Persist
