/-
C12 — helper lemmas for the apply-mode clause: a row-aligned actor's output row at position `i` carries the dependencies
of the rows at position `i` of *all* its arguments (lower bound; the upper bounds are in ForML/Lemmas/C12.lean).
-/
import ForML.Lemmas.C12

namespace ForML.CrossVal

theorem getElem?_hzip2 (d e : Data) (i : Nat) :
    (hzip2 d e)[i]? = match d[i]?, e[i]? with
      | some r, some s => some { r with deps := union r.deps s.deps }
      | some r, none => some r
      | none, _ => none := by
  induction d generalizing e i with
  | nil => cases e <;> simp [hzip2]
  | cons r d ih =>
    cases e with
    | nil =>
      simp only [hzip2]
      cases h : (r :: d)[i]? <;> simp
    | cons s e =>
      cases i with
      | zero => simp [hzip2]
      | succ i => simpa [hzip2] using ih e i

/-- the row at position `i` of `ds.foldl hzip2 d` is the row at position `i` of `d` with more dependencies: at least those
of the rows at position `i` of every `e ∈ ds` -/
theorem foldl_hzip2_sup {d : Data} {ds : List Data} {i : Nat} {r : Row} (h : (ds.foldl hzip2 d)[i]? = some r) :
    (∃ q, d[i]? = some q ∧ q.key = r.key ∧ ∀ x ∈ q.deps, x ∈ r.deps) ∧
    ∀ e ∈ ds, ∀ q, e[i]? = some q → ∀ x ∈ q.deps, x ∈ r.deps := by
  induction ds generalizing d with
  | nil => exact ⟨⟨r, by simpa using h, rfl, fun _ hx => hx⟩, fun e he => by cases he⟩
  | cons e ds ih =>
    rw [List.foldl_cons] at h
    obtain ⟨⟨q, hq, hk, hsub⟩, hrest⟩ := ih h
    rw [getElem?_hzip2] at hq
    cases hd : d[i]? with
    | none => rw [hd] at hq; cases hq
    | some q0 =>
      rw [hd] at hq
      cases he : e[i]? with
      | none =>
        rw [he] at hq
        cases hq
        refine ⟨⟨q, rfl, hk, hsub⟩, ?_⟩
        intro e' he' q' hq'
        rcases List.mem_cons.mp he' with rfl | he'
        · rw [he] at hq'; cases hq'
        · exact hrest e' he' q' hq'
      | some s =>
        rw [he] at hq
        cases hq
        refine ⟨⟨q0, rfl, hk, fun x hx => hsub x (mem_union.mpr (.inl hx))⟩, ?_⟩
        intro e' he' q' hq'
        rcases List.mem_cons.mp he' with rfl | he'
        · rw [he] at hq'; cases hq'
          exact fun x hx => hsub x (mem_union.mpr (.inr hx))
        · exact hrest e' he' q' hq'

/-- every row of a row-aligned actor's output stems from a position `i` (at which the first argument has a row): it carries
the dependencies of the rows at position `i` of all arguments, and of the actor's state -/
theorem hzip_sup {sn : List Atom} {ds : List Data} {r : Row} (h : r ∈ hzip sn ds) :
    (∀ z ∈ sn, z ∈ r.deps) ∧
    ∃ i : Nat, (∃ d ∈ ds, ∃ q0 : Row, d[i]? = some q0) ∧
      ∀ e ∈ ds, ∀ q : Row, e[i]? = some q → ∀ x ∈ q.deps, x ∈ r.deps := by
  cases ds with
  | nil => simp [hzip] at h
  | cons d ds =>
    simp only [hzip, List.mem_map] at h
    obtain ⟨r0, hr0, rfl⟩ := h
    obtain ⟨i, hi⟩ := List.getElem?_of_mem hr0
    obtain ⟨⟨q, hq, _, hsub⟩, hrest⟩ := foldl_hzip2_sup hi
    refine ⟨fun z hz => mem_union.mpr (.inr hz), ⟨i, ⟨d, List.mem_cons_self, q, hq⟩, ?_⟩⟩
    intro e he q' hq' x hx
    refine mem_union.mpr (.inl ?_)
    rcases List.mem_cons.mp he with rfl | he
    · rw [hq] at hq'; cases hq'; exact hsub x hx
    · exact hrest e he q' hq' x hx

/-- a stateful one-argument actor maps its input row by row; each output row depends on everything its state has seen -/
theorem rows_applied_stateful (E : Env) (a : Actor) (st x : Val) :
    rows E (applied a st x) = (rows E x).map fun r => { r with deps := union r.deps (seen E st) } := by
  simp [applied, rows_apply, hzip]

end ForML.CrossVal
