/-
C01 — **the compiler model produces exactly the table the segment denotes** (`compile_denotes`): for every
well-formed segment, compatible asset accessor, and *every* visit order covering the members once.
-/
import ForML.Lemmas.C01Emit

namespace ForML.Flow
open CState Segment

theorem nodup_filterMap_ids {α : Type} (l : List α) (f : α → Key) (E : α → Option Symbol)
    (hE : ∀ x ∈ l, ∀ y, E x = some y → y.id = f x) (hnd : (l.map f).Nodup) : ((l.filterMap E).map (·.id)).Nodup := by
  induction l with
  | nil => simp
  | cons x r ih =>
    simp only [List.map_cons, List.nodup_cons] at hnd
    have ih := ih (fun x' hx' => hE x' (List.mem_cons_of_mem _ hx')) hnd.2
    simp only [List.filterMap_cons]
    cases hx : E x with
    | none => exact ih
    | some y =>
      simp only [List.map_cons, List.nodup_cons]
      refine ⟨?_, ih⟩
      intro hmem
      simp only [List.mem_map, List.mem_filterMap] at hmem
      obtain ⟨y', ⟨x', hx', hE'⟩, hid⟩ := hmem
      apply hnd.1
      rw [← hE x List.mem_cons_self y hx, ← hid, hE x' (List.mem_cons_of_mem _ hx') y' hE']
      exact List.mem_map.mpr ⟨x', hx', rfl⟩

section
variable {g : Segment} {A : Option Assets} {rank : Uid → Nat} {order : List Uid} {s : CState}

theorem symOf_functor (h : WF g rank) {w : Worker} (hw : w ∈ g.workers) : symOf g A (functorObj g A w) = g.functorSym A w := by
  simp [symOf, functorObj, worker?_of_mem h.nodup hw]

theorem symOf_id_of_form (hf : Final g A order s) (h : WF g rank) (hA : AssetsOK g A) (ho : OrderOK g order) {o : Obj}
    (hform : ObjForm g A o) : (symOf g A o).id = o.id := (hf.obj_args h hA ho hform).2.1

/-- the emitted table -/
def emitted (g : Segment) (A : Option Assets) (s : CState) : Table :=
  (groupRuns s.index).filterMap (fun grp => if (stubsOf s).contains grp.1.id then none else some (symOf g A grp.1))

theorem Final.mem_emitted (hf : Final g A order s) (h : WF g rank) {s' : Symbol} :
    s' ∈ emitted g A s ↔ ∃ k o, aget k s.index = some o ∧ (stubsOf s).contains o.id = false ∧ s' = symOf g A o := by
  have hfun := hf.functionalIds h
  simp only [emitted, List.mem_filterMap]
  constructor
  · rintro ⟨⟨o, ks⟩, hg, hE⟩
    obtain ⟨hne, hmem⟩ := groupRuns_sound s.index hfun (o, ks) hg
    obtain ⟨k, hk⟩ := List.exists_mem_of_ne_nil _ hne
    simp only at hE
    split at hE
    · cases hE
    · rename_i hst
      cases hE
      exact ⟨k, o, aget_of_mem_nodup hf.idx.keys (hmem k hk), by simpa using hst, rfl⟩
  · rintro ⟨k, o, hko, hst, rfl⟩
    obtain ⟨ks, hg, _⟩ := groupRuns_complete s.index hfun (k, o) (mem_of_aget hko)
    exact ⟨(o, ks), hg, by simp only [hst]; rfl⟩

theorem Final.emitted_denotes (hf : Final g A order s) (h : WF g rank) (hA : AssetsOK g A) (ho : OrderOK g order) :
    Denotes g A (emitted g A s) := by
  intro s'
  rw [hf.mem_emitted h]
  constructor
  · rintro ⟨k, o, hko, hst, rfl⟩
    have hform := hf.obj_form hko
    have hnst : ¬ (stubsOf s).contains o.id = true := by rw [hst]; simp
    rw [hf.stub_iff h ho hform] at hnst
    apply mem_specTable.mpr
    cases hform with
    | functor w hw => left; exact ⟨w, hw, symOf_functor h hw⟩
    | loader γ w hw hg hP =>
      subst hg
      have := loaderSym_mem (g := g) hw hP
      exact mem_specTable.mp this
    | getter w i hw htr hne hi =>
      right; left
      refine ⟨w, hw, mem_getterSyms.mpr ⟨htr, hne, i, hi, ?_, rfl⟩⟩
      intro hnil
      exact hnst ⟨w, i, hw, htr, hne, hi, rfl, hnil⟩
    | dumper w hw hT hP =>
      right; right; right; left
      exact mem_dumperSyms.mpr ⟨w, hw, hT, hP, rfl⟩
    | committer w hw hT hP =>
      right; right; right; right
      obtain ⟨_, As, hAs, _⟩ := persistentW_true hP
      refine mem_committerSyms.mpr ⟨As, hAs, ⟨w, hw, hT, hP⟩, ?_⟩
      simp [symOf, committerObj, hAs]
  · intro hs'
    have notstub : ∀ o : Obj, (∀ n i, o.id ≠ Key.getter n i) → ObjForm g A o → (stubsOf s).contains o.id = false := by
      intro o hid hform
      cases hc : (stubsOf s).contains o.id with
      | false => rfl
      | true =>
        obtain ⟨w, i, _, _, _, _, rfl, _⟩ := (hf.stub_iff h ho hform).mp hc
        exact absurd rfl (hid w.uid i)
    rcases mem_specTable.mp hs' with ⟨w, hw, rfl⟩ | ⟨w, hw, hgs⟩ | hls | hds | hcs
    · have hko := hf.idx.c_uid w hw (ho.all w hw)
      exact ⟨_, _, hko, notstub _ (by simp [functorObj]) (.functor w hw), (symOf_functor h hw).symm⟩
    · obtain ⟨htr, hne, i, hi, hsub, rfl⟩ := mem_getterSyms.mp hgs
      have hko := hf.idx.c_getter w hw (ho.all w hw) htr hne i hi
      refine ⟨_, _, hko, ?_, rfl⟩
      cases hc : (stubsOf s).contains (getterObj w.uid i).id with
      | false => rfl
      | true =>
        obtain ⟨w', i', _, _, _, _, heq, hnil⟩ := (hf.stub_iff h ho (.getter w i hw htr hne hi)).mp hc
        simp only [getterObj, Obj.mk.injEq, Key.getter.injEq] at heq
        rw [← heq.1.1, ← heq.1.2] at hnil
        exact absurd hnil hsub
    · obtain ⟨As, γ, hAs, hγ, ⟨w, hw, hst, hg⟩, rfl⟩ := mem_loaderSyms.mp hls
      have hP : persistentW A w = true := by
        subst hAs
        simp only [persistentW, hst, Bool.true_and, Assets.contains, hg]
        exact (indexOf_isSome_iff γ _).mpr hγ
      have hform : ObjForm g A (loaderObj γ) := .loader γ w hw hg hP
      cases htO : g.trainerOf γ with
      | some t =>
        obtain ⟨htm, hTt, hPt⟩ := persistent_trainer h hAs hγ htO
        have hko := (hf.idx.c_pt t htm (ho.all t htm) hTt hPt).1
        rw [(trainerOf_some htO).2.1] at hko
        exact ⟨_, _, hko, notstub _ (by simp) hform, rfl⟩
      | none =>
        have hno : ∀ t ∈ g.workers, t.gid = w.gid → g.isTrainer t = true → t.uid ∉ order := by
          intro t ht hgt hTt _
          have := trainerOf_none htO t ht (hgt.trans hg)
          simp only [isTrainer, Bool.and_eq_true] at hTt
          rw [hTt.2] at this; cases this
        have hko := hf.idx.c_gidL w hw (ho.all w hw) hP hno
        rw [hg] at hko
        exact ⟨_, _, hko, notstub _ (by simp) hform, rfl⟩
    · obtain ⟨w, hw, hT, hP, rfl⟩ := mem_dumperSyms.mp hds
      have hko := (hf.idx.c_pt w hw (ho.all w hw) hT hP).2.1
      exact ⟨_, _, hko, notstub _ (by simp) (.dumper w hw hT hP), rfl⟩
    · obtain ⟨As, hAs, ⟨w, hw, hT, hP⟩, rfl⟩ := mem_committerSyms.mp hcs
      have hko := (hf.idx.c_pt w hw (ho.all w hw) hT hP).2.2
      exact ⟨_, _, hko, notstub _ (by simp) (.committer w hw hT hP), by simp [symOf, committerObj, hAs]⟩

theorem Final.emitted_nodup (hf : Final g A order s) (h : WF g rank) (hA : AssetsOK g A) (ho : OrderOK g order) :
    ((emitted g A s).map (·.id)).Nodup := by
  have hfun := hf.functionalIds h
  apply nodup_filterMap_ids _ (fun grp : Obj × List Key => grp.1.id) _ _ (groupRuns_nodup s.index hf.idx.contig)
  intro grp hgrp y hE
  obtain ⟨o, ks⟩ := grp
  obtain ⟨hne, hmem⟩ := groupRuns_sound s.index hfun (o, ks) hgrp
  obtain ⟨k, hk⟩ := List.exists_mem_of_ne_nil _ hne
  have hform := hf.obj_form (aget_of_mem_nodup hf.idx.keys (hmem k hk))
  simp only at hE
  split at hE
  · cases hE
  · cases hE
    exact symOf_id_of_form hf h hA ho hform

end

end ForML.Flow
