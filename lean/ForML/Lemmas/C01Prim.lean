/-
C01 — effect of the compiler model's primitives (`Index.set/reset`, `Linkage.insert/prepend/update`) on the
four components of the state, one component at a time.
-/
import ForML.Lemmas.C01Assoc
import ForML.Lemmas.C01Wf

namespace ForML.Flow
namespace CState

/-! observations -/

/-- `Index` lookup -/
def ix (s : CState) (k : Key) : Option Obj := aget k s.index
/-- `Linkage._absolute[k]` -/
def ab (s : CState) (k : Key) : List (Option Key) := (aget k s.absolute).getD []
/-- `Linkage._prefixed[k]` -/
def pf (s : CState) (k : Key) : List Key := (aget k s.prefixed).getD []

theorem link_eq (s : CState) (k : Key) : s.link k = (s.pf k).reverse.map some ++ s.ab k := rfl

/-! ### raise -/

@[simp] theorem raise_index (s : CState) (e : CErr) : (s.raise e).index = s.index := by
  unfold raise; split <;> rfl
@[simp] theorem raise_absolute (s : CState) (e : CErr) : (s.raise e).absolute = s.absolute := by
  unfold raise; split <;> rfl
@[simp] theorem raise_prefixed (s : CState) (e : CErr) : (s.raise e).prefixed = s.prefixed := by
  unfold raise; split <;> rfl
@[simp] theorem raise_committer (s : CState) (e : CErr) : (s.raise e).committer = s.committer := by
  unfold raise; split <;> rfl

/-! ### iset -/

@[simp] theorem iset_absolute (s : CState) (o : Obj) (k : Key) : (s.iset o k).absolute = s.absolute := by
  unfold iset; split <;> simp
@[simp] theorem iset_prefixed (s : CState) (o : Obj) (k : Key) : (s.iset o k).prefixed = s.prefixed := by
  unfold iset; split <;> simp
@[simp] theorem iset_committer (s : CState) (o : Obj) (k : Key) : (s.iset o k).committer = s.committer := by
  unfold iset; split <;> simp

theorem iset_fresh {s : CState} {o : Obj} {k : Key} (h : s.ix k = none) :
    (s.iset o k).index = s.index ++ [(k, o)] ∧ (s.iset o k).fail = s.fail := by
  unfold ix at h
  unfold iset
  simp [h]

/-! ### ireset -/

@[simp] theorem ireset_absolute (s : CState) (a b : Key) : (s.ireset a b).absolute = s.absolute := by
  unfold ireset; split <;> simp
@[simp] theorem ireset_prefixed (s : CState) (a b : Key) : (s.ireset a b).prefixed = s.prefixed := by
  unfold ireset; split <;> simp
@[simp] theorem ireset_committer (s : CState) (a b : Key) : (s.ireset a b).committer = s.committer := by
  unfold ireset; split <;> simp

theorem ireset_ok {s : CState} {orig new : Key} {o : Obj} (h : s.ix orig = some o)
    (hnew : aget new (adel orig s.index) = none) :
    (s.ireset orig new).index = adel orig s.index ++ [(new, o)] ∧ (s.ireset orig new).fail = s.fail := by
  unfold ix at h
  unfold ireset
  simp only [h]
  unfold iset
  simp [hnew]

/-! ### linsert -/

@[simp] theorem linsert_index (s : CState) (k a : Key) (i : Option Nat) : (s.linsert k a i).index = s.index := by
  unfold linsert; simp only; split <;> split <;> (try split) <;> simp
@[simp] theorem linsert_prefixed (s : CState) (k a : Key) (i : Option Nat) : (s.linsert k a i).prefixed = s.prefixed := by
  unfold linsert; simp only; split <;> split <;> (try split) <;> simp
@[simp] theorem linsert_committer (s : CState) (k a : Key) (i : Option Nat) : (s.linsert k a i).committer = s.committer := by
  unfold linsert; simp only; split <;> split <;> (try split) <;> simp

theorem linsert_absolute (s : CState) (k a : Key) (i : Option Nat) :
    (s.linsert k a i).absolute = aset k (putAt (s.ab k) (i.getD 0) a) s.absolute := by
  unfold linsert ab; simp only; split <;> split <;> (try split) <;> simp

theorem linsert_fail {s : CState} {k a : Key} {i : Option Nat} (hlen : i = none → (s.ab k).length ≤ 1)
    (hfree : (s.ab k).getD (i.getD 0) none = none) : (s.linsert k a i).fail = s.fail := by
  unfold ab at hlen hfree
  unfold linsert
  simp only
  cases i with
  | none =>
    have := hlen rfl
    simp only [Option.getD_none, List.getD_eq_getElem?_getD] at hfree
    simp [this, hfree]
  | some j =>
    simp only [Option.getD_some, List.getD_eq_getElem?_getD] at hfree
    simp [hfree]

/-! ### prepend -/

@[simp] theorem prepend_index (s : CState) (k a : Key) : (s.prepend k a).index = s.index := rfl
@[simp] theorem prepend_absolute (s : CState) (k a : Key) : (s.prepend k a).absolute = s.absolute := rfl
@[simp] theorem prepend_committer (s : CState) (k a : Key) : (s.prepend k a).committer = s.committer := rfl
@[simp] theorem prepend_fail (s : CState) (k a : Key) : (s.prepend k a).fail = s.fail := rfl
theorem prepend_prefixed (s : CState) (k a : Key) :
    (s.prepend k a).prefixed = aset k (s.pf k ++ [a]) s.prefixed := rfl

end CState
end ForML.Flow
