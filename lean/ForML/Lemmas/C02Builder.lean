/-
C02 helper lemmas: actor builders (`Model/Builder.lean`).

  * binding: an explicitly passed keyword argument is the value the actor is built with - whatever the value (`None`,
    falsy, equal to the default or not); a parameter that is not passed takes the constructor default; positional
    arguments go to the leading parameters;
  * pickling: `Spec.__getnewargs_ex__` / `Spec.__new__` rebuild every accepted builder exactly (`roundtrip`), hence a
    shipped table is the table (`PTable.ship`), hence the `processes` scheduler executes what the in-process
    schedulers execute;
  * the coding of instances used by the driver is injective on the known instances.
-/
import ForML.Model.Builder

namespace ForML.Flow

/-! ### `mapOpt` -/

theorem mapOpt_id {f : α → Option α} : ∀ {l : List α}, (∀ x ∈ l, f x = some x) → mapOpt f l = some l
  | [], _ => rfl
  | x :: r, h => by
    have hx := h x (List.mem_cons_self ..)
    have hr := mapOpt_id (f := f) (l := r) (fun y hy => h y (List.mem_cons_of_mem _ hy))
    simp [mapOpt, hx, hr]

theorem mapOpt_length {f : α → Option β} : ∀ {l : List α} {l' : List β}, mapOpt f l = some l' → l'.length = l.length
  | [], l', h => by simp only [mapOpt] at h; cases h; rfl
  | x :: r, l', h => by
    simp only [mapOpt] at h
    split at h
    · cases h
    · split at h
      · cases h
      · rename_i ys hys
        cases h
        simp [mapOpt_length hys]

theorem mapOpt_mem {f : α → Option β} : ∀ {l : List α} {l' : List β}, mapOpt f l = some l' →
    ∀ y ∈ l', ∃ x ∈ l, f x = some y
  | [], l', h, y, hy => by simp only [mapOpt] at h; cases h; cases hy
  | x :: r, l', h, y, hy => by
    simp only [mapOpt] at h
    split at h
    · cases h
    · rename_i y0 hy0
      split at h
      · cases h
      · rename_i ys hys
        cases h
        rcases List.mem_cons.1 hy with rfl | hy
        · exact ⟨x, List.mem_cons_self .., hy0⟩
        · obtain ⟨x', hx', hf⟩ := mapOpt_mem hys y hy
          exact ⟨x', List.mem_cons_of_mem _ hx', hf⟩

/-! ### pickling -/

theorem newArgValues_map : ∀ l : List Hyper, newArgValues (l.map .value) = some l
  | [] => rfl
  | v :: r => by simp [newArgValues, newArgValues_map r]

/-- `pickle.loads(pickle.dumps(spec))` is `spec` for every builder that `Spec.__new__` accepts (and raises for the
others, which cannot exist) -/
theorem Spec.roundtrip_eq (s : Spec) : s.roundtrip = if s.valid then some s else none := by
  cases s with
  | mk c a k =>
    simp only [Spec.roundtrip, Spec.getnewargsEx, Spec.newobjEx, newArgValues_map, Spec.new, Spec.valid]
    rfl

theorem Spec.roundtrip_valid {s : Spec} (h : s.valid = true) : s.roundtrip = some s := by
  rw [Spec.roundtrip_eq, if_pos h]

theorem Spec.new_spec {c : ActorClass} {a : List Hyper} {k : Kwargs} {s : Spec} (h : Spec.new c a k = some s) :
    s = ⟨c, a, k⟩ ∧ s.valid = true := by
  unfold Spec.new at h
  split at h
  · rename_i hv
    cases h
    exact ⟨rfl, hv⟩
  · cases h

theorem PInstr.ship_valid {i : PInstr} (h : i.valid = true) : i.ship = some i := by
  cases i with
  | functor b act ps =>
    simp only [PInstr.valid] at h
    simp [PInstr.ship, Spec.roundtrip_valid h]
  | loader g => rfl
  | dumper => rfl
  | committer => rfl
  | getter i => rfl

theorem PSymbol.ship_valid {s : PSymbol} (h : s.instr.valid = true) : s.ship = some s := by
  simp [PSymbol.ship, PInstr.ship_valid h]

/-- a table of accepted builders survives the process boundary unchanged -/
theorem PTable.ship_valid {T : PTable} (h : T.valid = true) : T.ship = some T := by
  simp only [PTable.valid, List.all_eq_true] at h
  exact mapOpt_id (fun s hs => PSymbol.ship_valid (h s hs))

theorem runDaskProcesses_eq (code : Instance → Actor) (A : Option Assets) {T : PTable} (h : T.valid = true) :
    runDaskProcesses code A T = runDaskLocal code A T := by
  simp [runDaskProcesses, PTable.ship_valid h]

/-! ### binding -/

theorem Kwargs.get_of_mem : ∀ {kw : Kwargs} {n : Nat} {v : Hyper}, dupNames kw = false → (n, v) ∈ kw →
    kw.get n = some v
  | [], _, _, _, h => by cases h
  | (m, w) :: r, n, v, hd, h => by
    simp only [dupNames, Bool.or_eq_false_iff] at hd
    rcases List.mem_cons.1 h with h | h
    · cases h; simp [Kwargs.get]
    · by_cases hmn : m = n
      · subst hmn
        have : r.any (fun e => e.1 = m) = true := by
          simp only [List.any_eq_true, decide_eq_true_eq]
          exact ⟨(m, v), h, rfl⟩
        rw [this] at hd
        cases hd.1
      · simp only [Kwargs.get, hmn, if_false]
        exact Kwargs.get_of_mem hd.2 h

theorem fillRest_mem : ∀ {kw : Kwargs} {ps : List Param} {r : List (Nat × Hyper)}, fillRest kw ps = some r →
    ∀ p ∈ ps, ∃ v, (p.name, v) ∈ r ∧ (match kw.get p.name with | some w => some w | none => p.default) = some v
  | kw, [], r, h, p, hp => by cases hp
  | kw, q :: ps, r, h, p, hp => by
    simp only [fillRest] at h
    split at h
    · cases h
    · rename_i v hv
      split at h
      · cases h
      · rename_i r' hr'
        cases h
        rcases List.mem_cons.1 hp with rfl | hp
        · exact ⟨v, List.mem_cons_self .., hv⟩
        · obtain ⟨w, hw, hw'⟩ := fillRest_mem hr' p hp
          exact ⟨w, List.mem_cons_of_mem _ hw, hw'⟩

/-- **an explicit keyword argument is bound as given**: if the actor can be built at all, every `name=value` of the
builder is part of the instance - also `value = None`, a falsy value, or the constructor default itself -/
theorem bindCall_kw {sig : List Param} {args : List Hyper} {kw : Kwargs} {ps : List (Nat × Hyper)}
    (h : bindCall sig args kw = some ps) {n : Nat} {v : Hyper} (hm : (n, v) ∈ kw) : (n, v) ∈ ps := by
  unfold bindCall at h
  split at h
  · cases h
  · rename_i b rest hb
    split at h
    · rename_i hk
      split at h
      · cases h
      · rename_i r hr
        cases h
        simp only [kwOk, Bool.and_eq_true, List.all_eq_true, List.any_eq_true, decide_eq_true_eq,
          Bool.not_eq_eq_eq_not, Bool.not_true] at hk
        obtain ⟨p, hp, hpn⟩ := hk.1 (n, v) hm
        obtain ⟨w, hw, hw'⟩ := fillRest_mem hr p hp
        have hg : kw.get p.name = some v := by rw [hpn]; exact Kwargs.get_of_mem hk.2 hm
        rw [hg] at hw'
        cases hw'
        rw [hpn] at hw
        exact List.mem_append_right _ hw
    · cases h

/-- a parameter left over by the positional arguments that no keyword names takes its constructor default -/
theorem bindCall_default {sig : List Param} {args : List Hyper} {kw : Kwargs} {ps : List (Nat × Hyper)}
    (h : bindCall sig args kw = some ps) {b : List (Nat × Hyper)} {rest : List Param}
    (hb : bindPos sig args = some (b, rest)) {p : Param} (hp : p ∈ rest) (hk : kw.get p.name = none) :
    ∃ d, p.default = some d ∧ (p.name, d) ∈ ps := by
  unfold bindCall at h
  rw [hb] at h
  simp only at h
  split at h
  · split at h
    · cases h
    · rename_i r hr
      cases h
      obtain ⟨w, hw, hw'⟩ := fillRest_mem hr p hp
      rw [hk] at hw'
      exact ⟨w, hw', List.mem_append_right _ hw⟩
  · cases h

/-- positional arguments are bound to the leading parameters in order -/
theorem bindPos_spec : ∀ {sig : List Param} {args : List Hyper} {b : List (Nat × Hyper)} {rest : List Param},
    bindPos sig args = some (b, rest) →
      b = List.zip ((sig.take args.length).map (·.name)) args ∧ rest = sig.drop args.length ∧
        args.length ≤ sig.length
  | sig, [], b, rest, h => by simp only [bindPos] at h; cases h; simp
  | [], _ :: _, b, rest, h => by simp [bindPos] at h
  | p :: ps, v :: vs, b, rest, h => by
    simp only [bindPos] at h
    split at h
    · cases h
    · split at h
      · cases h
      · rename_i b' r' hb'
        cases h
        obtain ⟨h1, h2, h3⟩ := bindPos_spec hb'
        subst h1 h2
        simp
        omega

/-- the instance of a builder lists every parameter of the class exactly once, in signature order -/
theorem fillRest_names : ∀ {kw : Kwargs} {ps : List Param} {r : List (Nat × Hyper)}, fillRest kw ps = some r →
    r.map (·.1) = ps.map (·.name)
  | kw, [], r, h => by simp only [fillRest] at h; cases h; rfl
  | kw, q :: ps, r, h => by
    simp only [fillRest] at h
    split at h
    · cases h
    · split at h
      · cases h
      · rename_i r' hr'
        cases h
        simp [fillRest_names hr']

theorem bindCall_names {sig : List Param} {args : List Hyper} {kw : Kwargs} {ps : List (Nat × Hyper)}
    (h : bindCall sig args kw = some ps) : ps.map (·.1) = sig.map (·.name) := by
  unfold bindCall at h
  split at h
  · cases h
  · rename_i b rest hb
    split at h
    · split at h
      · cases h
      · rename_i r hr
        cases h
        obtain ⟨h1, h2, h3⟩ := bindPos_spec hb
        subst h1 h2
        rw [List.map_append, fillRest_names hr, List.map_fst_zip (by simp; omega), ← List.map_append,
          List.take_append_drop]
    · cases h

/-! ### coding of instances -/

theorem indexIn_inj [DecidableEq α] : ∀ {l : List α} {x y : α}, x ∈ l → y ∈ l → indexIn x l = indexIn y l → x = y
  | [], _, _, h, _, _ => by cases h
  | z :: r, x, y, hx, hy, h => by
    simp only [indexIn] at h
    by_cases hzx : z = x
    · by_cases hzy : z = y
      · exact hzx.symm.trans hzy
      · simp [hzx] at h
        exact h
    · by_cases hzy : z = y
      · simp [hzy] at h
        exact h.symm
      · simp only [hzx, hzy, if_false, Nat.add_right_cancel_iff] at h
        have hx' : x ∈ r := by
          rcases List.mem_cons.1 hx with rfl | hx
          · exact absurd rfl hzx
          · exact hx
        have hy' : y ∈ r := by
          rcases List.mem_cons.1 hy with rfl | hy
          · exact absurd rfl hzy
          · exact hy
        exact indexIn_inj hx' hy' h

/-- the driver's coding tells any two known instances with constructor parameters apart -/
theorem internCode_inj {known : List Instance} {i j : Instance} (hi : i ∈ known) (hj : j ∈ known)
    (hpi : i.params.isEmpty = false) (hpj : j.params.isEmpty = false)
    (h : internCode known i = internCode known j) : i = j := by
  unfold internCode at h
  rw [hpi, hpj] at h
  simp only [Bool.false_eq_true, if_false] at h
  have key : ∀ a b x y : Nat, a % 4000 + 4000 * (1 + x) = b % 4000 + 4000 * (1 + y) → x = y := by
    intro a b x y h; omega
  exact indexIn_inj hi hj (key _ _ _ _ h)

/-- ... and an instance with parameters from every parameterless one whose class symbol is below 4000 -/
theorem internCode_sep {known : List Instance} {i j : Instance} (hpi : i.params.isEmpty = false)
    (hpj : j.params.isEmpty = true) (hs : j.sym < 4000) : internCode known i ≠ internCode known j := by
  unfold internCode
  rw [hpi, hpj]
  simp only [Bool.false_eq_true, if_false, if_true]
  have key : ∀ a b x : Nat, b < 4000 → a % 4000 + 4000 * (1 + x) ≠ b := by
    intro a b x h; omega
  exact key _ _ _ hs

end ForML.Flow
