/-
C18 helper lemmas: the normalised text of a version (`Version.__str__`, `Keys.vstr`) is read back by the PEP 440 text
parser (`Keys.vparse`) as the same version — `Release.Key(str(k)) == k`.
-/
import ForML.Model.KeysValue
import ForML.Lemmas.C18GenKey

namespace ForML.Keys

/-! ### the text in parts, left to right -/

def epochPart (e : Nat) : List Nat := if e ≠ 0 then natStr e ++ [33] else []

/-- `.n` for every further release component -/
def dotted : List Nat → List Nat
  | [] => []
  | n :: r => 46 :: (natStr n ++ dotted r)

def prePart : Option (Nat × Nat) → List Nat
  | some (k, n) => preLetter k ++ natStr n
  | none => []

def postPart : Option Nat → List Nat
  | some n => [46, 112, 111, 115, 116] ++ natStr n
  | none => []

def devPart : Option Nat → List Nat
  | some n => [46, 100, 101, 118] ++ natStr n
  | none => []

def segText : Seg → List Nat
  | .num n => natStr n
  | .str t => t

/-- `.seg` for every further local part -/
def dottedSegs : List Seg → List Nat
  | [] => []
  | s :: r => 46 :: (segText s ++ dottedSegs r)

def locPart : Option (List Seg) → List Nat
  | some [] => [43]
  | some (s :: r) => 43 :: (segText s ++ dottedSegs r)
  | none => []

theorem joinWith_dotted (n : Nat) (r : List Nat) : joinWith [46] (natStr n :: r.map natStr) = natStr n ++ dotted r := by
  induction r generalizing n with
  | nil => simp [joinWith, dotted]
  | cons m r ih =>
    have := ih m
    simp [joinWith, this, dotted]

theorem joinWith_dottedSegs (s : Seg) (r : List Seg) :
    joinWith [46] (segText s :: r.map segText) = segText s ++ dottedSegs r := by
  induction r generalizing s with
  | nil => simp [joinWith, dottedSegs]
  | cons m r ih =>
    have := ih m
    simp [joinWith, this, dottedSegs]

theorem segText_fun : (fun x : Seg => match x with | .num n => natStr n | .str t => t) = segText := by
  funext x; cases x <;> rfl

theorem vstr_parts (e : Nat) (r0 : Nat) (rs : List Nat) (pre : Option (Nat × Nat)) (post dev : Option Nat) (loc : Option (List Seg)) :
    vstr ⟨e, r0 :: rs, pre, post, dev, loc⟩ =
      epochPart e ++ (natStr r0 ++ (dotted rs ++ (prePart pre ++ (postPart post ++ (devPart dev ++ locPart loc))))) := by
  have hl : (match loc with
      | some segs => [43] ++ joinWith [46] (segs.map segText)
      | none => []) = locPart loc := by
    cases loc with
    | none => rfl
    | some segs =>
      cases segs with
      | nil => simp [locPart, joinWith]
      | cons a r => simp [joinWith_dottedSegs, locPart]
  rw [← hl]
  unfold vstr
  simp only [List.map_cons, joinWith_dotted]
  unfold epochPart
  have hm : ∀ l : List Seg, List.map (fun x : Seg => match x with | .num n => natStr n | .str t => t) l = List.map segText l := by
    intro l; apply List.map_congr_left; intro x _; cases x <;> rfl
  cases loc <;> cases pre <;> cases post <;> cases dev <;> by_cases he : e = 0 <;> simp [he, prePart, postPart, devPart] <;>
    exact congrArg _ (hm _)

/-! ### digits -/

/-- the text does not go on with a digit -/
def noDigitHead (t : List Nat) : Prop := ∀ c, t.head? = some c → isDigit c = false

theorem spanDigits_append (ds rest : List Nat) (hd : ∀ c ∈ ds, isDigit c = true) (hr : noDigitHead rest) :
    spanDigits (ds ++ rest) = (ds, rest) := by
  induction ds with
  | nil =>
    cases rest with
    | nil => rfl
    | cons c r => simp [spanDigits, hr c rfl]
  | cons a ds ih =>
    have ha := hd a (by simp)
    have := ih (fun c hc => hd c (by simp [hc]))
    simp [spanDigits, ha, this]

theorem digitsNat_natStr (n : Nat) : digitsNat (natStr n) = n := (natStr_spec n).2.2

theorem natStr_cons (n : Nat) : ∃ d ds, natStr n = d :: ds ∧ isDigit d = true ∧ (∀ c ∈ ds, isDigit c = true) ∧ valOf (d - 48) ds = n := by
  obtain ⟨h1, h2, h3⟩ := natStr_spec n
  cases hn : natStr n with
  | nil => exact absurd hn h1
  | cons d ds =>
    rw [hn] at h2 h3
    refine ⟨d, ds, rfl, h2 d (by simp), fun c hc => h2 c (by simp [hc]), ?_⟩
    simpa [valOf] using h3

theorem optNum_natStr (n : Nat) (rest : List Nat) (hr : noDigitHead rest) : optNum (natStr n ++ rest) = (some n, rest) := by
  obtain ⟨h1, h2, _⟩ := natStr_spec n
  unfold optNum
  rw [spanDigits_append _ _ h2 hr]
  cases hn : natStr n with
  | nil => exact absurd hn h1
  | cons d ds => simp only; rw [← hn, digitsNat_natStr]

theorem optNum_none (rest : List Nat) (hr : noDigitHead rest) : optNum rest = (none, rest) := by
  unfold optNum
  have := spanDigits_append [] rest (by simp) hr
  simp only [List.nil_append] at this
  rw [this]

theorem digit_not_sep (c : Nat) (h : isDigit c = true) : isSep c = false := by
  simp only [isDigit, Bool.and_eq_true, decide_eq_true_eq] at h
  simp only [isSep, Bool.or_eq_false_iff, beq_eq_false_iff_ne]
  omega

theorem optSep_natStr (n : Nat) (rest : List Nat) : optSep (natStr n ++ rest) = natStr n ++ rest := by
  obtain ⟨d, ds, hn, hd, _, _⟩ := natStr_cons n
  rw [hn]
  simp [optSep, digit_not_sep d hd]

/-! ### the release segment -/

/-- where `[0-9]+(\.[0-9]+)*` stops: not before a digit, not before a dot and a digit -/
def relStop : List Nat → Prop
  | [] => True
  | [c] => isDigit c = false
  | c :: d :: _ => isDigit c = false ∧ (c = 46 → isDigit d = false)

theorem relGo_digit (cur : Nat) (acc : List Nat) (c : Nat) (r : List Nat) (h : isDigit c = true) :
    relGo cur acc (c :: r) = relGo (cur * 10 + (c - 48)) acc r := by
  cases r with
  | nil => simp [relGo, h]
  | cons d r' => simp [relGo, h]

theorem relGo_digits (ds rest : List Nat) (hd : ∀ c ∈ ds, isDigit c = true) :
    ∀ cur acc, relGo cur acc (ds ++ rest) = relGo (valOf cur ds) acc rest := by
  induction ds with
  | nil => intro _ _; rfl
  | cons a ds ih =>
    intro cur acc
    have ha := hd a (by simp)
    rw [List.cons_append, relGo_digit _ _ _ _ ha, ih (fun c hc => hd c (by simp [hc]))]
    rfl

theorem relGo_stop (cur : Nat) (acc rest : List Nat) (h : relStop rest) : relGo cur acc rest = ((cur :: acc).reverse, rest) := by
  cases rest with
  | nil => simp [relGo]
  | cons c r =>
    cases r with
    | nil =>
      simp only [relStop] at h
      by_cases hc : (c == 46) = true <;> simp [relGo, h, hc]
    | cons d r' =>
      simp only [relStop] at h
      by_cases hc : c = 46
      · have hd := h.2 hc
        subst hc
        simp [relGo, hd, show isDigit 46 = false by decide]
      · have : (c == 46) = false := by simpa using hc
        simp [relGo, h.1, this]

theorem relGo_dotted (rs : List Nat) (rest : List Nat) (h : relStop rest) :
    ∀ cur acc, relGo cur acc (dotted rs ++ rest) = (acc.reverse ++ cur :: rs, rest) := by
  induction rs with
  | nil =>
    intro cur acc
    rw [dotted, List.nil_append, relGo_stop cur acc rest h]
    simp
  | cons n rs ih =>
    intro cur acc
    obtain ⟨d, ds, hn, hd, hds, hv⟩ := natStr_cons n
    have e1 : dotted (n :: rs) ++ rest = 46 :: d :: (ds ++ (dotted rs ++ rest)) := by
      simp [dotted, hn]
    have e2 : relGo cur acc (46 :: d :: (ds ++ (dotted rs ++ rest))) = relGo (d - 48) (cur :: acc) (ds ++ (dotted rs ++ rest)) := by
      simp [relGo, hd, show isDigit 46 = false by decide]
    rw [e1, e2, relGo_digits ds _ hds, hv, ih]
    simp

/-! ### ordered alternation of words -/

theorem lower_digit (c : Nat) (h : isDigit c = true) : lower c = c := by
  simp only [isDigit, Bool.and_eq_true, decide_eq_true_eq] at h
  unfold lower
  have : ¬ (65 ≤ c ∧ c ≤ 90) := by omega
  simp [this]

theorem lit?_ne (w : Nat) (ws : List Nat) (c : Nat) (t : List Nat) (h : (lower c == w) = false) :
    lit? (w :: ws) (c :: t) = none := by simp [lit?, h]

theorem lit?_eq (w : Nat) (ws : List Nat) (c : Nat) (t : List Nat) (h : (lower c == w) = true) :
    lit? (w :: ws) (c :: t) = lit? ws t := by simp [lit?, h]

theorem firstLit_none (w : List Nat) (k : Nat) (r : List (List Nat × Nat)) (t : List Nat) (h : lit? w t = none) :
    firstLit ((w, k) :: r) t = firstLit r t := by simp [firstLit, h]

theorem firstLit_some (w : List Nat) (k : Nat) (r : List (List Nat × Nat)) (t rest : List Nat) (h : lit? w t = some rest) :
    firstLit ((w, k) :: r) t = some (k, rest) := by simp [firstLit, h]

/-- the pre-release letter and a number: `a1`, `b2`, `rc3` -/
theorem firstLit_pre (k n : Nat) (hk : k ≤ 2) (rest : List Nat) :
    firstLit preTable (preLetter k ++ (natStr n ++ rest)) = some (k, natStr n ++ rest) := by
  obtain ⟨d, ds, hn, hd, _, _⟩ := natStr_cons n
  rw [hn]
  have hl := lower_digit d hd
  simp only [isDigit, Bool.and_eq_true, decide_eq_true_eq] at hd
  have h1 : (lower d == 108) = false := by rw [hl]; simp; omega
  have h2 : (lower d == 101) = false := by rw [hl]; simp; omega
  match k, hk with
  | 0, _ =>
    show firstLit preTable (97 :: d :: (ds ++ rest)) = _
    unfold preTable
    rw [firstLit_none _ _ _ _ (by rw [lit?_eq _ _ _ _ (by decide), lit?_ne _ _ _ _ h1])]
    exact firstLit_some _ _ _ _ _ rfl
  | 1, _ =>
    show firstLit preTable (98 :: d :: (ds ++ rest)) = _
    unfold preTable
    rw [firstLit_none _ _ _ _ (lit?_ne _ _ _ _ (by decide)), firstLit_none _ _ _ _ (lit?_ne _ _ _ _ (by decide)),
      firstLit_none _ _ _ _ (by rw [lit?_eq _ _ _ _ (by decide), lit?_ne _ _ _ _ h2])]
    exact firstLit_some _ _ _ _ _ rfl
  | 2, _ =>
    show firstLit preTable (114 :: 99 :: d :: (ds ++ rest)) = _
    rfl

/-- what follows the release (or the pre-release) when there is no pre-release: `.post…`, `.dev…`, `+…` or the end -/
inductive Tail : List Nat → Prop
  | nil : Tail []
  | plus (r : List Nat) : Tail (43 :: r)
  | post (r : List Nat) : Tail (46 :: 112 :: 111 :: 115 :: 116 :: r)
  | dev (r : List Nat) : Tail (46 :: 100 :: 101 :: 118 :: r)

theorem letterNum_miss (table : List (List Nat × Nat)) (t : List Nat) (h : firstLit table (optSep t) = none) :
    letterNum table t = (none, t) := by
  unfold letterNum; rw [h]

theorem letterNum_hit (table : List (List Nat × Nat)) (t : List Nat) (k n : Nat) (rest : List Nat)
    (h : firstLit table (optSep t) = some (k, natStr n ++ rest)) (hr : noDigitHead rest) :
    letterNum table t = (some (k, n), rest) := by
  unfold letterNum
  rw [h]
  simp only
  rw [optSep_natStr, optNum_natStr n rest hr]
  rfl

theorem letterNum_pre_none (t : List Nat) (h : Tail t) : letterNum preTable t = (none, t) := by
  cases h <;> exact letterNum_miss _ _ rfl

theorem Tail.noDigit {t : List Nat} (h : Tail t) : noDigitHead t := by
  intro c hc
  cases h <;> simp at hc <;> subst hc <;> decide

theorem Tail.relStop {t : List Nat} (h : Tail t) : relStop t := by
  cases h with
  | nil => trivial
  | plus r => cases r <;> simp [Keys.relStop, isDigit]
  | post r => simp [Keys.relStop, isDigit]
  | dev r => simp [Keys.relStop, isDigit]

theorem tail_post_dev_loc (post dev : Option Nat) (loc : Option (List Seg)) : Tail (postPart post ++ (devPart dev ++ locPart loc)) := by
  cases post with
  | some n => exact Tail.post _
  | none =>
    cases dev with
    | some n => exact Tail.dev _
    | none =>
      cases loc with
      | none => exact Tail.nil
      | some segs => cases segs <;> exact Tail.plus _

theorem tail_dev_loc (dev : Option Nat) (loc : Option (List Seg)) : Tail (devPart dev ++ locPart loc) := by
  have := tail_post_dev_loc none dev loc
  simpa [postPart] using this

theorem tail_loc (loc : Option (List Seg)) : Tail (locPart loc) := by
  have := tail_post_dev_loc none none loc
  simpa [postPart, devPart] using this

/-! ### the optional groups -/

theorem pre?_part (pre : Option (Nat × Nat)) (hk : ∀ k n, pre = some (k, n) → k ≤ 2) (t : List Nat) (ht : Tail t) :
    pre? (prePart pre ++ t) = (pre, t) := by
  cases pre with
  | none => simp only [prePart, List.nil_append, pre?]; exact letterNum_pre_none t ht
  | some kn =>
    obtain ⟨k, n⟩ := kn
    have hk2 := hk k n rfl
    have hs : optSep (preLetter k ++ (natStr n ++ t)) = preLetter k ++ (natStr n ++ t) := by
      match k, hk2 with
      | 0, _ => rfl
      | 1, _ => rfl
      | 2, _ => rfl
    simp only [prePart, pre?, List.append_assoc]
    exact letterNum_hit _ _ k n t (by rw [hs]; exact firstLit_pre k n hk2 t) ht.noDigit

theorem postL_part (n : Nat) (t : List Nat) (ht : Tail t) :
    postL (46 :: 112 :: 111 :: 115 :: 116 :: (natStr n ++ t)) = (some n, t) := by
  unfold postL
  rw [letterNum_hit postTable _ 0 n t rfl ht.noDigit]
  rfl

theorem post?_part (post : Option Nat) (t : List Nat) (ht : Tail t) (hp : ∀ r, t ≠ 46 :: 112 :: 111 :: 115 :: 116 :: r) :
    post? (postPart post ++ t) = (post, t) := by
  cases post with
  | some n =>
    show post? (46 :: 112 :: 111 :: 115 :: 116 :: (natStr n ++ t)) = _
    unfold post?
    simp only [show ((46 : Nat) == 45) = false by decide, Bool.false_eq_true, if_false]
    exact postL_part n t ht
  | none =>
    simp only [postPart, List.nil_append]
    cases ht with
    | nil => rfl
    | plus r =>
      unfold post?
      simp only [show ((43 : Nat) == 45) = false by decide, Bool.false_eq_true, if_false]
      unfold postL
      rw [letterNum_miss postTable _ rfl]
      rfl
    | post r => exact absurd rfl (hp r)
    | dev r =>
      unfold post?
      simp only [show ((46 : Nat) == 45) = false by decide, Bool.false_eq_true, if_false]
      unfold postL
      rw [letterNum_miss postTable _ rfl]
      rfl

theorem dev?_part (dev : Option Nat) (t : List Nat) (ht : Tail t) (hp : ∀ r, t ≠ 46 :: 112 :: 111 :: 115 :: 116 :: r)
    (hd : ∀ r, t ≠ 46 :: 100 :: 101 :: 118 :: r) : dev? (devPart dev ++ t) = (dev, t) := by
  cases dev with
  | some n =>
    show dev? (46 :: 100 :: 101 :: 118 :: (natStr n ++ t)) = _
    unfold dev?
    rw [letterNum_hit devTable _ 0 n t rfl ht.noDigit]
    rfl
  | none =>
    simp only [devPart, List.nil_append]
    unfold dev?
    cases ht with
    | nil => rfl
    | plus r => rw [letterNum_miss devTable _ rfl]; rfl
    | post r => exact absurd rfl (hp r)
    | dev r => exact absurd rfl (hd r)

/-! ### the local version -/

theorem locGo_alnum (t rest : List Nat) (ht : ∀ c ∈ t, isAlnum c = true) :
    ∀ cur acc, locGo cur acc (t ++ rest) = locGo (t.reverse ++ cur) acc rest := by
  induction t with
  | nil => intro _ _; rfl
  | cons a t ih =>
    intro cur acc
    have ha := ht a (by simp)
    have e1 : locGo cur acc (a :: (t ++ rest)) = locGo (a :: cur) acc (t ++ rest) := by
      cases h : t ++ rest <;> simp [locGo, ha]
    rw [List.cons_append, e1, ih (fun c hc => ht c (by simp [hc]))]
    simp

theorem map_lower_id (t : List Nat) (h : ∀ c ∈ t, lower c = c) : t.map lower = t := by
  induction t with
  | nil => rfl
  | cons a t ih => simp [h a (by simp), ih (fun c hc => h c (by simp [hc]))]

theorem digit_alnum (c : Nat) (h : isDigit c = true) : isAlnum c = true := by simp [isAlnum, h]

/-- the text of a well-formed local part: not empty, alphanumeric, and classified back as the part -/
theorem segText_wf (s : Seg) (h : wfSeg s = true) :
    (∃ a as, segText s = a :: as) ∧ (∀ c ∈ segText s, isAlnum c = true) ∧ segOf (segText s) = s := by
  cases s with
  | num n =>
    obtain ⟨h1, h2, h3⟩ := natStr_spec n
    refine ⟨?_, fun c hc => digit_alnum c (h2 c hc), ?_⟩
    · cases hn : natStr n with
      | nil => exact absurd hn h1
      | cons a as => exact ⟨a, as, hn⟩
    · have : (natStr n).all isDigit = true := List.all_eq_true.mpr h2
      simp only [segText, segOf, this, if_true]
      rw [digitsNat_natStr]
  | str t =>
    simp only [wfSeg, Bool.and_eq_true, Bool.not_eq_true', List.all_eq_true, Bool.or_eq_true, decide_eq_true_eq] at h
    obtain ⟨⟨h1, h2⟩, h3⟩ := h
    refine ⟨?_, ?_, ?_⟩
    · cases t with
      | nil => simp at h1
      | cons a as => exact ⟨a, as, rfl⟩
    · intro c hc
      rcases h2 c hc with hd | hl
      · exact digit_alnum c hd
      · simp [isAlnum, hl]
    · have hlow : t.map lower = t := by
        apply map_lower_id
        intro c hc
        rcases h2 c hc with hd | hl
        · exact lower_digit c hd
        · unfold lower
          have : ¬ (65 ≤ c ∧ c ≤ 90) := by omega
          simp [this]
      simp only [segText, segOf, h3, Bool.false_eq_true, if_false, hlow]

theorem locGo_dottedSegs (r : List Seg) (hr : ∀ s ∈ r, wfSeg s = true) :
    ∀ cur acc, locGo cur acc (dottedSegs r) = ((segOf cur.reverse :: acc).reverse ++ r, []) := by
  induction r with
  | nil => intro cur acc; simp [dottedSegs, locGo]
  | cons s r ih =>
    intro cur acc
    obtain ⟨⟨a, as, hs⟩, hal, hseg⟩ := segText_wf s (hr s (by simp))
    have ha : isAlnum a = true := hal a (by rw [hs]; simp)
    have has : ∀ c ∈ as, isAlnum c = true := fun c hc => hal c (by rw [hs]; simp [hc])
    have e1 : dottedSegs (s :: r) = 46 :: a :: (as ++ dottedSegs r) := by simp [dottedSegs, hs]
    have e2 : locGo cur acc (46 :: a :: (as ++ dottedSegs r)) = locGo [a] (segOf cur.reverse :: acc) (as ++ dottedSegs r) := by
      simp [locGo, ha, show isAlnum 46 = false by decide, show isSep 46 = true by decide]
    rw [e1, e2, locGo_alnum as _ has, ih (fun x hx => hr x (by simp [hx]))]
    have : (as.reverse ++ [a]).reverse = segText s := by rw [hs]; simp
    rw [this, hseg]
    simp

theorem local?_part (loc : Option (List Seg)) (h : ∀ segs, loc = some segs → segs ≠ [] ∧ ∀ s ∈ segs, wfSeg s = true) :
    local? (locPart loc) = (loc, []) := by
  cases loc with
  | none => rfl
  | some segs =>
    obtain ⟨hne, hwf⟩ := h segs rfl
    cases segs with
    | nil => exact absurd rfl hne
    | cons s r =>
      obtain ⟨⟨a, as, hs⟩, hal, hseg⟩ := segText_wf s (hwf s (by simp))
      have ha : isAlnum a = true := hal a (by rw [hs]; simp)
      have has : ∀ c ∈ as, isAlnum c = true := fun c hc => hal c (by rw [hs]; simp [hc])
      have e1 : locPart (some (s :: r)) = 43 :: a :: (as ++ dottedSegs r) := by simp [locPart, hs]
      have e2 : locGo [a] [] (as ++ dottedSegs r) = (s :: r, []) := by
        rw [locGo_alnum as _ has, locGo_dottedSegs r (fun x hx => hwf x (by simp [hx]))]
        have : (as.reverse ++ [a]).reverse = segText s := by rw [hs]; simp
        rw [this, hseg]
        simp
      rw [e1]
      simp only [local?, beq_self_eq_true, ha, Bool.and_self, if_true, e2]

/-! ### the whole text -/

theorem digit_not_spaceU (c : Nat) (h : isDigit c = true) : isSpaceU c = false := by
  simp only [isDigit, Bool.and_eq_true, decide_eq_true_eq] at h
  simp only [isSpaceU, isSpace, Bool.or_eq_false_iff, Bool.and_eq_false_iff, beq_eq_false_iff_ne, decide_eq_false_iff_not]
  omega

theorem head_digit (c : Nat) (r : List Nat) (h : isDigit c = true) : optV (dropSpace (c :: r)) = c :: r := by
  have h1 := digit_not_spaceU c h
  have h2 : (lower c == 118) = false := by
    rw [lower_digit c h]
    simp only [isDigit, Bool.and_eq_true, decide_eq_true_eq] at h
    simp; omega
  simp [dropSpace, optV, h1, h2]

/-- what follows the first number of the text when it is the first release component -/
theorem after_first (rs : List Nat) (pre : Option (Nat × Nat)) (hk : ∀ k n, pre = some (k, n) → k ≤ 2) (t : List Nat) (ht : Tail t) :
    noDigitHead (dotted rs ++ (prePart pre ++ t)) ∧ (∀ c r, dotted rs ++ (prePart pre ++ t) = c :: r → (c == 33) = false) ∧
    relStop (prePart pre ++ t) := by
  have hpre : noDigitHead (prePart pre ++ t) ∧ (∀ c r, prePart pre ++ t = c :: r → (c == 33) = false) ∧ relStop (prePart pre ++ t) := by
    cases pre with
    | none =>
      simp only [prePart, List.nil_append]
      refine ⟨ht.noDigit, ?_, ht.relStop⟩
      intro c r e
      cases ht <;> simp at e <;> (try (rw [← e.1]; decide))
    | some kn =>
      obtain ⟨k, n⟩ := kn
      obtain ⟨d, ds, hn, hd, _, _⟩ := natStr_cons n
      have hk2 := hk k n rfl
      match k, hk2 with
      | 0, _ =>
        simp only [prePart, preLetter, hn, List.cons_append, List.nil_append]
        refine ⟨?_, ?_, ?_⟩
        · intro c hc; simp at hc; subst hc; decide
        · intro c r e; simp at e; rw [← e.1]; decide
        · simp [relStop, isDigit]
      | 1, _ =>
        simp only [prePart, preLetter, hn, List.cons_append, List.nil_append]
        refine ⟨?_, ?_, ?_⟩
        · intro c hc; simp at hc; subst hc; decide
        · intro c r e; simp at e; rw [← e.1]; decide
        · simp [relStop, isDigit]
      | 2, _ =>
        simp only [prePart, preLetter, hn, List.cons_append, List.nil_append]
        refine ⟨?_, ?_, ?_⟩
        · intro c hc; simp at hc; subst hc; decide
        · intro c r e; simp at e; rw [← e.1]; decide
        · simp [relStop, isDigit]
  cases rs with
  | nil => simpa [dotted] using hpre
  | cons m rs =>
    refine ⟨?_, ?_, hpre.2.2⟩
    · intro c hc; simp [dotted] at hc; subst hc; decide
    · intro c r e; simp [dotted] at e; rw [← e.1]; decide

theorem epoch?_none (n : Nat) (rest : List Nat) (h1 : noDigitHead rest) (h2 : ∀ c r, rest = c :: r → (c == 33) = false) :
    epoch? (natStr n ++ rest) = (0, natStr n ++ rest) := by
  obtain ⟨_, hd, _⟩ := natStr_spec n
  obtain ⟨d, ds, hn, _, _, _⟩ := natStr_cons n
  unfold epoch?
  rw [spanDigits_append _ _ hd h1]
  simp only
  rw [hn]
  cases rest with
  | nil => rfl
  | cons c r =>
    have := h2 c r rfl
    simp [this]

theorem epoch?_some (e : Nat) (rest : List Nat) : epoch? (natStr e ++ 33 :: rest) = (e, rest) := by
  obtain ⟨d, ds, hn, _, _, _⟩ := natStr_cons e
  obtain ⟨_, hd, _⟩ := natStr_spec e
  unfold epoch?
  rw [spanDigits_append _ _ hd (by intro c hc; simp at hc; subst hc; decide)]
  simp only
  rw [hn]
  simp only [beq_self_eq_true, if_true]
  rw [← hn, digitsNat_natStr]

theorem release?_part (r0 : Nat) (rs : List Nat) (rest : List Nat) (h : relStop rest) :
    release? (natStr r0 ++ (dotted rs ++ rest)) = some (r0 :: rs, rest) := by
  obtain ⟨d, ds, hn, hd, hds, hv⟩ := natStr_cons r0
  rw [hn]
  simp only [List.cons_append, release?, hd, if_true]
  rw [relGo_digits ds _ hds, hv, relGo_dotted rs rest h]
  rfl

/-- **`Release.Key(str(v)) == v`**: the normalised text of every well-formed version parses back to the same fields -/
theorem vparse_vstr (v : Version) (h : wfVersion v = true) : vparse (vstr v) = some v := by
  obtain ⟨e, rel, pre, post, dev, loc⟩ := v
  simp only [wfVersion, Bool.and_eq_true, Bool.not_eq_true'] at h
  obtain ⟨⟨hrel, hpre⟩, hloc⟩ := h
  cases rel with
  | nil => simp at hrel
  | cons r0 rs =>
    have hk : ∀ k n, pre = some (k, n) → k ≤ 2 := by
      intro k n e; subst e; simpa using hpre
    have hl : ∀ segs, loc = some segs → segs ≠ [] ∧ ∀ s ∈ segs, wfSeg s = true := by
      intro segs e; subst e
      simp only [Bool.and_eq_true, Bool.not_eq_true', List.all_eq_true] at hloc
      exact ⟨by intro e; subst e; simp at hloc, hloc.2⟩
    have t1 := tail_post_dev_loc post dev loc
    have t2 := tail_dev_loc dev loc
    have t3 := tail_loc loc
    obtain ⟨a1, a2, a3⟩ := after_first rs pre hk _ t1
    rw [vstr_parts]
    -- the head of the text is a digit
    have hhead : optV (dropSpace (epochPart e ++ (natStr r0 ++ (dotted rs ++ (prePart pre ++ (postPart post ++ (devPart dev ++ locPart loc))))))) =
        epochPart e ++ (natStr r0 ++ (dotted rs ++ (prePart pre ++ (postPart post ++ (devPart dev ++ locPart loc))))) := by
      unfold epochPart
      by_cases he : e = 0
      · obtain ⟨d, ds, hn, hd, _, _⟩ := natStr_cons r0
        simp only [he, ne_eq, not_true_eq_false, if_false, List.nil_append, hn, List.cons_append]
        exact head_digit d _ hd
      · obtain ⟨d, ds, hn, hd, _, _⟩ := natStr_cons e
        simp only [he, ne_eq, not_false_eq_true, if_true, hn, List.cons_append]
        exact head_digit d _ hd
    have hep : epoch? (epochPart e ++ (natStr r0 ++ (dotted rs ++ (prePart pre ++ (postPart post ++ (devPart dev ++ locPart loc)))))) =
        (e, natStr r0 ++ (dotted rs ++ (prePart pre ++ (postPart post ++ (devPart dev ++ locPart loc))))) := by
      unfold epochPart
      by_cases he : e = 0
      · simp only [he, ne_eq, not_true_eq_false, if_false, List.nil_append]
        exact epoch?_none r0 _ a1 a2
      · simp only [he, ne_eq, not_false_eq_true, if_true, List.append_assoc, List.cons_append, List.nil_append]
        exact epoch?_some e _
    have hp2 : ∀ r, devPart dev ++ locPart loc ≠ 46 :: 112 :: 111 :: 115 :: 116 :: r := by
      intro r
      cases dev with
      | some n => simp [devPart]
      | none => cases loc with
        | none => simp [devPart, locPart]
        | some segs => cases segs <;> simp [devPart, locPart]
    have hp3 : ∀ r, locPart loc ≠ 46 :: 112 :: 111 :: 115 :: 116 :: r := by
      intro r
      cases loc with
      | none => simp [locPart]
      | some segs => cases segs <;> simp [locPart]
    have hd3 : ∀ r, locPart loc ≠ 46 :: 100 :: 101 :: 118 :: r := by
      intro r
      cases loc with
      | none => simp [locPart]
      | some segs => cases segs <;> simp [locPart]
    unfold vparse
    rw [hhead, hep]
    simp only
    rw [release?_part r0 rs _ a3]
    simp only
    rw [pre?_part pre hk _ t1]
    simp only
    rw [post?_part post _ t2 hp2]
    simp only
    rw [dev?_part dev _ t3 hp3 hd3]
    simp only
    rw [local?_part loc hl]
    simp

end ForML.Keys
