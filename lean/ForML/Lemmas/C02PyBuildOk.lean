/-
C02 helper lemmas: on a valid apply-mode table `Expression._build` succeeds.
-/
import ForML.Lemmas.C02PyOrderOk
import ForML.Lemmas.C02PyBuild

namespace ForML.Flow.PyFunc
open ForML.Flow

/-- Prop form of `Table.applyMode` -/
structure AM (A : Option Assets) (t : Table) : Prop where
  shape : t.pyShape = true
  syms : ∀ s ∈ t, match s.instr with
    | .functor _ act ps => act = .apply ∧ ps.length ≤ s.args.length ∧
        (∀ a ∈ s.args.take ps.length, t.isLoader A a = true) ∧ (∀ a ∈ s.args.drop ps.length, t.isNode a = true)
    | .getter _ => s.args.length = 1 ∧ ∀ a ∈ s.args, t.isNode a = true
    | .loader _ => t.isLoader A s.id = true
    | _ => False
  oneSink : t.sinks.length = 1
  oneHead : t.heads.length = 1

theorem applyMode_iff {A : Option Assets} {t : Table} (h : t.applyMode A = true) : AM A t := by
  simp only [Table.applyMode, Bool.and_eq_true, List.all_eq_true, beq_iff_eq, decide_eq_true_eq] at h
  obtain ⟨⟨⟨h1, h2⟩, h3⟩, h4⟩ := h
  refine ⟨h1, ?_, h3, h4⟩
  intro s hs
  have := h2 s hs
  cases hi : s.instr with
  | functor a act ps =>
    simp only [hi, Bool.and_eq_true, beq_iff_eq, decide_eq_true_eq, List.all_eq_true] at this ⊢
    exact ⟨this.1.1.1, this.1.1.2, this.1.2, this.2⟩
  | getter i =>
    simp only [hi, Bool.and_eq_true, beq_iff_eq, List.all_eq_true] at this ⊢
    exact this
  | loader g => simp only [hi] at this ⊢; exact this
  | dumper => simp [hi] at this
  | committer => simp [hi] at this

theorem evaluate_loader {A : Option Assets} {t : Table} {a : Key} (h : t.isLoader A a = true) :
    ∃ v, evaluate A t a = .ok (.value v) := by
  unfold Table.isLoader at h
  unfold evaluate
  cases hf : t.find a with
  | none => simp [hf] at h
  | some s =>
    obtain ⟨k, ins, as⟩ := s
    cases ins with
    | loader g =>
      cases A with
      | none => simp [hf] at h
      | some A' =>
        simp only [hf] at h ⊢
        have : (A'.offset g).isSome := h
        cases ho : A'.offset g with
        | none => simp [ho] at this
        | some i => exact ⟨_, rfl⟩
    | functor _ _ _ => simp [hf] at h
    | getter _ => simp [hf] at h
    | dumper => simp [hf] at h
    | committer => simp [hf] at h

theorem evaluate_node {A : Option Assets} {t : Table} {a : Key} (h : t.isNode a = true) :
    evaluate A t a = .ok (.instr a) := by
  unfold Table.isNode at h
  unfold evaluate
  cases hf : t.find a with
  | none => simp [hf] at h
  | some s =>
    obtain ⟨k, ins, as⟩ := s
    cases ins with
    | loader g => simp [hf] at h
    | functor _ _ _ => rfl
    | getter _ => rfl
    | dumper => simp [hf] at h
    | committer => simp [hf] at h

theorem evaluateAll_loaders {A : Option Assets} {t : Table} : ∀ (as : List Key), (∀ a ∈ as, t.isLoader A a = true) →
    ∃ vs : List Val, evaluateAll A t as = .ok (vs.map .value) ∧ vs.length = as.length
  | [], _ => ⟨[], rfl, rfl⟩
  | a :: as, h => by
    obtain ⟨v, hv⟩ := evaluate_loader (h a (List.mem_cons_self ..))
    obtain ⟨vs, hvs, hl⟩ := evaluateAll_loaders as (fun b hb => h b (List.mem_cons_of_mem _ hb))
    exact ⟨v :: vs, by simp [evaluateAll, hv, hvs], by simp [hl]⟩

theorem evaluateAll_nodes {A : Option Assets} {t : Table} : ∀ (as : List Key), (∀ a ∈ as, t.isNode a = true) →
    evaluateAll A t as = .ok (as.map .instr)
  | [], _ => rfl
  | a :: as, h => by
    simp [evaluateAll, evaluate_node (h a (List.mem_cons_self ..)),
      evaluateAll_nodes as (fun b hb => h b (List.mem_cons_of_mem _ hb))]

theorem evaluateAll_append {A : Option Assets} {t : Table} : ∀ (as bs : List Key) {xs ys : List Evaluated},
    evaluateAll A t as = .ok xs → evaluateAll A t bs = .ok ys → evaluateAll A t (as ++ bs) = .ok (xs ++ ys)
  | [], bs, xs, ys, h1, h2 => by simp only [evaluateAll] at h1; cases h1; simpa using h2
  | a :: as, bs, xs, ys, h1, h2 => by
    simp only [evaluateAll, List.cons_append] at h1 ⊢
    cases he : evaluate A t a with
    | error e => simp [he] at h1
    | ok v =>
      simp only [he] at h1 ⊢
      cases hr : evaluateAll A t as with
      | error e => simp [hr] at h1
      | ok vs =>
        simp only [hr] at h1
        cases h1
        simp [evaluateAll_append as bs hr h2]

theorem reduce_values : ∀ (ps : List Preset) (st : Val) (vs : List Val) (rest : List Evaluated),
    vs.length = ps.length → ∃ st', reduce ps st (vs.map .value ++ rest) = .ok (st', rest)
  | [], st, [], rest, _ => ⟨st, rfl⟩
  | [], _, _ :: _, _, h => by simp at h
  | .setState :: ps, _, [], _, h => by simp at h
  | .setState :: ps, st, v :: vs, rest, h => by
    simp only [List.map_cons, List.cons_append, reduce]
    exact reduce_values ps _ vs rest (by simpa using h)

theorem resolveAll_ok {built : Built} : ∀ (as : List Key), (∀ a ∈ as, a ∈ built.map (·.1)) →
    ∃ args, resolveAll built (as.map .instr) = .ok args
  | [], _ => ⟨[], rfl⟩
  | a :: as, h => by
    obtain ⟨args, hargs⟩ := resolveAll_ok as (fun b hb => h b (List.mem_cons_of_mem _ hb))
    have ha := h a (List.mem_cons_self ..)
    obtain ⟨n, hn, hna⟩ := List.mem_map.1 ha
    have hany : built.any (fun n => decide (n.1 = a)) = true := by
      simp only [List.any_eq_true, decide_eq_true_eq]
      exact ⟨n, hn, hna⟩
    exact ⟨a :: args, by simp [resolveAll, resolve, hany, hargs]⟩

/-- `_build` succeeds when every instruction's arguments come before it -/
theorem buildLoop_ok {A : Option Assets} {t : Table} (ham : AM A t) :
    ∀ (ks seen : List Key) (built : Built), (∀ k ∈ ks, (t.find k).isSome) →
      (∀ k ∈ ks, ∀ a ∈ argsOf t k, a ∈ seen ∨ a ∈ ks) → ks.Pairwise (fun k k' => k' ∉ argsOf t k) →
      (∀ k ∈ ks, k ∉ argsOf t k) → (∀ a ∈ seen, t.isNode a = true → a ∈ built.map (·.1)) →
      ∃ res, buildLoop A t ks built = .ok res := by
  intro ks
  induction ks with
  | nil => intro seen built _ _ _ _ _; exact ⟨built, rfl⟩
  | cons k rest ih =>
    intro seen built hb hcl hpw hirr hseen
    have hk := hb k (List.mem_cons_self ..)
    cases hfind : t.find k with
    | none => simp [hfind] at hk
    | some s =>
      have hsm := Table.find_some hfind
      have hpw' := List.pairwise_cons.1 hpw
      -- the arguments of k were seen before
      have hargsseen : ∀ a ∈ s.args, a ∈ seen := by
        intro a ha
        have ha' : a ∈ argsOf t k := by simp [argsOf, hfind, ha]
        rcases hcl k (List.mem_cons_self ..) a ha' with h1 | h1
        · exact h1
        · rcases List.mem_cons.1 h1 with h2 | h2
          · subst h2; exact absurd ha' (hirr a (List.mem_cons_self ..))
          · exact absurd ha' (hpw'.1 a h2)
      -- what the induction hypothesis needs for the rest
      have hrest : ∀ (built' : Built), (∀ a ∈ seen ++ [k], t.isNode a = true → a ∈ built'.map (·.1)) →
          ∃ res, buildLoop A t rest built' = .ok res := by
        intro built' hs'
        refine ih (seen ++ [k]) built' (fun q hq => hb q (List.mem_cons_of_mem _ hq)) ?_ hpw'.2
          (fun q hq => hirr q (List.mem_cons_of_mem _ hq)) hs'
        intro q hq a ha
        rcases hcl q (List.mem_cons_of_mem _ hq) a ha with h1 | h1
        · exact Or.inl (List.mem_append_left _ h1)
        · rcases List.mem_cons.1 h1 with h2 | h2
          · exact Or.inl (by simp [h2])
          · exact Or.inr h2
      have hsy := ham.syms s hsm.1
      simp only [buildLoop, hfind]
      cases hi : s.instr with
      | dumper => simp [hi] at hsy
      | committer => simp [hi] at hsy
      | loader g =>
        simp only
        have hshape := ham.shape
        simp only [Table.pyShape, Bool.and_eq_true, List.all_eq_true] at hshape
        have := hshape.1 s hsm.1
        simp only [hi] at this
        simp only [this, if_true]
        apply hrest
        intro a ha hnode
        rcases List.mem_append.1 ha with h1 | h1
        · exact hseen a h1 hnode
        · simp at h1; subst h1
          simp [Table.isNode, hfind, hi] at hnode
      | getter i =>
        simp only [hi] at hsy
        simp only
        obtain ⟨args, hargs⟩ := resolveAll_ok (built := built) s.args
          (fun a ha => hseen a (hargsseen a ha) (hsy.2 a ha))
        simp only [hargs]
        apply hrest
        intro a ha hnode
        rcases List.mem_append.1 ha with h1 | h1
        · simp [hseen a h1 hnode]
        · simp at h1; subst h1; simp
      | functor a act ps =>
        simp only [hi] at hsy
        simp only
        obtain ⟨hact, hlen, hload, hnodes⟩ := hsy
        obtain ⟨vs, hvs, hvl⟩ := evaluateAll_loaders (A := A) (t := t) (s.args.take ps.length) hload
        have hev := evaluateAll_append _ _ hvs (evaluateAll_nodes (A := A) (s.args.drop ps.length) hnodes)
        rw [List.take_append_drop] at hev
        simp only [hev]
        obtain ⟨st', hred⟩ := reduce_values ps .none vs ((s.args.drop ps.length).map .instr)
          (by rw [hvl, List.length_take]; omega)
        simp only [hred]
        obtain ⟨args, hargs⟩ := resolveAll_ok (built := built) (s.args.drop ps.length)
          (fun b hb => hseen b (hargsseen b (List.mem_of_mem_drop hb)) (hnodes b hb))
        simp only [hargs]
        apply hrest
        intro b hb hnode
        rcases List.mem_append.1 hb with h1 | h1
        · simp [hseen b h1 hnode]
        · simp at h1; subst h1; simp

end ForML.Flow.PyFunc
