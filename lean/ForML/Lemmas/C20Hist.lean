/- Lookup histories on lazily searched provider packages (C20): what a process state reached in a defect-free world
knows (`Inv`), what a single lookup finds (`found`), and why an answer once available stays available. -/
import ForML.Lemmas.C20Mono

namespace ForML.Bank

/-! ### lifting a property of states through everything that is built from module executions -/

/-- `P` survives the execution of any module body -/
def ExecStable (w : World) (P : St → Prop) : Prop := ∀ st m r, P st → execMod w st m = some r → P r.1

theorem importSubs_lift {w : World} {P : St → Prop} (hP : ExecStable w P) (pkg : Nat) (subs : List Nat) (st : St)
    (h : P st) : P (importSubs w st pkg subs).1 := by
  induction subs generalizing st with
  | nil => exact h
  | cons s rest ih =>
    simp only [importSubs]
    cases he : execMod w st ⟨pkg, some s⟩ with
    | none => exact ih st h
    | some r =>
      have h1 := hP st _ r h he
      obtain ⟨s1, e1⟩ := r
      cases e1 with
      | some e => exact h1
      | none => exact ih s1 h1

theorem importMod_lift {w : World} {P : St → Prop} (hP : ExecStable w P) (st : St) (m : Mod) (h : P st) :
    ∀ r, importMod w st m = some r → P r.1 := by
  intro r hr
  unfold importMod at hr
  cases hsub : m.sub with
  | none => simp only [hsub] at hr; exact hP st m r h hr
  | some s =>
    simp only [hsub] at hr
    cases he : execMod w st ⟨m.pkg, none⟩ with
    | none => simp [he] at hr
    | some r1 =>
      have h1 := hP st _ r1 h he
      obtain ⟨s1, e1⟩ := r1
      cases e1 with
      | some e => simp [he] at hr; subst hr; exact h1
      | none => simp only [he] at hr; exact hP s1 m r h1 hr

theorem afterNotFound_lift {w : World} {P : St → Prop} (hP : ExecStable w P) (st : St) (m : Mod) (h : P st) :
    P (afterNotFound w st m) := by
  unfold afterNotFound
  cases m.sub with
  | none => exact h
  | some s =>
    simp only
    cases he : execMod w st ⟨m.pkg, none⟩ with
    | none => exact h
    | some r =>
      have h1 := hP st _ r h he
      obtain ⟨st', e⟩ := r
      cases e with
      | some e => exact h
      | none => exact h1

theorem loadPath_lift {w : World} {P : St → Prop} (hP : ExecStable w P) (st : St) (p : PathE) (h : P st) :
    P (loadPath w st p).1 := by
  unfold loadPath
  cases hi : importMod w st p.mod with
  | none => exact afterNotFound_lift hP st _ h
  | some r =>
    have h1 := importMod_lift hP st _ h r hi
    obtain ⟨s1, e1⟩ := r
    cases e1 with
    | some e => exact h1
    | none =>
      simp only
      split
      · exact importSubs_lift hP _ _ s1 h1
      · exact h1

theorem getLoop_lift {w : World} {P : St → Prop} (hP : ExecStable w P) (iface : ClassId) (r : Ref) (todo : List PathE)
    (st : St) (h : P st) : P (getLoop w iface r st todo).1 := by
  induction todo generalizing st with
  | nil => exact h
  | cons p rest ih =>
    simp only [getLoop]
    split
    · exact h
    · have h1 := loadPath_lift hP st p h
      cases hl : loadPath w st p with
      | mk s1 e1 =>
        rw [hl] at h1
        cases e1 with
        | some e => exact h1
        | none => exact ih s1 h1

theorem get_lift {w : World} {P : St → Prop} (hP : ExecStable w P) (st : St) (iface : ClassId) (r : Ref) (o : List Mod)
    (h : P st) : P (get w st iface r o).1 := by
  unfold get
  cases lookupRef r (getBank iface st.banks).provider with
  | some c => exact h
  | none =>
    simp only
    have h1 := getLoop_lift hP iface r (todoPaths (getBank iface st.banks) r o) st h
    cases hl : getLoop w iface r st (todoPaths (getBank iface st.banks) r o) with
    | mk s1 e1 =>
      rw [hl] at h1
      cases e1 with
      | some e => exact h1
      | none =>
        simp only [finish]
        split <;> exact h1

theorem runHist_lift {w : World} {P : St → Prop} (hP : ExecStable w P) (ops : List HOp) (st : St) (h : P st) :
    P (runHist w st ops) := by
  induction ops generalizing st with
  | nil => exact h
  | cons op rest ih =>
    cases op with
    | imp m =>
      simp only [runHist]
      cases hi : importMod w st m with
      | none => exact ih _ (afterNotFound_lift hP st m h)
      | some r =>
        obtain ⟨s1, e1⟩ := r
        exact ih s1 (importMod_lift hP st m h _ hi)
    | get i r o =>
      simp only [runHist]
      exact ih _ (get_lift hP st i r o h)

/-! ### what one class statement does to the banks -/

theorem mem_addPaths {ps qs : List PathE} {p : PathE} (h : p ∈ addPaths ps qs) : p ∈ ps ∨ p ∈ qs := by
  induction qs generalizing ps with
  | nil => exact Or.inl (by simpa [addPaths] using h)
  | cons q qs ih =>
    simp only [addPaths] at h
    rcases ih h with h | h
    · split at h
      · exact Or.inl h
      · rcases List.mem_append.1 h with h | h
        · exact Or.inl h
        · simp at h; exact Or.inr (by simp [h])
    · exact Or.inr (List.mem_cons_of_mem _ h)

/-- `c` is a concrete class below the interface `i` that carries `r` and has the identity `x` -/
def Carr (c : ClassDef) (i : ClassId) (r : Ref) (x : ClassId) : Prop :=
  c.abstract = false ∧ r ∈ refs c ∧ c.id = x ∧ i ∈ c.id :: c.parents

theorem addToBanks_loaded (c : ClassDef) (is : List ClassId) (st : St) : (addToBanks st c is).1.loaded = st.loaded := by
  induction is generalizing st with
  | nil => rfl
  | cons i rest ih =>
    simp only [addToBanks]
    cases (getBank i st.banks).add c with
    | error e => rfl
    | ok b => simp only; rw [ih]

/-- every binding after the loop `for parent in …: BANK[parent].add(cls, …)` was there before or is one of `cls` -/
theorem addToBanks_from (c : ClassDef) (is : List ClassId) (st : St) (j : ClassId) (r : Ref) (x : ClassId)
    (h : lookupRef r (getBank j (addToBanks st c is).1.banks).provider = some x) :
    lookupRef r (getBank j st.banks).provider = some x ∨ (c.abstract = false ∧ r ∈ refs c ∧ c.id = x ∧ j ∈ is) := by
  induction is generalizing st with
  | nil => exact Or.inl h
  | cons i rest ih =>
    simp only [addToBanks] at h
    cases hadd : (getBank i st.banks).add c with
    | error e => simp only [hadd] at h; exact Or.inl h
    | ok b =>
      simp only [hadd] at h
      rcases ih _ h with h1 | ⟨ha, hr, hx, hj⟩
      · simp only [getBank_setBank] at h1
        split at h1
        · rename_i hij
          subst hij
          rw [lookup_after_add hadd] at h1
          by_cases hc : c.abstract = false ∧ r ∈ refs c
          · simp only [hc, and_self, if_true, Option.some.injEq] at h1
            exact Or.inr ⟨hc.1, hc.2, h1, by simp⟩
          · simp only [hc, if_false] at h1; exact Or.inl h1
        · exact Or.inl h1
      · exact Or.inr ⟨ha, hr, hx, List.mem_cons_of_mem _ hj⟩

/-- every search path after the loop was there before or is one of the class' `path=` -/
theorem addToBanks_paths (c : ClassDef) (is : List ClassId) (st : St) (j : ClassId) (p : PathE)
    (h : p ∈ (getBank j (addToBanks st c is).1.banks).paths) :
    p ∈ (getBank j st.banks).paths ∨ p ∈ c.paths.map (fun m => (⟨m, true⟩ : PathE)) := by
  induction is generalizing st with
  | nil => exact Or.inl h
  | cons i rest ih =>
    simp only [addToBanks] at h
    cases hadd : (getBank i st.banks).add c with
    | error e => simp only [hadd] at h; exact Or.inl h
    | ok b =>
      simp only [hadd] at h
      rcases ih _ h with h1 | h1
      · simp only [getBank_setBank] at h1
        split at h1
        · rename_i hij
          subst hij
          rw [paths_after_add hadd] at h1
          exact mem_addPaths h1
        · exact Or.inl h1
      · exact Or.inr h1

/-- a loop that ran through has bound the (concrete) class under all its references in every bank it went to -/
theorem addToBanks_registers (c : ClassDef) (hc : c.abstract = false) (is : List ClassId) (st : St)
    (h : (addToBanks st c is).2 = none) (i : ClassId) (hi : i ∈ is) (r : Ref) (hr : r ∈ refs c) :
    lookupRef r (getBank i (addToBanks st c is).1.banks).provider = some c.id := by
  induction is generalizing st with
  | nil => simp at hi
  | cons i0 rest ih =>
    simp only [addToBanks] at h ⊢
    cases hadd : (getBank i0 st.banks).add c with
    | error e => simp [hadd] at h
    | ok b =>
      simp only [hadd] at h ⊢
      rcases List.mem_cons.1 hi with hi | hi
      · subst hi
        have hb : lookupRef r (getBank i { st with banks := setBank i b st.banks }.banks).provider = some c.id := by
          simp only [getBank_setBank, if_true]
          rw [lookup_after_add hadd]
          simp [hc, hr]
        exact ((addToBanks_le c rest _).1 i).1 r c.id hb
      · exact ih _ h hi

theorem initSubclass_loaded (c : ClassDef) (st : St) : (initSubclass st c).1.loaded = st.loaded := by
  unfold initSubclass
  split
  · rfl
  · exact addToBanks_loaded c _ st

theorem initSubclass_from (c : ClassDef) (st : St) (j : ClassId) (r : Ref) (x : ClassId)
    (h : lookupRef r (getBank j (initSubclass st c).1.banks).provider = some x) :
    lookupRef r (getBank j st.banks).provider = some x ∨ Carr c j r x := by
  unfold initSubclass at h
  split at h
  · exact Or.inl h
  · rcases addToBanks_from c _ st j r x h with h | ⟨ha, hr, hx, hj⟩
    · exact Or.inl h
    · exact Or.inr ⟨ha, hr, hx, hj⟩

theorem initSubclass_paths (c : ClassDef) (st : St) (j : ClassId) (p : PathE)
    (h : p ∈ (getBank j (initSubclass st c).1.banks).paths) :
    p ∈ (getBank j st.banks).paths ∨ p ∈ c.paths.map (fun m => (⟨m, true⟩ : PathE)) := by
  unfold initSubclass at h
  split at h
  · exact Or.inl h
  · exact addToBanks_paths c _ st j p h

theorem initSubclass_registers (c : ClassDef) (hc : c.abstract = false) (st : St) (h : (initSubclass st c).2 = none)
    (i : ClassId) (hi : i ∈ c.id :: c.parents) (r : Ref) (hr : r ∈ refs c) :
    lookupRef r (getBank i (initSubclass st c).1.banks).provider = some c.id := by
  unfold initSubclass at h ⊢
  split at h
  · simp at h
  · rename_i hna
    simp only [hna]
    exact addToBanks_registers c hc _ st h i hi r hr

/-! ### a module body -/

theorem execClasses_loaded (cs : List ClassDef) (st : St) : (execClasses st cs).1.loaded = st.loaded := by
  induction cs generalizing st with
  | nil => rfl
  | cons c rest ih =>
    simp only [execClasses]
    have h1 := initSubclass_loaded c st
    cases hi : initSubclass st c with
    | mk s1 e1 =>
      rw [hi] at h1
      cases e1 with
      | some e => exact h1
      | none => simp only; rw [ih s1]; exact h1

theorem execClasses_from (cs : List ClassDef) (st : St) (j : ClassId) (r : Ref) (x : ClassId)
    (h : lookupRef r (getBank j (execClasses st cs).1.banks).provider = some x) :
    lookupRef r (getBank j st.banks).provider = some x ∨ ∃ c ∈ cs, Carr c j r x := by
  induction cs generalizing st with
  | nil => exact Or.inl h
  | cons c rest ih =>
    simp only [execClasses] at h
    have h1 := initSubclass_from c st j r x
    cases hi : initSubclass st c with
    | mk s1 e1 =>
      rw [hi] at h h1
      cases e1 with
      | some e =>
        rcases h1 h with h2 | h2
        · exact Or.inl h2
        · exact Or.inr ⟨c, by simp, h2⟩
      | none =>
        simp only at h
        rcases ih s1 h with h2 | ⟨d, hd, hcar⟩
        · rcases h1 h2 with h3 | h3
          · exact Or.inl h3
          · exact Or.inr ⟨c, by simp, h3⟩
        · exact Or.inr ⟨d, List.mem_cons_of_mem _ hd, hcar⟩

theorem execClasses_paths (cs : List ClassDef) (st : St) (j : ClassId) (p : PathE)
    (h : p ∈ (getBank j (execClasses st cs).1.banks).paths) :
    p ∈ (getBank j st.banks).paths ∨ ∃ c ∈ cs, p ∈ c.paths.map (fun m => (⟨m, true⟩ : PathE)) := by
  induction cs generalizing st with
  | nil => exact Or.inl h
  | cons c rest ih =>
    simp only [execClasses] at h
    have h1 := initSubclass_paths c st j p
    cases hi : initSubclass st c with
    | mk s1 e1 =>
      rw [hi] at h h1
      cases e1 with
      | some e =>
        rcases h1 h with h2 | h2
        · exact Or.inl h2
        · exact Or.inr ⟨c, by simp, h2⟩
      | none =>
        simp only at h
        rcases ih s1 h with h2 | ⟨d, hd, hp⟩
        · rcases h1 h2 with h3 | h3
          · exact Or.inl h3
          · exact Or.inr ⟨c, by simp, h3⟩
        · exact Or.inr ⟨d, List.mem_cons_of_mem _ hd, hp⟩

theorem execClasses_registers (cs : List ClassDef) (st : St) (h : (execClasses st cs).2 = none) (c : ClassDef)
    (hc : c ∈ cs) (ha : c.abstract = false) (i : ClassId) (hi : i ∈ c.id :: c.parents) (r : Ref) (hr : r ∈ refs c) :
    lookupRef r (getBank i (execClasses st cs).1.banks).provider = some c.id := by
  induction cs generalizing st with
  | nil => simp at hc
  | cons c0 rest ih =>
    simp only [execClasses] at h ⊢
    have h1 : c0.abstract = false → (initSubclass st c0).2 = none → ∀ i ∈ c0.id :: c0.parents, ∀ r ∈ refs c0,
        lookupRef r (getBank i (initSubclass st c0).1.banks).provider = some c0.id :=
      fun ha0 h0 => initSubclass_registers c0 ha0 st h0
    cases hini : initSubclass st c0 with
    | mk s1 e1 =>
      rw [hini] at h h1
      cases e1 with
      | some e => simp at h
      | none =>
        simp only at h ⊢
        rcases List.mem_cons.1 hc with hc | hc
        · subst hc
          exact ((execClasses_le rest s1).1 i).1 r c.id (h1 ha rfl i hi r hr)
        · exact ih s1 h hc

/-! ### the invariant of process states in a defect-free world -/

/-- every concrete class of module `m` is bound, under all its references, in the bank of each of its Service ancestors -/
def ModReg (w : World) (st : St) (m : Mod) : Prop :=
  ∀ d, findMod m w = some d → ∀ c ∈ d.classes, c.abstract = false → ∀ i ∈ c.id :: c.parents, ∀ r ∈ refs c,
    lookupRef r (getBank i st.banks).provider = some c.id

theorem ModReg.mono {w : World} {st st' : St} {m : Mod} (hle : StLe st st') (h : ModReg w st m) : ModReg w st' m :=
  fun d hd c hc ha i hi r hr => (hle.1 i).1 r c.id (h d hd c hc ha i hi r hr)

/-- every `path=` of every class statement of the world can be imported (decidable) -/
def pathsOk (w : World) : Bool := (allClasses w).all (fun c => c.paths.all (fun m => importable w m))

/-- every sub-module of the world has its package in the world (decidable) -/
def pkgsExist (w : World) : Bool := w.all (fun e => e.1.sub.isNone || (findMod ⟨e.1.pkg, none⟩ w).isSome)

/-- what a process state reached in a defect-free world satisfies: bindings are justified (`StSound`), the classes of
every imported module are registered, every binding comes from an imported module, every registered explicit search
path exists -/
structure Inv (w : World) (st : St) : Prop where
  sound : StSound (InWorld w) st
  reg : ∀ m ∈ st.loaded, ModReg w st m
  src : ∀ i r x, lookupRef r (getBank i st.banks).provider = some x →
    ∃ m ∈ st.loaded, ∃ d, findMod m w = some d ∧ ∃ c ∈ d.classes, Carr c i r x
  paths : ∀ i, ∀ p ∈ (getBank i st.banks).paths, p.explicit = true → importable w p.mod = true

theorem inv_empty (w : World) : Inv w St.empty :=
  ⟨stSound_empty _, by intro m hm; simp [St.empty] at hm,
   by intro i r x h; simp [St.empty, getBank, Bank.empty, lookupRef] at h,
   by intro i p hp; simp [St.empty, getBank, Bank.empty] at hp⟩

theorem inv_execStable {w : World} (hw : worldClean w = true) (hpo : pathsOk w = true) : ExecStable w (Inv w) := by
  intro st m r hI hr
  have hclean := execMod_clean hw st m hI.sound r hr
  have hsound := execMod_sound w st m hI.sound r hr
  unfold execMod at hr
  cases hf : findMod m w with
  | none => simp [hf] at hr
  | some d =>
    simp only [hf] at hr
    by_cases hl : m ∈ st.loaded
    · simp [hl] at hr; subst hr; exact hI
    · simp only [List.contains_eq_mem, hl, decide_false] at hr
      have hle := execClasses_le d.classes st
      have hld := execClasses_loaded d.classes st
      have hfrom := execClasses_from d.classes st
      have hpaths := execClasses_paths d.classes st
      have hreg := execClasses_registers d.classes st
      cases he : execClasses st d.classes with
      | mk s1 e1 =>
        rw [he] at hle hld hfrom hpaths hreg
        cases e1 with
        | some e => simp [he] at hr; subst hr; simp at hclean
        | none =>
          simp [he] at hr
          subst hr
          simp only at hld hfrom hpaths hreg hsound ⊢
          refine ⟨hsound, ?_, ?_, ?_⟩
          · intro m' hm'
            rcases List.mem_cons.1 hm' with hm' | hm'
            · subst hm'
              intro d' hd' c hc ha i hi r hr
              rw [hf] at hd'
              cases hd'
              exact hreg trivial c hc ha i hi r hr
            · rw [hld] at hm'
              intro d' hd' c hc ha i hi r hr
              exact (hle.1 i).1 r c.id (hI.reg m' hm' d' hd' c hc ha i hi r hr)
          · intro i r x hx
            rcases hfrom i r x hx with h0 | ⟨c, hc, hcar⟩
            · obtain ⟨m0, hm0, rest⟩ := hI.src i r x h0
              exact ⟨m0, List.mem_cons_of_mem _ (by rw [hld]; exact hm0), rest⟩
            · exact ⟨m, by simp, d, hf, c, hc, hcar⟩
          · intro i p hp he
            rcases hpaths i p hp with h0 | ⟨c, hc, hpc⟩
            · exact hI.paths i p h0 he
            · simp only [List.mem_map] at hpc
              obtain ⟨pm, hpm, hpe⟩ := hpc
              subst hpe
              simp only [pathsOk, List.all_eq_true] at hpo
              exact hpo c ((inWorld_iff w c).1 ⟨m, d, findMod_mem hf, hc⟩) pm hpm

/-- every history — imports (failing ones too) and lookups of any interface — keeps the invariant -/
theorem inv_runHist {w : World} (hw : worldClean w = true) (hpo : pathsOk w = true) (ops : List HOp) (st : St)
    (h : Inv w st) : Inv w (runHist w st ops) :=
  runHist_lift (inv_execStable hw hpo) ops st h

/-! ### which modules a search path makes the process import -/

/-- the module bodies `Bank.Path.load` executes for a path, in order: the parent package and the module, or the
package and the sub-modules named in its `__all__` -/
def covers (w : World) (m : Mod) : List Mod :=
  match m.sub with
  | some _ => [⟨m.pkg, none⟩, m]
  | none => m :: (match findMod m w with
    | some d => d.subs.map (fun s => (⟨m.pkg, some s⟩ : Mod))
    | none => [])

theorem execMod_marks {w : World} {st st' : St} {m : Mod} (h : execMod w st m = some (st', none)) : m ∈ st'.loaded := by
  unfold execMod at h
  cases hf : findMod m w with
  | none => simp [hf] at h
  | some d =>
    simp only [hf] at h
    by_cases hl : m ∈ st.loaded
    · simp [hl] at h; subst h; exact hl
    · simp only [List.contains_eq_mem, hl, decide_false] at h
      cases he : execClasses st d.classes with
      | mk s1 e1 =>
        cases e1 with
        | some e => simp [he] at h
        | none => simp [he] at h; subst h; simp

theorem execMod_new {w : World} {st : St} {m : Mod} {r : St × Option Err} (h : execMod w st m = some r) (x : Mod)
    (hx : x ∈ r.1.loaded) : x ∈ st.loaded ∨ x = m := by
  unfold execMod at h
  cases hf : findMod m w with
  | none => simp [hf] at h
  | some d =>
    simp only [hf] at h
    by_cases hl : m ∈ st.loaded
    · simp [hl] at h; subst h; exact Or.inl hx
    · simp only [List.contains_eq_mem, hl, decide_false] at h
      have hld := execClasses_loaded d.classes st
      cases he : execClasses st d.classes with
      | mk s1 e1 =>
        rw [he] at hld
        cases e1 with
        | some e => simp [he] at h; subst h; exact Or.inl (by rw [← hld]; exact hx)
        | none =>
          simp [he] at h; subst h
          rcases List.mem_cons.1 hx with hx | hx
          · exact Or.inr hx
          · exact Or.inl (by rw [← hld]; exact hx)

theorem execMod_none_iff (w : World) (st : St) (m : Mod) : execMod w st m = none ↔ findMod m w = none := by
  have := execMod_isSome w st m
  cases h1 : execMod w st m <;> cases h2 : findMod m w <;> simp_all

theorem importSubs_marks (w : World) (pkg : Nat) (subs : List Nat) (st : St) (h : (importSubs w st pkg subs).2 = none)
    (s : Nat) (hs : s ∈ subs) (hf : (findMod ⟨pkg, some s⟩ w).isSome = true) :
    (⟨pkg, some s⟩ : Mod) ∈ (importSubs w st pkg subs).1.loaded := by
  induction subs generalizing st with
  | nil => simp at hs
  | cons s0 rest ih =>
    simp only [importSubs] at h ⊢
    cases he : execMod w st ⟨pkg, some s0⟩ with
    | none =>
      simp only [he] at h ⊢
      rcases List.mem_cons.1 hs with hs | hs
      · subst hs
        rw [(execMod_none_iff w st _).1 he] at hf
        simp at hf
      · exact ih st h hs
    | some r =>
      obtain ⟨s1, e1⟩ := r
      cases e1 with
      | some e => simp [he] at h
      | none =>
        simp only [he] at h ⊢
        rcases List.mem_cons.1 hs with hs | hs
        · subst hs
          exact (importSubs_le w pkg rest s1).2 _ (execMod_marks he)
        · exact ih s1 h hs

theorem importSubs_new (w : World) (pkg : Nat) (subs : List Nat) (st : St) (x : Mod)
    (hx : x ∈ (importSubs w st pkg subs).1.loaded) : x ∈ st.loaded ∨ ∃ s ∈ subs, x = ⟨pkg, some s⟩ := by
  induction subs generalizing st with
  | nil => exact Or.inl hx
  | cons s0 rest ih =>
    simp only [importSubs] at hx
    cases he : execMod w st ⟨pkg, some s0⟩ with
    | none =>
      simp only [he] at hx
      rcases ih st hx with h | ⟨s, hs, h⟩
      · exact Or.inl h
      · exact Or.inr ⟨s, List.mem_cons_of_mem _ hs, h⟩
    | some r =>
      obtain ⟨s1, e1⟩ := r
      have hn := execMod_new he x
      cases e1 with
      | some e =>
        simp only [he] at hx
        rcases hn hx with h | h
        · exact Or.inl h
        · exact Or.inr ⟨s0, by simp, h⟩
      | none =>
        simp only [he] at hx
        rcases ih s1 hx with h | ⟨s, hs, h⟩
        · rcases hn h with h | h
          · exact Or.inl h
          · exact Or.inr ⟨s0, by simp, h⟩
        · exact Or.inr ⟨s, List.mem_cons_of_mem _ hs, h⟩

/-- a load that did not raise has imported every module it covers that exists -/
theorem loadPath_marks (w : World) (st : St) (p : PathE) (h : (loadPath w st p).2 = none) (m : Mod)
    (hm : m ∈ covers w p.mod) (hi : importable w m = true) : m ∈ (loadPath w st p).1.loaded := by
  obtain ⟨⟨pkg, sub⟩, ex⟩ := p
  simp only [importable, Bool.and_eq_true, Bool.or_eq_true] at hi
  cases sub with
  | none =>
    simp only [covers, List.mem_cons] at hm
    simp only [loadPath, importMod] at h ⊢
    cases he : execMod w st ⟨pkg, none⟩ with
    | none =>
      have hnf := (execMod_none_iff w st _).1 he
      rcases hm with hm | hm
      · subst hm; rw [hnf] at hi; simp at hi
      · simp [hnf] at hm
    | some r =>
      obtain ⟨s1, e1⟩ := r
      cases e1 with
      | some e => simp [he] at h
      | none =>
        simp only [he] at h ⊢
        cases hf : findMod ⟨pkg, none⟩ w with
        | none => rw [(execMod_none_iff w st _).2 hf] at he; cases he
        | some d =>
          simp only [hf] at h hm ⊢
          rcases hm with hm | hm
          · subst hm
            exact (importSubs_le w pkg d.subs s1).2 _ (execMod_marks he)
          · simp only [List.mem_map] at hm
            obtain ⟨s, hs, hms⟩ := hm
            subst hms
            exact importSubs_marks w pkg d.subs s1 h s hs hi.1
  | some s =>
    simp only [covers, List.mem_cons, List.not_mem_nil, or_false] at hm
    simp only [loadPath, importMod] at h ⊢
    cases he : execMod w st ⟨pkg, none⟩ with
    | none =>
      have hnf := (execMod_none_iff w st _).1 he
      rcases hm with hm | hm
      · subst hm; rw [hnf] at hi; simp at hi
      · subst hm
        rcases hi.2 with h2 | h2
        · simp at h2
        · rw [hnf] at h2; simp at h2
    | some r =>
      obtain ⟨s1, e1⟩ := r
      cases e1 with
      | some e => simp [he] at h
      | none =>
        simp only [he] at h ⊢
        cases he2 : execMod w s1 ⟨pkg, some s⟩ with
        | none =>
          simp only [afterNotFound, he]
          rcases hm with hm | hm
          · subst hm; exact execMod_marks he
          · subst hm
            rw [(execMod_none_iff w s1 _).1 he2] at hi
            simp at hi
        | some r2 =>
          obtain ⟨s2, e2⟩ := r2
          cases e2 with
          | some e => simp [he2] at h
          | none =>
            rcases hm with hm | hm
            · subst hm; exact (execMod_le w s1 _ _ he2).2 _ (execMod_marks he)
            · subst hm; exact execMod_marks he2

theorem afterNotFound_new (w : World) (st : St) (m : Mod) (x : Mod) (hx : x ∈ (afterNotFound w st m).loaded) :
    x ∈ st.loaded ∨ x ∈ covers w m := by
  unfold afterNotFound at hx
  cases hsub : m.sub with
  | none => simp only [hsub] at hx; exact Or.inl hx
  | some s =>
    simp only [hsub] at hx
    cases he : execMod w st ⟨m.pkg, none⟩ with
    | none => simp only [he] at hx; exact Or.inl hx
    | some r =>
      obtain ⟨s1, e1⟩ := r
      cases e1 with
      | some e => simp only [he] at hx; exact Or.inl hx
      | none =>
        simp only [he] at hx
        rcases execMod_new he x hx with h | h
        · exact Or.inl h
        · exact Or.inr (by simp [covers, hsub, h])

/-- a load imports nothing but modules it covers -/
theorem loadPath_new (w : World) (st : St) (p : PathE) (x : Mod) (hx : x ∈ (loadPath w st p).1.loaded) :
    x ∈ st.loaded ∨ x ∈ covers w p.mod := by
  unfold loadPath at hx
  cases hi : importMod w st p.mod with
  | none => simp only [hi] at hx; exact afterNotFound_new w st _ x hx
  | some r =>
    obtain ⟨s1, e1⟩ := r
    -- what `import p.mod` itself may have loaded
    have himp : ∀ y, y ∈ s1.loaded → y ∈ st.loaded ∨ y ∈ covers w p.mod := by
      intro y hy
      unfold importMod at hi
      cases hsub : p.mod.sub with
      | none =>
        simp only [hsub] at hi
        rcases execMod_new hi y hy with h | h
        · exact Or.inl h
        · exact Or.inr (by simp [covers, hsub, h])
      | some s =>
        simp only [hsub] at hi
        cases he : execMod w st ⟨p.mod.pkg, none⟩ with
        | none => simp [he] at hi
        | some r1 =>
          obtain ⟨t1, f1⟩ := r1
          cases f1 with
          | some e =>
            simp [he] at hi
            obtain ⟨h1, _⟩ := hi
            subst h1
            rcases execMod_new he y hy with h | h
            · exact Or.inl h
            · exact Or.inr (by simp [covers, hsub, h])
          | none =>
            simp only [he] at hi
            rcases execMod_new hi y hy with h | h
            · rcases execMod_new he y h with h | h
              · exact Or.inl h
              · exact Or.inr (by simp [covers, hsub, h])
            · exact Or.inr (by simp [covers, hsub, h])
    cases e1 with
    | some e => simp only [hi] at hx; exact himp x hx
    | none =>
      simp only [hi] at hx
      cases hsub : p.mod.sub with
      | some s => simp only [hsub] at hx; exact himp x hx
      | none =>
        cases hf : findMod p.mod w with
        | none => simp only [hsub, hf] at hx; exact himp x hx
        | some d =>
          simp only [hsub, hf] at hx
          rcases importSubs_new w _ _ s1 x hx with h | ⟨s, hs, h⟩
          · exact himp x h
          · right
            simp only [covers, hsub, hf, List.mem_cons, List.mem_map]
            exact Or.inr ⟨s, hs, h.symm⟩

/-! ### what one lookup finds -/

/-- module `m` defines a concrete class below the interface that carries the reference -/
def carriesIn (w : World) (iface : ClassId) (r : Ref) (m : Mod) : Bool :=
  match findMod m w with
  | some d => d.classes.any (fun c => !c.abstract && (refs c).contains r && (c.id :: c.parents).contains iface)
  | none => false

/-- some search path of the list makes the process import a module that defines the reference below the interface -/
def found (w : World) (iface : ClassId) (r : Ref) (todo : List PathE) : Bool :=
  todo.any (fun p => (covers w p.mod).any (carriesIn w iface r))

theorem carriesIn_iff {w : World} {iface : ClassId} {r : Ref} {m : Mod} :
    carriesIn w iface r m = true ↔ ∃ d, findMod m w = some d ∧ ∃ c ∈ d.classes, ∃ x, Carr c iface r x := by
  unfold carriesIn
  cases hf : findMod m w with
  | none => simp
  | some d =>
    simp only [List.any_eq_true, Bool.and_eq_true, Bool.not_eq_true', List.contains_eq_mem, decide_eq_true_eq,
      Option.some.injEq, exists_eq_left', Carr]
    constructor
    · rintro ⟨c, hc, ⟨ha, hr⟩, hi⟩; exact ⟨c, hc, c.id, ha, hr, rfl, hi⟩
    · rintro ⟨c, hc, x, ha, hr, _, hi⟩; exact ⟨c, hc, ⟨ha, hr⟩, hi⟩

theorem importable_of_found {w : World} (hpk : pkgsExist w = true) {m : Mod} {d : ModuleDef}
    (hf : findMod m w = some d) : importable w m = true := by
  simp only [pkgsExist, List.all_eq_true] at hpk
  have := hpk (m, d) (findMod_mem hf)
  simp only [importable, hf, Option.isSome_some, Bool.true_and]
  exact this

/-- the loop either ends with the reference bound or has imported everything its search list covers -/
theorem getLoop_marks (w : World) (iface : ClassId) (r : Ref) (todo : List PathE) (st : St)
    (h : (getLoop w iface r st todo).2 = none) :
    (lookupRef r (getBank iface (getLoop w iface r st todo).1.banks).provider).isSome = true ∨
      ∀ p ∈ todo, ∀ m ∈ covers w p.mod, importable w m = true → m ∈ (getLoop w iface r st todo).1.loaded := by
  induction todo generalizing st with
  | nil => exact Or.inr (by simp)
  | cons p rest ih =>
    simp only [getLoop] at h ⊢
    split
    · rename_i hb; exact Or.inl hb
    · rename_i hb
      simp only [hb] at h
      have hm := loadPath_marks w st p
      cases hl : loadPath w st p with
      | mk s1 e1 =>
        rw [hl] at hm h
        cases e1 with
        | some e => simp at h
        | none =>
          simp only at h ⊢
          rcases ih s1 h with h1 | h1
          · exact Or.inl h1
          · right
            intro q hq m hmq hi
            rcases List.mem_cons.1 hq with hq | hq
            · subst hq
              exact (getLoop_le w iface r rest s1).2 _ (hm rfl m hmq hi)
            · exact h1 q hq m hmq hi

theorem getLoop_new (w : World) (iface : ClassId) (r : Ref) (todo : List PathE) (st : St) (x : Mod)
    (hx : x ∈ (getLoop w iface r st todo).1.loaded) : x ∈ st.loaded ∨ ∃ p ∈ todo, x ∈ covers w p.mod := by
  induction todo generalizing st with
  | nil => exact Or.inl hx
  | cons p rest ih =>
    simp only [getLoop] at hx
    split at hx
    · exact Or.inl hx
    · have hn := loadPath_new w st p x
      cases hl : loadPath w st p with
      | mk s1 e1 =>
        rw [hl] at hn hx
        cases e1 with
        | some e =>
          rcases hn hx with h | h
          · exact Or.inl h
          · exact Or.inr ⟨p, by simp, h⟩
        | none =>
          simp only at hx
          rcases ih s1 hx with h | ⟨q, hq, h⟩
          · rcases hn h with h | h
            · exact Or.inl h
            · exact Or.inr ⟨p, by simp, h⟩
          · exact Or.inr ⟨q, List.mem_cons_of_mem _ hq, h⟩

theorem todo_explicit_ok {w : World} {st : St} (hI : Inv w st) (iface : ClassId) (r : Ref) (o : List Mod) :
    ∀ p ∈ todoPaths (getBank iface st.banks) r o, p.explicit = true → importable w p.mod = true :=
  fun p hm he => hI.paths iface p (mem_todoPaths hm he) he

/-- a single lookup of an unbound reference in a defect-free world: it returns a class exactly when its search list
covers a module defining the reference below the interface, and raises the missing-provider error otherwise -/
theorem get_unbound {w : World} (hw : worldClean w = true) (hpo : pathsOk w = true) (hpk : pkgsExist w = true)
    {st : St} (hI : Inv w st) (iface : ClassId) (r : Ref) (o : List Mod)
    (hn : lookupRef r (getBank iface st.banks).provider = none) :
    (found w iface r (todoPaths (getBank iface st.banks) r o) = true → ∃ c, (get w st iface r o).2 = .ok c) ∧
    (found w iface r (todoPaths (getBank iface st.banks) r o) = false → (get w st iface r o).2 = .error .missing) := by
  have hclean := getLoop_clean hw iface r _ st hI.sound (todo_explicit_ok hI iface r o)
  have hInv := getLoop_lift (inv_execStable hw hpo) iface r (todoPaths (getBank iface st.banks) r o) st hI
  have hmarks := getLoop_marks w iface r (todoPaths (getBank iface st.banks) r o) st hclean
  have hnew := getLoop_new w iface r (todoPaths (getBank iface st.banks) r o) st
  unfold get
  simp only [hn]
  cases hl : getLoop w iface r st (todoPaths (getBank iface st.banks) r o) with
  | mk s1 e1 =>
    rw [hl] at hclean hInv hmarks hnew
    simp only at hclean hmarks hnew hInv
    subst hclean
    simp only [finish]
    constructor
    · intro hf
      simp only [found, List.any_eq_true] at hf
      obtain ⟨p, hp, m, hm, hcar⟩ := hf
      obtain ⟨d, hd, c, hc, x, hcarr⟩ := carriesIn_iff.1 hcar
      have hb : lookupRef r (getBank iface s1.banks).provider = some c.id := by
        rcases hmarks with h1 | h1
        · cases hb : lookupRef r (getBank iface s1.banks).provider with
          | none => simp [hb] at h1
          | some y =>
            -- bound already: to the same identity, because the world has no colliding references
            obtain ⟨c', hc', ha', hr', hi'⟩ := getBank_sound hInv.sound iface r y (lookupRef_mem hb)
            rw [← hi']
            exact congrArg some (worldClean_noCollision hw ⟨m, d, findMod_mem hd, hc⟩ hc' ha' hcarr.2.1 hr')
        · have hml := h1 p hp m hm (importable_of_found hpk hd)
          exact hInv.reg m hml d hd c hc hcarr.1 iface hcarr.2.2.2 r hcarr.2.1
      exact ⟨c.id, by simp [hb]⟩
    · intro hf
      cases hb : lookupRef r (getBank iface s1.banks).provider with
      | none => rfl
      | some y =>
        exfalso
        obtain ⟨m, hml, d, hd, c, hc, hcarr⟩ := hInv.src iface r y hb
        rcases hnew m hml with h0 | ⟨p, hp, hcov⟩
        · have := hI.reg m h0 d hd c hc hcarr.1 iface hcarr.2.2.2 r hcarr.2.1
          rw [hn] at this
          cases this
        · have : found w iface r (todoPaths (getBank iface st.banks) r o) = true := by
            simp only [found, List.any_eq_true]
            exact ⟨p, hp, m, hcov, carriesIn_iff.2 ⟨d, hd, c, hc, y, hcarr⟩⟩
          rw [hf] at this
          cases this

/-! ### growing search lists -/

theorem mem_arrange_of_valid {paths : List PathE} {order : List Mod} (h : validOrder paths order = true) {p : PathE}
    (hp : p ∈ paths) : p ∈ arrange paths order :=
  (validOrder_perm h).mem_iff.2 hp

/-- more registered paths (under a genuine iteration order) give a search list with at least the same entries -/
theorem todoPaths_mono {b b' : Bank} (hle : ∀ p ∈ b.paths, p ∈ b'.paths) (r : Ref) (o o' : List Mod)
    (ho' : validOrder b'.paths o' = true) {p : PathE} (hp : p ∈ todoPaths b r o) : p ∈ todoPaths b' r o' := by
  have hbase : ∀ q, q ∈ sortPaths (arrange b.paths o) → q ∈ sortPaths (arrange b'.paths o') := by
    intro q hq
    have h1 := mem_arrange ((sortPaths_perm_self _).mem_iff.1 hq)
    exact (sortPaths_perm_self _).mem_iff.2 (mem_arrange_of_valid ho' (hle q h1))
  simp only [todoPaths, List.mem_reverse, List.mem_append] at hp ⊢
  rcases hp with hp | hp
  · exact Or.inl (hbase p hp)
  · right
    cases r with
    | qual c => simpa [refPaths] using hp
    | alias a =>
      simp only [refPaths, List.mem_filterMap] at hp ⊢
      obtain ⟨q, hq, hqp⟩ := hp
      exact ⟨q, hbase q hq, hqp⟩

theorem found_mono {w : World} {iface : ClassId} {r : Ref} {l l' : List PathE} (h : ∀ p ∈ l, p ∈ l')
    (hf : found w iface r l = true) : found w iface r l' = true := by
  simp only [found, List.any_eq_true] at hf ⊢
  obtain ⟨p, hp, rest⟩ := hf
  exact ⟨p, h p hp, rest⟩

/-- in a world without colliding references two lookups that return a class return the same class -/
theorem get_unique {w : World} (hw : worldClean w = true) {st st' : St} (hs : StSound (InWorld w) st)
    (hs' : StSound (InWorld w) st') (iface iface' : ClassId) (r : Ref) (o o' : List Mod) (c c' : ClassId)
    (h : (get w st iface r o).2 = .ok c) (h' : (get w st' iface' r o').2 = .ok c') : c = c' := by
  obtain ⟨d, hd, _, hr, hi⟩ := (get_sound w st iface r o hs).2 c h
  obtain ⟨d', hd', ha', hr', hi'⟩ := (get_sound w st' iface' r o' hs').2 c' h'
  rw [← hi, ← hi']
  exact (worldClean_noCollision hw hd hd' ha' hr hr').symm

/-- liveness under extension: an answer that a lookup gives in one state, it gives in every later state -/
theorem get_hit_mono {w : World} (hw : worldClean w = true) (hpo : pathsOk w = true) (hpk : pkgsExist w = true)
    {st st' : St} (hI : Inv w st) (hI' : Inv w st') (hle : StLe st st') (iface : ClassId) (r : Ref) (o o' : List Mod)
    (ho' : validOrder (getBank iface st'.banks).paths o' = true) (c : ClassId)
    (h : (get w st iface r o).2 = .ok c) : (get w st' iface r o').2 = .ok c := by
  cases hb' : lookupRef r (getBank iface st'.banks).provider with
  | some y =>
    have h' : (get w st' iface r o').2 = .ok y := get_of_bound w st' iface r o' y hb'
    rw [h']
    exact congrArg Res.ok (get_unique hw hI.sound hI'.sound iface iface r o o' c y h h').symm
  | none =>
    cases hb : lookupRef r (getBank iface st.banks).provider with
    | some y =>
      have := (hle.1 iface).1 r y hb
      rw [hb'] at this
      cases this
    | none =>
      have hu := get_unbound hw hpo hpk hI iface r o hb
      have hu' := get_unbound hw hpo hpk hI' iface r o' hb'
      cases hf : found w iface r (todoPaths (getBank iface st.banks) r o) with
      | false => rw [hu.2 hf] at h; cases h
      | true =>
        have hf' : found w iface r (todoPaths (getBank iface st'.banks) r o') = true :=
          found_mono (fun p hp => todoPaths_mono (hle.1 iface).2 r o o' ho' hp) hf
        obtain ⟨y, hy⟩ := hu'.1 hf'
        rw [hy]
        exact congrArg Res.ok (get_unique hw hI.sound hI'.sound iface iface r o o' c y h hy).symm

/-! ### worlds in which every provider can be discovered from the registered search paths -/

/-- the search list of `Bank.get` as a set: the registered paths and the candidates the reference derives from them -/
def rawTodo (b : Bank) (r : Ref) : List PathE := b.paths ++ refPaths r b.paths

theorem mem_todoPaths_of_raw {b : Bank} {r : Ref} {o : List Mod} (ho : validOrder b.paths o = true) {p : PathE}
    (hp : p ∈ rawTodo b r) : p ∈ todoPaths b r o := by
  have hbase : ∀ q, q ∈ b.paths → q ∈ sortPaths (arrange b.paths o) :=
    fun q hq => (sortPaths_perm_self _).mem_iff.2 (mem_arrange_of_valid ho hq)
  simp only [rawTodo, List.mem_append] at hp
  simp only [todoPaths, List.mem_reverse, List.mem_append]
  rcases hp with hp | hp
  · exact Or.inl (hbase p hp)
  · right
    cases r with
    | qual c => simpa [refPaths] using hp
    | alias a =>
      simp only [refPaths, List.mem_filterMap] at hp ⊢
      obtain ⟨q, hq, hqp⟩ := hp
      exact ⟨q, hbase q hq, hqp⟩

/-- every reference of every concrete class below the interface is bound already or can be found from the search
paths registered for the interface (decidable): the layout of `forml.provider.*` — providers in sub-modules named
after their alias, or listed in the package's `__all__` -/
def discoverable (w : World) (st : St) (iface : ClassId) : Bool :=
  (allClasses w).all fun c =>
    c.abstract || !(c.id :: c.parents).contains iface ||
      (refs c).all fun r =>
        (lookupRef r (getBank iface st.banks).provider).isSome || found w iface r (rawTodo (getBank iface st.banks) r)

/-- history independence in a discoverable, defect-free world: whatever was imported or looked up in between — hits,
misses, other references, other interfaces, failing imports — `Service[reference]` answers as it would have at once -/
theorem get_history_free {w : World} (hw : worldClean w = true) (hpo : pathsOk w = true) (hpk : pkgsExist w = true)
    {st : St} (hI : Inv w st) (iface : ClassId) (hd : discoverable w st iface = true) (ops : List HOp) (r : Ref)
    (o o' : List Mod) (ho : validOrder (getBank iface st.banks).paths o = true)
    (ho' : validOrder (getBank iface (runHist w st ops).banks).paths o' = true) :
    (get w (runHist w st ops) iface r o').2 = (get w st iface r o).2 := by
  have hI' := inv_runHist hw hpo ops st hI
  have hle := runHist_le w ops st
  by_cases hcar : ∃ c ∈ allClasses w, c.abstract = false ∧ iface ∈ c.id :: c.parents ∧ r ∈ refs c
  · obtain ⟨c, hc, ha, hi, hr⟩ := hcar
    have hone : ∃ y, (get w st iface r o).2 = .ok y := by
      simp only [discoverable, List.all_eq_true, Bool.or_eq_true, Bool.not_eq_true', List.contains_eq_mem,
        decide_eq_false_iff_not] at hd
      rcases hd c hc with (h1 | h1) | h1
      · rw [ha] at h1; cases h1
      · exact absurd hi h1
      · rcases h1 r hr with h2 | h2
        · cases hb : lookupRef r (getBank iface st.banks).provider with
          | none => simp [hb] at h2
          | some y => exact ⟨y, get_of_bound w st iface r o y hb⟩
        · cases hb : lookupRef r (getBank iface st.banks).provider with
          | some y => exact ⟨y, get_of_bound w st iface r o y hb⟩
          | none =>
            exact (get_unbound hw hpo hpk hI iface r o hb).1
              (found_mono (fun p hp => mem_todoPaths_of_raw ho hp) h2)
    obtain ⟨y, hy⟩ := hone
    rw [hy]
    exact get_hit_mono hw hpo hpk hI hI' hle iface r o o' ho' y hy
  · have hmiss : ∀ (s : St) (os : List Mod), Inv w s → (get w s iface r os).2 = .error .missing := by
      intro s os hs
      have hb : lookupRef r (getBank iface s.banks).provider = none := by
        cases hb : lookupRef r (getBank iface s.banks).provider with
        | none => rfl
        | some y =>
          exfalso
          obtain ⟨m, _, d, hd', c, hc, hcarr⟩ := hs.src iface r y hb
          exact hcar ⟨c, (inWorld_iff w c).1 ⟨m, d, findMod_mem hd', hc⟩, hcarr.1, hcarr.2.2.2, hcarr.2.1⟩
      apply (get_unbound hw hpo hpk hs iface r os hb).2
      cases hf : found w iface r (todoPaths (getBank iface s.banks) r os) with
      | false => rfl
      | true =>
        exfalso
        simp only [found, List.any_eq_true] at hf
        obtain ⟨p, _, m, _, hcin⟩ := hf
        obtain ⟨d, hd', c, hc, x, hcarr⟩ := carriesIn_iff.1 hcin
        exact hcar ⟨c, (inWorld_iff w c).1 ⟨m, d, findMod_mem hd', hc⟩, hcarr.1, hcarr.2.2.2, hcarr.2.1⟩
    rw [hmiss _ o' hI', hmiss _ o hI]

/-! ### asking twice -/

/-- every class statement that declares search paths (`path=`) lives in a module that is imported already (decidable):
no lookup can register a search path that the bank does not have yet -/
def pathsSettled (w : World) (st : St) : Bool :=
  w.all (fun e => st.loaded.contains e.1 || e.2.classes.all (fun c => c.paths.isEmpty))

/-- relative to a settled state `st`: nothing of `st` was unloaded and no bank has a path that it did not have in `st` -/
def NoNewPaths (st : St) (s : St) : Prop :=
  (∀ m ∈ st.loaded, m ∈ s.loaded) ∧ ∀ i, ∀ p ∈ (getBank i s.banks).paths, p ∈ (getBank i st.banks).paths

theorem noNewPaths_execStable {w : World} {st : St} (hset : pathsSettled w st = true) : ExecStable w (NoNewPaths st) := by
  intro s m r hP hr
  have hle := execMod_le w s m r hr
  refine ⟨fun x hx => hle.2 x (hP.1 x hx), ?_⟩
  unfold execMod at hr
  cases hf : findMod m w with
  | none => simp [hf] at hr
  | some d =>
    simp only [hf] at hr
    by_cases hl : m ∈ s.loaded
    · simp [hl] at hr; subst hr; exact hP.2
    · simp only [List.contains_eq_mem, hl, decide_false] at hr
      have hpaths := execClasses_paths d.classes s
      have hempty : ∀ c ∈ d.classes, c.paths = [] := by
        simp only [pathsSettled, List.all_eq_true, Bool.or_eq_true, List.contains_eq_mem, decide_eq_true_eq,
          List.isEmpty_iff] at hset
        rcases hset (m, d) (findMod_mem hf) with h | h
        · exact absurd (hP.1 m h) hl
        · exact h
      have key : ∀ i, ∀ p ∈ (getBank i (execClasses s d.classes).1.banks).paths, p ∈ (getBank i st.banks).paths := by
        intro i p hp
        rcases hpaths i p hp with h | ⟨c, hc, hpc⟩
        · exact hP.2 i p h
        · rw [hempty c hc] at hpc; simp at hpc
      cases he : execClasses s d.classes with
      | mk s1 e1 =>
        rw [he] at key
        cases e1 with
        | some e => simp [he] at hr; subst hr; exact key
        | none => simp [he] at hr; subst hr; exact key

/-- asking again gives the same answer, provided no class that is still to be discovered declares search paths -/
theorem get_repeat {w : World} (hw : worldClean w = true) (hpo : pathsOk w = true) (hpk : pkgsExist w = true)
    {st : St} (hI : Inv w st) (hset : pathsSettled w st = true) (iface : ClassId) (r : Ref) (o o' : List Mod)
    (ho : validOrder (getBank iface st.banks).paths o = true)
    (ho' : validOrder (getBank iface (get w st iface r o).1.banks).paths o' = true) :
    (get w (get w st iface r o).1 iface r o').2 = (get w st iface r o).2 := by
  have hI' : Inv w (get w st iface r o).1 := get_lift (inv_execStable hw hpo) st iface r o hI
  have hle := get_le w st iface r o
  have hnp : NoNewPaths st (get w st iface r o).1 :=
    get_lift (noNewPaths_execStable hset) st iface r o ⟨fun _ h => h, fun _ _ h => h⟩
  cases h1 : (get w st iface r o).2 with
  | ok c => exact get_hit_mono hw hpo hpk hI hI' hle iface r o o' ho' c h1
  | error e =>
    -- the first lookup was a miss: the reference is unbound before and after it, and nothing new can be found
    have hb : lookupRef r (getBank iface st.banks).provider = none := by
      cases hb : lookupRef r (getBank iface st.banks).provider with
      | none => rfl
      | some y => rw [get_of_bound w st iface r o y hb] at h1; cases h1
    have hu := get_unbound hw hpo hpk hI iface r o hb
    have hf : found w iface r (todoPaths (getBank iface st.banks) r o) = false := by
      cases hf : found w iface r (todoPaths (getBank iface st.banks) r o) with
      | false => rfl
      | true => obtain ⟨y, hy⟩ := hu.1 hf; rw [hy] at h1; cases h1
    have he : e = .missing := by
      have := hu.2 hf
      rw [h1] at this
      cases this
      rfl
    subst he
    have hb' : lookupRef r (getBank iface (get w st iface r o).1.banks).provider = none := by
      cases hb' : lookupRef r (getBank iface (get w st iface r o).1.banks).provider with
      | none => rfl
      | some y =>
        exfalso
        obtain ⟨m, hml, d, hd, c, hc, hcarr⟩ := hI'.src iface r y hb'
        -- the module was imported by the first lookup, whose search list would then have found the reference
        have hnew : m ∈ st.loaded ∨ ∃ p ∈ todoPaths (getBank iface st.banks) r o, m ∈ covers w p.mod := by
          have := getLoop_new w iface r (todoPaths (getBank iface st.banks) r o) st m
          unfold get at hml
          simp only [hb] at hml
          cases hl : getLoop w iface r st (todoPaths (getBank iface st.banks) r o) with
          | mk s1 e1 =>
            rw [hl] at this hml
            apply this
            cases e1 with
            | some e => simpa [finish] using hml
            | none =>
              simp only [finish] at hml
              split at hml <;> exact hml
        rcases hnew with h0 | ⟨p, hp, hcov⟩
        · have := hI.reg m h0 d hd c hc hcarr.1 iface hcarr.2.2.2 r hcarr.2.1
          rw [hb] at this
          cases this
        · have : found w iface r (todoPaths (getBank iface st.banks) r o) = true := by
            simp only [found, List.any_eq_true]
            exact ⟨p, hp, m, hcov, carriesIn_iff.2 ⟨d, hd, c, hc, y, hcarr⟩⟩
          rw [hf] at this
          cases this
    apply (get_unbound hw hpo hpk hI' iface r o' hb').2
    cases hf' : found w iface r (todoPaths (getBank iface (get w st iface r o).1.banks) r o') with
    | false => rfl
    | true =>
      have := found_mono (fun p hp => todoPaths_mono (hnp.2 iface) r o' o ho hp) hf'
      rw [hf] at this
      cases this

end ForML.Bank
