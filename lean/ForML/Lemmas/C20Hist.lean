/- Lookup histories on lazily searched provider packages (C20): what a process state reached in a defect-free world
knows (`Inv`), what a single lookup finds (`found`), and why an answer once available stays available. -/
import ForML.Lemmas.C20Mono

namespace ForML.Bank

/-! ### lifting a property of states through everything that is built from module executions -/

/-- `P` survives the execution of any module body -/
def ExecStable (w : World) (P : St → Prop) : Prop := ∀ st m r, P st → execMod w st m = some r → P r.1

theorem importSubs_lift {w : World} {P : St → Prop} (hP : ExecStable w P) (pkg : Nat) (subs : List Nat) (st : St)
    (h : P st) : P (importSubs w st pkg subs).1 := by
  induction subs generalizing st with
  | nil => exact h
  | cons s rest ih =>
    simp only [importSubs]
    cases he : execMod w st ⟨pkg, some s⟩ with
    | none => exact ih st h
    | some r =>
      have h1 := hP st _ r h he
      obtain ⟨s1, e1⟩ := r
      cases e1 with
      | some e => exact h1
      | none => exact ih s1 h1

theorem importMod_lift {w : World} {P : St → Prop} (hP : ExecStable w P) (st : St) (m : Mod) (h : P st) :
    ∀ r, importMod w st m = some r → P r.1 := by
  intro r hr
  unfold importMod at hr
  cases hsub : m.sub with
  | none => simp only [hsub] at hr; exact hP st m r h hr
  | some s =>
    simp only [hsub] at hr
    cases he : execMod w st ⟨m.pkg, none⟩ with
    | none => simp [he] at hr
    | some r1 =>
      have h1 := hP st _ r1 h he
      obtain ⟨s1, e1⟩ := r1
      cases e1 with
      | some e => simp [he] at hr; subst hr; exact h1
      | none => simp only [he] at hr; exact hP s1 m r h1 hr

theorem afterNotFound_lift {w : World} {P : St → Prop} (hP : ExecStable w P) (st : St) (m : Mod) (h : P st) :
    P (afterNotFound w st m) := by
  unfold afterNotFound
  cases m.sub with
  | none => exact h
  | some s =>
    simp only
    cases he : execMod w st ⟨m.pkg, none⟩ with
    | none => exact h
    | some r =>
      have h1 := hP st _ r h he
      obtain ⟨st', e⟩ := r
      cases e with
      | some e => exact h
      | none => exact h1

theorem loadPath_lift {w : World} {P : St → Prop} (hP : ExecStable w P) (st : St) (p : PathE) (h : P st) :
    P (loadPath w st p).1 := by
  unfold loadPath
  cases hi : importMod w st p.mod with
  | none => exact afterNotFound_lift hP st _ h
  | some r =>
    have h1 := importMod_lift hP st _ h r hi
    obtain ⟨s1, e1⟩ := r
    cases e1 with
    | some e => exact h1
    | none =>
      simp only
      split
      · exact importSubs_lift hP _ _ s1 h1
      · exact h1

theorem getLoop_lift {w : World} {P : St → Prop} (hP : ExecStable w P) (iface : ClassId) (r : Ref) (n : Nat)
    (st : St) (searched : List Mod) (h : P st) : P (getLoop w iface r n st searched).1 := by
  induction n generalizing st searched with
  | zero => exact h
  | succ n ih =>
    simp only [getLoop]
    split
    · exact h
    · cases hn : nextPath (getBank iface st.banks) r searched with
      | none => exact h
      | some p =>
        simp only
        have h1 := loadPath_lift hP st p h
        cases hl : loadPath w st p with
        | mk s1 e1 =>
          rw [hl] at h1
          cases e1 with
          | some e => exact h1
          | none => exact ih s1 _ h1

/-- the state a lookup leaves behind is the state its search loop leaves behind -/
theorem get_state (w : World) (st : St) (iface : ClassId) (r : Ref) :
    (get w st iface r).1 = (getLoop w iface r (searchFuel w) st []).1 := by
  unfold get
  cases getLoop w iface r (searchFuel w) st [] with
  | mk s1 e1 =>
    cases e1 with
    | some e => rfl
    | none => simp only [finish]; split <;> rfl

theorem get_lift {w : World} {P : St → Prop} (hP : ExecStable w P) (st : St) (iface : ClassId) (r : Ref)
    (h : P st) : P (get w st iface r).1 := by
  rw [get_state]
  exact getLoop_lift hP iface r _ st [] h

theorem runHist_lift {w : World} {P : St → Prop} (hP : ExecStable w P) (ops : List HOp) (st : St) (h : P st) :
    P (runHist w st ops) := by
  induction ops generalizing st with
  | nil => exact h
  | cons op rest ih =>
    cases op with
    | imp m =>
      simp only [runHist]
      cases hi : importMod w st m with
      | none => exact ih _ (afterNotFound_lift hP st m h)
      | some r =>
        obtain ⟨s1, e1⟩ := r
        exact ih s1 (importMod_lift hP st m h _ hi)
    | get i r =>
      simp only [runHist]
      exact ih _ (get_lift hP st i r h)

/-! ### what one class statement does to the banks -/

theorem mem_addPaths {ps qs : List PathE} {p : PathE} (h : p ∈ addPaths ps qs) : p ∈ ps ∨ p ∈ qs := by
  induction qs generalizing ps with
  | nil => exact Or.inl (by simpa [addPaths] using h)
  | cons q qs ih =>
    simp only [addPaths] at h
    rcases ih h with h | h
    · split at h
      · exact Or.inl h
      · rcases List.mem_append.1 h with h | h
        · exact Or.inl h
        · simp at h; exact Or.inr (by simp [h])
    · exact Or.inr (List.mem_cons_of_mem _ h)

/-- `c` is a concrete class below the interface `i` that carries `r` and has the identity `x` -/
def Carr (c : ClassDef) (i : ClassId) (r : Ref) (x : ClassId) : Prop :=
  c.abstract = false ∧ r ∈ refs c ∧ c.id = x ∧ i ∈ c.id :: c.parents

theorem addToBanks_loaded (c : ClassDef) (is : List ClassId) (st : St) : (addToBanks st c is).1.loaded = st.loaded := by
  induction is generalizing st with
  | nil => rfl
  | cons i rest ih =>
    simp only [addToBanks]
    cases (getBank i st.banks).add c with
    | error e => rfl
    | ok b => simp only; rw [ih]

/-- every binding after the loop `for parent in …: BANK[parent].add(cls, …)` was there before or is one of `cls` -/
theorem addToBanks_from (c : ClassDef) (is : List ClassId) (st : St) (j : ClassId) (r : Ref) (x : ClassId)
    (h : lookupRef r (getBank j (addToBanks st c is).1.banks).provider = some x) :
    lookupRef r (getBank j st.banks).provider = some x ∨ (c.abstract = false ∧ r ∈ refs c ∧ c.id = x ∧ j ∈ is) := by
  induction is generalizing st with
  | nil => exact Or.inl h
  | cons i rest ih =>
    simp only [addToBanks] at h
    cases hadd : (getBank i st.banks).add c with
    | error e => simp only [hadd] at h; exact Or.inl h
    | ok b =>
      simp only [hadd] at h
      rcases ih _ h with h1 | ⟨ha, hr, hx, hj⟩
      · simp only [getBank_setBank] at h1
        split at h1
        · rename_i hij
          subst hij
          rw [lookup_after_add hadd] at h1
          by_cases hc : c.abstract = false ∧ r ∈ refs c
          · simp only [hc, and_self, if_true, Option.some.injEq] at h1
            exact Or.inr ⟨hc.1, hc.2, h1, by simp⟩
          · simp only [hc, if_false] at h1; exact Or.inl h1
        · exact Or.inl h1
      · exact Or.inr ⟨ha, hr, hx, List.mem_cons_of_mem _ hj⟩

theorem mem_addPaths_right {ps qs : List PathE} {q : PathE} (h : q ∈ qs) : ∃ q' ∈ addPaths ps qs, q'.mod = q.mod := by
  induction qs generalizing ps with
  | nil => simp at h
  | cons q0 qs ih =>
    simp only [addPaths]
    rcases List.mem_cons.1 h with h | h
    · subst h
      split
      · rename_i ha
        obtain ⟨e, he, hm⟩ := List.any_eq_true.1 ha
        exact ⟨e, mem_addPaths_left he _, by simpa using hm⟩
      · exact ⟨q, mem_addPaths_left (by simp) _, rfl⟩
    · exact ih h

/-- every search path after the loop was there before or is one of the class' `path=`, put into a bank the loop went to -/
theorem addToBanks_paths (c : ClassDef) (is : List ClassId) (st : St) (j : ClassId) (p : PathE)
    (h : p ∈ (getBank j (addToBanks st c is).1.banks).paths) :
    p ∈ (getBank j st.banks).paths ∨ (j ∈ is ∧ p ∈ c.paths.map (fun m => (⟨m, true⟩ : PathE))) := by
  induction is generalizing st with
  | nil => exact Or.inl h
  | cons i rest ih =>
    simp only [addToBanks] at h
    cases hadd : (getBank i st.banks).add c with
    | error e => simp only [hadd] at h; exact Or.inl h
    | ok b =>
      simp only [hadd] at h
      rcases ih _ h with h1 | ⟨hj, h1⟩
      · simp only [getBank_setBank] at h1
        split at h1
        · rename_i hij
          subst hij
          rw [paths_after_add hadd] at h1
          rcases mem_addPaths h1 with h2 | h2
          · exact Or.inl h2
          · exact Or.inr ⟨by simp, h2⟩
        · exact Or.inl h1
      · exact Or.inr ⟨List.mem_cons_of_mem _ hj, h1⟩

/-- a loop that ran through has put every `path=` of the class (abstract or not) into every bank it went to -/
theorem addToBanks_pathsreg (c : ClassDef) (is : List ClassId) (st : St) (h : (addToBanks st c is).2 = none)
    (i : ClassId) (hi : i ∈ is) (pm : Mod) (hp : pm ∈ c.paths) :
    ∃ q ∈ (getBank i (addToBanks st c is).1.banks).paths, q.mod = pm := by
  induction is generalizing st with
  | nil => simp at hi
  | cons i0 rest ih =>
    simp only [addToBanks] at h ⊢
    cases hadd : (getBank i0 st.banks).add c with
    | error e => simp [hadd] at h
    | ok b =>
      simp only [hadd] at h ⊢
      rcases List.mem_cons.1 hi with hi | hi
      · subst hi
        obtain ⟨q, hq, hqm⟩ := mem_addPaths_right (ps := (getBank i st.banks).paths)
          (qs := c.paths.map (fun m => (⟨m, true⟩ : PathE))) (q := ⟨pm, true⟩) (List.mem_map.2 ⟨pm, hp, rfl⟩)
        rw [← paths_after_add hadd] at hq
        have hb : q ∈ (getBank i { st with banks := setBank i b st.banks }.banks).paths := by
          simp only [getBank_setBank, if_true]; exact hq
        exact ⟨q, ((addToBanks_le c rest _).1 i).2 q hb, hqm⟩
      · exact ih _ h hi

/-- a loop that ran through has bound the (concrete) class under all its references in every bank it went to -/
theorem addToBanks_registers (c : ClassDef) (hc : c.abstract = false) (is : List ClassId) (st : St)
    (h : (addToBanks st c is).2 = none) (i : ClassId) (hi : i ∈ is) (r : Ref) (hr : r ∈ refs c) :
    lookupRef r (getBank i (addToBanks st c is).1.banks).provider = some c.id := by
  induction is generalizing st with
  | nil => simp at hi
  | cons i0 rest ih =>
    simp only [addToBanks] at h ⊢
    cases hadd : (getBank i0 st.banks).add c with
    | error e => simp [hadd] at h
    | ok b =>
      simp only [hadd] at h ⊢
      rcases List.mem_cons.1 hi with hi | hi
      · subst hi
        have hb : lookupRef r (getBank i { st with banks := setBank i b st.banks }.banks).provider = some c.id := by
          simp only [getBank_setBank, if_true]
          rw [lookup_after_add hadd]
          simp [hc, hr]
        exact ((addToBanks_le c rest _).1 i).1 r c.id hb
      · exact ih _ h hi

theorem initSubclass_loaded (c : ClassDef) (st : St) : (initSubclass st c).1.loaded = st.loaded := by
  unfold initSubclass
  split
  · rfl
  · exact addToBanks_loaded c _ st

theorem initSubclass_from (c : ClassDef) (st : St) (j : ClassId) (r : Ref) (x : ClassId)
    (h : lookupRef r (getBank j (initSubclass st c).1.banks).provider = some x) :
    lookupRef r (getBank j st.banks).provider = some x ∨ Carr c j r x := by
  unfold initSubclass at h
  split at h
  · exact Or.inl h
  · rcases addToBanks_from c _ st j r x h with h | ⟨ha, hr, hx, hj⟩
    · exact Or.inl h
    · exact Or.inr ⟨ha, hr, hx, hj⟩

theorem initSubclass_paths (c : ClassDef) (st : St) (j : ClassId) (p : PathE)
    (h : p ∈ (getBank j (initSubclass st c).1.banks).paths) :
    p ∈ (getBank j st.banks).paths ∨ (j ∈ c.id :: c.parents ∧ p ∈ c.paths.map (fun m => (⟨m, true⟩ : PathE))) := by
  unfold initSubclass at h
  split at h
  · exact Or.inl h
  · exact addToBanks_paths c _ st j p h

theorem initSubclass_pathsreg (c : ClassDef) (st : St) (h : (initSubclass st c).2 = none)
    (i : ClassId) (hi : i ∈ c.id :: c.parents) (pm : Mod) (hp : pm ∈ c.paths) :
    ∃ q ∈ (getBank i (initSubclass st c).1.banks).paths, q.mod = pm := by
  unfold initSubclass at h ⊢
  split at h
  · simp at h
  · rename_i hna
    simp only [hna]
    exact addToBanks_pathsreg c _ st h i hi pm hp

theorem initSubclass_registers (c : ClassDef) (hc : c.abstract = false) (st : St) (h : (initSubclass st c).2 = none)
    (i : ClassId) (hi : i ∈ c.id :: c.parents) (r : Ref) (hr : r ∈ refs c) :
    lookupRef r (getBank i (initSubclass st c).1.banks).provider = some c.id := by
  unfold initSubclass at h ⊢
  split at h
  · simp at h
  · rename_i hna
    simp only [hna]
    exact addToBanks_registers c hc _ st h i hi r hr

/-! ### a module body -/

theorem execClasses_loaded (cs : List ClassDef) (st : St) : (execClasses st cs).1.loaded = st.loaded := by
  induction cs generalizing st with
  | nil => rfl
  | cons c rest ih =>
    simp only [execClasses]
    have h1 := initSubclass_loaded c st
    cases hi : initSubclass st c with
    | mk s1 e1 =>
      rw [hi] at h1
      cases e1 with
      | some e => exact h1
      | none => simp only; rw [ih s1]; exact h1

theorem execClasses_from (cs : List ClassDef) (st : St) (j : ClassId) (r : Ref) (x : ClassId)
    (h : lookupRef r (getBank j (execClasses st cs).1.banks).provider = some x) :
    lookupRef r (getBank j st.banks).provider = some x ∨ ∃ c ∈ cs, Carr c j r x := by
  induction cs generalizing st with
  | nil => exact Or.inl h
  | cons c rest ih =>
    simp only [execClasses] at h
    have h1 := initSubclass_from c st j r x
    cases hi : initSubclass st c with
    | mk s1 e1 =>
      rw [hi] at h h1
      cases e1 with
      | some e =>
        rcases h1 h with h2 | h2
        · exact Or.inl h2
        · exact Or.inr ⟨c, by simp, h2⟩
      | none =>
        simp only at h
        rcases ih s1 h with h2 | ⟨d, hd, hcar⟩
        · rcases h1 h2 with h3 | h3
          · exact Or.inl h3
          · exact Or.inr ⟨c, by simp, h3⟩
        · exact Or.inr ⟨d, List.mem_cons_of_mem _ hd, hcar⟩

theorem execClasses_paths (cs : List ClassDef) (st : St) (j : ClassId) (p : PathE)
    (h : p ∈ (getBank j (execClasses st cs).1.banks).paths) :
    p ∈ (getBank j st.banks).paths ∨
      ∃ c ∈ cs, j ∈ c.id :: c.parents ∧ p ∈ c.paths.map (fun m => (⟨m, true⟩ : PathE)) := by
  induction cs generalizing st with
  | nil => exact Or.inl h
  | cons c rest ih =>
    simp only [execClasses] at h
    have h1 := initSubclass_paths c st j p
    cases hi : initSubclass st c with
    | mk s1 e1 =>
      rw [hi] at h h1
      cases e1 with
      | some e =>
        rcases h1 h with h2 | h2
        · exact Or.inl h2
        · exact Or.inr ⟨c, by simp, h2⟩
      | none =>
        simp only at h
        rcases ih s1 h with h2 | ⟨d, hd, hp⟩
        · rcases h1 h2 with h3 | h3
          · exact Or.inl h3
          · exact Or.inr ⟨c, by simp, h3⟩
        · exact Or.inr ⟨d, List.mem_cons_of_mem _ hd, hp⟩

theorem execClasses_pathsreg (cs : List ClassDef) (st : St) (h : (execClasses st cs).2 = none) (c : ClassDef)
    (hc : c ∈ cs) (i : ClassId) (hi : i ∈ c.id :: c.parents) (pm : Mod) (hp : pm ∈ c.paths) :
    ∃ q ∈ (getBank i (execClasses st cs).1.banks).paths, q.mod = pm := by
  induction cs generalizing st with
  | nil => simp at hc
  | cons c0 rest ih =>
    simp only [execClasses] at h ⊢
    have h1 : (initSubclass st c0).2 = none → ∀ i ∈ c0.id :: c0.parents, ∀ pm ∈ c0.paths,
        ∃ q ∈ (getBank i (initSubclass st c0).1.banks).paths, q.mod = pm :=
      fun h0 i hi pm hp => initSubclass_pathsreg c0 st h0 i hi pm hp
    cases hini : initSubclass st c0 with
    | mk s1 e1 =>
      rw [hini] at h h1
      cases e1 with
      | some e => simp at h
      | none =>
        simp only at h ⊢
        rcases List.mem_cons.1 hc with hc | hc
        · subst hc
          obtain ⟨q, hq, hqm⟩ := h1 rfl i hi pm hp
          exact ⟨q, ((execClasses_le rest s1).1 i).2 q hq, hqm⟩
        · exact ih s1 h hc

theorem execClasses_registers (cs : List ClassDef) (st : St) (h : (execClasses st cs).2 = none) (c : ClassDef)
    (hc : c ∈ cs) (ha : c.abstract = false) (i : ClassId) (hi : i ∈ c.id :: c.parents) (r : Ref) (hr : r ∈ refs c) :
    lookupRef r (getBank i (execClasses st cs).1.banks).provider = some c.id := by
  induction cs generalizing st with
  | nil => simp at hc
  | cons c0 rest ih =>
    simp only [execClasses] at h ⊢
    have h1 : c0.abstract = false → (initSubclass st c0).2 = none → ∀ i ∈ c0.id :: c0.parents, ∀ r ∈ refs c0,
        lookupRef r (getBank i (initSubclass st c0).1.banks).provider = some c0.id :=
      fun ha0 h0 => initSubclass_registers c0 ha0 st h0
    cases hini : initSubclass st c0 with
    | mk s1 e1 =>
      rw [hini] at h h1
      cases e1 with
      | some e => simp at h
      | none =>
        simp only at h ⊢
        rcases List.mem_cons.1 hc with hc | hc
        · subst hc
          exact ((execClasses_le rest s1).1 i).1 r c.id (h1 ha rfl i hi r hr)
        · exact ih s1 h hc

/-! ### the invariant of process states in a defect-free world -/

/-- every concrete class of module `m` is bound, under all its references, in the bank of each of its Service ancestors -/
def ModReg (w : World) (st : St) (m : Mod) : Prop :=
  ∀ d, findMod m w = some d → ∀ c ∈ d.classes, c.abstract = false → ∀ i ∈ c.id :: c.parents, ∀ r ∈ refs c,
    lookupRef r (getBank i st.banks).provider = some c.id

theorem ModReg.mono {w : World} {st st' : St} {m : Mod} (hle : StLe st st') (h : ModReg w st m) : ModReg w st' m :=
  fun d hd c hc ha i hi r hr => (hle.1 i).1 r c.id (h d hd c hc ha i hi r hr)

/-- every `path=` of every class statement of the world can be imported (decidable) -/
def pathsOk (w : World) : Bool := (allClasses w).all (fun c => c.paths.all (fun m => importable w m))

/-- every sub-module of the world has its package in the world (decidable) -/
def pkgsExist (w : World) : Bool := w.all (fun e => e.1.sub.isNone || (findMod ⟨e.1.pkg, none⟩ w).isSome)

/-- what a process state reached in a defect-free world satisfies: bindings are justified (`StSound`); the classes of
every imported module are registered (`reg`) and so are their search paths (`preg`); every binding (`src`) and every
search path (`psrc`) comes from an imported module; imported modules exist (`ex`) -/
structure Inv (w : World) (st : St) : Prop where
  sound : StSound (InWorld w) st
  reg : ∀ m ∈ st.loaded, ModReg w st m
  src : ∀ i r x, lookupRef r (getBank i st.banks).provider = some x →
    ∃ m ∈ st.loaded, ∃ d, findMod m w = some d ∧ ∃ c ∈ d.classes, Carr c i r x
  ex : ∀ m ∈ st.loaded, (findMod m w).isSome = true
  psrc : ∀ i, ∀ q ∈ (getBank i st.banks).paths, ∃ m ∈ st.loaded, ∃ d, findMod m w = some d ∧
    ∃ c ∈ d.classes, i ∈ c.id :: c.parents ∧ q ∈ c.paths.map (fun m => (⟨m, true⟩ : PathE))
  preg : ∀ m ∈ st.loaded, ∀ d, findMod m w = some d → ∀ c ∈ d.classes, ∀ i ∈ c.id :: c.parents, ∀ pm ∈ c.paths,
    ∃ q ∈ (getBank i st.banks).paths, q.mod = pm

theorem inv_empty (w : World) : Inv w St.empty :=
  ⟨stSound_empty _, by intro m hm; simp [St.empty] at hm,
   by intro i r x h; simp [St.empty, getBank, Bank.empty, lookupRef] at h,
   by intro m hm; simp [St.empty] at hm,
   by intro i q hq; simp [St.empty, getBank, Bank.empty] at hq,
   by intro m hm; simp [St.empty] at hm⟩

/-- every registered search path is a declared one: it exists (`pathsOk`) -/
theorem inv_paths_ok {w : World} (hpo : pathsOk w = true) {st : St} (hI : Inv w st) (i : ClassId) (p : PathE)
    (hp : p ∈ (getBank i st.banks).paths) : importable w p.mod = true := by
  obtain ⟨m, _, d, hd, c, hc, _, hpc⟩ := hI.psrc i p hp
  simp only [List.mem_map] at hpc
  obtain ⟨pm, hpm, hpe⟩ := hpc
  subst hpe
  simp only [pathsOk, List.all_eq_true] at hpo
  exact hpo c ((inWorld_iff w c).1 ⟨m, d, findMod_mem hd, hc⟩) pm hpm

theorem inv_execStable {w : World} (hw : worldClean w = true) : ExecStable w (Inv w) := by
  intro st m r hI hr
  have hclean := execMod_clean hw st m hI.sound r hr
  have hsound := execMod_sound w st m hI.sound r hr
  unfold execMod at hr
  cases hf : findMod m w with
  | none => simp [hf] at hr
  | some d =>
    simp only [hf] at hr
    by_cases hl : m ∈ st.loaded
    · simp [hl] at hr; subst hr; exact hI
    · simp only [List.contains_eq_mem, hl, decide_false] at hr
      have hle := execClasses_le d.classes st
      have hld := execClasses_loaded d.classes st
      have hfrom := execClasses_from d.classes st
      have hpaths := execClasses_paths d.classes st
      have hreg := execClasses_registers d.classes st
      have hpreg := execClasses_pathsreg d.classes st
      cases he : execClasses st d.classes with
      | mk s1 e1 =>
        rw [he] at hle hld hfrom hpaths hreg hpreg
        cases e1 with
        | some e => simp [he] at hr; subst hr; simp at hclean
        | none =>
          simp [he] at hr
          subst hr
          simp only at hld hfrom hpaths hreg hpreg hsound ⊢
          refine ⟨hsound, ?_, ?_, ?_, ?_, ?_⟩
          · intro m' hm'
            rcases List.mem_cons.1 hm' with hm' | hm'
            · subst hm'
              intro d' hd' c hc ha i hi r hr
              rw [hf] at hd'
              cases hd'
              exact hreg trivial c hc ha i hi r hr
            · rw [hld] at hm'
              intro d' hd' c hc ha i hi r hr
              exact (hle.1 i).1 r c.id (hI.reg m' hm' d' hd' c hc ha i hi r hr)
          · intro i r x hx
            rcases hfrom i r x hx with h0 | ⟨c, hc, hcar⟩
            · obtain ⟨m0, hm0, rest⟩ := hI.src i r x h0
              exact ⟨m0, List.mem_cons_of_mem _ (by rw [hld]; exact hm0), rest⟩
            · exact ⟨m, by simp, d, hf, c, hc, hcar⟩
          · intro m' hm'
            rcases List.mem_cons.1 hm' with hm' | hm'
            · subst hm'; simp [hf]
            · rw [hld] at hm'; exact hI.ex m' hm'
          · intro i q hq
            rcases hpaths i q hq with h0 | ⟨c, hc, hi, hpc⟩
            · obtain ⟨m0, hm0, rest⟩ := hI.psrc i q h0
              exact ⟨m0, List.mem_cons_of_mem _ (by rw [hld]; exact hm0), rest⟩
            · exact ⟨m, by simp, d, hf, c, hc, hi, hpc⟩
          · intro m' hm' d' hd' c hc i hi pm hpm
            rcases List.mem_cons.1 hm' with hm' | hm'
            · subst hm'
              rw [hf] at hd'
              cases hd'
              exact hpreg trivial c hc i hi pm hpm
            · rw [hld] at hm'
              obtain ⟨q, hq, hqm⟩ := hI.preg m' hm' d' hd' c hc i hi pm hpm
              exact ⟨q, (hle.1 i).2 q hq, hqm⟩

/-- every history — imports (failing ones too) and lookups of any interface — keeps the invariant -/
theorem inv_runHist {w : World} (hw : worldClean w = true) (ops : List HOp) (st : St)
    (h : Inv w st) : Inv w (runHist w st ops) :=
  runHist_lift (inv_execStable hw) ops st h

/-! ### which modules a search path makes the process import -/

/-- the module bodies `Bank.Path.load` executes for a path, in order: the parent package and the module, or the
package and the sub-modules named in its `__all__` -/
def covers (w : World) (m : Mod) : List Mod :=
  match m.sub with
  | some _ => [⟨m.pkg, none⟩, m]
  | none => m :: (match findMod m w with
    | some d => d.subs.map (fun s => (⟨m.pkg, some s⟩ : Mod))
    | none => [])

theorem execMod_marks {w : World} {st st' : St} {m : Mod} (h : execMod w st m = some (st', none)) : m ∈ st'.loaded := by
  unfold execMod at h
  cases hf : findMod m w with
  | none => simp [hf] at h
  | some d =>
    simp only [hf] at h
    by_cases hl : m ∈ st.loaded
    · simp [hl] at h; subst h; exact hl
    · simp only [List.contains_eq_mem, hl, decide_false] at h
      cases he : execClasses st d.classes with
      | mk s1 e1 =>
        cases e1 with
        | some e => simp [he] at h
        | none => simp [he] at h; subst h; simp

theorem execMod_new {w : World} {st : St} {m : Mod} {r : St × Option Err} (h : execMod w st m = some r) (x : Mod)
    (hx : x ∈ r.1.loaded) : x ∈ st.loaded ∨ x = m := by
  unfold execMod at h
  cases hf : findMod m w with
  | none => simp [hf] at h
  | some d =>
    simp only [hf] at h
    by_cases hl : m ∈ st.loaded
    · simp [hl] at h; subst h; exact Or.inl hx
    · simp only [List.contains_eq_mem, hl, decide_false] at h
      have hld := execClasses_loaded d.classes st
      cases he : execClasses st d.classes with
      | mk s1 e1 =>
        rw [he] at hld
        cases e1 with
        | some e => simp [he] at h; subst h; exact Or.inl (by rw [← hld]; exact hx)
        | none =>
          simp [he] at h; subst h
          rcases List.mem_cons.1 hx with hx | hx
          · exact Or.inr hx
          · exact Or.inl (by rw [← hld]; exact hx)

theorem execMod_none_iff (w : World) (st : St) (m : Mod) : execMod w st m = none ↔ findMod m w = none := by
  have := execMod_isSome w st m
  cases h1 : execMod w st m <;> cases h2 : findMod m w <;> simp_all

theorem importSubs_marks (w : World) (pkg : Nat) (subs : List Nat) (st : St) (h : (importSubs w st pkg subs).2 = none)
    (s : Nat) (hs : s ∈ subs) (hf : (findMod ⟨pkg, some s⟩ w).isSome = true) :
    (⟨pkg, some s⟩ : Mod) ∈ (importSubs w st pkg subs).1.loaded := by
  induction subs generalizing st with
  | nil => simp at hs
  | cons s0 rest ih =>
    simp only [importSubs] at h ⊢
    cases he : execMod w st ⟨pkg, some s0⟩ with
    | none =>
      simp only [he] at h ⊢
      rcases List.mem_cons.1 hs with hs | hs
      · subst hs
        rw [(execMod_none_iff w st _).1 he] at hf
        simp at hf
      · exact ih st h hs
    | some r =>
      obtain ⟨s1, e1⟩ := r
      cases e1 with
      | some e => simp [he] at h
      | none =>
        simp only [he] at h ⊢
        rcases List.mem_cons.1 hs with hs | hs
        · subst hs
          exact (importSubs_le w pkg rest s1).2 _ (execMod_marks he)
        · exact ih s1 h hs

theorem importSubs_new (w : World) (pkg : Nat) (subs : List Nat) (st : St) (x : Mod)
    (hx : x ∈ (importSubs w st pkg subs).1.loaded) : x ∈ st.loaded ∨ ∃ s ∈ subs, x = ⟨pkg, some s⟩ := by
  induction subs generalizing st with
  | nil => exact Or.inl hx
  | cons s0 rest ih =>
    simp only [importSubs] at hx
    cases he : execMod w st ⟨pkg, some s0⟩ with
    | none =>
      simp only [he] at hx
      rcases ih st hx with h | ⟨s, hs, h⟩
      · exact Or.inl h
      · exact Or.inr ⟨s, List.mem_cons_of_mem _ hs, h⟩
    | some r =>
      obtain ⟨s1, e1⟩ := r
      have hn := execMod_new he x
      cases e1 with
      | some e =>
        simp only [he] at hx
        rcases hn hx with h | h
        · exact Or.inl h
        · exact Or.inr ⟨s0, by simp, h⟩
      | none =>
        simp only [he] at hx
        rcases ih s1 hx with h | ⟨s, hs, h⟩
        · rcases hn h with h | h
          · exact Or.inl h
          · exact Or.inr ⟨s0, by simp, h⟩
        · exact Or.inr ⟨s, List.mem_cons_of_mem _ hs, h⟩

/-- a load that did not raise has imported every module it covers that exists -/
theorem loadPath_marks (w : World) (st : St) (p : PathE) (h : (loadPath w st p).2 = none) (m : Mod)
    (hm : m ∈ covers w p.mod) (hi : importable w m = true) : m ∈ (loadPath w st p).1.loaded := by
  obtain ⟨⟨pkg, sub⟩, ex⟩ := p
  simp only [importable, Bool.and_eq_true, Bool.or_eq_true] at hi
  cases sub with
  | none =>
    simp only [covers, List.mem_cons] at hm
    simp only [loadPath, importMod] at h ⊢
    cases he : execMod w st ⟨pkg, none⟩ with
    | none =>
      have hnf := (execMod_none_iff w st _).1 he
      rcases hm with hm | hm
      · subst hm; rw [hnf] at hi; simp at hi
      · simp [hnf] at hm
    | some r =>
      obtain ⟨s1, e1⟩ := r
      cases e1 with
      | some e => simp [he] at h
      | none =>
        simp only [he] at h ⊢
        cases hf : findMod ⟨pkg, none⟩ w with
        | none => rw [(execMod_none_iff w st _).2 hf] at he; cases he
        | some d =>
          simp only [hf] at h hm ⊢
          rcases hm with hm | hm
          · subst hm
            exact (importSubs_le w pkg d.subs s1).2 _ (execMod_marks he)
          · simp only [List.mem_map] at hm
            obtain ⟨s, hs, hms⟩ := hm
            subst hms
            exact importSubs_marks w pkg d.subs s1 h s hs hi.1
  | some s =>
    simp only [covers, List.mem_cons, List.not_mem_nil, or_false] at hm
    simp only [loadPath, importMod] at h ⊢
    cases he : execMod w st ⟨pkg, none⟩ with
    | none =>
      have hnf := (execMod_none_iff w st _).1 he
      rcases hm with hm | hm
      · subst hm; rw [hnf] at hi; simp at hi
      · subst hm
        rcases hi.2 with h2 | h2
        · simp at h2
        · rw [hnf] at h2; simp at h2
    | some r =>
      obtain ⟨s1, e1⟩ := r
      cases e1 with
      | some e => simp [he] at h
      | none =>
        simp only [he] at h ⊢
        cases he2 : execMod w s1 ⟨pkg, some s⟩ with
        | none =>
          simp only [afterNotFound, he]
          rcases hm with hm | hm
          · subst hm; exact execMod_marks he
          · subst hm
            rw [(execMod_none_iff w s1 _).1 he2] at hi
            simp at hi
        | some r2 =>
          obtain ⟨s2, e2⟩ := r2
          cases e2 with
          | some e => simp [he2] at h
          | none =>
            rcases hm with hm | hm
            · subst hm; exact (execMod_le w s1 _ _ he2).2 _ (execMod_marks he)
            · subst hm; exact execMod_marks he2

theorem afterNotFound_new (w : World) (st : St) (m : Mod) (x : Mod) (hx : x ∈ (afterNotFound w st m).loaded) :
    x ∈ st.loaded ∨ x ∈ covers w m := by
  unfold afterNotFound at hx
  cases hsub : m.sub with
  | none => simp only [hsub] at hx; exact Or.inl hx
  | some s =>
    simp only [hsub] at hx
    cases he : execMod w st ⟨m.pkg, none⟩ with
    | none => simp only [he] at hx; exact Or.inl hx
    | some r =>
      obtain ⟨s1, e1⟩ := r
      cases e1 with
      | some e => simp only [he] at hx; exact Or.inl hx
      | none =>
        simp only [he] at hx
        rcases execMod_new he x hx with h | h
        · exact Or.inl h
        · exact Or.inr (by simp [covers, hsub, h])

/-- a load imports nothing but modules it covers -/
theorem loadPath_new (w : World) (st : St) (p : PathE) (x : Mod) (hx : x ∈ (loadPath w st p).1.loaded) :
    x ∈ st.loaded ∨ x ∈ covers w p.mod := by
  unfold loadPath at hx
  cases hi : importMod w st p.mod with
  | none => simp only [hi] at hx; exact afterNotFound_new w st _ x hx
  | some r =>
    obtain ⟨s1, e1⟩ := r
    -- what `import p.mod` itself may have loaded
    have himp : ∀ y, y ∈ s1.loaded → y ∈ st.loaded ∨ y ∈ covers w p.mod := by
      intro y hy
      unfold importMod at hi
      cases hsub : p.mod.sub with
      | none =>
        simp only [hsub] at hi
        rcases execMod_new hi y hy with h | h
        · exact Or.inl h
        · exact Or.inr (by simp [covers, hsub, h])
      | some s =>
        simp only [hsub] at hi
        cases he : execMod w st ⟨p.mod.pkg, none⟩ with
        | none => simp [he] at hi
        | some r1 =>
          obtain ⟨t1, f1⟩ := r1
          cases f1 with
          | some e =>
            simp [he] at hi
            obtain ⟨h1, _⟩ := hi
            subst h1
            rcases execMod_new he y hy with h | h
            · exact Or.inl h
            · exact Or.inr (by simp [covers, hsub, h])
          | none =>
            simp only [he] at hi
            rcases execMod_new hi y hy with h | h
            · rcases execMod_new he y h with h | h
              · exact Or.inl h
              · exact Or.inr (by simp [covers, hsub, h])
            · exact Or.inr (by simp [covers, hsub, h])
    cases e1 with
    | some e => simp only [hi] at hx; exact himp x hx
    | none =>
      simp only [hi] at hx
      cases hsub : p.mod.sub with
      | some s => simp only [hsub] at hx; exact himp x hx
      | none =>
        cases hf : findMod p.mod w with
        | none => simp only [hsub, hf] at hx; exact himp x hx
        | some d =>
          simp only [hsub, hf] at hx
          rcases importSubs_new w _ _ s1 x hx with h | ⟨s, hs, h⟩
          · exact himp x h
          · right
            simp only [covers, hsub, hf, List.mem_cons, List.mem_map]
            exact Or.inr ⟨s, hs, h.symm⟩

/-! ### what one lookup finds -/

/-- module `m` defines a concrete class below the interface that carries the reference -/
def carriesIn (w : World) (iface : ClassId) (r : Ref) (m : Mod) : Bool :=
  match findMod m w with
  | some d => d.classes.any (fun c => !c.abstract && (refs c).contains r && (c.id :: c.parents).contains iface)
  | none => false

/-- some search path of the list makes the process import a module that defines the reference below the interface -/
def found (w : World) (iface : ClassId) (r : Ref) (todo : List PathE) : Bool :=
  todo.any (fun p => (covers w p.mod).any (carriesIn w iface r))

theorem carriesIn_iff {w : World} {iface : ClassId} {r : Ref} {m : Mod} :
    carriesIn w iface r m = true ↔ ∃ d, findMod m w = some d ∧ ∃ c ∈ d.classes, ∃ x, Carr c iface r x := by
  unfold carriesIn
  cases hf : findMod m w with
  | none => simp
  | some d =>
    simp only [List.any_eq_true, Bool.and_eq_true, Bool.not_eq_true', List.contains_eq_mem, decide_eq_true_eq,
      Option.some.injEq, exists_eq_left', Carr]
    constructor
    · rintro ⟨c, hc, ⟨ha, hr⟩, hi⟩; exact ⟨c, hc, c.id, ha, hr, rfl, hi⟩
    · rintro ⟨c, hc, x, ha, hr, _, hi⟩; exact ⟨c, hc, ⟨ha, hr⟩, hi⟩

theorem importable_of_found {w : World} (hpk : pkgsExist w = true) {m : Mod} {d : ModuleDef}
    (hf : findMod m w = some d) : importable w m = true := by
  simp only [pkgsExist, List.all_eq_true] at hpk
  have := hpk (m, d) (findMod_mem hf)
  simp only [importable, hf, Option.isSome_some, Bool.true_and]
  exact this

/-! ### the search loop never runs out of iterations -/

theorem nodup_subset_length {α : Type} [DecidableEq α] : ∀ (l u : List α), l.Nodup → (∀ x ∈ l, x ∈ u) → l.length ≤ u.length
  | [], _, _, _ => Nat.zero_le _
  | a :: t, u, hn, hs => by
    have ha : a ∈ u := hs a (by simp)
    have hn' := List.nodup_cons.1 hn
    have ih : t.length ≤ (u.erase a).length := nodup_subset_length t (u.erase a) hn'.2 (by
      intro x hx
      have hxa : x ≠ a := fun h => hn'.1 (h ▸ hx)
      exact (List.mem_erase_of_ne hxa).2 (hs x (List.mem_cons_of_mem _ hx)))
    rw [List.length_erase_of_mem ha] at ih
    have hpos : 0 < u.length := List.length_pos_of_mem ha
    simp only [List.length_cons]
    omega

/-- the module names the search loop can ever take for a reference: the declared search paths and what the reference
derives from them -/
def cands (D : List Mod) : Ref → List Mod
  | .qual c => D ++ [c.mod]
  | .alias a => D ++ D.filterMap (fun m => match m.sub with
      | none => some (⟨m.pkg, some a⟩ : Mod)
      | some _ => none)

theorem cands_length (D : List Mod) (r : Ref) : (cands D r).length ≤ 2 * D.length + 1 := by
  cases r with
  | qual c => simp [cands]; omega
  | alias a =>
    simp only [cands, List.length_append]
    have := List.length_filterMap_le (fun m : Mod => match m.sub with
      | none => some (⟨m.pkg, some a⟩ : Mod)
      | some _ => none) D
    omega

theorem mem_cands {b : Bank} {r : Ref} {D : List Mod} (hD : ∀ q ∈ b.paths, q.mod ∈ D) {p : PathE}
    (hp : p ∈ searchList b r) : p.mod ∈ cands D r := by
  simp only [searchList, List.mem_reverse, List.mem_append] at hp
  have hbase : ∀ q, q ∈ sortPaths b.paths → q.mod ∈ D :=
    fun q hq => hD q ((sortPaths_perm_self _).mem_iff.1 hq)
  rcases hp with hp | hp
  · cases r <;> exact List.mem_append_left _ (hbase p hp)
  · cases r with
    | qual c =>
      simp only [refPaths, List.mem_singleton] at hp
      subst hp
      simp [cands]
    | alias a =>
      simp only [refPaths, List.mem_filterMap] at hp
      obtain ⟨q, hq, hqp⟩ := hp
      apply List.mem_append_right
      simp only [List.mem_filterMap]
      refine ⟨q.mod, hbase q hq, ?_⟩
      cases hs : q.mod.sub with
      | none => simp only [hs] at hqp ⊢; cases hqp; rfl
      | some x => simp [hs] at hqp

theorem inv_declared {w : World} {st : St} (hI : Inv w st) (i : ClassId) :
    ∀ q ∈ (getBank i st.banks).paths, q.mod ∈ declaredPaths w := by
  intro q hq
  obtain ⟨m, _, d, hd, c, hc, _, hpc⟩ := hI.psrc i q hq
  simp only [List.mem_map] at hpc
  obtain ⟨pm, hpm, hpe⟩ := hpc
  subst hpe
  simp only [declaredPaths, List.mem_flatMap]
  exact ⟨(m, d), findMod_mem hd, c, hc, hpm⟩

/-- the search of the state is exhausted: every module covered by an entry of its search list is imported -/
def Closed (w : World) (iface : ClassId) (r : Ref) (s : St) : Prop :=
  ∀ q ∈ searchList (getBank iface s.banks) r, ∀ m ∈ covers w q.mod, importable w m = true → m ∈ s.loaded

/-- in a defect-free world no import of the search loop raises -/
theorem getLoop_noerr {w : World} (hw : worldClean w = true) (hpo : pathsOk w = true) (iface : ClassId) (r : Ref)
    (n : Nat) (st : St) (searched : List Mod) (hI : Inv w st) : (getLoop w iface r n st searched).2 = none := by
  induction n generalizing st searched with
  | zero => rfl
  | succ n ih =>
    simp only [getLoop]
    split
    · rfl
    · cases hn : nextPath (getBank iface st.banks) r searched with
      | none => rfl
      | some p =>
        simp only
        have hp := (nextPath_some hn).1
        have h1 := loadPath_lift (inv_execStable hw) st p hI
        have h2 := loadPath_clean hw st p hI.sound
          (fun he => inv_paths_ok hpo hI iface p (mem_searchList_explicit hp he))
        cases hl : loadPath w st p with
        | mk s1 e1 =>
          rw [hl] at h1 h2
          simp only at h2
          subst h2
          exact ih s1 _ h1

/-- with `searchFuel` iterations the loop always ends by itself: with the reference bound or with the search exhausted
(every iteration searches a new module name out of `cands`) -/
theorem getLoop_closed {w : World} (hw : worldClean w = true) (hpo : pathsOk w = true) (iface : ClassId) (r : Ref)
    (n : Nat) (st : St) (searched : List Mod) (hI : Inv w st) (hnd : searched.Nodup)
    (hsub : ∀ x ∈ searched, x ∈ cands (declaredPaths w) r)
    (hdone : ∀ x ∈ searched, ∀ m ∈ covers w x, importable w m = true → m ∈ st.loaded)
    (hfuel : (cands (declaredPaths w) r).length < n + searched.length) :
    (lookupRef r (getBank iface (getLoop w iface r n st searched).1.banks).provider).isSome = true ∨
      Closed w iface r (getLoop w iface r n st searched).1 := by
  induction n generalizing st searched with
  | zero =>
    have := nodup_subset_length searched _ hnd hsub
    omega
  | succ n ih =>
    simp only [getLoop]
    split
    · rename_i hb; exact Or.inl hb
    · cases hn : nextPath (getBank iface st.banks) r searched with
      | none =>
        right
        intro q hq m hm hi
        exact hdone q.mod (nextPath_none hn q hq) m hm hi
      | some p =>
        simp only
        obtain ⟨hp, hps⟩ := nextPath_some hn
        have h1 := loadPath_lift (inv_execStable hw) st p hI
        have h2 := loadPath_clean hw st p hI.sound
          (fun he => inv_paths_ok hpo hI iface p (mem_searchList_explicit hp he))
        have hm := loadPath_marks w st p
        have hle := loadPath_le w st p
        cases hl : loadPath w st p with
        | mk s1 e1 =>
          rw [hl] at h1 h2 hm hle
          simp only at h2
          subst h2
          apply ih s1 (p.mod :: searched) h1 (List.nodup_cons.2 ⟨hps, hnd⟩)
          · intro x hx
            rcases List.mem_cons.1 hx with hx | hx
            · subst hx; exact mem_cands (inv_declared hI iface) hp
            · exact hsub x hx
          · intro x hx m hmx hi
            rcases List.mem_cons.1 hx with hx | hx
            · subst hx; exact hm rfl m hmx hi
            · exact hle.2 m (hdone x hx m hmx hi)
          · simp only [List.length_cons]; omega

/-- how a lookup ends in a defect-free world: with the class bound, or with the missing-provider error in a state whose
search is exhausted -/
theorem get_end {w : World} (hw : worldClean w = true) (hpo : pathsOk w = true) {st : St} (hI : Inv w st)
    (iface : ClassId) (r : Ref) :
    Inv w (get w st iface r).1 ∧
      ((∃ c, (get w st iface r).2 = .ok c ∧ lookupRef r (getBank iface (get w st iface r).1.banks).provider = some c) ∨
       ((get w st iface r).2 = .error .missing ∧
          lookupRef r (getBank iface (get w st iface r).1.banks).provider = none ∧
          Closed w iface r (get w st iface r).1)) := by
  have hInv := getLoop_lift (inv_execStable hw) iface r (searchFuel w) st [] hI
  have hne := getLoop_noerr hw hpo iface r (searchFuel w) st [] hI
  have hcl := getLoop_closed hw hpo iface r (searchFuel w) st [] hI List.nodup_nil (by simp) (by simp)
    (by have := cands_length (declaredPaths w) r; simp only [searchFuel, List.length_nil]; omega)
  unfold get
  cases hl : getLoop w iface r (searchFuel w) st [] with
  | mk s1 e1 =>
    rw [hl] at hInv hne hcl
    simp only at hne hInv hcl
    subst hne
    simp only [finish]
    cases hb : lookupRef r (getBank iface s1.banks).provider with
    | some c => exact ⟨hInv, Or.inl ⟨c, rfl, hb⟩⟩
    | none =>
      refine ⟨hInv, Or.inr ⟨rfl, hb, ?_⟩⟩
      rcases hcl with h | h
      · simp [hb] at h
      · exact h

/-! ### a search that is exhausted stays ahead of every other search -/

theorem searchList_mono {b b' : Bank} (hle : ∀ p ∈ b.paths, p ∈ b'.paths) (r : Ref) {p : PathE}
    (hp : p ∈ searchList b r) : p ∈ searchList b' r := by
  have hbase : ∀ q, q ∈ sortPaths b.paths → q ∈ sortPaths b'.paths :=
    fun q hq => (sortPaths_perm_self _).mem_iff.2 (hle q ((sortPaths_perm_self _).mem_iff.1 hq))
  simp only [searchList, List.mem_reverse, List.mem_append] at hp ⊢
  rcases hp with hp | hp
  · exact Or.inl (hbase p hp)
  · right
    cases r with
    | qual c => simpa [refPaths] using hp
    | alias a =>
      simp only [refPaths, List.mem_filterMap] at hp ⊢
      obtain ⟨q, hq, hqp⟩ := hp
      exact ⟨q, hbase q hq, hqp⟩

/-- the same, when the registered paths are only known to agree by module name -/
theorem searchList_mods_mono {b b' : Bank} (hle : ∀ p ∈ b.paths, ∃ q ∈ b'.paths, q.mod = p.mod) (r : Ref) {p : PathE}
    (hp : p ∈ searchList b r) : ∃ q ∈ searchList b' r, q.mod = p.mod := by
  have hbase : ∀ x, x ∈ sortPaths b.paths → ∃ y ∈ sortPaths b'.paths, y.mod = x.mod := by
    intro x hx
    obtain ⟨y, hy, hxy⟩ := hle x ((sortPaths_perm_self _).mem_iff.1 hx)
    exact ⟨y, (sortPaths_perm_self _).mem_iff.2 hy, hxy⟩
  simp only [searchList, List.mem_reverse, List.mem_append] at hp
  rcases hp with hp | hp
  · obtain ⟨y, hy, hxy⟩ := hbase p hp
    exact ⟨y, by simp only [searchList, List.mem_reverse, List.mem_append]; exact Or.inl hy, hxy⟩
  · cases r with
    | qual c =>
      exact ⟨p, by simp only [searchList, List.mem_reverse, List.mem_append]; exact Or.inr (by simpa [refPaths] using hp), rfl⟩
    | alias a =>
      simp only [refPaths, List.mem_filterMap] at hp
      obtain ⟨x, hx, hxp⟩ := hp
      obtain ⟨y, hy, hxy⟩ := hbase x hx
      cases hs : x.mod.sub with
      | some z => simp [hs] at hxp
      | none =>
        simp only [hs, Option.some.injEq] at hxp
        subst hxp
        refine ⟨⟨⟨y.mod.pkg, some a⟩, false⟩, ?_, by rw [hxy]⟩
        simp only [searchList, List.mem_reverse, List.mem_append, refPaths, List.mem_filterMap]
        exact Or.inr ⟨y, hy, by rw [hxy, hs]⟩

/-- the registered search paths of a state with fewer imported modules are, by name, among those of a state with more -/
theorem inv_paths_mono {w : World} {st s : St} (hI : Inv w st) (hIs : Inv w s) (hsub : ∀ m ∈ st.loaded, m ∈ s.loaded)
    (i : ClassId) : ∀ p ∈ (getBank i st.banks).paths, ∃ q ∈ (getBank i s.banks).paths, q.mod = p.mod := by
  intro p hp
  obtain ⟨m, hm, d, hd, c, hc, hi, hpc⟩ := hI.psrc i p hp
  simp only [List.mem_map] at hpc
  obtain ⟨pm, hpm, hpe⟩ := hpc
  subst hpe
  exact hIs.preg m (hsub m hm) d hd c hc i hi pm hpm

/-- simulation: a search that starts from a state with fewer imported modules than an exhausted state `s` never
imports a module that `s` has not imported -/
theorem getLoop_below {w : World} (hw : worldClean w = true) (hpk : pkgsExist w = true) (iface : ClassId) (r : Ref)
    {s : St} (hIs : Inv w s) (hcl : Closed w iface r s) (n : Nat) (st : St) (searched : List Mod) (hI : Inv w st)
    (hsub : ∀ m ∈ st.loaded, m ∈ s.loaded) : ∀ m ∈ (getLoop w iface r n st searched).1.loaded, m ∈ s.loaded := by
  induction n generalizing st searched with
  | zero => exact hsub
  | succ n ih =>
    simp only [getLoop]
    split
    · exact hsub
    · cases hn : nextPath (getBank iface st.banks) r searched with
      | none => exact hsub
      | some p =>
        simp only
        have hp := (nextPath_some hn).1
        have h1 := loadPath_lift (inv_execStable hw) st p hI
        have hnew := loadPath_new w st p
        obtain ⟨q, hq, hqp⟩ := searchList_mods_mono (inv_paths_mono hI hIs hsub iface) r hp
        have hsub1 : ∀ m ∈ (loadPath w st p).1.loaded, m ∈ s.loaded := by
          intro m hm
          rcases hnew m hm with h0 | h0
          · exact hsub m h0
          · have hex := h1.ex m hm
            cases hf : findMod m w with
            | none => rw [hf] at hex; cases hex
            | some d => exact hcl q hq m (by rw [hqp]; exact h0) (importable_of_found hpk hf)
        cases hl : loadPath w st p with
        | mk s1 e1 =>
          rw [hl] at h1 hsub1
          cases e1 with
          | some e => exact hsub1
          | none => exact ih s1 _ h1 hsub1

/-! ### what the answers of lookups have to do with each other -/

/-- in a world without colliding references two lookups that return a class return the same class -/
theorem get_unique {w : World} (hw : worldClean w = true) {st st' : St} (hs : StSound (InWorld w) st)
    (hs' : StSound (InWorld w) st') (iface iface' : ClassId) (r : Ref) (c c' : ClassId)
    (h : (get w st iface r).2 = .ok c) (h' : (get w st' iface' r).2 = .ok c') : c = c' := by
  obtain ⟨d, hd, _, hr, hi⟩ := (get_sound w st iface r hs).2 c h
  obtain ⟨d', hd', ha', hr', hi'⟩ := (get_sound w st' iface' r hs').2 c' h'
  rw [← hi, ← hi']
  exact (worldClean_noCollision hw hd hd' ha' hr hr').symm

/-- a reference bound in a state whose imported modules are all imported in an invariant state is bound there too -/
theorem bound_of_loaded_sub {w : World} {t s : St} (hIt : Inv w t) (hIs : Inv w s) (hsub : ∀ m ∈ t.loaded, m ∈ s.loaded)
    (iface : ClassId) (r : Ref) (c : ClassId) (h : lookupRef r (getBank iface t.banks).provider = some c) :
    lookupRef r (getBank iface s.banks).provider = some c := by
  obtain ⟨m, hm, d, hd, cd, hcd, hcarr⟩ := hIt.src iface r c h
  have := hIs.reg m (hsub m hm) d hd cd hcd hcarr.1 iface hcarr.2.2.2 r hcarr.2.1
  rw [hcarr.2.2.1] at this
  exact this

/-- liveness under extension: an answer that a lookup gives in one state, it gives in every state in which at least the
same modules are imported -/
theorem get_hit_mono {w : World} (hw : worldClean w = true) (hpo : pathsOk w = true) (hpk : pkgsExist w = true)
    {st st' : St} (hI : Inv w st) (hI' : Inv w st') (hsub : ∀ m ∈ st.loaded, m ∈ st'.loaded) (iface : ClassId) (r : Ref)
    (c : ClassId) (h : (get w st iface r).2 = .ok c) : (get w st' iface r).2 = .ok c := by
  obtain ⟨hIe', hend'⟩ := get_end hw hpo hI' iface r
  rcases hend' with ⟨c', hc', _⟩ | ⟨_, hnb, hcl⟩
  · rw [hc']
    exact congrArg Res.ok (get_unique hw hI.sound hI'.sound iface iface r c c' h hc').symm
  · exfalso
    have hIe := (get_end hw hpo hI iface r).1
    have hbt := get_ok_bound w st iface r c h
    have hsub2 : ∀ m ∈ (get w st iface r).1.loaded, m ∈ (get w st' iface r).1.loaded := by
      rw [get_state w st iface r]
      exact getLoop_below hw hpk iface r hIe' hcl _ st [] hI
        (fun m hm => (get_le w st' iface r).2 m (hsub m hm))
    have := bound_of_loaded_sub hIe hIe' hsub2 iface r c hbt
    rw [hnb] at this
    cases this

/-- a reference that the registered search paths let the lookup find is answered with a class -/
theorem get_found_hit {w : World} (hw : worldClean w = true) (hpo : pathsOk w = true) (hpk : pkgsExist w = true)
    {st : St} (hI : Inv w st) (iface : ClassId) (r : Ref)
    (hf : found w iface r (searchList (getBank iface st.banks) r) = true) : ∃ c, (get w st iface r).2 = .ok c := by
  obtain ⟨hIe, hend⟩ := get_end hw hpo hI iface r
  rcases hend with ⟨c, hc, _⟩ | ⟨_, hnb, hcl⟩
  · exact ⟨c, hc⟩
  · exfalso
    simp only [found, List.any_eq_true] at hf
    obtain ⟨p, hp, m, hm, hcar⟩ := hf
    obtain ⟨d, hd, c, hc, x, hcarr⟩ := carriesIn_iff.1 hcar
    have hp' := searchList_mono ((get_le w st iface r).1 iface).2 r hp
    have hml := hcl p hp' m hm (importable_of_found hpk hd)
    have := hIe.reg m hml d hd c hc hcarr.1 iface hcarr.2.2.2 r hcarr.2.1
    rw [hnb] at this
    cases this

/-- asking again gives the same answer -/
theorem get_repeat {w : World} (hw : worldClean w = true) (hpo : pathsOk w = true) (hpk : pkgsExist w = true)
    {st : St} (hI : Inv w st) (iface : ClassId) (r : Ref) :
    (get w (get w st iface r).1 iface r).2 = (get w st iface r).2 := by
  obtain ⟨hI1, hend⟩ := get_end hw hpo hI iface r
  rcases hend with ⟨c, hc, hb⟩ | ⟨hmiss, hnb, hcl⟩
  · rw [hc, get_of_bound w _ iface r c hb]
  · rw [hmiss]
    obtain ⟨hI2, hend2⟩ := get_end hw hpo hI1 iface r
    rcases hend2 with ⟨c, _, hb2⟩ | ⟨hmiss2, _, _⟩
    · exfalso
      have hsub : ∀ m ∈ (get w (get w st iface r).1 iface r).1.loaded, m ∈ (get w st iface r).1.loaded := by
        rw [get_state w (get w st iface r).1 iface r]
        exact getLoop_below hw hpk iface r hI1 hcl _ _ [] hI1 (fun m hm => hm)
      have := bound_of_loaded_sub hI2 hI1 hsub iface r c hb2
      rw [hnb] at this
      cases this
    · exact hmiss2

/-! ### worlds in which every provider can be discovered from the registered search paths -/

/-- every reference of every concrete class below the interface is bound already or can be found from the search
paths registered for the interface (decidable): the layout of `forml.provider.*` — providers in sub-modules named
after their alias, or listed in the package's `__all__` -/
def discoverable (w : World) (st : St) (iface : ClassId) : Bool :=
  (allClasses w).all fun c =>
    c.abstract || !(c.id :: c.parents).contains iface ||
      (refs c).all fun r =>
        (lookupRef r (getBank iface st.banks).provider).isSome || found w iface r (searchList (getBank iface st.banks) r)

/-- history independence in a discoverable, defect-free world: whatever was imported or looked up in between — hits,
misses, other references, other interfaces, failing imports — `Service[reference]` answers as it would have at once -/
theorem get_history_free {w : World} (hw : worldClean w = true) (hpo : pathsOk w = true) (hpk : pkgsExist w = true)
    {st : St} (hI : Inv w st) (iface : ClassId) (hd : discoverable w st iface = true) (ops : List HOp) (r : Ref) :
    (get w (runHist w st ops) iface r).2 = (get w st iface r).2 := by
  have hI' := inv_runHist hw ops st hI
  have hle := runHist_le w ops st
  by_cases hcar : ∃ c ∈ allClasses w, c.abstract = false ∧ iface ∈ c.id :: c.parents ∧ r ∈ refs c
  · obtain ⟨c, hc, ha, hi, hr⟩ := hcar
    have hone : ∃ y, (get w st iface r).2 = .ok y := by
      simp only [discoverable, List.all_eq_true, Bool.or_eq_true, Bool.not_eq_true', List.contains_eq_mem,
        decide_eq_false_iff_not] at hd
      rcases hd c hc with (h1 | h1) | h1
      · rw [ha] at h1; cases h1
      · exact absurd hi h1
      · rcases h1 r hr with h2 | h2
        · cases hb : lookupRef r (getBank iface st.banks).provider with
          | none => simp [hb] at h2
          | some y => exact ⟨y, by rw [get_of_bound w st iface r y hb]⟩
        · exact get_found_hit hw hpo hpk hI iface r h2
    obtain ⟨y, hy⟩ := hone
    rw [hy]
    exact get_hit_mono hw hpo hpk hI hI' hle.2 iface r y hy
  · have hmiss : ∀ (s : St), Inv w s → (get w s iface r).2 = .error .missing := by
      intro s hs
      obtain ⟨hIe, hend⟩ := get_end hw hpo hs iface r
      rcases hend with ⟨y, _, hb⟩ | ⟨hm, _, _⟩
      · exfalso
        obtain ⟨m, _, d, hd', c, hc, hcarr⟩ := hIe.src iface r y hb
        exact hcar ⟨c, (inWorld_iff w c).1 ⟨m, d, findMod_mem hd', hc⟩, hcarr.1, hcarr.2.2.2, hcarr.2.1⟩
      · exact hm
    rw [hmiss _ hI', hmiss _ hI]

end ForML.Bank
