/-
C15 — helper lemmas about `Reader._match_entry` (model: ForML.Entry.matchEntry): the scanning loop
builds "name ↦ index of its last occurrence", the second loop collects those indices.
The property theorems are in ForML/Props/C15.lean.
-/
import ForML.Model.Entry

namespace ForML.Entry

/-! ### helper: the last occurrence of a name -/

/-- position (offset by `i`) of the last occurrence of `c` in `e` -/
def lastIdx (c : Name) : List Name → Nat → Option Nat
  | [], _ => none
  | x :: r, i =>
    match lastIdx c r (i + 1) with
    | some k => some k
    | none => if x = c then some i else none

theorem lastIdx_none (c : Name) (e : List Name) (i : Nat) : lastIdx c e i = none ↔ c ∉ e := by
  induction e generalizing i with
  | nil => simp [lastIdx]
  | cons x r ih =>
    simp only [lastIdx]
    cases h : lastIdx c r (i + 1) with
    | some k =>
      have : ¬ c ∉ r := fun hn => by rw [(ih (i + 1)).mpr hn] at h; cases h
      constructor
      · intro h'; cases h'
      · intro hn; exact absurd (fun hm => hn (List.mem_cons_of_mem _ hm)) this
    | none =>
      have hr := (ih (i + 1)).mp h
      by_cases hx : x = c
      · simp [hx]
      · simp [hx, hr]; exact fun h' => hx h'.symm

theorem lastIdx_some (c : Name) (e : List Name) (i k : Nat) (h : lastIdx c e i = some k) :
    i ≤ k ∧ e[k - i]? = some c ∧ ∀ j, k - i < j → e[j]? ≠ some c := by
  induction e generalizing i with
  | nil => simp [lastIdx] at h
  | cons x r ih =>
    simp only [lastIdx] at h
    cases hr : lastIdx c r (i + 1) with
    | some k' =>
      rw [hr] at h; cases h
      obtain ⟨h1, h2, h3⟩ := ih (i + 1) hr
      refine ⟨by omega, ?_, ?_⟩
      · have : k - i = (k - (i + 1)) + 1 := by omega
        rw [this]; simpa using h2
      · intro j hj
        have : j = (j - 1) + 1 := by omega
        rw [this]; simp only [List.getElem?_cons_succ]
        exact h3 (j - 1) (by omega)
    | none =>
      rw [hr] at h
      by_cases hx : x = c
      · simp [hx] at h; subst h
        have hnot := (lastIdx_none c r (i + 1)).mp hr
        refine ⟨Nat.le_refl _, by simp [hx], ?_⟩
        intro j hj
        have : j = (j - 1) + 1 := by omega
        rw [this]; simp only [List.getElem?_cons_succ]
        intro hc
        exact hnot (List.mem_of_getElem? hc)
      · simp [hx] at h

/-! ### helper: the scanning loop of `_match_entry` -/

theorem lookup_cons_none (d : Name) (i : Nat) (src : Source) :
    List.lookup (some d) ((none, i) :: src) = List.lookup (some d) src := by simp [List.lookup]

theorem lookup_cons_some (d b : Name) (i : Nat) (src : Source) :
    List.lookup (some d) ((some b, i) :: src) = if d = b then some i else List.lookup (some d) src := by
  by_cases h : d = b
  · simp [List.lookup, h]
  · have : (d == b) = false := by simp [h]
    simp [List.lookup, h, this]

theorem scan_some_nil (e : List Name) (i : Nat) (src : Source) (ident : Bool) (src' : Source)
    (ident' : Bool)
    (h : scan (e.map (fun b => ((none : Option Name), some b))) i src ident = some (src', ident')) :
    (∀ c, src'.lookup (some c) =
      match lastIdx c e i with | some k => some k | none => src.lookup (some c))
    ∧ ident' = (ident && decide (([] : List Name) = e)) := by
  induction e generalizing i src ident with
  | nil => simp [scan] at h; obtain ⟨rfl, rfl⟩ := h; simp [lastIdx]
  | cons b bs ih =>
    simp only [List.map_cons, scan] at h
    split at h
    · rename_i hc; simp at hc
    · obtain ⟨h1, h2⟩ := ih _ _ _ h
      refine ⟨?_, by simp [h2]⟩
      intro c; rw [h1 c]; simp only [lastIdx]
      cases lastIdx c bs (i + 1) with
      | some k => rfl
      | none =>
        by_cases hb : b = c
        · subst hb; simp [List.lookup]
        · have : (some c == some b) = false := by simp; exact fun h => hb h.symm
          simp [hb, List.lookup, this]

theorem scan_none_nil (e : List Name) (i : Nat) (src : Source) (ident : Bool) :
    scan (e.map (fun b => ((none : Option Name), some b))) i src ident ≠ none := by
  induction e generalizing i src ident with
  | nil => simp [scan]
  | cons b bs ih =>
    simp only [List.map_cons, scan]
    split
    · rename_i hc; simp at hc
    · exact ih _ _ _

theorem scan_some (q e : List Name) (i : Nat) (src : Source) (ident : Bool) (src' : Source)
    (ident' : Bool) (h : scan (zipLongest q e) i src ident = some (src', ident')) :
    (∀ c, src'.lookup (some c) =
      match lastIdx c e i with | some k => some k | none => src.lookup (some c))
    ∧ ident' = (ident && decide (q = e)) := by
  fun_induction zipLongest q e generalizing i src ident with
  | case1 bs => exact scan_some_nil bs i src ident src' ident' h
  | case2 a as ih =>
    simp only [scan] at h
    split at h
    · cases h
    · obtain ⟨h1, h2⟩ := ih _ _ _ h
      refine ⟨?_, by simp [h2]⟩
      intro c; rw [h1 c]; simp [lastIdx, List.lookup]
  | case3 a as b bs ih =>
    simp only [scan] at h
    split at h
    · rename_i hc; simp at hc
    · obtain ⟨h1, h2⟩ := ih _ _ _ h
      refine ⟨?_, ?_⟩
      · intro c; rw [h1 c]; simp only [lastIdx]
        cases lastIdx c bs (i + 1) with
        | some k => rfl
        | none =>
          by_cases hb : b = c
          · subst hb; simp [List.lookup]
          · have : (some c == some b) = false := by simp; exact fun h => hb h.symm
            simp [hb, List.lookup, this]
      · rw [h2]
        by_cases hab : a = b
        · subst hab; simp
        · have : ¬ b = a := fun h => hab h.symm
          simp [hab, this]

theorem scan_none (q e : List Name) (i : Nat) (src : Source) (ident : Bool)
    (h : scan (zipLongest q e) i src ident = none) :
    ∃ d ∈ q, d ∉ e ∧ src.lookup (some d) = none := by
  fun_induction zipLongest q e generalizing i src ident with
  | case1 bs => exact absurd h (scan_none_nil bs i src ident)
  | case2 a as ih =>
    simp only [scan] at h
    split at h
    · rename_i hc
      simp only [Option.isNone_none, Bool.true_and, lookup_cons_none, Option.isNone_iff_eq_none] at hc
      exact ⟨a, by simp, by simp, hc⟩
    · obtain ⟨d, hd, _, hl⟩ := ih _ _ _ h
      rw [lookup_cons_none] at hl
      exact ⟨d, by simp [hd], by simp, hl⟩
  | case3 a as b bs ih =>
    simp only [scan] at h
    split at h
    · rename_i hc; simp at hc
    · obtain ⟨d, hd, hne, hl⟩ := ih _ _ _ h
      rw [lookup_cons_some] at hl
      split at hl
      · cases hl
      · rename_i hdb
        exact ⟨d, by simp [hd], by simp [hdb, hne], hl⟩

theorem collect_some (src : Source) (e : List Name)
    (hsrc : ∀ c, src.lookup (some c) = lastIdx c e 0) (q : List Name) (idx : List Nat)
    (h : collect src q = some idx) :
    idx.length = q.length ∧ ∀ (j k : Nat), idx[j]? = some k → ∃ c, q[j]? = some c ∧ lastIdx c e 0 = some k := by
  induction q generalizing idx with
  | nil => simp [collect] at h; subst h; simp
  | cons c cs ih =>
    simp only [collect] at h
    split at h
    · cases h
    · rename_i i hi
      cases hc : collect src cs with
      | none => simp [hc] at h
      | some r =>
        simp [hc] at h; subst h
        obtain ⟨h1, h2⟩ := ih r hc
        refine ⟨by simp [h1], ?_⟩
        intro j k hj
        cases j with
        | zero => simp at hj; subst hj; exact ⟨c, by simp, by rw [← hsrc c]; exact hi⟩
        | succ j => simp at hj; simpa using h2 j k hj

theorem collect_none (src : Source) (q : List Name) (h : collect src q = none) :
    ∃ c ∈ q, src.lookup (some c) = none := by
  induction q with
  | nil => simp [collect] at h
  | cons c cs ih =>
    simp only [collect] at h
    split at h
    · rename_i hn; exact ⟨c, by simp, hn⟩
    · cases hc : collect src cs with
      | none => obtain ⟨d, hd, hl⟩ := ih hc; exact ⟨d, by simp [hd], hl⟩
      | some r => simp [hc] at h

theorem collect_isSome (src : Source) (q : List Name)
    (h : ∀ c ∈ q, (src.lookup (some c)).isSome) : (collect src q).isSome := by
  induction q with
  | nil => simp [collect]
  | cons c cs ih =>
    simp only [collect]
    have hc := h c (by simp)
    cases hl : src.lookup (some c) with
    | none => simp [hl] at hc
    | some i =>
      have := ih (fun d hd => h d (by simp [hd]))
      cases hr : collect src cs with
      | none => simp [hr] at this
      | some r => simp

/-- what `matchEntry` returns, in one place (used by the theorems below) -/
theorem matchEntry_cases (q e : List Name) :
    (matchEntry q e = (false, none) ∧ ∃ c ∈ q, c ∉ e) ∨
    (matchEntry q e = (true, none) ∧ q = e) ∨
    (∃ idx, matchEntry q e = (true, some idx) ∧ q ≠ e ∧ idx.length = q.length ∧
      ∀ (j k : Nat), idx[j]? = some k → ∃ c, q[j]? = some c ∧ lastIdx c e 0 = some k) := by
  unfold matchEntry
  cases hs : scan (zipLongest q e) 0 [] true with
  | none =>
    obtain ⟨d, hd, hne, _⟩ := scan_none q e 0 [] true hs
    exact Or.inl ⟨rfl, d, hd, hne⟩
  | some p =>
    obtain ⟨src, ident⟩ := p
    obtain ⟨h1, h2⟩ := scan_some q e 0 [] true src ident hs
    have hsrc : ∀ c, src.lookup (some c) = lastIdx c e 0 := by
      intro c; rw [h1 c]; cases lastIdx c e 0 <;> simp [List.lookup]
    simp only [Bool.true_and] at h2
    by_cases hqe : q = e
    · simp [h2, hqe]
    · simp only [h2, hqe, decide_false, Bool.false_eq_true, if_false]
      cases hc : collect src q with
      | none =>
        obtain ⟨c, hc1, hc2⟩ := collect_none src q hc
        rw [hsrc c] at hc2
        exact Or.inl ⟨rfl, c, hc1, (lastIdx_none c e 0).mp hc2⟩
      | some idx =>
        obtain ⟨h3, h4⟩ := collect_some src e hsrc q idx hc
        exact Or.inr (Or.inr ⟨idx, rfl, hqe, h3, h4⟩)

end ForML.Entry
