/-
C14 — helper lemmas, part 5: restricting every scan to the offered columns (`Backend.proj`) yields environments that
agree with the unrestricted ones on every element in scope (`SimEnv`), hence the same rows for all statements
whenever the query post-processing is local (`FinishLocal`).  Used by `ForML.Props.C14` (`C14_equivalence_partial`).
-/
import ForML.Lemmas.C14Filter
namespace ForML.PushDown
open ForML.Dsl

namespace Forall2
variable {α β γ δ : Type} {R : α → β → Prop}

theorem mono {R' : α → β → Prop} {as : List α} {bs : List β} (h : Forall2 R as bs) (hR : ∀ a b, R a b → R' a b) :
    Forall2 R' as bs := by
  induction h with
  | nil => exact .nil
  | cons hab _ ih => exact .cons (hR _ _ hab) ih

theorem map {R' : γ → δ → Prop} (f : α → γ) (g : β → δ) {as : List α} {bs : List β} (h : Forall2 R as bs)
    (hR : ∀ a b, R a b → R' (f a) (g b)) : Forall2 R' (as.map f) (bs.map g) := by
  induction h with
  | nil => exact .nil
  | cons hab _ ih => exact .cons (hR _ _ hab) ih

theorem flatMap {R' : γ → δ → Prop} (f : α → List γ) (g : β → List δ) {as : List α} {bs : List β} (h : Forall2 R as bs)
    (hR : ∀ a b, R a b → Forall2 R' (f a) (g b)) : Forall2 R' (as.flatMap f) (bs.flatMap g) := by
  induction h with
  | nil => exact .nil
  | cons hab _ ih =>
    simp only [List.flatMap_cons]
    exact (hR _ _ hab).append ih

theorem filter (p : α → Bool) (q : β → Bool) {as : List α} {bs : List β} (h : Forall2 R as bs)
    (hpq : ∀ a b, R a b → p a = q b) : Forall2 R (as.filter p) (bs.filter q) := by
  induction h with
  | nil => exact .nil
  | @cons a b as bs hab _ ih =>
    have := hpq a b hab
    by_cases hp : p a = true
    · have hq : q b = true := this ▸ hp
      simp only [List.filter_cons, hp, hq, if_true]
      exact .cons hab ih
    · have hq : ¬ q b = true := this ▸ hp
      simp only [List.filter_cons, hp, hq]
      exact ih

theorem of_map_left (f : β → α) (bs : List β) (hR : ∀ b, R (f b) b) : Forall2 R (bs.map f) bs := by
  induction bs with
  | nil => exact .nil
  | cons b bs ih => exact .cons (hR b) ih

theorem isEmpty_eq {as : List α} {bs : List β} (h : Forall2 R as bs) : as.isEmpty = bs.isEmpty := by
  cases h <;> rfl

theorem eq_of_eq {as bs : List α} (h : Forall2 (fun a b => a = b) as bs) : as = bs := by
  induction h with
  | nil => rfl
  | cons hab _ ih => rw [hab, ih]

end Forall2

/-- the back-end `B` restricted to the offered columns -/
def Backend.proj (B : Backend) : Backend := ⟨fun S db h => (B.scan S db h).map (project h.cols)⟩

theorem honour_eq_proj : Backend.honour = Backend.honourRows.proj := rfl
theorem honourCols_eq_proj : Backend.honourCols = Backend.ignore.proj := rfl

/-- `e'` binds the same origins as `e` and agrees with it on every element of the features `F` -/
def SimEnv (F : List Feature) (e' e : Env) : Prop :=
  dom e' = dom e ∧ ∀ el ∈ elemsAll F, e'.get el.1 el.2 = e.get el.1 el.2

/-- the post-processing of a query only looks at the elements the query mentions -/
def FinishLocal (S : Sem) : Prop :=
  ∀ (src : Source) (sel : Features) (pre : FeatureOpt) (grp : Features) (post : FeatureOpt) (ord : Orderings)
    (rows : Option Rows) (envs' envs : List Env),
    Forall2 (SimEnv (queryFeatures src sel pre grp post ord)) envs' envs →
    S.finish (.query src sel pre grp post ord rows) envs' = S.finish (.query src sel pre grp post ord rows) envs

theorem lookup_filter_key {β : Type} (p : String → Bool) (r : List (String × β)) (n : String) (h : p n = true) :
    (r.filter (fun kv => p kv.1)).lookup n = r.lookup n := by
  induction r with
  | nil => rfl
  | cons kv r ih =>
    obtain ⟨k, v⟩ := kv
    by_cases hk : n == k
    · have hk' : n = k := by simpa using hk
      subst hk'
      simp [h]
    · by_cases hp : p k = true
      · simp only [List.filter_cons, hp, if_true, List.lookup_cons, hk]
        exact ih
      · simp only [List.filter_cons, hp, List.lookup_cons, hk]
        exact ih

theorem get_project {cols : List String} {n : String} (h : n ∈ cols) (r : Row) : (project cols r).get n = r.get n := by
  unfold project Row.get
  rw [lookup_filter_key (fun k => decide (k ∈ cols)) r n (by simpa using h)]

theorem SimEnv.mono {F G : List Feature} {e' e : Env} (h : SimEnv G e' e) (hFG : ∀ el ∈ elemsAll F, el ∈ elemsAll G) :
    SimEnv F e' e := ⟨h.1, fun el hel => h.2 el (hFG el hel)⟩

theorem get_append (e1 e2 : Env) (o : Source) (n : String) :
    (e1 ++ e2).get o n = if o ∈ dom e1 then e1.get o n else e2.get o n := by
  by_cases h : o ∈ dom e1
  · simp only [h, if_true, Env.get, row_append_left h]
  · simp only [h, if_false, Env.get, row_append_right h]

theorem SimEnv.append {F : List Feature} {e1' e1 e2' e2 : Env} (h1 : SimEnv F e1' e1) (h2 : SimEnv F e2' e2) :
    SimEnv F (e1' ++ e2') (e1 ++ e2) := by
  refine ⟨by rw [dom_append, dom_append, h1.1, h2.1], fun el hel => ?_⟩
  rw [get_append, get_append, h1.1, h1.2 el hel, h2.2 el hel]

theorem SimEnv.holds {F : List Feature} {e' e : Env} (S : Sem) (h : SimEnv F e' e) {c : Feature}
    (hc : ∀ el ∈ elems c, el ∈ elemsAll F) : holds S e' c = holds S e c := by
  unfold PushDown.holds
  rw [eval_congr S e' e c (fun el hel => h.2 el (hc el hel))]


theorem SimEnv.refl (F : List Feature) (e : Env) : SimEnv F e e := ⟨rfl, fun _ _ => rfl⟩

theorem Forall2.refl' {α : Type} {R : α → α → Prop} (hR : ∀ a, R a a) (l : List α) : Forall2 R l l := by
  induction l with
  | nil => exact .nil
  | cons a l ih => exact .cons (hR a) ih

theorem Forall2.map_same {α β : Type} {R : β → β → Prop} (f' f : α → β) (l : List α) (hR : ∀ a, R (f' a) (f a)) :
    Forall2 R (l.map f') (l.map f) := by
  induction l with
  | nil => exact .nil
  | cons a l ih => exact .cons (hR a) ih

theorem get_single (o t : Source) (r : Row) (n : String) :
    Env.get [(t, r)] o n = if o = t then r.get n else Val.null := by
  by_cases h : o = t
  · subst h
    simp [Env.get, Env.row]
  · have : (o == t) = false := by simpa using h
    simp [Env.get, Env.row, List.lookup_cons, this, h, Row.get]

/-- a single binding whose row was restricted to columns covering the elements of `F` with that origin -/
theorem simEnv_single {F : List Feature} {o : Source} {cols : List String} (r : Row)
    (h : ∀ el ∈ elemsAll F, el.1 = o → el.2 ∈ cols) : SimEnv F [(o, project cols r)] [(o, r)] := by
  refine ⟨by simp [dom], fun el hel => ?_⟩
  rw [get_single, get_single]
  by_cases ho : el.1 = o
  · simp only [ho, if_true]
    exact get_project (h el hel ho) r
  · simp [ho]

theorem elemsAll_append (F G : List Feature) (el : Elem) : el ∈ elemsAll (F ++ G) ↔ el ∈ elemsAll F ∨ el ∈ elemsAll G := by
  simp [elemsAll, List.flatMap_append]

theorem shaped_of_grammarScoped : ∀ (s : Source), grammarScoped s = true → shaped s = true
  | .table _ _, _ => rfl
  | .ref i _, h => by
    simp only [grammarScoped, Bool.and_eq_true] at h
    simp [shaped, h.1, shaped_of_grammarScoped i h.2]
  | .join l r _ _, h => by
    simp only [grammarScoped, Bool.and_eq_true] at h
    simp [shaped, shaped_of_grammarScoped l h.1, shaped_of_grammarScoped r h.2]
  | .set l r _, h => by
    simp only [grammarScoped, Bool.and_eq_true] at h
    simp [shaped, h.1.1.1, h.1.1.2, shaped_of_grammarScoped l h.1.2, shaped_of_grammarScoped r h.2]
  | .query src _ _ _ _ _ _, h => by
    simp only [grammarScoped, Bool.and_eq_true] at h
    simpa [shaped] using shaped_of_grammarScoped src h.2

/-- **Restricting every scan to the offered columns does not change what a statement yields** (any join kind, both
variants of the parser), provided the query post-processing only looks at the elements the query mentions. -/
theorem run_proj (fix len : Bool) (S : Sem) (B : Backend) (db : Db) (hS : FinishLocal S) :
    ∀ (s : Source), shaped s = true →
      (∀ (F : List Feature) (st : Segs), Covers fix st F →
          Forall2 (SimEnv F) (run fix len S B.proj db s st).envs (run fix len S B db s st).envs)
      ∧ (isStmt s = true → ∀ st, (run fix len S B.proj db s st).envs = (run fix len S B db s st).envs)
  | .table n fs, _ => by
    refine ⟨?_, by simp [isStmt]⟩
    intro F st hc
    simp only [run, Backend.proj, List.map_map]
    refine Forall2.map_same _ _ _ (fun r => ?_)
    refine simEnv_single r (fun el hel ho => ?_)
    exact mem_hint_cols (by
      have := hc el hel (by simp [ho, inst, isTable])
      simpa [ho] using this)
  | .ref i nm, hw => by
    refine ⟨?_, by simp [isStmt]⟩
    intro F st hc
    simp only [shaped, Bool.and_eq_true, Bool.or_eq_true] at hw
    simp only [run]
    by_cases ht : isTable i = true
    · simp only [ht, if_true, Backend.proj, List.map_map]
      refine Forall2.map_same _ _ _ (fun r => ?_)
      refine simEnv_single r (fun el hel ho => ?_)
      exact mem_hint_cols (by
        have := hc el hel (by simp [ho, inst, ht])
        simpa [ho] using this)
    · simp only [ht, Bool.false_eq_true, if_false]
      rcases hw.1 with ht' | hs
      · exact absurd ht' ht
      · rw [(run_proj fix len S B db hS i hw.2).2 hs st]
        exact Forall2.refl' (SimEnv.refl F) _
  | .join l r k c, hw => by
    refine ⟨?_, by simp [isStmt]⟩
    intro F st hc
    simp only [shaped, Bool.and_eq_true] at hw
    have hc1 : Covers fix (joinCtx fix len st l r k c) (F ++ optList c) :=
      covers_append (covers_mono hc (joinCtx_mono fix len st l r k c)) (covers_joinCtx fix len st l r k c)
    have iha := (run_proj fix len S B db hS l hw.1).1 _ _ hc1
    have hst : (run fix len S B.proj db l (joinCtx fix len st l r k c)).st = (run fix len S B db l (joinCtx fix len st l r k c)).st :=
      (run_indep fix len S S B.proj B db db l _).1
    have hc2 : Covers fix (run fix len S B db l (joinCtx fix len st l r k c)).st (F ++ optList c) :=
      covers_mono hc1 (run_cols fix len S B db l (F ++ optList c) _ hc1).2
    have ihb := (run_proj fix len S B db hS r hw.2).1 _ _ hc2
    simp only [run]
    rw [hst]
    -- the ON condition evaluates alike on related environments
    have hon : ∀ e' e, SimEnv (F ++ optList c) e' e → holdsOpt S e' c = holdsOpt S e c := by
      intro e' e he
      cases c with
      | none => rfl
      | some c =>
        simp only [holdsOpt]
        exact he.holds S (fun el hel => (elemsAll_append _ _ _).mpr (Or.inr (by simpa [elemsAll, optList] using hel)))
    have hweak : ∀ {as bs : List Env}, Forall2 (SimEnv (F ++ optList c)) as bs → Forall2 (SimEnv F) as bs :=
      fun h => h.mono (fun e' e he => he.mono (fun el hel => (elemsAll_append _ _ _).mpr (Or.inl hel)))
    -- matches of one left / one right row
    have hml : ∀ el' el, SimEnv (F ++ optList c) el' el → Forall2 (SimEnv (F ++ optList c))
        ((List.map (fun er => el' ++ er) (run fix len S B.proj db r (run fix len S B db l (joinCtx fix len st l r k c)).st).envs).filter
          (fun e => holdsOpt S e c))
        ((List.map (fun er => el ++ er) (run fix len S B db r (run fix len S B db l (joinCtx fix len st l r k c)).st).envs).filter
          (fun e => holdsOpt S e c)) :=
      fun el' el hl => (ihb.map _ _ (fun er' er hr => hl.append hr)).filter _ _ hon
    have hmr : ∀ er' er, SimEnv (F ++ optList c) er' er → Forall2 (SimEnv (F ++ optList c))
        ((List.map (fun el => el ++ er') (run fix len S B.proj db l (joinCtx fix len st l r k c)).envs).filter (fun e => holdsOpt S e c))
        ((List.map (fun el => el ++ er) (run fix len S B db l (joinCtx fix len st l r k c)).envs).filter (fun e => holdsOpt S e c)) :=
      fun er' er hr => (iha.map _ _ (fun el' el hl => hl.append hr)).filter _ _ hon
    have leftPart := iha.flatMap
      (fun el' => if ((List.map (fun er => el' ++ er) (run fix len S B.proj db r (run fix len S B db l (joinCtx fix len st l r k c)).st).envs).filter
          (fun e => holdsOpt S e c)).isEmpty then [el' ++ nullEnv (origins r)]
        else (List.map (fun er => el' ++ er) (run fix len S B.proj db r (run fix len S B db l (joinCtx fix len st l r k c)).st).envs).filter
          (fun e => holdsOpt S e c))
      (fun el => if ((List.map (fun er => el ++ er) (run fix len S B db r (run fix len S B db l (joinCtx fix len st l r k c)).st).envs).filter
          (fun e => holdsOpt S e c)).isEmpty then [el ++ nullEnv (origins r)]
        else (List.map (fun er => el ++ er) (run fix len S B db r (run fix len S B db l (joinCtx fix len st l r k c)).st).envs).filter
          (fun e => holdsOpt S e c))
      (R' := SimEnv (F ++ optList c)) (fun el' el hl => by
        have hm := hml el' el hl
        rw [hm.isEmpty_eq]
        split
        · exact .cons (hl.append (SimEnv.refl _ _)) .nil
        · exact hm)
    cases k with
    | inner =>
      simp only [joinRows, prod]
      exact hweak ((iha.flatMap _ _ (fun el' el hl => ihb.map _ _ (fun er' er hr => hl.append hr))).filter _ _ hon)
    | cross =>
      simp only [joinRows, prod]
      exact hweak ((iha.flatMap _ _ (fun el' el hl => ihb.map _ _ (fun er' er hr => hl.append hr))).filter _ _ hon)
    | left =>
      simp only [joinRows]
      exact hweak leftPart
    | right =>
      simp only [joinRows]
      refine hweak (ihb.flatMap _ _ (fun er' er hr => ?_))
      have hm := hmr er' er hr
      rw [hm.isEmpty_eq]
      split
      · exact .cons ((SimEnv.refl _ _).append hr) .nil
      · exact hm
    | full =>
      simp only [joinRows]
      refine hweak (leftPart.append ?_)
      refine (ihb.filter _ _ (fun er' er hr => ?_)).map _ _ (fun er' er hr => (SimEnv.refl _ _).append hr)
      rw [(hmr er' er hr).isEmpty_eq]
  | .set l r k, hw => by
    simp only [shaped, Bool.and_eq_true] at hw
    have heq : ∀ st, (run fix len S B.proj db (.set l r k) st).envs = (run fix len S B db (.set l r k) st).envs := by
      intro st
      simp only [run]
      rw [(run_proj fix len S B db hS l hw.1.2).2 hw.1.1.1 st, (run_indep fix len S S B.proj B db db l st).1,
        (run_proj fix len S B db hS r hw.2).2 hw.1.1.2 _]
    exact ⟨fun F st _ => heq st ▸ Forall2.refl' (SimEnv.refl F) _, fun _ => heq⟩
  | .query src sel pre grp post ord rows, hw => by
    simp only [shaped] at hw
    have heq : ∀ st, (run fix len S B.proj db (.query src sel pre grp post ord rows) st).envs =
        (run fix len S B db (.query src sel pre grp post ord rows) st).envs := by
      intro st
      simp only [run]
      have hp := (run_proj fix len S B db hS src hw).1 (queryFeatures src sel pre grp post ord)
        (queryCtx fix len st.err src sel pre grp post ord) (covers_queryCtx fix len st.err src sel pre grp post ord)
      have hk := hp.filter (fun e => holdsOpt S e pre) (fun e => holdsOpt S e pre) (by
        intro e' e he
        cases pre with
        | none => rfl
        | some p =>
          simp only [holdsOpt]
          refine he.holds S (fun el hel => ?_)
          simp only [queryFeatures, optList]
          refine (elemsAll_append _ _ _).mpr (Or.inl ((elemsAll_append _ _ _).mpr (Or.inl ((elemsAll_append _ _ _).mpr
            (Or.inl ((elemsAll_append _ _ _).mpr (Or.inr ?_)))))))
          simpa [elemsAll] using hel)
      rw [hS src sel pre grp post ord rows _ _ hk]
    exact ⟨fun F st _ => heq st ▸ Forall2.refl' (SimEnv.refl F) _, fun _ => heq⟩

end ForML.PushDown
