/-
C11 helper lemmas, part 1: what `publishTo` / `unpublishTo` / `publishable` do to a state
(`publishTo` only appends edges carrying the published subscription, along the registration tree of the
publisher; `unpublishTo` removes exactly those; a passing dry run means `publishTo` succeeds).
-/
import ForML.Model.Graph

namespace ForML.Graph

/-- the output ports visited by `_publish` / `_unpublish` / `_publishable` starting at `(n, idx)` -/
def tree : Nat → G → Nat → Nat → List (Nat × Nat)
  | 0, _, _, _ => []
  | fuel + 1, g, n, idx =>
    (n, idx) :: (if isFuture g n then (pubsAt g n idx).flatMap (fun t => tree fuel g t.1 t.2) else [])

/-- same nodes, registrations and `_PORTS` (only the edges may differ) -/
def Same (g g' : G) : Prop := g'.nodes = g.nodes ∧ g'.regs = g.regs ∧ g'.ports = g.ports ∧ g'.ngroups = g.ngroups

theorem Same.refl (g : G) : Same g g := ⟨rfl, rfl, rfl, rfl⟩

theorem Same.trans {a b c : G} (h1 : Same a b) (h2 : Same b c) : Same a c :=
  ⟨h2.1.trans h1.1, h2.2.1.trans h1.2.1, h2.2.2.1.trans h1.2.2.1, h2.2.2.2.trans h1.2.2.2⟩

theorem Same.symm {a b : G} (h : Same a b) : Same b a := ⟨h.1.symm, h.2.1.symm, h.2.2.1.symm, h.2.2.2.symm⟩

theorem Same.isFuture {g g' : G} (h : Same g g') (n : Nat) : isFuture g' n = isFuture g n := by
  unfold Graph.isFuture; rw [h.1]

theorem Same.isWorker {g g' : G} (h : Same g g') (n : Nat) : isWorker g' n = isWorker g n := by
  unfold Graph.isWorker; rw [h.1]

theorem Same.trained {g g' : G} (h : Same g g') (n : Nat) : trained g' n = trained g n := by
  unfold Graph.trained inputs; rw [h.2.2.1]

theorem Same.pubsAt {g g' : G} (h : Same g g') (n i : Nat) : pubsAt g' n i = pubsAt g n i := by
  unfold Graph.pubsAt; rw [h.2.1]

theorem Same.tree {g g' : G} (h : Same g g') : ∀ fuel n i, tree fuel g' n i = tree fuel g n i := by
  intro fuel
  induction fuel with
  | zero => intros; rfl
  | succ k ih =>
    intro n i
    simp only [Graph.tree, h.isFuture, h.pubsAt, ih]

theorem tree_congr {g g' : G} (h1 : g'.nodes = g.nodes) (h2 : g'.regs = g.regs) :
    ∀ fuel n i, tree fuel g' n i = tree fuel g n i := by
  intro fuel
  induction fuel with
  | zero => intros; rfl
  | succ k ih =>
    intro n i
    have hf : isFuture g' n = isFuture g n := by unfold isFuture; rw [h1]
    have hp : pubsAt g' n i = pubsAt g n i := by unfold pubsAt; rw [h2]
    simp only [tree, hf, hp, ih]

theorem Same.edges (g : G) (E : List Edge) : Same g { g with edges := E } := ⟨rfl, rfl, rfl, rfl⟩

theorem eq_of_same {g g' : G} (h : Same g g') (he : g'.edges = g.edges) : g' = g := by
  cases g; cases g'
  obtain ⟨h1, h2, h3, h4⟩ := h
  simp_all

theorem addEdge_same (g : G) (e : Edge) : Same g (addEdge g e) := by
  unfold addEdge; split
  · exact Same.refl g
  · exact Same.edges g _

theorem addEdge_edges (g : G) (e : Edge) :
    ∃ L, (addEdge g e).edges = g.edges ++ L ∧ (∀ x ∈ L, x = e) ∧ e ∈ g.edges ++ L := by
  unfold addEdge; split
  · rename_i h; exact ⟨[], by simp, by simp, by simpa using h⟩
  · exact ⟨[e], rfl, by simp, by simp⟩

/-- what is known of an edge appended by `publishTo … s` -/
def Good (g : G) (s : Sub) (e : Edge) : Prop :=
  e.sub = s ∧ e.pub ≠ s.node ∧ e.pub < g.nodes.length ∧ (isFuture g e.pub = true ∨ trained g e.pub = false)

theorem Good.same {g g' : G} (h : Same g g') {s : Sub} {e : Edge} (hg : Good g' s e) : Good g s e := by
  obtain ⟨a, b, c, d⟩ := hg
  refine ⟨a, b, by rw [← h.1]; exact c, ?_⟩
  rw [← h.isFuture, ← h.trained]; exact d

/-- result shape of one `publishTo` -/
def PubSpec (fuel : Nat) (g : G) (n idx : Nat) (s : Sub) (r : G × Res) : Prop :=
  Same g r.1 ∧ (∃ L, r.1.edges = g.edges ++ L ∧
    (∀ e ∈ L, Good g s e ∧ (e.pub, e.out) ∈ tree fuel g n idx) ∧
    (r.2 = .ok → (⟨n, idx, s⟩ : Edge) ∈ g.edges ++ L)) ∧ (r.2 = .ok ∨ ∃ e, r.2 = .err e)

theorem publishTo_spec : ∀ (fuel : Nat) (g : G) (n idx : Nat) (s : Sub),
    n < g.nodes.length → (∀ r ∈ g.regs, r.pub < g.nodes.length) →
    PubSpec fuel g n idx s (publishTo fuel g n idx s) := by
  intro fuel
  induction fuel with
  | zero =>
    intro g n idx s _ _
    exact ⟨Same.refl g, ⟨[], by simp [publishTo], by simp, by simp [publishTo]⟩, .inr ⟨_, rfl⟩⟩
  | succ k ih =>
    intro g n idx s hn hr
    unfold publishTo
    by_cases hf : isFuture g n = true
    · simp only [hf, ↓reduceIte]
      by_cases hs : n = s.node
      · simp only [hs, ↓reduceIte]
        exact ⟨Same.refl g, ⟨[], by simp, by simp, by simp⟩, .inr ⟨_, rfl⟩⟩
      · simp only [hs, ↓reduceIte]
        -- the fold over the registered publishers
        have key : ∀ (ps : List (Nat × Nat)) (acc : G × Res),
            (∀ t ∈ ps, t ∈ pubsAt g n idx) →
            (Same g acc.1 ∧ (∃ L, acc.1.edges = g.edges ++ L ∧
              (∀ e ∈ L, Good g s e ∧ (e.pub, e.out) ∈ tree (k + 1) g n idx) ∧
              (⟨n, idx, s⟩ : Edge) ∈ g.edges ++ L) ∧ (acc.2 = .ok ∨ ∃ e, acc.2 = .err e)) →
            (let r := ps.foldl (fun (acc : G × Res) t => match acc.2 with
                | .ok => publishTo k acc.1 t.1 t.2 s
                | _ => acc) acc
             Same g r.1 ∧ (∃ L, r.1.edges = g.edges ++ L ∧
              (∀ e ∈ L, Good g s e ∧ (e.pub, e.out) ∈ tree (k + 1) g n idx) ∧
              (⟨n, idx, s⟩ : Edge) ∈ g.edges ++ L) ∧ (r.2 = .ok ∨ ∃ e, r.2 = .err e)) := by
          intro ps
          induction ps with
          | nil => intro acc _ h; exact h
          | cons t ps ihp =>
            intro acc hmem hacc
            simp only [List.foldl_cons]
            apply ihp _ (fun x hx => hmem x (List.mem_cons_of_mem _ hx))
            obtain ⟨hsame, ⟨L, hL, hgood, hfirst⟩, hres⟩ := hacc
            rcases hres with hok | ⟨e, herr⟩
            · simp only [hok]
              have ht := hmem t List.mem_cons_self
              have htlt : t.1 < acc.1.nodes.length := by
                rw [hsame.1]
                unfold pubsAt at ht
                simp only [List.mem_map, List.mem_filter] at ht
                obtain ⟨r, ⟨hrm, _⟩, rfl⟩ := ht
                exact hr r hrm
              have hr' : ∀ r ∈ acc.1.regs, r.pub < acc.1.nodes.length := by
                rw [hsame.1, hsame.2.1]; exact hr
              obtain ⟨hs2, ⟨L2, hL2, hgood2, _⟩, hres2⟩ := ih acc.1 t.1 t.2 s htlt hr'
              refine ⟨hsame.trans hs2, ⟨L ++ L2, by rw [hL2, hL, List.append_assoc], ?_, ?_⟩, hres2⟩
              · intro e he
                rcases List.mem_append.mp he with he | he
                · exact hgood e he
                · obtain ⟨hg2, ht2⟩ := hgood2 e he
                  refine ⟨hg2.same hsame, ?_⟩
                  rw [hsame.tree] at ht2
                  simp only [tree, hf, ↓reduceIte, List.mem_cons, List.mem_flatMap]
                  exact .inr ⟨t, ht, ht2⟩
              · rw [← List.append_assoc]; exact List.mem_append_left _ hfirst
            · simp only [herr]
              exact ⟨hsame, ⟨L, hL, hgood, hfirst⟩, .inr (by first | exact ⟨e, rfl⟩ | exact ⟨e, herr⟩)⟩
        have hstart := key (pubsAt g n idx) (addEdge g ⟨n, idx, s⟩, .ok) (fun _ h => h) (by
          obtain ⟨L, hL, hall, hin⟩ := addEdge_edges g ⟨n, idx, s⟩
          refine ⟨addEdge_same g _, ⟨L, hL, ?_, hin⟩, .inl rfl⟩
          intro e he
          have := hall e he
          subst this
          refine ⟨⟨rfl, hs, hn, .inl hf⟩, ?_⟩
          simp [tree])
        obtain ⟨h1, ⟨L, hL, hg, hfst⟩, h3⟩ := hstart
        exact ⟨h1, ⟨L, hL, hg, fun _ => hfst⟩, h3⟩
    · have hf' : isFuture g n = false := by simpa using hf
      simp only [hf', Bool.false_eq_true, ↓reduceIte]
      by_cases ht : trained g n = true
      · simp only [ht, ↓reduceIte]
        exact ⟨Same.refl g, ⟨[], by simp, by simp, by simp⟩, .inr ⟨_, rfl⟩⟩
      · simp only [ht, Bool.false_eq_true, ↓reduceIte]
        by_cases hs : n = s.node
        · simp only [hs, ↓reduceIte]
          exact ⟨Same.refl g, ⟨[], by simp, by simp, by simp⟩, .inr ⟨_, rfl⟩⟩
        · simp only [hs, ↓reduceIte]
          obtain ⟨L, hL, hall, hin⟩ := addEdge_edges g ⟨n, idx, s⟩
          refine ⟨addEdge_same g _, ⟨L, hL, ?_, fun _ => hin⟩, .inl rfl⟩
          intro e he
          have := hall e he
          subst this
          refine ⟨⟨rfl, hs, hn, .inr (by simpa using ht)⟩, ?_⟩
          simp [tree]

/-- the edges `unpublishTo … s` keeps -/
def keep (s : Sub) (T : List (Nat × Nat)) (e : Edge) : Bool := !(decide (e.sub = s) && decide ((e.pub, e.out) ∈ T))

theorem delEdge_spec (g : G) (n idx : Nat) (s : Sub) :
    (delEdge g ⟨n, idx, s⟩).edges = g.edges.filter (keep s [(n, idx)]) := by
  unfold delEdge
  apply List.filter_congr
  intro e _
  cases e with
  | mk p o s' =>
    simp only [keep, List.mem_singleton, Prod.mk.injEq, ne_eq, Edge.mk.injEq]
    by_cases h1 : s' = s <;> by_cases h2 : p = n <;> by_cases h3 : o = idx <;> simp [h1, h2, h3]

theorem keep_append (s : Sub) (T1 T2 : List (Nat × Nat)) (e : Edge) :
    (keep s T1 e && keep s T2 e) = keep s (T1 ++ T2) e := by
  simp only [keep, List.mem_append]
  by_cases h1 : e.sub = s <;> by_cases h2 : (e.pub, e.out) ∈ T1 <;> by_cases h3 : (e.pub, e.out) ∈ T2 <;>
    simp [h1, h2, h3]

theorem unpublishTo_spec : ∀ (fuel : Nat) (g : G) (n idx : Nat) (s : Sub),
    Same g (unpublishTo fuel g n idx s) ∧
    (unpublishTo fuel g n idx s).edges = g.edges.filter (keep s (tree fuel g n idx)) := by
  intro fuel
  induction fuel with
  | zero =>
    intro g n idx s
    refine ⟨Same.refl g, ?_⟩
    simp only [unpublishTo, tree]
    exact (List.filter_eq_self.mpr (fun e _ => by simp [keep])).symm
  | succ k ih =>
    intro g n idx s
    unfold unpublishTo
    by_cases hf : isFuture g n = true
    · simp only [hf, ↓reduceIte]
      have key : ∀ (ps : List (Nat × Nat)) (acc : G) (T : List (Nat × Nat)),
          Same g acc → acc.edges = g.edges.filter (keep s T) →
          Same g (ps.foldl (fun (acc : G) t => unpublishTo k acc t.1 t.2 s) acc) ∧
          (ps.foldl (fun (acc : G) t => unpublishTo k acc t.1 t.2 s) acc).edges =
            g.edges.filter (keep s (T ++ ps.flatMap (fun t => tree k g t.1 t.2))) := by
        intro ps
        induction ps with
        | nil => intro acc T h1 h2; simpa using ⟨h1, h2⟩
        | cons t ps ihp =>
          intro acc T h1 h2
          simp only [List.foldl_cons, List.flatMap_cons]
          obtain ⟨s1, s2⟩ := ih acc t.1 t.2 s
          have := ihp (unpublishTo k acc t.1 t.2 s) (T ++ tree k g t.1 t.2) (h1.trans s1) (by
            rw [s2, h2, h1.tree, List.filter_filter]
            apply List.filter_congr
            intro e _
            rw [Bool.and_comm, keep_append])
          rw [List.append_assoc] at this
          exact this
      have h0 := key (pubsAt g n idx) (delEdge g ⟨n, idx, s⟩) [(n, idx)] (Same.edges g _) (delEdge_spec g n idx s)
      simpa [tree, hf] using h0
    · have hf' : isFuture g n = false := by simpa using hf
      simp only [hf', Bool.false_eq_true, ↓reduceIte]
      refine ⟨Same.edges g _, ?_⟩
      rw [delEdge_spec]
      simp [tree, hf']

/-- withdrawing a subscription that was fresh before it was published restores the state, whether the
publishing succeeded or stopped half-way -/
theorem unpublish_undo (fuel : Nat) (g : G) (n idx : Nat) (s : Sub)
    (hn : n < g.nodes.length) (hr : ∀ r ∈ g.regs, r.pub < g.nodes.length)
    (hfresh : ∀ e ∈ g.edges, e.sub ≠ s) :
    unpublishTo fuel (publishTo fuel g n idx s).1 n idx s = g := by
  obtain ⟨hsame, ⟨L, hL, hgood, _⟩, _⟩ := publishTo_spec fuel g n idx s hn hr
  obtain ⟨u1, u2⟩ := unpublishTo_spec fuel (publishTo fuel g n idx s).1 n idx s
  apply eq_of_same (hsame.trans u1)
  rw [u2, hL, hsame.tree, List.filter_append]
  have h1 : g.edges.filter (keep s (tree fuel g n idx)) = g.edges := by
    apply List.filter_eq_self.mpr
    intro e he
    simp [keep, hfresh e he]
  have h2 : L.filter (keep s (tree fuel g n idx)) = [] := by
    apply List.filter_eq_nil_iff.mpr
    intro e he
    obtain ⟨hg, ht⟩ := hgood e he
    simp [keep, hg.1, ht]
  rw [h1, h2, List.append_nil]

theorem publishTo_same : ∀ (fuel : Nat) (g : G) (n idx : Nat) (s : Sub), Same g (publishTo fuel g n idx s).1 := by
  intro fuel
  induction fuel with
  | zero => intro g n idx s; exact Same.refl g
  | succ k ih =>
    intro g n idx s
    unfold publishTo
    split
    · split
      · exact Same.refl g
      · have key : ∀ (ps : List (Nat × Nat)) (acc : G × Res), Same g acc.1 →
            Same g (ps.foldl (fun (acc : G × Res) t => match acc.2 with
              | .ok => publishTo k acc.1 t.1 t.2 s
              | _ => acc) acc).1 := by
          intro ps
          induction ps with
          | nil => intro acc h; exact h
          | cons t ps ihp =>
            intro acc h
            simp only [List.foldl_cons]
            apply ihp
            split
            · exact h.trans (ih _ _ _ _)
            · exact h
        exact key _ _ (addEdge_same g _)
    · split
      · exact Same.refl g
      · split
        · exact Same.refl g
        · exact addEdge_same g _

theorem foldl_none {α : Type} (f : α → Option Err) : ∀ (l : List α) (acc : Option Err),
    l.foldl (fun (acc : Option Err) t => match acc with
      | none => f t
      | e => e) acc = none → acc = none ∧ ∀ t ∈ l, f t = none := by
  intro l
  induction l with
  | nil => intro acc h; exact ⟨h, by simp⟩
  | cons t l ih =>
    intro acc h
    simp only [List.foldl_cons] at h
    obtain ⟨h1, h2⟩ := ih _ h
    cases acc with
    | some e => simp at h1
    | none =>
      simp only at h1
      exact ⟨rfl, by intro x hx; rcases List.mem_cons.mp hx with rfl | hx; exact h1; exact h2 x hx⟩

/-- a passing dry run means the publishing succeeds (on any state with the same nodes, registrations and ports) -/
theorem publishable_ok : ∀ (fuel : Nat) (g g' : G) (n idx : Nat) (s : Sub), Same g g' →
    publishable fuel g n idx s = none → (publishTo fuel g' n idx s).2 = .ok := by
  intro fuel
  induction fuel with
  | zero => intro g g' n idx s _ h; simp [publishable] at h
  | succ k ih =>
    intro g g' n idx s hsame h
    unfold publishable at h
    unfold publishTo
    rw [hsame.isFuture, hsame.trained, hsame.pubsAt]
    by_cases hf : isFuture g n = true
    · simp only [hf, ↓reduceIte] at h ⊢
      by_cases hs : n = s.node
      · simp [hs] at h
      · simp only [hs, ↓reduceIte] at h ⊢
        have hall := (foldl_none (fun (t : Nat × Nat) => publishable k g t.1 t.2 s) _ _ h).2
        have key : ∀ (ps : List (Nat × Nat)) (acc : G × Res), (∀ t ∈ ps, publishable k g t.1 t.2 s = none) →
            Same g acc.1 → acc.2 = .ok →
            (ps.foldl (fun (acc : G × Res) t => match acc.2 with
              | .ok => publishTo k acc.1 t.1 t.2 s
              | _ => acc) acc).2 = .ok := by
          intro ps
          induction ps with
          | nil => intro acc _ _ h; exact h
          | cons t ps ihp =>
            intro acc hp h1 h2
            simp only [List.foldl_cons, h2]
            apply ihp _ (fun x hx => hp x (List.mem_cons_of_mem _ hx))
            · exact h1.trans (publishTo_same _ _ _ _ _)
            · exact ih g acc.1 t.1 t.2 s h1 (hp t List.mem_cons_self)
        exact key _ _ hall (hsame.trans (addEdge_same g' _)) rfl
    · have hf' : isFuture g n = false := by simpa using hf
      simp only [hf', Bool.false_eq_true, ↓reduceIte] at h ⊢
      by_cases ht : trained g n = true
      · simp [ht] at h
      · simp only [ht, Bool.false_eq_true, ↓reduceIte] at h ⊢
        by_cases hs : n = s.node
        · simp [hs] at h
        · simp [hs]

end ForML.Graph
