/-
C06 — feature level lemmas: the generated operator table is sound, and `compileF` preserves the meaning of a
feature when origins are addressed by injective names.
-/
import ForML.Model.ParserWF
import ForML.Model.DslDenote

namespace ForML.C06
open ForML.Dsl ForML.Rel ForML.Parser ForML.Denote

/-! ### the operator table -/

theorem sqlScalar_eq_dslScalar (op : Op) (sop : SqlOp) (h : exprOp op = some sop) (hr : sop ≠ .raises) (vs : List Val) :
    sqlScalar sop vs = dslScalar op vs := by
  cases op <;> simp [exprOp, Generated.C06.expression, Op.className, List.lookup] at h <;> subst h <;>
    first
    | (exact absurd rfl hr)
    | (rcases vs with _ | ⟨a, _ | ⟨b, _ | ⟨c, t⟩⟩⟩ <;> rfl)

theorem sqlAgg_eq_dslAgg (op : Op) (sop : SqlOp) (h : exprOp op = some sop) (hr : sop ≠ .raises) (vs : List Val) :
    sqlAgg sop vs = dslAgg op vs := by
  cases op <;> simp [exprOp, Generated.C06.expression, Op.className, List.lookup] at h <;> subst h <;>
    first
    | (exact absurd rfl hr)
    | rfl

theorem isAgg_eq (op : Op) (sop : SqlOp) (h : exprOp op = some sop) (hr : sop ≠ .raises) :
    sop.isAgg = op.isAggregate := by
  cases op <;> simp [exprOp, Generated.C06.expression, Op.className, List.lookup] at h <;> subst h <;>
    first
    | (exact absurd rfl hr)
    | rfl

/-! ### structural origins vs. qualified names -/

/-- DSL column label ↦ SQL column label -/
def phi (srcs : Sources) : Option (Source × String) → Option (String × String) :=
  Option.map (fun p => (qualD srcs p.1, p.2))

/-- the origins in `scope` are addressed by pairwise different names -/
def InjOn (srcs : Sources) (scope : List Source) : Prop :=
  ∀ a ∈ scope, ∀ b ∈ scope, qualD srcs a = qualD srcs b → a = b

/-- every labelled column belongs to an origin of `scope` -/
def LabelsIn (labels : Labels) (scope : List Source) : Prop :=
  ∀ o n, some (o, n) ∈ labels → o ∈ scope

@[simp] theorem phi_none (srcs : Sources) : phi srcs none = none := rfl
@[simp] theorem phi_some (srcs : Sources) (o : Source) (n : String) :
    phi srcs (some (o, n)) = some (qualD srcs o, n) := rfl

theorem idx_agree (srcs : Sources) (scope : List Source) (hinj : InjOn srcs scope) (o : Source) (n : String)
    (ho : o ∈ scope) : ∀ (labels : Labels), LabelsIn labels scope →
    idxOf? (some (qualD srcs o, n)) (labels.map (phi srcs)) = idxOf? (some (o, n)) labels
  | [], _ => rfl
  | l :: ls, hin => by
    have ih := idx_agree srcs scope hinj o n ho ls (fun o' n' h => hin o' n' (List.mem_cons_of_mem _ h))
    cases l with
    | none => simp only [List.map_cons, phi_none, idxOf?, ih]; simp
    | some p =>
      obtain ⟨o', n'⟩ := p
      have ho' : o' ∈ scope := hin o' n' (List.mem_cons_self ..)
      simp only [List.map_cons, phi_some, idxOf?, ih]
      by_cases hEq : o' = o ∧ n' = n
      · obtain ⟨rfl, rfl⟩ := hEq
        simp
      · have hne : ¬ (some (qualD srcs o', n') = some (qualD srcs o, n)) := by
          intro h
          injection h with h
          injection h with h1 h2
          exact hEq ⟨hinj o' ho' o ho h1, h2⟩
        have hne' : ¬ (some (o', n') = some (o, n)) := by
          intro h
          injection h with h
          injection h with h1 h2
          exact hEq ⟨h1, h2⟩
        rw [if_neg hne, if_neg hne']

theorem qualD_of_qual {srcs : Sources} {o : Source} {q : String} (h : qual srcs o = some q) : qualD srcs o = q := by
  simp [qualD, h]

/-- `compileF` preserves the meaning of a supported feature -/
theorem evalS_compileF (srcs : Sources) (scope : List Source) (labels : Labels) (hinj : InjOn srcs scope)
    (hin : LabelsIn labels scope) :
    ∀ (f : Feature) (e : SqlExpr), supportedF scope f = true → compileF srcs f = some e →
      evalS (labels.map (phi srcs)) e = evalF labels f
  | .lit v, e, _, hc => by
    simp [compileF] at hc; subst hc
    funext g row; simp [evalS, evalF]
  | .elem o n, e, hs, hc => by
    simp only [compileF, Option.map_eq_some_iff] at hc
    obtain ⟨q, hq, rfl⟩ := hc
    have ho : o ∈ scope := by simpa [supportedF] using hs
    funext g row
    simp only [evalS, evalF]
    rw [← qualD_of_qual hq, idx_agree srcs scope hinj o n ho labels hin]
  | .alias f n, e, hs, hc => by
    simp only [compileF, Option.map_eq_some_iff] at hc
    obtain ⟨e', he', rfl⟩ := hc
    have ih := evalS_compileF srcs scope labels hinj hin f e' (by simpa [supportedF] using hs) he'
    funext g row
    simp only [evalS, evalF, ih]
  | .expr op .nil, e, hs, hc => by
    simp [compileF, compileFs] at hc
  | .expr op (.cons f1 .nil), e, hs, hc => by
    simp only [supportedF, supportedFs, Bool.and_eq_true, Bool.and_true] at hs
    obtain ⟨⟨⟨hop, _⟩, _⟩, hs1⟩ := hs
    cases hop' : exprOp op with
    | none => simp [hop'] at hop
    | some sop =>
      have hr : sop ≠ .raises := by simpa [hop'] using hop
      cases h1 : compileF srcs f1 with
      | none => simp [compileF, compileFs, hop', h1] at hc
      | some a =>
        simp [compileF, compileFs, hop', h1, hr] at hc
        subst hc
        have ih := evalS_compileF srcs scope labels hinj hin f1 a hs1 h1
        funext g row
        simp only [evalS, evalF, isAgg_eq op sop hop' hr, ih, evalFs]
        by_cases hagg : op.isAggregate = true
        · simp only [hagg, if_true]
          congr 1
          funext vs
          exact sqlAgg_eq_dslAgg op sop hop' hr vs
        · simp only [hagg]
          cases evalF labels f1 g row with
          | none => simp
          | some v => simp [sqlScalar_eq_dslScalar op sop hop' hr]
  | .expr op (.cons f1 (.cons f2 .nil)), e, hs, hc => by
    simp only [supportedF, supportedFs, Bool.and_eq_true, Bool.and_true] at hs
    obtain ⟨⟨⟨hop, har⟩, _⟩, hs1, hs2⟩ := hs
    cases hop' : exprOp op with
    | none => simp [hop'] at hop
    | some sop =>
      have hr : sop ≠ .raises := by simpa [hop'] using hop
      cases h1 : compileF srcs f1 with
      | none => simp [compileF, compileFs, hop', h1] at hc
      | some a =>
        cases h2 : compileF srcs f2 with
        | none => simp [compileF, compileFs, hop', h1, h2] at hc
        | some b =>
          simp [compileF, compileFs, hop', h1, h2, hr] at hc
          subst hc
          have ih1 := evalS_compileF srcs scope labels hinj hin f1 a hs1 h1
          have ih2 := evalS_compileF srcs scope labels hinj hin f2 b hs2 h2
          have hna : op.isAggregate = false := by
            cases op <;> simp [Op.arity, featuresLength] at har <;> rfl
          funext g row
          simp only [evalS, evalF, ih1, ih2, evalFs, hna]
          cases evalF labels f1 g row with
          | none => simp
          | some x =>
            cases evalF labels f2 g row with
            | none => simp
            | some y => simp [sqlScalar_eq_dslScalar op sop hop' hr]
  | .expr op (.cons f1 (.cons f2 (.cons f3 r))), e, hs, hc => by
    simp only [supportedF, Bool.and_eq_true] at hs
    obtain ⟨⟨⟨_, har⟩, h12⟩, _⟩ := hs
    cases op <;> simp [Op.arity, featuresLength] at har h12 <;> omega
  | .cast _ _, e, hs, _ => by simp [supportedF] at hs
  | .window _ _ _, e, hs, _ => by simp [supportedF] at hs

/-- `compileF` keeps "contains an aggregate" -/
theorem hasAgg_compileF (srcs : Sources) (scope : List Source) :
    ∀ (f : Feature) (e : SqlExpr), supportedF scope f = true → compileF srcs f = some e → e.hasAgg = hasAggF f
  | .lit v, e, _, hc => by simp [compileF] at hc; subst hc; rfl
  | .elem o n, e, _, hc => by
    simp only [compileF, Option.map_eq_some_iff] at hc
    obtain ⟨q, _, rfl⟩ := hc; rfl
  | .alias f n, e, hs, hc => by
    simp only [compileF, Option.map_eq_some_iff] at hc
    obtain ⟨e', he', rfl⟩ := hc
    simpa [SqlExpr.hasAgg, hasAggF] using hasAgg_compileF srcs scope f e' (by simpa [supportedF] using hs) he'
  | .expr op .nil, e, _, hc => by simp [compileF, compileFs] at hc
  | .expr op (.cons f1 .nil), e, hs, hc => by
    simp only [supportedF, supportedFs, Bool.and_eq_true, Bool.and_true] at hs
    obtain ⟨⟨⟨hop, _⟩, _⟩, hs1⟩ := hs
    cases hop' : exprOp op with
    | none => simp [hop'] at hop
    | some sop =>
      have hr : sop ≠ .raises := by simpa [hop'] using hop
      cases h1 : compileF srcs f1 with
      | none => simp [compileF, compileFs, hop', h1] at hc
      | some a =>
        simp [compileF, compileFs, hop', h1, hr] at hc
        subst hc
        simp [SqlExpr.hasAgg, hasAggF, hasAggFs, isAgg_eq op sop hop' hr, hasAgg_compileF srcs scope f1 a hs1 h1]
  | .expr op (.cons f1 (.cons f2 .nil)), e, hs, hc => by
    simp only [supportedF, supportedFs, Bool.and_eq_true, Bool.and_true] at hs
    obtain ⟨⟨⟨hop, har⟩, _⟩, hs1, hs2⟩ := hs
    cases hop' : exprOp op with
    | none => simp [hop'] at hop
    | some sop =>
      have hr : sop ≠ .raises := by simpa [hop'] using hop
      cases h1 : compileF srcs f1 with
      | none => simp [compileF, compileFs, hop', h1] at hc
      | some a =>
        cases h2 : compileF srcs f2 with
        | none => simp [compileF, compileFs, hop', h1, h2] at hc
        | some b =>
          simp [compileF, compileFs, hop', h1, h2, hr] at hc
          subst hc
          have hna : op.isAggregate = false := by
            cases op <;> simp [Op.arity, featuresLength] at har <;> rfl
          simp [SqlExpr.hasAgg, hasAggF, hasAggFs, hna, hasAgg_compileF srcs scope f1 a hs1 h1,
            hasAgg_compileF srcs scope f2 b hs2 h2]
  | .expr op (.cons f1 (.cons f2 (.cons f3 r))), e, hs, _ => by
    simp only [supportedF, Bool.and_eq_true] at hs
    obtain ⟨⟨⟨_, har⟩, h12⟩, _⟩ := hs
    cases op <;> simp [Op.arity, featuresLength] at har h12 <;> omega
  | .cast _ _, e, hs, _ => by simp [supportedF] at hs
  | .window _ _ _, e, hs, _ => by simp [supportedF] at hs

/-- the output column keeps its name -/
theorem outName_compileF (srcs : Sources) (f : Feature) (e : SqlExpr) (hc : compileF srcs f = some e) :
    e.outName = selName f := by
  cases f with
  | lit v => simp [compileF] at hc; subst hc; rfl
  | elem o n =>
    simp only [compileF, Option.map_eq_some_iff] at hc
    obtain ⟨q, _, rfl⟩ := hc; rfl
  | alias f n =>
    simp only [compileF, Option.map_eq_some_iff] at hc
    obtain ⟨e', _, rfl⟩ := hc; rfl
  | expr op args =>
    simp only [compileF] at hc
    split at hc
    · split at hc <;> simp at hc <;> subst hc <;> rfl
    · split at hc <;> simp at hc <;> subst hc <;> rfl
    · simp at hc
  | cast f k => simp [compileF] at hc
  | window a b c => simp [compileF] at hc

/-- a supported feature over provisioned origins compiles -/
theorem compileF_some (srcs : Sources) (scope : List Source) (hq : ∀ o ∈ scope, (qual srcs o).isSome = true) :
    ∀ (f : Feature), supportedF scope f = true → ∃ e, compileF srcs f = some e
  | .lit v, _ => ⟨_, rfl⟩
  | .elem o n, hs => by
    have ho : o ∈ scope := by simpa [supportedF] using hs
    obtain ⟨q, hq'⟩ := Option.isSome_iff_exists.mp (hq o ho)
    exact ⟨.col q n, by simp [compileF, hq']⟩
  | .alias f n, hs => by
    obtain ⟨e, he⟩ := compileF_some srcs scope hq f (by simpa [supportedF] using hs)
    exact ⟨.label e n, by simp [compileF, he]⟩
  | .expr op .nil, hs => by
    simp only [supportedF, Bool.and_eq_true] at hs
    obtain ⟨⟨⟨_, har⟩, h12⟩, _⟩ := hs
    cases op <;> simp [Op.arity, featuresLength] at har h12
  | .expr op (.cons f1 .nil), hs => by
    simp only [supportedF, supportedFs, Bool.and_eq_true, Bool.and_true] at hs
    obtain ⟨⟨⟨hop, _⟩, _⟩, hs1⟩ := hs
    cases hop' : exprOp op with
    | none => simp [hop'] at hop
    | some sop =>
      have hr : sop ≠ .raises := by simpa [hop'] using hop
      obtain ⟨a, ha⟩ := compileF_some srcs scope hq f1 hs1
      exact ⟨.un sop a, by simp [compileF, compileFs, hop', ha, hr]⟩
  | .expr op (.cons f1 (.cons f2 .nil)), hs => by
    simp only [supportedF, supportedFs, Bool.and_eq_true, Bool.and_true] at hs
    obtain ⟨⟨⟨hop, _⟩, _⟩, hs1, hs2⟩ := hs
    cases hop' : exprOp op with
    | none => simp [hop'] at hop
    | some sop =>
      have hr : sop ≠ .raises := by simpa [hop'] using hop
      obtain ⟨a, ha⟩ := compileF_some srcs scope hq f1 hs1
      obtain ⟨b, hb⟩ := compileF_some srcs scope hq f2 hs2
      exact ⟨.bin sop a b, by simp [compileF, compileFs, hop', ha, hb, hr]⟩
  | .expr op (.cons f1 (.cons f2 (.cons f3 r))), hs => by
    simp only [supportedF, Bool.and_eq_true] at hs
    obtain ⟨⟨⟨_, har⟩, h12⟩, _⟩ := hs
    cases op <;> simp [Op.arity, featuresLength] at har h12 <;> omega
  | .cast _ _, hs => by simp [supportedF] at hs
  | .window _ _ _, hs => by simp [supportedF] at hs

/-! ### lists of features, optional features, orderings -/

theorem compileFs_spec (srcs : Sources) (scope : List Source) (labels : Labels) (hinj : InjOn srcs scope)
    (hin : LabelsIn labels scope) (hq : ∀ o ∈ scope, (qual srcs o).isSome = true) :
    ∀ (fs : Features), supportedFs scope fs = true →
      ∃ es, compileFs srcs fs = some es ∧ es.map (evalS (labels.map (phi srcs))) = evsOf labels fs ∧
        es.map (·.outName) = selNames fs ∧ es.any (·.hasAgg) = hasAggFs fs ∧ es.isEmpty = fs.isEmpty
  | .nil, _ => ⟨[], rfl, rfl, rfl, rfl, rfl⟩
  | .cons f fs, hs => by
    simp only [supportedFs, Bool.and_eq_true] at hs
    obtain ⟨e, he⟩ := compileF_some srcs scope hq f hs.1
    obtain ⟨es, hes, h1, h2, h3, _⟩ := compileFs_spec srcs scope labels hinj hin hq fs hs.2
    refine ⟨e :: es, by simp [compileFs, he, hes], ?_, ?_, ?_, rfl⟩
    · simp [evsOf, h1, evalS_compileF srcs scope labels hinj hin f e hs.1 he]
    · simp [selNames, h2, outName_compileF srcs f e he]
    · simp [hasAggFs, h3, hasAgg_compileF srcs scope f e hs.1 he]

theorem compileFO_spec (srcs : Sources) (scope : List Source) (labels : Labels) (hinj : InjOn srcs scope)
    (hin : LabelsIn labels scope) (hq : ∀ o ∈ scope, (qual srcs o).isSome = true) :
    ∀ (fo : FeatureOpt), supportedFO scope fo = true →
      ∃ eo, compileFO srcs fo = some eo ∧ eo.map (evalS (labels.map (phi srcs))) = evOfOpt labels fo ∧
        (eo.map (·.hasAgg)).getD false = hasAggFO fo
  | .none, _ => ⟨none, rfl, rfl, rfl⟩
  | .some f, hs => by
    obtain ⟨e, he⟩ := compileF_some srcs scope hq f (by simpa [supportedFO] using hs)
    refine ⟨some e, by simp [compileFO, he], ?_, ?_⟩
    · simp [evOfOpt, evalS_compileF srcs scope labels hinj hin f e (by simpa [supportedFO] using hs) he]
    · simp [hasAggFO, hasAgg_compileF srcs scope f e (by simpa [supportedFO] using hs) he]

theorem orderOf_dirOf (d : Dir) (h : (orderOf d).isSome = true) : orderOf d = some (dirOf d) := by
  cases d <;> simp [orderOf, Generated.C06.orders, Dir.wire, List.lookup, dirOf] at h ⊢

theorem compileOrd_spec (srcs : Sources) (scope : List Source) (labels : Labels) (hinj : InjOn srcs scope)
    (hin : LabelsIn labels scope) (hq : ∀ o ∈ scope, (qual srcs o).isSome = true) :
    ∀ (os : Orderings), supportedOrd scope os = true →
      ∃ eos, compileOrd srcs os = some eos ∧
        eos.map (fun e => (evalS (labels.map (phi srcs)) e.1, e.2)) = evsOfOrd labels os ∧
        eos.any (·.1.hasAgg) = hasAggOrd os
  | .nil, _ => ⟨[], rfl, rfl, rfl⟩
  | .cons (.mk f d) os, hs => by
    simp only [supportedOrd, Bool.and_eq_true] at hs
    obtain ⟨⟨hf, hd⟩, hos⟩ := hs
    obtain ⟨e, he⟩ := compileF_some srcs scope hq f hf
    obtain ⟨eos, heos, h1, h2⟩ := compileOrd_spec srcs scope labels hinj hin hq os hos
    refine ⟨(e, dirOf d) :: eos, by simp [compileOrd, he, heos, orderOf_dirOf d hd], ?_, ?_⟩
    · simp [evsOfOrd, h1, evalS_compileF srcs scope labels hinj hin f e hf he]
    · simp [hasAggOrd, h2, hasAgg_compileF srcs scope f e hf he]

end ForML.C06
