/-
C07: which exception a rejected script raises.  In a `normal`, `tame`, `resolvable` script every kind that the
constructors read exists, every `features` / `schema` property can be computed, so the only way to fail is one of the
`raise GrammarError` sites.
-/
import ForML.Model.Grammar
import ForML.Lemmas.C07Main

namespace ForML.Dsl

/-- the computation fails with the grammar error, if it fails -/
def GOnly {α : Type} (x : R α) : Prop := ∀ e, x = Except.error e → e = CtorErr.grammar

theorem GOnly.ok {α : Type} (a : α) : GOnly (Except.ok a : R α) := by
  intro e h
  cases h

theorem GOnly.guard (b : Bool) : GOnly (guardG b) := by
  intro e h
  unfold guardG at h
  split at h
  · cases h
  · cases h
    rfl

theorem GOnly.bind {α β : Type} {x : R α} {f : α → R β} (hx : GOnly x) (hf : ∀ a, x = Except.ok a → GOnly (f a)) :
    GOnly (x >>= f) := by
  intro e h
  cases hxx : x with
  | error e' =>
    rw [hxx] at h
    have h' : (Except.error e' : R β) = Except.error e := h
    cases h'
    exact hx _ hxx
  | ok a =>
    rw [hxx] at h
    exact hf a hxx e h

theorem GOnly.of_eq_ok {α : Type} {x : R α} {a : α} (h : x = Except.ok a) : GOnly x := by
  rw [h]
  exact GOnly.ok a

/-! ### every kind that is read exists -/

theorem Op.arity_pos_of_arith (op : Op) (h : op.group = OpGroup.arith) : 0 < op.arity := by
  cases op <;> simp [Op.group] at h <;> simp [Op.arity]

theorem sig_lookup_some (s : Source) (n : String) (hp : s.plain = true) (hr : s.sig.any (fun p => p.1 == some n) = true) :
    ∃ k, sigLookup n s.sig = some k := by
  obtain ⟨_, h2, _⟩ := (Source.plain_iff s).mp hp
  obtain ⟨S, hS⟩ := exists_liftSig _ h2
  rw [hS, sigLookup_lift]
  apply lookup_isSome_of_mem
  rw [hS] at hr
  simp only [List.any_eq_true, beq_iff_eq] at hr
  obtain ⟨p, hp', he⟩ := hr
  rw [← mem_liftSig_names]
  exact List.mem_map.mpr ⟨p, hp', he⟩

mutual
theorem Feature.kindS_some : (f : Feature) → f.wf = true → f.tame = true → f.resolvable = true → ∃ k, f.kindS = some k
  | .lit v, _, _, _ => ⟨_, rfl⟩
  | .elem o n, _, ht, hr => by
    simp only [Feature.tame, Bool.and_eq_true] at ht
    simp only [Feature.resolvable, Bool.and_eq_true] at hr
    simp only [Feature.kindS]
    exact sig_lookup_some o n ht.2 hr.2
  | .alias f n, hw, ht, hr => by
    simp only [Feature.wf] at hw
    simp only [Feature.tame] at ht
    simp only [Feature.resolvable] at hr
    simp only [Feature.kindS]
    exact Feature.kindS_some f hw ht hr
  | .cast f k, _, _, _ => ⟨k, rfl⟩
  | .window fn ps os, hw, ht, hr => by
    simp only [Feature.wf, Bool.and_eq_true, Bool.or_eq_true, beq_iff_eq] at hw
    simp only [Feature.tame, Bool.and_eq_true] at ht
    simp only [Feature.resolvable, Bool.and_eq_true, Bool.or_eq_true, beq_iff_eq] at hr
    simp only [Feature.kindS]
    by_cases h : fn = .expr .rownumber .nil
    · subst h
      exact ⟨.integer, by simp [Feature.kindS, Op.group]⟩
    · have h1 : fn.wf = true := by
        rcases hw.1.1 with h' | h'
        · exact absurd h' h
        · exact h'
      have h2 : fn.resolvable = true := by
        rcases hr.1.1 with h' | h'
        · exact absurd h' h
        · exact h'
      exact Feature.kindS_some fn h1 ht.1.1 h2
  | .expr op args, hw, ht, hr => by
    simp only [Feature.wf, Bool.and_eq_true, decide_eq_true_eq] at hw
    simp only [Feature.tame] at ht
    simp only [Feature.resolvable, Bool.and_eq_true, decide_eq_true_eq] at hr
    cases hg : op.group <;> simp only [Feature.kindS, hg] <;> try exact ⟨_, rfl⟩
    obtain ⟨ks, hks, hlen⟩ := Features.kindsS_some args hw.1.1.1 ht hr.1.1
    have hpos := Op.arity_pos_of_arith op hg
    rw [hks, mapM_id_map_some]
    cases ks with
    | nil =>
      simp only [List.length_nil] at hlen
      omega
    | cons k rest => exact ⟨rest.foldl maxRank k, by simp [largest_foldl]⟩
theorem Features.kindsS_some : (fs : Features) → fs.wf = true → fs.tame = true → fs.resolvable = true →
    ∃ ks : List Kind, fs.kindsS = ks.map some ∧ ks.length = fs.toList.length
  | .nil, _, _, _ => ⟨[], rfl, rfl⟩
  | .cons f fs, hw, ht, hr => by
    simp only [Features.wf, Bool.and_eq_true] at hw
    simp only [Features.tame, Bool.and_eq_true] at ht
    simp only [Features.resolvable, Bool.and_eq_true] at hr
    obtain ⟨k, hk⟩ := Feature.kindS_some f hw.1 ht.1 hr.1
    obtain ⟨ks, hks, hl⟩ := Features.kindsS_some fs hw.2 ht.2 hr.2
    exact ⟨k :: ks, by simp [Features.kindsS, hk, hks], by simp [Features.toList, hl]⟩
end

theorem Feature.kindOf_ok (f : Feature) (hw : f.wf = true) (ht : f.tame = true) (hr : f.resolvable = true) :
    ∃ k, f.kindOf = Except.ok k := by
  obtain ⟨k, hk⟩ := Feature.kindS_some f hw ht hr
  exact ⟨k, (Feature.kind_iff f hw ht k).mpr hk⟩

theorem Features.resolvable_iff : (fs : Features) → (fs.resolvable = true ↔ ∀ f ∈ fs.toList, f.resolvable = true)
  | .nil => by simp [Features.resolvable, Features.toList]
  | .cons f fs => by simp [Features.resolvable, Features.toList, Features.resolvable_iff fs]

/-! ### the checks of one node -/

theorem ensureKinds_gonly (p : Kind → Bool) : (l : List Feature) → (∀ a ∈ l, ∃ k, a.kindOf = Except.ok k) →
    GOnly (ensureKinds p l)
  | [], _ => GOnly.ok ()
  | a :: l, h => by
    obtain ⟨k, hk⟩ := h a (by simp)
    unfold ensureKinds
    rw [hk]
    exact GOnly.bind (GOnly.ok _) (fun _ _ => GOnly.bind (GOnly.guard _) (fun _ _ =>
      ensureKinds_gonly p l (fun b hb => h b (by simp [hb]))))

theorem mapM_kindOf_ok : (l : List Feature) → (∀ a ∈ l, ∃ k, a.kindOf = Except.ok k) →
    ∃ ks, l.mapM Feature.kindOf = Except.ok ks
  | [], _ => ⟨[], rfl⟩
  | a :: l, h => by
    obtain ⟨k, hk⟩ := h a (by simp)
    obtain ⟨ks, hks⟩ := mapM_kindOf_ok l (fun b hb => h b (by simp [hb]))
    exact ⟨k :: ks, by simp [List.mapM_cons, hk, hks, bind, Except.bind, pure, Except.pure]⟩

theorem checkExpr_gonly (op : Op) (args : Features) (hw : args.wf = true) (ht : args.tame = true)
    (hr : args.resolvable = true) (hlen : args.toList.length = op.arity) (hrow : op ≠ Op.rownumber) :
    GOnly (checkExpr op args.toList) := by
  have hk : ∀ a ∈ args.toList, ∃ k, a.kindOf = Except.ok k := fun a ha =>
    Feature.kindOf_ok a ((Features.wf_iff args).mp hw a ha) ((Features.tame_iff args).mp ht a ha)
      ((Features.resolvable_iff args).mp hr a ha)
  unfold checkExpr
  simp only [hlen, ne_eq, not_true_eq_false, if_false]
  cases hg : op.group
  · obtain ⟨ks, hks⟩ := mapM_kindOf_ok _ hk
    simp only [hks]
    exact GOnly.bind (GOnly.guard _) (fun _ _ => GOnly.bind (GOnly.ok _) (fun _ _ => GOnly.guard _))
  · obtain ⟨ks, hks⟩ := mapM_kindOf_ok _ hk
    simp only [hks]
    exact GOnly.bind (GOnly.guard _) (fun _ _ => GOnly.bind (GOnly.ok _) (fun _ _ => GOnly.guard _))
  · exact GOnly.bind (GOnly.guard _) (fun _ _ => ensureKinds_gonly _ _ hk)
  · exact GOnly.bind (GOnly.guard _) (fun _ _ => ensureKinds_gonly _ _ hk)
  · exact GOnly.bind (GOnly.guard _) (fun _ _ => ensureKinds_gonly _ _ hk)
  · exact GOnly.guard _
  · exact GOnly.bind (GOnly.guard _) (fun _ _ => ensureKinds_gonly _ _ hk)
  · exfalso
    cases op <;> simp [Op.group] at hg
    exact hrow rfl

theorem ensurePredicate_gonly (p : Feature) (hw : p.wf = true) (ht : p.tame = true) (hr : p.resolvable = true) :
    GOnly (ensurePredicate p) := by
  obtain ⟨k, hk⟩ := Feature.kindOf_ok p hw ht hr
  unfold ensurePredicate
  rw [hk]
  exact GOnly.bind (GOnly.guard _) (fun _ _ => GOnly.bind (GOnly.ok _) (fun _ _ => GOnly.guard _))

theorem checkJoin_gonly (l r : Source) (k : JoinKind) (c : FeatureOpt) (htl : l.tame = true) (htr : r.tame = true)
    (hwc : c.wf = true) (htc : c.tame = true) (hrc : c.resolvable = true) :
    GOnly (checkJoin structEqv l r k c.toOption) := by
  unfold checkJoin
  cases c with
  | none => exact GOnly.bind (GOnly.guard _) (fun _ _ => GOnly.ok _)
  | some p =>
    simp only [FeatureOpt.wf] at hwc
    simp only [FeatureOpt.tame] at htc
    simp only [FeatureOpt.resolvable] at hrc
    simp only [FeatureOpt.toOption, Source.featuresOf_outs l htl, Source.featuresOf_outs r htr]
    exact GOnly.bind (GOnly.guard _) (fun _ _ => GOnly.bind (ensurePredicate_gonly p hwc htc hrc) (fun _ _ =>
      GOnly.bind (GOnly.guard _) (fun _ _ => GOnly.bind (GOnly.ok _) (fun _ _ => GOnly.bind (GOnly.ok _) (fun _ _ =>
        GOnly.guard _)))))

theorem checkSet_gonly (l r : Source) (hwl : l.wf = true) (hwr : r.wf = true) (htl : l.tame = true) (htr : r.tame = true)
    (hpl : l.plain = true) (hpr : r.plain = true) : GOnly (checkSet l r) := by
  obtain ⟨le, hle, _⟩ := Source.entries_spec l hwl htl hpl
  obtain ⟨re, hre, _⟩ := Source.entries_spec r hwr htr hpr
  unfold checkSet Source.schemaOf
  simp only [hle, hre, ok_bind]
  exact GOnly.guard _

theorem checkFilter_gonly (sup : List Feature) (cum : Feature → Bool) (c : FeatureOpt) (hwc : c.wf = true)
    (htc : c.tame = true) (hrc : c.resolvable = true) : GOnly (checkFilter structEqv sup cum c.toOption) := by
  unfold checkFilter
  cases c with
  | none => exact GOnly.ok _
  | some p =>
    simp only [FeatureOpt.wf] at hwc
    simp only [FeatureOpt.tame] at htc
    simp only [FeatureOpt.resolvable] at hrc
    obtain ⟨k, hk⟩ := Feature.kindOf_ok p hwc htc hrc
    simp only [FeatureOpt.toOption, hk]
    exact GOnly.bind (GOnly.guard _) (fun _ _ => GOnly.bind (GOnly.guard _) (fun _ _ => GOnly.bind (GOnly.ok _)
      (fun _ _ => GOnly.bind (GOnly.guard _) (fun _ _ => GOnly.guard _))))

theorem ensureGroups_gonly : (l : List Feature) → GOnly (ensureGroups l)
  | [] => GOnly.ok _
  | g :: l => by
    unfold ensureGroups ensureGroup
    exact GOnly.bind (GOnly.bind (GOnly.guard _) (fun _ _ => GOnly.guard _)) (fun _ _ => ensureGroups_gonly l)

theorem checkGrouping_gonly (sup feats sel grp : List Feature) : GOnly (checkGrouping structEqv sup feats sel grp) := by
  unfold checkGrouping
  by_cases h : grp.isEmpty = true
  · simp only [h, if_true]
    exact GOnly.ok _
  · simp only [h]
    exact GOnly.bind (ensureGroups_gonly _) (fun _ _ => GOnly.bind (GOnly.guard _) (fun _ _ => GOnly.guard _))

theorem checkQuery_gonly (s : Source) (sel : Features) (pre : FeatureOpt) (grp : Features) (post : FeatureOpt)
    (ord : Orderings) (hts : s.tame = true) (hwpre : pre.wf = true) (htpre : pre.tame = true)
    (hrpre : pre.resolvable = true) (hwpost : post.wf = true) (htpost : post.tame = true)
    (hrpost : post.resolvable = true) :
    GOnly (checkQuery structEqv s sel.toList pre.toOption grp.toList post.toOption ord.toList) := by
  unfold checkQuery
  simp only [Source.featuresOf_outs s hts, ok_bind]
  exact GOnly.bind (GOnly.guard _) (fun _ _ => GOnly.bind (checkFilter_gonly _ _ pre hwpre htpre hrpre) (fun _ _ =>
    GOnly.bind (checkGrouping_gonly _ _ _ _) (fun _ _ => GOnly.bind (checkFilter_gonly _ _ post hwpost htpost hrpost)
      (fun _ _ => GOnly.bind (GOnly.guard _) (fun _ _ => GOnly.guard _)))))

/-! ### the whole script -/

mutual
theorem Feature.construct_gonly : (f : Feature) → f.normal = true → f.tame = true → f.resolvable = true →
    GOnly (Feature.construct structEqv f)
  | .lit v, _, _, _ => GOnly.ok _
  | .elem o n, hn, ht, hr => by
    simp only [Feature.normal] at hn
    simp only [Feature.tame, Bool.and_eq_true] at ht
    simp only [Feature.resolvable, Bool.and_eq_true] at hr
    unfold Feature.construct
    exact GOnly.bind (Source.construct_gonly o hn ht.1 hr.1) (fun _ _ => GOnly.ok _)
  | .alias f n, hn, ht, hr => by
    simp only [Feature.normal, Bool.and_eq_true] at hn
    simp only [Feature.tame] at ht
    simp only [Feature.resolvable] at hr
    unfold Feature.construct
    exact GOnly.bind (Feature.construct_gonly f hn.2 ht hr) (fun _ _ => GOnly.ok _)
  | .cast f k, hn, ht, hr => by
    simp only [Feature.normal] at hn
    simp only [Feature.tame] at ht
    simp only [Feature.resolvable] at hr
    unfold Feature.construct
    exact GOnly.bind (Feature.construct_gonly f hn ht hr) (fun _ _ => GOnly.ok _)
  | .expr op args, hn, ht, hr => by
    simp only [Feature.normal] at hn
    simp only [Feature.tame] at ht
    simp only [Feature.resolvable, Bool.and_eq_true, decide_eq_true_eq, bne_iff_ne, ne_eq] at hr
    unfold Feature.construct
    refine GOnly.bind (Features.construct_gonly args hn ht hr.1.1) (fun a ha => ?_)
    obtain ⟨rfl, hw⟩ := (Features.construct_iff args hn ht a).mp ha
    exact GOnly.bind (checkExpr_gonly op a hw ht hr.1.1 hr.1.2 hr.2) (fun _ _ => GOnly.ok _)
  | .window fn ps os, hn, ht, hr => by
    simp only [Feature.normal, Bool.and_eq_true] at hn
    simp only [Feature.tame, Bool.and_eq_true] at ht
    simp only [Feature.resolvable, Bool.and_eq_true, Bool.or_eq_true, beq_iff_eq] at hr
    unfold Feature.construct
    have h1 : GOnly (if fn == .expr .rownumber .nil then (Except.ok fn : R Feature) else Feature.construct structEqv fn) := by
      by_cases h : fn = .expr .rownumber .nil
      · simp only [h, beq_self_eq_true, if_true]
        exact GOnly.ok _
      · have hb : (fn == Feature.expr Op.rownumber Features.nil) = false := by simpa using h
        simp only [hb, Bool.false_eq_true, if_false]
        have h2 : fn.resolvable = true := by
          rcases hr.1.1 with h' | h'
          · exact absurd h' h
          · exact h'
        exact Feature.construct_gonly fn hn.1.1 ht.1.1 h2
    exact GOnly.bind h1 (fun _ _ => GOnly.bind (Features.construct_gonly ps hn.1.2 ht.1.2 hr.1.2) (fun _ _ =>
      GOnly.bind (Orderings.construct_gonly os hn.2 ht.2 hr.2) (fun _ _ => GOnly.ok _)))
theorem Features.construct_gonly : (fs : Features) → fs.normal = true → fs.tame = true → fs.resolvable = true →
    GOnly (Features.construct structEqv fs)
  | .nil, _, _, _ => GOnly.ok _
  | .cons f fs, hn, ht, hr => by
    simp only [Features.normal, Bool.and_eq_true] at hn
    simp only [Features.tame, Bool.and_eq_true] at ht
    simp only [Features.resolvable, Bool.and_eq_true] at hr
    unfold Features.construct
    exact GOnly.bind (Feature.construct_gonly f hn.1 ht.1 hr.1) (fun _ _ =>
      GOnly.bind (Features.construct_gonly fs hn.2 ht.2 hr.2) (fun _ _ => GOnly.ok _))
theorem FeatureOpt.construct_gonly : (c : FeatureOpt) → c.normal = true → c.tame = true → c.resolvable = true →
    GOnly (FeatureOpt.construct structEqv c)
  | .none, _, _, _ => GOnly.ok _
  | .some f, hn, ht, hr => by
    simp only [FeatureOpt.normal] at hn
    simp only [FeatureOpt.tame] at ht
    simp only [FeatureOpt.resolvable] at hr
    unfold FeatureOpt.construct
    exact GOnly.bind (Feature.construct_gonly f hn ht hr) (fun _ _ => GOnly.ok _)
theorem Ordering.construct_gonly : (o : Ordering) → o.normal = true → o.tame = true → o.resolvable = true →
    GOnly (Ordering.construct structEqv o)
  | .mk f d, hn, ht, hr => by
    simp only [Ordering.normal] at hn
    simp only [Ordering.tame] at ht
    simp only [Ordering.resolvable] at hr
    unfold Ordering.construct
    exact GOnly.bind (Feature.construct_gonly f hn ht hr) (fun _ _ => GOnly.ok _)
theorem Orderings.construct_gonly : (os : Orderings) → os.normal = true → os.tame = true → os.resolvable = true →
    GOnly (Orderings.construct structEqv os)
  | .nil, _, _, _ => GOnly.ok _
  | .cons o os, hn, ht, hr => by
    simp only [Orderings.normal, Bool.and_eq_true] at hn
    simp only [Orderings.tame, Bool.and_eq_true] at ht
    simp only [Orderings.resolvable, Bool.and_eq_true] at hr
    unfold Orderings.construct
    exact GOnly.bind (Ordering.construct_gonly o hn.1 ht.1 hr.1) (fun _ _ =>
      GOnly.bind (Orderings.construct_gonly os hn.2 ht.2 hr.2) (fun _ _ => GOnly.ok _))
theorem Source.construct_gonly : (s : Source) → s.normal = true → s.tame = true → s.resolvable = true →
    GOnly (Source.construct structEqv s)
  | .table n fs, _, _, _ => GOnly.ok _
  | .ref i n, hn, ht, hr => by
    simp only [Source.normal, Bool.and_eq_true] at hn
    simp only [Source.tame, Bool.and_eq_true] at ht
    simp only [Source.resolvable] at hr
    unfold Source.construct
    exact GOnly.bind (Source.construct_gonly i hn.2 ht.1 hr) (fun _ _ => GOnly.ok _)
  | .join l r k c, hn, ht, hr => by
    simp only [Source.normal, Bool.and_eq_true] at hn
    simp only [Source.tame, Bool.and_eq_true] at ht
    simp only [Source.resolvable, Bool.and_eq_true] at hr
    unfold Source.construct
    refine GOnly.bind (Source.construct_gonly l hn.1.1 ht.1.1 hr.1.1) (fun l' hl => ?_)
    refine GOnly.bind (Source.construct_gonly r hn.1.2 ht.1.2 hr.1.2) (fun r' hr' => ?_)
    refine GOnly.bind (FeatureOpt.construct_gonly c hn.2 ht.2 hr.2) (fun c' hc => ?_)
    obtain ⟨rfl, _⟩ := (Source.construct_iff l hn.1.1 ht.1.1 l').mp hl
    obtain ⟨rfl, _⟩ := (Source.construct_iff r hn.1.2 ht.1.2 r').mp hr'
    obtain ⟨rfl, hwc⟩ := (FeatureOpt.construct_iff c hn.2 ht.2 c').mp hc
    exact GOnly.bind (checkJoin_gonly _ _ k _ ht.1.1 ht.1.2 hwc ht.2 hr.2) (fun _ _ => GOnly.ok _)
  | .set l r k, hn, ht, hr => by
    simp only [Source.normal, Bool.and_eq_true] at hn
    simp only [Source.tame, Bool.and_eq_true] at ht
    simp only [Source.resolvable, Bool.and_eq_true] at hr
    unfold Source.construct
    refine GOnly.bind (Source.construct_gonly l hn.1.2 ht.1.1.1 hr.1) (fun l' hl => ?_)
    refine GOnly.bind (Source.construct_gonly r hn.2 ht.1.1.2 hr.2) (fun r' hr' => ?_)
    obtain ⟨rfl, hwl⟩ := (Source.construct_iff l hn.1.2 ht.1.1.1 l').mp hl
    obtain ⟨rfl, hwr⟩ := (Source.construct_iff r hn.2 ht.1.1.2 r').mp hr'
    exact GOnly.bind (checkSet_gonly _ _ hwl hwr ht.1.1.1 ht.1.1.2 ht.1.2 ht.2) (fun _ _ => GOnly.ok _)
  | .query s sel pre grp post ord rows, hn, ht, hr => by
    simp only [Source.normal, Bool.and_eq_true] at hn
    simp only [Source.tame, Bool.and_eq_true] at ht
    simp only [Source.resolvable, Bool.and_eq_true] at hr
    obtain ⟨⟨⟨⟨⟨hns, hnsel⟩, hnpre⟩, hngrp⟩, hnpost⟩, hnord⟩ := hn
    obtain ⟨⟨⟨⟨⟨hts, htsel⟩, htpre⟩, htgrp⟩, htpost⟩, htord⟩ := ht
    obtain ⟨⟨⟨⟨⟨hrs, hrsel⟩, hrpre⟩, hrgrp⟩, hrpost⟩, hrord⟩ := hr
    unfold Source.construct
    refine GOnly.bind (Source.construct_gonly s hns hts hrs) (fun s' hs => ?_)
    refine GOnly.bind (Features.construct_gonly sel hnsel htsel hrsel) (fun sel' hsel => ?_)
    refine GOnly.bind (FeatureOpt.construct_gonly pre hnpre htpre hrpre) (fun pre' hpre => ?_)
    refine GOnly.bind (Features.construct_gonly grp hngrp htgrp hrgrp) (fun grp' hgrp => ?_)
    refine GOnly.bind (FeatureOpt.construct_gonly post hnpost htpost hrpost) (fun post' hpost => ?_)
    refine GOnly.bind (Orderings.construct_gonly ord hnord htord hrord) (fun ord' hord => ?_)
    obtain ⟨rfl, _⟩ := (Source.construct_iff s hns hts s').mp hs
    obtain ⟨rfl, _⟩ := (Features.construct_iff sel hnsel htsel sel').mp hsel
    obtain ⟨rfl, hwpre⟩ := (FeatureOpt.construct_iff pre hnpre htpre pre').mp hpre
    obtain ⟨rfl, _⟩ := (Features.construct_iff grp hngrp htgrp grp').mp hgrp
    obtain ⟨rfl, hwpost⟩ := (FeatureOpt.construct_iff post hnpost htpost post').mp hpost
    obtain ⟨rfl, _⟩ := (Orderings.construct_iff ord hnord htord ord').mp hord
    exact GOnly.bind (checkQuery_gonly _ _ _ _ _ _ hts hwpre htpre hrpre hwpost htpost hrpost) (fun _ _ => GOnly.ok _)
end

end ForML.Dsl
