/-
C01 — the central semantic lemma: in any table with the symbols of `specTable g A` (well-formed `g`,
compatible `A`) the functor of worker `n` denotes `nodeVal g A evalFuel n`, the committer denotes
`commitVal g A`.  Induction over the fuel of `nodeVal`, using the bounded rank `cntW`.
-/
import ForML.Lemmas.C01Spec

namespace ForML.Flow
namespace Segment

theorem filterMap_congr' {α β} {f g : α → Option β} {l : List α} (h : ∀ x ∈ l, f x = g x) :
    l.filterMap f = l.filterMap g := by
  induction l with
  | nil => rfl
  | cons x r ih =>
    simp only [List.filterMap_cons, h x List.mem_cons_self]
    rw [ih (fun y hy => h y (List.mem_cons_of_mem _ hy))]

/-- value published on the port an edge starts from, given the values of the nodes -/
def portValOf (g : Segment) (rec : Uid → Val) (e : Edge) : Val :=
  match g.worker? e.pub with
  | some p => if p.szout = 1 then rec e.pub else .proj e.pubPort (rec e.pub)
  | none => .error .unbound

theorem nodeVal_succ (g : Segment) (A : Option Assets) (f : Nat) (n : Uid) :
    nodeVal g A (f + 1) n =
      match g.worker? n with
      | none => .error .unbound
      | some w =>
        if g.trained n then
          match g.publisher n .train, g.publisher n .label with
          | some x, some y =>
            .state w.actor (if w.stateful then (storedState A w.gid).asState else .none)
              (portValOf g (nodeVal g A f) x) (portValOf g (nodeVal g A f) y)
          | _, _ => .error .arity
        else
          .apply w.actor
            (if !w.stateful then .none
             else match g.trainerOf w.gid with
               | some t => (nodeVal g A f t.uid).asState
               | none => (storedState A w.gid).asState)
            ((List.range w.szin).filterMap (fun i => (g.publisher n (.apply i)).map (portValOf g (nodeVal g A f)))) := by
  rfl

/-- bounded rank of a member: number of members ranking at most like `n` -/
def cntW (g : Segment) (rank : Uid → Nat) (n : Uid) : Nat := g.workers.countP (fun w => decide (rank w.uid ≤ rank n))

theorem cntW_le (g : Segment) (rank : Uid → Nat) (n : Uid) : g.cntW rank n ≤ g.workers.length := List.countP_le_length

theorem cntW_lt {g : Segment} {rank : Uid → Nat} {w : Worker} (hw : w ∈ g.workers) {p : Uid}
    (hlt : rank p < rank w.uid) : g.cntW rank p < g.cntW rank w.uid := by
  apply countP_lt_of_imp _ _ g.workers _ w hw
  · simp
  · simp; omega
  · intro x _ hx
    simp at hx ⊢
    omega

theorem getterSym_mem {g : Segment} {A : Option Assets} {rank : Uid → Nat} (h : WF g rank) {e : Edge} (he : e ∈ g.edges)
    {p : Worker} (hp : g.worker? e.pub = some p) (hne : p.szout ≠ 1) :
    (⟨.getter e.pub e.pubPort, .getter e.pubPort, [.uid e.pub]⟩ : Symbol) ∈ g.specTable A := by
  obtain ⟨hpm, hpu⟩ := worker?_some hp
  obtain ⟨p', hp', hlt⟩ := (h.edge e he).pub
  rw [hp] at hp'; cases hp'
  apply mem_specTable.mpr
  refine Or.inr (Or.inl ⟨p, hpm, mem_getterSyms.mpr ⟨?_, hne, e.pubPort, hlt, ?_, by rw [hpu]⟩⟩)
  · cases htr : g.trained p.uid with
    | false => rfl
    | true => exact absurd hpu.symm ((h.trainedOK hpm htr).noOut e he)
  · intro hnil
    have : e ∈ g.subscribers p.uid e.pubPort := by
      simp [subscribers, he, hpu]
    rw [hnil] at this; cases this

section
variable {g : Segment} {A : Option Assets} {rank : Uid → Nat} {t : Table}

theorem Denotes.portVal (hd : Denotes g A t) (h : WF g rank) (rec : Uid → Val) {e : Edge} (he : e ∈ g.edges)
    (hrec : rec e.pub = Table.value A t t.fuel (.uid e.pub)) :
    portValOf g rec e = Table.value A t t.fuel (g.portKey e) := by
  obtain ⟨p, hp, _⟩ := (h.edge e he).pub
  unfold portValOf portKey
  rw [hp]
  simp only
  split
  · exact hrec
  · rename_i hne
    rw [hd.value_getter h (getterSym_mem h he hp hne), hrec]

/-- **functor of `n` = direct evaluation of `n`**, for every fuel exceeding the bounded rank -/
theorem Denotes.nodeVal (hd : Denotes g A t) (h : WF g rank) (hA : AssetsOK g A) :
    ∀ f n w, g.worker? n = some w → g.cntW rank n < f →
      nodeVal g A f n = Table.value A t t.fuel (.uid n) := by
  intro f
  induction f with
  | zero => intro n w _ hc; omega
  | succ f ih =>
    intro n w hw hc
    obtain ⟨hwm, rfl⟩ := worker?_some hw
    -- induction hypothesis for everything ranking below `w`
    have ih' : ∀ p pw, g.worker? p = some pw → rank p < rank w.uid →
        Segment.nodeVal g A f p = Table.value A t t.fuel (.uid p) := by
      intro p pw hp hlt
      exact ih p pw hp (by have := cntW_lt hwm hlt; omega)
    have hport : ∀ e ∈ g.edges, e.sub = w.uid →
        portValOf g (Segment.nodeVal g A f) e = Table.value A t t.fuel (g.portKey e) := by
      intro e he hsub
      obtain ⟨p, hp, _⟩ := (h.edge e he).pub
      exact hd.portVal h _ he (ih' e.pub p hp (by have := (h.edge e he).rank; rw [hsub] at this; exact this))
    rw [nodeVal_succ, hw, hd.value_functor h hwm]
    simp only
    cases htr : g.trained w.uid with
    | true =>
      have hT := h.trainedOK hwm htr
      obtain ⟨x, hx⟩ := hT.train
      obtain ⟨y, hy⟩ := hT.label
      have hxe := publisher_some hx
      have hye := publisher_some hy
      have hisT : g.isTrainer w = true := by simp [isTrainer, hT.stateful, htr]
      have hpre : g.hasPreset A w = persistentW A w := by
        simp [hasPreset, derived_trainer h hwm htr, hT.stateful]
      have hdata : g.dataArgs w = [g.portKey x, g.portKey y] := by
        simp [dataArgs, htr, hx, hy]
      simp only [hx, hy, hT.stateful, if_true, functorSym, hisT, hpre, hdata, hport x hxe.1 hxe.2.1,
        hport y hye.1 hye.2.1]
      cases hp : persistentW A w with
      | true =>
        obtain ⟨_, As, hAs, hc⟩ := persistentW_true hp
        have hisT' : g.stateSrc w = .loader w.gid := by simp [stateSrc, hisT]
        simp only [if_true, hisT', List.singleton_append, List.map_cons, List.map_nil,
          hd.value_loader h hAs (loaderSym_mem hwm hp), exec_train_preset, storedState_persistent hAs hc]
      | false =>
        simp only [Bool.false_eq_true, if_false, List.nil_append, List.map_cons, List.map_nil, exec_train,
          storedState_not_persistent hT.stateful hp, Val.asState_none]
    | false =>
      have hisT : g.isTrainer w = false := by simp [isTrainer, htr]
      have hdata : (g.dataArgs w).map (Table.value A t t.fuel) =
          (List.range w.szin).filterMap
            (fun i => (g.publisher w.uid (.apply i)).map (portValOf g (Segment.nodeVal g A f))) := by
        simp only [dataArgs, htr, Bool.false_eq_true, if_false, List.map_filterMap]
        apply filterMap_congr'
        intro i _
        cases hpub : g.publisher w.uid (.apply i) with
        | none => rfl
        | some e =>
          have he := publisher_some hpub
          simp [hport e he.1 he.2.1]
      simp only [Bool.false_eq_true, if_false, functorSym, hisT, List.map_append, hdata]
      cases hst : w.stateful with
      | false =>
        have hpre : g.hasPreset A w = false := by simp [hasPreset, hst]
        simp only [hpre, Bool.false_eq_true, if_false, List.map_nil, List.nil_append, exec_apply, Bool.not_false,
          if_true]
      | true =>
        simp only [Bool.not_true, Bool.false_eq_true, if_false]
        cases htO : g.trainerOf w.gid with
        | some tw =>
          obtain ⟨htm, htg, htt⟩ := trainerOf_some htO
          have hne : tw.uid ≠ w.uid := trainer_ne htr htt
          have hpre : g.hasPreset A w = true := by simp [hasPreset, hst, derived_fork hst htO hne]
          have hsrc : g.stateSrc w = .uid tw.uid := by simp [stateSrc, hisT, htO]
          have hrk := ((h.group tw htm w hwm htg).2.2 htt hne).2
          simp only [hpre, if_true, hsrc, List.map_cons, List.map_nil, List.singleton_append, exec_apply_preset,
            ih' tw.uid tw (worker?_of_mem h.nodup htm) hrk]
        | none =>
          have hder := derived_no_trainer htO
          cases hp : persistentW A w with
          | true =>
            obtain ⟨_, As, hAs, hc⟩ := persistentW_true hp
            have hpre : g.hasPreset A w = true := by simp [hasPreset, hst, hp]
            have hsrc : g.stateSrc w = .loader w.gid := by simp [stateSrc, hisT, htO]
            simp only [hpre, if_true, hsrc, List.map_cons, List.map_nil, List.singleton_append, exec_apply_preset,
              hd.value_loader h hAs (loaderSym_mem hwm hp), storedState_persistent hAs hc]
          | false =>
            have hel : g.trainedElsewhere.contains w.gid = false := by
              cases hc : g.trainedElsewhere.contains w.gid with
              | false => rfl
              | true => have := hA.elsewhere w hwm hst hc; rw [hp] at this; cases this
            have hpre : g.hasPreset A w = false := by rw [hasPreset, hst, hp, hder, hst, hel]; rfl
            simp only [hpre, Bool.false_eq_true, if_false, List.map_nil, List.nil_append, exec_apply,
              storedState_not_persistent hst hp, Val.asState_none]

/-- at the default fuel of `GraphEval` -/
theorem Denotes.value_uid (hd : Denotes g A t) (h : WF g rank) (hA : AssetsOK g A) {w : Worker} (hw : w ∈ g.workers) :
    Table.value A t t.fuel (.uid w.uid) = Segment.nodeVal g A g.evalFuel w.uid :=
  (hd.nodeVal h hA g.evalFuel w.uid w (worker?_of_mem h.nodup hw)
    (by have := cntW_le g rank w.uid; simp only [evalFuel]; omega)).symm

/-! ### the committer -/

theorem indexOf_isSome_iff (γ : Gid) (l : List Gid) : (indexOf γ l).isSome = true ↔ γ ∈ l := by
  induction l with
  | nil => simp [indexOf]
  | cons x r ih =>
    simp only [indexOf, List.mem_cons]
    split
    · subst_vars; simp
    · rename_i hne
      rw [Option.isSome_map, ih]
      constructor
      · exact Or.inr
      · rintro (rfl | h)
        · exact absurd rfl hne
        · exact h

theorem filterMap_eq_map {α β} {f : α → Option β} {h : α → β} {l : List α} (hf : ∀ x ∈ l, f x = some (h x)) :
    l.filterMap f = l.map h := by
  induction l with
  | nil => rfl
  | cons x r ih =>
    simp only [List.filterMap_cons, hf x List.mem_cons_self, List.map_cons]
    rw [ih (fun y hy => hf y (List.mem_cons_of_mem _ hy))]

/-- a trainer of a persistent group (the witness the committer symbol needs) -/
theorem persistent_trainer (h : WF g rank) {As : Assets} (hAs : A = some As) {γ : Gid} (hγ : γ ∈ As.persistent)
    {tw : Worker} (ht : g.trainerOf γ = some tw) :
    tw ∈ g.workers ∧ g.isTrainer tw = true ∧ persistentW A tw = true := by
  obtain ⟨htm, htg, htt⟩ := trainerOf_some ht
  have hst := (h.trainedOK htm htt).stateful
  refine ⟨htm, by simp [isTrainer, hst, htt], ?_⟩
  subst hAs
  simp only [persistentW, hst, Bool.true_and, Assets.contains]
  rw [htg]
  exact (indexOf_isSome_iff γ _).mpr hγ

theorem Denotes.value_commit (hd : Denotes g A t) (h : WF g rank) (hA : AssetsOK g A) {c : Val}
    (hc : g.commitVal A = some c) :
    (∃ s ∈ t, s.id = Key.committer) ∧ Table.value A t t.fuel .committer = c := by
  cases A with
  | none => simp [commitVal] at hc
  | some As =>
    have hAs : (some As : Option Assets) = some As := rfl
    simp only [commitVal] at hc
    split at hc
    · rename_i hany
      cases hc
      simp only [List.any_eq_true] at hany
      obtain ⟨γ₀, hγ₀, hsome₀⟩ := hany
      -- all persistent groups are trained here
      have hall : ∀ γ ∈ As.persistent, (g.trainerOf γ).isSome := by
        rcases hA.allOrNone As hAs with h1 | h1
        · exact h1
        · rw [h1 γ₀ hγ₀] at hsome₀; cases hsome₀
      obtain ⟨t₀, ht₀⟩ := Option.isSome_iff_exists.mp hsome₀
      obtain ⟨ht₀m, ht₀T, ht₀P⟩ := persistent_trainer h hAs hγ₀ ht₀
      have hmem : (⟨.committer, .committer,
          As.persistent.filterMap (fun γ => (g.trainerOf γ).map (fun t => Key.dumper t.uid))⟩ : Symbol)
            ∈ g.specTable (some As) :=
        mem_specTable.mpr (Or.inr (Or.inr (Or.inr (Or.inr
          (mem_committerSyms.mpr ⟨As, hAs, ⟨t₀, ht₀m, ht₀T, ht₀P⟩, rfl⟩)))))
      refine ⟨⟨_, (hd _).mpr hmem, rfl⟩, ?_⟩
      have hv := hd.value_sym h hmem (fun s hs hid => by
        obtain ⟨As', hAs', _, rfl⟩ := mem_committerSyms.mp (spec_committer hs hid)
        rw [hAs] at hAs'; cases hAs'; rfl)
      simp only at hv
      rw [hv]
      have hexec : ∀ vs, exec (some As) .committer vs = As.commit vs := by intro vs; rfl
      rw [hexec]
      congr 1
      rw [filterMap_eq_map (h := fun γ => match g.trainerOf γ with | some t => Key.dumper t.uid | none => Key.committer)
        (fun γ hγ => by
          obtain ⟨tw, htw⟩ := Option.isSome_iff_exists.mp (hall γ hγ)
          simp [htw])]
      rw [List.map_map]
      apply List.map_congr_left
      intro γ hγ
      obtain ⟨tw, htw⟩ := Option.isSome_iff_exists.mp (hall γ hγ)
      obtain ⟨htm, htT, htP⟩ := persistent_trainer h hAs hγ htw
      have hdump : (⟨.dumper tw.uid, .dumper, [.uid tw.uid]⟩ : Symbol) ∈ g.specTable (some As) :=
        mem_specTable.mpr (Or.inr (Or.inr (Or.inr (Or.inl (mem_dumperSyms.mpr ⟨tw, htm, htT, htP, rfl⟩)))))
      simp only [Function.comp, htw]
      rw [hd.value_dumper h hAs hdump, hd.value_uid h hA htm]
    · cases hc

theorem Denotes.no_commit (hd : Denotes g A t) (hc : g.commitVal A = none) : ∀ s ∈ t, s.id ≠ Key.committer := by
  intro s hs hid
  obtain ⟨As, hAs, ⟨w, hw, hT, hP⟩, _⟩ := mem_committerSyms.mp (spec_committer ((hd s).mp hs) hid)
  subst hAs
  simp only [commitVal] at hc
  split at hc
  · cases hc
  · rename_i hany
    apply hany
    simp only [List.any_eq_true]
    simp only [persistentW, Bool.and_eq_true, Assets.contains] at hP
    refine ⟨w.gid, (indexOf_isSome_iff _ _).mp hP.2, ?_⟩
    simp only [isTrainer, Bool.and_eq_true] at hT
    unfold trainerOf
    rw [List.find?_isSome]
    exact ⟨w, hw, by simp [hT.2]⟩

end

end Segment
end ForML.Flow
