/-
C13 helper lemmas: simulation between two actor machines (`Model/ActorMachine.lean`).

`Sim m1 m2 Ro Rb`: every interface operation of `m1` and `m2` takes related instances / related bytes to
related instances / related bytes and gives the same answer.  `sim_run`: then, from related worlds, EVERY
operation sequence produces the same observations on both machines (induction over the sequence).
-/
import ForML.Model.ActorMachine

namespace ForML.Actor

variable {ω₁ ω₂ β₁ β₂ : Type}

/-- both fail alike or both succeed with related results -/
def RelE (R : α → β → Prop) : Except Err α → Except Err β → Prop
  | .ok a, .ok b => R a b
  | .error e, .error e' => e = e'
  | _, _ => False

def RelO (R : α → β → Prop) : Option α → Option β → Prop
  | some a, some b => R a b
  | none, none => True
  | _, _ => False

structure Sim (m1 : Mach ω₁ β₁) (m2 : Mach ω₂ β₂) (Ro : ω₁ → ω₂ → Prop) (Rb : β₁ → β₂ → Prop)
    (Rp : PMap → PMap → Prop) : Prop where
  specSig : m1.specSig = m2.specSig
  isStateful : m1.isStateful = m2.isStateful
  build : ∀ a kw, RelE Ro (m1.build a kw) (m2.build a kw)
  apply : ∀ o1 o2 x, Ro o1 o2 → m1.apply o1 x = m2.apply o2 x
  train : ∀ o1 o2 x y, Ro o1 o2 → RelE Ro (m1.train o1 x y) (m2.train o2 x y)
  getState : ∀ o1 o2, Ro o1 o2 → Ro (m1.getState o1).1 (m2.getState o2).1 ∧ Rb (m1.getState o1).2 (m2.getState o2).2
  setState : ∀ o1 o2 b1 b2, Ro o1 o2 → Rb b1 b2 → RelE Ro (m1.setState o1 b1) (m2.setState o2 b2)
  /-- related hyper-parameter dicts have the same key→value content; a dict is related to itself -/
  look : ∀ kw1 kw2, Rp kw1 kw2 → ∀ k, pget kw1 k = pget kw2 k
  refl : ∀ kw, Rp kw kw
  getParams : ∀ o1 o2, Ro o1 o2 → Rp (m1.getParams o1) (m2.getParams o2)
  setParams : ∀ o1 o2 kw1 kw2, Ro o1 o2 → Rp kw1 kw2 → RelE Ro (m1.setParams o1 kw1) (m2.setParams o2 kw2)
  repickle : ∀ o1 o2, Ro o1 o2 → RelE Ro (m1.repickle o1) (m2.repickle o2)
  empty : Rb m1.empty m2.empty
  isEmpty : ∀ b1 b2, Rb b1 b2 → m1.isEmpty b1 = m2.isEmpty b2
  foreign : Rb m1.foreign m2.foreign

/-- pointwise related worlds -/
def RelW (Ro : ω₁ → ω₂ → Prop) (Rb : β₁ → β₂ → Prop) (w1 : World ω₁ β₁) (w2 : World ω₂ β₂) : Prop :=
  w1.builder = w2.builder ∧ (∀ r, RelO Ro (w1.regs r) (w2.regs r)) ∧ (∀ k, Rb (w1.blobs k) (w2.blobs k))

section
variable {m1 : Mach ω₁ β₁} {m2 : Mach ω₂ β₂} {Ro : ω₁ → ω₂ → Prop} {Rb : β₁ → β₂ → Prop} {Rp : PMap → PMap → Prop}

theorem relW_setReg {w1 : World ω₁ β₁} {w2 : World ω₂ β₂} (h : RelW Ro Rb w1 w2) (r : Nat) {o1 : ω₁} {o2 : ω₂}
    (ho : Ro o1 o2) : RelW Ro Rb (w1.setReg r o1) (w2.setReg r o2) := by
  refine ⟨h.1, fun i => ?_, h.2.2⟩
  simp only [World.setReg]
  by_cases hi : i = r
  · simp only [hi, if_true]; exact ho
  · simp only [hi, if_false]; exact h.2.1 i

theorem relW_setBlob {w1 : World ω₁ β₁} {w2 : World ω₂ β₂} (h : RelW Ro Rb w1 w2) (k : Nat) {b1 : β₁} {b2 : β₂}
    (hb : Rb b1 b2) : RelW Ro Rb (w1.setBlob k b1) (w2.setBlob k b2) := by
  refine ⟨h.1, h.2.1, fun i => ?_⟩
  simp only [World.setBlob]
  by_cases hi : i = k
  · simp only [hi, if_true]; exact hb
  · simp only [hi, if_false]; exact h.2.2 i

/-- the result of one step on both sides: same observation, related worlds -/
def StepRel (Ro : ω₁ → ω₂ → Prop) (Rb : β₁ → β₂ → Prop) (s1 : World ω₁ β₁ × Out) (s2 : World ω₂ β₂ × Out) : Prop :=
  s1.2 = s2.2 ∧ RelW Ro Rb s1.1 s2.1

theorem onReg_sim {w1 : World ω₁ β₁} {w2 : World ω₂ β₂} (h : RelW Ro Rb w1 w2) (r : Nat)
    (f1 : ω₁ → Except Err ω₁) (f2 : ω₂ → Except Err ω₂) (hf : ∀ o1 o2, Ro o1 o2 → RelE Ro (f1 o1) (f2 o2)) :
    StepRel Ro Rb (w1.onReg r f1) (w2.onReg r f2) := by
  have hr := h.2.1 r
  unfold World.onReg
  cases h1 : w1.regs r with
  | none =>
    cases h2 : w2.regs r with
    | none => exact ⟨rfl, h⟩
    | some o2 => simp [h1, h2, RelO] at hr
  | some o1 =>
    cases h2 : w2.regs r with
    | none => simp [h1, h2, RelO] at hr
    | some o2 =>
      simp only [h1, h2, RelO] at hr
      have := hf o1 o2 hr
      dsimp only
      cases e1 : f1 o1 <;> cases e2 : f2 o2 <;> simp only [e1, e2, RelE] at this ⊢
      · subst this; exact ⟨rfl, h⟩
      · exact ⟨rfl, relW_setReg h r this⟩

theorem readReg_sim {w1 : World ω₁ β₁} {w2 : World ω₂ β₂} (h : RelW Ro Rb w1 w2) (r : Nat)
    (g1 : ω₁ → Out) (g2 : ω₂ → Out) (hg : ∀ o1 o2, Ro o1 o2 → g1 o1 = g2 o2) :
    StepRel Ro Rb (w1.readReg r g1) (w2.readReg r g2) := by
  have hr := h.2.1 r
  unfold World.readReg
  cases h1 : w1.regs r with
  | none =>
    cases h2 : w2.regs r with
    | none => exact ⟨rfl, h⟩
    | some o2 => simp [h1, h2, RelO] at hr
  | some o1 =>
    cases h2 : w2.regs r with
    | none => simp [h1, h2, RelO] at hr
    | some o2 =>
      simp only [h1, h2, RelO] at hr
      exact ⟨hg o1 o2 hr, h⟩

theorem onBuilder_sim {w1 : World ω₁ β₁} {w2 : World ω₂ β₂} (h : RelW Ro Rb w1 w2)
    (f : Option Spec → Except Err Spec) : StepRel Ro Rb (w1.onBuilder f) (w2.onBuilder f) := by
  unfold World.onBuilder
  rw [h.1]
  cases f w2.builder with
  | ok sp => exact ⟨rfl, rfl, h.2.1, h.2.2⟩
  | error e => exact ⟨rfl, h⟩

theorem call_sim (hs : Sim m1 m2 Ro Rb Rp) (sp : Spec) (a : List Int) (kw : PMap) :
    RelE Ro (m1.call sp a kw) (m2.call sp a kw) := hs.build _ _

theorem preset_sim (hs : Sim m1 m2 Ro Rb Rp) {o1 : ω₁} {o2 : ω₂} {b1 : β₁} {b2 : β₂} (ho : Ro o1 o2) (hb : Rb b1 b2) :
    RelE Ro (m1.preset o1 b1) (m2.preset o2 b2) := by
  unfold Mach.preset
  rw [hs.isEmpty b1 b2 hb]
  cases m2.isEmpty b2
  · simp only [Bool.false_eq_true, if_false]
    have := hs.setState o1 o2 b1 b2 ho hb
    cases e1 : m1.setState o1 b1 <;> cases e2 : m2.setState o2 b2 <;> simp only [e1, e2, RelE] at this ⊢
    · exact this
    · exact hs.setParams _ _ _ _ this (hs.getParams o1 o2 ho)
  · exact ho

theorem functorApply_sim (hs : Sim m1 m2 Ro Rb Rp) (sp : Spec) {b1 : β₁} {b2 : β₂} (hb : Rb b1 b2) (x : Int) :
    m1.functorApply sp b1 x = m2.functorApply sp b2 x := by
  unfold Mach.functorApply
  have hc := call_sim hs sp [] []
  cases e1 : m1.call sp [] [] <;> cases e2 : m2.call sp [] [] <;> simp only [e1, e2, RelE] at hc ⊢
  · rw [hc]
  · have hp := preset_sim hs hc hb
    cases p1 : m1.preset _ b1 <;> cases p2 : m2.preset _ b2 <;> simp only [p1, p2, RelE] at hp ⊢
    · rw [hp]
    · exact hs.apply _ _ x hp

theorem functorTrain_sim (hs : Sim m1 m2 Ro Rb Rp) (sp : Spec) {b1 : β₁} {b2 : β₂} (hb : Rb b1 b2) (x y : Int) :
    RelE Rb (m1.functorTrain sp b1 x y) (m2.functorTrain sp b2 x y) := by
  unfold Mach.functorTrain
  have hc := call_sim hs sp [] []
  cases e1 : m1.call sp [] [] <;> cases e2 : m2.call sp [] [] <;> simp only [e1, e2, RelE] at hc ⊢
  · exact hc
  · have hp := preset_sim hs hc hb
    cases p1 : m1.preset _ b1 <;> cases p2 : m2.preset _ b2 <;> simp only [p1, p2, RelE] at hp ⊢
    · exact hp
    · have ht := hs.train _ _ x y hp
      cases t1 : m1.train _ x y <;> cases t2 : m2.train _ x y <;> simp only [t1, t2, RelE] at ht ⊢
      · exact ht
      · exact (hs.getState _ _ ht).2

/-- **one operation keeps two simulating machines in step** -/
theorem sim_step (hs : Sim m1 m2 Ro Rb Rp) {w1 : World ω₁ β₁} {w2 : World ω₂ β₂} (h : RelW Ro Rb w1 w2) (op : MOp) :
    StepRel Ro Rb (stepW m1 w1 op) (stepW m2 w2 op) := by
  cases op with
  | spec a kw => simp only [stepW, hs.specSig]; exact onBuilder_sim h _
  | update a kw => simp only [stepW, hs.specSig]; exact onBuilder_sim h _
  | reset a kw => simp only [stepW, hs.specSig]; exact onBuilder_sim h _
  | bpickle => simp only [stepW, hs.specSig]; exact onBuilder_sim h _
  | build r a kw =>
    simp only [stepW]
    rw [h.1]
    cases w2.builder with
    | none => exact ⟨rfl, h⟩
    | some sp =>
      simp only [withBuilder]
      have hc := call_sim hs sp a kw
      cases e1 : m1.call sp a kw <;> cases e2 : m2.call sp a kw <;> simp only [e1, e2, RelE] at hc ⊢
      · subst hc; exact ⟨rfl, h⟩
      · exact ⟨rfl, relW_setReg h r hc⟩
  | train r x y => exact onReg_sim h r _ _ (fun o1 o2 ho => hs.train o1 o2 x y ho)
  | apply r x => exact readReg_sim h r _ _ (fun o1 o2 ho => by rw [hs.apply o1 o2 x ho])
  | params r =>
    exact readReg_sim h r _ _ (fun o1 o2 ho => by
      have : pget (m1.getParams o1) = pget (m2.getParams o2) := funext (hs.look _ _ (hs.getParams o1 o2 ho))
      simp only [this])
  | setParams r kw => exact onReg_sim h r _ _ (fun o1 o2 ho => hs.setParams o1 o2 kw kw ho (hs.refl kw))
  | stateful => simp only [stepW, hs.isStateful]; exact ⟨rfl, h⟩
  | forge k => exact ⟨rfl, relW_setBlob h k hs.foreign⟩
  | getState r k =>
    have hr := h.2.1 r
    simp only [stepW]
    cases h1 : w1.regs r with
    | none =>
      cases h2 : w2.regs r with
      | none => exact ⟨rfl, h⟩
      | some o2 => simp [h1, h2, RelO] at hr
    | some o1 =>
      cases h2 : w2.regs r with
      | none => simp [h1, h2, RelO] at hr
      | some o2 =>
        simp only [h1, h2, RelO] at hr
        have hg := hs.getState o1 o2 hr
        refine ⟨?_, relW_setBlob (relW_setReg h r hg.1) k hg.2⟩
        simp only [hs.isEmpty _ _ hg.2]
  | setState r k => exact onReg_sim h r _ _ (fun o1 o2 ho => hs.setState o1 o2 _ _ ho (h.2.2 k))
  | setEmpty r => exact onReg_sim h r _ _ (fun o1 o2 ho => hs.setState o1 o2 _ _ ho hs.empty)
  | preset r k => exact onReg_sim h r _ _ (fun o1 o2 ho => preset_sim hs ho (h.2.2 k))
  | pickle r => exact onReg_sim h r _ _ hs.repickle
  | fapply k x =>
    simp only [stepW]
    rw [h.1]
    cases w2.builder with
    | none => exact ⟨rfl, h⟩
    | some sp => simp only [withBuilder, functorApply_sim hs sp (h.2.2 k) x]; exact ⟨rfl, h⟩
  | ftrain k x y j =>
    simp only [stepW]
    rw [h.1]
    cases w2.builder with
    | none => exact ⟨rfl, h⟩
    | some sp =>
      simp only [withBuilder]
      have hf := functorTrain_sim hs sp (h.2.2 k) x y
      cases e1 : m1.functorTrain sp (w1.blobs k) x y <;> cases e2 : m2.functorTrain sp (w2.blobs k) x y <;>
        simp only [e1, e2, RelE] at hf ⊢
      · subst hf; exact ⟨rfl, h⟩
      · exact ⟨by simp only [hs.isEmpty _ _ hf], relW_setBlob h j hf⟩

/-- **every operation sequence**: same observations, related final worlds -/
theorem sim_run (hs : Sim m1 m2 Ro Rb Rp) (ops : List MOp) {w1 : World ω₁ β₁} {w2 : World ω₂ β₂} (h : RelW Ro Rb w1 w2) :
    (runW m1 w1 ops).2 = (runW m2 w2 ops).2 ∧ RelW Ro Rb (runW m1 w1 ops).1 (runW m2 w2 ops).1 := by
  induction ops generalizing w1 w2 with
  | nil => exact ⟨rfl, h⟩
  | cons op rest ih =>
    have hstep := sim_step hs h op
    have := ih hstep.2
    simp only [runW]
    exact ⟨by rw [hstep.1, this.1], this.2⟩

theorem relW_init (hs : Sim m1 m2 Ro Rb Rp) : RelW Ro Rb (World.init m1) (World.init m2) :=
  ⟨rfl, fun _ => trivial, fun _ => hs.empty⟩

/-- from nothing, every operation sequence is observed identically on two simulating machines -/
theorem sim_observe (hs : Sim m1 m2 Ro Rb Rp) (ops : List MOp) : observe m1 ops = observe m2 ops :=
  (sim_run hs ops (relW_init hs)).1

end

/-! ### memoising implementations -/

section
variable {ω β : Type}

/-- memoising instance ~ plain instance: same inner instance and the memo, if there is one, is what
`get_state` would produce now -/
def MemoRo (m : Mach ω β) (oc : ω × Option β) (o : ω) : Prop :=
  oc.1 = o ∧ (oc.2 = none ∨ oc.2 = some (m.getState o).2)

private theorem withMemo_rel (m : Mach ω β) (memo : Option β) (r : Except Err ω)
    (h : ∀ o', r = .ok o' → memo = none ∨ memo = some (m.getState o').2) :
    RelE (MemoRo m) (withMemo memo r) r := by
  cases r with
  | error e => rfl
  | ok o' => exact ⟨rfl, h o' rfl⟩

/-- A memo of the exported bytes is invisible -- for every operation sequence -- provided `get_state`
itself does not change the instance, `train` and `set_state` drop the memo, and `set_params` / pickling
either drop it or cannot change what `get_state` returns. -/
theorem memo_sim (m : Mach ω β) (p : Policy) (hpure : ∀ o, (m.getState o).1 = o)
    (hT : p.onTrain = true) (hS : p.onSetState = true)
    (hP : p.onSetParams = true ∨ ∀ o kw o', m.setParams o kw = .ok o' → (m.getState o').2 = (m.getState o).2)
    (hK : p.onPickle = true ∨ ∀ o o', m.repickle o = .ok o' → (m.getState o').2 = (m.getState o).2) :
    Sim (memoMach m p) m (MemoRo m) Eq Eq where
  specSig := rfl
  isStateful := rfl
  build := fun a kw => withMemo_rel m none _ (fun _ _ => Or.inl rfl)
  apply := fun oc o x ho => by rw [← ho.1]; rfl
  train := fun oc o x y ho => by
    rw [← ho.1]
    exact withMemo_rel m _ _ (fun _ _ => Or.inl (by simp [keepMemo, hT]))
  getState := fun oc o ho => by
    obtain ⟨h1, h2⟩ := ho
    subst h1
    simp only [memoMach]
    cases hc : oc.2 with
    | some b =>
      rw [hc] at h2
      cases h2 with
      | inl h => cases h
      | inr h =>
        cases h
        exact ⟨⟨(hpure _).symm, Or.inr (by rw [hc, hpure])⟩, rfl⟩
    | none => exact ⟨⟨rfl, Or.inr (by rw [hpure])⟩, rfl⟩
  setState := fun oc o b1 b2 ho hb => by
    rw [← ho.1, ← hb]
    exact withMemo_rel m _ _ (fun _ _ => Or.inl (by simp [keepMemo, hS]))
  look := fun _ _ h _ => by rw [h]
  refl := fun _ => rfl
  getParams := fun oc o ho => by rw [← ho.1]; rfl
  setParams := fun oc o kw1 kw2 ho hk => by
    rw [← ho.1, ← hk]
    refine withMemo_rel m _ _ (fun o' ho' => ?_)
    cases hP with
    | inl h => exact Or.inl (by simp [keepMemo, h])
    | inr h =>
      cases hp : p.onSetParams
      · simp only [keepMemo, Bool.false_eq_true, if_false]
        cases ho.2 with
        | inl h0 => exact Or.inl h0
        | inr h0 => exact Or.inr (by rw [h0, h oc.1 kw1 o' ho', ho.1])
      · exact Or.inl (by simp [keepMemo])
  repickle := fun oc o ho => by
    rw [← ho.1]
    refine withMemo_rel m _ _ (fun o' ho' => ?_)
    cases hK with
    | inl h => exact Or.inl (by simp [keepMemo, h])
    | inr h =>
      cases hp : p.onPickle
      · simp only [keepMemo, Bool.false_eq_true, if_false]
        cases ho.2 with
        | inl h0 => exact Or.inl h0
        | inr h0 => exact Or.inr (by rw [h0, h oc.1 o' ho', ho.1])
      · exact Or.inl (by simp [keepMemo])
  empty := rfl
  isEmpty := fun b1 b2 hb => by rw [hb]; rfl
  foreign := rfl

end

end ForML.Actor
