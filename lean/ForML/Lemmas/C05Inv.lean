/-
Helper lemmas for C05: the invariants of reachable registry trees (`Good`) and how the three kinds of registry
call (`write`, `close`, `push`) — complete or interrupted at any micro-operation — keep them.
-/
import ForML.Lemmas.C05Reg

namespace ForML.Registry
open ForML.Fs

/-- **nothing listed is missing or unreadable**: every valid generation has a tag that decodes, and every state the
tag names is a file in the generation directory -/
def Healthy (fs : Fs) : Prop :=
  ∀ p v g, genValid fs p v g = true →
    ∃ t, tagOf fs p v g = some t ∧ ∀ s ∈ t.sids, ∃ b, get fs (stateP p v g s) = some (.file b)

/-- **gap-free numbering**: the valid generations of every release are `1 .. n` -/
def GapFree (fs : Fs) : Prop :=
  ∀ p v g, genValid fs p v g = true → ∀ g', 1 ≤ g' → g' ≤ g → genValid fs p v g' = true

structure Good (fs : Fs) : Prop where
  wf : WF fs
  healthy : Healthy fs
  gapfree : GapFree fs

/-- `x` and `fs` agree on everything below every generation directory except the one of `ex` -/
def GenFrame (x fs : Fs) (ex : Nat × Nat × Nat) : Prop :=
  ∀ p v g key, generationP p v g <+: key → (p, v, g) ≠ ex → get x key = get fs key

theorem genValid_of_frame (x fs : Fs) (ex : Nat × Nat × Nat) (hf : GenFrame x fs ex) (p v g : Nat)
    (hne : (p, v, g) ≠ ex) : genValid x p v g = genValid fs p v g := by
  have e1 := hf p v g (generationP p v g) (List.prefix_refl _) hne
  have e2 := hf p v g (tagP p v g) (by simp [generationP, tagP]) hne
  simp [genValid, isDir, e1, e2]

theorem good_of_genframe (x fs : Fs) (ex : Nat × Nat × Nat) (hf : GenFrame x fs ex)
    (hx : genValid x ex.1 ex.2.1 ex.2.2 = false) (hfs : genValid fs ex.1 ex.2.1 ex.2.2 = false)
    (wx : WF x) (gd : Good fs) : Good x := by
  refine ⟨wx, ?_, ?_⟩
  · intro p v g hval
    have hne : (p, v, g) ≠ ex := by
      intro e; subst e; rw [hx] at hval; cases hval
    rw [genValid_of_frame x fs ex hf p v g hne] at hval
    obtain ⟨t, ht, hs⟩ := gd.healthy p v g hval
    have e2 := hf p v g (tagP p v g) (by simp [generationP, tagP]) hne
    refine ⟨t, by simpa [tagOf, e2] using ht, ?_⟩
    intro s hsin
    obtain ⟨b, hb⟩ := hs s hsin
    exact ⟨b, by rw [hf p v g (stateP p v g s) (by simp [generationP, stateP]) hne]; exact hb⟩
  · intro p v g hval g' h1 h2
    have hne : (p, v, g) ≠ ex := by
      intro e; subst e; rw [hx] at hval; cases hval
    rw [genValid_of_frame x fs ex hf p v g hne] at hval
    have := gd.gapfree p v g hval g' h1 h2
    have hne' : (p, v, g') ≠ ex := by
      intro e; subst e; rw [hfs] at this; cases this
    rw [genValid_of_frame x fs ex hf p v g' hne']; exact this

/-- a completed commit of generation `g = nextGen` -/
theorem good_of_committed (x fs : Fs) (p v : Nat) (t : Tag)
    (hf : GenFrame x fs (p, v, nextGen fs p v))
    (hd : get x (generationP p v (nextGen fs p v)) = some .dir)
    (ht : get x (tagP p v (nextGen fs p v)) = some (.file (encodeTag t)))
    (hs : ∀ s ∈ t.sids, ∃ b, get x (stateP p v (nextGen fs p v) s) = some (.file b))
    (wx : WF x) (gd : Good fs) : Good x := by
  have hnew : genValid x p v (nextGen fs p v) = true := by
    simp [genValid, isDir, hd, ht, nextGen_pos]
  have hold := genValid_nextGen fs p v
  refine ⟨wx, ?_, ?_⟩
  · intro p' v' g' hval
    by_cases hne : (p', v', g') = (p, v, nextGen fs p v)
    · cases hne
      exact ⟨t, by simp [tagOf, ht, decode_encode], hs⟩
    · rw [genValid_of_frame x fs _ hf p' v' g' hne] at hval
      obtain ⟨t', ht', hs'⟩ := gd.healthy p' v' g' hval
      have e2 := hf p' v' g' (tagP p' v' g') (by simp [generationP, tagP]) hne
      refine ⟨t', by simpa [tagOf, e2] using ht', ?_⟩
      intro s hsin
      obtain ⟨b, hb⟩ := hs' s hsin
      exact ⟨b, by rw [hf p' v' g' (stateP p' v' g' s) (by simp [generationP, stateP]) hne]; exact hb⟩
  · intro p' v' g' hval g'' h1 h2
    by_cases hne : (p', v', g') = (p, v, nextGen fs p v)
    · cases hne
      by_cases hg : g'' = nextGen fs p v
      · rw [hg]; exact hnew
      · have hne' : (p, v, g'') ≠ (p, v, nextGen fs p v) := by simp [hg]
        rw [genValid_of_frame x fs _ hf p v g'' hne']
        have spec := nextGen_spec fs p v
        by_cases hemp : generationsOf fs p v = []
        · have := spec.1 hemp; omega
        · have hm := (mem_generationsOf fs p v _).mp (spec.2.2 hemp)
          exact gd.gapfree p v _ hm g'' h1 (by omega)
    · rw [genValid_of_frame x fs _ hf p' v' g' hne] at hval
      have := gd.gapfree p' v' g' hval g'' h1 h2
      have hne' : (p', v', g'') ≠ (p, v, nextGen fs p v) := by
        intro e; cases e; rw [hold] at this; cases this
      rw [genValid_of_frame x fs _ hf p' v' g'' hne']; exact this

theorem empty_good : Good Fs.empty := by
  refine ⟨empty_wf, ?_, ?_⟩
  · intro p v g h; simp [genValid, isDir, Fs.empty, Fs.get, generationP] at h
  · intro p v g h; simp [genValid, isDir, Fs.empty, Fs.get, generationP] at h

end ForML.Registry
