/-
C07: aggregates and windows are found at any depth.

  `Ctx`, `Ctx.plug`             a feature with a hole: under aliases, casts and operands of expressions, to any depth
  `hasAggregate_plug` / `hasWindow_plug`    whatever is plugged in, its aggregates / windows are those of the whole
  `not_wf_*`                    hence the four refusal rules hold wherever the cumulative expression sits
-/
import ForML.Model.Grammar
import ForML.Lemmas.C07Main

namespace ForML.Dsl

/-- a feature with one hole (the visitor enters aliases, casts and the operands of expressions — not windows) -/
inductive Ctx where
  | hole
  | alias (c : Ctx) (n : String)
  | cast (c : Ctx) (k : Kind)
  | arg (op : Op) (before : List Feature) (c : Ctx) (after : List Feature)

def Ctx.plug : Ctx → Feature → Feature
  | .hole, f => f
  | .alias c n, f => .alias (c.plug f) n
  | .cast c k, f => .cast (c.plug f) k
  | .arg op before c after, f => .expr op (Features.ofList (before ++ c.plug f :: after))

def Ctx.depth : Ctx → Nat
  | .hole => 0
  | .alias c _ => c.depth + 1
  | .cast c _ => c.depth + 1
  | .arg _ _ c _ => c.depth + 1

theorem Features.nodes_ofList : (l : List Feature) → (Features.ofList l).nodes = l.flatMap Feature.nodes
  | [] => rfl
  | f :: fs => by simp [Features.ofList, Features.nodes, Features.nodes_ofList fs]

theorem nodes_plug_sub (c : Ctx) (f : Feature) : ∀ x ∈ f.nodes, x ∈ (c.plug f).nodes := by
  induction c with
  | hole => exact fun x h => h
  | alias c n ih => intro x h; simp [Ctx.plug, Feature.nodes, ih x h]
  | cast c k ih => intro x h; simp [Ctx.plug, Feature.nodes, ih x h]
  | arg op before c after ih =>
    intro x h
    simp only [Ctx.plug, Feature.nodes, Features.nodes_ofList, List.flatMap_append, List.flatMap_cons, List.mem_append]
    exact Or.inl (Or.inr (Or.inl (ih x h)))

theorem hasAggregate_plug (c : Ctx) (f : Feature) (h : f.hasAggregate = true) : (c.plug f).hasAggregate = true := by
  simp only [Feature.hasAggregate, List.any_eq_true] at h ⊢
  obtain ⟨x, hx, hp⟩ := h
  exact ⟨x, nodes_plug_sub c f x hx, hp⟩

theorem hasWindow_plug (c : Ctx) (f : Feature) (h : f.hasWindow = true) : (c.plug f).hasWindow = true := by
  simp only [Feature.hasWindow, List.any_eq_true] at h ⊢
  obtain ⟨x, hx, hp⟩ := h
  exact ⟨x, nodes_plug_sub c f x hx, hp⟩

theorem self_mem_nodes (f : Feature) : f ∈ f.nodes := by
  cases f <;> simp [Feature.nodes]

theorem hasAggregate_of_isAggregate (f : Feature) (h : f.isAggregate = true) : f.hasAggregate = true := by
  simp only [Feature.hasAggregate, List.any_eq_true]
  exact ⟨f, self_mem_nodes f, h⟩

theorem hasWindow_of_isWindow (f : Feature) (h : f.isWindow = true) : f.hasWindow = true := by
  simp only [Feature.hasWindow, List.any_eq_true]
  exact ⟨f, self_mem_nodes f, h⟩

/-- a cumulative expression (aggregate or window) at any depth of a where-condition -/
theorem not_wf_where (c : Ctx) (f : Feature) (h : f.isCumulative = true) (s : Source) (sel : Features) (grp : Features)
    (post : FeatureOpt) (ord : Orderings) (rows : Option Rows) :
    Source.wf (.query s sel (.some (c.plug f)) grp post ord rows) = false := by
  have hc : ((c.plug f).hasAggregate || (c.plug f).hasWindow) = true := by
    simp only [Feature.isCumulative, Bool.or_eq_true] at h
    rcases h with h | h
    · simp [hasAggregate_plug c f (hasAggregate_of_isAggregate f h)]
    · simp [hasWindow_plug c f (hasWindow_of_isWindow f h)]
  simp [Source.wf, queryRule, filterRule, hc]

/-- … of a grouping term -/
theorem not_wf_grouping (c : Ctx) (f : Feature) (h : f.isCumulative = true) (s : Source) (sel : Features)
    (pre : FeatureOpt) (before after : List Feature) (post : FeatureOpt) (ord : Orderings) (rows : Option Rows) :
    Source.wf (.query s sel pre (Features.ofList (before ++ c.plug f :: after)) post ord rows) = false := by
  have hc : ((c.plug f).hasAggregate || (c.plug f).hasWindow) = true := by
    simp only [Feature.isCumulative, Bool.or_eq_true] at h
    rcases h with h | h
    · simp [hasAggregate_plug c f (hasAggregate_of_isAggregate f h)]
    · simp [hasWindow_plug c f (hasWindow_of_isWindow f h)]
  have : (Features.ofList (before ++ c.plug f :: after)).toList.all
      (fun g => !g.isAlias && g.within s.avail && !(g.hasAggregate || g.hasWindow)) = false := by
    rw [Features.toList_ofList, List.all_eq_false]
    exact ⟨c.plug f, by simp, by simp [hc]⟩
  rw [Bool.eq_false_iff]
  intro hw
  simp only [Source.wf, queryRule, Bool.and_eq_true] at hw
  have h3 := hw.2.1.1.1.2
  rw [this] at h3
  cases h3

/-- … of a join condition -/
theorem not_wf_join (c : Ctx) (f : Feature) (h : f.isCumulative = true) (l r : Source) (k : JoinKind) :
    Source.wf (.join l r k (.some (c.plug f))) = false := by
  have hc : ((c.plug f).hasAggregate || (c.plug f).hasWindow) = true := by
    simp only [Feature.isCumulative, Bool.or_eq_true] at h
    rcases h with h | h
    · simp [hasAggregate_plug c f (hasAggregate_of_isAggregate f h)]
    · simp [hasWindow_plug c f (hasWindow_of_isWindow f h)]
  simp [Source.wf, joinRule, hc]

/-- a window at any depth of a having-condition -/
theorem not_wf_having (c : Ctx) (f : Feature) (h : f.isWindow = true) (s : Source) (sel : Features) (pre : FeatureOpt)
    (grp : Features) (ord : Orderings) (rows : Option Rows) :
    Source.wf (.query s sel pre grp (.some (c.plug f)) ord rows) = false := by
  have hc := hasWindow_plug c f (hasWindow_of_isWindow f h)
  simp [Source.wf, queryRule, filterRule, hc]

end ForML.Dsl
