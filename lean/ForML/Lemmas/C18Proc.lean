/-
C18 helper lemmas: the process level of ForML.Model.ManifestStore (`sys.path_importer_cache`) adds nothing to the
file level as long as no location changes its kind under a cached finder.
-/
import ForML.Lemmas.C18Store

namespace ForML.Store

/-- every cached finder fits what is at its location now -/
def Consistent (k : Memo) (s : Store) : Prop := ∀ p z e, k p = some z → s p = some e → z = isZip e

def isZipL : LEntry → Bool
  | .zip _ _ => true
  | .dir _ _ => false

theorem isZip_abs (e : Entry) : isZip e = isZipL (absE e) := by cases e <;> rfl

theorem consult_none (k : Memo) (s : Store) (p : Path) (h : s p = none) : consult k s p = (k, false) := by
  simp [consult, h]

theorem consult_ok (k : Memo) (s : Store) (p : Path) (e : Entry) (hc : Consistent k s) (h : s p = some e) :
    (consult k s p).2 = true ∧ Consistent (consult k s p).1 s := by
  unfold consult
  rw [h]
  cases hk : k p with
  | none =>
    refine ⟨rfl, ?_⟩
    intro q z e' hq hs
    simp only at hq
    split at hq
    · rename_i hqp; subst hqp; rw [h] at hs; cases hs; cases hq; rfl
    · exact hc q z e' hq hs
  | some z =>
    simp only
    rw [hc p z e hk h]
    exact ⟨by simp, hc⟩

/-- the cache after looking at `p`: unchanged elsewhere, and at `p` the first finder stays -/
theorem consult_memo (k : Memo) (s : Store) (p q : Path) :
    (consult k s p).1 q = if q = p then (match k p with | some z => some z | none => (s p).map isZip) else k q := by
  unfold consult
  cases hs : s p with
  | none =>
    simp only [Option.map]
    by_cases h : q = p
    · subst h; simp only [if_true]; cases k q <;> rfl
    · simp only [h, if_false]
  | some e =>
    cases hk : k p with
    | none => simp only [Option.map]
    | some z =>
      simp only
      by_cases h : q = p
      · subst h; simp only [if_true]; exact hk
      · simp only [h, if_false]

theorem consistent_consult (k : Memo) (s : Store) (p : Path) (hc : Consistent k s) : Consistent (consult k s p).1 s := by
  cases hs : s p with
  | none => rw [consult_none k s p hs]; exact hc
  | some e => exact (consult_ok k s p e hc hs).2

theorem kinds_readAt (bc : Bool) (s : Store) (p q : Path) : ((readAt bc s p).1 q).map isZip = (s q).map isZip := by
  have h := readAt_get bc s p q
  cases h1 : (readAt bc s p).1 q <;> cases h2 : s q <;> simp_all [isZip_abs]

theorem consistent_kinds (k : Memo) (s s' : Store) (hc : Consistent k s) (h : ∀ q, (s' q).map isZip = (s q).map isZip) :
    Consistent k s' := by
  intro q z e hk hs
  have hq := h q
  rw [hs] at hq
  cases hsq : s q with
  | none => rw [hsq] at hq; cases hq
  | some e0 =>
    rw [hsq] at hq
    simp only [Option.map, Option.some.injEq] at hq
    rw [hq]
    exact hc q z e0 hk hsq

theorem consistent_readAt (bc : Bool) (k : Memo) (s : Store) (p : Path) (hc : Consistent k s) :
    Consistent k (readAt bc s p).1 :=
  consistent_kinds k s _ hc (kinds_readAt bc s p)

/-- with a consistent cache `Manifest.read` is the file-level read -/
theorem preadAt_eq (bc : Bool) (s : Store) (k : Memo) (p : Path) (hc : Consistent k s) :
    preadAt bc s k p = ((readAt bc s p).1, (consult k s p).1, (readAt bc s p).2) := by
  unfold preadAt
  cases hs : s p with
  | none =>
    rw [consult_none k s p hs]
    simp [readAt, hs]
  | some e =>
    rw [(consult_ok k s p e hc hs).1]
    rfl

theorem consistent_set (k : Memo) (s : Store) (p : Path) (e : Entry) (hc : Consistent k s)
    (h : ∀ z, k p = some z → z = isZip e) : Consistent k (s.set p e) := by
  intro q z e' hk hs
  rw [set_get] at hs
  split at hs
  · rename_i hq; subst hq; cases hs; exact h z hk
  · exact hc q z e' hk hs

theorem consistent_del (k : Memo) (s : Store) (p : Path) (hc : Consistent k s) : Consistent k (s.del p) := by
  intro q z e' hk hs
  rw [del_get] at hs
  split at hs
  · cases hs
  · exact hc q z e' hk hs

theorem consistent_empty : Consistent Memo.empty Store.empty := by
  intro p z e hk _
  cases hk

/-- a consistent cache that looked at `p` still fits after `p` got a new entry, if `agree` says so -/
theorem consistent_of_agree (k : Memo) (s : Store) (p : Path) (e : Entry) (hc : Consistent k s)
    (ha : agree (consult k (s.set p e) p).1 (s.set p e) p = true) :
    Consistent k (s.set p e) ∧ (consult k (s.set p e) p).2 = true := by
  have hget : (s.set p e) p = some e := by simp [set_get]
  have hcs : Consistent k (s.set p e) := by
    apply consistent_set k s p e hc
    intro z hz
    have hm := consult_memo k (s.set p e) p p
    simp only [if_true, hz] at hm
    unfold agree at ha
    rw [hm, hget] at ha
    simpa using ha
  exact ⟨hcs, (consult_ok k _ p e hcs hget).1⟩

theorem copyTo_get (s : Store) (src dst : Path) (t : Nat) (m : SM) (q : Path) (hq : q ≠ dst) :
    (copyTo s src dst t m).1 q = s q := by
  unfold copyTo
  split
  · split <;> simp [set_get, hq]
  · simp [set_get, hq]
  · rfl

theorem copyTo_cases (s : Store) (src dst : Path) (t : Nat) (m : SM) :
    ((copyTo s src dst t m).2 = .error .missing ∧ (copyTo s src dst t m).1 = s) ∨
    (∃ e tr, (copyTo s src dst t m).1 = s.set dst e ∧ (copyTo s src dst t m).2 = .installed m tr ∧ treeOf (some e) = tr) := by
  unfold copyTo
  split
  · split
    · exact Or.inr ⟨_, _, rfl, rfl, rfl⟩
    · exact Or.inr ⟨_, _, rfl, rfl, rfl⟩
  · exact Or.inr ⟨_, _, rfl, rfl, rfl⟩
  · exact Or.inl ⟨rfl, rfl⟩

/-- the copy branch of `install` with the finder cache, when the target's kind is servable -/
theorem pcopyTo_eq (s : Store) (k : Memo) (src dst : Path) (t : Nat) (m : SM) (hc : Consistent k s)
    (ha : agree (pcopyTo s k src dst t m).2.1 (pcopyTo s k src dst t m).1 dst = true) :
    (pcopyTo s k src dst t m).1 = (copyTo s src dst t m).1 ∧ (pcopyTo s k src dst t m).2.2 = (copyTo s src dst t m).2 ∧
    Consistent (pcopyTo s k src dst t m).2.1 (pcopyTo s k src dst t m).1 := by
  rcases copyTo_cases s src dst t m with ⟨h1, h2⟩ | ⟨e, tr, h1, h2, h3⟩
  · have hp : pcopyTo s k src dst t m = ((copyTo s src dst t m).1, k, .error .missing) := by
      unfold pcopyTo; rw [h1]
    rw [hp]
    refine ⟨rfl, h1.symm, ?_⟩
    show Consistent k (copyTo s src dst t m).1
    rw [h2]; exact hc
  · have hp : pcopyTo s k src dst t m = pcomponents (s.set dst e) k dst m := by
      unfold pcopyTo; rw [h2, h1]
    rw [hp] at ha ⊢
    unfold pcomponents at ha ⊢
    simp only at ha ⊢
    obtain ⟨hcs, hok⟩ := consistent_of_agree k s dst e hc ha
    rw [hok, h1, h2]
    simp only [if_true, set_get, h3]
    exact ⟨trivial, trivial, consistent_consult k _ dst hcs⟩

theorem pcomponents_eq (s : Store) (k : Memo) (dst : Path) (m : SM) (hc : Consistent k s) (hs : (s dst).isSome = true) :
    (pcomponents s k dst m).2.2 = .installed m (treeOf (s dst)) ∧ Consistent (pcomponents s k dst m).2.1 s := by
  unfold pcomponents
  cases hd : s dst with
  | none => rw [hd] at hs; cases hs
  | some e =>
    obtain ⟨h1, h2⟩ := consult_ok k s dst e hc hd
    simp only [h1, if_true]
    exact ⟨trivial, h2⟩

theorem readAt_ok_some (bc : Bool) (s : Store) (p : Path) (m : SM) (h : (readAt bc s p).2 = .ok m) : (s p).isSome = true := by
  unfold readAt at h
  split at h
  · cases h
  · rename_i hp; simp [hp]
  · rename_i hp; simp [hp]

theorem isSome_readAt (bc : Bool) (s : Store) (p q : Path) : ((readAt bc s p).1 q).isSome = (s q).isSome := by
  have h := kinds_readAt bc s p q
  cases h1 : (readAt bc s p).1 q <;> cases h2 : s q <;> simp_all

/-- `install` with the finder cache is the file-level `install` when the target stays servable -/
theorem pinstallAt_refines (bc : Bool) (s : Store) (k : Memo) (src dst : Path) (t : Nat) (hc : Consistent k s)
    (hk : agree (pinstallAt bc s k src dst t).2.1 (pinstallAt bc s k src dst t).1 dst = true) :
    (pinstallAt bc s k src dst t).1 = (installAt bc s src dst t).1 ∧
    (pinstallAt bc s k src dst t).2.2 = (installAt bc s src dst t).2 ∧
    Consistent (pinstallAt bc s k src dst t).2.1 (pinstallAt bc s k src dst t).1 := by
  have e1 := preadAt_eq bc s k src hc
  have c1 : Consistent (consult k s src).1 (readAt bc s src).1 :=
    consistent_kinds _ s _ (consistent_consult k s src hc) (kinds_readAt bc s src)
  have some1 := readAt_ok_some bc s src
  have iss1 := isSome_readAt bc s src
  unfold pinstallAt installAt at *
  rw [e1] at hk ⊢
  generalize hr1 : readAt bc s src = r1 at *
  obtain ⟨s1, res1⟩ := r1
  generalize (consult k s src).1 = k1 at *
  simp only at c1 some1 iss1 hk ⊢
  cases res1 with
  | error e => exact ⟨rfl, rfl, c1⟩
  | ok m =>
    simp only at hk ⊢
    by_cases hsd : src = dst
    · simp only [hsd, if_true] at hk ⊢
      have hsome : (s1 dst).isSome = true := by
        rw [iss1 dst, ← hsd]; exact some1 m rfl
      obtain ⟨h1, h2⟩ := pcomponents_eq s1 k1 dst m c1 hsome
      exact ⟨rfl, h1, h2⟩
    · simp only [hsd, if_false] at hk ⊢
      have e2 := preadAt_eq bc s1 k1 dst c1
      have c2 : Consistent (consult k1 s1 dst).1 (readAt bc s1 dst).1 :=
        consistent_kinds _ s1 _ (consistent_consult k1 s1 dst c1) (kinds_readAt bc s1 dst)
      have some2 := readAt_ok_some bc s1 dst
      have iss2 := isSome_readAt bc s1 dst
      rw [e2] at hk ⊢
      generalize hr2 : readAt bc s1 dst = r2 at *
      obtain ⟨s2, res2⟩ := r2
      generalize (consult k1 s1 dst).1 = k2 at *
      simp only at c2 some2 iss2 hk ⊢
      cases res2 with
      | error e =>
        simp only at hk ⊢
        exact pcopyTo_eq s2 k2 src dst t m c2 hk
      | ok m' =>
        simp only at hk ⊢
        by_cases hm : meq m' m = true
        · simp only [hm, if_true] at hk ⊢
          have hsome : (s2 dst).isSome = true := by
            rw [iss2 dst]; exact some2 m' rfl
          obtain ⟨h1, h2⟩ := pcomponents_eq s2 k2 dst m c2 hsome
          exact ⟨rfl, h1, h2⟩
        · simp only [hm] at hk ⊢
          exact pcopyTo_eq s2 k2 src dst t m c2 hk

/-- **one step with the finder cache**: from a consistent cache, an operation that leaves its target servable behaves
as at the file level and leaves the cache consistent -/
theorem pstep_refines (bc : Bool) (s : Store) (k : Memo) (op : Op) (hc : Consistent k s) (hk : okKind bc s k op = true) :
    (pstep bc s k op).1 = (step bc s op).1 ∧ (pstep bc s k op).2.2 = (step bc s op).2 ∧
    Consistent (pstep bc s k op).2.1 (pstep bc s k op).1 := by
  cases op with
  | write p m t =>
    refine ⟨rfl, rfl, ?_⟩
    simp only [okKind, target, pstep] at hk
    show Consistent k (step bc s (.write p m t)).1
    simp only [step] at hk ⊢
    cases hs : s p with
    | none =>
      rw [hs] at hk
      apply consistent_set k s p _ hc
      intro z hz
      simp only [agree, hz, set_get, if_true] at hk
      simpa using hk
    | some e =>
      cases e with
      | zip m0 tr => exact hc
      | dir d =>
        apply consistent_set k s p _ hc
        intro z hz
        exact hc p z (.dir d) hz hs
  | create p m tr =>
    simp only [okKind, target] at hk
    simp only [pstep, step] at hk ⊢
    cases hs : s p with
    | none =>
      rw [hs] at hk
      simp only at hk ⊢
      have hz : readAt bc (s.set p (.zip m tr)) p = (s.set p (.zip m tr), .ok m) := by simp [readAt, set_get]
      unfold preadAt at hk ⊢
      rw [hz] at hk ⊢
      have hag : agree (consult k (s.set p (.zip m tr)) p).1 (s.set p (.zip m tr)) p = true := by
        cases hcc : (consult k (s.set p (.zip m tr)) p).2 <;> simpa [hcc] using hk
      obtain ⟨hcs, hok⟩ := consistent_of_agree k s p (.zip m tr) hc hag
      rw [hok]
      exact ⟨rfl, rfl, consistent_consult k _ p hcs⟩
    | some e =>
      cases e with
      | dir d => exact ⟨rfl, rfl, hc⟩
      | zip m0 tr0 =>
        rw [hs] at hk
        simp only at hk ⊢
        have hz : readAt bc (s.set p (.zip m tr)) p = (s.set p (.zip m tr), .ok m) := by simp [readAt, set_get]
        unfold preadAt at hk ⊢
        rw [hz] at hk ⊢
        have hag : agree (consult k (s.set p (.zip m tr)) p).1 (s.set p (.zip m tr)) p = true := by
          cases hcc : (consult k (s.set p (.zip m tr)) p).2 <;> simpa [hcc] using hk
        obtain ⟨hcs, hok⟩ := consistent_of_agree k s p (.zip m tr) hc hag
        rw [hok]
        exact ⟨rfl, rfl, consistent_consult k _ p hcs⟩
  | install src dst t =>
    simp only [okKind, target, pstep] at hk
    exact pinstallAt_refines bc s k src dst t hc hk
  | read p =>
    simp only [pstep, step]
    rw [preadAt_eq bc s k p hc]
    have c1 : Consistent (consult k s p).1 (readAt bc s p).1 :=
      consistent_kinds _ s _ (consistent_consult k s p hc) (kinds_readAt bc s p)
    generalize readAt bc s p = r at c1
    obtain ⟨s1, res⟩ := r
    cases res with
    | ok m => exact ⟨rfl, rfl, c1⟩
    | error e => exact ⟨rfl, rfl, c1⟩
  | remove p => exact ⟨rfl, rfl, consistent_del k s p hc⟩

/-- **refinement with the finder cache**: from a fresh store and a consistent cache, as long as no operation changes the kind of a location under a cached finder, the process observes exactly what the
logical store `Path → Content` observes -/
theorem prun_refines (bc : Bool) (h : List Op) : ∀ (s : Store) (k : Memo), Fresh s → Consistent k s →
    pokRun bc s k h = true → (prun bc s k h).2.2 = (lrun (abs s) h).2 := by
  induction h with
  | nil => intro _ _ _ _ _; rfl
  | cons op h ih =>
    intro s k hf hc hok
    simp only [pokRun, Bool.and_eq_true] at hok
    obtain ⟨p1, p2, p3⟩ := pstep_refines bc s k op hc hok.1
    obtain ⟨h1, h2, h3⟩ := step_refines bc s op hf
    have := ih (pstep bc s k op).1 (pstep bc s k op).2.1 (by rw [p1]; exact h3) p3 hok.2
    simp only [prun, lrun]
    rw [this, p2, h1, p1, h2]

end ForML.Store
