/-
C02 helper lemmas: on a valid apply-mode table (one sink, one head) the `Expression` is constructed.
-/
import ForML.Lemmas.C02PyBuildOk
import ForML.Lemmas.C02PyAssembleOk
import ForML.Lemmas.C02PyExpr

namespace ForML.Flow.PyFunc
open ForML.Flow

/-- the arguments a node keeps after the state presets took theirs -/
def nodeArgs (s : Symbol) : List Key :=
  match s.instr with
  | .functor _ _ ps => s.args.drop ps.length
  | .getter _ => s.args
  | _ => []

/-- under the apply-mode assumptions every built node keeps exactly `nodeArgs` of its symbol -/
theorem buildLoop_args {A : Option Assets} {t : Table} (ham : AM A t) :
    ∀ (ks : List Key) (built res : Built), buildLoop A t ks built = .ok res →
      (∀ n ∈ built, ∃ s, t.find n.1 = some s ∧ n.2.2 = nodeArgs s) →
      (∀ n ∈ res, ∃ s, t.find n.1 = some s ∧ n.2.2 = nodeArgs s) := by
  intro ks
  induction ks with
  | nil => intro built res h hb; simp only [buildLoop] at h; cases h; exact hb
  | cons k rest ih =>
    intro built res h hb
    simp only [buildLoop] at h
    cases hfind : t.find k with
    | none => simp [hfind] at h
    | some s =>
      simp only [hfind] at h
      have hsm := Table.find_some hfind
      have hsy := ham.syms s hsm.1
      cases hi : s.instr with
      | dumper => simp [hi] at h
      | committer => simp [hi] at h
      | loader g =>
        simp only [hi] at h
        split at h
        · exact ih built res h hb
        · cases h
      | getter i =>
        simp only [hi] at h
        cases hres : resolveAll built (s.args.map .instr) with
        | error e => simp [hres] at h
        | ok args =>
          simp only [hres] at h
          refine ih _ res h ?_
          intro n hn
          rcases List.mem_append.1 hn with h1 | h1
          · exact hb n h1
          · simp at h1; subst h1
            exact ⟨s, hfind, by simp [nodeArgs, hi, resolveAll_instr hres]⟩
      | functor a act ps =>
        simp only [hi] at h hsy
        obtain ⟨hact, hlen, hload, hnodes⟩ := hsy
        obtain ⟨vs, hvs, hvl⟩ := evaluateAll_loaders (A := A) (t := t) (s.args.take ps.length) hload
        have hev := evaluateAll_append _ _ hvs (evaluateAll_nodes (A := A) (s.args.drop ps.length) hnodes)
        rw [List.take_append_drop] at hev
        simp only [hev] at h
        obtain ⟨st', hred⟩ := reduce_values ps .none vs ((s.args.drop ps.length).map .instr)
          (by rw [hvl, List.length_take]; omega)
        simp only [hred] at h
        cases hres : resolveAll built ((s.args.drop ps.length).map .instr) with
        | error e => simp only [hres] at h; cases h
        | ok args =>
          simp only [hres] at h
          refine ih _ res h ?_
          intro n hn
          rcases List.mem_append.1 hn with h1 | h1
          · exact hb n h1
          · simp at h1; subst h1
            exact ⟨s, hfind, by simp [nodeArgs, hi, resolveAll_instr hres]⟩

/-- with one sink every instruction is listed by `_order` -/
theorem order_complete {t : Table} {r : Key → Nat} (hr : Ranked t r) {tail : Key} (hs : t.sinks = [tail])
    {ks : List Key} (hok : OrderOK t tail ks) : ∀ s ∈ t, s.id ∈ ks := by
  have key : ∀ (n : Nat) (s : Symbol), s ∈ t → t.length ≤ r s.id + n → s.id ∈ ks := by
    intro n
    induction n with
    | zero => intro s hs' h; have := hr.bound s hs'; omega
    | succ n ih =>
      intro s hs' h
      by_cases hin : s.id ∈ ks
      · exact hin
      · have hne : s.id ≠ tail := fun e => hin (e ▸ hok.hasTail)
        have hnot : s.id ∉ t.sinks := by rw [hs]; simpa using hne
        rw [mem_sinks] at hnot
        have : ∃ c ∈ t, s.id ∈ c.args := by
          apply Classical.byContradiction
          intro hcon
          apply hnot
          refine ⟨List.mem_map_of_mem hs', ?_⟩
          intro c hc hin'
          exact hcon ⟨c, hc, hin'⟩
        obtain ⟨c, hc, hca⟩ := this
        have hrank := (hr.args c hc s.id hca).2
        have hcin := ih c hc (by omega)
        have hfc := Table.find_of_mem_nodup hr.nodup hc
        exact hok.closed c.id hcin s.id (by simp [argsOf, hfc, hca])
  intro s hs'
  exact key t.length s hs' (by omega)

theorem count_flatMap_args (k : Key) : ∀ (ns : List Node),
    (todoOf ns).count k = (ns.map (fun n => n.args.count k)).sum
  | [] => rfl
  | n :: ns => by
    have : todoOf (n :: ns) = n.args ++ todoOf ns := by simp [todoOf]
    rw [this, List.count_append, count_flatMap_args k ns]
    simp

theorem countUses_eq (built : Built) (k : Key) : countUses built k = (todoOf (built.map (mkNode built))).count k := by
  rw [count_flatMap_args]
  simp [countUses, mkNode, List.map_map, Function.comp_def]

/-- `szout` of every node counts exactly the argument occurrences after it -/
theorem szok_of (built : Built) : ∀ (post pre : Built), built = pre ++ post →
    (∀ m ∈ pre, ∀ n ∈ post, n.1 ∉ m.2.2) → ArgsEarlier (pre.map (·.1)) post →
    ((pre ++ post).map (·.1)).Nodup → SzOK (post.map (mkNode built))
  | [], _, _, _, _, _ => trivial
  | n :: post, pre, hb, hfwd, hearly, hnd => by
    refine ⟨?_, ?_⟩
    · show countUses built n.1 = _
      rw [countUses_eq, hb, List.map_append, List.map_cons]
      have h1 : todoOf (pre.map (mkNode built) ++ mkNode built n :: post.map (mkNode built))
          = todoOf (pre.map (mkNode built)) ++ (n.2.2 ++ todoOf (post.map (mkNode built))) := by
        simp [todoOf, mkNode]
      rw [← hb, h1, List.count_append, List.count_append]
      have hz1 : (todoOf (pre.map (mkNode built))).count n.1 = 0 := by
        rw [List.count_eq_zero]
        intro hin
        simp only [todoOf, List.mem_flatMap, List.mem_map] at hin
        obtain ⟨nd, ⟨m, hm, rfl⟩, hma⟩ := hin
        exact hfwd m hm n (List.mem_cons_self ..) hma
      have hz2 : n.2.2.count n.1 = 0 := by
        rw [List.count_eq_zero]
        intro hin
        have := hearly.1 n.1 hin
        simp only [List.map_append, List.map_cons, List.nodup_append, List.nodup_cons] at hnd
        exact hnd.2.2 _ this _ (List.mem_cons_self ..) rfl
      rw [hz1, hz2]; simp [mkNode]
    · have := szok_of built post (pre ++ [n]) (by rw [hb]; simp)
        (by
          intro m hm n' hn'
          rcases List.mem_append.1 hm with h2 | h2
          · exact hfwd m h2 n' (List.mem_cons_of_mem _ hn')
          · simp at h2; subst h2
            intro hin
            have := hearly.1 n'.1 hin
            simp only [List.map_append, List.map_cons, List.nodup_append, List.nodup_cons] at hnd
            exact hnd.2.2 _ this _ (List.mem_cons_of_mem _ (List.mem_map_of_mem (f := (·.1)) hn')) rfl)
        (by simpa using hearly.2)
        (by simpa using hnd)
      exact this

theorem heads_nodup {t : Table} (hn : (t.map (·.id)).Nodup) : t.heads.Nodup := by
  unfold Table.heads
  exact (List.filter_sublist (l := t)).map (·.id) |>.nodup hn

theorem mem_heads {t : Table} {k : Key} : k ∈ t.heads ↔ ∃ s ∈ t, s.id = k ∧
    (match s.instr with | .functor _ _ ps => decide (s.args.length ≤ ps.length) | _ => false) = true := by
  simp only [Table.heads, List.mem_map, List.mem_filter]
  constructor
  · rintro ⟨s, ⟨hs, hp⟩, rfl⟩; exact ⟨s, hs, rfl, hp⟩
  · rintro ⟨s, hs, rfl, hp⟩; exact ⟨s, ⟨hs, hp⟩, rfl⟩

/-- **construction succeeds** on every valid apply-mode table -/
theorem expression_ok {A : Option Assets} {t : Table} {r : Key → Nat} (hr : Ranked t r) (ham : AM A t) :
    ∃ U hd, expression A t = .ok U ∧ t.heads = [hd] ∧
      ∃ sink, t.sinks = [sink] ∧ ∀ x, U.run x = denIn A t hd x sink := by
  -- the sink
  obtain ⟨tail, hsinks⟩ : ∃ tail, t.sinks = [tail] := by
    have := ham.oneSink
    match hs : t.sinks, this with
    | [x], _ => exact ⟨x, rfl⟩
  -- order
  obtain ⟨ks, hord, hok⟩ := order_ok hr hsinks
  have hirr : ∀ k ∈ ks, k ∉ argsOf t k := by
    intro k _ hin
    simp only [argsOf] at hin
    cases hf : t.find k with
    | none => simp [hf] at hin
    | some s => simp only [hf] at hin; have := (hr.find_args hf k hin).2; omega
  -- build
  obtain ⟨built, hbuilt⟩ := buildLoop_ok ham ks [] [] hok.bound (fun k hk a ha => Or.inr (hok.closed k hk a ha))
    hok.before hirr (by simp)
  have hkeys := buildLoop_keys ks [] built hbuilt
  simp only [List.map_nil, List.nil_append] at hkeys
  have hshape := ham.shape
  simp only [Table.pyShape, Bool.and_eq_true, List.all_eq_true] at hshape
  have htailnode : t.isNode tail = true := hshape.2 tail (by rw [hsinks]; simp)
  obtain ⟨l, hl⟩ := hok.last
  have hkeys' : built.map (·.1) = l.filter t.isNode ++ [tail] := by
    rw [hkeys, hl, List.filter_append]; simp [htailnode]
  have hbn : (built.map (·.1)).Nodup := by
    rw [hkeys]; exact hok.nodup.sublist (List.filter_sublist ..)
  have hnodeOf : ∀ n ∈ built, t.isNode n.1 = true := by
    intro n hn
    have : n.1 ∈ ks.filter t.isNode := by rw [← hkeys]; exact List.mem_map_of_mem hn
    exact (List.mem_filter.1 this).2
  have hargs := buildLoop_args ham ks [] built hbuilt (by simp)
  have hcomplete := order_complete hr hsinks hok
  have htailsink : ∀ s ∈ t, tail ∉ s.args := (mem_sinks.1 (by rw [hsinks]; simp : tail ∈ t.sinks)).2
  have hnodeArgs_sub : ∀ s : Symbol, ∀ a ∈ nodeArgs s, a ∈ s.args := by
    intro s a ha
    unfold nodeArgs at ha
    split at ha
    · exact List.mem_of_mem_drop ha
    · exact ha
    · cases ha
  -- szout of the sink is 0, of every other node at least 1
  have hsz0 : countUses built tail = 0 := by
    rw [countUses_eq, List.count_eq_zero]
    intro hin
    simp only [todoOf, List.mem_flatMap, List.mem_map] at hin
    obtain ⟨nd, ⟨m, hm, rfl⟩, hma⟩ := hin
    obtain ⟨s, hf, he⟩ := hargs m hm
    have : tail ∈ nodeArgs s := by rw [← he]; exact hma
    exact htailsink s (Table.find_some hf).1 (hnodeArgs_sub s tail this)
  have hsz1 : ∀ n ∈ built, n.1 ≠ tail → 1 ≤ countUses built n.1 := by
    intro n hn hne
    have hnn := hnodeOf n hn
    obtain ⟨sn, hfn, _⟩ := hargs n hn
    have hnsm := Table.find_some hfn
    -- n is somebody's argument
    have hnot : n.1 ∉ t.sinks := by rw [hsinks]; simpa using hne
    rw [mem_sinks] at hnot
    have : ∃ c ∈ t, n.1 ∈ c.args := by
      apply Classical.byContradiction
      intro hcon
      apply hnot
      refine ⟨hnsm.2 ▸ List.mem_map_of_mem hnsm.1, ?_⟩
      intro c hc hin'
      exact hcon ⟨c, hc, hin'⟩
    obtain ⟨c, hc, hca⟩ := this
    have hfc := Table.find_of_mem_nodup hr.nodup hc
    have hcs := ham.syms c hc
    -- the consumer is a node keeping n among its arguments
    have hcnode : t.isNode c.id = true ∧ n.1 ∈ nodeArgs c := by
      cases hi : c.instr with
      | dumper => simp [hi] at hcs
      | committer => simp [hi] at hcs
      | loader g =>
        have := hshape.1 c hc
        simp only [hi, List.isEmpty_iff] at this
        rw [this] at hca; cases hca
      | getter i =>
        exact ⟨by simp [Table.isNode, hfc, hi], by simp [nodeArgs, hi, hca]⟩
      | functor a act ps =>
        simp only [hi] at hcs
        refine ⟨by simp [Table.isNode, hfc, hi], ?_⟩
        simp only [nodeArgs, hi]
        rw [← List.take_append_drop ps.length c.args] at hca
        rcases List.mem_append.1 hca with h1 | h1
        · have hl := hcs.2.2.1 n.1 h1
          -- a loader is not a node
          simp only [Table.isLoader, hfn] at hl
          simp only [Table.isNode, hfn] at hnn
          obtain ⟨k', ins, as⟩ := sn
          cases ins <;> simp at hl hnn
        · exact h1
    have hcin : c.id ∈ built.map (·.1) := by
      rw [hkeys]; exact List.mem_filter.2 ⟨hcomplete c hc, hcnode.1⟩
    obtain ⟨m, hm, hmc⟩ := List.mem_map.1 hcin
    obtain ⟨s', hf', he'⟩ := hargs m hm
    rw [hmc, hfc] at hf'; cases hf'
    rw [countUses_eq]
    apply List.one_le_count_iff.2
    simp only [todoOf, List.mem_flatMap, List.mem_map]
    exact ⟨mkNode built m, ⟨m, hm, rfl⟩, by show n.1 ∈ m.2.2; rw [he']; exact hcnode.2⟩
  -- a node without arguments is a head of the table
  have hhead : ∀ n ∈ built, n.2.2 = [] → n.1 ∈ t.heads := by
    intro n hn hempty
    obtain ⟨s, hf, he⟩ := hargs n hn
    have hsm := Table.find_some hf
    have hnn := hnodeOf n hn
    rw [mem_heads]
    refine ⟨s, hsm.1, hsm.2, ?_⟩
    have hcs := ham.syms s hsm.1
    cases hi : s.instr with
    | dumper => simp [hi] at hcs
    | committer => simp [hi] at hcs
    | loader g => simp [Table.isNode, hf, hi] at hnn
    | getter i =>
      simp only [hi] at hcs
      rw [he] at hempty
      simp only [nodeArgs, hi] at hempty
      rw [hempty] at hcs; simp at hcs
    | functor a act ps =>
      rw [he] at hempty
      simp only [nodeArgs, hi, List.drop_eq_nil_iff] at hempty
      simpa using hempty
  obtain ⟨hd, hheads⟩ : ∃ hd, t.heads = [hd] := by
    have := ham.oneHead
    match hs : t.heads, this with
    | [x], _ => exact ⟨x, rfl⟩
  cases built with
  | nil => simp at hkeys'
  | cons b0 brest =>
    have hhd : t.isNode b0.1 = true := hnodeOf b0 (List.mem_cons_self ..)
    have hload := fun x => loadersOK_denIn (A := A) hr ham.shape hhd x
    have hspec := buildLoop_spec (hload .none) ks [] _ hbuilt (by simp) trivial
    have hearly := hspec.2.1
    have hfirstargs : b0.2.2 = [] := by
      cases hb : b0.2.2 with
      | nil => rfl
      | cons a as => have := hearly.1 a (by rw [hb]; simp); cases this
    have hb0head : b0.1 = hd := by
      have := hhead b0 (List.mem_cons_self ..) hfirstargs
      rw [hheads] at this; simpa using this
    simp only [List.map_cons, List.nodup_cons] at hbn
    have hrestargs : ∀ n ∈ brest.map (mkNode (b0 :: brest)), n.args ≠ [] := by
      intro n hn hempty
      obtain ⟨b, hb, rfl⟩ := List.mem_map.1 hn
      have := hhead b (List.mem_cons_of_mem _ hb) hempty
      rw [hheads, ← hb0head] at this
      simp at this
      exact hbn.1 (this ▸ List.mem_map_of_mem (f := (·.1)) hb)
    have hszok := szok_of (b0 :: brest) (b0 :: brest) [] rfl (by simp) (by simpa using hearly)
      (by simpa using List.nodup_cons.2 hbn)
    have hrestkeys : (brest.map (mkNode (b0 :: brest))).map (·.key) = brest.map (·.1) := by
      simp [mkNode, List.map_map, Function.comp_def]
    -- the initial providers
    let rest := brest.map (mkNode (b0 :: brest))
    let sz0 := countUses (b0 :: brest) b0.1
    let p0 : Providers := (b0.1, fork b0.1 (.raw b0.1 b0.2.1) sz0) ::
      rest.map (fun n => (n.key, [Term.raw n.key n.raw]))
    have hszall : ∀ n ∈ mkNode (b0 :: brest) b0 :: rest,
        (n.key ≠ tail → 1 ≤ n.szout) ∧ (n.key = tail → n.szout = 0) := by
      intro n hn
      obtain ⟨b, hb, rfl⟩ : ∃ b ∈ b0 :: brest, mkNode (b0 :: brest) b = n := by
        rcases List.mem_cons.1 hn with h1 | h1
        · exact ⟨b0, List.mem_cons_self .., h1.symm⟩
        · obtain ⟨b, hb, he⟩ := List.mem_map.1 h1
          exact ⟨b, List.mem_cons_of_mem _ hb, he⟩
      refine ⟨fun hne => hsz1 b hb hne, fun he => ?_⟩
      show countUses (b0 :: brest) b.1 = 0
      have he' : b.1 = tail := he
      rw [he']; exact hsz0
    have hrestmem : ∀ n ∈ rest, n.key ∈ brest.map (·.1) := by
      intro n hn
      have : n.key ∈ rest.map (·.key) := List.mem_map_of_mem hn
      rw [hrestkeys] at this
      exact this
    have hinit : CInv p0 (b0.1 :: rest.map (·.key)) tail [b0.1] rest (todoOf rest) := by
      refine ⟨by simp [p0, List.map_map, Function.comp_def], ?_, ?_⟩
      · intro n hn
        have hne : b0.1 ≠ n.key := fun e => hbn.1 (e ▸ hrestmem n hn)
        simp only [p0, Providers.get, hne, if_false]
        exact providers_get_map _ (by rw [hrestkeys]; exact hbn.2) n hn
      · intro k hk
        simp only [List.mem_singleton] at hk
        subst hk
        refine ⟨fork b0.1 (.raw b0.1 b0.2.1) sz0, by simp [p0, Providers.get], ?_⟩
        rw [fork_length]
        have hs : sz0 = (todoOf rest).count b0.1 := hszok.1
        have hso := hszall (mkNode (b0 :: brest) b0) (List.mem_cons_self ..)
        by_cases hl : b0.1 = tail
        · have h0 : sz0 = 0 := hso.2 hl
          have hc : (todoOf rest).count b0.1 = 0 := by rw [← hs]; exact h0
          simp [hl, h0]
          rw [← hl]; exact hc
        · have h1 : 1 ≤ sz0 := hso.1 hl
          simp only [hl, if_false, Nat.add_zero, ← hs]
          split <;> omega
    obtain ⟨p', hasm, hfin⟩ := assemble_count rest [b0.1] p0 (by rw [hrestkeys]; exact hbn.2)
      (by
        intro n hn hin
        simp only [List.mem_singleton] at hin
        exact hbn.1 (hin ▸ hrestmem n hn))
      (earlier_of_built _ _ brest (by simpa using hearly.2)) hrestargs hszok.2
      (fun n hn => hszall n (List.mem_cons_of_mem _ hn)) hinit
    -- the last node is the sink
    obtain ⟨bl, hbl, hbltail⟩ : ∃ bl, (b0 :: brest).getLast? = some bl ∧ bl.1 = tail := by
      have h2 : ((b0 :: brest).map (·.1)).getLast? = some tail := by rw [hkeys']; simp
      rw [List.getLast?_map] at h2
      cases hg : (b0 :: brest).getLast? with
      | none => simp [hg] at h2
      | some bl => simp only [hg, Option.map_some, Option.some.injEq] at h2; exact ⟨bl, rfl, h2⟩
    have hallkeys : ∀ k, k ∈ [b0.1] ++ rest.map (·.key) ↔ k ∈ (b0 :: brest).map (·.1) := by
      intro k; rw [hrestkeys]; simp
    have htailmem : tail ∈ [b0.1] ++ rest.map (·.key) := by
      rw [hallkeys, hkeys']; simp
    obtain ⟨dU, hgU, hlU⟩ := hfin.cnt tail htailmem
    simp only [List.count_nil, if_true, Nat.zero_add] at hlU
    obtain ⟨U, rfl⟩ : ∃ U, dU = [U] := by
      match dU, hlU with
      | [U], _ => exact ⟨U, rfl⟩
    have hallempty : (p'.set tail []).all (fun e => e.2.isEmpty) = true := by
      rw [List.all_eq_true]
      intro e he
      obtain ⟨k, d⟩ := e
      have hkeys2 : (p'.set tail []).map (·.1) = b0.1 :: rest.map (·.key) := by
        rw [Providers.set_keys _ _ _ (by simp [hgU]), hfin.keys]
      have hnd2 : ((p'.set tail []).map (·.1)).Nodup := by
        rw [hkeys2, hrestkeys]; exact List.nodup_cons.2 hbn
      have hget := Providers.get_of_mem _ hnd2 he
      rw [Providers.get_set] at hget
      by_cases hk : k = tail
      · simp only [hk, if_true, Option.some.injEq] at hget; simp [← hget]
      · simp only [hk, if_false] at hget
        have hkin : k ∈ [b0.1] ++ rest.map (·.key) := by
          have : k ∈ (p'.set tail []).map (·.1) := List.mem_map_of_mem (f := (·.1)) he
          rw [hkeys2] at this; simpa using this
        obtain ⟨d', hg', hl'⟩ := hfin.cnt k hkin
        rw [hget] at hg'; cases hg'
        simp only [List.count_nil, hk, if_false, Nat.add_zero] at hl'
        simp [List.length_eq_zero_iff.1 hl']
    have hexp : expression A t = .ok U := by
      unfold expression
      rw [if_neg (by simp [nodup_hasDup_false hr.nodup])]
      have hbuild : build A t = .ok (mkNode (b0 :: brest) b0 :: rest) := by
        simp only [build, hord, hbuilt, List.map_cons]; rfl
      have hlast : (mkNode (b0 :: brest) b0 :: rest).getLast? = some (mkNode (b0 :: brest) bl) := by
        have : (mkNode (b0 :: brest) b0 :: rest) = (b0 :: brest).map (mkNode (b0 :: brest)) := rfl
        rw [this, List.getLast?_map, hbl]; rfl
      simp only [hbuild]
      rw [hlast]
      simp only
      have hcond : (decide ((mkNode (b0 :: brest) bl).szout ≠ 0) || !(mkNode (b0 :: brest) b0).args.isEmpty) = false := by
        have h1 : (mkNode (b0 :: brest) bl).szout = 0 := by
          show countUses (b0 :: brest) bl.1 = 0
          rw [hbltail]; exact hsz0
        have h2 : (mkNode (b0 :: brest) b0).args = [] := hfirstargs
        simp [h1, h2]
      rw [if_neg (by rw [hcond]; simp)]
      have hasm' : assemble rest ((((mkNode (b0 :: brest) b0).key,
          fork (mkNode (b0 :: brest) b0).key (Term.raw (mkNode (b0 :: brest) b0).key (mkNode (b0 :: brest) b0).raw)
            (mkNode (b0 :: brest) b0).szout)) :: rest.map (fun n => (n.key, [Term.raw n.key n.raw]))) = .ok p' := hasm
      simp only [hasm']
      have hlk : (mkNode (b0 :: brest) bl).key = tail := hbltail
      rw [hlk, hgU]
      simp only [hallempty, if_true]
    obtain ⟨hd', sink', hs', _, ⟨ks', built', ho', hb', hh'⟩, hval⟩ := expression_sound hr ham.shape hexp
    rw [hord] at ho'; cases ho'
    rw [hbuilt] at hb'; cases hb'
    simp only [List.head?_cons, Option.map_some, Option.some.injEq] at hh'
    have hst : sink' = tail := by rw [hsinks] at hs'; simpa using hs'.symm
    subst hst
    refine ⟨U, hd, hexp, hheads, sink', hsinks, ?_⟩
    intro x
    rw [← hb0head, hh']
    exact hval x

end ForML.Flow.PyFunc
