/-
C03 — helper lemmas, part 5: `payload.MapReduce.compose`.

The loop over the mappers keeps `MRInv`: the two reducers are recorded but not yet live, their first `done.length`
input ports are subscribed to live appliers carrying `applied m (state of m) (apply / train features)`, the other
ports are free, and the trainings recorded so far are those of the stateful mappers processed.
-/
import ForML.Lemmas.C03Ops

namespace ForML.Compose

structure MRInv (gL : Graph) (WL : World) (left : Trunk) (R : Nat) (N reducer : Nat) (va vt : Val) (st : Actor → Val)
    (g : Graph) (W : World) (done : List Actor) (insA insT : Nat → PubRef) : Prop where
  inv : Inv g W
  frame : Frame gL g
  agree : Agree gL.next WL W
  next_ge : gL.next + 3 ≤ g.next
  kA : g.kindOf gL.next = some (.worker (gL.next + 1) ⟨reducer, false⟩ N 1)
  kT : g.kindOf (gL.next + 2) = some (.worker (gL.next + 1) ⟨reducer, false⟩ N 1)
  nlA : ¬ W.live gL.next
  nlT : ¬ W.live (gL.next + 2)
  inA : ∀ k, k < done.length → g.inputOf gL.next k = some (insA k) ∧ RefOk W (insA k) (R + 1)
  inT : ∀ k, k < done.length → g.inputOf (gL.next + 2) k = some (insT k) ∧ RefOk W (insT k) (R + 1)
  freeA : ∀ k, done.length ≤ k → g.inputOf gL.next k = none
  freeT : ∀ k, done.length ≤ k → g.inputOf (gL.next + 2) k = none
  valA : (List.range done.length).map (fun k => W.σ (insA k)) = done.map (fun m => applied m (st m) va)
  valT : (List.range done.length).map (fun k => W.σ (insT k)) = done.map (fun m => applied m (st m) vt)
  workers : ∀ n, gL.next ≤ n → W.live n → ¬ g.isOpen n
  trains : ∃ ts, g.trains = gL.trains ++ ts ∧ (∀ t ∈ ts, W.live t.train.node ∧ W.live t.label.node) ∧
    ts.map (trainedUnder W) = (done.filter (·.stateful)).map (fun m => (m.tag, st m))
  fresh : ∀ n, gL.next ≤ n → W.live n → ∀ gid a i o, g.kindOf n = some (.worker gid a i o) → gL.next ≤ gid
  wired : Wired g
  rankNew : ∀ n, gL.next ≤ n → W.live n → W.h n = R
  /-- every subscription of a node created here: a reducer port, or an applier fed by the left apply / train tail -/
  cls : ∀ n k q, gL.next ≤ n → g.inputOf n k = some q →
    (n = gL.next ∧ k < done.length ∧ q = insA k) ∨ (n = gL.next + 2 ∧ k < done.length ∧ q = insT k) ∨
    (n ≠ gL.next ∧ n ≠ gL.next + 2 ∧ W.live n ∧ q = left.apply.publisher ∧
      ∀ k' q', g.inputOf n k' = some q' → q' = left.apply.publisher) ∨
    (n ≠ gL.next ∧ n ≠ gL.next + 2 ∧ W.live n ∧ q = left.train.publisher ∧
      ∀ k' q', g.inputOf n k' = some q' → q' = left.train.publisher)
  srcA : ∀ k, k < done.length → gL.next + 3 ≤ (insA k).node ∧ g.inputOf (insA k).node 0 = some left.apply.publisher
  srcT : ∀ k, k < done.length → gL.next + 3 ≤ (insT k).node ∧ g.inputOf (insT k).node 0 = some left.train.publisher

theorem range_map_update {α} (n : Nat) (f : Nat → α) (x : α) :
    (List.range (n + 1)).map (fun k => if k = n then x else f k) = (List.range n).map f ++ [x] := by
  rw [List.range_succ, List.map_append]
  congr 1
  · apply List.map_congr_left
    intro k hk
    have : k ≠ n := by have := List.mem_range.mp hk; omega
    simp [this]
  · simp

theorem mr_loop {gL : Graph} {WL : World} (hiL : Inv gL WL) (left : Trunk) (R : Nat) (hRle : R ≤ gL.next)
    (N reducer : Nat) (va vt vl : Val)
    (hla : WL.live left.apply.tail ∧ WL.σ ⟨left.apply.tail, 0⟩ = va)
    (hlt : WL.live left.train.tail ∧ WL.σ ⟨left.train.tail, 0⟩ = vt)
    (hll : WL.live left.label.tail ∧ WL.σ ⟨left.label.tail, 0⟩ = vl)
    (hra : WL.h left.apply.tail < R) (hrt : WL.h left.train.tail < R) (hrl : WL.h left.label.tail < R) :
    ∀ (ms : List Actor) (g : Graph) (W : World) (done : List Actor) (insA insT : Nat → PubRef),
      MRInv gL WL left R N reducer va vt (fun m => trainedState m vt vl) g W done insA insT →
      ∃ g' W' insA' insT',
        Run (mapReduceLoop left ⟨gL.next, gL.next + 1, ⟨reducer, false⟩, N, 1⟩
          ⟨gL.next + 2, gL.next + 1, ⟨reducer, false⟩, N, 1⟩ done.length ms) g () g' ∧
        MRInv gL WL left R N reducer va vt (fun m => trainedState m vt vl) g' W' (done ++ ms) insA' insT' := by
  intro ms
  induction ms with
  | nil =>
    intro g W done insA insT h
    exact ⟨g, W, insA, insT, rfl, by simpa using h⟩
  | cons m rest ih =>
    intro g W done insA insT h
    -- the three tails of the left trunk, seen from `W`
    have hltL : ∀ n, WL.live n → n < gL.next := fun n hn => (hiL.liveLt n hn).1
    have hltW : ∀ n, W.live n → n < g.next := fun n hn => (h.inv.liveLt n hn).1
    have tail : ∀ (u : Nat) (v : Val), WL.live u → WL.σ ⟨u, 0⟩ = v → WL.h u < R →
        RefOk W ⟨u, 0⟩ R ∧ W.σ ⟨u, 0⟩ = v := by
      intro u v hl hv hr
      obtain ⟨a1, a2, a3⟩ := h.agree u (hltL u hl)
      exact ⟨⟨a1.mpr hl, by rw [a2]; exact hr⟩, by rw [a3 0]; exact hv⟩
    obtain ⟨ra, wa⟩ := tail _ _ hla.1 hla.2 hra
    obtain ⟨rt, wt⟩ := tail _ _ hlt.1 hlt.2 hrt
    obtain ⟨rl, wl⟩ := tail _ _ hll.1 hll.2 hrl
    have hge := h.next_ge
    have hb := h.inv.bounded
    have hk0 : ∀ u, g.next ≤ u → g.kindOf u = none := fun u hu => hb.kindOf_none hu
    have hin0 : ∀ u k, g.next ≤ u → g.inputOf u k = none := fun u k hu => hb.inputOf_none hu k
    have htr0 : ∀ u, g.next ≤ u → g.trainerOf u = none := fun u hu => hb.trainerOf_none hu
    let aA : WRef := ⟨g.next, g.next + 1, m, 1, 1⟩
    let T : Training := ⟨g.next + 1, g.next + 3, m, left.train.publisher, left.label.publisher⟩
    let ga := g.bump.bump.pushNode ⟨g.next, .worker (g.next + 1) m 1 1⟩
    let gb := ga.pushEdge ⟨g.next, 0, left.apply.publisher⟩
    let gc := gb.bump.pushNode ⟨g.next + 2, .worker (g.next + 1) m 1 1⟩
    let gd := gc.pushEdge ⟨g.next + 2, 0, left.train.publisher⟩
    let ge := trainIf m.stateful aA left.train.publisher left.label.publisher gd
    let gf := ge.pushEdge ⟨gL.next, done.length, ⟨g.next, 0⟩⟩
    let gg := gf.pushEdge ⟨gL.next + 2, done.length, ⟨g.next + 2, 0⟩⟩
    have hnd : gd.next = g.next + 3 := rfl
    have hne : g.next + 3 ≤ ge.next := by
      show gd.next ≤ _
      exact trainIf_next_ge _ _ _ _ _
    have hne' : ge.next ≤ g.next + 4 := by
      have := trainIf_next m.stateful aA left.train.publisher left.label.publisher gd
      show (trainIf m.stateful aA left.train.publisher left.label.publisher gd).next ≤ _
      rw [this, hnd]; split <;> omega
    have hbd : Bounded gd :=
      (((hb.bump.bump.pushNode _ (by gnext) (by intro _ _ _ _ h; cases h; gnext)).pushEdge _ (by gnext)).bump.pushNode _
        (by gnext) (by intro _ _ _ _ h; cases h; gnext)).pushEdge _ (by gnext)
    have hbe : Bounded ge := trainIf_bounded hbd (by show g.next + 1 < gd.next; omega)
    have hfd : Frame g gd :=
      ((((Frame.refl g).bump.bump.pushNode _ (Nat.le_refl _)).pushEdge _ (Nat.le_refl _)).bump.pushNode _
        (by gnext)).pushEdge _ (by gnext)
    have hfe : Frame g ge := trainIf_frame hfd (by show g.next ≤ g.next + 1; omega)
    -- lookups in `gd`
    have kd_u : gd.kindOf g.next = some (.worker (g.next + 1) m 1 1) := by glook [hk0]
    have kd_u2 : gd.kindOf (g.next + 2) = some (.worker (g.next + 1) m 1 1) := by glook [hk0]
    have kd_old : ∀ x, x < g.next → gd.kindOf x = g.kindOf x := fun x hx => hfd.kind x hx
    have id_u : gd.inputOf g.next 0 = some left.apply.publisher := by glook [hin0]
    have id_u2 : gd.inputOf (g.next + 2) 0 = some left.train.publisher := by glook [hin0]
    have td : ∀ x, g.next ≤ x → gd.trainerOf x = none := by intro x hx; glook [htr0]
    -- lookups in `gg`
    have kg : ∀ x, x ≠ g.next + 3 → gg.kindOf x = gd.kindOf x := by
      intro x hx
      show ge.kindOf x = _
      exact trainIf_kindOf x (by rw [hnd]; exact hx)
    have ig : ∀ x k, gg.inputOf x k =
        ((gd.inputOf x k).or (if gL.next = x ∧ done.length = k then some ⟨g.next, 0⟩ else none)).or
          (if gL.next + 2 = x ∧ done.length = k then some ⟨g.next + 2, 0⟩ else none) := by
      intro x k
      show (gf.pushEdge _).inputOf x k = _
      rw [inputOf_pushEdge]
      show ((ge.pushEdge _).inputOf x k).or _ = _
      rw [inputOf_pushEdge, trainIf_inputOf]
    have tg : ∀ gid, gg.trainerOf gid =
        (gd.trainerOf gid).or (if m.stateful = true ∧ g.next + 1 = gid then some T else none) := by
      intro gid
      show ge.trainerOf gid = _
      exact trainIf_trainerOf _ _ _ _ _ gid
    have hngg : gg.next = ge.next := rfl
    have fr_b : ga.inputOf g.next 0 = none := by glook [hin0]
    have fr_d : gc.inputOf (g.next + 2) 0 = none := by
      glook [hin0] <;> omega
    have fr_f : ge.inputOf gL.next done.length = none := by
      show (trainIf _ _ _ _ gd).inputOf _ _ = none
      rw [trainIf_inputOf, hfd.input _ _ (by omega)]
      exact h.freeA _ (Nat.le_refl _)
    have fr_g : gf.inputOf (gL.next + 2) done.length = none := by
      show (ge.pushEdge _).inputOf (gL.next + 2) done.length = none
      rw [inputOf_pushEdge]
      show ((trainIf _ _ _ _ gd).inputOf _ _).or _ = none
      rw [trainIf_inputOf, hfd.input _ _ (by omega), h.freeT _ (Nat.le_refl _)]
      have : ¬ (gL.next = gL.next + 2 ∧ done.length = done.length) := by omega
      simp [this]
    have hltLa : left.apply.tail < g.next := hltW _ ra.1
    have hltLt : left.train.tail < g.next := hltW _ rt.1
    have hwgg : Wired gg := by
      have w1 : Wired gd :=
        (((h.wired.bump.bump.pushNode _).pushEdge _ (by show left.apply.tail < g.next + 1 + 1; omega) fr_b).bump.pushNode _).pushEdge _
          (by show left.train.tail < g.next + 1 + 1 + 1; omega) fr_d
      have w2 : Wired ge := trainIf_wired w1
      exact (w2.pushEdge _ (by show g.next < ge.next; omega) fr_f).pushEdge _ (by show g.next + 2 < ge.next; omega) fr_g
    -- every input in the extended graph
    have gd_in : ∀ x k, gd.inputOf x k =
        if g.next = x ∧ 0 = k then some left.apply.publisher
        else if g.next + 2 = x ∧ 0 = k then some left.train.publisher else g.inputOf x k := by
      intro x k
      have e : gd.inputOf x k = ((g.inputOf x k).or (if g.next = x ∧ 0 = k then some left.apply.publisher else none)).or
          (if g.next + 2 = x ∧ 0 = k then some left.train.publisher else none) := by
        show (gc.pushEdge _).inputOf x k = _
        rw [inputOf_pushEdge]
        show ((gb.bump.pushNode _).inputOf x k).or _ = _
        rw [inputOf_pushNode, inputOf_bump]
        show ((ga.pushEdge _).inputOf x k).or _ = _
        rw [inputOf_pushEdge]
        rfl
      rw [e]
      by_cases h1 : g.next = x ∧ 0 = k
      · obtain ⟨rfl, rfl⟩ := h1; rw [hin0 _ _ (Nat.le_refl _)]; simp
      · by_cases h2 : g.next + 2 = x ∧ 0 = k
        · obtain ⟨rfl, rfl⟩ := h2; rw [hin0 _ _ (by omega)]; simp
        · simp [h1, h2]
    have gg_old : ∀ n k, n ≠ g.next → n ≠ g.next + 2 → n ≠ gL.next → n ≠ gL.next + 2 → gg.inputOf n k = g.inputOf n k := by
      intro n k n1 n2 n3 n4
      have c1 : ¬ (g.next = n ∧ 0 = k) := fun e => n1 e.1.symm
      have c2 : ¬ (g.next + 2 = n ∧ 0 = k) := fun e => n2 e.1.symm
      have c3 : ¬ (gL.next = n ∧ done.length = k) := fun e => n3 e.1.symm
      have c4 : ¬ (gL.next + 2 = n ∧ done.length = k) := fun e => n4 e.1.symm
      rw [ig, gd_in]; simp [c1, c2, c3, c4]
    have gg_u : ∀ k q, gg.inputOf g.next k = some q → q = left.apply.publisher := by
      intro k q hq
      have c3 : ¬ (gL.next = g.next ∧ done.length = k) := by omega
      have c4 : ¬ (gL.next + 2 = g.next ∧ done.length = k) := by omega
      rw [ig, gd_in, if_neg c3, if_neg c4] at hq
      by_cases hk : 0 = k
      · rw [if_pos ⟨rfl, hk⟩] at hq
        simp at hq; exact hq.symm
      · rw [if_neg (fun e => hk e.2), if_neg (fun e => hk e.2), hin0 g.next k (Nat.le_refl _)] at hq
        simp at hq
    have gg_u2 : ∀ k q, gg.inputOf (g.next + 2) k = some q → q = left.train.publisher := by
      intro k q hq
      have c1 : ¬ (g.next = g.next + 2 ∧ 0 = k) := by omega
      have c3 : ¬ (gL.next = g.next + 2 ∧ done.length = k) := by omega
      have c4 : ¬ (gL.next + 2 = g.next + 2 ∧ done.length = k) := by omega
      rw [ig, gd_in, if_neg c3, if_neg c4, if_neg c1] at hq
      by_cases hk : 0 = k
      · rw [if_pos ⟨rfl, hk⟩] at hq
        simp at hq; exact hq.symm
      · rw [if_neg (fun e => hk e.2), hin0 (g.next + 2) k (by omega)] at hq
        simp at hq
    have gg_mono : ∀ n k q, g.inputOf n k = some q → gg.inputOf n k = some q := by
      intro n k q hq
      have hn : n < g.next := by
        have := hb.edgesLt _ (inputOf_mem hq); exact this
      have c1 : ¬ (g.next = n ∧ 0 = k) := by omega
      have c2 : ¬ (g.next + 2 = n ∧ 0 = k) := by omega
      rw [ig, gd_in]; simp [c1, c2, hq]
    -- the run up to the recursive call
    have hrun : ∀ g'', Run (mapReduceLoop left ⟨gL.next, gL.next + 1, ⟨reducer, false⟩, N, 1⟩
          ⟨gL.next + 2, gL.next + 1, ⟨reducer, false⟩, N, 1⟩ (done.length + 1) rest) gg () g'' →
        Run (mapReduceLoop left ⟨gL.next, gL.next + 1, ⟨reducer, false⟩, N, 1⟩
          ⟨gL.next + 2, gL.next + 1, ⟨reducer, false⟩, N, 1⟩ done.length (m :: rest)) g () g'' := by
      intro g'' hrest
      unfold mapReduceLoop
      refine Run.bind (run_newWorker m 1 1 g) (Run.bind (run_subscribe _ _ _ ga fr_b) (Run.bind (run_fork aA gb)
        (Run.bind (run_subscribe _ _ _ gc fr_d) ?_)))
      refine run_trainIf m.stateful aA _ _ gd _ () g'' (fun h => h) (fun _ => td _ (by show g.next ≤ g.next + 1; omega)) ?_
      exact Run.bind (run_subscribe _ _ _ ge fr_f) (Run.bind (run_subscribe _ _ _ gf fr_g) hrest)
    -- certified valuation of the extended graph
    have hnlW : ∀ x, g.next ≤ x → ¬ W.live x := fun x hx hl => by have := hltW x hl; omega
    have hie : Inv ge W := h.inv.ofFrame hfe hbe
    have hif : Inv gf W := hie.pushEdge_notLive _ h.nlA (by show gL.next < ge.next; omega)
    have hig : Inv gg W := hif.pushEdge_notLive _ h.nlT (by show gL.next + 2 < ge.next; omega)
    have stW : StateFor gg W (g.next + 1) m R (trainedState m vt vl) := by
      by_cases hsf : m.stateful = true
      · have ht : gg.trainerOf (g.next + 1) = some T := by
          rw [tg, td _ (by omega)]; simp [hsf]
        have := StateFor.trained (g := gg) (W := W) (a := m) (r := R) ht hsf rt rl
        simp only [trainedState, hsf, if_true]
        show StateFor gg W (g.next + 1) m R (.state m.tag .none vt vl)
        have e1 : W.σ T.train = vt := wt
        have e2 : W.σ T.label = vl := wl
        rw [e1, e2] at this
        exact this
      · have hsf' : m.stateful = false := by simpa using hsf
        simp only [trainedState, hsf']
        exact StateFor.stateless hsf'
    have kgu : gg.kindOf g.next = some (.worker (g.next + 1) m 1 1) := by rw [kg _ (by omega)]; exact kd_u
    have kgu2 : gg.kindOf (g.next + 2) = some (.worker (g.next + 1) m 1 1) := by rw [kg _ (by omega)]; exact kd_u2
    have igu : gg.inputOf g.next 0 = some left.apply.publisher := by rw [ig, id_u]; simp
    have igu2 : gg.inputOf (g.next + 2) 0 = some left.train.publisher := by rw [ig, id_u2]; simp
    have hrk : R < gg.next := by rw [hngg]; omega
    have hi1 := hig.liveUnary g.next (g.next + 1) m left.apply.publisher R (trainedState m vt vl) kgu
      (hnlW _ (Nat.le_refl _)) hrk igu ra stW
    let W1 := W.set g.next (fun _ => .apply m.tag (trainedState m vt vl) [W.σ left.apply.publisher]) R
    have hnl1 : ¬ W1.live (g.next + 2) := by
      intro hl; rcases hl with hl | hl
      · omega
      · exact hnlW _ (by omega) hl
    have lift1 : ∀ q : PubRef, ∀ r', RefOk W q r' → RefOk W1 q r' := by
      intro q r' hq
      have : q.node ≠ g.next := fun e => hnlW _ (Nat.le_refl _) (e ▸ hq.1)
      exact ⟨Or.inr hq.1, by show (W.set _ _ _).h q.node < r'; rw [set_h_other _ _ _ _ _ this]; exact hq.2⟩
    have σ1 : ∀ q : PubRef, W.live q.node → W1.σ q = W.σ q := by
      intro q hq
      have : q.node ≠ g.next := fun e => hnlW _ (Nat.le_refl _) (e ▸ hq)
      exact set_σ_other _ _ _ _ _ this
    have hi2 := hi1.liveUnary (g.next + 2) (g.next + 1) m left.train.publisher R (trainedState m vt vl) kgu2
      hnl1 hrk igu2 (lift1 _ _ rt) (stW.set _ _ _ (hnlW _ (Nat.le_refl _)))
    let W2 := W1.set (g.next + 2) (fun _ => .apply m.tag (trainedState m vt vl) [W1.σ left.train.publisher]) R
    have lift2 : ∀ q : PubRef, ∀ r', RefOk W q r' → RefOk W2 q r' := by
      intro q r' hq
      have h1 := lift1 q r' hq
      have : q.node ≠ g.next + 2 := fun e => hnlW _ (by omega) (e ▸ hq.1)
      exact ⟨Or.inr h1.1, by show (W1.set _ _ _).h q.node < r'; rw [set_h_other _ _ _ _ _ this]; exact h1.2⟩
    have σ2 : ∀ q : PubRef, W.live q.node → W2.σ q = W.σ q := by
      intro q hq
      have : q.node ≠ g.next + 2 := fun e => hnlW _ (by omega) (e ▸ hq)
      show (W1.set _ _ _).σ q = _
      rw [set_σ_other _ _ _ _ _ this]
      exact σ1 q hq
    have σ2u : W2.σ ⟨g.next, 0⟩ = applied m (trainedState m vt vl) va := by
      show (W1.set _ _ _).σ ⟨g.next, 0⟩ = _
      rw [set_σ_other _ _ _ _ _ (by show g.next ≠ g.next + 2; omega)]
      show (W.set _ _ _).σ ⟨g.next, 0⟩ = _
      rw [set_σ_self]
      have : W.σ left.apply.publisher = va := wa
      rw [this]; rfl
    have σ2u2 : W2.σ ⟨g.next + 2, 0⟩ = applied m (trainedState m vt vl) vt := by
      show (W1.set _ _ _).σ ⟨g.next + 2, 0⟩ = _
      rw [set_σ_self]
      have : W1.σ left.train.publisher = vt := by
        show W1.σ ⟨left.train.tail, 0⟩ = vt
        rw [σ1 _ rt.1]; exact wt
      rw [this]; rfl
    have live2 : ∀ x, W2.live x ↔ (x = g.next + 2 ∨ x = g.next ∨ W.live x) := fun x => Iff.rfl
    have h2u : W2.h g.next = R := by
      show (W1.set _ _ _).h g.next = _
      rw [set_h_other _ _ _ _ _ (by omega)]
      show (W.set _ _ _).h g.next = _
      rw [set_h_self]
    have h2u2 : W2.h (g.next + 2) = R := by
      show (W1.set _ _ _).h (g.next + 2) = _
      rw [set_h_self]
    -- the invariant for the rest of the loop
    have gdin : ∀ x k, x < g.next → gd.inputOf x k = g.inputOf x k := fun x k hx => hfd.input x k hx
    have ndl : ¬ (gL.next + 2 = gL.next ∧ done.length = done.length) := by omega
    have ndl' : ¬ (gL.next = gL.next + 2 ∧ done.length = done.length) := by omega
    have hnext : MRInv gL WL left R N reducer va vt (fun m => trainedState m vt vl) gg W2 (done ++ [m])
        (fun k => if k = done.length then ⟨g.next, 0⟩ else insA k)
        (fun k => if k = done.length then ⟨g.next + 2, 0⟩ else insT k) := by
      refine ⟨hi2, ((h.frame.trans hfe).pushEdge _ (Nat.le_refl _)).pushEdge _ (by show gL.next ≤ gL.next + 2; omega),
        (h.agree.set _ _ _ (by omega)).set _ _ _ (by omega), by rw [hngg]; omega, ?_, ?_, ?_, ?_, ?_, ?_, ?_, ?_, ?_, ?_,
        ?_, ?_, ?_, hwgg, ?_, ?_, ?_, ?_⟩
      · rw [kg _ (by omega), kd_old _ (by omega)]; exact h.kA
      · rw [kg _ (by omega), kd_old _ (by omega)]; exact h.kT
      · intro hl; rcases (live2 _).mp hl with hl | hl | hl
        · omega
        · omega
        · exact h.nlA hl
      · intro hl; rcases (live2 _).mp hl with hl | hl | hl
        · omega
        · omega
        · exact h.nlT hl
      · intro k hk
        rw [List.length_append, List.length_singleton] at hk
        by_cases hkd : k = done.length
        · subst hkd
          simp only [↓reduceIte]
          refine ⟨?_, (live2 _).mpr (Or.inr (Or.inl rfl)), by rw [h2u]; omega⟩
          rw [ig, gdin _ _ (by omega), h.freeA _ (Nat.le_refl _)]
          simp
        · have hk' : k < done.length := by omega
          obtain ⟨i1, i2⟩ := h.inA k hk'
          simp only [hkd, if_false]
          refine ⟨?_, lift2 _ _ i2⟩
          rw [ig, gdin _ _ (by omega), i1]
          simp
      · intro k hk
        rw [List.length_append, List.length_singleton] at hk
        by_cases hkd : k = done.length
        · subst hkd
          simp only [↓reduceIte]
          refine ⟨?_, (live2 _).mpr (Or.inl rfl), by rw [h2u2]; omega⟩
          rw [ig, gdin _ _ (by omega), h.freeT _ (Nat.le_refl _)]
          simp [ndl']
        · have hk' : k < done.length := by omega
          obtain ⟨i1, i2⟩ := h.inT k hk'
          simp only [hkd, if_false]
          refine ⟨?_, lift2 _ _ i2⟩
          rw [ig, gdin _ _ (by omega), i1]
          simp
      · intro k hk
        rw [List.length_append, List.length_singleton] at hk
        rw [ig, gdin _ _ (by omega), h.freeA _ (by omega)]
        have c1 : ¬ done.length = k := by omega
        have c2 : ¬ (gL.next + 2 = gL.next ∧ done.length = k) := by omega
        simp [c1, c2]
      · intro k hk
        rw [List.length_append, List.length_singleton] at hk
        rw [ig, gdin _ _ (by omega), h.freeT _ (by omega)]
        have c1 : ¬ (gL.next = gL.next + 2 ∧ done.length = k) := by omega
        have c2 : ¬ done.length = k := by omega
        simp [c1, c2]
      · rw [List.length_append, List.length_singleton, List.map_append, ← h.valA]
        have : (fun k => W2.σ (if k = done.length then (⟨g.next, 0⟩ : PubRef) else insA k)) =
            (fun k => if k = done.length then W2.σ ⟨g.next, 0⟩ else W2.σ (insA k)) := by
          funext k; split <;> rfl
        rw [this, range_map_update, σ2u]
        congr 1
        apply List.map_congr_left
        intro k hk
        exact σ2 _ (h.inA k (List.mem_range.mp hk)).2.1
      · rw [List.length_append, List.length_singleton, List.map_append, ← h.valT]
        have : (fun k => W2.σ (if k = done.length then (⟨g.next + 2, 0⟩ : PubRef) else insT k)) =
            (fun k => if k = done.length then W2.σ ⟨g.next + 2, 0⟩ else W2.σ (insT k)) := by
          funext k; split <;> rfl
        rw [this, range_map_update, σ2u2]
        congr 1
        apply List.map_congr_left
        intro k hk
        exact σ2 _ (h.inT k (List.mem_range.mp hk)).2.1
      · intro n hn hl ho
        rcases (live2 _).mp hl with hl | hl | hl
        · subst hl; rw [Graph.isOpen, kgu2] at ho; cases ho.1
        · subst hl; rw [Graph.isOpen, kgu] at ho; cases ho.1
        · have hnlt := hltW n hl
          apply h.workers n hn hl
          refine ⟨?_, ?_⟩
          · rw [← kd_old n hnlt, ← kg n (by omega)]; exact ho.1
          · have := ho.2
            rw [ig, gdin _ _ hnlt] at this
            cases hin : g.inputOf n 0 with
            | none => rfl
            | some q => rw [hin] at this; simp at this
      · obtain ⟨ts, e, l, mm⟩ := h.trains
        refine ⟨ts ++ (if m.stateful then [T] else []), ?_, ?_, ?_⟩
        · show ge.trains = _
          rw [show ge.trains = gd.trains ++ _ from trainIf_trains _ _ _ _ _]
          show g.trains ++ _ = _
          rw [e, List.append_assoc]
          rfl
        · intro t ht
          rcases List.mem_append.mp ht with ht | ht
          · obtain ⟨x1, x2⟩ := l t ht
            exact ⟨(live2 _).mpr (Or.inr (Or.inr x1)), (live2 _).mpr (Or.inr (Or.inr x2))⟩
          · by_cases hsf : m.stateful = true
            · simp only [hsf, if_true, List.mem_singleton] at ht
              subst ht
              exact ⟨(live2 _).mpr (Or.inr (Or.inr rt.1)), (live2 _).mpr (Or.inr (Or.inr rl.1))⟩
            · simp [hsf] at ht
        · rw [List.map_append, List.filter_append, List.map_append]
          congr 1
          · rw [← mm]
            apply List.map_congr_left
            intro t ht
            obtain ⟨x1, x2⟩ := l t ht
            unfold trainedUnder
            rw [σ2 _ x1, σ2 _ x2]
          · by_cases hsf : m.stateful = true
            · simp only [hsf, if_true, List.map_cons, List.map_nil, List.filter_cons, List.filter_nil, trainedUnder,
                trainedState]
              have e1 : W2.σ T.train = vt := by
                show W2.σ ⟨left.train.tail, 0⟩ = vt
                rw [σ2 _ rt.1]; exact wt
              have e2 : W2.σ T.label = vl := by
                show W2.σ ⟨left.label.tail, 0⟩ = vl
                rw [σ2 _ rl.1]; exact wl
              rw [e1, e2]
            · simp [hsf]
      · intro n hn hl gid a i o hk
        rcases (live2 _).mp hl with hl | hl | hl
        · subst hl; rw [kgu2] at hk; cases hk; omega
        · subst hl; rw [kgu] at hk; cases hk; omega
        · have hnlt := hltW n hl
          rw [kg n (by omega), kd_old n hnlt] at hk
          exact h.fresh n hn hl gid a i o hk
      · -- ranks of the live new nodes
        intro n hn hl
        rcases (live2 _).mp hl with hl | hl | hl
        · subst hl; exact h2u2
        · subst hl; exact h2u
        · have e1 : n ≠ g.next := fun e => hnlW _ (Nat.le_refl _) (e ▸ hl)
          have e2 : n ≠ g.next + 2 := fun e => hnlW _ (by omega) (e ▸ hl)
          show (W1.set _ _ _).h n = R
          rw [set_h_other _ _ _ _ _ e2]
          show (W.set _ _ _).h n = R
          rw [set_h_other _ _ _ _ _ e1]
          exact h.rankNew n hn hl
      · -- classification of the subscriptions
        intro n k q hn hq
        by_cases e1 : n = g.next
        · subst e1
          refine Or.inr (Or.inr (Or.inl ⟨by omega, by omega, (live2 _).mpr (Or.inr (Or.inl rfl)), gg_u k q hq, gg_u⟩))
        · by_cases e2 : n = g.next + 2
          · subst e2
            exact Or.inr (Or.inr (Or.inr ⟨by omega, by omega, (live2 _).mpr (Or.inl rfl), gg_u2 k q hq, gg_u2⟩))
          · by_cases e3 : n = gL.next
            · subst e3
              rw [List.length_append, List.length_singleton]
              by_cases hk : k = done.length
              · subst hk
                rw [ig, gdin _ _ (by omega), h.freeA _ (Nat.le_refl _)] at hq
                simp at hq
                exact Or.inl ⟨rfl, by omega, by simp [hq]⟩
              · have c3 : ¬ (gL.next = gL.next ∧ done.length = k) := fun e => hk e.2.symm
                have c4 : ¬ (gL.next + 2 = gL.next ∧ done.length = k) := by omega
                rw [ig, gdin _ _ (by omega), if_neg c3, if_neg c4] at hq
                simp at hq
                rcases h.cls _ k q (Nat.le_refl _) hq with ⟨_, hk', hq'⟩ | ⟨hx, _⟩ | ⟨hx, _⟩ | ⟨hx, _⟩
                · exact Or.inl ⟨rfl, by omega, by simp [hk, hq']⟩
                · omega
                · exact absurd rfl hx
                · exact absurd rfl hx
            · by_cases e4 : n = gL.next + 2
              · subst e4
                rw [List.length_append, List.length_singleton]
                by_cases hk : k = done.length
                · subst hk
                  rw [ig, gdin _ _ (by omega), h.freeT _ (Nat.le_refl _)] at hq
                  simp [ndl'] at hq
                  exact Or.inr (Or.inl ⟨rfl, by omega, by simp [hq]⟩)
                · have c3 : ¬ (gL.next = gL.next + 2 ∧ done.length = k) := by omega
                  have c4 : ¬ (gL.next + 2 = gL.next + 2 ∧ done.length = k) := fun e => hk e.2.symm
                  rw [ig, gdin _ _ (by omega), if_neg c3, if_neg c4] at hq
                  simp at hq
                  rcases h.cls _ k q (by omega) hq with ⟨hx, _⟩ | ⟨_, hk', hq'⟩ | ⟨_, hx, _⟩ | ⟨_, hx, _⟩
                  · omega
                  · exact Or.inr (Or.inl ⟨rfl, by omega, by simp [hk, hq']⟩)
                  · exact absurd rfl hx
                  · exact absurd rfl hx
              · rw [gg_old n k e1 e2 e3 e4] at hq
                rcases h.cls n k q hn hq with ⟨hx, _⟩ | ⟨hx, _⟩ | ⟨_, _, hl, hq', hall⟩ | ⟨_, _, hl, hq', hall⟩
                · exact absurd hx e3
                · exact absurd hx e4
                · refine Or.inr (Or.inr (Or.inl ⟨e3, e4, (live2 _).mpr (Or.inr (Or.inr hl)), hq', ?_⟩))
                  intro k' q' hq''
                  rw [gg_old n k' e1 e2 e3 e4] at hq''
                  exact hall k' q' hq''
                · refine Or.inr (Or.inr (Or.inr ⟨e3, e4, (live2 _).mpr (Or.inr (Or.inr hl)), hq', ?_⟩))
                  intro k' q' hq''
                  rw [gg_old n k' e1 e2 e3 e4] at hq''
                  exact hall k' q' hq''
      · intro k hk
        rw [List.length_append, List.length_singleton] at hk
        by_cases hkd : k = done.length
        · subst hkd
          simp only [↓reduceIte]
          exact ⟨by omega, igu⟩
        · simp only [hkd, if_false]
          obtain ⟨c1, c2⟩ := h.srcA k (by omega)
          exact ⟨c1, gg_mono _ _ _ c2⟩
      · intro k hk
        rw [List.length_append, List.length_singleton] at hk
        by_cases hkd : k = done.length
        · subst hkd
          simp only [↓reduceIte]
          exact ⟨by show gL.next + 3 ≤ g.next + 2; omega, igu2⟩
        · simp only [hkd, if_false]
          obtain ⟨c1, c2⟩ := h.srcT k (by omega)
          exact ⟨c1, gg_mono _ _ _ c2⟩
    obtain ⟨g', W', insA', insT', hrest, hfin⟩ := ih gg W2 (done ++ [m]) _ _ hnext
    have e : (done ++ [m]).length = done.length + 1 := by simp
    rw [e] at hrest
    exact ⟨g', W', insA', insT', hrun g' hrest, by simpa [List.append_assoc] using hfin⟩

theorem spec_mapreduce {full : Prop} {scope : GraphM Trunk} {S : Scope} (hs : Spec full scope S) (ms : List Actor)
    (hms : ms ≠ []) (reducer : Nat) : Spec full (composeMapReduce ms reducer scope) (denoteMapReduce ms reducer S) := by
  intro g W xa xt xl r hi hw hr
  obtain ⟨left, g1, W1, hrun1, h1⟩ := hs g W xa xt xl r hi hw hr
  have hgg := h1.frame.next_le
  obtain ⟨R, hR⟩ : ∃ R, R = r + (g1.next - g.next) := ⟨_, rfl⟩
  have hRle : R ≤ g1.next := by omega
  let Rd : Actor := ⟨reducer, false⟩
  let g2 := g1.bump.bump.pushNode ⟨g1.next, .worker (g1.next + 1) Rd ms.length 1⟩
  let g3 := g2.bump.pushNode ⟨g1.next + 2, .worker (g1.next + 1) Rd ms.length 1⟩
  have hb1 := h1.inv.bounded
  have hk0 : ∀ u, g1.next ≤ u → g1.kindOf u = none := fun u hu => hb1.kindOf_none hu
  have hin0 : ∀ u k, g1.next ≤ u → g1.inputOf u k = none := fun u k hu => hb1.inputOf_none hu k
  have hb3 : Bounded g3 := (hb1.bump.bump.pushNode _ (by gnext) (by intro _ _ _ _ h; cases h; gnext)).bump.pushNode _
    (by gnext) (by intro _ _ _ _ h; cases h; gnext)
  have hf3 : Frame g1 g3 := ((Frame.refl g1).bump.bump.pushNode _ (Nat.le_refl _)).bump.pushNode _ (by gnext)
  have hnl : ∀ u, g1.next ≤ u → ¬ W1.live u := fun u hu h => by have := (h1.inv.liveLt u h).1; omega
  have hin3 : ∀ u k, g3.inputOf u k = g1.inputOf u k := fun u k => rfl
  have h0 : MRInv g1 W1 left R ms.length reducer (S xa xt xl).apply (S xa xt xl).train
      (fun m => trainedState m (S xa xt xl).train (S xa xt xl).label) g3 W1 [] (fun _ => default) (fun _ => default) := by
    refine ⟨h1.inv.ofFrame hf3 hb3, hf3, Agree.refl _ _, by show g1.next + 3 ≤ g1.next + 1 + 1 + 1; omega, ?_, ?_,
      hnl _ (Nat.le_refl _), hnl _ (by omega), ?_, ?_, ?_, ?_, rfl, rfl, ?_, ⟨[], ?_, ?_, rfl⟩, ?_,
      (h1.wired.bump.bump.pushNode _).bump.pushNode _, ?_, ?_, ?_, ?_⟩
    · glook [hk0]
    · glook [hk0]
    · intro k hk; cases hk
    · intro k hk; cases hk
    · intro k _; glook [hin0]
    · intro k _; glook [hin0]
    · intro n hn hl _; exact hnl n hn hl
    · show g1.trains = g1.trains ++ []
      simp
    · intro t ht; cases ht
    · intro n hn hl; exact absurd hl (hnl n hn)
    · intro n hn hl; exact absurd hl (hnl n hn)
    · intro n k q hn hq
      rw [hin3, hin0 n k hn] at hq; cases hq
    · intro k hk; cases hk
    · intro k hk; cases hk
  obtain ⟨g', W', insA, insT, hloop, h'⟩ := mr_loop h1.inv left R hRle ms.length reducer _ _ _ h1.ta h1.tt h1.tl
    (by rw [hR]; exact h1.rank _ h1.tails_ge.1 h1.ta.1) (by rw [hR]; exact h1.rank _ h1.tails_ge.2.1 h1.tt.1)
    (by rw [hR]; exact h1.rank _ h1.tails_ge.2.2 h1.tl.1) ms g3 W1 [] _ _ h0
  rw [List.nil_append] at h'
  have hrun : Run (composeMapReduce ms reducer scope) g
      ⟨⟨left.apply.head, g1.next⟩, ⟨left.train.head, g1.next + 2⟩, left.label⟩ g' := by
    unfold composeMapReduce
    exact Run.bind hrun1 (Run.bind (run_newWorker Rd ms.length 1 g1) (Run.bind (run_fork _ g2) (Run.bind hloop (Run.pure _ _))))
  have hge := h'.next_ge
  have hlen : 0 < ms.length := by
    cases ms with
    | nil => exact absurd rfl hms
    | cons _ _ => simp
  -- the two reducers become live
  have hiA := h'.inv.liveWorker g1.next (g1.next + 1) Rd ms.length 1 insA (R + 1) .none h'.kA h'.nlA (by omega)
    h'.inA (StateFor.stateless rfl)
  let WA := W'.set g1.next
    (fun i => portVal 1 i (.apply Rd.tag .none ((List.range ms.length).map (fun k => W'.σ (insA k))))) (R + 1)
  have hnlT : ¬ WA.live (g1.next + 2) := by
    intro hl; rcases hl with hl | hl
    · omega
    · exact h'.nlT hl
  have liftA : ∀ q : PubRef, ∀ r', RefOk W' q r' → RefOk WA q r' := by
    intro q r' hq
    have : q.node ≠ g1.next := fun e => h'.nlA (e ▸ hq.1)
    exact ⟨Or.inr hq.1, by show (W'.set _ _ _).h q.node < r'; rw [set_h_other _ _ _ _ _ this]; exact hq.2⟩
  have σA : ∀ q : PubRef, W'.live q.node → WA.σ q = W'.σ q := by
    intro q hq
    have : q.node ≠ g1.next := fun e => h'.nlA (e ▸ hq)
    exact set_σ_other _ _ _ _ _ this
  have hiT := hiA.liveWorker (g1.next + 2) (g1.next + 1) Rd ms.length 1 insT (R + 1) .none h'.kT hnlT (by omega)
    (fun k hk => ⟨(h'.inT k hk).1, liftA _ _ (h'.inT k hk).2⟩) (StateFor.stateless rfl)
  let WT := WA.set (g1.next + 2)
    (fun i => portVal 1 i (.apply Rd.tag .none ((List.range ms.length).map (fun k => WA.σ (insT k))))) (R + 1)
  have σT : ∀ q : PubRef, W'.live q.node → WT.σ q = W'.σ q := by
    intro q hq
    have : q.node ≠ g1.next + 2 := fun e => h'.nlT (e ▸ hq)
    show (WA.set _ _ _).σ q = _
    rw [set_σ_other _ _ _ _ _ this]
    exact σA q hq
  have hT : ∀ n, W'.live n → WT.h n = W'.h n := by
    intro n hn
    have e1 : n ≠ g1.next := fun e => h'.nlA (e ▸ hn)
    have e2 : n ≠ g1.next + 2 := fun e => h'.nlT (e ▸ hn)
    show (WA.set _ _ _).h n = _
    rw [set_h_other _ _ _ _ _ e2]
    show (W'.set _ _ _).h n = _
    rw [set_h_other _ _ _ _ _ e1]
  have liveT : ∀ x, WT.live x ↔ (x = g1.next + 2 ∨ x = g1.next ∨ W'.live x) := fun x => Iff.rfl
  have hlt' : ∀ n, W1.live n → n < g1.next := fun n hn => (h1.inv.liveLt n hn).1
  have old : ∀ u, W1.live u → WT.live u ∧ WT.σ ⟨u, 0⟩ = W1.σ ⟨u, 0⟩ := by
    intro u hu
    obtain ⟨a1, _, a3⟩ := h'.agree u (hlt' u hu)
    exact ⟨(liveT _).mpr (Or.inr (Or.inr (a1.mpr hu))), by rw [σT ⟨u, 0⟩ (a1.mpr hu)]; exact a3 0⟩
  -- reachability in the final graph
  have mono1 : ∀ s k q, g1.inputOf s k = some q → g'.inputOf s k = some q := h'.frame.input_mono hb1
  have reA : full → Reach g' left.apply.head left.apply.tail := fun hfull => (h1.regTail hfull).mono mono1
  have noT : full → ¬ Reach g' left.apply.head left.train.tail := fun hfull hre =>
    (h1.sep hfull).1 (Reach.old h'.frame h1.wired (hlt' _ h1.tt.1) hre)
  have reInsA : full → ∀ k, k < ms.length → Reach g' left.apply.head (insA k).node := fun hfull k hk =>
    Reach.one (reA hfull) (h'.srcA k hk).2
  have noInsT : full → ∀ k, k < ms.length → ¬ Reach g' left.apply.head (insT k).node := by
    intro hfull k hk hre
    obtain ⟨hx3, hx0⟩ := h'.srcT k hk
    have hne : (insT k).node ≠ left.apply.head := by
      have := (h1.inv.liveLt _ h1.ha.live).1; omega
    rcases hre.inv with e | ⟨k', q', hq', hr'⟩
    · exact hne e
    · rcases h'.cls _ k' q' (by omega) hq' with ⟨e, _, _⟩ | ⟨e, _, _⟩ | ⟨_, _, _, _, hall⟩ | ⟨_, _, _, hq'', _⟩
      · omega
      · omega
      · -- an applier of the train side fed by the apply tail: the two tails would coincide
        have e := hall 0 _ hx0
        have e' : left.train.tail = left.apply.tail := by
          have := congrArg PubRef.node e; exact this
        exact (h1.sep hfull).1 (e' ▸ h1.regTail hfull)
      · rw [hq''] at hr'
        exact noT hfull hr'
  have hinA0 : g'.inputOf g1.next 0 = some (insA 0) := (h'.inA 0 hlen).1
  have reRA : full → Reach g' left.apply.head g1.next := fun hfull => Reach.one (reInsA hfull 0 hlen) hinA0
  have noRT : full → ¬ Reach g' left.apply.head (g1.next + 2) := by
    intro hfull hre
    have hne : g1.next + 2 ≠ left.apply.head := by
      have := (h1.inv.liveLt _ h1.ha.live).1; omega
    rcases hre.inv with e | ⟨k', q', hq', hr'⟩
    · exact hne e
    · rcases h'.cls _ k' q' (by omega) hq' with ⟨e, _, _⟩ | ⟨_, hk', e⟩ | ⟨_, e, _⟩ | ⟨_, e, _⟩
      · omega
      · rw [e] at hr'; exact noInsT hfull k' hk' hr'
      · exact e rfl
      · exact e rfl
  refine ⟨_, g', WT, hrun, h1.step hiT h'.frame ((h'.agree.set _ _ _ (Nat.le_refl _)).set _ _ _ (by omega)) ?_
    ⟨⟨left.apply.head, g1.next⟩, ⟨left.train.head, g1.next + 2⟩, left.label⟩ rfl rfl rfl
    (denoteMapReduce ms reducer S xa xt xl) ?_ ?_ ?_ ?_ ?_ ?_⟩
  · intro n hn hl ho
    rcases (liveT _).mp hl with hl | hl | hl
    · subst hl; rw [Graph.isOpen, h'.kT] at ho; cases ho.1
    · subst hl; rw [Graph.isOpen, h'.kA] at ho; cases ho.1
    · exact h'.workers n hn hl ho
  · refine ⟨(liveT _).mpr (Or.inr (Or.inl rfl)), ?_⟩
    show (WA.set _ _ _).σ ⟨g1.next, 0⟩ = _
    rw [set_σ_other _ _ _ _ _ (by show g1.next ≠ g1.next + 2; omega)]
    show (W'.set _ _ _).σ ⟨g1.next, 0⟩ = _
    rw [set_σ_self, h'.valA]
    simp [portVal, denoteMapReduce, Rd]
  · refine ⟨(liveT _).mpr (Or.inl rfl), ?_⟩
    show (WA.set _ _ _).σ ⟨g1.next + 2, 0⟩ = _
    rw [set_σ_self]
    have : (List.range ms.length).map (fun k => WA.σ (insT k)) = (List.range ms.length).map (fun k => W'.σ (insT k)) := by
      apply List.map_congr_left
      intro k hk
      exact σA _ (h'.inT k (List.mem_range.mp hk)).2.1
    rw [this, h'.valT]
    simp [portVal, denoteMapReduce, Rd]
  · obtain ⟨l1, l2⟩ := old _ h1.tl.1
    exact ⟨l1, by rw [l2]; exact h1.tl.2⟩
  · obtain ⟨ts, e, l, mm⟩ := h'.trains
    refine ⟨ts, e, fun t ht => ⟨(liveT _).mpr (Or.inr (Or.inr (l t ht).1)), (liveT _).mpr (Or.inr (Or.inr (l t ht).2))⟩, ?_⟩
    simp only [denoteMapReduce]
    rw [← mm]
    congr 1
    apply List.map_congr_left
    intro t ht
    unfold trainedUnder
    rw [σT _ (l t ht).1, σT _ (l t ht).2]
  · intro n hn hl gid a i o hk
    rcases (liveT _).mp hl with hl | hl | hl
    · subst hl; rw [h'.kT] at hk; cases hk; omega
    · subst hl; rw [h'.kA] at hk; cases hk; omega
    · exact h'.fresh n hn hl gid a i o hk
  · refine ⟨h'.wired, ⟨by show g.next ≤ g1.next; omega, by show g.next ≤ g1.next + 2; omega, h1.tails_ge.2.2⟩, ?_, ?_, reRA,
      fun hfull => ⟨noRT hfull, fun hre => (h1.sep hfull).2 (Reach.old h'.frame h1.wired (hlt' _ h1.tl.1) hre)⟩, ?_⟩
    · intro n hn hl
      rcases (liveT _).mp hl with hl | hl | hl
      · subst hl
        show (WA.set _ _ _).h (g1.next + 2) < _
        rw [set_h_self, hR]; omega
      · subst hl
        show (WA.set _ _ _).h g1.next < _
        rw [set_h_other _ _ _ _ _ (by omega)]
        show (W'.set _ _ _).h g1.next < _
        rw [set_h_self, hR]; omega
      · rw [hT n hl, h'.rankNew n hn hl, hR]; omega
    · intro hfull n hn hre hne
      rcases hre.inv with e | ⟨k0, q0, hq0, hr0⟩
      · exact absurd e hne
      · rcases h'.cls n k0 q0 hn hq0 with ⟨e, _, _⟩ | ⟨e, _, _⟩ | ⟨_, _, hl, _, hall⟩ | ⟨_, _, _, e, _⟩
        · subst e
          refine ⟨(liveT _).mpr (Or.inr (Or.inl rfl)), ?_⟩
          intro k q hq
          rcases h'.cls _ k q (Nat.le_refl _) hq with ⟨_, hk', e'⟩ | ⟨e', _⟩ | ⟨e', _⟩ | ⟨e', _⟩
          · rw [e']; exact reInsA hfull k hk'
          · omega
          · exact absurd rfl e'
          · exact absurd rfl e'
        · subst e; exact absurd hre (noRT hfull)
        · refine ⟨(liveT _).mpr (Or.inr (Or.inr hl)), ?_⟩
          intro k q hq
          rw [hall k q hq]; exact reA hfull
        · rw [e] at hr0; exact absurd hr0 (noT hfull)
    · intro _ s k q hs hq
      rcases h'.cls s k q hs hq with ⟨_, hk', e⟩ | ⟨_, hk', e⟩ | ⟨_, _, _, e, _⟩ | ⟨_, _, _, e, _⟩
      · rw [e]; have := (h'.srcA k hk').1; omega
      · rw [e]; have := (h'.srcT k hk').1; omega
      · rw [e]; exact h1.tails_ge.1
      · rw [e]; exact h1.tails_ge.2.1

end ForML.Compose
