/-
C03 — helper lemmas, part 5: `payload.MapReduce.compose`.

The loop over the mappers keeps `MRInv`: the two reducers are recorded but not yet live, their first `done.length`
input ports are subscribed to live appliers carrying `applied m (state of m) (apply / train features)`, the other
ports are free, and the trainings recorded so far are those of the stateful mappers processed.
-/
import ForML.Lemmas.C03Ops

namespace ForML.Compose

structure MRInv (gL : Graph) (WL : World) (N reducer : Nat) (va vt : Val) (st : Actor → Val)
    (g : Graph) (W : World) (done : List Actor) (insA insT : Nat → PubRef) : Prop where
  inv : Inv g W
  frame : Frame gL g
  agree : Agree gL.next WL W
  next_ge : gL.next + 3 ≤ g.next
  kA : g.kindOf gL.next = some (.worker (gL.next + 1) ⟨reducer, false⟩ N 1)
  kT : g.kindOf (gL.next + 2) = some (.worker (gL.next + 1) ⟨reducer, false⟩ N 1)
  nlA : ¬ W.live gL.next
  nlT : ¬ W.live (gL.next + 2)
  inA : ∀ k, k < done.length → g.inputOf gL.next k = some (insA k) ∧ RefOk W (insA k) (gL.next + 1)
  inT : ∀ k, k < done.length → g.inputOf (gL.next + 2) k = some (insT k) ∧ RefOk W (insT k) (gL.next + 1)
  freeA : ∀ k, done.length ≤ k → g.inputOf gL.next k = none
  freeT : ∀ k, done.length ≤ k → g.inputOf (gL.next + 2) k = none
  valA : (List.range done.length).map (fun k => W.σ (insA k)) = done.map (fun m => applied m (st m) va)
  valT : (List.range done.length).map (fun k => W.σ (insT k)) = done.map (fun m => applied m (st m) vt)
  workers : ∀ n, gL.next ≤ n → W.live n → ¬ g.isOpen n
  trains : ∃ ts, g.trains = gL.trains ++ ts ∧ (∀ t ∈ ts, W.live t.train.node ∧ W.live t.label.node) ∧
    ts.map (trainedUnder W) = (done.filter (·.stateful)).map (fun m => (m.tag, st m))
  fresh : ∀ n, gL.next ≤ n → W.live n → ∀ gid a i o, g.kindOf n = some (.worker gid a i o) → gL.next ≤ gid

theorem range_map_update {α} (n : Nat) (f : Nat → α) (x : α) :
    (List.range (n + 1)).map (fun k => if k = n then x else f k) = (List.range n).map f ++ [x] := by
  rw [List.range_succ, List.map_append]
  congr 1
  · apply List.map_congr_left
    intro k hk
    have : k ≠ n := by have := List.mem_range.mp hk; omega
    simp [this]
  · simp

theorem mr_loop {gL : Graph} {WL : World} (hiL : Inv gL WL) (left : Trunk) (N reducer : Nat) (va vt vl : Val)
    (hla : WL.live left.apply.tail ∧ WL.σ ⟨left.apply.tail, 0⟩ = va)
    (hlt : WL.live left.train.tail ∧ WL.σ ⟨left.train.tail, 0⟩ = vt)
    (hll : WL.live left.label.tail ∧ WL.σ ⟨left.label.tail, 0⟩ = vl) :
    ∀ (ms : List Actor) (g : Graph) (W : World) (done : List Actor) (insA insT : Nat → PubRef),
      MRInv gL WL N reducer va vt (fun m => trainedState m vt vl) g W done insA insT →
      ∃ g' W' insA' insT',
        Run (mapReduceLoop left ⟨gL.next, gL.next + 1, ⟨reducer, false⟩, N, 1⟩
          ⟨gL.next + 2, gL.next + 1, ⟨reducer, false⟩, N, 1⟩ done.length ms) g () g' ∧
        MRInv gL WL N reducer va vt (fun m => trainedState m vt vl) g' W' (done ++ ms) insA' insT' := by
  intro ms
  induction ms with
  | nil =>
    intro g W done insA insT h
    exact ⟨g, W, insA, insT, rfl, by simpa using h⟩
  | cons m rest ih =>
    intro g W done insA insT h
    -- the three tails of the left trunk, seen from `W`
    have hltL : ∀ n, WL.live n → n < gL.next := fun n hn => (hiL.liveLt n hn).1
    have hltW : ∀ n, W.live n → n < g.next := fun n hn => (h.inv.liveLt n hn).1
    have tail : ∀ (u : Nat) (v : Val), WL.live u → WL.σ ⟨u, 0⟩ = v →
        RefOk W ⟨u, 0⟩ gL.next ∧ W.σ ⟨u, 0⟩ = v := by
      intro u v hl hv
      obtain ⟨a1, a2, a3⟩ := h.agree u (hltL u hl)
      exact ⟨⟨a1.mpr hl, by rw [a2]; exact (hiL.liveLt u hl).2⟩, by rw [a3 0]; exact hv⟩
    obtain ⟨ra, wa⟩ := tail _ _ hla.1 hla.2
    obtain ⟨rt, wt⟩ := tail _ _ hlt.1 hlt.2
    obtain ⟨rl, wl⟩ := tail _ _ hll.1 hll.2
    have hge := h.next_ge
    have hb := h.inv.bounded
    have hk0 : ∀ u, g.next ≤ u → g.kindOf u = none := fun u hu => hb.kindOf_none hu
    have hin0 : ∀ u k, g.next ≤ u → g.inputOf u k = none := fun u k hu => hb.inputOf_none hu k
    have htr0 : ∀ u, g.next ≤ u → g.trainerOf u = none := fun u hu => hb.trainerOf_none hu
    let aA : WRef := ⟨g.next, g.next + 1, m, 1, 1⟩
    let T : Training := ⟨g.next + 1, g.next + 3, m, left.train.publisher, left.label.publisher⟩
    let ga := g.bump.bump.pushNode ⟨g.next, .worker (g.next + 1) m 1 1⟩
    let gb := ga.pushEdge ⟨g.next, 0, left.apply.publisher⟩
    let gc := gb.bump.pushNode ⟨g.next + 2, .worker (g.next + 1) m 1 1⟩
    let gd := gc.pushEdge ⟨g.next + 2, 0, left.train.publisher⟩
    let ge := trainIf m.stateful aA left.train.publisher left.label.publisher gd
    let gf := ge.pushEdge ⟨gL.next, done.length, ⟨g.next, 0⟩⟩
    let gg := gf.pushEdge ⟨gL.next + 2, done.length, ⟨g.next + 2, 0⟩⟩
    have hnd : gd.next = g.next + 3 := rfl
    have hne : g.next + 3 ≤ ge.next := by
      show gd.next ≤ _
      exact trainIf_next_ge _ _ _ _ _
    have hne' : ge.next ≤ g.next + 4 := by
      have := trainIf_next m.stateful aA left.train.publisher left.label.publisher gd
      show (trainIf m.stateful aA left.train.publisher left.label.publisher gd).next ≤ _
      rw [this, hnd]; split <;> omega
    have hbd : Bounded gd :=
      (((hb.bump.bump.pushNode _ (by gnext) (by intro _ _ _ _ h; cases h; gnext)).pushEdge _ (by gnext)).bump.pushNode _
        (by gnext) (by intro _ _ _ _ h; cases h; gnext)).pushEdge _ (by gnext)
    have hbe : Bounded ge := trainIf_bounded hbd (by show g.next + 1 < gd.next; omega)
    have hfd : Frame g gd :=
      ((((Frame.refl g).bump.bump.pushNode _ (Nat.le_refl _)).pushEdge _ (Nat.le_refl _)).bump.pushNode _
        (by gnext)).pushEdge _ (by gnext)
    have hfe : Frame g ge := trainIf_frame hfd (by show g.next ≤ g.next + 1; omega)
    -- lookups in `gd`
    have kd_u : gd.kindOf g.next = some (.worker (g.next + 1) m 1 1) := by glook [hk0]
    have kd_u2 : gd.kindOf (g.next + 2) = some (.worker (g.next + 1) m 1 1) := by glook [hk0]
    have kd_old : ∀ x, x < g.next → gd.kindOf x = g.kindOf x := fun x hx => hfd.kind x hx
    have id_u : gd.inputOf g.next 0 = some left.apply.publisher := by glook [hin0]
    have id_u2 : gd.inputOf (g.next + 2) 0 = some left.train.publisher := by glook [hin0]
    have td : ∀ x, g.next ≤ x → gd.trainerOf x = none := by intro x hx; glook [htr0]
    -- lookups in `gg`
    have kg : ∀ x, x ≠ g.next + 3 → gg.kindOf x = gd.kindOf x := by
      intro x hx
      show ge.kindOf x = _
      exact trainIf_kindOf x (by rw [hnd]; exact hx)
    have ig : ∀ x k, gg.inputOf x k =
        ((gd.inputOf x k).or (if gL.next = x ∧ done.length = k then some ⟨g.next, 0⟩ else none)).or
          (if gL.next + 2 = x ∧ done.length = k then some ⟨g.next + 2, 0⟩ else none) := by
      intro x k
      show (gf.pushEdge _).inputOf x k = _
      rw [inputOf_pushEdge]
      show ((ge.pushEdge _).inputOf x k).or _ = _
      rw [inputOf_pushEdge, trainIf_inputOf]
    have tg : ∀ gid, gg.trainerOf gid =
        (gd.trainerOf gid).or (if m.stateful = true ∧ g.next + 1 = gid then some T else none) := by
      intro gid
      show ge.trainerOf gid = _
      exact trainIf_trainerOf _ _ _ _ _ gid
    have hngg : gg.next = ge.next := rfl
    -- the run up to the recursive call
    have hrun : ∀ g'', Run (mapReduceLoop left ⟨gL.next, gL.next + 1, ⟨reducer, false⟩, N, 1⟩
          ⟨gL.next + 2, gL.next + 1, ⟨reducer, false⟩, N, 1⟩ (done.length + 1) rest) gg () g'' →
        Run (mapReduceLoop left ⟨gL.next, gL.next + 1, ⟨reducer, false⟩, N, 1⟩
          ⟨gL.next + 2, gL.next + 1, ⟨reducer, false⟩, N, 1⟩ done.length (m :: rest)) g () g'' := by
      intro g'' hrest
      unfold mapReduceLoop
      refine Run.bind (run_newWorker m 1 1 g) (Run.bind (run_subscribe _ _ _ ga ?_) (Run.bind (run_fork aA gb)
        (Run.bind (run_subscribe _ _ _ gc ?_) ?_)))
      · glook [hin0]
      · glook [hin0]
        omega
      · refine run_trainIf m.stateful aA _ _ gd _ () g'' (fun h => h) (fun _ => td _ (by show g.next ≤ g.next + 1; omega)) ?_
        refine Run.bind (run_subscribe _ _ _ ge ?_) (Run.bind (run_subscribe _ _ _ gf ?_) hrest)
        · show ge.inputOf gL.next done.length = none
          rw [trainIf_inputOf, hfd.input _ _ (by omega)]
          exact h.freeA _ (Nat.le_refl _)
        · show (ge.pushEdge _).inputOf (gL.next + 2) done.length = none
          rw [inputOf_pushEdge, trainIf_inputOf, hfd.input _ _ (by omega), h.freeT _ (Nat.le_refl _)]
          have : ¬ (gL.next = gL.next + 2 ∧ done.length = done.length) := by omega
          simp [this]
    -- certified valuation of the extended graph
    have hnlW : ∀ x, g.next ≤ x → ¬ W.live x := fun x hx hl => by have := hltW x hl; omega
    have hie : Inv ge W := h.inv.ofFrame hfe hbe
    have hif : Inv gf W := hie.pushEdge_notLive _ h.nlA (by show gL.next < ge.next; omega)
    have hig : Inv gg W := hif.pushEdge_notLive _ h.nlT (by show gL.next + 2 < ge.next; omega)
    have stW : StateFor gg W (g.next + 1) m gL.next (trainedState m vt vl) := by
      by_cases hsf : m.stateful = true
      · have ht : gg.trainerOf (g.next + 1) = some T := by
          rw [tg, td _ (by omega)]; simp [hsf]
        have := StateFor.trained (g := gg) (W := W) (a := m) (r := gL.next) ht hsf rt rl
        simp only [trainedState, hsf, if_true]
        show StateFor gg W (g.next + 1) m gL.next (.state m.tag .none vt vl)
        have e1 : W.σ T.train = vt := wt
        have e2 : W.σ T.label = vl := wl
        rw [e1, e2] at this
        exact this
      · have hsf' : m.stateful = false := by simpa using hsf
        simp only [trainedState, hsf']
        exact StateFor.stateless hsf'
    have kgu : gg.kindOf g.next = some (.worker (g.next + 1) m 1 1) := by rw [kg _ (by omega)]; exact kd_u
    have kgu2 : gg.kindOf (g.next + 2) = some (.worker (g.next + 1) m 1 1) := by rw [kg _ (by omega)]; exact kd_u2
    have igu : gg.inputOf g.next 0 = some left.apply.publisher := by rw [ig, id_u]; simp
    have igu2 : gg.inputOf (g.next + 2) 0 = some left.train.publisher := by rw [ig, id_u2]; simp
    have hrk : gL.next < gg.next := by rw [hngg]; omega
    have hi1 := hig.liveUnary g.next (g.next + 1) m left.apply.publisher gL.next (trainedState m vt vl) kgu
      (hnlW _ (Nat.le_refl _)) hrk igu ra stW
    let W1 := W.set g.next (fun _ => .apply m.tag (trainedState m vt vl) [W.σ left.apply.publisher]) gL.next
    have hnl1 : ¬ W1.live (g.next + 2) := by
      intro hl; rcases hl with hl | hl
      · omega
      · exact hnlW _ (by omega) hl
    have lift1 : ∀ q : PubRef, ∀ r', RefOk W q r' → RefOk W1 q r' := by
      intro q r' hq
      have : q.node ≠ g.next := fun e => hnlW _ (Nat.le_refl _) (e ▸ hq.1)
      exact ⟨Or.inr hq.1, by show (W.set _ _ _).h q.node < r'; rw [set_h_other _ _ _ _ _ this]; exact hq.2⟩
    have σ1 : ∀ q : PubRef, W.live q.node → W1.σ q = W.σ q := by
      intro q hq
      have : q.node ≠ g.next := fun e => hnlW _ (Nat.le_refl _) (e ▸ hq)
      exact set_σ_other _ _ _ _ _ this
    have hi2 := hi1.liveUnary (g.next + 2) (g.next + 1) m left.train.publisher gL.next (trainedState m vt vl) kgu2
      hnl1 hrk igu2 (lift1 _ _ rt) (stW.set _ _ _ (hnlW _ (Nat.le_refl _)))
    let W2 := W1.set (g.next + 2) (fun _ => .apply m.tag (trainedState m vt vl) [W1.σ left.train.publisher]) gL.next
    have lift2 : ∀ q : PubRef, ∀ r', RefOk W q r' → RefOk W2 q r' := by
      intro q r' hq
      have h1 := lift1 q r' hq
      have : q.node ≠ g.next + 2 := fun e => hnlW _ (by omega) (e ▸ hq.1)
      exact ⟨Or.inr h1.1, by show (W1.set _ _ _).h q.node < r'; rw [set_h_other _ _ _ _ _ this]; exact h1.2⟩
    have σ2 : ∀ q : PubRef, W.live q.node → W2.σ q = W.σ q := by
      intro q hq
      have : q.node ≠ g.next + 2 := fun e => hnlW _ (by omega) (e ▸ hq)
      show (W1.set _ _ _).σ q = _
      rw [set_σ_other _ _ _ _ _ this]
      exact σ1 q hq
    have σ2u : W2.σ ⟨g.next, 0⟩ = applied m (trainedState m vt vl) va := by
      show (W1.set _ _ _).σ ⟨g.next, 0⟩ = _
      rw [set_σ_other _ _ _ _ _ (by show g.next ≠ g.next + 2; omega)]
      show (W.set _ _ _).σ ⟨g.next, 0⟩ = _
      rw [set_σ_self]
      have : W.σ left.apply.publisher = va := wa
      rw [this]; rfl
    have σ2u2 : W2.σ ⟨g.next + 2, 0⟩ = applied m (trainedState m vt vl) vt := by
      show (W1.set _ _ _).σ ⟨g.next + 2, 0⟩ = _
      rw [set_σ_self]
      have : W1.σ left.train.publisher = vt := by
        show W1.σ ⟨left.train.tail, 0⟩ = vt
        rw [σ1 _ rt.1]; exact wt
      rw [this]; rfl
    have live2 : ∀ x, W2.live x ↔ (x = g.next + 2 ∨ x = g.next ∨ W.live x) := fun x => Iff.rfl
    have h2u : W2.h g.next = gL.next := by
      show (W1.set _ _ _).h g.next = _
      rw [set_h_other _ _ _ _ _ (by omega)]
      show (W.set _ _ _).h g.next = _
      rw [set_h_self]
    have h2u2 : W2.h (g.next + 2) = gL.next := by
      show (W1.set _ _ _).h (g.next + 2) = _
      rw [set_h_self]
    -- the invariant for the rest of the loop
    have gdin : ∀ x k, x < g.next → gd.inputOf x k = g.inputOf x k := fun x k hx => hfd.input x k hx
    have ndl : ¬ (gL.next + 2 = gL.next ∧ done.length = done.length) := by omega
    have ndl' : ¬ (gL.next = gL.next + 2 ∧ done.length = done.length) := by omega
    have hnext : MRInv gL WL N reducer va vt (fun m => trainedState m vt vl) gg W2 (done ++ [m])
        (fun k => if k = done.length then ⟨g.next, 0⟩ else insA k)
        (fun k => if k = done.length then ⟨g.next + 2, 0⟩ else insT k) := by
      refine ⟨hi2, ((h.frame.trans hfe).pushEdge _ (Nat.le_refl _)).pushEdge _ (by show gL.next ≤ gL.next + 2; omega),
        (h.agree.set _ _ _ (by omega)).set _ _ _ (by omega), by rw [hngg]; omega, ?_, ?_, ?_, ?_, ?_, ?_, ?_, ?_, ?_, ?_,
        ?_, ?_, ?_⟩
      · rw [kg _ (by omega), kd_old _ (by omega)]; exact h.kA
      · rw [kg _ (by omega), kd_old _ (by omega)]; exact h.kT
      · intro hl; rcases (live2 _).mp hl with hl | hl | hl
        · omega
        · omega
        · exact h.nlA hl
      · intro hl; rcases (live2 _).mp hl with hl | hl | hl
        · omega
        · omega
        · exact h.nlT hl
      · intro k hk
        rw [List.length_append, List.length_singleton] at hk
        by_cases hkd : k = done.length
        · subst hkd
          simp only [↓reduceIte]
          refine ⟨?_, (live2 _).mpr (Or.inr (Or.inl rfl)), by rw [h2u]; omega⟩
          rw [ig, gdin _ _ (by omega), h.freeA _ (Nat.le_refl _)]
          simp
        · have hk' : k < done.length := by omega
          obtain ⟨i1, i2⟩ := h.inA k hk'
          simp only [hkd, if_false]
          refine ⟨?_, lift2 _ _ i2⟩
          rw [ig, gdin _ _ (by omega), i1]
          simp
      · intro k hk
        rw [List.length_append, List.length_singleton] at hk
        by_cases hkd : k = done.length
        · subst hkd
          simp only [↓reduceIte]
          refine ⟨?_, (live2 _).mpr (Or.inl rfl), by rw [h2u2]; omega⟩
          rw [ig, gdin _ _ (by omega), h.freeT _ (Nat.le_refl _)]
          simp [ndl']
        · have hk' : k < done.length := by omega
          obtain ⟨i1, i2⟩ := h.inT k hk'
          simp only [hkd, if_false]
          refine ⟨?_, lift2 _ _ i2⟩
          rw [ig, gdin _ _ (by omega), i1]
          simp
      · intro k hk
        rw [List.length_append, List.length_singleton] at hk
        rw [ig, gdin _ _ (by omega), h.freeA _ (by omega)]
        have c1 : ¬ done.length = k := by omega
        have c2 : ¬ (gL.next + 2 = gL.next ∧ done.length = k) := by omega
        simp [c1, c2]
      · intro k hk
        rw [List.length_append, List.length_singleton] at hk
        rw [ig, gdin _ _ (by omega), h.freeT _ (by omega)]
        have c1 : ¬ (gL.next = gL.next + 2 ∧ done.length = k) := by omega
        have c2 : ¬ done.length = k := by omega
        simp [c1, c2]
      · rw [List.length_append, List.length_singleton, List.map_append, ← h.valA]
        have : (fun k => W2.σ (if k = done.length then (⟨g.next, 0⟩ : PubRef) else insA k)) =
            (fun k => if k = done.length then W2.σ ⟨g.next, 0⟩ else W2.σ (insA k)) := by
          funext k; split <;> rfl
        rw [this, range_map_update, σ2u]
        congr 1
        apply List.map_congr_left
        intro k hk
        exact σ2 _ (h.inA k (List.mem_range.mp hk)).2.1
      · rw [List.length_append, List.length_singleton, List.map_append, ← h.valT]
        have : (fun k => W2.σ (if k = done.length then (⟨g.next + 2, 0⟩ : PubRef) else insT k)) =
            (fun k => if k = done.length then W2.σ ⟨g.next + 2, 0⟩ else W2.σ (insT k)) := by
          funext k; split <;> rfl
        rw [this, range_map_update, σ2u2]
        congr 1
        apply List.map_congr_left
        intro k hk
        exact σ2 _ (h.inT k (List.mem_range.mp hk)).2.1
      · intro n hn hl ho
        rcases (live2 _).mp hl with hl | hl | hl
        · subst hl; rw [Graph.isOpen, kgu2] at ho; cases ho.1
        · subst hl; rw [Graph.isOpen, kgu] at ho; cases ho.1
        · have hnlt := hltW n hl
          apply h.workers n hn hl
          refine ⟨?_, ?_⟩
          · rw [← kd_old n hnlt, ← kg n (by omega)]; exact ho.1
          · have := ho.2
            rw [ig, gdin _ _ hnlt] at this
            cases hin : g.inputOf n 0 with
            | none => rfl
            | some q => rw [hin] at this; simp at this
      · obtain ⟨ts, e, l, mm⟩ := h.trains
        refine ⟨ts ++ (if m.stateful then [T] else []), ?_, ?_, ?_⟩
        · show ge.trains = _
          rw [show ge.trains = gd.trains ++ _ from trainIf_trains _ _ _ _ _]
          show g.trains ++ _ = _
          rw [e, List.append_assoc]
          rfl
        · intro t ht
          rcases List.mem_append.mp ht with ht | ht
          · obtain ⟨x1, x2⟩ := l t ht
            exact ⟨(live2 _).mpr (Or.inr (Or.inr x1)), (live2 _).mpr (Or.inr (Or.inr x2))⟩
          · by_cases hsf : m.stateful = true
            · simp only [hsf, if_true, List.mem_singleton] at ht
              subst ht
              exact ⟨(live2 _).mpr (Or.inr (Or.inr rt.1)), (live2 _).mpr (Or.inr (Or.inr rl.1))⟩
            · simp [hsf] at ht
        · rw [List.map_append, List.filter_append, List.map_append]
          congr 1
          · rw [← mm]
            apply List.map_congr_left
            intro t ht
            obtain ⟨x1, x2⟩ := l t ht
            unfold trainedUnder
            rw [σ2 _ x1, σ2 _ x2]
          · by_cases hsf : m.stateful = true
            · simp only [hsf, if_true, List.map_cons, List.map_nil, List.filter_cons, List.filter_nil, trainedUnder,
                trainedState]
              have e1 : W2.σ T.train = vt := by
                show W2.σ ⟨left.train.tail, 0⟩ = vt
                rw [σ2 _ rt.1]; exact wt
              have e2 : W2.σ T.label = vl := by
                show W2.σ ⟨left.label.tail, 0⟩ = vl
                rw [σ2 _ rl.1]; exact wl
              rw [e1, e2]
            · simp [hsf]
      · intro n hn hl gid a i o hk
        rcases (live2 _).mp hl with hl | hl | hl
        · subst hl; rw [kgu2] at hk; cases hk; omega
        · subst hl; rw [kgu] at hk; cases hk; omega
        · have hnlt := hltW n hl
          rw [kg n (by omega), kd_old n hnlt] at hk
          exact h.fresh n hn hl gid a i o hk
    obtain ⟨g', W', insA', insT', hrest, hfin⟩ := ih gg W2 (done ++ [m]) _ _ hnext
    have e : (done ++ [m]).length = done.length + 1 := by simp
    rw [e] at hrest
    exact ⟨g', W', insA', insT', hrun g' hrest, by simpa [List.append_assoc] using hfin⟩

theorem spec_mapreduce {scope : GraphM Trunk} {S : Scope} (hs : Spec scope S) (ms : List Actor) (reducer : Nat) :
    Spec (composeMapReduce ms reducer scope) (denoteMapReduce ms reducer S) := by
  intro g W xa xt xl r hi hr
  obtain ⟨left, g1, W1, hrun1, h1⟩ := hs g W xa xt xl r hi hr
  let R : Actor := ⟨reducer, false⟩
  let g2 := g1.bump.bump.pushNode ⟨g1.next, .worker (g1.next + 1) R ms.length 1⟩
  let g3 := g2.bump.pushNode ⟨g1.next + 2, .worker (g1.next + 1) R ms.length 1⟩
  have hb1 := h1.inv.bounded
  have hk0 : ∀ u, g1.next ≤ u → g1.kindOf u = none := fun u hu => hb1.kindOf_none hu
  have hin0 : ∀ u k, g1.next ≤ u → g1.inputOf u k = none := fun u k hu => hb1.inputOf_none hu k
  have hb3 : Bounded g3 := (hb1.bump.bump.pushNode _ (by gnext) (by intro _ _ _ _ h; cases h; gnext)).bump.pushNode _
    (by gnext) (by intro _ _ _ _ h; cases h; gnext)
  have hf3 : Frame g1 g3 := ((Frame.refl g1).bump.bump.pushNode _ (Nat.le_refl _)).bump.pushNode _ (by gnext)
  have hnl : ∀ u, g1.next ≤ u → ¬ W1.live u := fun u hu h => by have := (h1.inv.liveLt u h).1; omega
  have h0 : MRInv g1 W1 ms.length reducer (S xa xt xl).apply (S xa xt xl).train
      (fun m => trainedState m (S xa xt xl).train (S xa xt xl).label) g3 W1 [] (fun _ => default) (fun _ => default) := by
    refine ⟨h1.inv.ofFrame hf3 hb3, hf3, Agree.refl _ _, by show g1.next + 3 ≤ g1.next + 1 + 1 + 1; omega, ?_, ?_,
      hnl _ (Nat.le_refl _), hnl _ (by omega), ?_, ?_, ?_, ?_, rfl, rfl, ?_, ⟨[], ?_, ?_, rfl⟩, ?_⟩
    · glook [hk0]
    · glook [hk0]
    · intro k hk; cases hk
    · intro k hk; cases hk
    · intro k _; glook [hin0]
    · intro k _; glook [hin0]
    · intro n hn hl _; exact hnl n hn hl
    · show g1.trains = g1.trains ++ []
      simp
    · intro t ht; cases ht
    · intro n hn hl; exact absurd hl (hnl n hn)
  obtain ⟨g', W', insA, insT, hloop, h'⟩ := mr_loop h1.inv left ms.length reducer _ _ _ h1.ta h1.tt h1.tl ms g3 W1 [] _ _ h0
  rw [List.nil_append] at h'
  have hrun : Run (composeMapReduce ms reducer scope) g
      ⟨⟨left.apply.head, g1.next⟩, ⟨left.train.head, g1.next + 2⟩, left.label⟩ g' := by
    unfold composeMapReduce
    exact Run.bind hrun1 (Run.bind (run_newWorker R ms.length 1 g1) (Run.bind (run_fork _ g2) (Run.bind hloop (Run.pure _ _))))
  have hge := h'.next_ge
  -- the two reducers become live
  have hiA := h'.inv.liveWorker g1.next (g1.next + 1) R ms.length 1 insA (g1.next + 1) .none h'.kA h'.nlA (by omega)
    h'.inA (StateFor.stateless rfl)
  let WA := W'.set g1.next
    (fun i => portVal 1 i (.apply R.tag .none ((List.range ms.length).map (fun k => W'.σ (insA k))))) (g1.next + 1)
  have hnlT : ¬ WA.live (g1.next + 2) := by
    intro hl; rcases hl with hl | hl
    · omega
    · exact h'.nlT hl
  have liftA : ∀ q : PubRef, ∀ r', RefOk W' q r' → RefOk WA q r' := by
    intro q r' hq
    have : q.node ≠ g1.next := fun e => h'.nlA (e ▸ hq.1)
    exact ⟨Or.inr hq.1, by show (W'.set _ _ _).h q.node < r'; rw [set_h_other _ _ _ _ _ this]; exact hq.2⟩
  have σA : ∀ q : PubRef, W'.live q.node → WA.σ q = W'.σ q := by
    intro q hq
    have : q.node ≠ g1.next := fun e => h'.nlA (e ▸ hq)
    exact set_σ_other _ _ _ _ _ this
  have hiT := hiA.liveWorker (g1.next + 2) (g1.next + 1) R ms.length 1 insT (g1.next + 1) .none h'.kT hnlT (by omega)
    (fun k hk => ⟨(h'.inT k hk).1, liftA _ _ (h'.inT k hk).2⟩) (StateFor.stateless rfl)
  let WT := WA.set (g1.next + 2)
    (fun i => portVal 1 i (.apply R.tag .none ((List.range ms.length).map (fun k => WA.σ (insT k))))) (g1.next + 1)
  have σT : ∀ q : PubRef, W'.live q.node → WT.σ q = W'.σ q := by
    intro q hq
    have : q.node ≠ g1.next + 2 := fun e => h'.nlT (e ▸ hq)
    show (WA.set _ _ _).σ q = _
    rw [set_σ_other _ _ _ _ _ this]
    exact σA q hq
  have liveT : ∀ x, WT.live x ↔ (x = g1.next + 2 ∨ x = g1.next ∨ W'.live x) := fun x => Iff.rfl
  have hlt' : ∀ n, W1.live n → n < g1.next := fun n hn => (h1.inv.liveLt n hn).1
  have old : ∀ u, W1.live u → WT.live u ∧ WT.σ ⟨u, 0⟩ = W1.σ ⟨u, 0⟩ := by
    intro u hu
    obtain ⟨a1, _, a3⟩ := h'.agree u (hlt' u hu)
    exact ⟨(liveT _).mpr (Or.inr (Or.inr (a1.mpr hu))), by rw [σT ⟨u, 0⟩ (a1.mpr hu)]; exact a3 0⟩
  refine ⟨_, g', WT, hrun, h1.step hiT h'.frame ((h'.agree.set _ _ _ (Nat.le_refl _)).set _ _ _ (by omega)) ?_
    ⟨⟨left.apply.head, g1.next⟩, ⟨left.train.head, g1.next + 2⟩, left.label⟩ rfl rfl rfl
    (denoteMapReduce ms reducer S xa xt xl) ?_ ?_ ?_ ?_ ?_⟩
  · intro n hn hl ho
    rcases (liveT _).mp hl with hl | hl | hl
    · subst hl; rw [Graph.isOpen, h'.kT] at ho; cases ho.1
    · subst hl; rw [Graph.isOpen, h'.kA] at ho; cases ho.1
    · exact h'.workers n hn hl ho
  · refine ⟨(liveT _).mpr (Or.inr (Or.inl rfl)), ?_⟩
    show (WA.set _ _ _).σ ⟨g1.next, 0⟩ = _
    rw [set_σ_other _ _ _ _ _ (by show g1.next ≠ g1.next + 2; omega)]
    show (W'.set _ _ _).σ ⟨g1.next, 0⟩ = _
    rw [set_σ_self, h'.valA]
    simp [portVal, denoteMapReduce, R]
  · refine ⟨(liveT _).mpr (Or.inl rfl), ?_⟩
    show (WA.set _ _ _).σ ⟨g1.next + 2, 0⟩ = _
    rw [set_σ_self]
    have : (List.range ms.length).map (fun k => WA.σ (insT k)) = (List.range ms.length).map (fun k => W'.σ (insT k)) := by
      apply List.map_congr_left
      intro k hk
      exact σA _ (h'.inT k (List.mem_range.mp hk)).2.1
    rw [this, h'.valT]
    simp [portVal, denoteMapReduce, R]
  · obtain ⟨l1, l2⟩ := old _ h1.tl.1
    exact ⟨l1, by rw [l2]; exact h1.tl.2⟩
  · obtain ⟨ts, e, l, mm⟩ := h'.trains
    refine ⟨ts, e, fun t ht => ⟨(liveT _).mpr (Or.inr (Or.inr (l t ht).1)), (liveT _).mpr (Or.inr (Or.inr (l t ht).2))⟩, ?_⟩
    simp only [denoteMapReduce]
    rw [← mm]
    congr 1
    apply List.map_congr_left
    intro t ht
    unfold trainedUnder
    rw [σT _ (l t ht).1, σT _ (l t ht).2]
  · intro n hn hl gid a i o hk
    rcases (liveT _).mp hl with hl | hl | hl
    · subst hl; rw [h'.kT] at hk; cases hk; omega
    · subst hl; rw [h'.kA] at hk; cases hk; omega
    · exact h'.fresh n hn hl gid a i o hk

end ForML.Compose
