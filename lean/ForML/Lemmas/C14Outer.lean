/-
C14 — helper lemmas, part 7: `run_prune` — pushing the offered row filters into the scans only removes rows the
conditions pending above reject anyway, for every join kind, on every statement outside the regions of the findings
C14-F1/F2 (`safe`; for the repaired parser: on every statement).

Pending conditions per join kind (`P` above the join, `c` its ON condition):
  inner/cross   both sides: `c ++ P`       (a row combination survives only if `c` and everything above hold)
  left          preserved side: `P`          optional side: `c`   (a right row failing a factor of `c` never matches;
  right         preserved side: `P`          optional side: `c`    unmatched left rows are NULL-extended either way)
  full          both sides: nothing
Used by `ForML.Props.C14` (`C14_filter_fixed`, `C14_filter_partial`).
-/
import ForML.Lemmas.C14Filter
namespace ForML.PushDown
open ForML.Dsl

theorem Prune.eq_of_false {α : Type} {D : α → Prop} {l' l : List α} (h : Prune D l' l) (hD : ∀ a, ¬ D a) : l' = l := by
  induction h with
  | nil => rfl
  | keep _ ih => rw [ih]
  | drop hd _ _ => exact absurd hd (hD _)

theorem not_doomed_nil (S : Sem) (e : Env) : ¬ Doomed S [] e := by
  rintro ⟨p, hp, _⟩
  simp at hp

theorem dom_nullEnv (os : List Source) : dom (nullEnv os) = os := by
  induction os with
  | nil => rfl
  | cons o os ih =>
    simp only [dom, nullEnv, List.map_cons, List.cons.injEq, true_and] at ih ⊢
    exact ih

/-- the environments of any join tree bind exactly its origins, in order -/
theorem run_dom' (fix len : Bool) (S : Sem) (B : Backend) (db : Db) :
    ∀ (s : Source) (st : Segs), ∀ e ∈ (run fix len S B db s st).envs, dom e = origins s
  | .table n fs, st, e, he => by
    simp only [run, List.mem_map] at he
    obtain ⟨r, _, rfl⟩ := he
    simp [dom, origins]
  | .ref i nm, st, e, he => by
    simp only [run] at he
    by_cases ht : isTable i = true
    · simp only [ht, if_true, List.mem_map] at he
      obtain ⟨r, _, rfl⟩ := he
      simp [dom, origins]
    · simp only [ht, Bool.false_eq_true, if_false, List.mem_map] at he
      obtain ⟨r, _, rfl⟩ := he
      simp [dom, origins, rebind]
  | .join l r k c, st, e, he => by
    simp only [run] at he
    have hl := run_dom' fix len S B db l (joinCtx fix len st l r k c)
    have hr := run_dom' fix len S B db r (run fix len S B db l (joinCtx fix len st l r k c)).st
    simp only [origins]
    have pair : ∀ el ∈ (run fix len S B db l (joinCtx fix len st l r k c)).envs,
        ∀ er ∈ (run fix len S B db r (run fix len S B db l (joinCtx fix len st l r k c)).st).envs,
        dom (el ++ er) = origins l ++ origins r := fun el hel er her => by rw [dom_append, hl el hel, hr er her]
    have lnull : ∀ el ∈ (run fix len S B db l (joinCtx fix len st l r k c)).envs,
        dom (el ++ nullEnv (origins r)) = origins l ++ origins r :=
      fun el hel => by rw [dom_append, hl el hel, dom_nullEnv]
    have rnull : ∀ er ∈ (run fix len S B db r (run fix len S B db l (joinCtx fix len st l r k c)).st).envs,
        dom (nullEnv (origins l) ++ er) = origins l ++ origins r :=
      fun er her => by rw [dom_append, hr er her, dom_nullEnv]
    have leftPart : ∀ e ∈ (run fix len S B db l (joinCtx fix len st l r k c)).envs.flatMap (fun el =>
        if ((List.map (fun er => el ++ er) (run fix len S B db r (run fix len S B db l (joinCtx fix len st l r k c)).st).envs).filter
            (fun e => holdsOpt S e c)).isEmpty then [el ++ nullEnv (origins r)]
        else (List.map (fun er => el ++ er) (run fix len S B db r (run fix len S B db l (joinCtx fix len st l r k c)).st).envs).filter
            (fun e => holdsOpt S e c)), dom e = origins l ++ origins r := by
      intro e he
      obtain ⟨el, hel, he⟩ := List.mem_flatMap.mp he
      split at he
      · simp only [List.mem_singleton] at he
        exact he ▸ lnull el hel
      · obtain ⟨er, her, rfl⟩ := List.mem_map.mp (List.mem_filter.mp he).1
        exact pair el hel er her
    cases k with
    | inner =>
      simp only [joinRows, prod] at he
      obtain ⟨el, hel, hm⟩ := List.mem_flatMap.mp (List.mem_filter.mp he).1
      obtain ⟨er, her, rfl⟩ := List.mem_map.mp hm
      exact pair el hel er her
    | cross =>
      simp only [joinRows, prod] at he
      obtain ⟨el, hel, hm⟩ := List.mem_flatMap.mp (List.mem_filter.mp he).1
      obtain ⟨er, her, rfl⟩ := List.mem_map.mp hm
      exact pair el hel er her
    | left =>
      simp only [joinRows] at he
      exact leftPart e he
    | right =>
      simp only [joinRows] at he
      obtain ⟨er, her, he⟩ := List.mem_flatMap.mp he
      split at he
      · simp only [List.mem_singleton] at he
        exact he ▸ rnull er her
      · obtain ⟨el, hel, rfl⟩ := List.mem_map.mp (List.mem_filter.mp he).1
        exact pair el hel er her
    | full =>
      simp only [joinRows, List.mem_append] at he
      rcases he with he | he
      · exact leftPart e he
      · obtain ⟨er, her, rfl⟩ := List.mem_map.mp he
        exact rnull er (List.mem_filter.mp her).1
  | .set l r k, st, e, he => by
    simp only [run, List.mem_map] at he
    obtain ⟨r, _, rfl⟩ := he
    simp [dom, origins]
  | .query src sel pre grp post ord rows, st, e, he => by
    simp only [run, List.mem_map] at he
    obtain ⟨r, _, rfl⟩ := he
    simp [dom, origins]

theorem prune_prod {S : Sem} {P : List Feature} {ol orr : List Source} {L' L R' R : List Env}
    (hL : Prune (Doomed S P) L' L) (hR : Prune (Doomed S P) R' R)
    (hdl : ∀ e ∈ L, dom e = ol) (hdr : ∀ e ∈ R, dom e = orr) (hdisj : ∀ o ∈ orr, o ∉ ol) :
    Prune (Doomed S P) (prod L' R') (prod L R) := by
  unfold prod
  refine Prune.flatMap _ _ hL ?_ ?_
  · intro el hel
    refine Prune.map _ hR ?_
    intro er her hd
    exact hd.append_right el (by rw [hdr er her, hdl el hel]; exact hdisj)
  · intro el _ hd b hb
    obtain ⟨er, _, rfl⟩ := List.mem_map.mp hb
    exact hd.append_left er

/-- a combination containing a row doomed by the ON condition is no match -/
theorem not_on_of_doomed {S : Sem} {c : FeatureOpt} {e : Env} (h : Doomed S (optList c) e) : holdsOpt S e c = false := by
  obtain ⟨p, hp, hf⟩ := h
  cases c with
  | none => simp [optList] at hp
  | some q =>
    simp only [optList, List.mem_singleton] at hp
    subst hp
    have := hf e (Extends.refl e)
    simpa [holdsOpt, holds] using this

/-- the matches of a left row among right rows pruned by the ON condition are the matches among all the right rows -/
theorem matches_right_pruned {S : Sem} {c : FeatureOpt} {ol orr : List Source} {R' R : List Env}
    (h : Prune (Doomed S (optList c)) R' R) (hdr : ∀ e ∈ R, dom e = orr) (el : Env) (hdl : dom el = ol)
    (hdisj : ∀ o ∈ orr, o ∉ ol) :
    (R'.map (fun er => el ++ er)).filter (fun e => holdsOpt S e c) =
      (R.map (fun er => el ++ er)).filter (fun e => holdsOpt S e c) := by
  have hm : Prune (fun e => holdsOpt S e c = false) (R'.map (fun er => el ++ er)) (R.map (fun er => el ++ er)) :=
    h.map _ (fun er her hd => not_on_of_doomed (hd.append_right el (by rw [hdr er her, hdl]; exact hdisj)))
  exact hm.filter_eq _ (fun _ _ hd => hd)

/-- the same for a right row and pruned left rows -/
theorem matches_left_pruned {S : Sem} {c : FeatureOpt} {L' L : List Env}
    (h : Prune (Doomed S (optList c)) L' L) (er : Env) :
    (L'.map (fun el => el ++ er)).filter (fun e => holdsOpt S e c) =
      (L.map (fun el => el ++ er)).filter (fun e => holdsOpt S e c) := by
  have hm : Prune (fun e => holdsOpt S e c = false) (L'.map (fun el => el ++ er)) (L.map (fun el => el ++ er)) :=
    h.map _ (fun el _ hd => not_on_of_doomed (hd.append_left er))
  exact hm.filter_eq _ (fun _ _ hd => hd)

/-- **Pushing the offered row filters into the scans only removes rows the pending conditions reject anyway; a
statement as a whole yields the same rows** — every join kind, both variants of the parser. -/
theorem run_prune (fix len : Bool) (S : Sem) (db : Db) :
    ∀ (s : Source), grammarScoped s = true →
      (∀ (P Q : List Feature) (st : Segs), safe fix len P Q s = true → joinsScoped s = true → (origins s).Nodup →
          FactorsTables st → FromSeen len Q st → Justified len P st (origins s) →
          Prune (Doomed S P) (run fix len S .honourRows db s st).envs (run fix len S .ignore db s st).envs)
      ∧ (isStmt s = true → safe fix len [] [] s = true →
          ∀ st, (run fix len S .honourRows db s st).envs = (run fix len S .ignore db s st).envs)
  | .table n fs, _ => by
    refine ⟨?_, by simp [isStmt]⟩
    intro P Q st _ _ _ _ _ hj
    simp only [run, Backend.honourRows, Backend.ignore]
    refine Prune.map _ (Prune.of_filter (D := fun r => Doomed S P [(Source.table n fs, r)]) _ _ ?_) (fun _ _ h => h)
    intro r _ hr
    exact doomed_of_not_passes len S (by simpa [origins] using hj) hr
  | .ref i nm, hw => by
    refine ⟨?_, by simp [isStmt]⟩
    intro P Q st hs _ _ hft hfs _
    simp only [grammarScoped, Bool.and_eq_true, Bool.or_eq_true] at hw
    simp only [run]
    apply Prune.of_eq
    by_cases ht : isTable i = true
    · simp only [safe, ht, if_true] at hs
      simp only [ht, if_true, Backend.honourRows, Backend.ignore]
      congr 1
      apply List.filter_eq_self.mpr
      intro r _
      exact passes_of_pred_nil S (ref_pred_nil hft hfs hs) r
    · simp only [safe, ht, Bool.false_eq_true, if_false] at hs
      simp only [ht, Bool.false_eq_true, if_false]
      rcases hw.1 with ht' | hst
      · exact absurd ht' ht
      · rw [(run_prune fix len S db i hw.2).2 hst hs st]
  | .join l r k c, hw => by
    refine ⟨?_, by simp [isStmt]⟩
    intro P Q st hs hjs hnd hft hfs hj
    simp only [grammarScoped, Bool.and_eq_true] at hw
    simp only [joinsScoped, Bool.and_eq_true] at hjs
    simp only [origins, List.nodup_append] at hnd
    have hdisj : ∀ o ∈ origins r, o ∉ origins l := fun o ho hol => hnd.2.2 o hol o ho rfl
    have hft1 := factorsTables_joinCtx (fix := fix) (len := len) l r k c hft
    have hfs1 := fromSeen_joinCtx (fix := fix) l r k c hfs
    have hinv := run_invariants fix len S .ignore db l (optList c ++ Q) _ hw.1 hft1 hfs1
    have hst : (run fix len S .honourRows db l (joinCtx fix len st l r k c)).st =
        (run fix len S .ignore db l (joinCtx fix len st l r k c)).st := (run_indep fix len S S .honourRows .ignore db db l _).1
    have hdl := run_dom' fix len S .ignore db l (joinCtx fix len st l r k c)
    have hdr := run_dom' fix len S .ignore db r (run fix len S .ignore db l (joinCtx fix len st l r k c)).st
    -- the right side is visited in the state the left side leaves behind: nothing new for its origins
    have afterL : ∀ P', Justified len P' (joinCtx fix len st l r k c) (origins r) →
        Justified len P' (run fix len S .ignore db l (joinCtx fix len st l r k c)).st (origins r) := by
      intro P' h x hx hxt
      rcases run_factors fix len S .ignore db l _ hw.1 hjs.1.2 x hx with hx | hx
      · exact h x hx hxt
      · exact absurd hxt (fun hxr => hdisj _ hxr hx)
    -- with the join condition counted as pending (what inner joins need) every factor below is justified
    have hj1 : ∀ ts, (∀ t ∈ ts, t ∈ origins l ∨ t ∈ origins r) →
        Justified len (optList c ++ P) (joinCtx fix len st l r k c) ts := by
      intro ts hts x hx hxt
      rcases joinCtx_factors_mem hx with ⟨hx, _⟩ | ⟨p, hp, m, hm, hxm, _⟩
      · obtain ⟨p, hp, m, hm, hxm⟩ := hj x hx (by simpa [origins] using hts _ hxt)
        exact ⟨p, by simp [hp], m, hm, hxm⟩
      · exact ⟨p, by simp [hp], m, hm, hxm⟩
    -- factors of a side all of whose rows the join keeps: only what was justified before
    have keep : ∀ (side : List Source), (∀ t ∈ side, t ∈ origins l ∨ t ∈ origins r) →
        (fix = true → ∀ t ∈ side, t ∈ exempt fix l r k) →
        (fix = false → noFactorFor len (optList c) side = true) →
        Justified len P (joinCtx fix len st l r k c) side := by
      intro side hside hex hno x hx hxt
      rcases joinCtx_factors_mem hx with ⟨hx, _⟩ | ⟨p, hp, m, hm, hxm, hne⟩
      · exact hj x hx (by simpa [origins] using hside _ hxt)
      · cases fix with
        | true => exact absurd (hex rfl _ hxt) hne
        | false => exact absurd hxm (noFactorFor_spec' (hno rfl) hxt hp hm)
    -- factors of a side the join extends with NULLs: only those of the join condition
    have opt : ∀ (side : List Source), (∀ t ∈ side, t ∈ origins l ∨ t ∈ origins r) →
        (fix = true → ∀ t ∈ side, t ∈ released fix l r k) →
        (fix = false → noFactorFor len P side = true) →
        Justified len (optList c) (joinCtx fix len st l r k c) side := by
      intro side hside hrel hno x hx hxt
      rcases joinCtx_factors_mem hx with ⟨hx0, hnr⟩ | ⟨p, hp, m, hm, hxm, _⟩
      · cases fix with
        | true => exact absurd (hrel rfl _ hxt) hnr
        | false =>
          obtain ⟨p, hp, m, hm, hxm⟩ := hj x hx0 (by simpa [origins] using hside _ hxt)
          exact absurd hxm (noFactorFor_spec' (hno rfl) hxt hp hm)
      · exact ⟨p, hp, m, hm, hxm⟩
    -- a side of a full join: nothing at all
    have none : ∀ (side : List Source), (∀ t ∈ side, t ∈ origins l ∨ t ∈ origins r) →
        (fix = true → ∀ t ∈ side, t ∈ released fix l r k ∧ t ∈ exempt fix l r k) →
        (fix = false → noFactorFor len (optList c ++ P) side = true) →
        Justified len [] (joinCtx fix len st l r k c) side := by
      intro side hside hboth hno x hx hxt
      rcases joinCtx_factors_mem hx with ⟨hx0, hnr⟩ | ⟨p, hp, m, hm, hxm, hne⟩
      · cases fix with
        | true => exact absurd (hboth rfl _ hxt).1 hnr
        | false =>
          obtain ⟨p, hp, m, hm, hxm⟩ := hj x hx0 (by simpa [origins] using hside _ hxt)
          exact absurd hxm (noFactorFor_spec' (hno rfl) hxt (by simp [hp]) hm)
      · cases fix with
        | true => exact absurd (hboth rfl _ hxt).2 hne
        | false => exact absurd hxm (noFactorFor_spec' (hno rfl) hxt (by simp [hp]) hm)
    have inL : ∀ t ∈ origins l, t ∈ origins l ∨ t ∈ origins r := fun _ h => Or.inl h
    have inR : ∀ t ∈ origins r, t ∈ origins l ∨ t ∈ origins r := fun _ h => Or.inr h
    simp only [run]
    rw [hst]
    cases k with
    | inner =>
      simp only [safe, Bool.and_eq_true] at hs
      have iha := (run_prune fix len S db l hw.1).1 (optList c ++ P) _ _ hs.1 hjs.1.2 hnd.1 hft1 hfs1 (hj1 _ inL)
      have ihb := (run_prune fix len S db r hw.2).1 (optList c ++ P) _ _ hs.2 hjs.2 hnd.2.1 hinv.1 hinv.2
        (afterL _ (hj1 _ inR))
      have hfil := (prune_prod iha ihb hdl hdr hdisj).filter (fun e => holdsOpt S e c)
      refine (hfil.mono ?_)
      intro e he hd
      have hon := (List.mem_filter.mp he).2
      cases c with
      | none => simpa [optList] using hd
      | some c => exact Doomed.not_holds (by simpa [optList] using hd) (by simpa [holdsOpt] using hon)
    | cross =>
      simp only [safe, Bool.and_eq_true] at hs
      have iha := (run_prune fix len S db l hw.1).1 (optList c ++ P) _ _ hs.1 hjs.1.2 hnd.1 hft1 hfs1 (hj1 _ inL)
      have ihb := (run_prune fix len S db r hw.2).1 (optList c ++ P) _ _ hs.2 hjs.2 hnd.2.1 hinv.1 hinv.2
        (afterL _ (hj1 _ inR))
      have hfil := (prune_prod iha ihb hdl hdr hdisj).filter (fun e => holdsOpt S e c)
      refine (hfil.mono ?_)
      intro e he hd
      have hon := (List.mem_filter.mp he).2
      cases c with
      | none => simpa [optList] using hd
      | some c => exact Doomed.not_holds (by simpa [optList] using hd) (by simpa [holdsOpt] using hon)
    | left =>
      simp only [safe, Bool.and_eq_true, Bool.or_eq_true] at hs
      have hjl : Justified len P (joinCtx fix len st l r .left c) (origins l) :=
        keep _ inL (fun hf t ht => by simpa [exempt, hf] using ht)
          (fun hf => hs.1.1.elim (fun h => by simp [hf] at h) (fun h => h.1))
      have hjr : Justified len (optList c) (joinCtx fix len st l r .left c) (origins r) :=
        opt _ inR (fun hf t ht => by simpa [released, hf] using ht)
          (fun hf => hs.1.1.elim (fun h => by simp [hf] at h) (fun h => h.2))
      have iha := (run_prune fix len S db l hw.1).1 P _ _ hs.1.2 hjs.1.2 hnd.1 hft1 hfs1 hjl
      have ihb := (run_prune fix len S db r hw.2).1 (optList c) _ _ hs.2 hjs.2 hnd.2.1 hinv.1 hinv.2 (afterL _ hjr)
      simp only [joinRows]
      refine Prune.flatMap _ _ iha (fun el hel => Prune.of_eq ?_) ?_
      · simp only [matches_right_pruned ihb hdr el (hdl el hel) hdisj]
      · intro el _ hd b hb
        split at hb
        · simp only [List.mem_singleton] at hb
          exact hb ▸ hd.append_left _
        · obtain ⟨er, _, rfl⟩ := List.mem_map.mp (List.mem_filter.mp hb).1
          exact hd.append_left _
    | right =>
      simp only [safe, Bool.and_eq_true, Bool.or_eq_true] at hs
      have hjl : Justified len (optList c) (joinCtx fix len st l r .right c) (origins l) :=
        opt _ inL (fun hf t ht => by simpa [released, hf] using ht)
          (fun hf => hs.1.1.elim (fun h => by simp [hf] at h) (fun h => h.2))
      have hjr : Justified len P (joinCtx fix len st l r .right c) (origins r) :=
        keep _ inR (fun hf t ht => by simpa [exempt, hf] using ht)
          (fun hf => hs.1.1.elim (fun h => by simp [hf] at h) (fun h => h.1))
      have iha := (run_prune fix len S db l hw.1).1 (optList c) _ _ hs.1.2 hjs.1.2 hnd.1 hft1 hfs1 hjl
      have ihb := (run_prune fix len S db r hw.2).1 P _ _ hs.2 hjs.2 hnd.2.1 hinv.1 hinv.2 (afterL _ hjr)
      simp only [joinRows]
      refine Prune.flatMap _ _ ihb (fun er _ => Prune.of_eq ?_) ?_
      · simp only [matches_left_pruned iha er]
      · intro er her hd b hb
        split at hb
        · simp only [List.mem_singleton] at hb
          exact hb ▸ hd.append_right _ (by rw [hdr er her, dom_nullEnv]; exact hdisj)
        · obtain ⟨el, hel, rfl⟩ := List.mem_map.mp (List.mem_filter.mp hb).1
          exact hd.append_right _ (by rw [hdr er her, hdl el hel]; exact hdisj)
    | full =>
      simp only [safe, Bool.and_eq_true, Bool.or_eq_true] at hs
      have hno : fix = false → noFactorFor len (optList c ++ P) (origins l ++ origins r) = true :=
        fun hf => hs.1.1.elim (fun h => by simp [hf] at h) (fun h => h)
      have hsub : ∀ {side : List Source}, (∀ t ∈ side, t ∈ origins l ∨ t ∈ origins r) → fix = false →
          noFactorFor len (optList c ++ P) side = true := by
        intro side hside hf
        have := hno hf
        unfold noFactorFor at this ⊢
        rw [List.all_eq_true] at this ⊢
        exact fun o ho => this o (by simpa using hside o ho)
      have hjl : Justified len [] (joinCtx fix len st l r .full c) (origins l) :=
        none _ inL (fun hf t ht => by simp [released, exempt, hf, ht]) (hsub inL)
      have hjr : Justified len [] (joinCtx fix len st l r .full c) (origins r) :=
        none _ inR (fun hf t ht => by simp [released, exempt, hf, ht]) (hsub inR)
      have iha := ((run_prune fix len S db l hw.1).1 [] _ _ hs.1.2 hjs.1.2 hnd.1 hft1 hfs1 hjl).eq_of_false
        (not_doomed_nil S)
      have ihb := ((run_prune fix len S db r hw.2).1 [] _ _ hs.2 hjs.2 hnd.2.1 hinv.1 hinv.2 (afterL _ hjr)).eq_of_false
        (not_doomed_nil S)
      rw [iha, ihb]
      exact Prune.refl _
  | .set l r k, hw => by
    simp only [grammarScoped, Bool.and_eq_true] at hw
    have heq : safe fix len [] [] (.set l r k) = true →
        ∀ st, (run fix len S .honourRows db (.set l r k) st).envs = (run fix len S .ignore db (.set l r k) st).envs := by
      intro hos st
      simp only [safe, Bool.and_eq_true] at hos
      simp only [run]
      rw [(run_prune fix len S db l hw.1.2).2 hw.1.1.1 hos.1 st, (run_indep fix len S S .honourRows .ignore db db l st).1,
        (run_prune fix len S db r hw.2).2 hw.1.1.2 hos.2 _]
    exact ⟨fun _ _ st hos _ _ _ _ _ => Prune.of_eq (heq (by simpa [safe] using hos) st), fun _ => heq⟩
  | .query src sel pre grp post ord rows, hw => by
    simp only [grammarScoped, Bool.and_eq_true, decide_eq_true_eq] at hw
    have heq : safe fix len [] [] (.query src sel pre grp post ord rows) = true →
        ∀ st, (run fix len S .honourRows db (.query src sel pre grp post ord rows) st).envs =
        (run fix len S .ignore db (.query src sel pre grp post ord rows) st).envs := by
      intro hos st
      simp only [safe] at hos
      simp only [run]
      have hp := (run_prune fix len S db src hw.2).1 (optList pre) (optList pre)
        (queryCtx fix len st.err src sel pre grp post ord) hos hw.1.2 hw.1.1
        (factorsTables_queryCtx fix len st.err src sel pre grp post ord)
        (fromSeen_queryCtx fix len st.err src sel pre grp post ord)
        (justified_queryCtx fix len st.err src sel pre grp post ord (origins src))
      have hk := hp.filter_eq (fun e => holdsOpt S e pre) (fun e _ hd => not_on_of_doomed hd)
      rw [hk]
    exact ⟨fun _ _ st hos _ _ _ _ _ => Prune.of_eq (heq (by simpa [safe] using hos) st), fun _ => heq⟩

end ForML.PushDown
