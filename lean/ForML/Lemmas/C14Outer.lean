/-
C14 — helper lemmas, part 7: `run_prune` extended to join trees with harmless outer joins (`outerSafe`): the ON
condition of an outer join yields no factor and no table of a NULL-supplying side is offered a factor from above, so
NULL-supplying sides are scanned unfiltered and preserved sides only lose rows the conditions above reject.
Used by `ForML.Props.C14` (`C14_filter_partial_outer`).
-/
import ForML.Lemmas.C14Filter
namespace ForML.PushDown
open ForML.Dsl

theorem Prune.eq_of_false {α : Type} {D : α → Prop} {l' l : List α} (h : Prune D l' l) (hD : ∀ a, ¬ D a) : l' = l := by
  induction h with
  | nil => rfl
  | keep _ ih => rw [ih]
  | drop hd _ _ => exact absurd hd (hD _)

theorem not_doomed_nil (S : Sem) (e : Env) : ¬ Doomed S [] e := by
  rintro ⟨p, hp, _⟩
  simp at hp

theorem dom_nullEnv (os : List Source) : dom (nullEnv os) = os := by
  induction os with
  | nil => rfl
  | cons o os ih =>
    simp only [dom, nullEnv, List.map_cons, List.cons.injEq, true_and] at ih ⊢
    exact ih

/-- the environments of any join tree bind exactly its origins, in order -/
theorem run_dom' (len : Bool) (S : Sem) (B : Backend) (db : Db) :
    ∀ (s : Source) (st : Segs), ∀ e ∈ (run len S B db s st).envs, dom e = origins s
  | .table n fs, st, e, he => by
    simp only [run, List.mem_map] at he
    obtain ⟨r, _, rfl⟩ := he
    simp [dom, origins]
  | .ref i nm, st, e, he => by
    simp only [run, List.mem_map] at he
    obtain ⟨r, _, rfl⟩ := he
    simp [dom, origins, rebind]
  | .join l r k c, st, e, he => by
    simp only [run] at he
    have hl := run_dom' len S B db l (st.filterOpt len c)
    have hr := run_dom' len S B db r (run len S B db l (st.filterOpt len c)).st
    simp only [origins]
    have pair : ∀ el ∈ (run len S B db l (st.filterOpt len c)).envs,
        ∀ er ∈ (run len S B db r (run len S B db l (st.filterOpt len c)).st).envs,
        dom (el ++ er) = origins l ++ origins r := fun el hel er her => by rw [dom_append, hl el hel, hr er her]
    have lnull : ∀ el ∈ (run len S B db l (st.filterOpt len c)).envs, dom (el ++ nullEnv (origins r)) = origins l ++ origins r :=
      fun el hel => by rw [dom_append, hl el hel, dom_nullEnv]
    have rnull : ∀ er ∈ (run len S B db r (run len S B db l (st.filterOpt len c)).st).envs,
        dom (nullEnv (origins l) ++ er) = origins l ++ origins r :=
      fun er her => by rw [dom_append, hr er her, dom_nullEnv]
    have leftPart : ∀ e ∈ (run len S B db l (st.filterOpt len c)).envs.flatMap (fun el =>
        if ((List.map (fun er => el ++ er) (run len S B db r (run len S B db l (st.filterOpt len c)).st).envs).filter
            (fun e => holdsOpt S e c)).isEmpty then [el ++ nullEnv (origins r)]
        else (List.map (fun er => el ++ er) (run len S B db r (run len S B db l (st.filterOpt len c)).st).envs).filter
            (fun e => holdsOpt S e c)), dom e = origins l ++ origins r := by
      intro e he
      obtain ⟨el, hel, he⟩ := List.mem_flatMap.mp he
      split at he
      · simp only [List.mem_singleton] at he
        exact he ▸ lnull el hel
      · obtain ⟨er, her, rfl⟩ := List.mem_map.mp (List.mem_filter.mp he).1
        exact pair el hel er her
    cases k with
    | inner =>
      simp only [joinRows, prod] at he
      obtain ⟨el, hel, hm⟩ := List.mem_flatMap.mp (List.mem_filter.mp he).1
      obtain ⟨er, her, rfl⟩ := List.mem_map.mp hm
      exact pair el hel er her
    | cross =>
      simp only [joinRows, prod] at he
      obtain ⟨el, hel, hm⟩ := List.mem_flatMap.mp (List.mem_filter.mp he).1
      obtain ⟨er, her, rfl⟩ := List.mem_map.mp hm
      exact pair el hel er her
    | left =>
      simp only [joinRows] at he
      exact leftPart e he
    | right =>
      simp only [joinRows] at he
      obtain ⟨er, her, he⟩ := List.mem_flatMap.mp he
      split at he
      · simp only [List.mem_singleton] at he
        exact he ▸ rnull er her
      · obtain ⟨el, hel, rfl⟩ := List.mem_map.mp (List.mem_filter.mp he).1
        exact pair el hel er her
    | full =>
      simp only [joinRows, List.mem_append] at he
      rcases he with he | he
      · exact leftPart e he
      · obtain ⟨er, her, rfl⟩ := List.mem_map.mp he
        exact rnull er (List.mem_filter.mp her).1
  | .set l r k, st, e, he => by
    simp only [run, List.mem_map] at he
    obtain ⟨r, _, rfl⟩ := he
    simp [dom, origins]
  | .query src sel pre grp post ord rows, st, e, he => by
    simp only [run, List.mem_map] at he
    obtain ⟨r, _, rfl⟩ := he
    simp [dom, origins]


theorem filterOpt_factors_eq {len : Bool} {st : Segs} {c : FeatureOpt} (h : factorTables len c = [])
    (x : Source × Feature) : x ∈ (st.filterOpt len c).factors ↔ x ∈ st.factors := by
  constructor
  · intro hx
    rcases filterOpt_factors_mem hx with hx | ⟨p, hp, m, hm, hxm⟩
    · exact hx
    · cases c with
      | none => simp [optList] at hp
      | some c =>
        simp only [optList, List.mem_singleton] at hp
        subst hp
        simp only [factorTables, hm, List.map_eq_nil_iff] at h
        simp [h] at hxm
  · exact filterOpt_factors_mono

theorem noFactorFor_spec {len : Bool} {P : List Feature} {os : List Source} (h : noFactorFor len P os = true)
    {o : Source} (ho : o ∈ os) {p : Feature} (hp : p ∈ P) {m : FMap} (hm : factorsOf len p = .ok m) {f : Feature} :
    (o, f) ∉ m := by
  intro hf
  unfold noFactorFor at h
  rw [List.all_eq_true] at h
  have := h o ho
  rw [List.all_eq_true] at this
  have := this p hp
  simp only [factorTables, hm, Bool.not_eq_true', List.contains_eq_mem, decide_eq_false_iff_not, List.mem_map, not_exists,
    not_and] at this
  exact this (o, f) hf rfl

theorem justified_nil {len : Bool} {P : List Feature} {st : Segs} {ts ts' : List Source}
    (hj : Justified len P st ts) (hsub : ∀ t ∈ ts', t ∈ ts) (hn : noFactorFor len P ts' = true) :
    Justified len [] st ts' := by
  intro x hx hxt
  obtain ⟨p, hp, m, hm, hxm⟩ := hj x hx (hsub _ hxt)
  exact absurd hxm (noFactorFor_spec hn hxt hp hm)

/-- `run_prune` for join trees with harmless outer joins (`outerSafe`) -/
theorem run_prune_outer (len : Bool) (S : Sem) (db : Db) :
    ∀ (s : Source), wellScoped s = true →
      (∀ (O : List Source) (P : List Feature) (st : Segs), outerSafe len P s = true → joinsScoped s = true →
          (origins s).Nodup → (∀ o ∈ origins s, o ∈ O) → noAliasedScan O = true → FactorsWithin st O →
          Justified len P st (origins s) →
          Prune (Doomed S P) (run len S .honourRows db s st).envs (run len S .ignore db s st).envs)
      ∧ (isStmt s = true → outerSafe len [] s = true →
          ∀ st, (run len S .honourRows db s st).envs = (run len S .ignore db s st).envs)
  | .table n fs, _ => by
    refine ⟨?_, by simp [isStmt]⟩
    intro O P st _ _ _ _ _ _ hj
    simp only [run, Backend.honourRows, Backend.ignore]
    refine Prune.map _ (Prune.of_filter (D := fun r => Doomed S P [(Source.table n fs, r)]) _ _ ?_) (fun _ _ h => h)
    intro r _ hr
    exact doomed_of_not_passes len S (by simpa [origins] using hj) hr
  | .ref i nm, hw => by
    refine ⟨?_, by simp [isStmt]⟩
    intro O P st hos _ _ hO hna hfw _
    simp only [outerSafe] at hos
    simp only [wellScoped, Bool.and_eq_true, Bool.or_eq_true] at hw
    simp only [run]
    apply Prune.of_eq
    congr 1
    rcases hw.1 with ht | hs
    · cases i with
      | table n fs =>
        have hno : ∀ f, (Source.table n fs, f) ∉ st.factors := by
          intro f hf
          exact noAliased_mem hna (hO (.ref (.table n fs) nm) (by simp [origins])) ht (hfw _ hf)
        simp only [run, Backend.honourRows, Backend.ignore]
        congr 1
        apply List.filter_eq_self.mpr
        intro r _
        exact passes_of_no_factor S hno r
      | _ => simp [isTable] at ht
    · exact (run_prune_outer len S db i hw.2).2 hs hos st
  | .join l r k c, hw => by
    refine ⟨?_, by simp [isStmt]⟩
    intro O P st hos hjs hnd hO hna hfw hj
    simp only [wellScoped, Bool.and_eq_true] at hw
    simp only [joinsScoped, Bool.and_eq_true] at hjs
    simp only [origins, List.nodup_append] at hnd
    have hOl : ∀ o ∈ origins l, o ∈ O := fun o ho => hO o (by simp [origins, ho])
    have hOr : ∀ o ∈ origins r, o ∈ O := fun o ho => hO o (by simp [origins, ho])
    have hfw1 : FactorsWithin (st.filterOpt len c) O := by
      intro x hx
      rcases filterOpt_factors_mem hx with hx | ⟨p, hp, m, hm, hxm⟩
      · exact hfw x hx
      · obtain ⟨n, hn⟩ := factor_table_mem hm hxm
        have := scopedIn_mem hjs.1.1 (elemsAll_optList hp hn)
        exact hO _ (by simpa [origins] using this)
    have hst : (run len S .honourRows db l (st.filterOpt len c)).st = (run len S .ignore db l (st.filterOpt len c)).st :=
      (run_indep len S S .honourRows .ignore db db l _).1
    have hfw2 : FactorsWithin (run len S .ignore db l (st.filterOpt len c)).st O := by
      intro x hx
      rcases run_factors len S .ignore db l _ hw.1 hjs.1.2 x hx with hx | hx
      · exact hfw1 x hx
      · exact hOl _ hx
    have hdl := run_dom' len S .ignore db l (st.filterOpt len c)
    have hdr := run_dom' len S .ignore db r (run len S .ignore db l (st.filterOpt len c)).st
    have hdisj : ∀ o ∈ origins r, o ∉ origins l := fun o ho hol => hnd.2.2 o hol o ho rfl
    -- justification of the factors with the join condition counted as pending (inner joins) …
    have hj1 : ∀ ts, (∀ t ∈ ts, t ∈ origins (.join l r k c)) →
        Justified len (optList c ++ P) (st.filterOpt len c) ts := by
      intro ts hts x hx hxt
      rcases filterOpt_factors_mem hx with hx | ⟨p, hp, m, hm, hxm⟩
      · obtain ⟨p, hp, m, hm, hxm⟩ := hj x hx (hts _ hxt)
        exact ⟨p, by simp [hp], m, hm, hxm⟩
      · exact ⟨p, by simp [hp], m, hm, hxm⟩
    -- … and when it yields no factor at all (outer joins)
    have hj0 : factorTables len c = [] → ∀ ts, (∀ t ∈ ts, t ∈ origins (.join l r k c)) →
        Justified len P (st.filterOpt len c) ts := by
      intro hft ts hts x hx hxt
      exact hj x ((filterOpt_factors_eq hft x).mp hx) (hts _ hxt)
    have afterL : ∀ P', Justified len P' (st.filterOpt len c) (origins r) →
        Justified len P' (run len S .ignore db l (st.filterOpt len c)).st (origins r) := by
      intro P' h x hx hxt
      rcases run_factors len S .ignore db l _ hw.1 hjs.1.2 x hx with hx | hx
      · exact h x hx hxt
      · exact absurd rfl (hnd.2.2 _ hx _ hxt)
    simp only [run]
    rw [hst]
    cases k with
    | inner =>
      simp only [outerSafe, Bool.and_eq_true] at hos
      have iha := (run_prune_outer len S db l hw.1).1 O (optList c ++ P) _ hos.1 hjs.1.2 hnd.1 hOl hna hfw1
        (hj1 _ (fun t ht => by simp [origins, ht]))
      have ihb := (run_prune_outer len S db r hw.2).1 O (optList c ++ P) _ hos.2 hjs.2 hnd.2.1 hOr hna hfw2
        (afterL _ (hj1 _ (fun t ht => by simp [origins, ht])))
      have hfil := (prune_prod iha ihb hdl hdr hdisj).filter (fun e => holdsOpt S e c)
      refine (hfil.mono ?_)
      intro e he hd
      have hon := (List.mem_filter.mp he).2
      cases c with
      | none => simpa [optList] using hd
      | some c => exact Doomed.not_holds (by simpa [optList] using hd) (by simpa [holdsOpt] using hon)
    | cross =>
      simp only [outerSafe, Bool.and_eq_true] at hos
      have iha := (run_prune_outer len S db l hw.1).1 O (optList c ++ P) _ hos.1 hjs.1.2 hnd.1 hOl hna hfw1
        (hj1 _ (fun t ht => by simp [origins, ht]))
      have ihb := (run_prune_outer len S db r hw.2).1 O (optList c ++ P) _ hos.2 hjs.2 hnd.2.1 hOr hna hfw2
        (afterL _ (hj1 _ (fun t ht => by simp [origins, ht])))
      have hfil := (prune_prod iha ihb hdl hdr hdisj).filter (fun e => holdsOpt S e c)
      refine (hfil.mono ?_)
      intro e he hd
      have hon := (List.mem_filter.mp he).2
      cases c with
      | none => simpa [optList] using hd
      | some c => exact Doomed.not_holds (by simpa [optList] using hd) (by simpa [holdsOpt] using hon)
    | left =>
      simp only [outerSafe, Bool.and_eq_true, List.isEmpty_iff] at hos
      have hjl := hj0 hos.1.1.1 (origins l) (fun t ht => by simp [origins, ht])
      have hjr : Justified len [] (st.filterOpt len c) (origins r) :=
        justified_nil (hj0 hos.1.1.1 (origins r) (fun t ht => by simp [origins, ht])) (fun t ht => ht) hos.1.1.2
      have iha := (run_prune_outer len S db l hw.1).1 O P _ hos.1.2 hjs.1.2 hnd.1 hOl hna hfw1 hjl
      have ihb := ((run_prune_outer len S db r hw.2).1 O [] _ hos.2 hjs.2 hnd.2.1 hOr hna hfw2 (afterL _ hjr)).eq_of_false
        (not_doomed_nil S)
      rw [ihb]
      simp only [joinRows]
      refine Prune.flatMap _ _ iha (fun _ _ => Prune.refl _) ?_
      intro el _ hd b hb
      split at hb
      · simp only [List.mem_singleton] at hb
        exact hb ▸ hd.append_left _
      · obtain ⟨er, _, rfl⟩ := List.mem_map.mp (List.mem_filter.mp hb).1
        exact hd.append_left _
    | right =>
      simp only [outerSafe, Bool.and_eq_true, List.isEmpty_iff] at hos
      have hjl : Justified len [] (st.filterOpt len c) (origins l) :=
        justified_nil (hj0 hos.1.1.1 (origins l) (fun t ht => by simp [origins, ht])) (fun t ht => ht) hos.1.1.2
      have hjr := hj0 hos.1.1.1 (origins r) (fun t ht => by simp [origins, ht])
      have iha := ((run_prune_outer len S db l hw.1).1 O [] _ hos.1.2 hjs.1.2 hnd.1 hOl hna hfw1 hjl).eq_of_false
        (not_doomed_nil S)
      have ihb := (run_prune_outer len S db r hw.2).1 O P _ hos.2 hjs.2 hnd.2.1 hOr hna hfw2 (afterL _ hjr)
      rw [iha]
      simp only [joinRows]
      refine Prune.flatMap _ _ ihb (fun _ _ => Prune.refl _) ?_
      intro er her hd b hb
      split at hb
      · simp only [List.mem_singleton] at hb
        exact hb ▸ hd.append_right _ (by rw [hdr er her, dom_nullEnv]; exact hdisj)
      · obtain ⟨el, hel, rfl⟩ := List.mem_map.mp (List.mem_filter.mp hb).1
        exact hd.append_right _ (by rw [hdr er her, hdl el hel]; exact hdisj)
    | full =>
      simp only [outerSafe, Bool.and_eq_true, List.isEmpty_iff] at hos
      have hjl : Justified len [] (st.filterOpt len c) (origins l) :=
        justified_nil (hj0 hos.1.1.1.1 (origins l) (fun t ht => by simp [origins, ht])) (fun t ht => ht) hos.1.1.1.2
      have hjr : Justified len [] (st.filterOpt len c) (origins r) :=
        justified_nil (hj0 hos.1.1.1.1 (origins r) (fun t ht => by simp [origins, ht])) (fun t ht => ht) hos.1.1.2
      have iha := ((run_prune_outer len S db l hw.1).1 O [] _ hos.1.2 hjs.1.2 hnd.1 hOl hna hfw1 hjl).eq_of_false
        (not_doomed_nil S)
      have ihb := ((run_prune_outer len S db r hw.2).1 O [] _ hos.2 hjs.2 hnd.2.1 hOr hna hfw2 (afterL _ hjr)).eq_of_false
        (not_doomed_nil S)
      rw [iha, ihb]
      exact Prune.refl _
  | .set l r k, hw => by
    simp only [wellScoped, Bool.and_eq_true] at hw
    have heq : outerSafe len [] (.set l r k) = true →
        ∀ st, (run len S .honourRows db (.set l r k) st).envs = (run len S .ignore db (.set l r k) st).envs := by
      intro hos st
      simp only [outerSafe, Bool.and_eq_true] at hos
      simp only [run]
      rw [(run_prune_outer len S db l hw.1.2).2 hw.1.1.1 hos.1 st, (run_indep len S S .honourRows .ignore db db l st).1,
        (run_prune_outer len S db r hw.2).2 hw.1.1.2 hos.2 _]
    exact ⟨fun _ _ st hos _ _ _ _ _ _ => Prune.of_eq (heq (by simpa [outerSafe] using hos) st), fun _ => heq⟩
  | .query src sel pre grp post ord rows, hw => by
    simp only [wellScoped, Bool.and_eq_true, decide_eq_true_eq] at hw
    have heq : outerSafe len [] (.query src sel pre grp post ord rows) = true →
        ∀ st, (run len S .honourRows db (.query src sel pre grp post ord rows) st).envs =
        (run len S .ignore db (.query src sel pre grp post ord rows) st).envs := by
      intro hos st
      simp only [outerSafe] at hos
      simp only [run]
      have hp := (run_prune_outer len S db src hw.2).1 (origins src) (optList pre)
        (queryCtx len st.err src sel pre grp post ord) hos hw.1.1.1.2 hw.1.1.1.1 (fun o ho => ho) hw.1.2
        (within_queryCtx len st.err src sel pre grp post ord hw.1.1.2)
        (justified_queryCtx len st.err src sel pre grp post ord (origins src))
      have hk := hp.filter_eq (fun e => holdsOpt S e pre) (by
        intro e _ hd
        cases pre with
        | none =>
          obtain ⟨p, hp, _⟩ := hd
          simp [optList] at hp
        | some p =>
          obtain ⟨q, hq, hf⟩ := hd
          simp only [optList, List.mem_singleton] at hq
          subst hq
          have := hf e (Extends.refl e)
          simpa [holdsOpt, holds] using this)
      rw [hk]
    exact ⟨fun _ _ st hos _ _ _ _ _ _ => Prune.of_eq (heq (by simpa [outerSafe] using hos) st), fun _ => heq⟩

end ForML.PushDown
