/-
C03 — helper lemmas: collector nodes of the stacking ensemble (`label_output`, `train_output`, `apply_output`, the
per-base `stacker` / `reducer` forks): a stateless N:1 worker that is created first, gets its input ports
subscribed one by one while the publishers are being built, and becomes evaluable at the end.
-/
import ForML.Lemmas.C03Iter

namespace ForML.Compose

/-- `col` is a recorded, not yet evaluable `N:1` worker whose ports `0..i-1` are subscribed to `ins` -/
structure Coll (g : Graph) (W : World) (col gid : Nat) (a : Actor) (N i : Nat) (ins : Nat → PubRef) : Prop where
  kind : g.kindOf col = some (.worker gid a N 1)
  notLive : ¬ W.live col
  lt : col < g.next
  filled : ∀ k, k < i → g.inputOf col k = some (ins k)
  free : ∀ k, i ≤ k → g.inputOf col k = none

theorem Coll.frame {g g' : Graph} {W W' : World} {col gid a N i ins} (h : Coll g W col gid a N i ins) (hf : Frame g g')
    (ha : Agree g.next W W') : Coll g' W' col gid a N i ins := by
  have := hf.next_le
  exact ⟨by rw [hf.kind col h.lt]; exact h.kind, fun hl => h.notLive (((ha col h.lt).1).mp hl), by have := h.lt; omega,
    fun k hk => by rw [hf.input col k h.lt]; exact h.filled k hk, fun k hk => by rw [hf.input col k h.lt]; exact h.free k hk⟩

/-- a step that leaves the collector's own lookups alone -/
theorem Coll.same {g g' : Graph} {W W' : World} {col gid a N i ins} (h : Coll g W col gid a N i ins)
    (hk : g'.kindOf col = g.kindOf col) (hin : ∀ k, g'.inputOf col k = g.inputOf col k) (hn : g.next ≤ g'.next)
    (hl : W'.live col → W.live col) : Coll g' W' col gid a N i ins :=
  ⟨by rw [hk]; exact h.kind, fun x => h.notLive (hl x), by have := h.lt; omega, fun k hk' => by rw [hin]; exact h.filled k hk',
    fun k hk' => by rw [hin]; exact h.free k hk'⟩

/-- subscribing the next port -/
theorem Coll.push {g : Graph} {W : World} {col gid a N i ins} (h : Coll g W col gid a N i ins) (hi : Inv g W) (hw : Wired g)
    (q : PubRef) (hq : q.node < g.next) :
    Run (subscribe col i q) g () (g.pushEdge ⟨col, i, q⟩) ∧ Inv (g.pushEdge ⟨col, i, q⟩) W ∧
      Wired (g.pushEdge ⟨col, i, q⟩) ∧
      Coll (g.pushEdge ⟨col, i, q⟩) W col gid a N (i + 1) (fun k => if k = i then q else ins k) := by
  have hfree := h.free i (Nat.le_refl _)
  refine ⟨run_subscribe col i q g hfree, hi.pushEdge_notLive _ h.notLive h.lt, hw.pushEdge _ hq hfree, ?_⟩
  refine ⟨by simpa using h.kind, h.notLive, by simpa using h.lt, ?_, ?_⟩
  · intro k hk
    rw [inputOf_pushEdge]
    by_cases hki : k = i
    · subst hki; rw [hfree]; simp
    · rw [h.filled k (by omega)]; simp [hki]
  · intro k hk
    rw [inputOf_pushEdge, h.free k (by omega)]
    have : ¬ i = k := by omega
    simp [this]

/-- a complete stateless collector becomes evaluable -/
theorem Coll.mkLive {g : Graph} {W : World} {col gid a N ins} (h : Coll g W col gid a N N ins) (hi : Inv g W)
    (hs : a.stateful = false) (R : Nat) (hR : R < g.next) (hins : ∀ k, k < N → RefOk W (ins k) R) :
    Inv g (W.set col (fun _ => .apply a.tag .none ((List.range N).map (fun k => W.σ (ins k)))) R) := by
  have := hi.liveWorker col gid a N 1 ins R .none h.kind h.notLive hR (fun k hk => ⟨h.filled k hk, hins k hk⟩)
    (StateFor.stateless hs)
  have he : (fun i => portVal 1 i (.apply a.tag .none ((List.range N).map (fun k => W.σ (ins k))))) =
      (fun _ : Nat => Val.apply a.tag .none ((List.range N).map (fun k => W.σ (ins k)))) := by
    funext i; simp [portVal]
  rw [he] at this
  exact this

/-- indexing a list through `range` -/
theorem map_range_getD {α β} (f : α → β) (d : α) : ∀ (l : List α), (List.range l.length).map (fun i => f (l.getD i d)) = l.map f := by
  intro l
  induction l with
  | nil => rfl
  | cons x xs ih =>
    rw [List.length_cons, List.range_succ_eq_map, List.map_cons, List.map_map, List.map_cons]
    congr 1

end ForML.Compose
