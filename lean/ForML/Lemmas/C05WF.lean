/-
Helper lemmas for C05: every file-system micro-operation keeps the tree shape (`Fs.WF`: the parent of every present
path is a directory) — so every tree a registry call, a history or a crash can leave is well formed.
-/
import ForML.Lemmas.C05

namespace ForML.Fs

/-- `WF` in terms of lookups -/
def Rooted (fs : Fs) : Prop := ∀ k n, get fs k = some n → k ≠ [] → get fs (parent k) = some .dir

theorem get_of_mem (fs : Fs) (k : Path) (n : Node) (h : (k, n) ∈ fs) : ∃ n', get fs k = some n' := by
  induction fs with
  | nil => cases h
  | cons e r ih =>
    simp only [get]
    by_cases hk : k = e.1
    · exact ⟨e.2, by simp [hk]⟩
    · rcases List.mem_cons.mp h with h | h
      · exact absurd (by rw [← h]) hk
      · obtain ⟨n', hn⟩ := ih h
        exact ⟨n', by simp [hk, hn]⟩

theorem WF.rooted {fs : Fs} (w : WF fs) : Rooted fs := fun k n h hk => w.parent_dir k n h hk

theorem Rooted.wf {fs : Fs} (r : Rooted fs) : WF fs := by
  intro e he
  by_cases hk : e.1 = []
  · exact Or.inl hk
  · obtain ⟨n', hn⟩ := get_of_mem fs e.1 e.2 he
    exact Or.inr (r e.1 n' hn hk)

theorem parent_prefix (k : Path) : parent k <+: k := List.dropLast_prefix k

theorem not_prefix_parent (p k : Path) (h : ¬ p <+: k) : ¬ p <+: parent k :=
  fun h' => h (List.IsPrefix.trans h' (parent_prefix k))

theorem not_self_prefix_parent (k : Path) (hne : k ≠ []) : ¬ k <+: parent k := by
  intro h
  have := h.length_le
  cases k with
  | nil => exact hne rfl
  | cons a r => simp [parent] at this; omega

/-! ### the directory rename -/

theorem swapKey_invol (p q x : Path) (hpq : ¬ p <+: q) (hqp : ¬ q <+: p) : swapKey p q (swapKey p q x) = x := by
  unfold swapKey
  by_cases h1 : p <+: x
  · simp only [h1, if_true]
    have hx : p ++ x.drop p.length = x := List.prefix_iff_eq_append.mp h1
    have n1 : ¬ p <+: q ++ x.drop p.length := by
      intro h
      rcases List.prefix_or_prefix_of_prefix h (List.prefix_append q _) with h | h
      · exact hpq h
      · exact hqp h
    simp only [n1, if_false, List.prefix_append, if_true, List.drop_left]
    exact hx
  · simp only [h1, if_false]
    by_cases h2 : q <+: x
    · simp only [h2, if_true, List.prefix_append, List.drop_left]
      exact List.prefix_iff_eq_append.mp h2
    · simp [h1, h2]

theorem get_moveTree (fs : Fs) (p q k : Path) (hpq : ¬ p <+: q) (hqp : ¬ q <+: p) :
    get (moveTree fs p q) k = get fs (swapKey p q k) := by
  induction fs with
  | nil => rfl
  | cons e r ih =>
    simp only [moveTree, List.map_cons, get] at ih ⊢
    rw [ih]
    by_cases h : k = swapKey p q e.1
    · have : swapKey p q k = e.1 := by rw [h]; exact swapKey_invol p q e.1 hpq hqp
      rw [this]; simp [h]
    · have : ¬ swapKey p q k = e.1 := by
        intro h'; apply h; rw [← h']; exact (swapKey_invol p q k hpq hqp).symm
      simp [h, this]

theorem mem_of_get' (fs : Fs) (k : Path) (n : Node) (h : get fs k = some n) : (k, n) ∈ fs := mem_of_get fs k n h

/-! ### every operation keeps the tree shape -/

theorem step_rooted (fs fs' : Fs) (op : Op) (r : Rooted fs) (h : step fs op = some fs') : Rooted fs' := by
  intro k n hk hne
  cases op with
  | mkdir p =>
    simp only [step] at h; split at h <;> cases h
    rename_i hc
    obtain ⟨hp, hpar, hnone⟩ := hc
    rw [get_set] at hk ⊢
    by_cases hpk : parent k = p
    · simp [hpk]
    · simp only [hpk, if_false]
      by_cases hkp : k = p
      · subst hkp; exact hpar
      · simp only [hkp, if_false] at hk; exact r k n hk hne
  | createEmpty p =>
    simp only [step] at h; split at h <;> cases h
    rename_i hc
    obtain ⟨hp, hpar, hnd⟩ := hc
    rw [get_set] at hk ⊢
    by_cases hkp : k = p
    · subst hkp; simp [parent_ne k hne, hpar]
    · simp only [hkp, if_false] at hk
      have := r k n hk hne
      by_cases hpk : parent k = p
      · rw [hpk] at this; exact absurd this hnd
      · simp [hpk, this]
  | copyFile p b =>
    simp only [step] at h; split at h <;> cases h
    rename_i hc
    obtain ⟨hp, hpar, hnd⟩ := hc
    rw [get_set] at hk ⊢
    by_cases hkp : k = p
    · subst hkp; simp [parent_ne k hne, hpar]
    · simp only [hkp, if_false] at hk
      have := r k n hk hne
      by_cases hpk : parent k = p
      · rw [hpk] at this; exact absurd this hnd
      · simp [hpk, this]
  | append p b =>
    simp only [step] at h
    split at h
    · rename_i c hg
      cases h
      rw [get_set] at hk ⊢
      by_cases hkp : k = p
      · subst hkp; simp [parent_ne k hne]; exact r k _ hg hne
      · simp only [hkp, if_false] at hk
        have := r k n hk hne
        by_cases hpk : parent k = p
        · rw [hpk, hg] at this; cases this
        · simp [hpk, this]
    · cases h
  | rename p q =>
    simp only [step] at h
    split at h
    · rename_i c hg
      split at h <;> cases h
      rename_i hc
      obtain ⟨hq, hpar, hnd⟩ := hc
      rw [get_set, get_del] at hk
      rw [get_set, get_del]
      by_cases hkq : k = q
      · subst hkq
        have h1 : parent k ≠ k := parent_ne k hne
        have h2 : parent k ≠ p := by intro e; rw [e, hg] at hpar; cases hpar
        simp [h1, h2, hpar]
      · simp only [hkq, if_false] at hk
        by_cases hkp : k = p
        · simp [hkp] at hk
        · simp only [hkp, if_false] at hk
          have := r k n hk hne
          have h1 : parent k ≠ q := by intro e; rw [e] at this; exact hnd this
          have h2 : parent k ≠ p := by intro e; rw [e, hg] at this; cases this
          simp [h1, h2, this]
    · rename_i hg
      split at h <;> cases h
      rename_i hc
      obtain ⟨hq, hpar, hnone, hpq, hqp, hall⟩ := hc
      rw [get_moveTree fs p q k hpq hqp] at hk
      have nobelow : ∀ x m, get fs x = some m → ¬ q <+: x := by
        intro x m hx hqx
        have := List.all_eq_true.mp hall (x, m) (mem_of_get fs x m hx)
        simp [hqx] at this
      by_cases h1 : p <+: k
      · -- nothing lies below `p` after the move
        exfalso
        have : swapKey p q k = q ++ k.drop p.length := by simp [swapKey, h1]
        rw [this] at hk
        exact nobelow _ n hk (List.prefix_append _ _)
      · by_cases h2 : q <+: k
        · have hsk : swapKey p q k = p ++ k.drop q.length := by simp [swapKey, h1, h2]
          rw [hsk] at hk
          have hkq : q ++ k.drop q.length = k := List.prefix_iff_eq_append.mp h2
          by_cases hrest : k.drop q.length = []
          · -- `k = q`
            have hk' : k = q := by rw [← hkq, hrest, List.append_nil]
            subst hk'
            rw [get_moveTree_other fs p k (parent k) (not_prefix_parent p k h1) (not_self_prefix_parent k hne)]
            exact hpar
          · have hp' : parent k = q ++ (k.drop q.length).dropLast := by
              conv => lhs; rw [← hkq]
              simp [parent, List.dropLast_append_of_ne_nil hrest]
            rw [get_moveTree fs p q _ hpq hqp, hp']
            have : swapKey p q (q ++ (k.drop q.length).dropLast) = p ++ (k.drop q.length).dropLast := by
              have n1 : ¬ p <+: q ++ (k.drop q.length).dropLast := by
                intro h
                rcases List.prefix_or_prefix_of_prefix h (List.prefix_append q _) with h | h
                · exact hpq h
                · exact hqp h
              simp [swapKey, n1]
            rw [this]
            have hne' : p ++ k.drop q.length ≠ [] := by simp [hrest]
            have := r _ n hk hne'
            simpa [parent, List.dropLast_append_of_ne_nil hrest] using this
        · have hsk : swapKey p q k = k := by simp [swapKey, h1, h2]
          rw [hsk] at hk
          rw [get_moveTree_other fs p q (parent k) (not_prefix_parent p k h1) (not_prefix_parent q k h2)]
          exact r k n hk hne
    · cases h
  | rmtree p =>
    simp only [step] at h
    split at h
    · cases h
      rw [get_rmtree] at hk ⊢
      by_cases hpk : p <+: k
      · simp [hpk] at hk
      · simp only [hpk, if_false] at hk
        simp only [not_prefix_parent p k hpk, if_false]
        exact r k n hk hne
    · cases h; exact r k n hk hne

theorem step_wf (fs fs' : Fs) (op : Op) (w : WF fs) (h : step fs op = some fs') : WF fs' :=
  (step_rooted fs fs' op w.rooted h).wf

theorem run_wf (ops : List Op) (fs fs' : Fs) (w : WF fs) (h : run fs ops = some fs') : WF fs' := by
  induction ops generalizing fs with
  | nil => simp [run] at h; subst h; exact w
  | cons op rest ih =>
    simp only [run] at h
    split at h
    · rename_i fs1 h1; exact ih fs1 (step_wf fs fs1 op w h1) h
    · cases h

theorem runSome_wf (ops : List Op) (fs : Fs) (w : WF fs) : WF (runSome fs ops).1 := by
  obtain ⟨j, hj⟩ := runSome_prefix ops fs
  exact run_wf _ fs _ w hj

theorem empty_wf : WF empty := by decide

end ForML.Fs
