/-
C16 helper lemmas: executor id bookkeeping (`ExecOk`), inversion of `step`, and the three invariant groups
(`ExecOk` per executor, `InvD` descriptor cache / lock, `InvC` correlation) with their preservation proofs.
Core Lean only.
-/
import ForML.Model.Serving
import ForML.Lemmas.C16Worker
namespace ForML.Serving

structure ExecOk (e : Exec) : Prop where
  keys_nodup : (keys e).Nodup
  fl_nodup : (inflight e).Nodup
  fl_keys : ∀ id, id ∈ inflight e ↔ id ∈ keys e
  keys_lt : ∀ id, id ∈ keys e → id < e.next

/-- generic transfer: in-flight ids and keys both gain the same fresh id -/
theorem ExecOk.grow {e e' : Exec} (h : ExecOk e) (n : Nat) (hn : e.next ≤ n) (hnext : e'.next = n + 1)
    (hk : keys e' = n :: keys e) (hf : (inflight e').Perm (n :: inflight e)) : ExecOk e' := by
  have h1 : n ∉ keys e := fun hm => by have := h.keys_lt _ hm; omega
  have h2 : n ∉ inflight e := fun hm => h1 ((h.fl_keys _).1 hm)
  refine ⟨?_, ?_, ?_, ?_⟩
  · rw [hk]; exact List.nodup_cons.2 ⟨h1, h.keys_nodup⟩
  · exact hf.nodup_iff.2 (List.nodup_cons.2 ⟨h2, h.fl_nodup⟩)
  · intro id; rw [hf.mem_iff, hk]; simp [h.fl_keys]
  · intro id; rw [hk, hnext]; intro hm
    rcases List.mem_cons.1 hm with rfl | hm
    · omega
    · have := h.keys_lt _ hm; omega

/-- generic transfer: in-flight ids are permuted, pending unchanged -/
theorem ExecOk.shuffle {e e' : Exec} (h : ExecOk e) (hnext : e'.next = e.next)
    (hk : keys e' = keys e) (hf : (inflight e').Perm (inflight e)) : ExecOk e' := by
  refine ⟨?_, ?_, ?_, ?_⟩
  · rw [hk]; exact h.keys_nodup
  · exact hf.nodup_iff.2 h.fl_nodup
  · intro id; rw [hf.mem_iff, hk]; exact h.fl_keys id
  · intro id; rw [hk, hnext]; exact h.keys_lt id

/-- generic transfer: one id leaves both -/
theorem ExecOk.shrink {e e' : Exec} (h : ExecOk e) (n : Nat) (hnext : e'.next = e.next)
    (hk : (keys e).Perm (n :: keys e')) (hf : (inflight e).Perm (n :: inflight e')) : ExecOk e' := by
  have k1 := hk.nodup_iff.1 h.keys_nodup
  have f1 := hf.nodup_iff.1 h.fl_nodup
  rw [List.nodup_cons] at k1 f1
  refine ⟨k1.2, f1.2, ?_, ?_⟩
  · intro id
    have a := h.fl_keys id
    rw [hf.mem_iff, hk.mem_iff] at a
    simp only [List.mem_cons] at a
    constructor
    · intro hm; have := a.1 (Or.inr hm); rcases this with rfl | h'
      · exact absurd hm f1.1
      · exact h'
    · intro hm; have := a.2 (Or.inr hm); rcases this with rfl | h'
      · exact absurd hm k1.1
      · exact h'
  · intro id hm; rw [hnext]; exact h.keys_lt id (hk.mem_iff.2 (List.mem_cons_of_mem _ hm))

theorem lookup_mem {l : List (Nat × β)} {k : Nat} {v : β} (h : l.lookup k = some v) : (k, v) ∈ l := by
  induction l with
  | nil => simp at h
  | cons x r ih =>
    obtain ⟨a, b⟩ := x
    simp only [List.lookup] at h
    split at h
    · rename_i heq; simp at heq; cases h; simp [heq]
    · exact List.mem_cons_of_mem _ (ih h)

theorem lookup_none {l : List (Nat × β)} {k : Nat} (h : l.lookup k = none) : k ∉ l.map (·.1) := by
  induction l with
  | nil => simp
  | cons x r ih =>
    obtain ⟨a, b⟩ := x
    simp only [List.lookup] at h
    split at h
    · cases h
    · rename_i hne; simp at hne; simp; exact ⟨hne, by simpa using ih h⟩


theorem ExecOk.submit {e : Exec} (h : ExecOk e) (c : Nat) (en : Entry) :
    ExecOk { e with started := true, next := e.next + 1, pending := (e.next, c) :: e.pending,
                    taskQ := e.taskQ ++ [⟨e.next, en⟩] } := by
  refine h.grow e.next (Nat.le_refl _) rfl (by simp [keys]) ?_
  simp only [inflight, List.map_append, List.map_cons, List.map_nil, List.append_assoc, List.singleton_append]
  exact List.perm_middle

theorem ExecOk.take {e : Exec} (h : ExecOk e) (w : Nat) (t : Task) (q : List Task) (hq : e.taskQ = t :: q) :
    ExecOk { e with taskQ := q, held := (w, t) :: e.held } := by
  refine h.shuffle rfl rfl ?_
  simp only [inflight, hq, List.map_cons, List.append_assoc, List.cons_append]
  exact List.perm_middle

theorem ExecOk.finish {e : Exec} (h : ExecOk e) (w : Nat) (t : Task) (o : Outcome) (b : Bool) (cr : Nat → Carry)
    (hm : (w, t) ∈ e.held) :
    ExecOk { e with held := e.held.erase (w, t), resultQ := e.resultQ ++ [⟨t.id, o⟩], stopped := b, carry := cr } := by
  refine h.shuffle rfl rfl ?_
  simp only [inflight, List.map_append, List.map_cons, List.map_nil, List.append_assoc]
  have p : (e.held.map (·.2.id)).Perm (t.id :: (e.held.erase (w, t)).map (·.2.id)) :=
    (List.perm_cons_erase hm).map _
  refine (List.Perm.append_left _ ?_)
  refine List.Perm.trans ?_ (List.Perm.append_right _ p.symm)
  simp only [List.cons_append]
  rw [← List.append_assoc]
  have := @List.perm_middle _ t.id ((e.held.erase (w, t)).map (·.2.id) ++ e.resultQ.map (·.id)) []
  simpa using this

theorem ExecOk.deliver {e : Exec} (h : ExecOk e) (r : Result) (q : List Result) (c : Nat)
    (hq : e.resultQ = r :: q) (hm : (r.id, c) ∈ e.pending) :
    ExecOk { e with resultQ := q, pending := e.pending.erase (r.id, c) } := by
  refine h.shrink r.id rfl ?_ ?_
  · exact (List.perm_cons_erase hm).map (·.1)
  · simp only [inflight, hq, List.map_cons]
    exact List.perm_middle

theorem ExecOk.init : ExecOk {} := by
  refine ⟨?_, ?_, ?_, ?_⟩ <;> simp [keys, inflight]

variable {cfg : Config} {s s' : State}

theorem step_arrive {c : Nat} (h : step cfg s (.arrive c) = some s') :
    c < cfg.callers.length ∧ s.phase c = .fresh ∧ s' = { s with phase := upd s.phase c .d0 } := by
  simp only [step] at h
  split at h
  · rename_i hc; cases h; exact ⟨hc.1, hc.2, rfl⟩
  · cases h

/-- the seven enabled shapes of a `_get_descriptor` step -/
theorem step_desc {c : Nat} (h : step cfg s (.desc c) = some s') :
    (s.phase c = .d0 ∧ ¬(cfg.locked = true ∧ s.lock ≠ none) ∧ (spec cfg c).app ∈ s.cache
        ∧ s' = { s with phase := upd s.phase c .resolved })
    ∨ (s.phase c = .d0 ∧ ¬(cfg.locked = true ∧ s.lock ≠ none) ∧ (spec cfg c).app ∉ s.cache
        ∧ s' = { s with phase := upd s.phase c .d1, lock := if cfg.locked then some c else none })
    ∨ (s.phase c = .d1 ∧ s' = { s with phase := upd s.phase c (.d2 cfg.inventory) })
    ∨ (∃ l, s.phase c = .d2 l ∧ s' = { s with phase := upd s.phase c (.d3 (l.filter (fun a => a ∉ s.cache))) })
    ∨ (∃ u, s.phase c = .d3 u ∧ s' = { s with phase := upd s.phase c (.d4 u), cache := s.cache ++ u })
    ∨ (∃ u, s.phase c = .d4 u ∧ (spec cfg c).app ∈ u
        ∧ s' = { s with phase := upd s.phase c .resolved, lock := none })
    ∨ (∃ u, s.phase c = .d4 u ∧ (spec cfg c).app ∉ u
        ∧ s' = { answer s c (.error .missingApp) with lock := none }) := by
  simp only [step] at h
  split at h
  · rename_i hp
    split at h
    · cases h
    · rename_i hl
      split at h
      · rename_i hc; cases h; exact Or.inl ⟨hp, hl, hc, rfl⟩
      · rename_i hc; cases h; exact Or.inr (Or.inl ⟨hp, hl, hc, rfl⟩)
  · rename_i hp; cases h; exact Or.inr (Or.inr (Or.inl ⟨hp, rfl⟩))
  · rename_i l hp; cases h; exact Or.inr (Or.inr (Or.inr (Or.inl ⟨l, hp, rfl⟩)))
  · rename_i u hp; cases h; exact Or.inr (Or.inr (Or.inr (Or.inr (Or.inl ⟨u, hp, rfl⟩))))
  · rename_i u hp
    split at h
    · rename_i hc; cases h; exact Or.inr (Or.inr (Or.inr (Or.inr (Or.inr (Or.inl ⟨u, hp, hc, rfl⟩)))))
    · rename_i hc; cases h; exact Or.inr (Or.inr (Or.inr (Or.inr (Or.inr (Or.inr ⟨u, hp, hc, rfl⟩)))))
  · cases h

theorem step_decodeFail {c : Nat} (h : step cfg s (.decodeFail c) = some s') :
    s.phase c = .resolved ∧ (spec cfg c).badEncoding = true ∧ s' = answer s c (.error .unsupported) := by
  simp only [step] at h
  split at h
  · rename_i hc; cases h; exact ⟨hc.1, hc.2, rfl⟩
  · cases h

theorem step_submit {c : Nat} (h : step cfg s (.submit c) = some s') :
    s.phase c = .resolved ∧ (spec cfg c).badEncoding = false ∧
    (((s.execs (cfg.select (spec cfg c).app)).stopped = true ∧ s' = answer s c (.error .notRunning))
     ∨ ((s.execs (cfg.select (spec cfg c).app)).stopped = false ∧
        s' = { s with
          phase := upd s.phase c (.submitted (cfg.select (spec cfg c).app) (s.execs (cfg.select (spec cfg c).app)).next)
          execs := upd s.execs (cfg.select (spec cfg c).app) { s.execs (cfg.select (spec cfg c).app) with
            started := true, next := (s.execs (cfg.select (spec cfg c).app)).next + 1,
            pending := ((s.execs (cfg.select (spec cfg c).app)).next, c) :: (s.execs (cfg.select (spec cfg c).app)).pending,
            taskQ := (s.execs (cfg.select (spec cfg c).app)).taskQ ++ [⟨(s.execs (cfg.select (spec cfg c).app)).next, entryOf cfg c⟩] } })) := by
  simp only [step] at h
  split at h
  · rename_i hc
    refine ⟨hc.1, hc.2, ?_⟩
    split at h
    · rename_i hs; cases h; exact Or.inl ⟨hs, rfl⟩
    · rename_i hs; cases h; exact Or.inr ⟨by simpa using hs, rfl⟩
  · cases h

theorem step_take {i w : Nat} (h : step cfg s (.take i w) = some s') :
    w < cfg.workers ∧ (s.execs i).stopped = false ∧ (s.execs i).held.lookup w = none ∧
    ∃ t q, (s.execs i).taskQ = t :: q ∧
      s' = { s with execs := upd s.execs i { s.execs i with taskQ := q, held := (w, t) :: (s.execs i).held } } := by
  simp only [step] at h
  split at h
  · rename_i hc
    refine ⟨hc.1, hc.2.1, hc.2.2, ?_⟩
    split at h
    · cases h
    · rename_i t q hq; cases h; exact ⟨t, q, hq, rfl⟩
  · cases h

theorem step_finish {i w : Nat} (h : step cfg s (.finish i w) = some s') :
    ∃ t, (s.execs i).held.lookup w = some t ∧
      s' = { s with execs := upd s.execs i { s.execs i with
        held := (s.execs i).held.erase (w, t),
        resultQ := (s.execs i).resultQ ++ [⟨t.id, (workerCall cfg.reset i (cfg.fanout i) ((s.execs i).carry w) t.entry).1⟩],
        stopped := (s.execs i).stopped || decide (t.entry.kind = .fatal),
        carry := upd (s.execs i).carry w (workerCall cfg.reset i (cfg.fanout i) ((s.execs i).carry w) t.entry).2 } } := by
  simp only [step] at h
  split at h
  · cases h
  · rename_i t ht; cases h; exact ⟨t, ht, rfl⟩

theorem step_deliver {i : Nat} (h : step cfg s (.deliver i) = some s') :
    (s.execs i).stopped = false ∧ ∃ r q, (s.execs i).resultQ = r :: q ∧
      (((s.execs i).pending.lookup r.id = none ∧
          s' = { s with execs := upd s.execs i { s.execs i with resultQ := q, stopped := true } })
       ∨ (∃ c err, (s.execs i).pending.lookup r.id = some c ∧ r.out.err? = some err ∧
          s' = { answer s c (.error err) with
            execs := upd s.execs i { s.execs i with resultQ := q, pending := (s.execs i).pending.erase (r.id, c) } })
       ∨ (∃ c, (s.execs i).pending.lookup r.id = some c ∧ r.out.err? = none ∧
          s' = { s with
            phase := upd s.phase c (.responding r.out)
            execs := upd s.execs i { s.execs i with resultQ := q, pending := (s.execs i).pending.erase (r.id, c) } })) := by
  simp only [step] at h
  split at h
  · cases h
  · rename_i hs
    refine ⟨by simpa using hs, ?_⟩
    split at h
    · cases h
    · rename_i r q hq
      refine ⟨r, q, hq, ?_⟩
      split at h
      · rename_i hl; cases h; exact Or.inl ⟨hl, rfl⟩
      · rename_i c hl
        split at h
        · rename_i err ho; cases h; exact Or.inr (Or.inl ⟨c, err, hl, ho, rfl⟩)
        · rename_i ho; cases h; exact Or.inr (Or.inr ⟨c, hl, ho, rfl⟩)

theorem step_respond {c : Nat} (h : step cfg s (.respond c) = some s') :
    ∃ o, s.phase c = .responding o ∧ s' = answer s c (encode cfg c o) := by
  simp only [step] at h
  split at h
  · rename_i o hp; cases h; exact ⟨o, hp, rfl⟩
  · cases h

/-! ### group E: every executor keeps its id bookkeeping -/

theorem execOk_step (a : Step) (h : ∀ i, ExecOk (s.execs i)) (hs : step cfg s a = some s') :
    ∀ i, ExecOk (s'.execs i) := by
  intro j
  cases a with
  | arrive c => obtain ⟨_, _, rfl⟩ := step_arrive hs; exact h j
  | desc c =>
    rcases step_desc hs with ⟨_, _, _, rfl⟩ | ⟨_, _, _, rfl⟩ | ⟨_, rfl⟩ | ⟨_, _, rfl⟩ | ⟨_, _, rfl⟩ | ⟨_, _, _, rfl⟩ | ⟨_, _, _, rfl⟩
      <;> exact h j
  | decodeFail c => obtain ⟨_, _, rfl⟩ := step_decodeFail hs; exact h j
  | submit c =>
    obtain ⟨_, _, ⟨_, rfl⟩ | ⟨_, rfl⟩⟩ := step_submit hs
    · exact h j
    · simp only [upd]; split
      · exact (h _).submit c _
      · exact h j
  | take i w =>
    obtain ⟨_, _, _, t, q, hq, rfl⟩ := step_take hs
    simp only [upd]; split
    · exact (h i).take w t q hq
    · exact h j
  | finish i w =>
    obtain ⟨t, ht, rfl⟩ := step_finish hs
    simp only [upd]; split
    · exact (h i).finish w t _ _ _ (lookup_mem ht)
    · exact h j
  | deliver i =>
    obtain ⟨_, r, q, hq, ⟨hl, rfl⟩ | ⟨c, err, hl, _, rfl⟩ | ⟨c, hl, _, rfl⟩⟩ := step_deliver hs
    · -- KeyError branch: impossible, the result's id is in flight hence pending
      exfalso
      have : r.id ∈ inflight (s.execs i) := by simp [inflight, hq]
      exact lookup_none hl (((h i).fl_keys _).1 this)
    · simp only [answer, upd]; split
      · exact (h i).deliver r q c hq (lookup_mem hl)
      · exact h j
    · simp only [upd]; split
      · exact (h i).deliver r q c hq (lookup_mem hl)
      · exact h j
  | respond c => obtain ⟨_, _, rfl⟩ := step_respond hs; exact h j

/-! ### group D: descriptor cache and lock -/

def critical : Phase → Prop
  | .d1 | .d2 _ | .d3 _ | .d4 _ => True
  | _ => False

instance : DecidablePred critical := fun p => by cases p <;> simp [critical] <;> infer_instance

structure InvD (cfg : Config) (s : State) : Prop where
  cache_inv : ∀ a, a ∈ s.cache → a ∈ cfg.inventory
  listed_inv : ∀ c l, s.phase c = .d2 l → l = cfg.inventory
  upd_inv : ∀ c u, (s.phase c = .d3 u ∨ s.phase c = .d4 u) → ∀ a, a ∈ u → a ∈ cfg.inventory
  res_known : ∀ c, s.phase c = .resolved → (spec cfg c).app ∈ cfg.inventory
  lock_off : cfg.locked = false → s.lock = none
  lock_crit : ∀ c, s.lock = some c → critical (s.phase c)
  crit_lock : cfg.locked = true → ∀ c, critical (s.phase c) → s.lock = some c
  lk_fresh : cfg.locked = true → ∀ c, (s.phase c = .d1 ∨ ∃ l, s.phase c = .d2 l) → (spec cfg c).app ∉ s.cache
  lk_upd : cfg.locked = true → ∀ c u, (s.phase c = .d3 u ∨ s.phase c = .d4 u) →
    (spec cfg c).app ∈ cfg.inventory → (spec cfg c).app ∈ u

theorem InvD.init : InvD cfg Serving.init := by
  constructor <;> simp [Serving.init, critical]

/-- steps that do not touch cache/lock and move callers only between non-descriptor phases -/
theorem InvD.frame (h : InvD cfg s) (hc : s'.cache = s.cache) (hl : s'.lock = s.lock)
    (hp : ∀ c, s'.phase c = s.phase c ∨
      (¬ critical (s'.phase c) ∧ s'.phase c ≠ .resolved ∧ ¬ critical (s.phase c))) : InvD cfg s' := by
  obtain ⟨h1, h2, h3, h4, h5, h6, h7, h8, h9⟩ := h
  constructor
  · intro a; rw [hc]; exact h1 a
  · intro c l e; rcases hp c with p | ⟨p, _, _⟩
    · exact h2 c l (p ▸ e)
    · simp [e, critical] at p
  · intro c u e; rcases hp c with p | ⟨p, _, _⟩
    · exact h3 c u (p ▸ e)
    · rcases e with e | e <;> simp [e, critical] at p
  · intro c e; rcases hp c with p | ⟨_, p, _⟩
    · exact h4 c (p ▸ e)
    · exact absurd e p
  · intro e; rw [hl]; exact h5 e
  · intro c e; rw [hl] at e; rcases hp c with p | ⟨_, _, p⟩
    · rw [p]; exact h6 c e
    · exact absurd (h6 c e) p
  · intro e c k; rw [hl]; rcases hp c with p | ⟨p, _, _⟩
    · exact h7 e c (p ▸ k)
    · exact absurd k p
  · intro e c k; rw [hc]; rcases hp c with p | ⟨p, _, _⟩
    · exact h8 e c (p ▸ k)
    · rcases k with k | ⟨l, k⟩ <;> simp [k, critical] at p
  · intro e c u k; rcases hp c with p | ⟨p, _, _⟩
    · exact h9 e c u (p ▸ k)
    · rcases k with k | k <;> simp [k, critical] at p

def hasFatal (cfg : Config) : Bool := cfg.callers.any (fun sp => decide (sp.entry.kind = .fatal))

theorem hasFatal_of_caller {c : Nat} (hc : c < cfg.callers.length) (hk : (entryOf cfg c).kind = .fatal) :
    hasFatal cfg = true := by
  simp only [hasFatal, List.any_eq_true, decide_eq_true_eq]
  refine ⟨cfg.callers[c], List.getElem_mem hc, ?_⟩
  simpa [entryOf, spec, List.getD, hc] using hk

structure InvC (cfg : Config) (s : State) : Prop where
  ans_done : ∀ c o, (c, o) ∈ s.answers → s.phase c = .done
  ans_nodup : (s.answers.map (·.1)).Nodup
  ans_ok : ∀ c o, (c, o) ∈ s.answers → o = expected cfg c ∨ (o = .error .missingApp ∧ cfg.locked = false)
    ∨ (o = .error .notRunning ∧ hasFatal cfg = true) ∨ cfg.reset ≠ .always
  pend_phase : ∀ i id c, (id, c) ∈ (s.execs i).pending → s.phase c = .submitted i id
  pend_exp : ∀ i id c, (id, c) ∈ (s.execs i).pending →
    expected cfg c = finalOf cfg c (runInst cfg i (entryOf cfg c)) ∧ i = cfg.select (spec cfg c).app
  sub_pend : ∀ c i id, s.phase c = .submitted i id → (id, c) ∈ (s.execs i).pending
  task_data : ∀ i t c, (t ∈ (s.execs i).taskQ ∨ t ∈ (s.execs i).held.map (·.2)) →
    (t.id, c) ∈ (s.execs i).pending → t.entry = entryOf cfg c
  res_data : cfg.reset = .always → ∀ i r c, r ∈ (s.execs i).resultQ → (r.id, c) ∈ (s.execs i).pending →
    r.out = runInst cfg i (entryOf cfg c)
  stop_fatal : ∀ i, (s.execs i).stopped = true → hasFatal cfg = true
  arrived_lt : ∀ c, s.phase c ≠ .fresh → c < cfg.callers.length
  done_ans : ∀ c, s.phase c = .done → ∃ o, (c, o) ∈ s.answers
  held_lt : ∀ i w t, (w, t) ∈ (s.execs i).held → w < cfg.workers
  resp_ok : cfg.reset = .always → ∀ c o, s.phase c = .responding o → encode cfg c o = expected cfg c

theorem InvC.init : InvC cfg Serving.init := by
  constructor <;> simp [Serving.init]

/-- a caller moves between phases other than `submitted`/`responding`/`done`; executors and answers untouched -/
theorem InvC.phase_only (h : InvC cfg s) (c : Nat) (p : Phase)
    (he : s'.execs = s.execs) (ha : s'.answers = s.answers) (hp : s'.phase = upd s.phase c p)
    (h0 : ∀ i id, s.phase c ≠ .submitted i id) (h1 : s.phase c ≠ .done)
    (h2 : ∀ i id, p ≠ .submitted i id) (h4 : p ≠ .done) (h5 : ∀ o, p ≠ .responding o)
    (h3 : c < cfg.callers.length) : InvC cfg s' := by
  obtain ⟨a1, a2, a3, a4, a5, a6, a7, a8, a9, a10, a11, a12, a13⟩ := h
  constructor <;> simp only [he, ha, hp, upd] <;> grind

/-- a caller in a phase other than `submitted`/`done` is answered; executors untouched -/
theorem InvC.answered (h : InvC cfg s) (c : Nat) (o : Outcome)
    (he : s'.execs = s.execs) (ha : s'.answers = (c, o) :: s.answers) (hp : s'.phase = upd s.phase c .done)
    (h0 : ∀ i id, s.phase c ≠ .submitted i id) (h1 : s.phase c ≠ .done) (h3 : c < cfg.callers.length)
    (ho : o = expected cfg c ∨ (o = .error .missingApp ∧ cfg.locked = false)
      ∨ (o = .error .notRunning ∧ hasFatal cfg = true) ∨ cfg.reset ≠ .always) : InvC cfg s' := by
  obtain ⟨a1, a2, a3, a4, a5, a6, a7, a8, a9, a10, a11, a12, a13⟩ := h
  constructor <;> simp only [he, ha, hp, upd] <;> grind

theorem InvC.submit (h : InvC cfg s) (hE : ∀ i, ExecOk (s.execs i)) (c : Nat)
    (hp : s.phase c = .resolved) (hb : (spec cfg c).badEncoding = false)
    (hk : (spec cfg c).app ∈ cfg.inventory) :
    InvC cfg { s with
          phase := upd s.phase c (.submitted (cfg.select (spec cfg c).app) (s.execs (cfg.select (spec cfg c).app)).next)
          execs := upd s.execs (cfg.select (spec cfg c).app) { s.execs (cfg.select (spec cfg c).app) with
            started := true, next := (s.execs (cfg.select (spec cfg c).app)).next + 1,
            pending := ((s.execs (cfg.select (spec cfg c).app)).next, c) :: (s.execs (cfg.select (spec cfg c).app)).pending,
            taskQ := (s.execs (cfg.select (spec cfg c).app)).taskQ ++ [⟨(s.execs (cfg.select (spec cfg c).app)).next, entryOf cfg c⟩] } } := by
  obtain ⟨a1, a2, a3, a4, a5, a6, a7, a8, a9, a10, a11, a12, a13⟩ := h
  generalize hi : cfg.select (spec cfg c).app = i at *
  have hx : expected cfg c = finalOf cfg c (runInst cfg i (entryOf cfg c)) := by simp [expected, hk, hb, hi]
  have e1 := (hE i).keys_lt
  have e2 := (hE i).fl_keys
  have fresh : ∀ c', ((s.execs i).next, c') ∉ (s.execs i).pending := by
    intro c' hm
    have := e1 _ (List.mem_map_of_mem (f := (·.1)) hm)
    simp at this
  have tfresh : ∀ t, t ∈ (s.execs i).taskQ ∨ t ∈ (s.execs i).held.map (·.2) → t.id ≠ (s.execs i).next := by
    intro t ht he
    have : t.id ∈ inflight (s.execs i) := by
      simp only [inflight, List.mem_append, List.mem_map]
      rcases ht with ht | ht
      · exact Or.inl (Or.inl ⟨t, ht, rfl⟩)
      · obtain ⟨x, hx, rfl⟩ := List.mem_map.1 ht
        exact Or.inl (Or.inr ⟨x, hx, rfl⟩)
    have := e1 _ ((e2 _).1 this)
    omega
  have rfresh : ∀ r, r ∈ (s.execs i).resultQ → r.id ≠ (s.execs i).next := by
    intro r hr he
    have : r.id ∈ inflight (s.execs i) := by
      simp only [inflight, List.mem_append, List.mem_map]
      exact Or.inr ⟨r, hr, rfl⟩
    have := e1 _ ((e2 _).1 this)
    omega
  constructor <;> simp only [upd] <;> grind

theorem InvC.take (h : InvC cfg s) (i w : Nat) (t : Task) (q : List Task) (hq : (s.execs i).taskQ = t :: q)
    (hw : w < cfg.workers) :
    InvC cfg { s with execs := upd s.execs i { s.execs i with taskQ := q, held := (w, t) :: (s.execs i).held } } := by
  obtain ⟨a1, a2, a3, a4, a5, a6, a7, a8, a9, a10, a11, a12, a13⟩ := h
  constructor <;> simp only [upd] <;> grind

theorem mem_inflight_held {e : Exec} {w : Nat} {t : Task} (h : (w, t) ∈ e.held) : t.id ∈ inflight e := by
  simp only [inflight, List.mem_append, List.mem_map]
  exact Or.inl (Or.inr ⟨(w, t), h, rfl⟩)

theorem mem_keys_iff {e : Exec} {id : Nat} : id ∈ keys e ↔ ∃ c, (id, c) ∈ e.pending := by
  simp [keys]

theorem InvC.finish (h : InvC cfg s) (hE : ∀ i, ExecOk (s.execs i)) (i w : Nat) (t : Task) (o : Outcome)
    (cr : Nat → Carry) (hm : (w, t) ∈ (s.execs i).held) (ho : cfg.reset = .always → o = runInst cfg i t.entry) :
    InvC cfg { s with execs := upd s.execs i { s.execs i with
        held := (s.execs i).held.erase (w, t), resultQ := (s.execs i).resultQ ++ [⟨t.id, o⟩],
        stopped := (s.execs i).stopped || decide (t.entry.kind = .fatal), carry := cr } } := by
  obtain ⟨c, hc⟩ := mem_keys_iff.1 (((hE i).fl_keys _).1 (mem_inflight_held hm))
  obtain ⟨a1, a2, a3, a4, a5, a6, a7, a8, a9, a10, a11, a12, a13⟩ := h
  have hd : t.entry = entryOf cfg c := a7 i t c (Or.inr (List.mem_map.2 ⟨(w, t), hm, rfl⟩)) hc
  have hlt : c < cfg.callers.length := a10 c (by rw [a4 i _ c hc]; simp)
  have hf : t.entry.kind = .fatal → hasFatal cfg = true := fun hk => hasFatal_of_caller hlt (hd ▸ hk)
  have her : ∀ x, x ∈ (s.execs i).held.erase (w, t) → x ∈ (s.execs i).held := fun x hx => List.mem_of_mem_erase hx
  constructor <;> simp only [upd] <;> grind

theorem nodup_of_map_fst (l : List (Nat × Nat)) (h : (l.map (·.1)).Nodup) : l.Nodup := by
  induction l with
  | nil => simp
  | cons x r ih =>
    simp only [List.map_cons, List.nodup_cons, List.mem_map] at h ⊢
    exact ⟨fun hx => h.1 ⟨x, hx, rfl⟩, ih h.2⟩

theorem finalOf_error (c : Nat) (err : Err) : finalOf cfg c (.error err) = .error err := rfl

theorem finalOf_of_none (c : Nat) (o : Outcome) (h : o.err? = none) : finalOf cfg c o = encode cfg c o := by
  cases o <;> simp_all [finalOf, Outcome.err?]

theorem eq_error_of_err? {o : Outcome} {err : Err} (h : o.err? = some err) : o = .error err := by
  cases o <;> simp_all [Outcome.err?]

/-- `Executor.run` resolves the pending future with an exception: the coroutine of `c` raises it -/
theorem InvC.deliver_error (h : InvC cfg s) (hE : ∀ i, ExecOk (s.execs i)) (i c : Nat) (r : Result) (q : List Result)
    (err : Err) (hq : (s.execs i).resultQ = r :: q) (hm : (r.id, c) ∈ (s.execs i).pending)
    (ho : r.out.err? = some err) :
    InvC cfg { answer s c (.error err) with
            execs := upd s.execs i { s.execs i with resultQ := q, pending := (s.execs i).pending.erase (r.id, c) } } := by
  obtain ⟨a1, a2, a3, a4, a5, a6, a7, a8, a9, a10, a11, a12, a13⟩ := h
  have hnd : (s.execs i).pending.Nodup := nodup_of_map_fst _ (hE i).keys_nodup
  have her : ∀ x, x ∈ (s.execs i).pending.erase (r.id, c) ↔ x ≠ (r.id, c) ∧ x ∈ (s.execs i).pending :=
    fun x => hnd.mem_erase_iff
  have hph := a4 i _ c hm
  have hout : cfg.reset = .always → Outcome.error err = expected cfg c := by
    intro hr
    rw [(a5 i _ c hm).1, ← a8 hr i r c (by simp [hq]) hm, eq_error_of_err? ho]; rfl
  have hdec : cfg.reset = .always ∨ cfg.reset ≠ .always := Decidable.em _
  constructor <;> simp only [answer, upd] <;> grind

/-- `Executor.run` resolves the pending future with a value: the coroutine of `c` goes on to `respond` -/
theorem InvC.deliver_value (h : InvC cfg s) (hE : ∀ i, ExecOk (s.execs i)) (i c : Nat) (r : Result) (q : List Result)
    (hq : (s.execs i).resultQ = r :: q) (hm : (r.id, c) ∈ (s.execs i).pending)
    (ho : r.out.err? = none) :
    InvC cfg { s with
            phase := upd s.phase c (.responding r.out)
            execs := upd s.execs i { s.execs i with resultQ := q, pending := (s.execs i).pending.erase (r.id, c) } } := by
  obtain ⟨a1, a2, a3, a4, a5, a6, a7, a8, a9, a10, a11, a12, a13⟩ := h
  have hnd : (s.execs i).pending.Nodup := nodup_of_map_fst _ (hE i).keys_nodup
  have her : ∀ x, x ∈ (s.execs i).pending.erase (r.id, c) ↔ x ≠ (r.id, c) ∧ x ∈ (s.execs i).pending :=
    fun x => hnd.mem_erase_iff
  have hph := a4 i _ c hm
  have hlt : c < cfg.callers.length := a10 c (by rw [hph]; simp)
  have hout : cfg.reset = .always → encode cfg c r.out = expected cfg c := by
    intro hr
    rw [(a5 i _ c hm).1, ← a8 hr i r c (by simp [hq]) hm, finalOf_of_none c r.out ho]
  constructor <;> simp only [upd] <;> grind

theorem invD_step (a : Step) (h : InvD cfg s)
    (hC : ∀ i id c, (id, c) ∈ (s.execs i).pending → s.phase c = .submitted i id)
    (hs : step cfg s a = some s') : InvD cfg s' := by
  cases a with
  | arrive c =>
    obtain ⟨_, hf, rfl⟩ := step_arrive hs
    refine h.frame rfl rfl (fun c' => ?_)
    by_cases e : c' = c
    · subst e; right; simp [critical, hf]
    · left; simp [upd, e]
  | decodeFail c =>
    obtain ⟨hf, _, rfl⟩ := step_decodeFail hs
    refine h.frame rfl rfl (fun c' => ?_)
    by_cases e : c' = c
    · subst e; right; simp [answer, critical, hf]
    · left; simp [answer, upd, e]
  | submit c =>
    obtain ⟨hf, _, ⟨_, rfl⟩ | ⟨_, rfl⟩⟩ := step_submit hs
    · refine h.frame rfl rfl (fun c' => ?_)
      by_cases e : c' = c
      · subst e; right; simp [answer, critical, hf]
      · left; simp [answer, upd, e]
    · refine h.frame rfl rfl (fun c' => ?_)
      by_cases e : c' = c
      · subst e; right; simp [critical, hf]
      · left; simp [upd, e]
  | take i w =>
    obtain ⟨_, _, _, t, q, hq, rfl⟩ := step_take hs
    exact h.frame rfl rfl (fun c' => Or.inl rfl)
  | finish i w =>
    obtain ⟨t, ht, rfl⟩ := step_finish hs
    exact h.frame rfl rfl (fun c' => Or.inl rfl)
  | deliver i =>
    obtain ⟨_, r, q, hq, ⟨hl, rfl⟩ | ⟨c, err, hl, _, rfl⟩ | ⟨c, hl, _, rfl⟩⟩ := step_deliver hs
    · exact h.frame rfl rfl (fun c' => Or.inl rfl)
    · have hf := hC i _ c (lookup_mem hl)
      refine h.frame rfl rfl (fun c' => ?_)
      by_cases e : c' = c
      · subst e; right; simp [answer, critical, hf]
      · left; simp [answer, upd, e]
    · have hf := hC i _ c (lookup_mem hl)
      refine h.frame rfl rfl (fun c' => ?_)
      by_cases e : c' = c
      · subst e; right; simp [critical, hf]
      · left; simp [upd, e]
  | respond c =>
    obtain ⟨o, hf, rfl⟩ := step_respond hs
    refine h.frame rfl rfl (fun c' => ?_)
    by_cases e : c' = c
    · subst e; right; simp [answer, critical, hf]
    · left; simp [answer, upd, e]
  | desc c =>
    obtain ⟨h1, h2, h3, h4, h5, h6, h7, h8, h9⟩ := h
    rcases step_desc hs with ⟨hp, hl, hc, rfl⟩ | ⟨hp, hl, hc, rfl⟩ | ⟨hp, rfl⟩ | ⟨l, hp, rfl⟩ | ⟨u, hp, rfl⟩ | ⟨u, hp, hc, rfl⟩ | ⟨u, hp, hc, rfl⟩
    · constructor <;> simp only [upd] <;> grind [critical]
    · constructor <;> simp only [upd] <;> grind [critical]
    · constructor <;> simp only [upd] <;> grind [critical]
    · constructor <;> simp only [upd] <;> grind [critical]
    · constructor <;> simp only [upd] <;> grind [critical]
    · constructor <;> simp only [upd] <;> grind [critical]
    · constructor <;> simp only [answer, upd] <;> grind [critical]

theorem invC_step (a : Step) (h : InvC cfg s) (hE : ∀ i, ExecOk (s.execs i)) (hD : InvD cfg s)
    (hW : cfg.reset = .always → ∀ i w, ((s.execs i).carry w).queue = [])
    (hs : step cfg s a = some s') : InvC cfg s' := by
  cases a with
  | arrive c =>
    obtain ⟨hlt, hf, rfl⟩ := step_arrive hs
    exact h.phase_only c .d0 rfl rfl rfl (by simp [hf]) (by simp [hf]) (by simp) (by simp) (by simp) hlt
  | desc c =>
    have hlt : ∀ p, s.phase c = p → p ≠ .fresh → c < cfg.callers.length := fun p hp hn => h.arrived_lt c (hp ▸ hn)
    rcases step_desc hs with ⟨hp, hl, hc, rfl⟩ | ⟨hp, hl, hc, rfl⟩ | ⟨hp, rfl⟩ | ⟨l, hp, rfl⟩ | ⟨u, hp, rfl⟩ | ⟨u, hp, hc, rfl⟩ | ⟨u, hp, hc, rfl⟩
    · exact h.phase_only c _ rfl rfl rfl (by simp [hp]) (by simp [hp]) (by simp) (by simp) (by simp) (hlt _ hp (by simp))
    · exact h.phase_only c _ rfl rfl rfl (by simp [hp]) (by simp [hp]) (by simp) (by simp) (by simp) (hlt _ hp (by simp))
    · exact h.phase_only c _ rfl rfl rfl (by simp [hp]) (by simp [hp]) (by simp) (by simp) (by simp) (hlt _ hp (by simp))
    · exact h.phase_only c _ rfl rfl rfl (by simp [hp]) (by simp [hp]) (by simp) (by simp) (by simp) (hlt _ hp (by simp))
    · exact h.phase_only c _ rfl rfl rfl (by simp [hp]) (by simp [hp]) (by simp) (by simp) (by simp) (hlt _ hp (by simp))
    · exact h.phase_only c _ rfl rfl rfl (by simp [hp]) (by simp [hp]) (by simp) (by simp) (by simp) (hlt _ hp (by simp))
    · refine h.answered c _ rfl rfl rfl (by simp [hp]) (by simp [hp]) (hlt _ hp (by simp)) ?_
      cases hlk : cfg.locked with
      | false => exact Or.inr (Or.inl ⟨rfl, rfl⟩)
      | true =>
        left
        have : (spec cfg c).app ∉ cfg.inventory := fun hin => hc (hD.lk_upd hlk c u (Or.inr hp) hin)
        simp [expected, this]
  | decodeFail c =>
    obtain ⟨hp, hb, rfl⟩ := step_decodeFail hs
    refine h.answered c _ rfl rfl rfl (by simp [hp]) (by simp [hp]) (h.arrived_lt c (by simp [hp])) ?_
    left; simp [expected, hD.res_known c hp, hb]
  | submit c =>
    obtain ⟨hp, hb, ⟨hst, rfl⟩ | ⟨_, rfl⟩⟩ := step_submit hs
    · refine h.answered c _ rfl rfl rfl (by simp [hp]) (by simp [hp]) (h.arrived_lt c (by simp [hp])) ?_
      exact Or.inr (Or.inr (Or.inl ⟨rfl, h.stop_fatal _ hst⟩))
    · exact h.submit hE c hp hb (hD.res_known c hp)
  | take i w =>
    obtain ⟨hw, _, _, t, q, hq, rfl⟩ := step_take hs
    exact h.take i w t q hq (by assumption)
  | finish i w =>
    obtain ⟨t, ht, rfl⟩ := step_finish hs
    exact h.finish hE i w t _ _ (lookup_mem ht)
      (fun hr => workerCall_clean _ _ _ _ _ (hW hr i w))
  | deliver i =>
    obtain ⟨_, r, q, hq, ⟨hl, rfl⟩ | ⟨c, err, hl, ho, rfl⟩ | ⟨c, hl, ho, rfl⟩⟩ := step_deliver hs
    · exfalso
      have : r.id ∈ inflight (s.execs i) := by simp [inflight, hq]
      exact lookup_none hl (((hE i).fl_keys _).1 this)
    · exact h.deliver_error hE i c r q err hq (lookup_mem hl) ho
    · exact h.deliver_value hE i c r q hq (lookup_mem hl) ho
  | respond c =>
    obtain ⟨o, hp, rfl⟩ := step_respond hs
    refine h.answered c _ rfl rfl rfl (by simp [hp]) (by simp [hp]) (h.arrived_lt c (by simp [hp])) ?_
    by_cases hr : cfg.reset = .always
    · exact Or.inl (h.resp_ok hr c o hp)
    · exact Or.inr (Or.inr (Or.inr hr))

/-- the full invariant -/
structure Inv (cfg : Config) (s : State) : Prop where
  e : ∀ i, ExecOk (s.execs i)
  d : InvD cfg s
  c : InvC cfg s
  /-- group W: with the reset of the code that exists no worker carries a replica from one task to the next -/
  w : cfg.reset = .always → ∀ i w, ((s.execs i).carry w).queue = []

/-! ### group W: what the workers carry -/

theorem invW_step (a : Step) (h : cfg.reset = .always → ∀ i w, ((s.execs i).carry w).queue = [])
    (hs : step cfg s a = some s') : cfg.reset = .always → ∀ i w, ((s'.execs i).carry w).queue = [] := by
  intro hr j v
  have h0 := h hr
  cases a with
  | arrive c => obtain ⟨_, _, rfl⟩ := step_arrive hs; exact h0 j v
  | desc c =>
    rcases step_desc hs with ⟨_, _, _, rfl⟩ | ⟨_, _, _, rfl⟩ | ⟨_, rfl⟩ | ⟨_, _, rfl⟩ | ⟨_, _, rfl⟩ | ⟨_, _, _, rfl⟩ | ⟨_, _, _, rfl⟩
      <;> exact h0 j v
  | decodeFail c => obtain ⟨_, _, rfl⟩ := step_decodeFail hs; exact h0 j v
  | submit c =>
    obtain ⟨_, _, ⟨_, rfl⟩ | ⟨_, rfl⟩⟩ := step_submit hs
    · exact h0 j v
    · simp only [upd]; split
      · rename_i hj; subst hj; exact h0 _ v
      · exact h0 j v
  | take i w =>
    obtain ⟨_, _, _, t, q, hq, rfl⟩ := step_take hs
    simp only [upd]; split
    · rename_i hj; subst hj; exact h0 _ v
    · exact h0 j v
  | finish i w =>
    obtain ⟨t, ht, rfl⟩ := step_finish hs
    simp only [upd]; split
    · rename_i hj; subst hj
      by_cases hv : v = w
      · subst hv
        show Carry.queue (upd _ v _ v) = []
        rw [upd_same, hr]; exact workerCall_always_queue _ _ _ _
      · show Carry.queue (upd _ w _ v) = []
        rw [upd_other _ _ _ _ hv]; exact h0 _ v
    · exact h0 j v
  | deliver i =>
    obtain ⟨_, r, q, hq, ⟨hl, rfl⟩ | ⟨c, err, hl, _, rfl⟩ | ⟨c, hl, _, rfl⟩⟩ := step_deliver hs
    · simp only [upd]; split
      · rename_i hj; subst hj; exact h0 _ v
      · exact h0 j v
    · simp only [answer, upd]; split
      · rename_i hj; subst hj; exact h0 _ v
      · exact h0 j v
    · simp only [upd]; split
      · rename_i hj; subst hj; exact h0 _ v
      · exact h0 j v
  | respond c => obtain ⟨_, _, rfl⟩ := step_respond hs; exact h0 j v

theorem Inv.init : Inv cfg Serving.init := ⟨fun _ => ExecOk.init, InvD.init, InvC.init, fun _ _ _ => rfl⟩

theorem Inv.step (a : Step) (h : Inv cfg s) (hs : step cfg s a = some s') : Inv cfg s' :=
  ⟨execOk_step a h.e hs, invD_step a h.d h.c.pend_phase hs, invC_step a h.c h.e h.d h.w hs, invW_step a h.w hs⟩

theorem Inv.run (sched : List Step) (h : Inv cfg s) (hs : run cfg s sched = some s') : Inv cfg s' := by
  induction sched generalizing s with
  | nil => simp [Serving.run] at hs; exact hs ▸ h
  | cons a as ih =>
    simp only [Serving.run] at hs
    split at hs
    · cases hs
    · rename_i s1 h1; exact ih (h.step a h1) hs

theorem stuck_none (h : stuck cfg s = true) {a : Step} (ha : a ∈ candidates cfg (instsOf cfg)) :
    step cfg s a = none := by
  simp only [stuck, enabled, List.isEmpty_iff, List.filter_eq_nil_iff] at h
  have := h a ha
  cases hs : step cfg s a with
  | none => rfl
  | some x => simp [hs] at this

theorem cand_desc {c : Nat} (h : c < cfg.callers.length) : Step.desc c ∈ candidates cfg (instsOf cfg) := by
  simp [candidates, h]
theorem cand_decodeFail {c : Nat} (h : c < cfg.callers.length) : Step.decodeFail c ∈ candidates cfg (instsOf cfg) := by
  simp [candidates, h]
theorem cand_submit {c : Nat} (h : c < cfg.callers.length) : Step.submit c ∈ candidates cfg (instsOf cfg) := by
  simp [candidates, h]
theorem inst_mem {c : Nat} (h : c < cfg.callers.length) : cfg.select (spec cfg c).app ∈ instsOf cfg := by
  simp only [instsOf, List.mem_map]
  exact ⟨cfg.callers[c], List.getElem_mem h, by simp [spec, List.getD, h]⟩
theorem cand_take {i w : Nat} (hi : i ∈ instsOf cfg) (hw : w < cfg.workers) :
    Step.take i w ∈ candidates cfg (instsOf cfg) := by
  simp [candidates, hi, hw]
theorem cand_finish {i w : Nat} (hi : i ∈ instsOf cfg) (hw : w < cfg.workers) :
    Step.finish i w ∈ candidates cfg (instsOf cfg) := by
  simp [candidates, hi, hw]
theorem cand_deliver {i : Nat} (hi : i ∈ instsOf cfg) : Step.deliver i ∈ candidates cfg (instsOf cfg) := by
  simp [candidates, hi]
theorem cand_respond {c : Nat} (h : c < cfg.callers.length) : Step.respond c ∈ candidates cfg (instsOf cfg) := by
  simp [candidates, h]

theorem isSome_ne_none {α} {o : Option α} (h : o.isSome = true) : o ≠ none := by
  cases o <;> simp at h ⊢

/-- progress: in a stuck reachable state without stopped executors every arrived caller is done -/
theorem Inv.stuck_done (h : Inv cfg s) (hw : 1 ≤ cfg.workers) (hns : ∀ i, (s.execs i).stopped = false)
    (hst : stuck cfg s = true) (c : Nat) (hc : s.phase c ≠ .fresh) : s.phase c = .done := by
  have hlt := h.c.arrived_lt c hc
  have descOn : ∀ c', c' < cfg.callers.length → critical (s.phase c') → False := by
    intro c' hl hcr
    have := stuck_none hst (cand_desc hl)
    simp only [Serving.step] at this
    split at this <;> first | (simp_all [critical]; done) | (split at this <;> cases this)
  cases hp : s.phase c with
  | fresh => exact absurd hp hc
  | done => rfl
  | d1 => exact (descOn c hlt (by simp [hp, critical])).elim
  | d2 l => exact (descOn c hlt (by simp [hp, critical])).elim
  | d3 u => exact (descOn c hlt (by simp [hp, critical])).elim
  | d4 u => exact (descOn c hlt (by simp [hp, critical])).elim
  | d0 =>
    exfalso
    have := stuck_none hst (cand_desc hlt)
    simp only [Serving.step, hp] at this
    split at this
    · rename_i hl
      cases hlk : s.lock with
      | none => exact hl.2 hlk
      | some c' =>
        have hcr := h.d.lock_crit c' hlk
        exact descOn c' (h.c.arrived_lt c' (by intro e; simp [e, critical] at hcr)) hcr
    · split at this <;> cases this
  | resolved =>
    exfalso
    cases hb : (spec cfg c).badEncoding with
    | true =>
      have := stuck_none hst (cand_decodeFail hlt)
      simp [Serving.step, hp, hb] at this
    | false =>
      have := stuck_none hst (cand_submit hlt)
      simp only [Serving.step, hp, hb] at this
      simp at this
      split at this <;> cases this
  | responding o =>
    exfalso
    have := stuck_none hst (cand_respond hlt)
    simp [Serving.step, hp] at this
  | submitted i id =>
    exfalso
    have hm := h.c.sub_pend c i id hp
    have hi : i ∈ instsOf cfg := by rw [(h.c.pend_exp i id c hm).2]; exact inst_mem hlt
    have hfl : id ∈ inflight (s.execs i) := ((h.e i).fl_keys id).2 (mem_keys_iff.2 ⟨c, hm⟩)
    simp only [inflight, List.mem_append, List.mem_map] at hfl
    have nostop := hns i
    rcases hfl with (⟨t, ht, _⟩ | ⟨x, hx, _⟩) | ⟨r, hr, _⟩
    · -- a queued task: a free worker can take it, or worker 0 can finish
      by_cases hfree : ∃ w, w < cfg.workers ∧ (s.execs i).held.lookup w = none
      · obtain ⟨w, hwl, hwf⟩ := hfree
        have := stuck_none hst (cand_take hi hwl)
        simp only [Serving.step] at this
        cases hq : (s.execs i).taskQ with
        | nil => simp [hq] at ht
        | cons t' q => simp [hq, hwl, nostop, hwf] at this
      · have : (s.execs i).held.lookup 0 ≠ none := fun e => hfree ⟨0, by omega, e⟩
        have hs := stuck_none hst (cand_finish hi (w := 0) (by omega))
        simp only [Serving.step] at hs
        split at hs
        · rename_i e; exact this e
        · cases hs
    · -- a held task: its worker can finish
      obtain ⟨w, t⟩ := x
      have hwl := h.c.held_lt i w t hx
      have hs := stuck_none hst (cand_finish hi hwl)
      simp only [Serving.step] at hs
      split at hs
      · rename_i e
        exact lookup_none e (List.mem_map.2 ⟨(w, t), hx, rfl⟩)
      · cases hs
    · -- a queued result: the executor thread can deliver
      have hs := stuck_none hst (cand_deliver hi)
      simp only [Serving.step, nostop] at hs
      cases hq : (s.execs i).resultQ with
      | nil => simp [hq] at hr
      | cons r' q =>
        simp only [hq] at hs
        simp at hs
        split at hs
        · cases hs
        · split at hs <;> cases hs

end ForML.Serving
